(** C12 — proofs about Model/Limiter.v. *)
From KV Require Import Bytes RustInt Limiter.
From Coq Require Import ZifyBool ZifyNat ZifyN.
Open Scope N_scope.
Arguments N.add : simpl never. Arguments N.sub : simpl never. Arguments N.mul : simpl never.
Arguments N.eqb : simpl never. Arguments N.ltb : simpl never. Arguments N.leb : simpl never.
Arguments N.div : simpl never. Arguments N.modulo : simpl never. Arguments N.max : simpl never.
Arguments N.of_nat : simpl never. Arguments N.to_nat : simpl never.

Definition third : N := 6148914691236517205.
Lemma third_val : usize_max / 3 = third. Proof. reflexivity. Qed.
Lemma usize_val : usize_max = 18446744073709551615. Proof. reflexivity. Qed.
Lemma fits_third n : fits n <-> N.of_nat n <= third.
Proof. unfold fits. rewrite third_val. reflexivity. Qed.

(** * The map *)
Lemma map_get_set_same a v m : map_get a (map_set a v m) = Some v.
Proof.
  induction m as [|[k w] r IH]; cbn [map_set map_get].
  - rewrite N.eqb_refl. reflexivity.
  - destruct (N.eqb_spec k a) as [E|E]; cbn [map_get].
    + subst. rewrite N.eqb_refl. reflexivity.
    + destruct (N.eqb_spec k a); [contradiction|]. exact IH.
Qed.

Lemma map_get_set_other a b v m : a <> b -> map_get b (map_set a v m) = map_get b m.
Proof.
  intros Hab. induction m as [|[k w] r IH]; cbn [map_set map_get].
  - destruct (N.eqb_spec a b); [contradiction|]. reflexivity.
  - destruct (N.eqb_spec k a) as [E|E]; cbn [map_get].
    + subst. destruct (N.eqb_spec a b); [contradiction|]. reflexivity.
    + destruct (N.eqb_spec k b); [reflexivity|]. exact IH.
Qed.

Lemma count_le_length a l : count a l <= N.of_nat (length l).
Proof.
  induction l as [|x r IH]; cbn [count length]; [lia|].
  destruct (x =? a); lia.
Qed.

Lemma count_app a l1 l2 : count a (l1 ++ l2) = count a l1 + count a l2.
Proof. induction l1 as [|x r IH]; cbn [count app]; [lia|]. rewrite IH. lia. Qed.

(** * The ladder of the reference: three zones *)
Lemma ladder_passed max n : ladder max n = Passed <-> n <= max.
Proof.
  unfold ladder. destruct (N.leb_spec n max); [tauto|].
  destruct (N.leb_spec n (3 * max)); split; intros; try discriminate; lia.
Qed.
Lemma ladder_send max n : ladder max n = Send <-> max < n <= 3 * max.
Proof.
  unfold ladder. destruct (N.leb_spec n max); [split; intros; [discriminate|lia]|].
  destruct (N.leb_spec n (3 * max)); split; intros; try discriminate; try lia. reflexivity.
Qed.
Lemma ladder_drop max n : ladder max n = Drop <-> 3 * max < n.
Proof.
  unfold ladder. destruct (N.leb_spec n max); [split; intros; [discriminate|lia]|].
  destruct (N.leb_spec n (3 * max)); split; intros; try discriminate; try lia. reflexivity.
Qed.
Lemma ladder_mono max n m : n <= m -> action_code (ladder max n) <= action_code (ladder max m).
Proof.
  intros H. unfold ladder.
  destruct (N.leb_spec n max), (N.leb_spec m max), (N.leb_spec n (3 * max)), (N.leb_spec m (3 * max));
    cbn [action_code]; lia.
Qed.

(** * Sampling: the wrap-around counter is "every k-th call" *)
Lemma sampled_counter k seen : 2 <= k ->
  (seen mod k + 1 <? k) = negb (sampled k seen) /\
  (if seen mod k + 1 <? k then seen mod k + 1 else 0) = (seen + 1) mod k.
Proof.
  intros Hk. unfold sampled.
  assert (Hk0 : k <> 0) by lia.
  pose proof (N.mod_upper_bound seen k Hk0) as Hlt.
  assert (E : (seen + 1) mod k = (seen mod k + 1) mod k).
  { rewrite (N.add_mod seen 1 k Hk0). rewrite (N.mod_small 1 k) by lia. reflexivity. }
  replace (k <=? 1) with false by lia. cbn [orb].
  destruct (N.ltb_spec (seen mod k + 1) k) as [H|H].
  - rewrite E, (N.mod_small _ _ H). split; [|reflexivity].
    destruct (N.eqb_spec (seen mod k + 1) 0); [lia|reflexivity].
  - assert (E2 : seen mod k + 1 = k) by lia.
    rewrite E, E2, N.mod_same by exact Hk0. split; reflexivity.
Qed.

(** * Simulation between the code's state and the reference's state *)
Record sim (cfg : config) (st : lstate) (rs : rstate) : Prop := {
  sim_iter : iteration st = if check_every cfg <=? 1 then 0 else r_seen rs mod check_every cfg;
  sim_start : win_start st = r_start rs;
  sim_map : forall a, map_get a (conn_map st)
                      = if count a (r_counted rs) =? 0 then None else Some (count a (r_counted rs));
  sim_len : N.of_nat (length (r_counted rs)) <= r_seen rs
}.

Lemma sim_init cfg t0 : sim cfg (init t0) (rinit t0).
Proof.
  constructor; cbn [init rinit iteration win_start conn_map r_seen r_start r_counted map_get count length].
  - destruct (N.leb_spec (check_every cfg) 1); [reflexivity|]. rewrite N.mod_0_l by lia. reflexivity.
  - reflexivity.
  - intros a. reflexivity.
  - lia.
Qed.

(** One call: same verdict, related states, provided the call number is below 2^64/3. *)
Lemma step_sim checked cfg st rs a t :
  sim cfg st rs -> r_seen rs + 1 <= third ->
  snd (register checked cfg st a t) = Ok (snd (ref_step cfg rs a t)) /\
  sim cfg (fst (register checked cfg st a t)) (fst (ref_step cfg rs a t)) /\
  r_seen (fst (ref_step cfg rs a t)) <= r_seen rs + 1 /\
  (check_every cfg <> usize_max -> r_seen (fst (ref_step cfg rs a t)) = r_seen rs + 1).
Proof.
  intros [Hit Hst Hmap Hlen] Hfit. unfold register, ref_step.
  destruct (N.eqb_spec (check_every cfg) usize_max) as [Hd|Hd].
  { cbn [fst snd]. refine (conj _ (conj _ (conj _ _))); try reflexivity; try lia.
    constructor; assumption. }
  set (k := check_every cfg) in *.
  assert (Hsamp : (iteration st + 1 <? k) = negb (sampled k (r_seen rs)) /\
                  (if iteration st + 1 <? k then iteration st + 1 else 0)
                  = if k <=? 1 then 0 else (r_seen rs + 1) mod k).
  { rewrite Hit. destruct (N.leb_spec k 1) as [Hk|Hk].
    - unfold sampled. replace (k <=? 1) with true by lia. replace (0 + 1 <? k) with false by lia.
      split; reflexivity.
    - apply sampled_counter. lia. }
  destruct Hsamp as [Hs1 Hs2]. rewrite Hs1 in *.
  destruct (sampled k (r_seen rs)) eqn:Hsam; cbn [negb] in *.
  2:{ (* not sampled *)
    cbn [fst snd]. refine (conj _ (conj _ (conj _ _))); try reflexivity; try lia.
    constructor; cbn [iteration win_start conn_map r_seen r_start r_counted];
      [exact Hs2 | assumption | assumption | lia]. }
  (* sampled *)
  rewrite Hst.
  destruct (window_over (reset_after cfg) (t - r_start rs)).
  { (* the window is over: restart, not counted *)
    cbn [fst snd]. refine (conj _ (conj _ (conj _ _))); try reflexivity; try lia.
    constructor; cbn [iteration win_start conn_map r_seen r_start r_counted map_get count length];
      [exact Hs2 | reflexivity | intros; reflexivity | lia]. }
  (* counted *)
  pose proof (count_le_length a (r_counted rs)) as Hc.
  unfold entry_bump. rewrite (Hmap a).
  set (c := count a (r_counted rs)) in *.
  assert (Hnew : count a (a :: r_counted rs) = c + 1).
  { cbn [count]. rewrite N.eqb_refl. fold c. lia. }
  assert (Hinc : match (if c =? 0 then None else Some c) with
                 | None => Ok (1, map_set a 1 (conn_map st))
                 | Some c0 => match inc_usize checked c0 with
                              | Ok c' => Ok (c', map_set a c' (conn_map st))
                              | Err e => Err e
                              | Panic => Panic
                              end
                 end = Ok (c + 1, map_set a (c + 1) (conn_map st))).
  { destruct (N.eqb_spec c 0) as [E|E].
    - rewrite E. reflexivity.
    - unfold inc_usize. rewrite usize_val. unfold third in Hfit.
      replace (c + 1 <=? 18446744073709551615) with true by lia. reflexivity. }
  rewrite Hinc. rewrite Hnew.
  assert (Hsim' : sim cfg {| iteration := 0; win_start := r_start rs; conn_map := map_set a (c + 1) (conn_map st) |}
                      {| r_seen := r_seen rs + 1; r_start := r_start rs; r_counted := a :: r_counted rs |}).
  { constructor; cbn [iteration win_start conn_map r_seen r_start r_counted].
    - exact Hs2.
    - reflexivity.
    - intros b. destruct (N.eq_dec a b) as [E|E].
      + subst b. rewrite map_get_set_same, Hnew.
        destruct (N.eqb_spec (c + 1) 0); [lia|reflexivity].
      + rewrite (map_get_set_other a b _ _ E), (Hmap b). cbn [count].
        destruct (N.eqb_spec a b); [contradiction|]. rewrite N.add_0_l. reflexivity.
    - cbn [length]. lia. }
  unfold ladder.
  destruct (N.leb_spec (c + 1) (max_requests cfg)) as [Hle|Hgt].
  { cbn [fst snd]. refine (conj _ (conj _ (conj _ _))); try reflexivity; try lia. exact Hsim'. }
  unfold mul3_usize. rewrite usize_val. unfold third in Hfit.
  replace (3 * max_requests cfg <=? 18446744073709551615) with true by lia.
  destruct (c + 1 <=? 3 * max_requests cfg); cbn [fst snd r_seen];
    (refine (conj _ (conj _ (conj _ _))); [reflexivity | exact Hsim' | lia | lia]).
Qed.

(** * Histories *)
Lemma run_app checked cfg h1 h2 st :
  run checked cfg st (h1 ++ h2)
  = (fst (run checked cfg (fst (run checked cfg st h1)) h2),
     snd (run checked cfg st h1) ++ snd (run checked cfg (fst (run checked cfg st h1)) h2)).
Proof.
  revert st. induction h1 as [|[a t] r IH]; intros st; cbn [run app fst snd].
  - destruct (run checked cfg st h2); reflexivity.
  - destruct (register checked cfg st a t) as [st1 d]. rewrite IH.
    destruct (run checked cfg st1 r) as [st2 ds]. cbn [fst snd]. reflexivity.
Qed.

Lemma ref_run_app cfg h1 h2 rs :
  ref_run cfg rs (h1 ++ h2)
  = (fst (ref_run cfg (fst (ref_run cfg rs h1)) h2),
     snd (ref_run cfg rs h1) ++ snd (ref_run cfg (fst (ref_run cfg rs h1)) h2)).
Proof.
  revert rs. induction h1 as [|[a t] r IH]; intros rs; cbn [ref_run app fst snd].
  - destruct (ref_run cfg rs h2); reflexivity.
  - destruct (ref_step cfg rs a t) as [rs1 d]. rewrite IH.
    destruct (ref_run cfg rs1 r) as [rs2 ds]. cbn [fst snd]. reflexivity.
Qed.

Lemma run_length checked cfg h st : length (snd (run checked cfg st h)) = length h.
Proof.
  revert st. induction h as [|[a t] r IH]; intros st; cbn [run]; [reflexivity|].
  destruct (register checked cfg st a t) as [st1 d]. specialize (IH st1).
  destruct (run checked cfg st1 r). cbn [snd length] in *. congruence.
Qed.

Lemma ref_run_length cfg h rs : length (snd (ref_run cfg rs h)) = length h.
Proof.
  revert rs. induction h as [|[a t] r IH]; intros rs; cbn [ref_run]; [reflexivity|].
  destruct (ref_step cfg rs a t) as [rs1 d]. specialize (IH rs1).
  destruct (ref_run cfg rs1 r). cbn [snd length] in *. congruence.
Qed.

(** The refinement, from related states. *)
Lemma run_sim checked cfg h : forall st rs,
  sim cfg st rs -> r_seen rs + N.of_nat (length h) <= third ->
  snd (run checked cfg st h) = map Ok (snd (ref_run cfg rs h)) /\
  sim cfg (fst (run checked cfg st h)) (fst (ref_run cfg rs h)) /\
  r_seen (fst (ref_run cfg rs h)) <= r_seen rs + N.of_nat (length h) /\
  (check_every cfg <> usize_max -> r_seen (fst (ref_run cfg rs h)) = r_seen rs + N.of_nat (length h)).
Proof.
  induction h as [|[a t] r IH]; intros st rs Hsim Hfit; cbn [run ref_run].
  - cbn [fst snd map length]. refine (conj _ (conj _ (conj _ _))); try reflexivity; try assumption; lia.
  - cbn [length] in Hfit.
    destruct (step_sim checked cfg st rs a t Hsim) as (Hd & Hs & Hle & Heq); [lia|].
    destruct (register checked cfg st a t) as [st1 d]. destruct (ref_step cfg rs a t) as [rs1 d'].
    cbn [fst snd] in *.
    destruct (IH st1 rs1 Hs) as (Hd2 & Hs2 & Hle2 & Heq2); [lia|].
    destruct (run checked cfg st1 r) as [st2 ds]. destruct (ref_run cfg rs1 r) as [rs2 ds'].
    cbn [fst snd map length] in *.
    refine (conj _ (conj _ (conj _ _))).
    + rewrite Hd, Hd2. reflexivity.
    + exact Hs2.
    + lia.
    + intros Hne. rewrite (Heq2 Hne), (Heq Hne). lia.
Qed.

(** Theorem 1: for every sequential history and configuration the code's decisions are
    those of the reference counter. *)
Lemma register_refines checked cfg t0 h :
  fits (length h) -> decisions checked cfg t0 h = map Ok (reference cfg t0 h).
Proof.
  intros Hf. apply (proj1 (fits_third _)) in Hf. unfold decisions, reference.
  apply (run_sim checked cfg h (init t0) (rinit t0) (sim_init cfg t0)).
  cbn [rinit r_seen]. lia.
Qed.

Lemma register_no_panic checked cfg t0 h :
  fits (length h) -> Forall (fun d => exists a, d = Ok a) (decisions checked cfg t0 h).
Proof.
  intros Hf. rewrite (register_refines checked cfg t0 h Hf).
  apply Forall_forall. intros d Hin. apply in_map_iff in Hin as (a & <- & _). eauto.
Qed.

(** The counter never reaches [check_every]: [fetch_add(1) + 1] cannot overflow. *)
Definition iter_ok (cfg : config) (st : lstate) : Prop := iteration st = 0 \/ iteration st < check_every cfg.
Lemma register_iter_ok checked cfg st a t : iter_ok cfg st -> iter_ok cfg (fst (register checked cfg st a t)).
Proof.
  unfold iter_ok, register. intros H.
  destruct (check_every cfg =? usize_max); [exact H|].
  destruct (N.ltb_spec (iteration st + 1) (check_every cfg)); [cbn [fst iteration]; lia|].
  destruct (window_over _ _); [cbn [fst iteration]; lia|].
  destruct (entry_bump checked a (conn_map st)) as [[rq m']| |]; try (cbn [fst iteration]; lia).
  destruct (rq <=? max_requests cfg); [cbn [fst iteration]; lia|].
  destruct (mul3_usize checked (max_requests cfg)); cbn [fst iteration]; lia.
Qed.
Lemma run_iter_ok checked cfg h : forall st, iter_ok cfg st -> iter_ok cfg (fst (run checked cfg st h)).
Proof.
  induction h as [|[a t] r IH]; intros st H; cbn [run]; [exact H|].
  pose proof (register_iter_ok checked cfg st a t H) as H1.
  destruct (register checked cfg st a t) as [st1 d]. cbn [fst] in H1. specialize (IH st1 H1).
  destruct (run checked cfg st1 r). exact IH.
Qed.
Lemma iteration_bounded checked cfg t0 h :
  check_every cfg <= usize_max -> iteration (state_after checked cfg t0 h) + 1 <= usize_max.
Proof.
  intros Hk. pose proof (run_iter_ok checked cfg h (init t0)) as H.
  unfold state_after. unfold iter_ok in H. cbn [init iteration] in H.
  specialize (H (or_introl eq_refl)). rewrite usize_val in *. lia.
Qed.

(** * Positions in a history *)
Lemma ref_run_nth cfg : forall h rs i b t,
  nth_error h i = Some (b, t) ->
  nth_error (snd (ref_run cfg rs h)) i = Some (snd (ref_step cfg (fst (ref_run cfg rs (firstn i h))) b t)) /\
  fst (ref_run cfg rs (firstn (S i) h)) = fst (ref_step cfg (fst (ref_run cfg rs (firstn i h))) b t).
Proof.
  induction h as [|[a u] r IH]; intros rs i b t Hn.
  - destruct i; discriminate.
  - destruct i as [|i].
    + cbn [nth_error] in Hn. inversion Hn; subst. cbn [firstn ref_run fst].
      destruct (ref_step cfg rs b t) as [rs1 d]. destruct (ref_run cfg rs1 r) as [rs2 ds].
      cbn [snd nth_error fst]. split; reflexivity.
    + cbn [nth_error] in Hn. change (firstn (S (S i)) ((a, u) :: r)) with ((a, u) :: firstn (S i) r).
      change (firstn (S i) ((a, u) :: r)) with ((a, u) :: firstn i r).
      cbn [ref_run]. destruct (ref_step cfg rs a u) as [rs1 d].
      destruct (IH rs1 i b t Hn) as [H1 H2].
      destruct (ref_run cfg rs1 r) as [rs2 ds]. destruct (ref_run cfg rs1 (firstn i r)) as [rs3 ds3].
      destruct (ref_run cfg rs1 (firstn (S i) r)) as [rs4 ds4].
      cbn [fst snd nth_error] in *. split; assumption.
Qed.

(** * Isolation *)
Lemma ref_step_passed cfg rs b t :
  count b (r_counted (fst (ref_step cfg rs b t))) <= max_requests cfg -> snd (ref_step cfg rs b t) = Passed.
Proof.
  unfold ref_step. destruct (check_every cfg =? usize_max); [reflexivity|].
  destruct (negb (sampled _ _)); [reflexivity|].
  destruct (window_over _ _); [reflexivity|].
  cbn [fst snd r_counted]. intros H. apply ladder_passed. exact H.
Qed.

Lemma isolation_ref cfg t0 h i b t :
  nth_error h i = Some (b, t) ->
  counted cfg t0 (firstn (S i) h) b <= max_requests cfg ->
  nth_error (reference cfg t0 h) i = Some Passed.
Proof.
  intros Hn Hc. unfold reference, counted in *.
  destruct (ref_run_nth cfg h (rinit t0) i b t Hn) as [H1 H2].
  rewrite H1. f_equal. apply ref_step_passed. rewrite <- H2. exact Hc.
Qed.

(** Theorem 2: an address whose counted requests in the current window are at most the
    maximum always passes, whatever the other addresses do. *)
Lemma isolation_model checked cfg t0 h i b t :
  fits (length h) ->
  nth_error h i = Some (b, t) ->
  counted cfg t0 (firstn (S i) h) b <= max_requests cfg ->
  nth_error (decisions checked cfg t0 h) i = Some (Ok Passed).
Proof.
  intros Hf Hn Hc. rewrite (register_refines checked cfg t0 h Hf), nth_error_map.
  rewrite (isolation_ref cfg t0 h i b t Hn Hc). reflexivity.
Qed.

(** Counted requests of [b] are some of [b]'s own calls. *)
Lemma ref_step_counted_le cfg rs a t b :
  count b (r_counted (fst (ref_step cfg rs a t))) <= count b (r_counted rs) + (if a =? b then 1 else 0).
Proof.
  unfold ref_step. destruct (check_every cfg =? usize_max); [cbn [fst]; lia|].
  destruct (negb (sampled _ _)); [cbn [fst r_counted]; lia|].
  destruct (window_over _ _); cbn [fst r_counted count]; lia.
Qed.
Lemma ref_run_counted_le cfg b h : forall rs,
  count b (r_counted (fst (ref_run cfg rs h))) <= count b (r_counted rs) + calls_of b h.
Proof.
  unfold calls_of. induction h as [|[a t] r IH]; intros rs; cbn [ref_run map count fst].
  - lia.
  - pose proof (ref_step_counted_le cfg rs a t b) as H1.
    destruct (ref_step cfg rs a t) as [rs1 d]. cbn [fst] in H1. specialize (IH rs1).
    destruct (ref_run cfg rs1 r) as [rs2 ds]. cbn [fst] in *. lia.
Qed.
Lemma counted_le_calls cfg t0 h b : counted cfg t0 h b <= calls_of b h.
Proof.
  unfold counted. pose proof (ref_run_counted_le cfg b h (rinit t0)) as H.
  cbn [rinit r_counted count] in H. lia.
Qed.

Lemma calls_of_firstn_le b n h : calls_of b (firstn n h) <= calls_of b h.
Proof.
  unfold calls_of.
  assert (E : map fst h = map fst (firstn n h) ++ map fst (skipn n h))
    by (rewrite <- map_app, firstn_skipn; reflexivity).
  rewrite E, count_app. lia.
Qed.

(** Corollary: an address that makes at most [max_requests] calls is never limited. *)
Lemma isolation_own_traffic_model checked cfg t0 h i b t :
  fits (length h) ->
  nth_error h i = Some (b, t) ->
  calls_of b h <= max_requests cfg ->
  nth_error (decisions checked cfg t0 h) i = Some (Ok Passed).
Proof.
  intros Hf Hn Hc. apply (isolation_model checked cfg t0 h i b t Hf Hn).
  eapply N.le_trans; [apply counted_le_calls|]. eapply N.le_trans; [apply calls_of_firstn_le|exact Hc].
Qed.

(** Others never make it worse than the address's own traffic justifies. *)
Lemma ref_step_bound cfg rs b t :
  action_code (snd (ref_step cfg rs b t))
  <= action_code (ladder (max_requests cfg) (count b (r_counted (fst (ref_step cfg rs b t))))) \/
  snd (ref_step cfg rs b t) = Passed.
Proof.
  unfold ref_step. destruct (check_every cfg =? usize_max); [right; reflexivity|].
  destruct (negb (sampled _ _)); [right; reflexivity|].
  destruct (window_over _ _); [right; reflexivity|].
  left. cbn [fst snd r_counted]. lia.
Qed.
Lemma others_never_hurt_model checked cfg t0 h i b t :
  fits (length h) ->
  nth_error h i = Some (b, t) ->
  exists d, nth_error (decisions checked cfg t0 h) i = Some (Ok d) /\
            action_code d <= action_code (ladder (max_requests cfg) (calls_of b (firstn (S i) h))).
Proof.
  intros Hf Hn. rewrite (register_refines checked cfg t0 h Hf), nth_error_map.
  unfold reference. destruct (ref_run_nth cfg h (rinit t0) i b t Hn) as [H1 H2].
  rewrite H1. cbn [option_map]. eexists. split; [reflexivity|].
  destruct (ref_step_bound cfg (fst (ref_run cfg (rinit t0) (firstn i h))) b t) as [H|H].
  - eapply N.le_trans; [exact H|]. apply ladder_mono. rewrite <- H2.
    apply (counted_le_calls cfg t0 (firstn (S i) h) b).
  - rewrite H. cbn [action_code]. lia.
Qed.

(** * Reset *)
(** Any call made once the reset time has passed is answered [Passed]; if it is a sampled
    call, the limiter is left exactly in the state of a new one created at that moment. *)
Lemma register_after_interval checked cfg st a t R :
  reset_after cfg = Some R -> R <= t - win_start st ->
  snd (register checked cfg st a t) = Ok Passed /\
  (check_every cfg <> usize_max -> check_every cfg <= iteration st + 1 ->
   fst (register checked cfg st a t) = init t).
Proof.
  intros HR Hle. unfold register.
  destruct (N.eqb_spec (check_every cfg) usize_max); [split; [reflexivity|contradiction]|].
  destruct (N.ltb_spec (iteration st + 1) (check_every cfg)); [split; [reflexivity|lia]|].
  rewrite HR. unfold window_over. replace (R <=? t - win_start st) with true by lia.
  split; reflexivity.
Qed.

Lemma sampled_iteration checked cfg t0 h :
  fits (length h) -> check_every cfg <> usize_max ->
  sampled (check_every cfg) (N.of_nat (length h)) = true ->
  check_every cfg <= iteration (state_after checked cfg t0 h) + 1.
Proof.
  intros Hf Hne Hs. unfold state_after.
  destruct (run_sim checked cfg h (init t0) (rinit t0) (sim_init cfg t0)) as (_ & Hsim & _ & Hseen).
  { cbn [rinit r_seen]. apply (proj1 (fits_third _)) in Hf. lia. }
  specialize (Hseen Hne). cbn [rinit r_seen] in Hseen. rewrite N.add_0_l in Hseen.
  rewrite (sim_iter _ _ _ Hsim), Hseen.
  destruct (N.leb_spec (check_every cfg) 1) as [Hk|Hk]; [lia|].
  destruct (sampled_counter (check_every cfg) (N.of_nat (length h))) as [H1 _]; [lia|].
  rewrite Hs in H1. cbn [negb] in H1. lia.
Qed.

(** Theorem 3: after the reset interval all counts are forgotten — from the first sampled call
    on, the decisions are those of a limiter newly created at that call. *)
Lemma reset_forgets_model checked cfg t0 h1 a t h2 R :
  fits (length h1) ->
  reset_after cfg = Some R -> check_every cfg <> usize_max ->
  sampled (check_every cfg) (N.of_nat (length h1)) = true ->
  R <= t - win_start (state_after checked cfg t0 h1) ->
  decisions checked cfg t0 (h1 ++ (a, t) :: h2)
  = decisions checked cfg t0 h1 ++ Ok Passed :: decisions checked cfg t h2.
Proof.
  intros Hf HR Hne Hs Hle.
  pose proof (sampled_iteration checked cfg t0 h1 Hf Hne Hs) as Hk.
  unfold decisions, state_after in *. rewrite run_app. cbn [snd]. f_equal.
  set (st := fst (run checked cfg (init t0) h1)) in *.
  destruct (register_after_interval checked cfg st a t R HR Hle) as [Hd Hst].
  specialize (Hst Hne Hk). cbn [run].
  destruct (register checked cfg st a t) as [st1 d]. cbn [fst snd] in *. subst st1 d.
  destruct (run checked cfg (init t) h2); reflexivity.
Qed.

(** ... and a sampled call comes within [check_every] calls: no later than that, the reset
    has happened (all calls in between are answered [Passed]). *)
Lemma reset_within checked cfg R :
  reset_after cfg = Some R -> check_every cfg <> usize_max ->
  forall h st, h <> [] -> check_every cfg - iteration st <= N.of_nat (length h) ->
  Forall (fun e => R <= snd e - win_start st) h ->
  exists p a t s, h = p ++ (a, t) :: s /\
    run checked cfg st (p ++ [(a, t)]) = (init t, repeat (Ok Passed) (S (length p))) /\
    (p = [] \/ N.of_nat (length p) < check_every cfg - iteration st).
Proof.
  intros HR Hne. induction h as [|[a t] r IH]; intros st Hnil Hlen Hall; [contradiction|].
  inversion Hall as [|x l Hhd Htl]; subst. cbn [snd] in Hhd.
  destruct (register_after_interval checked cfg st a t R HR Hhd) as [Hd Hst].
  destruct (N.ltb_spec (iteration st + 1) (check_every cfg)) as [Hlt|Hge].
  - (* not sampled yet *)
    assert (Hreg : register checked cfg st a t
                   = ({| iteration := iteration st + 1; win_start := win_start st; conn_map := conn_map st |}, Ok Passed)).
    { unfold register. destruct (N.eqb_spec (check_every cfg) usize_max); [contradiction|].
      replace (iteration st + 1 <? check_every cfg) with true by lia. reflexivity. }
    cbn [length] in Hlen.
    destruct r as [|e r']; [cbn [length] in Hlen; lia|].
    destruct (IH {| iteration := iteration st + 1; win_start := win_start st; conn_map := conn_map st |})
      as (p & a' & t' & s & Hsplit & Hrun & Hp).
    + discriminate.
    + cbn [iteration]. lia.
    + exact Htl.
    + exists ((a, t) :: p), a', t', s. split; [rewrite Hsplit; reflexivity|]. split.
      * change (((a, t) :: p) ++ [(a', t')]) with ((a, t) :: (p ++ [(a', t')])).
        cbn [run]. rewrite Hreg, Hrun. reflexivity.
      * right. cbn [iteration length] in *. destruct Hp as [->|Hp]; cbn [length] in *; lia.
  - exists [], a, t, r. split; [reflexivity|]. split; [|left; reflexivity].
    cbn [app run length repeat]. specialize (Hst Hne ltac:(lia)).
    destruct (register checked cfg st a t) as [st1 d]. cbn [fst snd] in *. subst. reflexivity.
Qed.

Lemma reset_within_check_every_model checked cfg t0 h1 h2 R :
  reset_after cfg = Some R -> check_every cfg <> usize_max ->
  h2 <> [] -> check_every cfg <= N.of_nat (length h2) ->
  Forall (fun e => R <= snd e - win_start (state_after checked cfg t0 h1)) h2 ->
  exists p a t s, h2 = p ++ (a, t) :: s /\
    state_after checked cfg t0 (h1 ++ p ++ [(a, t)]) = init t /\
    decisions checked cfg t0 (h1 ++ p ++ [(a, t)]) = decisions checked cfg t0 h1 ++ repeat (Ok Passed) (S (length p)) /\
    (p = [] \/ N.of_nat (length p) < check_every cfg).
Proof.
  intros HR Hne Hnil Hlen Hall. unfold state_after, decisions in *.
  destruct (reset_within checked cfg R HR Hne h2 (fst (run checked cfg (init t0) h1)) Hnil ltac:(lia) Hall)
    as (p & a & t & s & Hsplit & Hrun & Hp).
  exists p, a, t, s. split; [exact Hsplit|]. rewrite run_app, Hrun. cbn [fst snd].
  split; [reflexivity|]. split; [reflexivity|]. destruct Hp as [Hp|Hp]; [left; exact Hp|right; lia].
Qed.

(** Without a reset the counted requests of [b] are exactly [b]'s calls at sampled positions. *)
Fixpoint sampled_calls_of (k : N) (b : N) (pos : N) (h : list event) : N :=
  match h with
  | [] => 0
  | (a, _) :: r => (if sampled k pos && (a =? b) then 1 else 0) + sampled_calls_of k b (pos + 1) r
  end.
Lemma counted_no_reset_from cfg b h : forall rs,
  reset_after cfg = None -> check_every cfg <> usize_max ->
  count b (r_counted (fst (ref_run cfg rs h)))
  = count b (r_counted rs) + sampled_calls_of (check_every cfg) b (r_seen rs) h.
Proof.
  intros rs HR Hne. revert rs. induction h as [|[a t] r IH]; intros rs; cbn [ref_run sampled_calls_of fst].
  - lia.
  - unfold ref_step. destruct (N.eqb_spec (check_every cfg) usize_max); [contradiction|].
    rewrite HR. cbn [window_over].
    destruct (sampled (check_every cfg) (r_seen rs)); cbn [negb andb].
    + specialize (IH {| r_seen := r_seen rs + 1; r_start := r_start rs; r_counted := a :: r_counted rs |}).
      destruct (ref_run cfg _ r) as [rs2 ds]. cbn [fst r_counted r_seen count] in *. rewrite IH. lia.
    + specialize (IH {| r_seen := r_seen rs + 1; r_start := r_start rs; r_counted := r_counted rs |}).
      destruct (ref_run cfg _ r) as [rs2 ds]. cbn [fst r_counted r_seen count] in *. rewrite IH. lia.
Qed.
Lemma counted_no_reset_model cfg t0 h b :
  reset_after cfg = None -> check_every cfg <> usize_max ->
  counted cfg t0 h b = sampled_calls_of (check_every cfg) b 0 h.
Proof.
  intros HR Hne. unfold counted. rewrite (counted_no_reset_from cfg b h (rinit t0) HR Hne).
  cbn [rinit r_counted r_seen count]. lia.
Qed.

(** * Disabled *)
Lemma disabled_run checked cfg h : check_every cfg = usize_max ->
  forall st, run checked cfg st h = (st, repeat (Ok Passed) (length h)).
Proof.
  intros Hd. induction h as [|[a t] r IH]; intros st; cbn [run length repeat]; [reflexivity|].
  unfold register. rewrite Hd, N.eqb_refl. rewrite IH. reflexivity.
Qed.
(** Theorem 4: a disabled limiter never limits (and keeps no state). *)
Lemma disabled_never_limits_model checked cfg t0 h :
  decisions checked (disable cfg) t0 h = repeat (Ok Passed) (length h) /\
  state_after checked (disable cfg) t0 h = init t0.
Proof.
  unfold decisions, state_after. rewrite (disabled_run checked (disable cfg) h eq_refl). split; reflexivity.
Qed.

(** * Histories with configuration changes *)
(** Simulation between the code's counters and the state of the reference for operation
    histories.  It does not mention the configuration: it survives every setter. [n] bounds the
    number of calls made so far. *)
Record sim2 (n : N) (st : lstate) (qs : qstate) : Prop := {
  s2_iter : iteration st = q_since qs;
  s2_start : win_start st = q_start qs;
  s2_map : forall a, map_get a (conn_map st)
                     = if count a (q_counted qs) =? 0 then None else Some (count a (q_counted qs));
  s2_len : N.of_nat (length (q_counted qs)) <= q_seen qs;
  s2_seen : q_seen qs <= n
}.

Lemma sim2_init n t0 : sim2 n (init t0) (qinit t0).
Proof.
  constructor; cbn [init qinit iteration win_start conn_map q_seen q_since q_start q_counted map_get count length];
    try reflexivity; try lia.
Qed.

Lemma sim2_mono n m st qs : sim2 n st qs -> n <= m -> sim2 m st qs.
Proof. intros [H1 H2 H3 H4 H5] Hle. constructor; try assumption. lia. Qed.

Lemma qstep_sim checked cfg n st qs a t :
  sim2 n st qs -> n + 1 <= third ->
  snd (register checked cfg st a t) = Ok (snd (qstep cfg qs a t)) /\
  sim2 (n + 1) (fst (register checked cfg st a t)) (fst (qstep cfg qs a t)).
Proof.
  intros [Hit Hst Hmap Hlen Hseen] Hfit. unfold register, qstep.
  destruct (N.eqb_spec (check_every cfg) usize_max) as [Hd|Hd].
  { cbn [fst snd]. split; [reflexivity|]. constructor; try assumption. lia. }
  set (k := check_every cfg) in *. unfold due. rewrite Hit.
  assert (Hs : (q_since qs + 1 <? k) = negb (k <=? q_since qs + 1)) by lia.
  rewrite Hs. destruct (k <=? q_since qs + 1) eqn:Hdue; cbn [negb].
  2:{ cbn [fst snd]. split; [reflexivity|].
      constructor; cbn [iteration win_start conn_map q_seen q_since q_start q_counted]; try assumption; try reflexivity; lia. }
  rewrite Hst.
  destruct (window_over (reset_after cfg) (t - q_start qs)).
  { cbn [fst snd]. split; [reflexivity|].
    constructor; cbn [iteration win_start conn_map q_seen q_since q_start q_counted map_get count length];
      try reflexivity; try lia. }
  pose proof (count_le_length a (q_counted qs)) as Hc.
  unfold entry_bump. rewrite (Hmap a).
  set (c := count a (q_counted qs)) in *.
  assert (Hnew : count a (a :: q_counted qs) = c + 1).
  { cbn [count]. rewrite N.eqb_refl. fold c. lia. }
  assert (Hinc : match (if c =? 0 then None else Some c) with
                 | None => Ok (1, map_set a 1 (conn_map st))
                 | Some c0 => match inc_usize checked c0 with
                              | Ok c' => Ok (c', map_set a c' (conn_map st))
                              | Err e => Err e
                              | Panic => Panic
                              end
                 end = Ok (c + 1, map_set a (c + 1) (conn_map st))).
  { destruct (N.eqb_spec c 0) as [E|E].
    - rewrite E. reflexivity.
    - unfold inc_usize. rewrite usize_val. unfold third in Hfit.
      replace (c + 1 <=? 18446744073709551615) with true by lia. reflexivity. }
  rewrite Hinc. rewrite Hnew.
  assert (Hsim' : sim2 (n + 1) {| iteration := 0; win_start := q_start qs; conn_map := map_set a (c + 1) (conn_map st) |}
                      {| q_seen := q_seen qs + 1; q_since := 0; q_start := q_start qs; q_counted := a :: q_counted qs |}).
  { constructor; cbn [iteration win_start conn_map q_seen q_since q_start q_counted].
    - reflexivity.
    - reflexivity.
    - intros b. destruct (N.eq_dec a b) as [E|E].
      + subst b. rewrite map_get_set_same, Hnew.
        destruct (N.eqb_spec (c + 1) 0); [lia|reflexivity].
      + rewrite (map_get_set_other a b _ _ E), (Hmap b). cbn [count].
        destruct (N.eqb_spec a b); [contradiction|]. rewrite N.add_0_l. reflexivity.
    - cbn [length]. lia.
    - lia. }
  unfold ladder.
  destruct (N.leb_spec (c + 1) (max_requests cfg)) as [Hle|Hgt].
  { cbn [fst snd]. split; [reflexivity|exact Hsim']. }
  unfold mul3_usize. rewrite usize_val. unfold third in Hfit.
  replace (3 * max_requests cfg <=? 18446744073709551615) with true by lia.
  destruct (c + 1 <=? 3 * max_requests cfg); cbn [fst snd]; (split; [reflexivity|exact Hsim']).
Qed.

Lemma run_ops_sim checked ops : forall cfg n st qs,
  sim2 n st qs -> n + N.of_nat (length ops) <= third ->
  snd (run_ops checked cfg st ops) = map Ok (snd (ref_ops cfg qs ops)) /\
  sim2 (n + N.of_nat (length ops)) (snd (fst (run_ops checked cfg st ops))) (snd (fst (ref_ops cfg qs ops))) /\
  fst (fst (run_ops checked cfg st ops)) = config_after cfg ops /\
  fst (fst (ref_ops cfg qs ops)) = config_after cfg ops.
Proof.
  induction ops as [|o r IH]; intros cfg n st qs Hsim Hfit.
  - cbn [run_ops ref_ops fst snd map length config_after].
    refine (conj eq_refl (conj _ (conj eq_refl eq_refl))). eapply sim2_mono; [exact Hsim|lia].
  - cbn [length] in Hfit.
    assert (Hnr : forall c',
      snd (run_ops checked c' st r) = map Ok (snd (ref_ops c' qs r)) /\
      sim2 (n + N.of_nat (S (length r))) (snd (fst (run_ops checked c' st r))) (snd (fst (ref_ops c' qs r))) /\
      fst (fst (run_ops checked c' st r)) = config_after c' r /\
      fst (fst (ref_ops c' qs r)) = config_after c' r).
    { intros c'. destruct (IH c' n st qs Hsim ltac:(lia)) as (H1 & H2 & H3 & H4).
      refine (conj H1 (conj _ (conj H3 H4))). eapply sim2_mono; [exact H2|lia]. }
    destruct o as [a t|m|k|rr|]; [|cbn [run_ops ref_ops config_after length]; apply Hnr..].
    cbn [run_ops ref_ops config_after op_cfg length].
    destruct (qstep_sim checked cfg n st qs a t Hsim ltac:(lia)) as [Hd Hs].
    destruct (register checked cfg st a t) as [st1 d]. destruct (qstep cfg qs a t) as [qs1 d'].
    cbn [fst snd] in *.
    destruct (IH cfg (n + 1) st1 qs1 Hs ltac:(lia)) as (H1 & H2 & H3 & H4).
    destruct (run_ops checked cfg st1 r) as [[c2 st2] ds]. destruct (ref_ops cfg qs1 r) as [[c2' qs2] ds'].
    cbn [fst snd map] in *.
    refine (conj _ (conj _ (conj H3 H4))).
    + rewrite Hd, H1. reflexivity.
    + eapply sim2_mono; [exact H2|lia].
Qed.

(** Theorem 1': for every history of [register] calls and configuration changes the decisions
    are those of the reference counter computed from the configuration current at each call. *)
Lemma register_ops_refines checked cfg t0 ops :
  fits (length ops) -> decisions_ops checked cfg t0 ops = map Ok (reference_ops cfg t0 ops).
Proof.
  intros Hf. apply (proj1 (fits_third _)) in Hf. unfold decisions_ops, reference_ops.
  apply (run_ops_sim checked ops cfg 0 (init t0) (qinit t0) (sim2_init 0 t0)). lia.
Qed.

Lemma register_ops_no_panic checked cfg t0 ops :
  fits (length ops) -> Forall (fun d => exists a, d = Ok a) (decisions_ops checked cfg t0 ops).
Proof.
  intros Hf. rewrite (register_ops_refines checked cfg t0 ops Hf).
  apply Forall_forall. intros d Hin. apply in_map_iff in Hin as (a & <- & _). eauto.
Qed.

(** The configuration after a history is what the setters say; no [register] changes it. *)
Lemma run_ops_config checked ops : forall cfg st, fst (fst (run_ops checked cfg st ops)) = config_after cfg ops.
Proof.
  induction ops as [|o r IH]; intros cfg st; [reflexivity|].
  destruct o as [a t|m|k|rr|]; cbn [run_ops config_after op_cfg]; try apply IH.
  destruct (register checked cfg st a t) as [st1 d]. specialize (IH cfg st1).
  destruct (run_ops checked cfg st1 r) as [[c2 st2] ds]. exact IH.
Qed.

(** A history without configuration changes is a history of the first model. *)
Lemma run_ops_constant checked cfg h : forall st,
  run_ops checked cfg st (map reg_of h) = (cfg, fst (run checked cfg st h), snd (run checked cfg st h)).
Proof.
  induction h as [|[a t] r IH]; intros st; cbn [map reg_of fst snd run_ops run]; [reflexivity|].
  destruct (register checked cfg st a t) as [st1 d]. rewrite IH.
  destruct (run checked cfg st1 r) as [st2 ds]. reflexivity.
Qed.
Lemma decisions_ops_constant checked cfg t0 h :
  decisions_ops checked cfg t0 (map reg_of h) = decisions checked cfg t0 h.
Proof. unfold decisions_ops, decisions. rewrite run_ops_constant. reflexivity. Qed.

Lemma map_Ok_inj (A : Type) (l1 l2 : list A) : map (@Ok A) l1 = map (@Ok A) l2 -> l1 = l2.
Proof.
  revert l2. induction l1 as [|x r IH]; intros [|y s] H; cbn [map] in H; try discriminate; [reflexivity|].
  inversion H. f_equal. apply IH. assumption.
Qed.

(** For a constant configuration "at least the [check_every]-th call since the last sampled
    one" is "every [check_every]-th call overall": the two references agree. *)
Lemma reference_ops_constant cfg t0 h :
  fits (length h) -> reference_ops cfg t0 (map reg_of h) = reference cfg t0 h.
Proof.
  intros Hf. apply map_Ok_inj.
  rewrite <- (register_refines true cfg t0 h Hf), <- (decisions_ops_constant true cfg t0 h).
  symmetry. apply register_ops_refines. rewrite map_length. exact Hf.
Qed.

(** Setters before the first call: only the resulting configuration matters. *)
Definition no_reg (ops : list op) : bool := forallb (fun o => negb (is_reg o)) ops.
Lemma run_ops_setters checked pre : forall cfg st ops,
  no_reg pre = true -> run_ops checked cfg st (pre ++ ops) = run_ops checked (config_after cfg pre) st ops.
Proof.
  induction pre as [|o r IH]; intros cfg st ops Hn; [reflexivity|].
  cbn [no_reg forallb] in Hn. apply andb_prop in Hn as [Ho Hr].
  destruct o as [a t|m|k|rr|]; cbn [is_reg negb] in Ho; try discriminate;
    cbn [app run_ops config_after]; apply IH; exact Hr.
Qed.

(** Theorem: every public way to arrive at a configuration gives the same limiter. *)
Lemma configuration_paths_agree_model checked c0 t0 pre ops :
  no_reg pre = true ->
  decisions_ops checked c0 t0 (pre ++ ops) = decisions_ops checked (config_after c0 pre) t0 ops.
Proof. intros Hn. unfold decisions_ops. rewrite run_ops_setters by exact Hn. reflexivity. Qed.

Lemma setters_establish_model c m k r :
  let target := {| max_requests := m; check_every := k; reset_after := r |} in
  config_after c [SetMax m; SetEvery k; SetReset r] = target /\
  config_after c [SetMax m; SetReset r; SetEvery k] = target /\
  config_after c [SetEvery k; SetMax m; SetReset r] = target /\
  config_after c [SetEvery k; SetReset r; SetMax m] = target /\
  config_after c [SetReset r; SetMax m; SetEvery k] = target /\
  config_after c [SetReset r; SetEvery k; SetMax m] = target /\
  config_after c [Disable] = disable c /\
  config_after c [SetEvery usize_max] = disable c.
Proof. cbn. repeat split; reflexivity. Qed.

(** Splitting a history. *)
Lemma run_ops_app checked o1 : forall cfg st o2,
  run_ops checked cfg st (o1 ++ o2)
  = (fst (fst (run_ops checked (config_after cfg o1) (snd (fst (run_ops checked cfg st o1))) o2)),
     snd (fst (run_ops checked (config_after cfg o1) (snd (fst (run_ops checked cfg st o1))) o2)),
     snd (run_ops checked cfg st o1) ++ snd (run_ops checked (config_after cfg o1) (snd (fst (run_ops checked cfg st o1))) o2)).
Proof.
  induction o1 as [|o r IH]; intros cfg st o2.
  - cbn [app run_ops config_after fst snd]. destruct (run_ops checked cfg st o2) as [[c s] d]. reflexivity.
  - destruct o as [a t|m|k|rr|]; cbn [app run_ops config_after op_cfg]; try apply IH.
    destruct (register checked cfg st a t) as [st1 d]. rewrite IH.
    destruct (run_ops checked cfg st1 r) as [[c2 st2] ds]. cbn [fst snd]. reflexivity.
Qed.

Lemma ref_ops_app o1 : forall cfg qs o2,
  ref_ops cfg qs (o1 ++ o2)
  = (fst (fst (ref_ops (config_after cfg o1) (snd (fst (ref_ops cfg qs o1))) o2)),
     snd (fst (ref_ops (config_after cfg o1) (snd (fst (ref_ops cfg qs o1))) o2)),
     snd (ref_ops cfg qs o1) ++ snd (ref_ops (config_after cfg o1) (snd (fst (ref_ops cfg qs o1))) o2)).
Proof.
  induction o1 as [|o r IH]; intros cfg qs o2.
  - cbn [app ref_ops config_after fst snd]. destruct (ref_ops cfg qs o2) as [[c s] d]. reflexivity.
  - destruct o as [a t|m|k|rr|]; cbn [app ref_ops config_after op_cfg]; try apply IH.
    destruct (qstep cfg qs a t) as [qs1 d]. rewrite IH.
    destruct (ref_ops cfg qs1 r) as [[c2 qs2] ds]. cbn [fst snd]. reflexivity.
Qed.

Lemma ref_ops_length ops : forall cfg qs, length (snd (ref_ops cfg qs ops)) = length (regs ops).
Proof.
  induction ops as [|o r IH]; intros cfg qs; [reflexivity|].
  destruct o as [a t|m|k|rr|]; cbn [ref_ops regs]; try apply IH.
  destruct (qstep cfg qs a t) as [qs1 d]. specialize (IH cfg qs1).
  destruct (ref_ops cfg qs1 r) as [[c2 qs2] ds]. cbn [snd length] in *. congruence.
Qed.

(** The reference's decision for the call [Reg b t] that follows [ops1]. *)
Lemma reference_ops_at cfg t0 ops1 b t ops2 :
  nth_error (reference_ops cfg t0 (ops1 ++ Reg b t :: ops2)) (length (regs ops1))
  = Some (snd (qstep (config_after cfg ops1) (snd (fst (ref_ops cfg (qinit t0) ops1))) b t)).
Proof.
  unfold reference_ops. rewrite ref_ops_app. cbn [snd].
  rewrite nth_error_app2 by (rewrite ref_ops_length; lia).
  rewrite ref_ops_length, Nat.sub_diag. cbn [ref_ops].
  destruct (qstep _ _ b t) as [qs1 d]. destruct (ref_ops _ qs1 ops2) as [[c2 qs2] ds]. reflexivity.
Qed.

Lemma counted_ops_snoc cfg t0 ops1 b t :
  counted_ops cfg t0 (ops1 ++ [Reg b t]) b
  = count b (q_counted (fst (qstep (config_after cfg ops1) (snd (fst (ref_ops cfg (qinit t0) ops1))) b t))).
Proof.
  unfold counted_ops. rewrite ref_ops_app. cbn [fst snd ref_ops].
  destruct (qstep _ _ b t) as [qs1 d]. reflexivity.
Qed.

Lemma qstep_passed cfg qs b t :
  count b (q_counted (fst (qstep cfg qs b t))) <= max_requests cfg -> snd (qstep cfg qs b t) = Passed.
Proof.
  unfold qstep. destruct (check_every cfg =? usize_max); [reflexivity|].
  destruct (negb (due _ _)); [reflexivity|].
  destruct (window_over _ _); [reflexivity|].
  cbn [fst snd q_counted]. intros H. apply ladder_passed. exact H.
Qed.

(** Isolation with configuration changes: the *current* maximum decides. *)
Lemma isolation_ops_model checked cfg t0 ops1 b t ops2 :
  fits (length (ops1 ++ Reg b t :: ops2)) ->
  counted_ops cfg t0 (ops1 ++ [Reg b t]) b <= max_requests (config_after cfg ops1) ->
  nth_error (decisions_ops checked cfg t0 (ops1 ++ Reg b t :: ops2)) (length (regs ops1)) = Some (Ok Passed).
Proof.
  intros Hf Hc. rewrite (register_ops_refines checked cfg t0 _ Hf), nth_error_map, reference_ops_at.
  cbn [option_map]. rewrite counted_ops_snoc in Hc. rewrite (qstep_passed _ _ _ _ Hc). reflexivity.
Qed.

Lemma qstep_counted_le cfg qs a t b :
  count b (q_counted (fst (qstep cfg qs a t))) <= count b (q_counted qs) + (if a =? b then 1 else 0).
Proof.
  unfold qstep. destruct (check_every cfg =? usize_max); [cbn [fst]; lia|].
  destruct (negb (due _ _)); [cbn [fst q_counted]; lia|].
  destruct (window_over _ _); cbn [fst q_counted count]; lia.
Qed.
Lemma ref_ops_counted_le b ops : forall cfg qs,
  count b (q_counted (snd (fst (ref_ops cfg qs ops)))) <= count b (q_counted qs) + calls_of b (regs ops).
Proof.
  unfold calls_of. induction ops as [|o r IH]; intros cfg qs.
  - cbn [ref_ops regs map count fst snd]. lia.
  - destruct o as [a t|m|k|rr|]; cbn [ref_ops regs]; try apply IH.
    pose proof (qstep_counted_le cfg qs a t b) as H1.
    destruct (qstep cfg qs a t) as [qs1 d]. cbn [fst] in H1. specialize (IH cfg qs1).
    destruct (ref_ops cfg qs1 r) as [[c2 qs2] ds]. cbn [fst snd map count] in *. lia.
Qed.
Lemma counted_ops_le_calls cfg t0 ops b : counted_ops cfg t0 ops b <= calls_of b (regs ops).
Proof.
  unfold counted_ops. pose proof (ref_ops_counted_le b ops cfg (qinit t0)) as H.
  cbn [qinit q_counted count] in H. lia.
Qed.

(** Corollary: an address whose own calls so far are at most the current maximum is never limited. *)
Lemma isolation_own_traffic_ops_model checked cfg t0 ops1 b t ops2 :
  fits (length (ops1 ++ Reg b t :: ops2)) ->
  calls_of b (regs (ops1 ++ [Reg b t])) <= max_requests (config_after cfg ops1) ->
  nth_error (decisions_ops checked cfg t0 (ops1 ++ Reg b t :: ops2)) (length (regs ops1)) = Some (Ok Passed).
Proof.
  intros Hf Hc. apply (isolation_ops_model checked cfg t0 ops1 b t ops2 Hf).
  eapply N.le_trans; [apply counted_ops_le_calls|exact Hc].
Qed.

Lemma regs_app o1 o2 : regs (o1 ++ o2) = regs o1 ++ regs o2.
Proof.
  induction o1 as [|o r IH]; [reflexivity|].
  destruct o; cbn [app regs]; rewrite ?IH; reflexivity.
Qed.

Lemma qstep_bound cfg qs b t :
  action_code (snd (qstep cfg qs b t))
  <= action_code (ladder (max_requests cfg) (count b (q_counted (fst (qstep cfg qs b t))))) \/
  snd (qstep cfg qs b t) = Passed.
Proof.
  unfold qstep. destruct (check_every cfg =? usize_max); [right; reflexivity|].
  destruct (negb (due _ _)); [right; reflexivity|].
  destruct (window_over _ _); [right; reflexivity|].
  left. cbn [fst snd q_counted]. lia.
Qed.

(** Others (and configuration changes) never make a verdict harsher than the ladder of the
    current maximum on the address's own calls so far. *)
Lemma others_never_hurt_ops_model checked cfg t0 ops1 b t ops2 :
  fits (length (ops1 ++ Reg b t :: ops2)) ->
  exists d, nth_error (decisions_ops checked cfg t0 (ops1 ++ Reg b t :: ops2)) (length (regs ops1)) = Some (Ok d) /\
            action_code d <= action_code (ladder (max_requests (config_after cfg ops1))
                                                 (calls_of b (regs (ops1 ++ [Reg b t])))).
Proof.
  intros Hf. rewrite (register_ops_refines checked cfg t0 _ Hf), nth_error_map, reference_ops_at.
  cbn [option_map]. eexists. split; [reflexivity|].
  destruct (qstep_bound (config_after cfg ops1) (snd (fst (ref_ops cfg (qinit t0) ops1))) b t) as [H|H].
  - eapply N.le_trans; [exact H|]. apply ladder_mono. rewrite <- counted_ops_snoc.
    apply counted_ops_le_calls.
  - rewrite H. cbn [action_code]. lia.
Qed.

(** While disabled (from [disable()] / [set_check_every(usize::MAX)] until the next
    [set_check_every]) every call passes and no counter moves. *)
Definition no_set_every (ops : list op) : bool :=
  forallb (fun o => match o with SetEvery _ => false | _ => true end) ops.
Lemma disabled_ops_run checked ops : forall cfg st,
  check_every cfg = usize_max -> no_set_every ops = true ->
  run_ops checked cfg st ops = (config_after cfg ops, st, repeat (Ok Passed) (length (regs ops))).
Proof.
  induction ops as [|o r IH]; intros cfg st Hd Hn; [reflexivity|].
  cbn [no_set_every forallb] in Hn. apply andb_prop in Hn as [Ho Hr].
  destruct o as [a t|m|k|rr|]; try discriminate; cbn [run_ops config_after op_cfg regs length repeat];
    try (apply IH; [first [exact Hd|reflexivity]|exact Hr]).
  unfold register. rewrite Hd, N.eqb_refl. rewrite (IH cfg st Hd Hr). reflexivity.
Qed.
Lemma disabled_ops_model checked cfg t0 ops1 ops2 :
  no_set_every ops2 = true ->
  decisions_ops checked cfg t0 (ops1 ++ Disable :: ops2)
  = decisions_ops checked cfg t0 ops1 ++ repeat (Ok Passed) (length (regs ops2)) /\
  state_after_ops checked cfg t0 (ops1 ++ Disable :: ops2) = state_after_ops checked cfg t0 ops1.
Proof.
  intros Hn. unfold decisions_ops, state_after_ops. rewrite run_ops_app. cbn [fst snd run_ops op_cfg].
  rewrite (disabled_ops_run checked ops2 (disable (config_after cfg ops1)) _ eq_refl Hn). split; reflexivity.
Qed.

(** Reset with configuration changes: a due call made when the *current* reset time has
    passed leaves a new limiter with the current configuration. *)
Lemma reset_forgets_ops_model checked cfg t0 ops1 a t ops2 R :
  let cfg1 := config_after cfg ops1 in
  reset_after cfg1 = Some R -> check_every cfg1 <> usize_max ->
  check_every cfg1 <= iteration (state_after_ops checked cfg t0 ops1) + 1 ->
  R <= t - win_start (state_after_ops checked cfg t0 ops1) ->
  decisions_ops checked cfg t0 (ops1 ++ Reg a t :: ops2)
  = decisions_ops checked cfg t0 ops1 ++ Ok Passed :: decisions_ops checked cfg1 t ops2.
Proof.
  intros cfg1 HR Hne Hk Hle. unfold decisions_ops, state_after_ops in *. rewrite run_ops_app. cbn [snd]. f_equal.
  fold cfg1. set (st := snd (fst (run_ops checked cfg (init t0) ops1))) in *.
  destruct (register_after_interval checked cfg1 st a t R HR Hle) as [Hd Hst].
  specialize (Hst Hne Hk). cbn [run_ops].
  destruct (register checked cfg1 st a t) as [st1 d]. cbn [fst snd] in *. subst st1 d.
  destruct (run_ops checked cfg1 (init t) ops2) as [[c2 s2] ds]; reflexivity.
Qed.

(** ... and such a call comes within [check_every] calls (current value) when no setter intervenes. *)
Lemma reset_within_check_every_ops_model checked cfg t0 ops1 h2 R :
  let cfg1 := config_after cfg ops1 in
  reset_after cfg1 = Some R -> check_every cfg1 <> usize_max ->
  h2 <> [] -> check_every cfg1 <= N.of_nat (length h2) ->
  Forall (fun e => R <= snd e - win_start (state_after_ops checked cfg t0 ops1)) h2 ->
  exists p a t s, h2 = p ++ (a, t) :: s /\
    state_after_ops checked cfg t0 (ops1 ++ map reg_of (p ++ [(a, t)])) = init t /\
    decisions_ops checked cfg t0 (ops1 ++ map reg_of (p ++ [(a, t)]))
    = decisions_ops checked cfg t0 ops1 ++ repeat (Ok Passed) (S (length p)) /\
    (p = [] \/ N.of_nat (length p) < check_every cfg1).
Proof.
  intros cfg1 HR Hne Hnil Hlen Hall. unfold state_after_ops, decisions_ops in *.
  destruct (reset_within checked cfg1 R HR Hne h2 (snd (fst (run_ops checked cfg (init t0) ops1))) Hnil ltac:(lia) Hall)
    as (p & a & t & s & Hsplit & Hrun & Hp).
  exists p, a, t, s. split; [exact Hsplit|]. rewrite run_ops_app. fold cfg1. rewrite run_ops_constant, Hrun. cbn [fst snd].
  split; [reflexivity|]. split; [reflexivity|]. destruct Hp as [Hp|Hp]; [left; exact Hp|right; lia].
Qed.

(** [iteration.fetch_add(1) + 1] cannot overflow whatever the setters do. *)
Lemma register_iter_lt checked cfg st a t :
  check_every cfg <= usize_max -> iteration st < usize_max -> iteration (fst (register checked cfg st a t)) < usize_max.
Proof.
  unfold register. intros Hk H.
  destruct (check_every cfg =? usize_max); [exact H|]. rewrite usize_val in *.
  destruct (N.ltb_spec (iteration st + 1) (check_every cfg)); [cbn [fst iteration]; lia|].
  destruct (window_over _ _); [cbn [fst iteration]; lia|].
  destruct (entry_bump checked a (conn_map st)) as [[rq m']| |]; try (cbn [fst iteration]; lia).
  destruct (rq <=? max_requests cfg); [cbn [fst iteration]; lia|].
  destruct (mul3_usize checked (max_requests cfg)); cbn [fst iteration]; lia.
Qed.
Definition cfgs_ok (cfg : config) (ops : list op) : Prop :=
  check_every cfg <= usize_max /\ Forall (fun o => match o with SetEvery k => k <= usize_max | _ => True end) ops.
Lemma run_ops_iter_lt checked ops : forall cfg st,
  cfgs_ok cfg ops -> iteration st < usize_max ->
  iteration (snd (fst (run_ops checked cfg st ops))) < usize_max.
Proof.
  induction ops as [|o r IH]; intros cfg st [Hk Hall] H; [exact H|].
  inversion Hall as [|x l Ho Hr]; subst.
  destruct o as [a t|m|k|rr|]; cbn [run_ops op_cfg];
    try (apply IH; [split; [cbn; first [exact Hk | exact Ho | rewrite usize_val; lia] | exact Hr] | exact H]).
  pose proof (register_iter_lt checked cfg st a t Hk H) as H1.
  destruct (register checked cfg st a t) as [st1 d]. cbn [fst] in H1.
  specialize (IH cfg st1 (conj Hk Hr) H1).
  destruct (run_ops checked cfg st1 r) as [[c2 st2] ds]. exact IH.
Qed.
Lemma iteration_ops_bounded checked cfg t0 ops :
  cfgs_ok cfg ops -> iteration (state_after_ops checked cfg t0 ops) + 1 <= usize_max.
Proof.
  intros Hok. pose proof (run_ops_iter_lt checked ops cfg (init t0) Hok) as H.
  unfold state_after_ops. cbn [init iteration] in H. rewrite usize_val in *.
  specialize (H ltac:(lia)). lia.
Qed.

(** * The server *)
Definition sim2p (n : N) (p : lstate * lstate) (q : qstate * qstate) : Prop :=
  sim2 n (fst p) (fst q) /\ sim2 n (snd p) (snd q).
Lemma sim2p_mono n m p q : sim2p n p q -> n <= m -> sim2p m p q.
Proof. intros [H1 H2] Hle. split; eapply sim2_mono; eassumption. Qed.
Lemma after_pre_sim n sh st qs p q : sim2 n st qs -> sim2p n p q -> sim2p n (after_pre sh st p) (after_pre sh qs q).
Proof. intros Hs [H1 H2]. unfold after_pre, sim2p. destruct sh; cbn [fst snd]; split; assumption. Qed.
Lemma after_host_sim n sh st qs p q : sim2 n st qs -> sim2p n p q -> sim2p n (after_host sh st p) (after_host sh qs q).
Proof. intros Hs [H1 H2]. unfold after_host, sim2p. destruct sh; cbn [fst snd]; split; assumption. Qed.
Lemma sim2p_start n t0 : sim2p n (init t0, init t0) (qinit t0, qinit t0).
Proof. split; apply sim2_init. Qed.

Lemma serve_sim checked sc a ts : forall n p q,
  sim2p n p q -> n + N.of_nat (length ts) <= third ->
  snd (fst (serve_requests checked sc p a ts)) = snd (fst (spec_requests sc q a ts)) /\
  snd (serve_requests checked sc p a ts) = snd (spec_requests sc q a ts) /\
  sim2p (n + N.of_nat (length ts)) (fst (fst (serve_requests checked sc p a ts))) (fst (fst (spec_requests sc q a ts))).
Proof.
  induction ts as [|t r IH]; intros n p q Hsim Hfit; cbn [serve_requests spec_requests].
  - cbn [fst snd length]. refine (conj eq_refl (conj eq_refl _)). eapply sim2p_mono; [exact Hsim|lia].
  - cbn [length] in Hfit.
    destruct (qstep_sim checked (host_cfg sc) n (snd p) (snd q) a t (proj2 Hsim)) as [Hd Hs]; [lia|].
    destruct (register checked (host_cfg sc) (snd p) a t) as [st1 d]. destruct (qstep (host_cfg sc) (snd q) a t) as [q1 d'].
    cbn [fst snd] in *. subst d.
    assert (Hp1 : sim2p (n + 1) (after_host (shared sc) st1 p) (after_host (shared sc) q1 q)).
    { apply after_host_sim; [exact Hs|]. eapply sim2p_mono; [exact Hsim|lia]. }
    destruct (IH (n + 1) _ _ Hp1) as (H1 & H2 & H3); [lia|].
    destruct d'.
    + destruct (serve_requests checked sc _ a r) as [[p2 l] c].
      destruct (spec_requests sc _ a r) as [[q2 l'] c']. cbn [fst snd length] in *.
      refine (conj _ (conj _ _)); try congruence. eapply sim2p_mono; [exact H3|lia].
    + destruct (serve_requests checked sc _ a r) as [[p2 l] c].
      destruct (spec_requests sc _ a r) as [[q2 l'] c']. cbn [fst snd length] in *.
      refine (conj _ (conj _ _)); try congruence. eapply sim2p_mono; [exact H3|lia].
    + cbn [fst snd length]. refine (conj eq_refl (conj eq_refl _)). eapply sim2p_mono; [exact Hp1|lia].
Qed.

(** Once the loop has ended nothing changes any more. *)
Lemma accept_run_ended odc checked sc evs : forall s,
  status s <> Running -> status (fst (accept_run odc checked sc s evs)) = status s.
Proof.
  induction evs as [|e r IH]; intros s Hs; [reflexivity|].
  cbn [accept_run]. unfold accept_step.
  destruct (status s) eqn:E; try contradiction;
    (specialize (IH s ltac:(rewrite E; discriminate));
     destruct (accept_run odc checked sc s r) as [s2 os]; cbn [fst] in *; congruence).
Qed.

(** One accepted connection from related states. *)
Lemma accept_conn_sim checked sc s q n a t reqs :
  status s = Running -> sim2p n (lims s) q -> n + N.of_nat (S (length reqs)) <= third ->
  exists s1 q1 res,
    accept_step true checked sc s (Conn a t reqs) = (s1, Some res) /\
    status s1 = Running /\ fails s1 = 0 /\ res <> Refused /\
    sim2p (n + N.of_nat (S (length reqs))) (lims s1) q1 /\
    (forall r, spec_server_from sc q ((a, t, reqs) :: r) = res :: spec_server_from sc q1 r).
Proof.
  intros Hal Hsim Hfit. unfold accept_step. rewrite Hal. cbn [spec_server_from].
  destruct (qstep_sim checked (pre_cfg sc) n (fst (lims s)) (fst q) a t (proj1 Hsim)) as [Hd Hs]; [lia|].
  destruct (register checked (pre_cfg sc) (fst (lims s)) a t) as [st1 d].
  destruct (qstep (pre_cfg sc) (fst q) a t) as [q1 d'].
  cbn [fst snd] in *. subst d.
  assert (Hp1 : sim2p (n + 1) (after_pre (shared sc) st1 (lims s)) (after_pre (shared sc) q1 q)).
  { apply after_pre_sim; [exact Hs|]. eapply sim2p_mono; [exact Hsim|lia]. }
  assert (Hserve := serve_sim checked sc a reqs (n + 1) _ _ Hp1).
  destruct d'.
  - destruct Hserve as (H1 & H2 & H3); [lia|].
    destruct (serve_requests checked sc _ a reqs) as [[p2 l] c].
    destruct (spec_requests sc _ a reqs) as [[q2 l'] c']. cbn [fst snd] in *. subst l' c'.
    eexists _, q2, _. split; [reflexivity|]. cbn [status fails lims].
    refine (conj eq_refl (conj eq_refl (conj _ (conj _ _)))); [discriminate| |reflexivity].
    eapply sim2p_mono; [exact H3|lia].
  - destruct Hserve as (H1 & H2 & H3); [lia|].
    destruct (serve_requests checked sc _ a reqs) as [[p2 l] c].
    destruct (spec_requests sc _ a reqs) as [[q2 l'] c']. cbn [fst snd] in *. subst l' c'.
    eexists _, q2, _. split; [reflexivity|]. cbn [status fails lims].
    refine (conj eq_refl (conj eq_refl (conj _ (conj _ _)))); [discriminate| |reflexivity].
    eapply sim2p_mono; [exact H3|lia].
  - eexists _, _, _. split; [reflexivity|]. cbn [status fails lims].
    refine (conj eq_refl (conj eq_refl (conj _ (conj _ _)))); [discriminate| |reflexivity].
    eapply sim2p_mono; [exact Hp1|lia].
Qed.

Lemma accept_conns_sim checked sc : forall cs s q n,
  status s = Running -> sim2p n (lims s) q -> n + N.of_nat (calls_bound cs) <= third ->
  snd (accept_run true checked sc s (map conn_of cs)) = spec_server_from sc q cs /\
  status (fst (accept_run true checked sc s (map conn_of cs))) = Running.
Proof.
  induction cs as [|[[a t] reqs] r IH]; intros s q n Hal Hsim Hfit.
  - cbn [map accept_run spec_server_from fst snd]. split; [reflexivity|exact Hal].
  - cbn [map conn_of accept_run calls_bound] in *.
    destruct (accept_conn_sim checked sc s q n a t reqs Hal Hsim) as (s1 & q1 & res & Hstep & Hal1 & _ & _ & Hs1 & Hspec); [lia|].
    rewrite Hstep, Hspec.
    destruct (IH s1 q1 _ Hal1 Hs1) as [E1 E2]; [lia|].
    destruct (accept_run true checked sc s1 (map conn_of r)) as [s2 os]. cbn [fst snd] in *.
    split; [rewrite E1; reflexivity|exact E2].
Qed.

(** The server equals the reference server (which never stops accepting). *)
Lemma server_refines_spec_model checked sc t0 cs :
  fits (calls_bound cs) ->
  accept_loop checked sc t0 (map conn_of cs) = (spec_server sc t0 cs, Running).
Proof.
  intros Hf. apply (proj1 (fits_third _)) in Hf. unfold accept_loop, spec_server.
  destruct (accept_conns_sim checked sc cs (astart t0) (qinit t0, qinit t0) 0 eq_refl (sim2p_start 0 t0)) as [E1 E2]; [lia|].
  destruct (accept_run true checked sc (astart t0) (map conn_of cs)) as [s os]. cbn [fst snd] in *.
  rewrite E1, E2. reflexivity.
Qed.

(** Whether and how the loop ends is [loop_spec]: a function of the kinds of the accept events
    alone.  While it runs nobody is refused. *)
Lemma accept_status checked sc : forall evs s q n,
  status s = Running -> sim2p n (lims s) q -> n + N.of_nat (ev_calls_bound evs) <= third ->
  status (fst (accept_run true checked sc s evs)) = loop_spec (fails s) evs /\
  (loop_spec (fails s) evs = Running -> ~ In Refused (snd (accept_run true checked sc s evs))).
Proof.
  induction evs as [|e r IH]; intros s q n Hal Hsim Hfit.
  - cbn [accept_run fst snd loop_spec]. split; [exact Hal|intros _ []].
  - destruct e as [a t reqs| | | |oh a t].
    + (* accepted connection *)
      cbn [accept_run ev_calls_bound loop_spec] in *.
      destruct (accept_conn_sim checked sc s q n a t reqs Hal Hsim) as (s1 & q1 & res & Hstep & Hal1 & Hf1 & Hres & Hs1 & _); [lia|].
      rewrite Hstep.
      destruct (IH s1 q1 _ Hal1 Hs1) as [E1 E2]; [lia|]. rewrite Hf1 in *.
      destruct (accept_run true checked sc s1 r) as [s2 os]. cbn [fst snd] in *.
      split; [exact E1|]. intros Hrun [H|H]; [congruence|exact (E2 Hrun H)].
    + (* accept error *)
      cbn [accept_run ev_calls_bound loop_spec] in *. unfold accept_step. rewrite Hal.
      destruct (fail_threshold <? fails s + 1) eqn:Hth.
      * pose proof (accept_run_ended true checked sc r
                      {| status := ReturnedErr; fails := fails s + 1; lims := lims s |} ltac:(discriminate)) as Hend.
        destruct (accept_run true checked sc _ r) as [s2 os]. cbn [fst snd status] in *.
        split; [exact Hend|discriminate].
      * destruct (IH {| status := Running; fails := fails s + 1; lims := lims s |} q n eq_refl Hsim Hfit) as [E1 E2].
        destruct (accept_run true checked sc _ r) as [s2 os]. cbn [fst snd fails] in *. split; assumption.
    + (* QUIC time-out *)
      cbn [accept_run ev_calls_bound loop_spec] in *. unfold accept_step. rewrite Hal.
      destruct (IH s q n Hal Hsim Hfit) as [E1 E2].
      destruct (accept_run true checked sc s r) as [s2 os]. cbn [fst snd] in *. split; assumption.
    + (* shutdown *)
      cbn [accept_run ev_calls_bound loop_spec] in *. unfold accept_step. rewrite Hal.
      pose proof (accept_run_ended true checked sc r
                    {| status := ReturnedOk; fails := fails s; lims := lims s |} ltac:(discriminate)) as Hend.
      destruct (accept_run true checked sc _ r) as [s2 os]. cbn [fst snd status] in *.
      split; [exact Hend|discriminate].
    + (* a call made by another task *)
      cbn [accept_run ev_calls_bound loop_spec] in *. unfold accept_step. rewrite Hal.
      destruct oh.
      * destruct (qstep_sim checked (host_cfg sc) n (snd (lims s)) (snd q) a t (proj2 Hsim)) as [_ Hs]; [lia|].
        assert (Hp1 : sim2p (n + 1) (after_host (shared sc) (fst (register checked (host_cfg sc) (snd (lims s)) a t)) (lims s))
                                    (after_host (shared sc) (fst (qstep (host_cfg sc) (snd q) a t)) q)).
        { apply after_host_sim; [exact Hs|]. eapply sim2p_mono; [exact Hsim|lia]. }
        destruct (IH {| status := Running; fails := fails s; lims := _ |} _ (n + 1) eq_refl Hp1) as [E1 E2]; [lia|].
        destruct (accept_run true checked sc _ r) as [s2 os]. cbn [fst snd fails] in *. split; assumption.
      * destruct (qstep_sim checked (pre_cfg sc) n (fst (lims s)) (fst q) a t (proj1 Hsim)) as [_ Hs]; [lia|].
        assert (Hp1 : sim2p (n + 1) (after_pre (shared sc) (fst (register checked (pre_cfg sc) (fst (lims s)) a t)) (lims s))
                                    (after_pre (shared sc) (fst (qstep (pre_cfg sc) (fst q) a t)) q)).
        { apply after_pre_sim; [exact Hs|]. eapply sim2p_mono; [exact Hsim|lia]. }
        destruct (IH {| status := Running; fails := fails s; lims := _ |} _ (n + 1) eq_refl Hp1) as [E1 E2]; [lia|].
        destruct (accept_run true checked sc _ r) as [s2 os]. cbn [fst snd fails] in *. split; assumption.
Qed.

Lemma listener_status_model checked sc t0 evs :
  fits (ev_calls_bound evs) ->
  snd (accept_loop checked sc t0 evs) = loop_spec 0 evs /\
  (loop_spec 0 evs = Running -> ~ In Refused (fst (accept_loop checked sc t0 evs))).
Proof.
  intros Hf. apply (proj1 (fits_third _)) in Hf. unfold accept_loop.
  destruct (accept_status checked sc evs (astart t0) (qinit t0, qinit t0) 0 eq_refl (sim2p_start 0 t0)) as [E1 E2]; [lia|].
  destruct (accept_run true checked sc (astart t0) evs) as [s os]. cbn [fst snd astart fails] in *. split; assumption.
Qed.

Lemma loop_spec_running evs : forall f,
  f <= fail_threshold ->
  (loop_spec f evs = Running <-> existsb is_shutdown evs = false /\ max_err_run f evs <= fail_threshold).
Proof.
  unfold fail_threshold.
  induction evs as [|e r IH]; intros f Hf.
  - cbn [loop_spec existsb max_err_run]. split; [intros _; split; [reflexivity|exact Hf]|reflexivity].
  - destruct e as [a t reqs| | | |oh a t]; cbn [loop_spec existsb is_shutdown orb max_err_run]; unfold fail_threshold.
    + rewrite (IH 0 ltac:(lia)). rewrite N.max_lub_iff. tauto.
    + destruct (N.ltb_spec 100 (f + 1)) as [Hlt|Hge].
      * split; [discriminate|]. intros [_ H]. apply N.max_lub_iff in H. lia.
      * rewrite (IH (f + 1) Hge). rewrite N.max_lub_iff. tauto.
    + rewrite (IH f Hf). rewrite N.max_lub_iff. tauto.
    + split; [discriminate|]. intros [H _]. discriminate.
    + rewrite (IH f Hf). rewrite N.max_lub_iff. tauto.
Qed.

(** Theorem 5: the accept loop survives every event list (no shutdown request, never more
    than 100 consecutive accept errors), and nobody is ever refused; and these are the only
    ways in which it ends. *)
Lemma listener_survives_model checked sc t0 evs :
  fits (ev_calls_bound evs) -> existsb is_shutdown evs = false -> max_err_run 0 evs <= 100 ->
  snd (accept_loop checked sc t0 evs) = Running /\ ~ In Refused (fst (accept_loop checked sc t0 evs)).
Proof.
  intros Hf Hsd Herr. destruct (listener_status_model checked sc t0 evs Hf) as [E1 E2].
  assert (Hrun : loop_spec 0 evs = Running).
  { apply (loop_spec_running evs 0); [unfold fail_threshold; lia|]. split; assumption. }
  split; [rewrite E1; exact Hrun|exact (E2 Hrun)].
Qed.

Lemma listener_stops_only_model checked sc t0 evs :
  fits (ev_calls_bound evs) -> snd (accept_loop checked sc t0 evs) <> Running ->
  existsb is_shutdown evs = true \/ 100 < max_err_run 0 evs.
Proof.
  intros Hf Hne. destruct (listener_status_model checked sc t0 evs Hf) as [E1 _]. rewrite E1 in Hne.
  pose proof (loop_spec_running evs 0 ltac:(unfold fail_threshold; lia)) as Hiff. unfold fail_threshold in Hiff.
  destruct (existsb is_shutdown evs) eqn:Hs; [left; reflexivity|right].
  destruct (N.ltb_spec 100 (max_err_run 0 evs)) as [H|H]; [exact H|].
  exfalso. apply Hne. apply Hiff. split; [reflexivity|exact H].
Qed.

(** kvarn 0.6.3: one address at the drop level ends the listener; the next client (another
    address, which made no request before) is refused. *)
Lemma listener_dies_063_witness :
  let sc := same_limiter {| max_requests := 0; check_every := 1; reset_after := Some 10000 |} in
  accept_loop_063 true sc 0 [Conn 1 0 []; Conn 2 1 [1]] = ([Served [] true; Refused], ReturnedOk) /\
  accept_loop true sc 0 [Conn 1 0 []; Conn 2 1 [1]] = ([Served [] true; Served [] true], Running).
Proof. vm_compute. split; reflexivity. Qed.

(** * The server over arbitrary event lists *)
Lemma accept_run_dead odc checked sc evs : forall s,
  status s <> Running -> accept_run odc checked sc s evs = (s, refused_all evs).
Proof.
  induction evs as [|e r IH]; intros s Hs; [reflexivity|].
  cbn [accept_run]. unfold accept_step.
  destruct (status s) eqn:E; try contradiction;
    (rewrite (IH s ltac:(rewrite E; discriminate));
     destruct e; unfold refused_all; cbn [filter is_conn map]; reflexivity).
Qed.

(** What the reference gives one connection, and the reference state after it. *)
Definition spec_conn (sc : sconfig) (q : qstate * qstate) (a t : N) (reqs : list N) : (qstate * qstate) * conn_result :=
  let (q1, d) := qstep (pre_cfg sc) (fst q) a t in
  let p1 := after_pre (shared sc) q1 q in
  match d with
  | Drop => (p1, Served [] true)
  | _ => let '(p2, l, c) := spec_requests sc p1 a reqs in (p2, Served l c)
  end.

Lemma spec_events_conn sc q f a t reqs r :
  spec_events sc q f (Conn a t reqs :: r)
  = (snd (spec_conn sc q a t reqs) :: fst (spec_events sc (fst (spec_conn sc q a t reqs)) 0 r),
     snd (spec_events sc (fst (spec_conn sc q a t reqs)) 0 r)).
Proof.
  cbn [spec_events]. unfold spec_conn.
  destruct (qstep (pre_cfg sc) (fst q) a t) as [q1 d].
  destruct d.
  - destruct (spec_requests sc _ a reqs) as [[p2 l] c]. cbn [fst snd].
    destruct (spec_events sc p2 0 r) as [os st]. reflexivity.
  - destruct (spec_requests sc _ a reqs) as [[p2 l] c]. cbn [fst snd].
    destruct (spec_events sc p2 0 r) as [os st]. reflexivity.
  - cbn [fst snd]. destruct (spec_events sc _ 0 r) as [os st]. reflexivity.
Qed.

Lemma accept_conn_sim_ev checked sc s q n a t reqs :
  status s = Running -> sim2p n (lims s) q -> n + N.of_nat (S (length reqs)) <= third ->
  exists s1,
    accept_step true checked sc s (Conn a t reqs) = (s1, Some (snd (spec_conn sc q a t reqs))) /\
    status s1 = Running /\ fails s1 = 0 /\
    sim2p (n + N.of_nat (S (length reqs))) (lims s1) (fst (spec_conn sc q a t reqs)).
Proof.
  intros Hal Hsim Hfit. unfold accept_step, spec_conn. rewrite Hal.
  destruct (qstep_sim checked (pre_cfg sc) n (fst (lims s)) (fst q) a t (proj1 Hsim)) as [Hd Hs]; [lia|].
  destruct (register checked (pre_cfg sc) (fst (lims s)) a t) as [st1 d].
  destruct (qstep (pre_cfg sc) (fst q) a t) as [q1 d'].
  cbn [fst snd] in *. subst d.
  assert (Hp1 : sim2p (n + 1) (after_pre (shared sc) st1 (lims s)) (after_pre (shared sc) q1 q)).
  { apply after_pre_sim; [exact Hs|]. eapply sim2p_mono; [exact Hsim|lia]. }
  assert (Hserve := serve_sim checked sc a reqs (n + 1) _ _ Hp1).
  destruct d'.
  - destruct Hserve as (H1 & H2 & H3); [lia|].
    destruct (serve_requests checked sc _ a reqs) as [[p2 l] c].
    destruct (spec_requests sc _ a reqs) as [[q2 l'] c']. cbn [fst snd] in *. subst l' c'.
    eexists. split; [reflexivity|]. cbn [status fails lims].
    refine (conj eq_refl (conj eq_refl _)). eapply sim2p_mono; [exact H3|lia].
  - destruct Hserve as (H1 & H2 & H3); [lia|].
    destruct (serve_requests checked sc _ a reqs) as [[p2 l] c].
    destruct (spec_requests sc _ a reqs) as [[q2 l'] c']. cbn [fst snd] in *. subst l' c'.
    eexists. split; [reflexivity|]. cbn [status fails lims].
    refine (conj eq_refl (conj eq_refl _)). eapply sim2p_mono; [exact H3|lia].
  - eexists. split; [reflexivity|]. cbn [status fails lims fst snd].
    refine (conj eq_refl (conj eq_refl _)). eapply sim2p_mono; [exact Hp1|lia].
Qed.

Lemma accept_events_sim checked sc : forall evs s q n,
  status s = Running -> sim2p n (lims s) q -> n + N.of_nat (ev_calls_bound evs) <= third ->
  snd (accept_run true checked sc s evs) = fst (spec_events sc q (fails s) evs) /\
  status (fst (accept_run true checked sc s evs)) = snd (spec_events sc q (fails s) evs).
Proof.
  induction evs as [|e r IH]; intros s q n Hal Hsim Hfit.
  - cbn [accept_run fst snd spec_events]. split; [reflexivity|exact Hal].
  - destruct e as [a t reqs| | | |oh a t].
    + (* accepted connection *)
      cbn [accept_run ev_calls_bound] in *.
      destruct (accept_conn_sim_ev checked sc s q n a t reqs Hal Hsim) as (s1 & Hstep & Hal1 & Hf1 & Hs1); [lia|].
      rewrite Hstep, spec_events_conn.
      destruct (IH s1 _ _ Hal1 Hs1) as [E1 E2]; [lia|]. rewrite Hf1 in *.
      destruct (accept_run true checked sc s1 r) as [s2 os]. cbn [fst snd] in *.
      split; [rewrite E1; reflexivity|exact E2].
    + (* accept error *)
      cbn [accept_run ev_calls_bound spec_events] in *. unfold accept_step. rewrite Hal.
      destruct (fail_threshold <? fails s + 1) eqn:Hth.
      * rewrite (accept_run_dead true checked sc r {| status := ReturnedErr; fails := fails s + 1; lims := lims s |} ltac:(discriminate)).
        cbn [fst snd status]. split; reflexivity.
      * destruct (IH {| status := Running; fails := fails s + 1; lims := lims s |} q n eq_refl Hsim Hfit) as [E1 E2].
        destruct (accept_run true checked sc _ r) as [s2 os]. cbn [fst snd fails] in *. split; assumption.
    + (* QUIC time-out *)
      cbn [accept_run ev_calls_bound spec_events] in *. unfold accept_step. rewrite Hal.
      destruct (IH s q n Hal Hsim Hfit) as [E1 E2].
      destruct (accept_run true checked sc s r) as [s2 os]. cbn [fst snd] in *. split; assumption.
    + (* shutdown *)
      cbn [accept_run ev_calls_bound spec_events] in *. unfold accept_step. rewrite Hal.
      rewrite (accept_run_dead true checked sc r {| status := ReturnedOk; fails := fails s; lims := lims s |} ltac:(discriminate)).
      cbn [fst snd status]. split; reflexivity.
    + (* a call made by another task *)
      cbn [accept_run ev_calls_bound spec_events] in *. unfold accept_step. rewrite Hal.
      destruct oh.
      * destruct (qstep_sim checked (host_cfg sc) n (snd (lims s)) (snd q) a t (proj2 Hsim)) as [_ Hs]; [lia|].
        assert (Hp1 : sim2p (n + 1) (after_host (shared sc) (fst (register checked (host_cfg sc) (snd (lims s)) a t)) (lims s))
                                    (after_host (shared sc) (fst (qstep (host_cfg sc) (snd q) a t)) q)).
        { apply after_host_sim; [exact Hs|]. eapply sim2p_mono; [exact Hsim|lia]. }
        destruct (IH {| status := Running; fails := fails s; lims := _ |} _ (n + 1) eq_refl Hp1) as [E1 E2]; [lia|].
        destruct (accept_run true checked sc _ r) as [s2 os]. cbn [fst snd fails] in *. split; assumption.
      * destruct (qstep_sim checked (pre_cfg sc) n (fst (lims s)) (fst q) a t (proj1 Hsim)) as [_ Hs]; [lia|].
        assert (Hp1 : sim2p (n + 1) (after_pre (shared sc) (fst (register checked (pre_cfg sc) (fst (lims s)) a t)) (lims s))
                                    (after_pre (shared sc) (fst (qstep (pre_cfg sc) (fst q) a t)) q)).
        { apply after_pre_sim; [exact Hs|]. eapply sim2p_mono; [exact Hsim|lia]. }
        destruct (IH {| status := Running; fails := fails s; lims := _ |} _ (n + 1) eq_refl Hp1) as [E1 E2]; [lia|].
        destruct (accept_run true checked sc _ r) as [s2 os]. cbn [fst snd fails] in *. split; assumption.
Qed.

(** For every event list the server answers exactly as the reference server for event lists. *)
Lemma server_events_model checked sc t0 evs :
  fits (ev_calls_bound evs) -> accept_loop checked sc t0 evs = spec_server_events sc t0 evs.
Proof.
  intros Hf. apply (proj1 (fits_third _)) in Hf. unfold accept_loop, spec_server_events.
  destruct (accept_events_sim checked sc evs (astart t0) (qinit t0, qinit t0) 0 eq_refl (sim2p_start 0 t0)) as [E1 E2]; [lia|].
  destruct (accept_run true checked sc (astart t0) evs) as [s os]. cbn [fst snd astart fails] in *.
  rewrite E1, E2. destruct (spec_events sc (qinit t0, qinit t0) 0 evs). reflexivity.
Qed.

(** The reference server for event lists: how it ends is [loop_spec]; while that says [Running] nobody is
    refused; after it has ended everybody is; and without events other than connections it is [spec_server]. *)
Lemma spec_events_status sc : forall evs q f, snd (spec_events sc q f evs) = loop_spec f evs.
Proof.
  induction evs as [|e r IH]; intros q f; [reflexivity|].
  destruct e as [a t reqs| | | |oh a t].
  - rewrite spec_events_conn. cbn [snd loop_spec]. apply IH.
  - cbn [spec_events loop_spec]. destruct (fail_threshold <? f + 1); [reflexivity|apply IH].
  - cbn [spec_events loop_spec]. apply IH.
  - reflexivity.
  - cbn [spec_events loop_spec]. destruct oh; apply IH.
Qed.

Lemma spec_events_conns sc : forall cs q f,
  spec_events sc q f (map conn_of cs) = (spec_server_from sc q cs, Running).
Proof.
  induction cs as [|[[a t] reqs] r IH]; intros q f; [reflexivity|].
  cbn [map conn_of]. rewrite spec_events_conn. rewrite IH. cbn [fst snd spec_server_from]. unfold spec_conn.
  destruct (qstep (pre_cfg sc) (fst q) a t) as [q1 d].
  destruct d; try (destruct (spec_requests sc _ a reqs) as [[p2 l] c]); reflexivity.
Qed.

(** * The bystander at the server: an address whose calls so far all fit under both maxima is served *)
Definition pinv (b : N) (p : qstate * qstate) (c : N) : Prop :=
  count b (q_counted (fst p)) <= c /\ count b (q_counted (snd p)) <= c.

Lemma pinv_after_host b sh q1 p c c' :
  pinv b p c -> count b (q_counted q1) <= c' -> c <= c' -> pinv b (after_host sh q1 p) c'.
Proof. intros [H1 H2] Hq Hle. unfold after_host, pinv. destruct sh; cbn [fst snd]; lia. Qed.
Lemma pinv_after_pre b sh q1 p c c' :
  pinv b p c -> count b (q_counted q1) <= c' -> c <= c' -> pinv b (after_pre sh q1 p) c'.
Proof. intros [H1 H2] Hq Hle. unfold after_pre, pinv. destruct sh; cbn [fst snd]; lia. Qed.

Lemma spec_requests_counted sc b a : forall ts p c,
  pinv b p c -> pinv b (fst (fst (spec_requests sc p a ts))) (c + (if a =? b then N.of_nat (length ts) else 0)).
Proof.
  induction ts as [|t r IH]; intros p c Hp; cbn [spec_requests].
  - cbn [fst length]. destruct Hp. split; destruct (a =? b); lia.
  - pose proof (qstep_counted_le (host_cfg sc) (snd p) a t b) as Hq.
    destruct (qstep (host_cfg sc) (snd p) a t) as [q1 d]. cbn [fst] in Hq.
    assert (Hp1 : pinv b (after_host (shared sc) q1 p) (c + (if a =? b then 1 else 0))).
    { eapply pinv_after_host; [exact Hp| |destruct (a =? b); lia]. destruct Hp. lia. }
    specialize (IH (after_host (shared sc) q1 p) _ Hp1).
    destruct d.
    + destruct (spec_requests sc _ a r) as [[p2 l] cc]. cbn [fst length] in *.
      destruct IH. split; destruct (a =? b); lia.
    + destruct (spec_requests sc _ a r) as [[p2 l] cc]. cbn [fst length] in *.
      destruct IH. split; destruct (a =? b); lia.
    + cbn [fst length]. destruct Hp1. split; destruct (a =? b); lia.
Qed.

Lemma spec_conn_counted sc b p c a t reqs :
  pinv b p c -> pinv b (fst (spec_conn sc p a t reqs)) (c + (if a =? b then 1 + N.of_nat (length reqs) else 0)).
Proof.
  intros Hp. unfold spec_conn.
  pose proof (qstep_counted_le (pre_cfg sc) (fst p) a t b) as Hq.
  destruct (qstep (pre_cfg sc) (fst p) a t) as [q1 d]. cbn [fst] in Hq.
  assert (Hp1 : pinv b (after_pre (shared sc) q1 p) (c + (if a =? b then 1 else 0))).
  { eapply pinv_after_pre; [exact Hp| |destruct (a =? b); lia]. destruct Hp. lia. }
  pose proof (spec_requests_counted sc b a reqs _ _ Hp1) as Hr.
  destruct d.
  - destruct (spec_requests sc _ a reqs) as [[p2 l] cc]. cbn [fst] in *. destruct Hr. split; destruct (a =? b); lia.
  - destruct (spec_requests sc _ a reqs) as [[p2 l] cc]. cbn [fst] in *. destruct Hr. split; destruct (a =? b); lia.
  - cbn [fst]. destruct Hp1. split; destruct (a =? b); lia.
Qed.

Lemma spec_requests_bystander sc b : forall ts p c,
  pinv b p c -> c + N.of_nat (length ts) <= max_requests (host_cfg sc) ->
  snd (fst (spec_requests sc p b ts)) = repeat Normal (length ts) /\ snd (spec_requests sc p b ts) = false.
Proof.
  induction ts as [|t r IH]; intros p c Hp Hc; cbn [spec_requests length repeat] in *; [split; reflexivity|].
  pose proof (qstep_counted_le (host_cfg sc) (snd p) b t b) as Hq. rewrite N.eqb_refl in Hq.
  pose proof (qstep_passed (host_cfg sc) (snd p) b t) as Hpass.
  destruct (qstep (host_cfg sc) (snd p) b t) as [q1 d]. cbn [fst snd] in *.
  rewrite Hpass by (destruct Hp; lia).
  assert (Hp1 : pinv b (after_host (shared sc) q1 p) (c + 1)).
  { eapply pinv_after_host; [exact Hp| |lia]. destruct Hp. lia. }
  destruct (IH _ _ Hp1 ltac:(lia)) as [E1 E2].
  destruct (spec_requests sc _ b r) as [[p2 l] cc]. cbn [fst snd] in *. subst. split; reflexivity.
Qed.

Lemma spec_conn_bystander sc b p c t reqs :
  pinv b p c -> c + 1 + N.of_nat (length reqs) <= min_max sc ->
  snd (spec_conn sc p b t reqs) = Served (repeat Normal (length reqs)) false.
Proof.
  intros Hp Hc. unfold min_max in Hc. unfold spec_conn.
  pose proof (qstep_counted_le (pre_cfg sc) (fst p) b t b) as Hq. rewrite N.eqb_refl in Hq.
  pose proof (qstep_passed (pre_cfg sc) (fst p) b t) as Hpass.
  destruct (qstep (pre_cfg sc) (fst p) b t) as [q1 d]. cbn [fst snd] in *.
  rewrite Hpass by (destruct Hp; lia).
  assert (Hp1 : pinv b (after_pre (shared sc) q1 p) (c + 1)).
  { eapply pinv_after_pre; [exact Hp| |lia]. destruct Hp. lia. }
  destruct (spec_requests_bystander sc b reqs _ _ Hp1 ltac:(lia)) as [E1 E2].
  destruct (spec_requests sc _ b reqs) as [[p2 l] cc]. cbn [fst snd] in *. subst. reflexivity.
Qed.

Lemma spec_events_bystander sc b t reqs evs2 : forall evs1 p f c,
  pinv b p c -> loop_spec f evs1 = Running ->
  c + ev_calls_of b evs1 + 1 + N.of_nat (length reqs) <= min_max sc ->
  nth_error (fst (spec_events sc p f (evs1 ++ Conn b t reqs :: evs2))) (length (filter is_conn evs1))
  = Some (Served (repeat Normal (length reqs)) false).
Proof.
  induction evs1 as [|e r IH]; intros p f c Hp Hrun Hc.
  - cbn [app filter length ev_calls_of] in *. rewrite spec_events_conn. cbn [fst nth_error].
    rewrite (spec_conn_bystander sc b p c t reqs Hp) by lia. reflexivity.
  - destruct e as [a t' reqs'| | | |oh a t']; cbn [app filter is_conn length ev_calls_of loop_spec] in *.
    + rewrite spec_events_conn. cbn [fst nth_error].
      apply (IH _ 0 _ (spec_conn_counted sc b p c a t' reqs' Hp) Hrun). lia.
    + cbn [spec_events]. destruct (fail_threshold <? f + 1); [discriminate|]. apply (IH p (f + 1) c Hp Hrun Hc).
    + cbn [spec_events]. apply (IH p f c Hp Hrun Hc).
    + discriminate.
    + cbn [spec_events]. destruct oh.
      * pose proof (qstep_counted_le (host_cfg sc) (snd p) a t' b) as Hq.
        apply (IH _ f (c + (if a =? b then 1 else 0))); [|exact Hrun|lia].
        eapply pinv_after_host; [exact Hp| |destruct (a =? b); lia]. destruct Hp. lia.
      * pose proof (qstep_counted_le (pre_cfg sc) (fst p) a t' b) as Hq.
        apply (IH _ f (c + (if a =? b then 1 else 0))); [|exact Hrun|lia].
        eapply pinv_after_pre; [exact Hp| |destruct (a =? b); lia]. destruct Hp. lia.
Qed.

(** At the server: whatever happened before (any connections and requests of anybody, accept errors,
    calls of other tasks) — as long as the listener has not been ended by a shutdown request or
    101 accept errors in a row — a client whose calls so far, this connection and its requests
    included, are at most the smaller configured maximum is accepted and every request is answered
    normally. *)
Lemma server_bystander_model checked sc t0 evs1 b t reqs evs2 :
  fits (ev_calls_bound (evs1 ++ Conn b t reqs :: evs2)) ->
  loop_spec 0 evs1 = Running ->
  ev_calls_of b evs1 + 1 + N.of_nat (length reqs) <= min_max sc ->
  nth_error (fst (accept_loop checked sc t0 (evs1 ++ Conn b t reqs :: evs2))) (length (filter is_conn evs1))
  = Some (Served (repeat Normal (length reqs)) false).
Proof.
  intros Hf Hrun Hc. rewrite (server_events_model checked sc t0 _ Hf). unfold spec_server_events.
  apply (spec_events_bystander sc b t reqs evs2 evs1 _ 0 0); [|exact Hrun|lia].
  split; cbn [qinit fst snd q_counted count]; lia.
Qed.
