(** C12 — proofs about Model/Limiter.v. *)
From KV Require Import Bytes RustInt Limiter.
From Coq Require Import ZifyBool ZifyNat ZifyN.
Open Scope N_scope.
Arguments N.add : simpl never. Arguments N.sub : simpl never. Arguments N.mul : simpl never.
Arguments N.eqb : simpl never. Arguments N.ltb : simpl never. Arguments N.leb : simpl never.
Arguments N.div : simpl never. Arguments N.modulo : simpl never. Arguments N.max : simpl never.
Arguments N.of_nat : simpl never. Arguments N.to_nat : simpl never.

Definition third : N := 6148914691236517205.
Lemma third_val : usize_max / 3 = third. Proof. reflexivity. Qed.
Lemma usize_val : usize_max = 18446744073709551615. Proof. reflexivity. Qed.
Lemma fits_third n : fits n <-> N.of_nat n <= third.
Proof. unfold fits. rewrite third_val. reflexivity. Qed.

(** * The map *)
Lemma map_get_set_same a v m : map_get a (map_set a v m) = Some v.
Proof.
  induction m as [|[k w] r IH]; cbn [map_set map_get].
  - rewrite N.eqb_refl. reflexivity.
  - destruct (N.eqb_spec k a) as [E|E]; cbn [map_get].
    + subst. rewrite N.eqb_refl. reflexivity.
    + destruct (N.eqb_spec k a); [contradiction|]. exact IH.
Qed.

Lemma map_get_set_other a b v m : a <> b -> map_get b (map_set a v m) = map_get b m.
Proof.
  intros Hab. induction m as [|[k w] r IH]; cbn [map_set map_get].
  - destruct (N.eqb_spec a b); [contradiction|]. reflexivity.
  - destruct (N.eqb_spec k a) as [E|E]; cbn [map_get].
    + subst. destruct (N.eqb_spec a b); [contradiction|]. reflexivity.
    + destruct (N.eqb_spec k b); [reflexivity|]. exact IH.
Qed.

Lemma count_le_length a l : count a l <= N.of_nat (length l).
Proof.
  induction l as [|x r IH]; cbn [count length]; [lia|].
  destruct (x =? a); lia.
Qed.

Lemma count_app a l1 l2 : count a (l1 ++ l2) = count a l1 + count a l2.
Proof. induction l1 as [|x r IH]; cbn [count app]; [lia|]. rewrite IH. lia. Qed.

(** * The ladder of the reference: three zones *)
Lemma ladder_passed max n : ladder max n = Passed <-> n <= max.
Proof.
  unfold ladder. destruct (N.leb_spec n max); [tauto|].
  destruct (N.leb_spec n (3 * max)); split; intros; try discriminate; lia.
Qed.
Lemma ladder_send max n : ladder max n = Send <-> max < n <= 3 * max.
Proof.
  unfold ladder. destruct (N.leb_spec n max); [split; intros; [discriminate|lia]|].
  destruct (N.leb_spec n (3 * max)); split; intros; try discriminate; try lia. reflexivity.
Qed.
Lemma ladder_drop max n : ladder max n = Drop <-> 3 * max < n.
Proof.
  unfold ladder. destruct (N.leb_spec n max); [split; intros; [discriminate|lia]|].
  destruct (N.leb_spec n (3 * max)); split; intros; try discriminate; try lia. reflexivity.
Qed.
Lemma ladder_mono max n m : n <= m -> action_code (ladder max n) <= action_code (ladder max m).
Proof.
  intros H. unfold ladder.
  destruct (N.leb_spec n max), (N.leb_spec m max), (N.leb_spec n (3 * max)), (N.leb_spec m (3 * max));
    cbn [action_code]; lia.
Qed.

(** * Sampling: the wrap-around counter is "every k-th call" *)
Lemma sampled_counter k seen : 2 <= k ->
  (seen mod k + 1 <? k) = negb (sampled k seen) /\
  (if seen mod k + 1 <? k then seen mod k + 1 else 0) = (seen + 1) mod k.
Proof.
  intros Hk. unfold sampled.
  assert (Hk0 : k <> 0) by lia.
  pose proof (N.mod_upper_bound seen k Hk0) as Hlt.
  assert (E : (seen + 1) mod k = (seen mod k + 1) mod k).
  { rewrite (N.add_mod seen 1 k Hk0). rewrite (N.mod_small 1 k) by lia. reflexivity. }
  replace (k <=? 1) with false by lia. cbn [orb].
  destruct (N.ltb_spec (seen mod k + 1) k) as [H|H].
  - rewrite E, (N.mod_small _ _ H). split; [|reflexivity].
    destruct (N.eqb_spec (seen mod k + 1) 0); [lia|reflexivity].
  - assert (E2 : seen mod k + 1 = k) by lia.
    rewrite E, E2, N.mod_same by exact Hk0. split; reflexivity.
Qed.

(** * Simulation between the code's state and the reference's state *)
Record sim (cfg : config) (st : lstate) (rs : rstate) : Prop := {
  sim_iter : iteration st = if check_every cfg <=? 1 then 0 else r_seen rs mod check_every cfg;
  sim_start : win_start st = r_start rs;
  sim_map : forall a, map_get a (conn_map st)
                      = if count a (r_counted rs) =? 0 then None else Some (count a (r_counted rs));
  sim_len : N.of_nat (length (r_counted rs)) <= r_seen rs
}.

Lemma sim_init cfg t0 : sim cfg (init t0) (rinit t0).
Proof.
  constructor; cbn [init rinit iteration win_start conn_map r_seen r_start r_counted map_get count length].
  - destruct (N.leb_spec (check_every cfg) 1); [reflexivity|]. rewrite N.mod_0_l by lia. reflexivity.
  - reflexivity.
  - intros a. reflexivity.
  - lia.
Qed.

(** One call: same verdict, related states, provided the call number is below 2^64/3. *)
Lemma step_sim checked cfg st rs a t :
  sim cfg st rs -> r_seen rs + 1 <= third ->
  snd (register checked cfg st a t) = Ok (snd (ref_step cfg rs a t)) /\
  sim cfg (fst (register checked cfg st a t)) (fst (ref_step cfg rs a t)) /\
  r_seen (fst (ref_step cfg rs a t)) <= r_seen rs + 1 /\
  (check_every cfg <> usize_max -> r_seen (fst (ref_step cfg rs a t)) = r_seen rs + 1).
Proof.
  intros [Hit Hst Hmap Hlen] Hfit. unfold register, ref_step.
  destruct (N.eqb_spec (check_every cfg) usize_max) as [Hd|Hd].
  { cbn [fst snd]. refine (conj _ (conj _ (conj _ _))); try reflexivity; try lia.
    constructor; assumption. }
  set (k := check_every cfg) in *.
  assert (Hsamp : (iteration st + 1 <? k) = negb (sampled k (r_seen rs)) /\
                  (if iteration st + 1 <? k then iteration st + 1 else 0)
                  = if k <=? 1 then 0 else (r_seen rs + 1) mod k).
  { rewrite Hit. destruct (N.leb_spec k 1) as [Hk|Hk].
    - unfold sampled. replace (k <=? 1) with true by lia. replace (0 + 1 <? k) with false by lia.
      split; reflexivity.
    - apply sampled_counter. lia. }
  destruct Hsamp as [Hs1 Hs2]. rewrite Hs1 in *.
  destruct (sampled k (r_seen rs)) eqn:Hsam; cbn [negb] in *.
  2:{ (* not sampled *)
    cbn [fst snd]. refine (conj _ (conj _ (conj _ _))); try reflexivity; try lia.
    constructor; cbn [iteration win_start conn_map r_seen r_start r_counted];
      [exact Hs2 | assumption | assumption | lia]. }
  (* sampled *)
  rewrite Hst.
  destruct (window_over (reset_after cfg) (t - r_start rs)).
  { (* the window is over: restart, not counted *)
    cbn [fst snd]. refine (conj _ (conj _ (conj _ _))); try reflexivity; try lia.
    constructor; cbn [iteration win_start conn_map r_seen r_start r_counted map_get count length];
      [exact Hs2 | reflexivity | intros; reflexivity | lia]. }
  (* counted *)
  pose proof (count_le_length a (r_counted rs)) as Hc.
  unfold entry_bump. rewrite (Hmap a).
  set (c := count a (r_counted rs)) in *.
  assert (Hnew : count a (a :: r_counted rs) = c + 1).
  { cbn [count]. rewrite N.eqb_refl. fold c. lia. }
  assert (Hinc : match (if c =? 0 then None else Some c) with
                 | None => Ok (1, map_set a 1 (conn_map st))
                 | Some c0 => match inc_usize checked c0 with
                              | Ok c' => Ok (c', map_set a c' (conn_map st))
                              | Err e => Err e
                              | Panic => Panic
                              end
                 end = Ok (c + 1, map_set a (c + 1) (conn_map st))).
  { destruct (N.eqb_spec c 0) as [E|E].
    - rewrite E. reflexivity.
    - unfold inc_usize. rewrite usize_val. unfold third in Hfit.
      replace (c + 1 <=? 18446744073709551615) with true by lia. reflexivity. }
  rewrite Hinc. rewrite Hnew.
  assert (Hsim' : sim cfg {| iteration := 0; win_start := r_start rs; conn_map := map_set a (c + 1) (conn_map st) |}
                      {| r_seen := r_seen rs + 1; r_start := r_start rs; r_counted := a :: r_counted rs |}).
  { constructor; cbn [iteration win_start conn_map r_seen r_start r_counted].
    - exact Hs2.
    - reflexivity.
    - intros b. destruct (N.eq_dec a b) as [E|E].
      + subst b. rewrite map_get_set_same, Hnew.
        destruct (N.eqb_spec (c + 1) 0); [lia|reflexivity].
      + rewrite (map_get_set_other a b _ _ E), (Hmap b). cbn [count].
        destruct (N.eqb_spec a b); [contradiction|]. rewrite N.add_0_l. reflexivity.
    - cbn [length]. lia. }
  unfold ladder.
  destruct (N.leb_spec (c + 1) (max_requests cfg)) as [Hle|Hgt].
  { cbn [fst snd]. refine (conj _ (conj _ (conj _ _))); try reflexivity; try lia. exact Hsim'. }
  unfold mul3_usize. rewrite usize_val. unfold third in Hfit.
  replace (3 * max_requests cfg <=? 18446744073709551615) with true by lia.
  destruct (c + 1 <=? 3 * max_requests cfg); cbn [fst snd r_seen];
    (refine (conj _ (conj _ (conj _ _))); [reflexivity | exact Hsim' | lia | lia]).
Qed.

(** * Histories *)
Lemma run_app checked cfg h1 h2 st :
  run checked cfg st (h1 ++ h2)
  = (fst (run checked cfg (fst (run checked cfg st h1)) h2),
     snd (run checked cfg st h1) ++ snd (run checked cfg (fst (run checked cfg st h1)) h2)).
Proof.
  revert st. induction h1 as [|[a t] r IH]; intros st; cbn [run app fst snd].
  - destruct (run checked cfg st h2); reflexivity.
  - destruct (register checked cfg st a t) as [st1 d]. rewrite IH.
    destruct (run checked cfg st1 r) as [st2 ds]. cbn [fst snd]. reflexivity.
Qed.

Lemma ref_run_app cfg h1 h2 rs :
  ref_run cfg rs (h1 ++ h2)
  = (fst (ref_run cfg (fst (ref_run cfg rs h1)) h2),
     snd (ref_run cfg rs h1) ++ snd (ref_run cfg (fst (ref_run cfg rs h1)) h2)).
Proof.
  revert rs. induction h1 as [|[a t] r IH]; intros rs; cbn [ref_run app fst snd].
  - destruct (ref_run cfg rs h2); reflexivity.
  - destruct (ref_step cfg rs a t) as [rs1 d]. rewrite IH.
    destruct (ref_run cfg rs1 r) as [rs2 ds]. cbn [fst snd]. reflexivity.
Qed.

Lemma run_length checked cfg h st : length (snd (run checked cfg st h)) = length h.
Proof.
  revert st. induction h as [|[a t] r IH]; intros st; cbn [run]; [reflexivity|].
  destruct (register checked cfg st a t) as [st1 d]. specialize (IH st1).
  destruct (run checked cfg st1 r). cbn [snd length] in *. congruence.
Qed.

Lemma ref_run_length cfg h rs : length (snd (ref_run cfg rs h)) = length h.
Proof.
  revert rs. induction h as [|[a t] r IH]; intros rs; cbn [ref_run]; [reflexivity|].
  destruct (ref_step cfg rs a t) as [rs1 d]. specialize (IH rs1).
  destruct (ref_run cfg rs1 r). cbn [snd length] in *. congruence.
Qed.

(** The refinement, from related states. *)
Lemma run_sim checked cfg h : forall st rs,
  sim cfg st rs -> r_seen rs + N.of_nat (length h) <= third ->
  snd (run checked cfg st h) = map Ok (snd (ref_run cfg rs h)) /\
  sim cfg (fst (run checked cfg st h)) (fst (ref_run cfg rs h)) /\
  r_seen (fst (ref_run cfg rs h)) <= r_seen rs + N.of_nat (length h) /\
  (check_every cfg <> usize_max -> r_seen (fst (ref_run cfg rs h)) = r_seen rs + N.of_nat (length h)).
Proof.
  induction h as [|[a t] r IH]; intros st rs Hsim Hfit; cbn [run ref_run].
  - cbn [fst snd map length]. refine (conj _ (conj _ (conj _ _))); try reflexivity; try assumption; lia.
  - cbn [length] in Hfit.
    destruct (step_sim checked cfg st rs a t Hsim) as (Hd & Hs & Hle & Heq); [lia|].
    destruct (register checked cfg st a t) as [st1 d]. destruct (ref_step cfg rs a t) as [rs1 d'].
    cbn [fst snd] in *.
    destruct (IH st1 rs1 Hs) as (Hd2 & Hs2 & Hle2 & Heq2); [lia|].
    destruct (run checked cfg st1 r) as [st2 ds]. destruct (ref_run cfg rs1 r) as [rs2 ds'].
    cbn [fst snd map length] in *.
    refine (conj _ (conj _ (conj _ _))).
    + rewrite Hd, Hd2. reflexivity.
    + exact Hs2.
    + lia.
    + intros Hne. rewrite (Heq2 Hne), (Heq Hne). lia.
Qed.

(** Theorem 1: for every sequential history and configuration the code's decisions are
    those of the reference counter. *)
Lemma register_refines checked cfg t0 h :
  fits (length h) -> decisions checked cfg t0 h = map Ok (reference cfg t0 h).
Proof.
  intros Hf. apply (proj1 (fits_third _)) in Hf. unfold decisions, reference.
  apply (run_sim checked cfg h (init t0) (rinit t0) (sim_init cfg t0)).
  cbn [rinit r_seen]. lia.
Qed.

Lemma register_no_panic checked cfg t0 h :
  fits (length h) -> Forall (fun d => exists a, d = Ok a) (decisions checked cfg t0 h).
Proof.
  intros Hf. rewrite (register_refines checked cfg t0 h Hf).
  apply Forall_forall. intros d Hin. apply in_map_iff in Hin as (a & <- & _). eauto.
Qed.

(** The counter never reaches [check_every]: [fetch_add(1) + 1] cannot overflow. *)
Definition iter_ok (cfg : config) (st : lstate) : Prop := iteration st = 0 \/ iteration st < check_every cfg.
Lemma register_iter_ok checked cfg st a t : iter_ok cfg st -> iter_ok cfg (fst (register checked cfg st a t)).
Proof.
  unfold iter_ok, register. intros H.
  destruct (check_every cfg =? usize_max); [exact H|].
  destruct (N.ltb_spec (iteration st + 1) (check_every cfg)); [cbn [fst iteration]; lia|].
  destruct (window_over _ _); [cbn [fst iteration]; lia|].
  destruct (entry_bump checked a (conn_map st)) as [[rq m']| |]; try (cbn [fst iteration]; lia).
  destruct (rq <=? max_requests cfg); [cbn [fst iteration]; lia|].
  destruct (mul3_usize checked (max_requests cfg)); cbn [fst iteration]; lia.
Qed.
Lemma run_iter_ok checked cfg h : forall st, iter_ok cfg st -> iter_ok cfg (fst (run checked cfg st h)).
Proof.
  induction h as [|[a t] r IH]; intros st H; cbn [run]; [exact H|].
  pose proof (register_iter_ok checked cfg st a t H) as H1.
  destruct (register checked cfg st a t) as [st1 d]. cbn [fst] in H1. specialize (IH st1 H1).
  destruct (run checked cfg st1 r). exact IH.
Qed.
Lemma iteration_bounded checked cfg t0 h :
  check_every cfg <= usize_max -> iteration (state_after checked cfg t0 h) + 1 <= usize_max.
Proof.
  intros Hk. pose proof (run_iter_ok checked cfg h (init t0)) as H.
  unfold state_after. unfold iter_ok in H. cbn [init iteration] in H.
  specialize (H (or_introl eq_refl)). rewrite usize_val in *. lia.
Qed.

(** * Positions in a history *)
Lemma ref_run_nth cfg : forall h rs i b t,
  nth_error h i = Some (b, t) ->
  nth_error (snd (ref_run cfg rs h)) i = Some (snd (ref_step cfg (fst (ref_run cfg rs (firstn i h))) b t)) /\
  fst (ref_run cfg rs (firstn (S i) h)) = fst (ref_step cfg (fst (ref_run cfg rs (firstn i h))) b t).
Proof.
  induction h as [|[a u] r IH]; intros rs i b t Hn.
  - destruct i; discriminate.
  - destruct i as [|i].
    + cbn [nth_error] in Hn. inversion Hn; subst. cbn [firstn ref_run fst].
      destruct (ref_step cfg rs b t) as [rs1 d]. destruct (ref_run cfg rs1 r) as [rs2 ds].
      cbn [snd nth_error fst]. split; reflexivity.
    + cbn [nth_error] in Hn. change (firstn (S (S i)) ((a, u) :: r)) with ((a, u) :: firstn (S i) r).
      change (firstn (S i) ((a, u) :: r)) with ((a, u) :: firstn i r).
      cbn [ref_run]. destruct (ref_step cfg rs a u) as [rs1 d].
      destruct (IH rs1 i b t Hn) as [H1 H2].
      destruct (ref_run cfg rs1 r) as [rs2 ds]. destruct (ref_run cfg rs1 (firstn i r)) as [rs3 ds3].
      destruct (ref_run cfg rs1 (firstn (S i) r)) as [rs4 ds4].
      cbn [fst snd nth_error] in *. split; assumption.
Qed.

(** * Isolation *)
Lemma ref_step_passed cfg rs b t :
  count b (r_counted (fst (ref_step cfg rs b t))) <= max_requests cfg -> snd (ref_step cfg rs b t) = Passed.
Proof.
  unfold ref_step. destruct (check_every cfg =? usize_max); [reflexivity|].
  destruct (negb (sampled _ _)); [reflexivity|].
  destruct (window_over _ _); [reflexivity|].
  cbn [fst snd r_counted]. intros H. apply ladder_passed. exact H.
Qed.

Lemma isolation_ref cfg t0 h i b t :
  nth_error h i = Some (b, t) ->
  counted cfg t0 (firstn (S i) h) b <= max_requests cfg ->
  nth_error (reference cfg t0 h) i = Some Passed.
Proof.
  intros Hn Hc. unfold reference, counted in *.
  destruct (ref_run_nth cfg h (rinit t0) i b t Hn) as [H1 H2].
  rewrite H1. f_equal. apply ref_step_passed. rewrite <- H2. exact Hc.
Qed.

(** Theorem 2: an address whose counted requests in the current window are at most the
    maximum always passes, whatever the other addresses do. *)
Lemma isolation_model checked cfg t0 h i b t :
  fits (length h) ->
  nth_error h i = Some (b, t) ->
  counted cfg t0 (firstn (S i) h) b <= max_requests cfg ->
  nth_error (decisions checked cfg t0 h) i = Some (Ok Passed).
Proof.
  intros Hf Hn Hc. rewrite (register_refines checked cfg t0 h Hf), nth_error_map.
  rewrite (isolation_ref cfg t0 h i b t Hn Hc). reflexivity.
Qed.

(** Counted requests of [b] are some of [b]'s own calls. *)
Lemma ref_step_counted_le cfg rs a t b :
  count b (r_counted (fst (ref_step cfg rs a t))) <= count b (r_counted rs) + (if a =? b then 1 else 0).
Proof.
  unfold ref_step. destruct (check_every cfg =? usize_max); [cbn [fst]; lia|].
  destruct (negb (sampled _ _)); [cbn [fst r_counted]; lia|].
  destruct (window_over _ _); cbn [fst r_counted count]; lia.
Qed.
Lemma ref_run_counted_le cfg b h : forall rs,
  count b (r_counted (fst (ref_run cfg rs h))) <= count b (r_counted rs) + calls_of b h.
Proof.
  unfold calls_of. induction h as [|[a t] r IH]; intros rs; cbn [ref_run map count fst].
  - lia.
  - pose proof (ref_step_counted_le cfg rs a t b) as H1.
    destruct (ref_step cfg rs a t) as [rs1 d]. cbn [fst] in H1. specialize (IH rs1).
    destruct (ref_run cfg rs1 r) as [rs2 ds]. cbn [fst] in *. lia.
Qed.
Lemma counted_le_calls cfg t0 h b : counted cfg t0 h b <= calls_of b h.
Proof.
  unfold counted. pose proof (ref_run_counted_le cfg b h (rinit t0)) as H.
  cbn [rinit r_counted count] in H. lia.
Qed.

Lemma calls_of_firstn_le b n h : calls_of b (firstn n h) <= calls_of b h.
Proof.
  unfold calls_of.
  assert (E : map fst h = map fst (firstn n h) ++ map fst (skipn n h))
    by (rewrite <- map_app, firstn_skipn; reflexivity).
  rewrite E, count_app. lia.
Qed.

(** Corollary: an address that makes at most [max_requests] calls is never limited. *)
Lemma isolation_own_traffic_model checked cfg t0 h i b t :
  fits (length h) ->
  nth_error h i = Some (b, t) ->
  calls_of b h <= max_requests cfg ->
  nth_error (decisions checked cfg t0 h) i = Some (Ok Passed).
Proof.
  intros Hf Hn Hc. apply (isolation_model checked cfg t0 h i b t Hf Hn).
  eapply N.le_trans; [apply counted_le_calls|]. eapply N.le_trans; [apply calls_of_firstn_le|exact Hc].
Qed.

(** Others never make it worse than the address's own traffic justifies. *)
Lemma ref_step_bound cfg rs b t :
  action_code (snd (ref_step cfg rs b t))
  <= action_code (ladder (max_requests cfg) (count b (r_counted (fst (ref_step cfg rs b t))))) \/
  snd (ref_step cfg rs b t) = Passed.
Proof.
  unfold ref_step. destruct (check_every cfg =? usize_max); [right; reflexivity|].
  destruct (negb (sampled _ _)); [right; reflexivity|].
  destruct (window_over _ _); [right; reflexivity|].
  left. cbn [fst snd r_counted]. lia.
Qed.
Lemma others_never_hurt_model checked cfg t0 h i b t :
  fits (length h) ->
  nth_error h i = Some (b, t) ->
  exists d, nth_error (decisions checked cfg t0 h) i = Some (Ok d) /\
            action_code d <= action_code (ladder (max_requests cfg) (calls_of b (firstn (S i) h))).
Proof.
  intros Hf Hn. rewrite (register_refines checked cfg t0 h Hf), nth_error_map.
  unfold reference. destruct (ref_run_nth cfg h (rinit t0) i b t Hn) as [H1 H2].
  rewrite H1. cbn [option_map]. eexists. split; [reflexivity|].
  destruct (ref_step_bound cfg (fst (ref_run cfg (rinit t0) (firstn i h))) b t) as [H|H].
  - eapply N.le_trans; [exact H|]. apply ladder_mono. rewrite <- H2.
    apply (counted_le_calls cfg t0 (firstn (S i) h) b).
  - rewrite H. cbn [action_code]. lia.
Qed.

(** * Reset *)
(** Any call made once the reset time has passed is answered [Passed]; if it is a sampled
    call, the limiter is left exactly in the state of a new one created at that moment. *)
Lemma register_after_interval checked cfg st a t R :
  reset_after cfg = Some R -> R <= t - win_start st ->
  snd (register checked cfg st a t) = Ok Passed /\
  (check_every cfg <> usize_max -> check_every cfg <= iteration st + 1 ->
   fst (register checked cfg st a t) = init t).
Proof.
  intros HR Hle. unfold register.
  destruct (N.eqb_spec (check_every cfg) usize_max); [split; [reflexivity|contradiction]|].
  destruct (N.ltb_spec (iteration st + 1) (check_every cfg)); [split; [reflexivity|lia]|].
  rewrite HR. unfold window_over. replace (R <=? t - win_start st) with true by lia.
  split; reflexivity.
Qed.

Lemma sampled_iteration checked cfg t0 h :
  fits (length h) -> check_every cfg <> usize_max ->
  sampled (check_every cfg) (N.of_nat (length h)) = true ->
  check_every cfg <= iteration (state_after checked cfg t0 h) + 1.
Proof.
  intros Hf Hne Hs. unfold state_after.
  destruct (run_sim checked cfg h (init t0) (rinit t0) (sim_init cfg t0)) as (_ & Hsim & _ & Hseen).
  { cbn [rinit r_seen]. apply (proj1 (fits_third _)) in Hf. lia. }
  specialize (Hseen Hne). cbn [rinit r_seen] in Hseen. rewrite N.add_0_l in Hseen.
  rewrite (sim_iter _ _ _ Hsim), Hseen.
  destruct (N.leb_spec (check_every cfg) 1) as [Hk|Hk]; [lia|].
  destruct (sampled_counter (check_every cfg) (N.of_nat (length h))) as [H1 _]; [lia|].
  rewrite Hs in H1. cbn [negb] in H1. lia.
Qed.

(** Theorem 3: after the reset interval all counts are forgotten — from the first sampled call
    on, the decisions are those of a limiter newly created at that call. *)
Lemma reset_forgets_model checked cfg t0 h1 a t h2 R :
  fits (length h1) ->
  reset_after cfg = Some R -> check_every cfg <> usize_max ->
  sampled (check_every cfg) (N.of_nat (length h1)) = true ->
  R <= t - win_start (state_after checked cfg t0 h1) ->
  decisions checked cfg t0 (h1 ++ (a, t) :: h2)
  = decisions checked cfg t0 h1 ++ Ok Passed :: decisions checked cfg t h2.
Proof.
  intros Hf HR Hne Hs Hle.
  pose proof (sampled_iteration checked cfg t0 h1 Hf Hne Hs) as Hk.
  unfold decisions, state_after in *. rewrite run_app. cbn [snd]. f_equal.
  set (st := fst (run checked cfg (init t0) h1)) in *.
  destruct (register_after_interval checked cfg st a t R HR Hle) as [Hd Hst].
  specialize (Hst Hne Hk). cbn [run].
  destruct (register checked cfg st a t) as [st1 d]. cbn [fst snd] in *. subst st1 d.
  destruct (run checked cfg (init t) h2); reflexivity.
Qed.

(** ... and a sampled call comes within [check_every] calls: no later than that, the reset
    has happened (all calls in between are answered [Passed]). *)
Lemma reset_within checked cfg R :
  reset_after cfg = Some R -> check_every cfg <> usize_max ->
  forall h st, h <> [] -> check_every cfg - iteration st <= N.of_nat (length h) ->
  Forall (fun e => R <= snd e - win_start st) h ->
  exists p a t s, h = p ++ (a, t) :: s /\
    run checked cfg st (p ++ [(a, t)]) = (init t, repeat (Ok Passed) (S (length p))) /\
    (p = [] \/ N.of_nat (length p) < check_every cfg - iteration st).
Proof.
  intros HR Hne. induction h as [|[a t] r IH]; intros st Hnil Hlen Hall; [contradiction|].
  inversion Hall as [|x l Hhd Htl]; subst. cbn [snd] in Hhd.
  destruct (register_after_interval checked cfg st a t R HR Hhd) as [Hd Hst].
  destruct (N.ltb_spec (iteration st + 1) (check_every cfg)) as [Hlt|Hge].
  - (* not sampled yet *)
    assert (Hreg : register checked cfg st a t
                   = ({| iteration := iteration st + 1; win_start := win_start st; conn_map := conn_map st |}, Ok Passed)).
    { unfold register. destruct (N.eqb_spec (check_every cfg) usize_max); [contradiction|].
      replace (iteration st + 1 <? check_every cfg) with true by lia. reflexivity. }
    cbn [length] in Hlen.
    destruct r as [|e r']; [cbn [length] in Hlen; lia|].
    destruct (IH {| iteration := iteration st + 1; win_start := win_start st; conn_map := conn_map st |})
      as (p & a' & t' & s & Hsplit & Hrun & Hp).
    + discriminate.
    + cbn [iteration]. lia.
    + exact Htl.
    + exists ((a, t) :: p), a', t', s. split; [rewrite Hsplit; reflexivity|]. split.
      * change (((a, t) :: p) ++ [(a', t')]) with ((a, t) :: (p ++ [(a', t')])).
        cbn [run]. rewrite Hreg, Hrun. reflexivity.
      * right. cbn [iteration length] in *. destruct Hp as [->|Hp]; cbn [length] in *; lia.
  - exists [], a, t, r. split; [reflexivity|]. split; [|left; reflexivity].
    cbn [app run length repeat]. specialize (Hst Hne ltac:(lia)).
    destruct (register checked cfg st a t) as [st1 d]. cbn [fst snd] in *. subst. reflexivity.
Qed.

Lemma reset_within_check_every_model checked cfg t0 h1 h2 R :
  reset_after cfg = Some R -> check_every cfg <> usize_max ->
  h2 <> [] -> check_every cfg <= N.of_nat (length h2) ->
  Forall (fun e => R <= snd e - win_start (state_after checked cfg t0 h1)) h2 ->
  exists p a t s, h2 = p ++ (a, t) :: s /\
    state_after checked cfg t0 (h1 ++ p ++ [(a, t)]) = init t /\
    decisions checked cfg t0 (h1 ++ p ++ [(a, t)]) = decisions checked cfg t0 h1 ++ repeat (Ok Passed) (S (length p)) /\
    (p = [] \/ N.of_nat (length p) < check_every cfg).
Proof.
  intros HR Hne Hnil Hlen Hall. unfold state_after, decisions in *.
  destruct (reset_within checked cfg R HR Hne h2 (fst (run checked cfg (init t0) h1)) Hnil ltac:(lia) Hall)
    as (p & a & t & s & Hsplit & Hrun & Hp).
  exists p, a, t, s. split; [exact Hsplit|]. rewrite run_app, Hrun. cbn [fst snd].
  split; [reflexivity|]. split; [reflexivity|]. destruct Hp as [Hp|Hp]; [left; exact Hp|right; lia].
Qed.

(** Without a reset the counted requests of [b] are exactly [b]'s calls at sampled positions. *)
Fixpoint sampled_calls_of (k : N) (b : N) (pos : N) (h : list event) : N :=
  match h with
  | [] => 0
  | (a, _) :: r => (if sampled k pos && (a =? b) then 1 else 0) + sampled_calls_of k b (pos + 1) r
  end.
Lemma counted_no_reset_from cfg b h : forall rs,
  reset_after cfg = None -> check_every cfg <> usize_max ->
  count b (r_counted (fst (ref_run cfg rs h)))
  = count b (r_counted rs) + sampled_calls_of (check_every cfg) b (r_seen rs) h.
Proof.
  intros rs HR Hne. revert rs. induction h as [|[a t] r IH]; intros rs; cbn [ref_run sampled_calls_of fst].
  - lia.
  - unfold ref_step. destruct (N.eqb_spec (check_every cfg) usize_max); [contradiction|].
    rewrite HR. cbn [window_over].
    destruct (sampled (check_every cfg) (r_seen rs)); cbn [negb andb].
    + specialize (IH {| r_seen := r_seen rs + 1; r_start := r_start rs; r_counted := a :: r_counted rs |}).
      destruct (ref_run cfg _ r) as [rs2 ds]. cbn [fst r_counted r_seen count] in *. rewrite IH. lia.
    + specialize (IH {| r_seen := r_seen rs + 1; r_start := r_start rs; r_counted := r_counted rs |}).
      destruct (ref_run cfg _ r) as [rs2 ds]. cbn [fst r_counted r_seen count] in *. rewrite IH. lia.
Qed.
Lemma counted_no_reset_model cfg t0 h b :
  reset_after cfg = None -> check_every cfg <> usize_max ->
  counted cfg t0 h b = sampled_calls_of (check_every cfg) b 0 h.
Proof.
  intros HR Hne. unfold counted. rewrite (counted_no_reset_from cfg b h (rinit t0) HR Hne).
  cbn [rinit r_counted r_seen count]. lia.
Qed.

(** * Disabled *)
Lemma disabled_run checked cfg h : check_every cfg = usize_max ->
  forall st, run checked cfg st h = (st, repeat (Ok Passed) (length h)).
Proof.
  intros Hd. induction h as [|[a t] r IH]; intros st; cbn [run length repeat]; [reflexivity|].
  unfold register. rewrite Hd, N.eqb_refl. rewrite IH. reflexivity.
Qed.
(** Theorem 4: a disabled limiter never limits (and keeps no state). *)
Lemma disabled_never_limits_model checked cfg t0 h :
  decisions checked (disable cfg) t0 h = repeat (Ok Passed) (length h) /\
  state_after checked (disable cfg) t0 h = init t0.
Proof.
  unfold decisions, state_after. rewrite (disabled_run checked (disable cfg) h eq_refl). split; reflexivity.
Qed.

(** * The server *)
Lemma serve_sim checked cfg a ts : forall st rs,
  sim cfg st rs -> r_seen rs + N.of_nat (length ts) <= third ->
  snd (fst (serve_requests checked cfg st a ts)) = snd (fst (spec_requests cfg rs a ts)) /\
  snd (serve_requests checked cfg st a ts) = snd (spec_requests cfg rs a ts) /\
  sim cfg (fst (fst (serve_requests checked cfg st a ts))) (fst (fst (spec_requests cfg rs a ts))) /\
  r_seen (fst (fst (spec_requests cfg rs a ts))) <= r_seen rs + N.of_nat (length ts).
Proof.
  induction ts as [|t r IH]; intros st rs Hsim Hfit; cbn [serve_requests spec_requests].
  - cbn [fst snd length]. refine (conj _ (conj _ (conj _ _))); try reflexivity; try assumption; lia.
  - cbn [length] in Hfit.
    destruct (step_sim checked cfg st rs a t Hsim) as (Hd & Hs & Hle & _); [lia|].
    destruct (register checked cfg st a t) as [st1 d]. destruct (ref_step cfg rs a t) as [rs1 d'].
    cbn [fst snd] in *. subst d.
    destruct (IH st1 rs1 Hs) as (H1 & H2 & H3 & H4); [lia|].
    destruct d'.
    + destruct (serve_requests checked cfg st1 a r) as [[st2 l] c].
      destruct (spec_requests cfg rs1 a r) as [[rs2 l'] c']. cbn [fst snd length] in *.
      refine (conj _ (conj _ (conj _ _))); try congruence; try assumption; lia.
    + destruct (serve_requests checked cfg st1 a r) as [[st2 l] c].
      destruct (spec_requests cfg rs1 a r) as [[rs2 l'] c']. cbn [fst snd length] in *.
      refine (conj _ (conj _ (conj _ _))); try congruence; try assumption; lia.
    + cbn [fst snd length]. refine (conj _ (conj _ (conj _ _))); try reflexivity; try assumption; lia.
Qed.

Lemma accept_conns_sim checked cfg : forall cs s rs,
  alive s = true -> sim cfg (lim s) rs -> r_seen rs + N.of_nat (calls_bound cs) <= third ->
  snd (accept_run true checked cfg s (map conn_of cs)) = spec_server_from cfg rs cs /\
  alive (fst (accept_run true checked cfg s (map conn_of cs))) = true.
Proof.
  induction cs as [|[[a t] reqs] r IH]; intros s rs Hal Hsim Hfit.
  - cbn [map accept_run spec_server_from fst snd]. split; [reflexivity|exact Hal].
  - cbn [map conn_of accept_run spec_server_from calls_bound] in *.
    unfold accept_step. rewrite Hal. cbn [negb].
    destruct (step_sim checked cfg (lim s) rs a t Hsim) as (Hd & Hs & Hle & _); [lia|].
    destruct (register checked cfg (lim s) a t) as [st1 d]. destruct (ref_step cfg rs a t) as [rs1 d'].
    cbn [fst snd] in *. subst d.
    assert (Hserve := serve_sim checked cfg a reqs st1 rs1 Hs).
    destruct d'.
    + destruct Hserve as (H1 & H2 & H3 & H4); [lia|].
      destruct (serve_requests checked cfg st1 a reqs) as [[st2 l] c].
      destruct (spec_requests cfg rs1 a reqs) as [[rs2 l'] c']. cbn [fst snd] in *. subst l' c'.
      destruct (IH {| alive := true; fails := 0; lim := st2 |} rs2 eq_refl H3) as [E1 E2]; [lia|].
      destruct (accept_run true checked cfg _ (map conn_of r)) as [s2 os]. cbn [fst snd] in *.
      split; [rewrite E1; reflexivity|exact E2].
    + destruct Hserve as (H1 & H2 & H3 & H4); [lia|].
      destruct (serve_requests checked cfg st1 a reqs) as [[st2 l] c].
      destruct (spec_requests cfg rs1 a reqs) as [[rs2 l'] c']. cbn [fst snd] in *. subst l' c'.
      destruct (IH {| alive := true; fails := 0; lim := st2 |} rs2 eq_refl H3) as [E1 E2]; [lia|].
      destruct (accept_run true checked cfg _ (map conn_of r)) as [s2 os]. cbn [fst snd] in *.
      split; [rewrite E1; reflexivity|exact E2].
    + destruct (IH {| alive := true; fails := 0; lim := st1 |} rs1 eq_refl Hs) as [E1 E2]; [lia|].
      destruct (accept_run true checked cfg _ (map conn_of r)) as [s2 os]. cbn [fst snd] in *.
      split; [rewrite E1; reflexivity|exact E2].
Qed.

(** The repaired server equals the reference server (which never stops accepting). *)
Lemma server_refines_spec_model checked cfg t0 cs :
  fits (calls_bound cs) ->
  accept_loop checked cfg t0 (map conn_of cs) = (spec_server cfg t0 cs, true).
Proof.
  intros Hf. apply (proj1 (fits_third _)) in Hf. unfold accept_loop, spec_server.
  destruct (accept_conns_sim checked cfg cs (astart t0) (rinit t0) eq_refl (sim_init cfg t0)) as [E1 E2].
  { cbn [rinit r_seen]. lia. }
  destruct (accept_run true checked cfg (astart t0) (map conn_of cs)) as [s os]. cbn [fst snd] in *.
  rewrite E1, E2. reflexivity.
Qed.

(** Theorem 5: the accept loop survives every event list (no shutdown request, never more
    than 100 consecutive accept errors), and nobody is ever refused. *)
Lemma accept_alive checked cfg : forall evs s rs,
  alive s = true -> sim cfg (lim s) rs -> r_seen rs + N.of_nat (ev_calls_bound evs) <= third ->
  existsb is_shutdown evs = false -> max_err_run (fails s) evs <= 100 ->
  alive (fst (accept_run true checked cfg s evs)) = true /\
  ~ In Refused (snd (accept_run true checked cfg s evs)).
Proof.
  induction evs as [|e r IH]; intros s rs Hal Hsim Hfit Hsd Herr.
  - cbn [accept_run fst snd]. split; [exact Hal|intros []].
  - cbn [accept_run]. unfold accept_step. rewrite Hal. cbn [negb].
    destruct e as [a t reqs| |].
    + cbn [ev_calls_bound existsb is_shutdown orb max_err_run] in *.
      apply N.max_lub_iff in Herr as [_ Herr].
      destruct (step_sim checked cfg (lim s) rs a t Hsim) as (Hd & Hs & Hle & _); [lia|].
      destruct (register checked cfg (lim s) a t) as [st1 d]. destruct (ref_step cfg rs a t) as [rs1 d'].
      cbn [fst snd] in *. subst d.
      assert (Hserve := serve_sim checked cfg a reqs st1 rs1 Hs).
      destruct d'.
      * destruct Hserve as (H1 & H2 & H3 & H4); [lia|].
        destruct (serve_requests checked cfg st1 a reqs) as [[st2 l] c]. cbn [fst snd] in *.
        destruct (IH {| alive := true; fails := 0; lim := st2 |} _ eq_refl H3) as [E1 E2]; try assumption; [lia|].
        destruct (accept_run true checked cfg _ r) as [s2 os]. cbn [fst snd] in *.
        split; [exact E1|]. intros [H|H]; [discriminate|contradiction].
      * destruct Hserve as (H1 & H2 & H3 & H4); [lia|].
        destruct (serve_requests checked cfg st1 a reqs) as [[st2 l] c]. cbn [fst snd] in *.
        destruct (IH {| alive := true; fails := 0; lim := st2 |} _ eq_refl H3) as [E1 E2]; try assumption; [lia|].
        destruct (accept_run true checked cfg _ r) as [s2 os]. cbn [fst snd] in *.
        split; [exact E1|]. intros [H|H]; [discriminate|contradiction].
      * destruct (IH {| alive := true; fails := 0; lim := st1 |} _ eq_refl Hs) as [E1 E2]; try assumption; [lia|].
        destruct (accept_run true checked cfg _ r) as [s2 os]. cbn [fst snd] in *.
        split; [exact E1|]. intros [H|H]; [discriminate|contradiction].
    + cbn [ev_calls_bound existsb is_shutdown orb max_err_run] in *.
      apply N.max_lub_iff in Herr as [Hf1 Herr].
      replace (100 <? fails s + 1) with false by lia. cbn [negb].
      destruct (IH {| alive := true; fails := fails s + 1; lim := lim s |} rs eq_refl Hsim) as [E1 E2]; try assumption.
      destruct (accept_run true checked cfg _ r) as [s2 os]. cbn [fst snd] in *. split; assumption.
    + cbn [existsb is_shutdown orb] in Hsd. discriminate.
Qed.

Lemma listener_survives_model checked cfg t0 evs :
  fits (ev_calls_bound evs) -> existsb is_shutdown evs = false -> max_err_run 0 evs <= 100 ->
  snd (accept_loop checked cfg t0 evs) = true /\ ~ In Refused (fst (accept_loop checked cfg t0 evs)).
Proof.
  intros Hf Hsd Herr. apply (proj1 (fits_third _)) in Hf. unfold accept_loop.
  destruct (accept_alive checked cfg evs (astart t0) (rinit t0) eq_refl (sim_init cfg t0)) as [E1 E2];
    [cbn [rinit r_seen]; lia | exact Hsd | exact Herr |].
  destruct (accept_run true checked cfg (astart t0) evs) as [s os]. cbn [fst snd] in *. split; assumption.
Qed.

(** kvarn 0.6.3: one address at the drop level ends the listener; the next client (another
    address, which made no request before) is refused. *)
Lemma listener_dies_063_witness :
  let cfg := {| max_requests := 0; check_every := 1; reset_after := Some 10000 |} in
  accept_loop_063 true cfg 0 [Conn 1 0 []; Conn 2 1 [1]] = ([Served [] true; Refused], false) /\
  accept_loop true cfg 0 [Conn 1 0 []; Conn 2 1 [1]] = ([Served [] true; Served [] true], true).
Proof. vm_compute. split; reflexivity. Qed.
