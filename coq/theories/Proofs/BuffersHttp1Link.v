(** C18 — [read_to_end_or_max] is transcribed twice: here (Model/Buffers.v: the buffer is an
    allocation with a visible length, the reader a list of events) and in Model/Http1Read.v
    ([rtem_reserve] / [rtem_loop]: the buffer is (bytes, capacity), the reader a byte string with a
    delivery schedule behind [Take]).  This file proves that the two transcriptions are the same
    function: the inner [reserve] computes the same capacity, the loops run in lockstep and give
    the same answer, and [Http1Body::read_to_bytes]'s use of the helper is [read_poll] on the
    translated reader with a caller that drops the future at the first [Pending] (its timeout). *)
From KV Require Import Bytes RustInt Buffers BuffersProofs Http1Read.
From Coq Require Import ZifyBool ZifyNat ZifyN.
Open Scope nat_scope.
Arguments Nat.div : simpl never. Arguments Nat.mul : simpl never. Arguments Nat.max : simpl never.
Arguments Nat.min : simpl never. Arguments N.of_nat : simpl never. Arguments N.leb : simpl never.

(** the two ways the growth policy is written down agree: [growH cap len additional] (Http1Read)
    is [growB cap (len + additional)] (Buffers) *)
Definition grows_agree (growH : nat -> nat -> nat -> nat) (growB : nat -> nat -> nat) : Prop :=
  forall cap len additional, growH cap len additional = growB cap (len + additional).

Lemma vec_grows_agree : grows_agree vec_grow grow_vec.
Proof. intros cap len add. unfold vec_grow, grow_vec. lia. Qed.

(** ---- the inner [reserve] ---- *)
Lemma rtem_reserve_is_rtm_reserve growH growB junk read b :
  grows_agree growH growB -> BuffersProofs.grow_ok growB ->
  b_len b = capacity b -> read <= capacity b ->
  exists b2, rtm_reserve growB junk read b = Ok b2 /\
             capacity b2 = rtem_reserve growH read (capacity b) /\
             b_len b2 = capacity b2 /\ read + 32 <= capacity b2 /\
             firstn (capacity b) (b_data b2) = b_data b.
Proof.
  intros A G F R.
  destruct (rtm_reserve_spec growB junk read b G F R) as (b2 & E & F2 & R2 & C2 & D2).
  exists b2. repeat split; auto.
  revert E. unfold rtm_reserve, rtem_reserve.
  replace (Nat.ltb (capacity b) read) with false by lia.
  destruct (Nat.ltb (capacity b - read) 32) eqn:E32.
  - cbn zeta. replace (Nat.ltb (capacity b) (b_len b)) with false by lia.
    set (addB := if Nat.ltb (capacity b) 1024 then 1024
                 else if Nat.ltb (Nat.max (capacity b * 2 / 3) 1024) (capacity b)
                      then Nat.max (capacity b * 2 / 3) 1024 else capacity b).
    set (addH := if Nat.ltb (Nat.max (capacity b * 2 / 3) 1024) (capacity b)
                 then Nat.max (capacity b * 2 / 3) 1024
                 else if Nat.ltb (capacity b) 1024 then 1024 else capacity b).
    assert (Hadd : addB = addH).
    { unfold addB, addH. destruct (Nat.ltb_spec (capacity b) 1024) as [H1|H1].
      - replace (Nat.ltb (Nat.max (capacity b * 2 / 3) 1024) (capacity b)) with false by lia. reflexivity.
      - reflexivity. }
    assert (Hpos : 1024 <= addB).
    { unfold addB. destruct (Nat.ltb_spec (capacity b) 1024); [lia|].
      destruct (Nat.ltb_spec (Nat.max (capacity b * 2 / 3) 1024) (capacity b)); lia. }
    intros E. rewrite A, <- Hadd.
    pose proof (reserve_full_len growB junk b (capacity b - b_len b + addB) F ltac:(lia)) as L.
    pose proof (G (capacity b) (capacity b + (capacity b - b_len b + addB))) as Gg.
    unfold bm_set_len in E. rewrite Nat.leb_refl in E. injection E as <-.
    change (capacity (bm_reserve growB junk b (capacity b - b_len b + addB)) = growB (capacity b) (capacity b + addB)).
    rewrite L. replace (capacity b - b_len b + addB) with addB in * by lia. lia.
  - intros E. injection E as <-. reflexivity.
Qed.

(** ---- the reader behind [Take] as a list of events ---- *)
(** what the peer does once the data or the schedule is used up *)
Definition end_events (mode : N) : stream :=
  if N.eqb mode 0 then [] else if N.eqb mode 1 then [Pend] else [Fail E_IO].

(** the events [(&mut reader).take(tl)] still delivers *)
Fixpoint strm (mode : N) (d : bytes) (sched : list nat) (tl : nat) {struct sched} : stream :=
  match tl with
  | O => []
  | S _ =>
      match d, sched with
      | [], _ => end_events mode
      | _ :: _, [] => end_events mode
      | _ :: _, b :: s =>
          let n := Nat.min b (Nat.min tl (length d)) in
          Data (firstn n d) :: strm mode (skipn n d) s (tl - n)
      end
  end.

(** the stream is the translation of the reader, possibly behind the empty rest of a chunk the
    loop has just used up *)
Definition translates (cs : stream) (mode : N) (d : bytes) (sched : list nat) (tl : nat) : Prop :=
  cs = strm mode d sched tl \/ cs = Data [] :: strm mode d sched tl.

Lemma rd_translates cs mode d sched tl room :
  translates cs mode d sched tl -> rd cs room = rd (strm mode d sched tl) room.
Proof. intros [->| ->]; reflexivity. Qed.

Lemma strm_exhausted mode d sched : strm mode d sched 0 = [].
Proof. destruct sched; reflexivity. Qed.

Lemma strm_no_data mode sched tl : 0 < tl -> strm mode [] sched tl = end_events mode.
Proof. intros H. destruct tl; [lia|]. destruct sched; reflexivity. Qed.

Lemma strm_measure mode : forall sched d tl,
  stream_len (strm mode d sched tl) + stream_pends (strm mode d sched tl) <= tl.
Proof.
  assert (He : forall tl, 0 < tl -> stream_len (end_events mode) + stream_pends (end_events mode) <= tl).
  { intros tl H. unfold end_events. destruct (N.eqb mode 0); [cbn; lia|]. destruct (N.eqb mode 1); cbn; lia. }
  induction sched as [|b s IH]; intros d tl; (destruct tl as [|tl]; [cbn; lia|]).
  - destruct d; cbn [strm]; apply He; lia.
  - destruct d as [|x d]; cbn [strm]; [apply He; lia|].
    cbn [stream_len stream_pends]. rewrite firstn_length.
    specialize (IH (skipn (Nat.min b (Nat.min (S tl) (length (x :: d)))) (x :: d))
                   (S tl - Nat.min b (Nat.min (S tl) (length (x :: d))))).
    lia.
Qed.

Lemma skipn_add {A} (l : list A) : forall y x, skipn x (skipn y l) = skipn (y + x) l.
Proof.
  induction l as [|a l IH]; intros y x.
  - rewrite !skipn_nil. reflexivity.
  - destruct y; [reflexivity|]. cbn [skipn Nat.add]. apply IH.
Qed.

Lemma strm_cons mode x d' b s tl :
  0 < tl ->
  strm mode (x :: d') (b :: s) tl =
  let n := Nat.min b (Nat.min tl (length (x :: d'))) in
  Data (firstn n (x :: d')) :: strm mode (skipn n (x :: d')) s (tl - n).
Proof. intros H. destruct tl; [lia|reflexivity]. Qed.

(** one read of the translated reader = one [rd_read] of the reader *)
Lemma rd_strm mode d b s tl room :
  0 < room -> 0 < tl -> 0 < b -> d <> [] ->
  let n := Nat.min b (Nat.min (Nat.min room tl) (length d)) in
  rd_read mode (mk_reader d (b :: s)) (Nat.min room tl)
  = RdOk (firstn n d) (mk_reader (skipn n d) (if Nat.eqb n b then s else (b - n) :: s)) /\
  0 < n /\
  exists cs', rd (strm mode d (b :: s) tl) room = (RdData (firstn n d), cs') /\
              translates cs' mode (skipn n d) (if Nat.eqb n b then s else (b - n) :: s) (tl - n).
Proof.
  intros Hr Ht Hb Hd n.
  assert (En : n = Nat.min b (Nat.min (Nat.min room tl) (length d))) by reflexivity. clearbody n.
  assert (Hl : 0 < length d) by (destruct d; [contradiction|cbn; lia]).
  assert (Hn : 0 < n) by lia.
  split; [|split; [exact Hn|]].
  - unfold rd_read. cbn [rd_data rd_sched].
    replace (Nat.eqb (Nat.min room tl) 0) with false by lia.
    destruct d as [|x d']; [contradiction|]. rewrite En. reflexivity.
  - destruct d as [|x d']; [contradiction|].
    rewrite strm_cons by lia. cbv zeta.
    remember (x :: d') as d eqn:Ed.
    remember (Nat.min b (Nat.min tl (length d))) as n0 eqn:En0.
    assert (Hn0 : n = Nat.min room n0) by lia.
    assert (Hc : firstn n0 d <> []).
    { intros Hc. apply (f_equal (@length N)) in Hc. rewrite firstn_length in Hc. cbn [length] in Hc. lia. }
    destruct (firstn n0 d) as [|y c] eqn:Ec; [contradiction|]. cbn [rd]. rewrite <- Ec.
    eexists. split.
    + apply f_equal2; [|reflexivity]. f_equal. rewrite firstn_firstn. f_equal. lia.
    + destruct (Nat.lt_ge_cases room n0) as [Hlt|Hge].
      * (* the chunk is used in part: what is left of it is the head of the translation *)
        left. replace n with room by lia.
        replace (Nat.eqb room b) with false by lia.
        assert (Hsl : length (skipn room d) = length d - room) by apply skipn_length.
        destruct (skipn room d) as [|z d2] eqn:Es; [cbn [length] in Hsl; lia|].
        rewrite strm_cons by lia. cbv zeta. rewrite <- Es. clear Hsl.
        pose proof (skipn_length room d) as Hsl.
        f_equal.
        -- rewrite skipn_firstn_comm. rewrite Hsl.
           apply (f_equal (fun k => Data (firstn k (skipn room d)))). lia.
        -- rewrite skipn_add, Hsl.
           replace (Nat.min (b - room) (Nat.min (tl - room) (length d - room))) with (n0 - room) by lia.
           replace (room + (n0 - room)) with n0 by lia.
           replace (tl - room - (n0 - room)) with (tl - n0) by lia. reflexivity.
      * (* the chunk is used up *)
        right. replace n with n0 by lia.
        rewrite skipn_all2 by (rewrite firstn_length; lia).
        f_equal.
        destruct (Nat.eqb_spec n0 b) as [Hb0|Hb0]; [reflexivity|].
        (* the burst was cut short by [take] or by the end of the data: nothing more comes, whatever the schedule *)
        assert (Hcut : tl - n0 = 0 \/ skipn n0 d = []).
        { destruct (Nat.le_ge_cases tl (length d)); [left; lia|].
          right. apply skipn_all2. lia. }
        destruct Hcut as [Hz|Hz].
        -- rewrite Hz. rewrite !strm_exhausted. reflexivity.
        -- rewrite Hz. destruct (tl - n0) as [|t'] eqn:Et; [rewrite !strm_exhausted; reflexivity|].
           rewrite !strm_no_data by lia. reflexivity.
Qed.

(** ---- the loops ---- *)
(** the same answer: the same body, or the same way of failing *)
Definition same_answer (o : outcome (bytes * reader)) (r : rres) : Prop :=
  match o, r with
  | Ok (buf', _), RDone b' _ => contents b' = buf'
  | Err e, RCancelled _ _ => e = E_TIMEDOUT
  | Err e, RIoErr e' _ _ => e = E_IO /\ e' = E_IO
  | Err e, RFuel => e = E_FUEL
  | _, _ => False
  end.

Lemma sched_pos_step b s n : sched_pos (b :: s) -> n <= b -> 0 < n -> sched_pos (if Nat.eqb n b then s else (b - n) :: s).
Proof.
  intros H Hn Hp. inversion H as [|? ? Hb Hs]; subst.
  destruct (Nat.eqb_spec n b); [exact Hs|]. constructor; [lia|exact Hs].
Qed.

Lemma loops_in_lockstep growH growB junk mode max :
  grows_agree growH growB -> BuffersProofs.grow_ok growB ->
  forall fuel buf cap tl d sched b cs,
  sched_pos sched ->
  b_len b = capacity b -> capacity b = cap -> firstn (length buf) (b_data b) = buf -> length buf < cap ->
  translates cs mode d sched tl ->
  same_answer (rtem_loop growH fuel mode max buf cap tl (mk_reader d sched))
              (rtm_loop growB junk true fuel (N.of_nat max) (length buf) b cs (Some 0)).
Proof.
  intros A G. induction fuel as [|f IH]; intros buf cap tl d sched b cs Hs F C P R T; [reflexivity|].
  cbn [rtem_loop rtm_loop].
  replace (Nat.ltb (b_len b) (length buf)) with false by lia.
  rewrite (rd_translates _ _ _ _ _ _ T).
  assert (Hdone : same_answer (Ok (buf, mk_reader d sched))
                    (match bm_set_len b (length buf) with Ok b' => RDone b' [] | _ => RPanic end)).
  { rewrite set_len_ok by lia. cbn [same_answer]. unfold contents. cbn [b_data b_len]. exact P. }
  destruct (Nat.eqb_spec tl 0) as [->|Htl].
  { (* [take] is used up: a read of 0 bytes *)
    rewrite strm_exhausted. cbn [rd]. exact Hdone. }
  assert (Hroom : 0 < b_len b - length buf) by lia.
  assert (Hend : strm mode d sched tl = end_events mode ->
                 rd_read mode (mk_reader d sched) (Nat.min (cap - length buf) tl) = rd_end mode (mk_reader d sched) ->
                 same_answer
                   match rd_read mode (mk_reader d sched) (Nat.min (cap - length buf) tl) with
                   | RdStall => Err E_TIMEDOUT
                   | RdErr => Err E_IO
                   | RdOk got r' =>
                       if null got then Ok (buf, r')
                       else if Nat.leb max (length (buf ++ got)) then Ok (buf ++ got, r')
                            else rtem_loop growH f mode max (buf ++ got) (rtem_reserve growH (length (buf ++ got)) cap)
                                   (tl - length got) r'
                   end
                   match rd (strm mode d sched tl) (b_len b - length buf) with
                   | (RdFail e, cs') => match bm_set_len b (length buf) with Ok b' => RIoErr e b' cs' | _ => RPanic end
                   | (RdPending, cs') => match bm_set_len b (length buf) with Ok b' => RCancelled b' cs' | _ => RPanic end
                   | (RdData got, cs') =>
                       match got with
                       | [] => match bm_set_len b (length buf) with Ok b' => RDone b' cs' | _ => RPanic end
                       | _ :: _ =>
                           if N.leb (N.of_nat max) (N.of_nat (length buf + length got))
                           then match bm_set_len (put b (length buf) got) (length buf + length got) with
                                | Ok b' => RDone b' cs' | _ => RPanic end
                           else match rtm_reserve growB junk (length buf + length got) (put b (length buf) got) with
                                | Ok b2 => rtm_loop growB junk true f (N.of_nat max) (length buf + length got) b2 cs' (Some 0)
                                | _ => RPanic
                                end
                       end
                   end).
  { intros -> ->. unfold rd_end, end_events.
    destruct (N.eqb mode 0).
    - cbn [rd null]. exact Hdone.
    - destruct (N.eqb mode 1); cbn [rd]; rewrite set_len_ok by lia; cbn [same_answer]; auto. }
  destruct d as [|x d'].
  { apply Hend; [apply strm_no_data; lia|].
    unfold rd_read. cbn [rd_data rd_sched]. replace (Nat.eqb (Nat.min (cap - length buf) tl) 0) with false by lia. reflexivity. }
  destruct sched as [|bu s].
  { apply Hend.
    - destruct tl; [lia|]. reflexivity.
    - unfold rd_read. cbn [rd_data rd_sched]. replace (Nat.eqb (Nat.min (cap - length buf) tl) 0) with false by lia. reflexivity. }
  set (d := x :: d') in *.
  assert (Hbu : 0 < bu) by (inversion Hs; assumption).
  destruct (rd_strm mode d bu s tl (b_len b - length buf) Hroom ltac:(lia) Hbu ltac:(discriminate))
    as (Hrr & Hn & cs' & Hrd & T').
  replace (cap - length buf) with (b_len b - length buf) by lia.
  set (n := Nat.min bu (Nat.min (Nat.min (b_len b - length buf) tl) (length d))) in *.
  rewrite Hrr, Hrd.
  assert (Hgl : length (firstn n d) = n) by (apply firstn_len_le; unfold n; lia).
  destruct (firstn n d) as [|y got0] eqn:Eg; [cbn [length] in Hgl; lia|].
  cbn [null]. cbv iota. set (g := y :: got0) in *. clearbody g. clear y got0.
  rewrite app_length, Hgl.
  replace (N.leb (N.of_nat max) (N.of_nat (length buf + n))) with (Nat.leb max (length buf + n)) by lia.
  assert (Hnle : length buf + n <= capacity b) by (unfold n; lia).
  assert (Hput : firstn (length buf + n) (b_data (put b (length buf) g)) = buf ++ g).
  { unfold put. cbn [b_data]. rewrite P. rewrite app_assoc. apply firstn_exact. rewrite app_length, Hgl. reflexivity. }
  assert (Hcap : capacity (put b (length buf) g) = capacity b).
  { unfold put, capacity. cbn [b_data]. rewrite P. rewrite !app_length, skipn_length, Hgl. unfold capacity in Hnle. lia. }
  destruct (Nat.leb max (length buf + n)).
  - rewrite set_len_ok by lia. cbn [same_answer]. unfold contents. cbn [b_data b_len]. exact Hput.
  - destruct (rtem_reserve_is_rtm_reserve growH growB junk (length buf + n) (put b (length buf) g) A G
                ltac:(change (b_len b = capacity (put b (length buf) g)); lia) ltac:(lia))
      as (b2 & E2 & C2 & F2 & R2 & D2).
    rewrite E2. rewrite Hcap, C in C2.
    replace (length buf + n) with (length (buf ++ g)) in C2 |- * by (rewrite app_length, Hgl; reflexivity).
    rewrite <- C2. apply IH.
    + apply sched_pos_step; auto. unfold n. lia.
    + exact F2.
    + reflexivity.
    + rewrite app_length, Hgl. rewrite <- Hput. rewrite <- D2. rewrite firstn_firstn_le by lia. reflexivity.
    + rewrite app_length, Hgl. lia.
    + exact T'.
Qed.

(** ---- more fuel does not change an answer ---- *)
Lemma rtm_loop_more_fuel grow junk guard max : forall f read b cs patience r,
  rtm_loop grow junk guard f max read b cs patience = r -> r <> RFuel ->
  rtm_loop grow junk guard (S f) max read b cs patience = r.
Proof.
  induction f as [|f IH]; intros read b cs patience r E Hn; [cbn in E; congruence|].
  remember (S f) as f1. cbn [rtm_loop]. subst f1. cbn [rtm_loop] in E.
  destruct (Nat.ltb (b_len b) read); [exact E|].
  destruct (rd cs (b_len b - read)) as [[got|e|] cs']; [|exact E|].
  - destruct got as [|x got]; [exact E|].
    destruct (max <=? N.of_nat (read + length (x :: got)))%N; [exact E|].
    destruct (rtm_reserve grow junk (read + length (x :: got)) (put b read (x :: got))) as [b2| |]; try exact E.
    apply IH; assumption.
  - destruct patience as [[|k]|]; [exact E| |]; apply IH; assumption.
Qed.

Lemma rtm_loop_fuel_irrelevant grow junk guard max read b cs patience f1 f2 :
  f1 <= f2 -> rtm_loop grow junk guard f1 max read b cs patience <> RFuel ->
  rtm_loop grow junk guard f2 max read b cs patience = rtm_loop grow junk guard f1 max read b cs patience.
Proof.
  intros Hle Hn. induction Hle as [|f2 Hle IH]; [reflexivity|].
  apply rtm_loop_more_fuel; [exact IH|exact Hn].
Qed.

(** ---- [Http1Body::read_to_bytes]'s call of the helper is [read_poll] ---- *)
(** [read_to_bytes] builds [BytesMut::with_capacity(len)], copies the bytes read with the head into it and
    calls [read_to_end_or_max(&mut buffer, (&mut *self).take(left), len)] under a timeout; a reader that
    stalls makes the timeout fire. *)
Lemma read_to_bytes_is_read_poll growH growB junk mode early cl limit d sched :
  grows_agree growH growB -> BuffersProofs.grow_ok growB -> sched_pos sched ->
  let len := N.to_nat (N.min cl limit) in
  let buf := firstn len early in
  length buf < len ->
  same_answer (read_to_bytes growH mode early cl limit (mk_reader d sched))
              (read_poll growB junk false true (bm_of junk buf (len - length buf))
                 (strm mode d sched (len - length buf)) (N.of_nat len) (Some 0)).
Proof.
  intros A G Hs len buf Hlt.
  unfold read_to_bytes. fold len. fold buf.
  replace (Nat.eqb len 0) with false by lia.
  replace (Nat.leb len (length buf)) with false by lia.
  destruct (bm_of_wf junk buf (len - length buf)) as [W C].
  assert (Hcap : capacity (bm_of junk buf (len - length buf)) = len).
  { unfold capacity, bm_of. cbn [b_data]. rewrite app_length, fresh_length. lia. }
  assert (Hlen : b_len (bm_of junk buf (len - length buf)) = length buf) by reflexivity.
  unfold read_poll. rewrite Hlen.
  replace (N.leb (N.of_nat len) (N.of_nat (length buf))) with false by lia.
  rewrite set_len_ok by lia. unfold capacity at 1 2. cbn [b_data b_len].
  set (b0 := bm_of junk buf (len - length buf)) in *.
  replace (Nat.eqb (length (b_data b0)) (capacity b0)) with true by (unfold capacity; lia).
  destruct (rtem_reserve_is_rtm_reserve growH growB junk (length buf) (mkbuf (b_data b0) (capacity b0)) A G eq_refl
              ltac:(unfold capacity at 1; cbn [b_data]; fold (capacity b0); lia))
    as (b2 & E2 & C2 & F2 & R2 & D2).
  rewrite E2. unfold capacity in C2 at 2. cbn [b_data] in C2. fold (capacity b0) in C2. rewrite Hcap in C2.
  unfold capacity in D2 at 1. cbn [b_data] in D2.
  set (cs := strm mode d sched (len - length buf)).
  pose proof (strm_measure mode sched d (len - length buf)) as Hm. fold cs in Hm.
  pose proof (loops_in_lockstep growH growB junk mode len A G (S (len - length buf)) buf
                (rtem_reserve growH (length buf) len) (len - length buf) d sched b2 cs Hs F2 C2) as L.
  assert (Hpre : firstn (length buf) (b_data b2) = buf).
  { rewrite <- (firstn_firstn_le (length buf) (length (b_data b0)) (b_data b2)) by (fold (capacity b0); lia).
    rewrite D2. unfold contents in C. rewrite Hlen in C. exact C. }
  specialize (L Hpre ltac:(lia) (or_introl eq_refl)).
  (* the model of the helper runs on fuel [S (stream_len cs + stream_pends cs)], which is enough for it *)
  assert (Hnf : rtm_loop growB junk true (S (stream_len cs + stream_pends cs)) (N.of_nat len) (length buf) b2 cs (Some 0) <> RFuel).
  { pose proof (rtm_loop_spec growB junk true (N.of_nat len) G (S (stream_len cs + stream_pends cs)) (length buf) b2 cs (Some 0)
                  F2 ltac:(lia) ltac:(lia) ltac:(lia)) as Sp.
    intros Hf. rewrite Hf in Sp. cbn in Sp. tauto. }
  rewrite <- (rtm_loop_fuel_irrelevant growB junk true (N.of_nat len) (length buf) b2 cs (Some 0)
                (S (stream_len cs + stream_pends cs)) (S (len - length buf)) ltac:(lia) Hnf).
  exact L.
Qed.
