(** C16 — proofs about Model/Registry.v: on a strictly descending vector the macros
    [add_sorted_list!] / [remove_sorted_list!] (binary search of rustc 1.95 included) do
    exactly what the reference association list does, for every operation sequence. *)
From KV Require Import Bytes RustStd RustStdProofs Registry.
From Coq Require Import ZifyBool ZifyNat ZifyN Sorted.
Open Scope Z_scope.

Section Reg.
Context {A : Type}.
Notation entry := (Z * A)%type.

(** number of leading entries with a priority above [p] = the insertion point / position of [p] *)
Fixpoint lead (l : list entry) (p : Z) : nat :=
  match l with
  | [] => O
  | (q, _) :: r => if p <? q then S (lead r p) else O
  end.

Lemma ref_mem_cons q b (r : list entry) p : ref_mem ((q, b) :: r) p = (q =? p) || ref_mem r p.
Proof. reflexivity. Qed.

Lemma desc_inv q b (r : list entry) : desc ((q, b) :: r) -> desc r /\ Forall (fun e => fst e < q) r.
Proof. intros H. inversion H; subst. split; assumption. Qed.

Lemma desc_cons q b (r : list entry) : desc r -> Forall (fun e => fst e < q) r -> desc ((q, b) :: r).
Proof. intros H1 H2. constructor; assumption. Qed.

Lemma below_not_mem (r : list entry) q p : Forall (fun e => fst e < q) r -> q <= p -> ref_mem r p = false.
Proof.
  induction r as [|[x y] r IH]; intros HF Hq; [reflexivity|].
  inversion HF; subst. rewrite ref_mem_cons. cbn [fst] in *. rewrite (IH H2 Hq).
  destruct (Z.eqb_spec x p); [lia|reflexivity].
Qed.

Lemma below_lead0 (r : list entry) q p : Forall (fun e => fst e < q) r -> q <= p -> lead r p = O.
Proof.
  destruct r as [|[x y] r]; intros HF Hq; [reflexivity|].
  inversion HF; subst. cbn [lead fst] in *. destruct (Z.ltb_spec p x); [lia|reflexivity].
Qed.

Lemma lead_le (l : list entry) p : (lead l p <= length l)%nat.
Proof.
  induction l as [|[q b] r IH]; cbn [lead length]; [lia|]. destruct (p <? q); lia.
Qed.

Lemma lead_lt_mem (l : list entry) p : desc l -> ref_mem l p = true -> (lead l p < length l)%nat.
Proof.
  induction l as [|[q b] r IH]; intros Hd Hm; [discriminate|].
  apply desc_inv in Hd as [Hd HF]. rewrite ref_mem_cons in Hm. cbn [lead length fst] in *.
  destruct (Z.ltb_spec p q) as [Hlt|Hge]; [|lia].
  destruct (Z.eqb_spec q p); [lia|]. cbn [orb] in Hm. specialize (IH Hd Hm). lia.
Qed.

(** ---- the search ---- *)
Lemma split_desc (l : list entry) p : desc l ->
  exists E G, l = firstn (lead l p) l ++ E ++ G /\
    Forall (fun x => cmp_id_probe p x = Lt) (firstn (lead l p) l) /\
    Forall (fun x => cmp_id_probe p x = Eq) E /\
    Forall (fun x => cmp_id_probe p x = Gt) G /\
    E = (if ref_mem l p then firstn 1 (skipn (lead l p) l) else []) /\
    (length E = if ref_mem l p then 1 else 0)%nat.
Proof.
  induction l as [|[q b] r IH]; intros Hd.
  - exists [], []. cbn. repeat split; constructor.
  - apply desc_inv in Hd as [Hd HF]. rewrite ref_mem_cons. cbn [lead fst].
    destruct (Z.ltb_spec p q) as [Hlt|Hge].
    + destruct (IH Hd) as (E & G & E1 & F1 & F2 & F3 & E2 & E3).
      exists E, G. cbn [firstn skipn app]. destruct (Z.eqb_spec q p); [lia|]. cbn [orb].
      repeat split; try assumption.
      * f_equal. exact E1.
      * constructor; [|assumption]. unfold cmp_id_probe. cbn [fst]. apply Z.compare_lt_iff. lia.
    + cbn [firstn skipn app].
      assert (HG : Forall (fun x : entry => cmp_id_probe p x = Gt) r).
      { eapply Forall_impl; [|exact HF]. intros e He. cbn beta in He. unfold cmp_id_probe. apply Z.compare_gt_iff. lia. }
      destruct (Z.eqb_spec q p) as [->|Hne]; cbn [orb].
      * exists [(p, b)], r. repeat split; try constructor; try assumption; try constructor.
        unfold cmp_id_probe. cbn [fst]. apply Z.compare_refl.
      * rewrite (below_not_mem r q p HF ltac:(lia)).
        exists [], ((q, b) :: r). repeat split; try constructor; try assumption.
        unfold cmp_id_probe. cbn [fst]. apply Z.compare_gt_iff. lia.
Qed.

Lemma search_desc (l : list entry) p : desc l ->
  binary_search_by (cmp_id_probe p) l =
  Some (if ref_mem l p then BOk (lead l p) else BErr (lead l p)).
Proof.
  intros Hd. destruct (split_desc l p Hd) as (E & G & E1 & F1 & F2 & F3 & _ & E3).
  rewrite E1 at 1. rewrite (binary_search_by_partition _ _ _ _ F1 F2 F3).
  pose proof (lead_le l p) as Hle.
  rewrite firstn_length, Nat.min_l by exact Hle.
  destruct (ref_mem l p).
  - destruct E as [|e [|e' E']]; cbn [length] in E3; try lia. f_equal. f_equal. cbn [length]. lia.
  - destruct E; cbn [length] in E3; [reflexivity|lia].
Qed.

(** ---- add (override) ---- *)
Lemma ref_add_shape (l : list entry) p a : desc l ->
  ref_add l p a = firstn (lead l p) l ++ (p, a) :: skipn (if ref_mem l p then S (lead l p) else lead l p) l.
Proof.
  induction l as [|[q b] r IH]; intros Hd; [reflexivity|].
  apply desc_inv in Hd as [Hd HF]. rewrite ref_mem_cons. cbn [ref_add lead fst].
  destruct (Z.ltb_spec p q) as [Hlt|Hge].
  - destruct (Z.eqb_spec q p); [lia|]. cbn [orb]. rewrite (IH Hd).
    destruct (ref_mem r p); reflexivity.
  - destruct (Z.eqb_spec p q) as [->|Hne].
    + rewrite Z.eqb_refl. reflexivity.
    + destruct (Z.eqb_spec q p); [lia|]. cbn [orb]. rewrite (below_not_mem r q p HF ltac:(lia)). reflexivity.
Qed.

Lemma add_override_ok (l : list entry) fuel p a : desc l ->
  add_loop (S fuel) l p false a = Ok (ref_add l p a).
Proof.
  intros Hd. cbn [add_loop]. rewrite (search_desc l p Hd), (ref_add_shape l p a Hd).
  pose proof (lead_le l p) as Hle.
  destruct (ref_mem l p) eqn:Hm.
  - pose proof (lead_lt_mem l p Hd Hm) as Hlt. unfold vec_set.
    destruct (Nat.ltb_spec (lead l p) (length l)); [reflexivity|lia].
  - unfold vec_insert. destruct (Nat.leb_spec (lead l p) (length l)); [reflexivity|lia].
Qed.

(** ---- add (no_override) ---- *)
Definition count_le (l : list entry) (p : Z) : nat := length (filter (fun e => fst e <=? p) l).

Lemma count_le_len (l : list entry) p : (count_le l p <= length l)%nat.
Proof.
  unfold count_le. induction l as [|e r IH]; cbn [filter length]; [lia|].
  destruct (fst e <=? p); cbn [length]; lia.
Qed.

Lemma count_le_pred (l : list entry) p : (count_le l (p - 1) <= count_le l p)%nat.
Proof.
  unfold count_le. induction l as [|[q b] r IH]; cbn [filter fst length]; [lia|].
  destruct (Z.leb_spec q (p - 1)), (Z.leb_spec q p); cbn [length]; lia.
Qed.

Lemma count_le_pred_mem (l : list entry) p : ref_mem l p = true -> (count_le l (p - 1) < count_le l p)%nat.
Proof.
  unfold count_le. induction l as [|[q b] r IH]; intros Hm; [discriminate|].
  rewrite ref_mem_cons in Hm. cbn [fst filter length] in *.
  pose proof (count_le_pred r p) as Hp. unfold count_le in Hp.
  destruct (Z.eqb_spec q p) as [->|Hne].
  - destruct (Z.leb_spec p (p - 1)), (Z.leb_spec p p); cbn [length]; lia.
  - cbn [orb] in Hm. specialize (IH Hm).
    destruct (Z.leb_spec q (p - 1)), (Z.leb_spec q p); cbn [length]; lia.
Qed.

Lemma free_below_unfold (l : list entry) p : desc l ->
  ref_free_below l p =
  if ref_mem l p then (if p - 1 <? i32_min then None else ref_free_below l (p - 1)) else Some p.
Proof.
  induction l as [|[q b] r IH]; intros Hd; [reflexivity|].
  apply desc_inv in Hd as [Hd HF]. rewrite ref_mem_cons. cbn [ref_free_below fst].
  destruct (Z.ltb_spec p q) as [Hlt|Hge].
  - destruct (Z.eqb_spec q p); [lia|]. cbn [orb]. rewrite (IH Hd).
    destruct (Z.ltb_spec (p - 1) q); [reflexivity|lia].
  - destruct (Z.eqb_spec p q) as [->|Hne].
    + rewrite Z.eqb_refl. cbn [orb]. destruct (Z.ltb_spec (q - 1) q); [reflexivity|lia].
    + destruct (Z.eqb_spec q p); [lia|]. cbn [orb]. rewrite (below_not_mem r q p HF ltac:(lia)). reflexivity.
Qed.

Lemma add_no_override_ok (l : list entry) a : desc l -> forall fuel p, (count_le l p < fuel)%nat ->
  add_loop fuel l p true a =
  match ref_free_below l p with Some p' => Ok (ref_add l p' a) | None => Panic end.
Proof.
  intros Hd. induction fuel as [|fuel IH]; intros p Hf; [lia|].
  cbn [add_loop]. rewrite (search_desc l p Hd), (free_below_unfold l p Hd).
  destruct (ref_mem l p) eqn:Hm.
  - destruct (Z.ltb_spec (p - 1) i32_min); [reflexivity|].
    apply IH. pose proof (count_le_pred_mem l p Hm). lia.
  - rewrite (ref_add_shape l p a Hd), Hm. unfold vec_insert.
    pose proof (lead_le l p). destruct (Nat.leb_spec (lead l p) (length l)); [reflexivity|lia].
Qed.

(** ---- remove ---- *)
Lemma below_filter_id (r : list entry) q p : Forall (fun e => fst e < q) r -> q <= p ->
  filter (fun e => negb (fst e =? p)) r = r.
Proof.
  induction r as [|[x y] r IH]; intros HF Hq; [reflexivity|].
  inversion HF; subst. cbn [filter fst] in *. destruct (Z.eqb_spec x p); [lia|]. cbn [negb].
  f_equal. apply IH; assumption.
Qed.

Lemma ref_remove_shape (l : list entry) p : desc l ->
  ref_remove l p = if ref_mem l p then firstn (lead l p) l ++ skipn (S (lead l p)) l else l.
Proof.
  unfold ref_remove. induction l as [|[q b] r IH]; intros Hd; [reflexivity|].
  apply desc_inv in Hd as [Hd HF]. rewrite ref_mem_cons. cbn [filter lead fst].
  destruct (Z.ltb_spec p q) as [Hlt|Hge].
  - destruct (Z.eqb_spec q p); [lia|]. cbn [negb orb]. rewrite (IH Hd).
    destruct (ref_mem r p); reflexivity.
  - destruct (Z.eqb_spec q p) as [->|Hne]; cbn [negb orb].
    + cbn [firstn skipn app]. apply (below_filter_id r p p HF). lia.
    + rewrite (below_not_mem r q p HF ltac:(lia)). f_equal. apply (below_filter_id r q p HF). lia.
Qed.

Lemma remove_ok (l : list entry) p : desc l -> remove_sorted_list l p = Ok (ref_remove l p).
Proof.
  intros Hd. unfold remove_sorted_list, remove_sorted_list_with.
  rewrite (search_desc l p Hd), (ref_remove_shape l p Hd).
  destruct (ref_mem l p) eqn:Hm; [|reflexivity].
  pose proof (lead_lt_mem l p Hd Hm). unfold vec_remove.
  destruct (Nat.ltb_spec (lead l p) (length l)); [reflexivity|lia].
Qed.

(** ---- the reference keeps the invariant ---- *)
Lemma ref_add_below (l : list entry) p a q : Forall (fun e => fst e < q) l -> p < q ->
  Forall (fun e => fst e < q) (ref_add l p a).
Proof.
  induction l as [|[x y] r IH]; intros HF Hp; cbn [ref_add].
  - constructor; [exact Hp|constructor].
  - inversion HF; subst. cbn [fst] in *.
    destruct (p <? x); [constructor; [assumption|apply IH; assumption]|].
    destruct (p =? x); constructor; try assumption.
Qed.

Lemma ref_add_desc (l : list entry) p a : desc l -> desc (ref_add l p a).
Proof.
  induction l as [|[q b] r IH]; intros Hd; cbn [ref_add].
  - constructor; constructor.
  - apply desc_inv in Hd as [Hd HF].
    destruct (Z.ltb_spec p q) as [Hlt|Hge].
    + apply desc_cons; [apply IH; exact Hd|apply ref_add_below; assumption].
    + destruct (Z.eqb_spec p q) as [->|Hne].
      * apply desc_cons; assumption.
      * apply desc_cons; [apply desc_cons; assumption|].
        constructor; [cbn [fst]; lia|]. eapply Forall_impl; [|exact HF]. cbn. intros; lia.
Qed.

Lemma ref_remove_desc (l : list entry) p : desc l -> desc (ref_remove l p).
Proof.
  unfold ref_remove. induction l as [|[q b] r IH]; intros Hd; [constructor|].
  apply desc_inv in Hd as [Hd HF]. cbn [filter fst].
  destruct (negb (q =? p)); [|apply IH; exact Hd].
  apply desc_cons; [apply IH; exact Hd|].
  apply Forall_forall. intros e He. apply filter_In in He as [He _].
  rewrite Forall_forall in HF. apply HF. exact He.
Qed.

(** ---- one step, then every history ---- *)
Lemma step_refines (l : list entry) (o : op A) : desc l -> model_step l o = ref_step l o.
Proof.
  intros Hd. destruct o as [p [|] a|p]; cbn [model_step ref_step].
  - unfold add_sorted_list. apply add_no_override_ok; [exact Hd|]. pose proof (count_le_len l p). lia.
  - unfold add_sorted_list. apply add_override_ok. exact Hd.
  - apply remove_ok. exact Hd.
Qed.

Lemma ref_step_desc (l l' : list entry) (o : op A) : desc l -> ref_step l o = Ok l' -> desc l'.
Proof.
  intros Hd. destruct o as [p [|] a|p]; cbn [ref_step].
  - destruct (ref_free_below l p); [|discriminate]. intros [= <-]. apply ref_add_desc. exact Hd.
  - intros [= <-]. apply ref_add_desc. exact Hd.
  - intros [= <-]. apply ref_remove_desc. exact Hd.
Qed.

Theorem run_refines (ops : list (op A)) : forall l : list entry, desc l -> run_model l ops = run_ref l ops.
Proof.
  unfold run_model, run_ref. induction ops as [|o ops IH]; intros l Hd; [reflexivity|].
  cbn [run_with]. rewrite (step_refines l o Hd). f_equal.
  destruct (ref_step l o) as [l'| |] eqn:E; try (apply IH; exact Hd).
  apply IH. eapply ref_step_desc; eassumption.
Qed.

Lemma run_ref_desc (ops : list (op A)) : forall l : list entry, desc l ->
  Forall (fun r => match r with Ok l' => desc l' | _ => True end) (run_ref l ops).
Proof.
  unfold run_ref. induction ops as [|o ops IH]; intros l Hd; [constructor|].
  cbn [run_with]. destruct (ref_step l o) as [l'| |] eqn:E.
  - pose proof (ref_step_desc l l' o Hd E) as Hd'. constructor; [exact Hd'|apply IH; exact Hd'].
  - constructor; [exact I|apply IH; exact Hd].
  - constructor; [exact I|apply IH; exact Hd].
Qed.

(** ---- what the reference means: a finite map, highest priority first ---- *)
Lemma ref_get_add (l : list entry) p a q : desc l ->
  ref_get (ref_add l p a) q = if q =? p then Some a else ref_get l q.
Proof.
  induction l as [|[x y] r IH]; intros Hd; cbn [ref_add ref_get].
  - destruct (Z.eqb_spec p q), (Z.eqb_spec q p); try lia; reflexivity.
  - apply desc_inv in Hd as [Hd HF].
    destruct (Z.ltb_spec p x) as [Hlt|Hge]; cbn [ref_get].
    + destruct (Z.eqb_spec x q) as [->|Hne].
      * destruct (Z.eqb_spec q p); [lia|reflexivity].
      * apply IH. exact Hd.
    + destruct (Z.eqb_spec p x) as [->|Hne]; cbn [ref_get].
      * destruct (Z.eqb_spec x q) as [->|Hne]; [rewrite Z.eqb_refl; reflexivity|].
        destruct (Z.eqb_spec q x); [lia|reflexivity].
      * destruct (Z.eqb_spec p q) as [->|Hne2]; [rewrite Z.eqb_refl; reflexivity|].
        destruct (Z.eqb_spec q p); [lia|reflexivity].
Qed.

Lemma ref_get_remove (l : list entry) p q :
  ref_get (ref_remove l p) q = if q =? p then None else ref_get l q.
Proof.
  unfold ref_remove. induction l as [|[x y] r IH]; cbn [filter ref_get fst].
  - destruct (q =? p); reflexivity.
  - destruct (Z.eqb_spec x p) as [->|Hne]; cbn [negb ref_get].
    + rewrite IH. destruct (Z.eqb_spec q p) as [Eqp|Hne]; [reflexivity|].
      destruct (Z.eqb_spec p q); [lia|reflexivity].
    + rewrite IH. destruct (Z.eqb_spec x q) as [->|Hne2]; [|reflexivity].
      destruct (Z.eqb_spec q p); [lia|reflexivity].
Qed.

Lemma ref_mem_get (l : list entry) p : ref_mem l p = match ref_get l p with Some _ => true | None => false end.
Proof.
  induction l as [|[x y] r IH]; [reflexivity|]. rewrite ref_mem_cons. cbn [ref_get fst].
  destruct (x =? p); [reflexivity|]. exact IH.
Qed.

(** [no_override]: the greatest free priority at or below [p]; a panic exactly when every
    priority from [p] down to [i32::MIN] is taken. *)
Lemma free_below_spec (l : list entry) : desc l -> forall n p, (count_le l p < n)%nat ->
  match ref_free_below l p with
  | Some p' => p' <= p /\ ref_mem l p' = false /\ (forall q, p' < q <= p -> ref_mem l q = true) /\
               (i32_min <= p -> i32_min <= p')
  | None => forall q, i32_min <= q <= p -> ref_mem l q = true
  end.
Proof.
  intros Hd. induction n as [|n IH]; intros p Hn; [lia|].
  rewrite (free_below_unfold l p Hd). destruct (ref_mem l p) eqn:Hm.
  - destruct (Z.ltb_spec (p - 1) i32_min) as [Hmin|Hmin].
    + intros q Hq. assert (q = p) by lia. subst. exact Hm.
    + specialize (IH (p - 1)). pose proof (count_le_pred_mem l p Hm) as Hc.
      specialize (IH ltac:(lia)). destruct (ref_free_below l (p - 1)) as [p'|].
      * destruct IH as (I1 & I2 & I3 & I4). repeat split; try lia; try assumption.
        intros q Hq. destruct (Z.eq_dec q p) as [->|Hne]; [exact Hm|apply I3; lia].
      * intros q Hq. destruct (Z.eq_dec q p) as [->|Hne]; [exact Hm|apply IH; lia].
  - repeat split; try lia; try assumption.
Qed.

End Reg.

(** ---- the whole [Extensions] value ---- *)
Definition ext_desc (e : extensions) : Prop := Forall desc (e_lists e).

Lemma nth_desc (ls : list (list (Z * bytes))) k : Forall desc ls -> desc (nth k ls []).
Proof.
  intros HF. revert k. induction HF as [|x ls Hx HF IH]; intros [|k]; cbn [nth]; try constructor; auto.
Qed.

Lemma upd_desc (ls : list (list (Z * bytes))) k l' : Forall desc ls -> desc l' -> Forall desc (upd k (fun _ => l') ls).
Proof.
  intros HF Hl. revert k. induction HF as [|x ls Hx HF IH]; intros [|k]; cbn [upd]; constructor; auto.
Qed.

Lemma ext_step_refines e r : ext_desc e ->
  ext_step remove_sorted_list e r = ext_step_ref e r /\ ext_desc (fst (ext_step_ref e r)).
Proof.
  intros He. unfold ext_step_ref, ext_step. destruct (Nat.ltb (rq_kind r) 5) eqn:Hk.
  - pose proof (nth_desc (e_lists e) (rq_kind r) He) as Hd.
    destruct (N.eqb (rq_code r) 2) eqn:Hc.
    + rewrite (remove_ok _ _ Hd). cbn [ref_step]. split; [reflexivity|]. cbn [fst].
      unfold ext_desc. cbn [e_lists]. apply upd_desc; [exact He|apply ref_remove_desc; exact Hd].
    + change (add_sorted_list (nth (rq_kind r) (e_lists e) []) (rq_prio r) (N.eqb (rq_code r) 1) (rq_name r))
        with (model_step (nth (rq_kind r) (e_lists e) []) (Add (rq_prio r) (N.eqb (rq_code r) 1) (rq_name r))).
      rewrite (step_refines _ _ Hd). split; [reflexivity|].
      destruct (ref_step _ _) as [l'| |] eqn:E; cbn [fst]; try exact He.
      unfold ext_desc. cbn [e_lists]. apply upd_desc; [exact He|]. eapply ref_step_desc; eassumption.
  - split; [reflexivity|]. cbn [fst]. exact He.
Qed.

Theorem ext_run_refines rs : forall e, ext_desc e -> ext_run remove_sorted_list e rs = ext_run_ref e rs.
Proof.
  induction rs as [|r rs IH]; intros e He; [reflexivity|].
  cbn [ext_run ext_run_ref]. destruct (ext_step_refines e r He) as [E Hd]. rewrite E.
  destruct (ext_step_ref e r) as [e' v]. cbn [fst] in Hd. rewrite (IH e' Hd). reflexivity.
Qed.

Lemma ext_run_ref_desc rs : forall e, ext_desc e -> ext_desc (snd (ext_run_ref e rs)).
Proof.
  induction rs as [|r rs IH]; intros e He; [exact He|].
  cbn [ext_run_ref]. destruct (ext_step_refines e r He) as [_ Hd].
  destruct (ext_step_ref e r) as [e' v]. cbn [fst] in Hd. specialize (IH e' Hd).
  destruct (ext_run_ref e' rs) as [vs ef]. exact IH.
Qed.

Lemma extensions_empty_desc : ext_desc extensions_empty.
Proof. unfold ext_desc. cbn. repeat constructor. Qed.

Lemma extensions_new_desc : ext_desc extensions_new.
Proof.
  unfold extensions_new. rewrite (ext_run_refines _ _ extensions_empty_desc).
  apply ext_run_ref_desc. exact extensions_empty_desc.
Qed.

(** ---- refutation witness for the macro as it was ([probe.0.cmp(&id)]) ---- *)
Lemma remove_v0_refuted :
  exists (l : list (Z * N)) (p : Z), desc l /\ remove_sorted_list_v0 l p <> Ok (ref_remove l p).
Proof.
  exists [(10, 0%N); (5, 0%N); (1, 0%N)], 10. split.
  - repeat constructor.
  - vm_compute. discriminate.
Qed.

(** ---- a start state read from the implementation: the run-time check [desc_b] is [desc] ---- *)
Lemma desc_b_spec {A} (l : list (Z * A)) : desc_b l = true <-> desc l.
Proof.
  induction l as [|[q a] r IH]; cbn [desc_b].
  - split; [constructor|reflexivity].
  - rewrite Bool.andb_true_iff, forallb_forall, IH. split.
    + intros [HF Hd]. apply desc_cons; [exact Hd|]. apply Forall_forall. intros e He. specialize (HF e He). lia.
    + intros Hd. apply desc_inv in Hd as [Hd HF]. split; [|exact Hd].
      intros e He. rewrite Forall_forall in HF. specialize (HF e He). lia.
Qed.

Lemma d_extensions_desc x e : d_extensions x = Some e -> ext_desc e.
Proof.
  unfold d_extensions. destruct x as [| |[|ls [|ms [|]]]]; try discriminate.
  destruct (d_list (d_list d_entry) ls) as [l|]; [|discriminate].
  destruct (d_list (d_list d_B) ms) as [m|]; [|discriminate].
  destruct (Nat.eqb (length l) 5 && Nat.eqb (length m) 3 && forallb desc_b l && forallb keys_sorted_b m)%bool eqn:E; [|discriminate].
  intros H. inversion H; subst. unfold ext_desc. cbn [e_lists].
  apply Bool.andb_true_iff in E as [E _]. apply Bool.andb_true_iff in E as [_ E].
  rewrite forallb_forall in E. apply Forall_forall. intros y Hy. apply desc_b_spec. apply E. exact Hy.
Qed.

(** ---- the hash maps as key sets: insert adds exactly that key, remove deletes exactly that key ---- *)
Lemma bcmp_eq a c : bcmp a c = Eq <-> a = c.
Proof.
  revert c. induction a as [|x a IH]; intros [|y c]; cbn [bcmp]; try (split; [discriminate|discriminate]); [split; reflexivity|].
  destruct (N.compare_spec x y) as [->|Hlt|Hgt].
  - rewrite IH. split; [intros ->; reflexivity|intros H; inversion H; reflexivity].
  - split; [discriminate|]. intros H. inversion H. lia.
  - split; [discriminate|]. intros H. inversion H. lia.
Qed.

Lemma key_insert_in k m q : In q (key_insert k m) <-> q = k \/ In q m.
Proof.
  induction m as [|x m IH]; cbn [key_insert].
  - cbn [In]. split; [intros [<-|[]]; left; reflexivity|intros [->|[]]; left; reflexivity].
  - destruct (bcmp k x) eqn:E.
    + apply bcmp_eq in E. subst x. cbn [In]. split; [intros H; right; exact H|intros [->|H]; [left; reflexivity|exact H]].
    + cbn [In]. split; [intros [<-|H]; [left; reflexivity|right; exact H]|intros [->|H]; [left; reflexivity|right; exact H]].
    + cbn [In]. rewrite IH. tauto.
Qed.

Lemma key_remove_in k m q : In q (key_remove k m) <-> q <> k /\ In q m.
Proof.
  unfold key_remove. rewrite filter_In. split.
  - intros [Hin Hn]. split; [|exact Hin]. intros ->. rewrite beq_refl in Hn. discriminate.
  - intros [Hn Hin]. split; [exact Hin|]. destruct (beq q k) eqn:E; [|reflexivity]. apply beq_eq in E. contradiction.
Qed.
