(** C05 on the wire — proofs about Model/VaryWire.v: what [SendKind::send] leaves of the [vary] header. *)
From Coq Require Import Lia ZifyBool ZifyNat ZifyN.
From KV Require Import Bytes RustInt Range CacheControl Cache CacheProofs Fixture RustStd Vary VaryProofs VaryWire.
Open Scope N_scope.

Lemma assoc_filter_other k n (l : list (bytes * bytes)) :
  beq k n = false -> assoc k (filter (fun p => negb (beq (fst p) n)) l) = assoc k l.
Proof.
  intros Hkn. induction l as [|[k' v] l IH]; cbn [filter assoc fst]; [reflexivity|].
  destruct (beq k' n) eqn:E; cbn [negb].
  - destruct (beq k k') eqn:E2; [|exact IH].
    apply beq_eq in E2. subst k'. rewrite Hkn in E. discriminate.
  - cbn [assoc]. destruct (beq k k'); [reflexivity | exact IH].
Qed.

Lemma assoc_app_some k (l1 l2 : list (bytes * bytes)) v : assoc k l1 = Some v -> assoc k (l1 ++ l2) = Some v.
Proof.
  induction l1 as [|[k' v'] l1 IH]; cbn [assoc app]; [discriminate|].
  destruct (beq k k'); [auto | exact IH].
Qed.

(** [HeaderMap::insert] of another name leaves a header alone *)
Lemma assoc_hm_insert_other k n v hs : beq k n = false -> assoc k (hm_insert n v hs) = assoc k hs.
Proof.
  intros Hkn. unfold hm_insert.
  destruct (assoc k (filter (fun p => negb (beq (fst p) n)) hs)) as [x|] eqn:E.
  - rewrite (assoc_app_some _ _ _ _ E). rewrite <- E. apply assoc_filter_other. exact Hkn.
  - rewrite assoc_app_none by exact E. cbn [assoc]. rewrite Hkn.
    rewrite <- E. apply assoc_filter_other. exact Hkn.
Qed.

Lemma vary_text_names refs :
  get_header (settings_headers refs) false = vary_text refs.
Proof.
  rewrite get_header_names. unfold settings_headers, vary_text. rewrite !map_map. reflexivity.
Qed.

(** [apply_header] on the 416 page *)
Lemma apply_header_settings hs body refs :
  body <> [] -> assoc (B "vary") (apply_header hs body (settings_headers refs) false) = Some (vary_text refs).
Proof.
  intros Hb. unfold apply_header. destruct body as [|b0 body]; [congruence|].
  cbn [andb]. rewrite assoc_hm_insert. rewrite vary_text_names. reflexivity.
Qed.

(** a range that is served leaves a non-empty body only of a non-empty body *)
Lemma apply_range_body rg st body x :
  apply_range true rg st body = Ok x -> r_body x <> [] -> body <> [].
Proof.
  unfold apply_range. destruct rg as [[a e]|].
  - destruct (N.of_nat (length body) <=? a) eqn:E; [discriminate|].
    intros _ _ Hb. subst body. cbn in E. destruct a; discriminate.
  - intros H; inversion H; subst. cbn [r_body]. auto.
Qed.

Section WireProofs.
  Variable hstate : Type.
  Variable compute : hstate -> routed -> bool -> fat * hstate * list bytes.
  Variable cache_on : bool.
  Variable ims_on : bool.
  Variable parse_ims : bytes -> option Z.
  Variable sanitize_ok : request -> bool.
  Variable prime : request -> routed.
  Variable negotiate : request -> fat -> option (N * bytes).
  Variable rules_of : bytes -> list rule.
  Variable dbg : bool.
  Variable package : request -> list (bytes * bytes) -> list (bytes * bytes).
  Variable err416_body : bytes.

  (** the operator's Package extensions do not touch [vary] *)
  Definition package_keeps_vary : Prop :=
    forall r hs, assoc (B "vary") (package r hs) = assoc (B "vary") hs.

  (** the response [handle_cache] returned is replaced by the 416 page: never a 304 (repair 9ae9b1a), and the
      range is applied to the body [send] keeps (none after 1xx / 204 / 304) *)
  Definition replaced (san : option (option (N * N))) (rp : reply) : Prop :=
    exists rg e, san = Some rg /\ (rp_status rp =? 304) = false /\
                 apply_range true rg (rp_status rp) (send_body rp) = Err e.

  Notation sendX := (send_v rules_of package err416_body).

  Lemma send_body_nonempty rp : send_body rp <> [] -> rp_body rp <> [].
  Proof. unfold send_body. destruct (no_body_status (rp_status rp)); [intros H; contradiction H; reflexivity | auto]. Qed.

  (** a 304 goes out as it is, whatever the range header says *)
  Lemma send_not_modified fixed fix_ov q san rp :
    rp_status rp = 304 ->
    sendX fixed fix_ov q san rp = Ok (mkW 304 (package (fst q) (rp_headers rp)) [] (rp_last_modified rp)).
  Proof. intros H. unfold send_v, send_body. rewrite H. reflexivity. Qed.

  (** [send_keeps_vary]: whenever the response is not replaced — repaired code or not —, the [vary] header
      on the wire is the one [handle_cache] set, and a non-empty body on the wire comes from a non-empty body *)
  Lemma send_keeps_vary_lemma fixed fix_ov q san rp w :
    package_keeps_vary -> sendX fixed fix_ov q san rp = Ok w -> ~ replaced san rp ->
    assoc (B "vary") (w_headers w) = assoc (B "vary") (rp_headers rp) /\ (w_body w <> [] -> rp_body rp <> []).
  Proof.
    intros Hp E Hn. unfold send_v in E. cbv zeta in E. destruct (rp_status rp =? 304) eqn:E304.
    { inversion E; subst w. cbn [w_headers w_body]. rewrite Hp. split; [reflexivity | apply send_body_nonempty]. }
    destruct san as [rg|].
    - destruct (apply_range true rg (rp_status rp) (send_body rp)) as [x|e|] eqn:A.
      + inversion E; subst w; clear E. cbn [w_headers w_body]. rewrite Hp. split.
        * destruct (r_accept_ranges x); [rewrite assoc_hm_insert_other by reflexivity|];
            (destruct (r_content_range x); [rewrite assoc_hm_insert_other by reflexivity|]; reflexivity).
        * intros Hb. apply send_body_nonempty. apply (apply_range_body _ _ _ _ A Hb).
      + exfalso. apply Hn. exists rg, e. auto.
      + discriminate.
    - inversion E; subst w. cbn [w_headers w_body]. rewrite Hp. split; [reflexivity | apply send_body_nonempty].
  Qed.

  (** the replacement: status 416, the error page, and — repaired code — the [vary] header of the page: the rule headers
      of the URI the replaced response was cached under (with [fix_ov = false]: of the request's own path) *)
  Lemma send_replaced_lemma fix_ov q san rp w :
    package_keeps_vary -> sendX true fix_ov q san rp = Ok w -> replaced san rp ->
    w_status w = 416 /\ w_body w = err416_body /\
    (err416_body <> [] ->
     assoc (B "vary") (w_headers w) = Some (vary_text (rules_of (if fix_ov then cpath q else rq_path (fst q))))).
  Proof.
    intros Hp E (rg & e & -> & E304 & A). unfold send_v in E. cbv zeta in E. rewrite E304, A in E. inversion E; subst w.
    cbn [w_status w_body w_headers]. split; [reflexivity|]. split; [reflexivity|].
    intros Hb. rewrite Hp. apply apply_header_settings. exact Hb.
  Qed.

  Notation own := (own_tuple rules_of).
  Notation runX := (runV hstate compute cache_on ims_on parse_ims sanitize_ok prime negotiate rules_of dbg).

  (** what [vary_served_for_equal_tuple] says of a reply is enough *)
  Lemma served_reply_vary q rp calls :
    served_ok hstate compute ims_on negotiate rules_of q rp calls ->
    rp_body rp <> [] -> assoc (B "vary") (rp_headers rp) = Some (vary_text (rules_of (cpath q))).
  Proof.
    intros [[_ (f & r1 & _ & _ & _ & [(_ & Hb & _) | ->])] | [_ (f & lm & cached & _ & ->)]] Hne.
    - congruence.
    - apply (proj1 (finishV_vary negotiate rules_of (fst q) (lreq q) f ims_on true)). exact Hne.
    - apply (proj1 (finishV_vary negotiate rules_of (fst q) (lreq q) f lm cached)). exact Hne.
  Qed.

  (** one request: every non-empty response on the wire advertises the page's [vary] value — whatever the
      sanitize verdict and the range, HEAD included (the header is there although the body is withheld) *)
  Lemma wire_reply_vary q rp calls san w :
    package_keeps_vary ->
    served_ok hstate compute ims_on negotiate rules_of q rp calls ->
    sendX true true q san rp = Ok w -> w_body w <> [] ->
    assoc (B "vary") (w_headers w) = Some (vary_text (rules_of (cpath q))).
  Proof.
    intros Hp Hs E Hne.
    assert (D : replaced san rp \/ ~ replaced san rp).
    { unfold replaced. destruct san as [rg|].
      - destruct (rp_status rp =? 304) eqn:E304.
        { right. intros (rg' & e & _ & Hf & _). discriminate. }
        destruct (apply_range true rg (rp_status rp) (send_body rp)) as [x|e|] eqn:A.
        + right. intros (rg' & e & Heq & _ & A'). inversion Heq; subst. congruence.
        + left. eauto.
        + right. intros (rg' & e & Heq & _ & A'). inversion Heq; subst. congruence.
      - right. intros (rg & e & Heq & _). discriminate. }
    destruct D as [Hr | Hn].
    - destruct (send_replaced_lemma true q san rp w Hp E Hr) as (_ & Hb & Hv). apply Hv. rewrite <- Hb. exact Hne.
    - destruct (send_keeps_vary_lemma true true q san rp w Hp E Hn) as (Hv & Hb). rewrite Hv.
      apply (served_reply_vary q rp calls Hs). apply Hb. exact Hne.
  Qed.

  Definition wire_ok (o : op) (oc : obs * list routed) : Prop :=
    match o, fst oc with
    | OReq r0, ObReply rp _ =>
        forall san w, sendX true true (prime r0) san rp = Ok w -> w_body w <> [] ->
                      assoc (B "vary") (w_headers w) = Some (vary_text (rules_of (cpath (prime r0))))
    | _, _ => True
    end.

  Lemma obs_wire_ok o oc :
    package_keeps_vary -> obs_ok hstate compute ims_on prime negotiate rules_of o oc -> wire_ok o oc.
  Proof.
    intros Hp. unfold obs_ok, wire_ok. destruct o as [r0 | r | | ms]; try (intros; destruct (fst oc); exact I).
    destruct (fst oc) as [rp lg | |]; try (intros; exact I).
    intros Hs san w E Hne. exact (wire_reply_vary (prime r0) rp (snd oc) san w Hp Hs E Hne).
  Qed.

  (** every history, from every cache state that satisfies the invariant *)
  Lemma wire_vary_run ops c hs now :
    InvV hstate compute rules_of c -> package_keeps_vary ->
    exists l, runX (c, hs) now ops = Ok l /\ Forall2 wire_ok ops l.
  Proof.
    intros I Hp.
    destruct (runV_ok hstate compute cache_on ims_on parse_ims sanitize_ok prime negotiate rules_of dbg ops c hs now I)
      as (l & st' & now' & E & _ & _ & F).
    exists l. split; [exact E|].
    clear E. induction F as [|o oc ops l Ho F IH]; constructor; [|exact IH].
    apply obs_wire_ok; assumption.
  Qed.
End WireProofs.

(** ---- before the repair: a non-empty response without [vary] (reproduced on the real code at 76d8d4f) ---- *)
(** host with the page /v (rule x-a, lower-casing, default "dflt"; handler echoes the transformed tuple):
    GET /v x-a:a; GET /v x-a:a range: bytes=100-200 *)
Definition wire416_history : xval :=
  XL [ XL [ XL [XB (B "cache"); XN 1]; XL [XB (B "default_ext"); XN 0];
            XL [XB (B "handlers"); XL [ XL [XB (B "/v"); XN 3; XN 200; XB (B "T0"); XL []; XN 2; XN 0; XN 0; XN 1;
                                          XL [XL [XB (B "x-a"); XN 0; XB (B "dflt")]]] ]];
            XL [XB (B "vary"); XL [ XL [XB (B "/v"); XL [XL [XB (B "x-a"); XN 0; XB (B "dflt")]]] ]];
            XL [XB (B "report"); XL [XB (B "vary")]];
            XL [XB (B "disable_ims"); XN 0] ];
       XL [ XL [XN 0; XN 1; XB (B "GET"); XB (B "/v"); XL [XL [XB (B "x-a"); XB (B "a")]]; XB []];
            XL [XN 0; XN 1; XB (B "GET"); XB (B "/v");
                XL [XL [XB (B "x-a"); XB (B "a")]; XL [XB (B "range"); XB (B "bytes=100-200")]]; XB []] ] ].
Definition wire416_out_v0 : xval :=
  XL [ XL [XN 200; XL [XL [XB (B "vary"); XB (B "accept-encoding, range, x-a")]]; XB (B "T0|a"); XN 1; XL [XB (B "h0")]];
       XL [XN 416; XL []; XB (B "ERRPAGE"); XN 1; XL []] ].
Definition wire416_out : xval :=
  XL [ XL [XN 200; XL [XL [XB (B "vary"); XB (B "accept-encoding, range, x-a")]]; XB (B "T0|a"); XN 1; XL [XB (B "h0")]];
       XL [XN 416; XL [XL [XB (B "vary"); XB (B "accept-encoding, range, x-a")]]; XB (B "ERRPAGE"); XN 1; XL []] ].

Lemma wire416_v0 : run_vary_wire_v0 wire416_history = wire416_out_v0 /\ run_vary_wire wire416_history = wire416_out.
Proof. split; vm_compute; reflexivity. Qed.

(** the same at the level of [send_v]: for every page with a 416 page that is not empty there is a reply of
    [handle_cache] that the unrepaired [send] turns into a non-empty response without [vary] *)
Lemma send_v0_drops_vary rules_of (err416_body : bytes) fix_ov q :
  err416_body <> [] ->
  exists rp w, rp_body rp <> [] /\
    send_v rules_of (fun _ hs => hs) err416_body false fix_ov q (Some (Some (100, 201)))
           (finishV (fun _ _ => None) (fst q) (mkFat 200 [] (B "page") SP_FULL true) (own_tuple rules_of (lreq q)) true true) = Ok w /\
    rp = finishV (fun _ _ => None) (fst q) (mkFat 200 [] (B "page") SP_FULL true) (own_tuple rules_of (lreq q)) true true /\
    w_body w <> [] /\ assoc (B "vary") (w_headers w) = None.
Proof.
  intros Hb. eexists; eexists. split; [|split; [reflexivity|split; [reflexivity|split]]].
  - cbn. discriminate.
  - cbn [w_body]. exact Hb.
  - reflexivity.
Qed.

(** ---- after 21f0154, before the repair 31ad067: the 416 page of an internal route lists the rule headers of the
    request's own path (reproduced on the real code at fbca956) ---- *)
(** host with the internal page /./lang (rule accept-language, lower-casing, default "en") and the public page /hi (rule
    x-pub); a Prime extension answers /hi with /./lang:
    GET /hi accept-language:de; GET /hi accept-language:de range: bytes=100-200 *)
Definition wire416_route_history : xval :=
  XL [ XL [ XL [XB (B "cache"); XN 1]; XL [XB (B "default_ext"); XN 0];
            XL [XB (B "handlers"); XL [ XL [XB (B "/./lang"); XN 3; XN 200; XB (B "I"); XL []; XN 2; XN 0; XN 0; XN 1;
                                          XL [XL [XB (B "accept-language"); XN 0; XB (B "en")]]];
                                        XL [XB (B "/hi"); XN 3; XN 200; XB (B "P"); XL []; XN 2; XN 0; XN 0; XN 1;
                                          XL [XL [XB (B "x-pub"); XN 0; XB (B "p")]]] ]];
            XL [XB (B "vary"); XL [ XL [XB (B "/./lang"); XL [XL [XB (B "accept-language"); XN 0; XB (B "en")]]];
                                    XL [XB (B "/hi"); XL [XL [XB (B "x-pub"); XN 0; XB (B "p")]]] ]];
            XL [XB (B "report"); XL [XB (B "vary")]];
            XL [XB (B "disable_ims"); XN 0];
            XL [XB (B "ovroutes"); XL [ XL [XB (B "/hi"); XB (B "/./lang")] ]] ];
       XL [ XL [XN 0; XN 1; XB (B "GET"); XB (B "/hi"); XL [XL [XB (B "accept-language"); XB (B "de")]]; XB []];
            XL [XN 0; XN 1; XB (B "GET"); XB (B "/hi");
                XL [XL [XB (B "accept-language"); XB (B "de")]; XL [XB (B "range"); XB (B "bytes=100-200")]]; XB []] ] ].
Definition wire416_route_out_v0 : xval :=
  XL [ XL [XN 200; XL [XL [XB (B "vary"); XB (B "accept-encoding, range, accept-language")]]; XB (B "I|de"); XN 1; XL [XB (B "h0")]];
       XL [XN 416; XL [XL [XB (B "vary"); XB (B "accept-encoding, range, x-pub")]]; XB (B "ERRPAGE"); XN 1; XL []] ].
Definition wire416_route_out : xval :=
  XL [ XL [XN 200; XL [XL [XB (B "vary"); XB (B "accept-encoding, range, accept-language")]]; XB (B "I|de"); XN 1; XL [XB (B "h0")]];
       XL [XN 416; XL [XL [XB (B "vary"); XB (B "accept-encoding, range, accept-language")]]; XB (B "ERRPAGE"); XN 1; XL []] ].

Lemma wire416_route_v0 :
  run_vary_wire_ov_v0 wire416_route_history = wire416_route_out_v0 /\ run_vary_wire wire416_route_history = wire416_route_out.
Proof. split; vm_compute; reflexivity. Qed.

(** the same at the level of [send_v]: the reply advertises the rules of the path it is cached under, the 416 page that
    replaces it those of the request's own path *)
Lemma send_ov_v0_wrong_rules rules_of (err416_body : bytes) q :
  err416_body <> [] ->
  let rp := finishV (fun _ _ => None) (fst q) (mkFat 200 [] (B "page") SP_FULL true) (own_tuple rules_of (lreq q)) true true in
  exists w,
    send_v rules_of (fun _ hs => hs) err416_body true false q (Some (Some (100, 201))) rp = Ok w /\ w_body w <> [] /\
    assoc (B "vary") (rp_headers rp) = Some (vary_text (rules_of (cpath q))) /\
    assoc (B "vary") (w_headers w) = Some (vary_text (rules_of (rq_path (fst q)))).
Proof.
  intros Hb rp. eexists. split; [reflexivity|]. cbn [w_body w_headers]. split; [exact Hb|]. split.
  - subst rp. apply (proj1 (finishV_vary (fun _ _ => None) rules_of (fst q) (lreq q) _ true true)). cbn. discriminate.
  - apply apply_header_settings. exact Hb.
Qed.

(** ------------------------------------------------------------------------------------------
    If-Modified-Since and variants: since the repair 832d735 the 304 needs a fresh date for the cache *entry*
    AND the request's own variant in that entry (before: the date alone, decided before the variant vector was
    looked at).
    ------------------------------------------------------------------------------------------ *)
Lemma get_by_request_same_tuple {A} (v : varied A) r r1 :
  headers_for_request (vr_refs v) r = headers_for_request (vr_refs v) r1 ->
  vr_get_by_request v r = vr_get_by_request v r1.
Proof. unfold vr_get_by_request. intros ->. reflexivity. Qed.

Section Ims.
  Variable hstate : Type.
  Variable compute : hstate -> routed -> bool -> fat * hstate * list bytes.
  Variable cache_on : bool.
  Variable ims_on : bool.
  Variable parse_ims : bytes -> option Z.
  Variable sanitize_ok : request -> bool.
  Variable prime : request -> routed.
  Variable negotiate : request -> fat -> option (N * bytes).
  Variable rules_of : bytes -> list rule.
  Variable dbg : bool.

  Notation own := (own_tuple rules_of).
  Notation serveX := (serveV hstate compute cache_on ims_on parse_ims sanitize_ok prime negotiate rules_of dbg).
  Notation stepX := (stepV hstate compute cache_on ims_on parse_ims sanitize_ok prime negotiate rules_of dbg).

  (** the reply [handle_cache] makes up when the client's date is fresh *)
  Definition reply304 : reply :=
    {| rp_status := 304; rp_headers := []; rp_body := []; rp_identity := []; rp_last_modified := ims_on; rp_from_cache := true |}.

  (** the date condition: an entry for the request's key, a request that passed sanitize, GET or HEAD, and a date
      not older than the *entry's* creation minus one second *)
  Definition ims_hit (c : vcache) (now : N) (r0 : request) (k : key) (e : ventry) (c1 : vcache) : Prop :=
    cache_on = true /\ ims_on = true /\ vlookup (lreq (prime r0)) c now = ((k, Some e), c1) /\
    sanitize_ok r0 = true /\ get_or_head (rq_method (lreq (prime r0))) = true /\
    exists v t, header (B "if-modified-since") (lreq (prime r0)) = Some v /\ parse_ims v = Some t /\
                ims_fresh t (ve_created e) = true.

  (** before the repair 832d735 that was all: the 304 was sent whatever the request's own transformed tuple *)
  Lemma not_modified_before_lookup_v0 c hs now r0 k e c1 :
    ims_hit c now r0 k e c1 ->
    serveV_phase1_v0 hstate cache_on ims_on parse_ims sanitize_ok prime negotiate (c, hs) now r0
    = Ok (inl ((c1, hs), reply304, [], [])).
  Proof.
    intros (Hc & Hi & L & Hs & Hg & v & t & Hh & Hp & Hf).
    unfold serveV_phase1_v0, serveV_phase1_gen. cbv zeta. rewrite Hc. cbn [negb]. rewrite L, Hs, Hg. cbn [andb].
    rewrite Hi, Hh, Hp, Hf. unfold reply304. rewrite Hi. reflexivity.
  Qed.

  Lemma miss_headers {A} (v : varied A) r pos hc :
    vr_get_by_request v r = Ok (Miss pos hc) -> hc = headers_for_request (vr_refs v) r.
  Proof.
    unfold vr_get_by_request. destruct (vr_get v (headers_for_request (vr_refs v) r)) as [[i|i]|e|]; try discriminate.
    - destruct (nth_error (vr_resps v) i); discriminate.
    - intros H; inversion H; reflexivity.
  Qed.

  (** the repaired code: with a fresh date the 304 is sent when the entry holds the variant the request selects — and
      only then: a request whose own transformed tuple is not in the entry runs the handler and gets the response
      computed for itself *)
  Lemma not_modified_needs_variant c hs now r0 k e c1 :
    InvV hstate compute rules_of c -> ims_hit c now r0 k e c1 ->
    (forall p, vr_get_by_request (ve_var e) (lreq (prime r0)) = Ok (Hit p) ->
               serveX (c, hs) now r0 = Ok ((c1, hs), reply304, [], [])) /\
    (forall pos hc, vr_get_by_request (ve_var e) (lreq (prime r0)) = Ok (Miss pos hc) ->
       exists st' rp lg, serveX (c, hs) now r0 = Ok (st', rp, lg, [prime r0]) /\
                         own_reply hstate compute negotiate rules_of (prime r0) rp).
  Proof.
    intros I (Hc & Hi & L & Hs & Hg & v & t & Hh & Hp & Hf). split.
    - intros [f vary] Hhit.
      unfold serveV, serveV_phase1, serveV_phase1_gen. cbv zeta. rewrite Hc. cbn [negb]. rewrite L, Hs, Hg. cbn [andb].
      rewrite Hi, Hh, Hp, Hf, Hhit. cbn [negb orb andb]. unfold reply304. rewrite Hi. reflexivity.
    - intros pos hc Hmiss.
      destruct (vlookup_inv hstate compute rules_of _ _ _ _ _ _ L I) as (I1 & Hk & Hent).
      destruct (Hent e eq_refl) as (_ & _ & Hrefs & _).
      assert (Hpk : parked_ok rules_of (PkVary (prime r0) true k pos hc)).
      { cbn [parked_ok]. split; [exact Hk|]. rewrite (miss_headers _ _ _ _ Hmiss), Hrefs, Hk. reflexivity. }
      destruct (phase2_ok hstate compute cache_on ims_on negotiate rules_of dbg c1 hs now _ I1 Hpk) as (st' & rp & lg & E & _ & Ho & _).
      exists st', rp, lg. split; [|exact Ho].
      unfold serveV, serveV_phase1, serveV_phase1_gen. cbv zeta. rewrite Hc. cbn [negb]. rewrite L, Hs, Hg. cbn [andb].
      rewrite Hmiss, andb_false_r. cbn [snd]. rewrite Hc in E. exact E.
  Qed.

  (** ... but the 304 tells the truth to every client whose copy came out of the entry it is decided on:
      a request with the same path and an equal transformed list would be served the very response the
      earlier request [r1] was served from this entry *)
  Lemma not_modified_same_entry c k e r r1 p :
    InvV hstate compute rules_of c -> pc_find k c = Some e -> kpath k = rq_path r ->
    rq_path r1 = rq_path r -> own r1 = own r ->
    vr_get_by_request (ve_var e) r1 = Ok (Hit p) ->
    vr_get_by_request (ve_var e) r = Ok (Hit p) /\ snd p = own r.
  Proof.
    intros I F Hk Hp Ho Hg. destruct (I k e F) as (_ & _ & Hrefs & _).
    assert (E : headers_for_request (vr_refs (ve_var e)) r = headers_for_request (vr_refs (ve_var e)) r1).
    { rewrite Hrefs, Hk. unfold own_tuple in Ho. rewrite Hp in Ho. symmetry. exact Ho. }
    rewrite (get_by_request_same_tuple (ve_var e) r r1 E). split; [exact Hg|].
    destruct (get_by_request_exact (ve_var e) r1 p Hg) as [_ Hs]. rewrite Hs, <- E, Hrefs, Hk. reflexivity.
  Qed.

  (** ... and an entry never changes under its date: whatever a step does to the value stored under a key
      — insert a first variant, push another one, replace — the new value is dated with the time of the step *)
  Definition dated (now : N) (c c' : vcache) : Prop :=
    forall k, pc_find k c' = pc_find k c \/ pc_find k c' = None \/ exists e', pc_find k c' = Some e' /\ ve_created e' = now.

  Lemma dated_refl now c : dated now c c.
  Proof. intros k. left. reflexivity. Qed.
  Lemma dated_trans now c1 c2 c3 : dated now c1 c2 -> dated now c2 c3 -> dated now c1 c3.
  Proof.
    intros H1 H2 k. destruct (H2 k) as [E | [E | E]].
    - rewrite E. apply H1.
    - right. left. exact E.
    - right. right. exact E.
  Qed.
  Lemma dated_remove now k c : dated now c (pc_remove k c).
  Proof. intros k0. rewrite pc_find_remove. destruct (key_eqb k0 k); [right; left | left]; reflexivity. Qed.
  Lemma dated_insert now k e c : ve_created e = now -> dated now c (pc_insert k e c).
  Proof.
    intros He k0. rewrite pc_find_insert. destruct (key_eqb k0 k); [right; right; exists e; split; [reflexivity | exact He] | left; reflexivity].
  Qed.
  Lemma dated_get_item now now' k c res c' : vget_item k c now' = (res, c') -> dated now c c'.
  Proof.
    unfold vget_item. destruct (pc_find k c) as [e|].
    - destruct (vfresh e now'); intros H; inversion H; subst; [apply dated_refl | apply dated_remove].
    - intros H; inversion H; subst. apply dated_refl.
  Qed.
  Lemma dated_vlookup now now' r c kr c' : vlookup r c now' = (kr, c') -> dated now c c'.
  Proof.
    unfold vlookup. destruct (vget_item (key_pq r) c now') as [[e|] c1] eqn:G1.
    - intros H; inversion H; subst. eapply dated_get_item; eassumption.
    - destruct (vget_item (key_p r) c1 now') as [res2 c2] eqn:G2. intros H; inversion H; subst.
      eapply dated_trans; eapply dated_get_item; eassumption.
  Qed.
  Lemma dated_vrelookup now now' k c kr c' : vrelookup k c now' = (kr, c') -> dated now c c'.
  Proof.
    unfold vrelookup. destruct (vget_item k c now') as [[e|] c1] eqn:G1.
    - intros H; inversion H; subst. eapply dated_get_item; eassumption.
    - destruct k as [p|s i].
      + intros H; inversion H; subst. eapply dated_get_item; eassumption.
      + destruct (vget_item (KPath (firstn i s)) c1 now') as [res2 c2] eqn:G2. intros H; inversion H; subst.
        eapply dated_trans; eapply dated_get_item; eassumption.
  Qed.
  Lemma dated_new_and_cache c1 hs' now r f lg lm_of cached st' rp lg' calls :
    new_and_cache hstate cache_on negotiate rules_of dbg c1 hs' now r f lg lm_of cached = Ok (st', rp, lg', calls) ->
    dated now c1 (fst st').
  Proof.
    unfold new_and_cache. cbv zeta. destruct (vr_new dbg f (lreq r) (rules_of (rq_path (lreq r)))) as [vr|e|]; try discriminate.
    destruct (vr_first vr) as [[f0 vary]|e|]; try discriminate.
    destruct (may_store cache_on (rq_method (lreq r)) f0); intros H; inversion H; subst; cbn [fst].
    - apply dated_insert. reflexivity.
    - apply dated_refl.
  Qed.

  Lemma dated_phase2 c hs now p st' rp lg calls :
    serveV_phase2 hstate compute cache_on ims_on negotiate rules_of dbg c hs now p = Ok (st', rp, lg, calls) ->
    dated now c (fst st').
  Proof.
    destruct p as [r ok | r ok k position headers]; cbn [serveV_phase2].
    - unfold missV. destruct (compute hs r ok) as [[f hs'] lg0]. apply dated_new_and_cache.
    - unfold vary_missing. cbv zeta. destruct (compute hs r ok) as [[f hs'] lg0].
      destruct (vrelookup k c now) as [[k' found'] c2] eqn:L. pose proof (dated_vrelookup now now k c _ _ L) as D.
      destruct found' as [e'|].
      + destruct (vr_get_by_request (ve_var e') (lreq r)) as [[p0 | position' headers'] | e | ]; try discriminate.
        * intros H; inversion H; subst. exact D.
        * destruct (wants_cache cache_on (rq_method (lreq r)) f && (negb (f_spref f =? SP_QUERY) || key_has_query k')
                    && negb (kvarn_none f)).
          2:{ intros H; inversion H; subst. exact D. }
          destruct (vr_push dbg (ve_var e') f position' headers') as [[vr' [f1 vary1]] | e | ]; try discriminate.
          intros H; inversion H; subst. cbn [fst]. eapply dated_trans; [exact D|].
          destruct (N.of_nat (length (f_body f)) <? size_limit); [apply dated_insert; reflexivity | apply dated_refl].
      + intros H. eapply dated_trans; [exact D|]. eapply dated_new_and_cache. exact H.
  Qed.

  Lemma dated_serve c hs now r0 st' rp lg calls :
    serveX (c, hs) now r0 = Ok (st', rp, lg, calls) -> dated now c (fst st').
  Proof.
    unfold serveV, serveV_phase1, serveV_phase1_gen. cbv zeta. destruct (negb cache_on) eqn:Hc; cbn [snd].
    { intros H. eapply dated_phase2. exact H. }
    destruct (vlookup (lreq (prime r0)) c now) as [[k found0] c1] eqn:L. pose proof (dated_vlookup now now _ c _ _ L) as D.
    destruct found0 as [e|].
    2:{ intros H. eapply dated_trans; [exact D|]. eapply dated_phase2. exact H. }
    destruct (sanitize_ok r0 && get_or_head (rq_method (lreq (prime r0)))).
    2:{ intros H. eapply dated_trans; [exact D|]. eapply dated_phase2. exact H. }
    destruct (match (if ims_on then match header (B "if-modified-since") (lreq (prime r0)) with Some v => parse_ims v | None => None end else None)
              with Some t => ims_fresh t (ve_created e) | None => false end
              && (negb true || match vr_get_by_request (ve_var e) (lreq (prime r0)) with Ok (Hit _) => true | _ => false end)).
    { intros H; inversion H; subst. exact D. }
    destruct (vr_get_by_request (ve_var e) (lreq (prime r0))) as [[[f vary] | position headers] | e0 | ]; try discriminate.
    - intros H; inversion H; subst. exact D.
    - intros H. eapply dated_trans; [exact D|]. eapply dated_phase2. exact H.
  Qed.

  Lemma entry_changes_are_dated_lemma st now o st' now' ob calls :
    stepX st now o = Ok (st', now', ob, calls) -> dated now (fst st) (fst st').
  Proof.
    destruct st as [c hs]. destruct o as [r | r | | ms]; cbn [stepV fst].
    - destruct (serveX (c, hs) now r) as [[[[st1 rp] lg] cl] | e | ] eqn:S; try discriminate.
      intros H; inversion H; subst. eapply dated_serve. exact S.
    - intros H; inversion H; subst. cbn [fst]. unfold vclear_page.
      assert (DU : forall r1 c1, dated now' c1 (vclear_uri r1 c1))
        by (intros r1 c1; unfold vclear_uri; eapply dated_trans; apply dated_remove).
      destruct (redirect_target r); [eapply dated_trans; apply DU | apply DU].
    - intros H; inversion H; subst. cbn [fst]. intros k. right. left. reflexivity.
    - intros H; inversion H; subst. apply dated_refl.
  Qed.
End Ims.

(** the 304 for a transformed tuple the server never computed (observed on the real code before the repair 832d735;
    the repaired code computes it):
    GET /v x-a:a; GET /v x-a:zz if-modified-since: start + 100 s; dump; GET /v x-a:zz *)
Definition ims_history : xval :=
  XL [ XL [ XL [XB (B "cache"); XN 1]; XL [XB (B "default_ext"); XN 0];
            XL [XB (B "handlers"); XL [ XL [XB (B "/v"); XN 3; XN 200; XB (B "T0"); XL []; XN 2; XN 0; XN 0; XN 1;
                                          XL [XL [XB (B "x-a"); XN 0; XB (B "dflt")]]] ]];
            XL [XB (B "vary"); XL [ XL [XB (B "/v"); XL [XL [XB (B "x-a"); XN 0; XB (B "dflt")]]] ]];
            XL [XB (B "report"); XL [XB (B "vary")]];
            XL [XB (B "disable_ims"); XN 0] ];
       XL [ XL [XN 0; XN 1; XB (B "GET"); XB (B "/v"); XL [XL [XB (B "x-a"); XB (B "a")]]; XB []];
            XL [XN 0; XN 1; XB (B "GET"); XB (B "/v");
                XL [XL [XB (B "x-a"); XB (B "zz")]; XL [XB (B "if-modified-since"); XB (B "@T+100")]]; XB []];
            XL [XN 4; XB (B "/v")];
            XL [XN 0; XN 1; XB (B "GET"); XB (B "/v"); XL [XL [XB (B "x-a"); XB (B "zz")]]; XB []] ] ].
(** before the repair: 304, nothing computed, the dump shows the only stored variant *)
Definition ims_history_out_v0 : xval :=
  XL [ XL [XN 200; XL [XL [XB (B "vary"); XB (B "accept-encoding, range, x-a")]]; XB (B "T0|a"); XN 1; XB (B "T0|a"); XL [XB (B "h0")]];
       XL [XN 304; XL []; XB []; XN 1; XB []; XL []];
       XL [XL []; XL [XL [XL [XL [XB (B "x-a"); XB (B "a")]]]]];
       XL [XN 200; XL [XL [XB (B "vary"); XB (B "accept-encoding, range, x-a")]]; XB (B "T0|zz"); XN 1; XB (B "T0|zz"); XL [XB (B "h0")]] ].
(** the repaired code: the variant is computed and stored; the last request is a hit *)
Definition ims_history_out : xval :=
  XL [ XL [XN 200; XL [XL [XB (B "vary"); XB (B "accept-encoding, range, x-a")]]; XB (B "T0|a"); XN 1; XB (B "T0|a"); XL [XB (B "h0")]];
       XL [XN 200; XL [XL [XB (B "vary"); XB (B "accept-encoding, range, x-a")]]; XB (B "T0|zz"); XN 1; XB (B "T0|zz"); XL [XB (B "h0")]];
       XL [XL []; XL [XL [XL [XL [XB (B "x-a"); XB (B "a")]]; XL [XL [XB (B "x-a"); XB (B "zz")]]]]];
       XL [XN 200; XL [XL [XB (B "vary"); XB (B "accept-encoding, range, x-a")]]; XB (B "T0|zz"); XN 1; XB (B "T0|zz"); XL []] ].
Lemma ims_unselected_variant_v0 : run_vary_ims_v0 ims_history = ims_history_out_v0 /\ run_vary ims_history = ims_history_out.
Proof. split; vm_compute; reflexivity. Qed.

(** ------------------------------------------------------------------------------------------
    If-Modified-Since over histories: a client that sends back the date it was given for the same URL and
    the same transformed tuple is told "not modified" only while the server would still serve it its copy.
    ------------------------------------------------------------------------------------------ *)
Section Honest.
  Variable hstate : Type.
  Variable compute : hstate -> routed -> bool -> fat * hstate * list bytes.
  Variable cache_on : bool.
  Variable ims_on : bool.
  Variable parse_ims : bytes -> option Z.
  Variable sanitize_ok : request -> bool.
  Variable prime : request -> routed.
  Variable negotiate : request -> fat -> option (N * bytes).
  Variable rules_of : bytes -> list rule.
  Variable dbg : bool.

  Notation own := (own_tuple rules_of).
  Notation stepX := (stepV hstate compute cache_on ims_on parse_ims sanitize_ok prime negotiate rules_of dbg).
  Notation run_stateX := (runV_state hstate compute cache_on ims_on parse_ims sanitize_ok prime negotiate rules_of dbg).

  (** every request of the history happens after the date [L] (the clock moves on after the client got its copy) *)
  Fixpoint later (L now : N) (ops : list op) : Prop :=
    match ops with
    | [] => True
    | OReq _ :: rest => L < now /\ later L now rest
    | OWait ms :: rest => later L (now + ms) rest
    | _ :: rest => later L now rest
    end.

  (** a value that is in the cache after such a history and is dated [L] or earlier was there, under the same
      key, before it: everything the history stored is dated later *)
  Lemma stable_back L ops : forall st now st' now',
    later L now ops -> run_stateX st now ops = Ok (st', now') ->
    forall k e, pc_find k (fst st') = Some e -> ve_created e <= L -> pc_find k (fst st) = Some e.
  Proof.
    induction ops as [|o ops IH]; intros st now st' now' Hl Hr k e Hf Hd; cbn [runV_state] in Hr.
    - inversion Hr; subst. exact Hf.
    - destruct (stepX st now o) as [[[[st1 now1] ob] calls] | e0 | ] eqn:S; try discriminate.
      pose proof (entry_changes_are_dated_lemma hstate compute cache_on ims_on parse_ims sanitize_ok prime negotiate rules_of dbg
                    st now o st1 now1 ob calls S k) as D.
      assert (Hl1 : later L now1 ops /\ (match o with OReq _ => L < now | _ => True end)).
      { destruct o as [r | r | | ms]; cbn [later] in Hl; destruct st as [c hs]; cbn [stepV] in S.
        - destruct (serveV hstate compute cache_on ims_on parse_ims sanitize_ok prime negotiate rules_of dbg (c, hs) now r)
            as [[[[st2 rp] lg] cl] | e1 | ]; try discriminate. inversion S; subst. destruct Hl; auto.
        - inversion S; subst. auto.
        - inversion S; subst. auto.
        - inversion S; subst. auto. }
      destruct Hl1 as [Hl1 Ho].
      pose proof (IH st1 now1 st' now' Hl1 Hr k e Hf Hd) as F1.
      destruct D as [E | [E | (e' & E & Ed)]].
      + rewrite <- E. exact F1.
      + rewrite E in F1. discriminate.
      + rewrite E in F1. inversion F1; subst e'.
        destruct o as [r | r | | ms].
        * lia.
        * (* a clear only removes *)
          destruct st as [c hs]. cbn [stepV] in S. inversion S; subst. cbn [fst] in *.
          assert (RM : forall r1 c1, pc_find k (vclear_uri r1 c1) = Some e -> pc_find k c1 = Some e).
          { intros r1 c1 E1. unfold vclear_uri in E1. rewrite !pc_find_remove in E1.
            destruct (key_eqb k (key_p r1)); [discriminate|]. destruct (key_eqb k (key_pq r1)); [discriminate|]. exact E1. }
          unfold vclear_page in E. destruct (redirect_target r); [apply RM in E|]; apply RM in E; exact E.
        * destruct st as [c hs]. cbn [stepV] in S. inversion S; subst. cbn [fst pc_find] in E. discriminate.
        * cbn [stepV] in S. inversion S; subst. exact E.
  Qed.

  Lemma vget_item_found k c now e c' : vget_item k c now = (Some e, c') -> pc_find k c = Some e /\ c' = c.
  Proof.
    unfold vget_item. destruct (pc_find k c) as [e0|]; [|discriminate].
    destruct (vfresh e0 now); intros H; inversion H; subst; auto.
  Qed.
  (** the entry a lookup finds sits under one of the request's two keys (and stays there) *)
  Lemma vlookup_found r c now k e c1 :
    vlookup r c now = ((k, Some e), c1) -> (k = key_pq r \/ k = key_p r) /\ pc_find k c = Some e /\ pc_find k c1 = Some e.
  Proof.
    unfold vlookup. destruct (vget_item (key_pq r) c now) as [[e1|] c2] eqn:G1.
    - intros H; inversion H; subst. destruct (vget_item_found _ _ _ _ _ G1) as [F ->]. auto.
    - destruct (vget_item (key_p r) c2 now) as [res2 c3] eqn:G2. intros H; inversion H; subst.
      destruct (vget_item_found _ _ _ _ _ G2) as [F ->]. split; [auto|]. split; [|exact F].
      (* the first look-up removed at most the PathQuery key *)
      unfold vget_item in G1. destruct (pc_find (key_pq r) c) as [e0|] eqn:F0.
      + destruct (vfresh e0 now); inversion G1; subst. rewrite pc_find_remove in F.
        destruct (key_eqb (key_p r) (key_pq r)); [discriminate | exact F].
      + inversion G1; subst. exact F.
  Qed.

  (** the client holds the response [f] for its transformed tuple, dated [L]: the cache holds, under one of
      the two keys of the URL, an entry with that variant which is not older than [L] — or no entry at all
      (the response was not stored) *)
  Definition holds_copy (c : vcache) (r : request) (f : fat) (L : N) : Prop :=
    (exists k0 e0, (k0 = key_pq r \/ k0 = key_p r) /\ pc_find k0 c = Some e0 /\
                   vr_get_by_request (ve_var e0) r = Ok (Hit (f, own r)) /\ L <= ve_created e0)
    \/ (pc_find (key_pq r) c = None /\ pc_find (key_p r) c = None).
  (** a URL is cached under one of its two keys only (hosts whose pages do not switch between the preferences
      QueryMatters and Full) *)
  Definition one_key (c : vcache) (r : request) : Prop :=
    pc_find (key_pq r) c = None \/ pc_find (key_p r) c = None.

  Lemma honest_not_modified L c2 hs2 t1 ops2 c3 hs3 t3 r r' f k e c3' :
    InvV hstate compute rules_of c2 -> one_key c2 r -> holds_copy c2 r f L ->
    later L t1 ops2 -> run_stateX (c2, hs2) t1 ops2 = Ok ((c3, hs3), t3) ->
    path_query r' = path_query r -> own r' = own r ->
    vlookup r' c3 t3 = ((k, Some e), c3') -> ve_created e <= L ->
    vr_get_by_request (ve_var e) r' = Ok (Hit (f, own r')).
  Proof.
    intros I Hone Hcopy Hl Hr Hpq Hown Hlk Hd.
    assert (Hp : rq_path r' = rq_path r) by (apply path_query_path; exact Hpq).
    assert (Kpq : key_pq r' = key_pq r) by (unfold key_pq; rewrite Hpq; reflexivity).
    assert (Kp : key_p r' = key_p r) by (unfold key_p; rewrite Hp; reflexivity).
    destruct (vlookup_found _ _ _ _ _ _ Hlk) as (Hk & F3 & _). rewrite Kpq, Kp in Hk.
    pose proof (stable_back L ops2 (c2, hs2) t1 (c3, hs3) t3 Hl Hr k e F3 Hd) as F2. cbn [fst] in F2.
    destruct Hcopy as [(k0 & e0 & Hk0 & F0 & Hhit & _) | [N1 N2]].
    2:{ destruct Hk as [-> | ->]; congruence. }
    assert (k = k0).
    { destruct Hk as [-> | ->], Hk0 as [-> | ->]; try reflexivity; destruct Hone as [N | N]; congruence. }
    subst k0. rewrite F0 in F2. inversion F2; subst e0.
    destruct (I k e F0) as (_ & _ & Hrefs & _).
    assert (Hkp : kpath k = rq_path r) by (destruct Hk as [-> | ->]; [apply kpath_pq | apply kpath_p]).
    assert (E : headers_for_request (vr_refs (ve_var e)) r' = headers_for_request (vr_refs (ve_var e)) r).
    { rewrite Hrefs, Hkp. unfold own_tuple in Hown. rewrite Hp in Hown. exact Hown. }
    rewrite (get_by_request_same_tuple (ve_var e) r' r E), Hhit, Hown. reflexivity.
  Qed.

  (** how a client comes to hold a copy: served from the cache (the date it is given is the entry's) ... *)
  Lemma hit_gives_copy r c now k e c1 f :
    vlookup r c now = ((k, Some e), c1) -> vr_get_by_request (ve_var e) r = Ok (Hit (f, own r)) ->
    holds_copy c1 r f (ve_created e).
  Proof.
    intros Hlk Hhit. destruct (vlookup_found _ _ _ _ _ _ Hlk) as (Hk & _ & F1).
    left. exists k, e. repeat split; try assumption. lia.
  Qed.
  (** ... or computed and stored in the cache (the date it is given is the time of the step, which is the new entry's) *)
  Lemma stored_gives_copy c1 hs' now q f lg lm_of cached st' rp lg' calls :
    let r := lreq q in
    may_store cache_on (rq_method r) f = true ->
    new_and_cache hstate cache_on negotiate rules_of dbg c1 hs' now q f lg lm_of cached = Ok (st', rp, lg', calls) ->
    holds_copy (fst st') r f now /\ rp = finishV negotiate (fst q) f (own r) (lm_of f) cached.
  Proof.
    intros r Hm. unfold new_and_cache. cbv zeta. fold r. rewrite vr_new_eq. cbn [vr_first vr_resps]. rewrite Hm.
    intros H; inversion H; subst; clear H. cbn [fst]. split; [|reflexivity].
    left. exists (insert_key r f), (mkVE (mkVaried (rules_of (rq_path r)) [(f, headers_for_request (rules_of (rq_path r)) r)]) now (lifetime_ms f)).
    split; [unfold insert_key; destruct (f_spref f =? SP_QUERY); auto|].
    split; [rewrite pc_find_insert, key_eqb_refl; reflexivity|].
    cbn [ve_var ve_created]. split; [|lia].
    destruct (get_by_request_sorted (mkVaried (rules_of (rq_path r)) [(f, headers_for_request (rules_of (rq_path r)) r)]) r)
      as [(f0 & Hv & _ & Eg) | (Hv & _)]; cbn [vr_resps vr_refs] in *.
    - repeat constructor.
    - unfold vfind in Hv. cbn [find snd] in Hv. rewrite hc_eqb_refl in Hv. cbn in Hv. inversion Hv; subst f0. exact Eg.
    - unfold vfind in Hv. cbn [find snd] in Hv. rewrite hc_eqb_refl in Hv. discriminate.
  Qed.
  (** ... or computed and pushed into the entry it missed in (the date it is given is the old entry's; the
      entry that now holds its variant is dated with the time of the step) — when the variant is admitted to the
      cache (repairs 8fe98d4, 92a9cd2); one that is not is served and the cache left as it was: the entry does
      not hold the client's tuple, and a later conditional request is recomputed ([not_modified_needs_variant]) *)
  Definition variant_accepted (k : key) (r : request) (f : fat) : bool :=
    wants_cache cache_on (rq_method r) f && (negb (f_spref f =? SP_QUERY) || key_has_query k) && negb (kvarn_none f)
    && (N.of_nat (length (f_body f)) <? size_limit).

  Lemma pushed_gives_copy c hs now q ok k e position headers st' rp lg calls :
    let r := lreq q in
    InvV hstate compute rules_of c -> (k = key_pq r \/ k = key_p r) ->
    pc_find k c = Some e -> vfresh e now = true -> ve_created e <= now ->
    vr_get_by_request (ve_var e) r = Ok (Miss position headers) ->
    vary_missing hstate compute cache_on ims_on negotiate rules_of dbg c hs now q ok k position headers = Ok (st', rp, lg, calls) ->
    let f := fst (fst (compute hs q ok)) in
    rp = finishV negotiate (fst q) f (own r) ims_on true /\
    (if variant_accepted k r f then holds_copy (fst st') r f (ve_created e) else fst st' = c).
  Proof.
    intros r I Hk F Fr Hd Hmiss. unfold vary_missing, variant_accepted. cbv zeta. fold r.
    destruct (compute hs q ok) as [[f hs'] lg0] eqn:C. cbn [fst].
    assert (L : vrelookup k c now = ((k, Some e), c)) by (unfold vrelookup, vget_item; rewrite F, Fr; reflexivity).
    rewrite L. destruct (I k e F) as (S & _ & Hrefs & _).
    assert (Hkp : kpath k = rq_path r) by (destruct Hk as [-> | ->]; [apply kpath_pq | apply kpath_p]).
    destruct (get_by_request_sorted (ve_var e) r S) as [(f0 & _ & _ & Eg) | (_ & LL & G & El & Eg & FL & FG)]; [congruence|].
    assert (Ht : headers_for_request (vr_refs (ve_var e)) r = own r) by (rewrite Hrefs, Hkp; reflexivity).
    rewrite Eg.
    destruct (wants_cache cache_on (rq_method r) f && (negb (f_spref f =? SP_QUERY) || key_has_query k)
              && negb (kvarn_none f)); cbn [andb].
    2:{ intros H; inversion H; subst; clear H. cbn [fst]. rewrite Ht. split; reflexivity. }
    rewrite (push_at dbg (ve_var e) LL G f _ El) by apply headers_for_request_length.
    destruct (N.of_nat (length (f_body f)) <? size_limit).
    2:{ intros H; inversion H; subst; clear H. cbn [fst]. rewrite Ht. split; reflexivity. }
    intros H; inversion H; subst; clear H. cbn [fst].
    split; [rewrite Ht; reflexivity|].
    left. eexists k, _. split; [exact Hk|]. split; [rewrite pc_find_insert, key_eqb_refl; reflexivity|].
    cbn [ve_var ve_created]. split; [|exact Hd].
    set (v' := mkVaried (vr_refs (ve_var e)) (LL ++ (f, headers_for_request (vr_refs (ve_var e)) r) :: G)).
    assert (S' : vsorted (vr_resps v')) by (apply insert_sorted; [rewrite <- El; exact S | exact FL | exact FG]).
    destruct (get_by_request_sorted v' r S') as [(f1 & Hv & _ & Eg1) | (Hv & _)]; cbn [vr_resps vr_refs v'] in Hv.
    - rewrite (vfind_insert LL G f _ _ FL), hc_eqb_refl in Hv. inversion Hv; subst f1.
      cbn [vr_refs v'] in Eg1. rewrite Ht in Eg1. exact Eg1.
    - rewrite (vfind_insert LL G f _ _ FL), hc_eqb_refl in Hv. discriminate.
  Qed.
End Honest.
