(** C09 — proofs about Model/Range.v *)
From KV Require Import Bytes RustInt Range.
From Coq Require Import ZifyBool ZifyNat ZifyN.
Open Scope N_scope.
Arguments N.add : simpl never. Arguments N.sub : simpl never. Arguments N.mul : simpl never.
Arguments N.eqb : simpl never. Arguments N.ltb : simpl never. Arguments N.leb : simpl never.
Arguments N.min : simpl never. Arguments N.of_nat : simpl never. Arguments N.to_nat : simpl never.

Definition denoted (hdr : option bytes) : option (N * N) :=
  match hdr with Some v => parse_range v | None => None end.

Lemma parse_range_bounds v a c : parse_range v = Some (a, c) -> a <= u64_max /\ c <= u64_max.
Proof.
  unfold parse_range.
  destruct (negb (to_str_ok v)); [discriminate|].
  destruct (negb (starts_with _ v)); [discriminate|].
  destruct (existsb _ v); [discriminate|].
  destruct (find_byte c_dash v) as [sep|]; [|discriminate].
  destruct (slice_get 6 sep v) as [f|]; [|discriminate].
  destruct (parse_u64 f) as [first|] eqn:Hf; [|discriminate].
  destruct (slice_get (S sep) (length v) v) as [s|]; [|discriminate].
  destruct (parse_u64 s) as [second|] eqn:Hs; [|discriminate].
  intros H; inversion H; subst. split; eapply parse_uint_le; eassumption.
Qed.

(** Main equation: the code's observable behaviour on a representation equals the
    specification, for every body (that fits in memory), header, status and arithmetic mode. *)
Lemma serve_range_spec_st checked hdr status body :
  N.of_nat (length body) <= u64_max ->
  serve_range checked hdr status body = Ok (range_spec_st status (denoted hdr) body).
Proof.
  intros Hlen. unfold serve_range, sanitize_range, denoted, range_spec_st.
  destruct hdr as [v|].
  2:{ cbn [range_spec apply_range r_status r_content_range r_accept_ranges r_body].
      destruct (N.eqb status 200) eqn:Hs; [|reflexivity].
      apply N.eqb_eq in Hs. subst status. reflexivity. }
  destruct (parse_range v) as [[a c]|] eqn:Hp.
  2:{ cbn [range_spec apply_range r_status r_content_range r_accept_ranges r_body].
      destruct (N.eqb status 200) eqn:Hs; [|reflexivity].
      apply N.eqb_eq in Hs. subst status. reflexivity. }
  apply parse_range_bounds in Hp as [Ha Hc].
  unfold range_spec.
  destruct (N.ltb_spec c a) as [Hlt|Hge].
  - (* a > c : 416 *)
    replace (a <=? c) with false by lia. reflexivity.
  - replace (a <=? c) with true by lia. cbn [andb].
    unfold apply_range.
    set (len := N.of_nat (length body)) in *.
    destruct (N.leb_spec len a) as [Hout|Hin].
    + replace (a <? len) with false by lia. reflexivity.
    + replace (a <? len) with true by lia.
      set (e := if len <=? sat_add_u64 c 1 then len else sat_add_u64 c 1).
      assert (He : e = N.min c (len - 1) + 1).
      { unfold e, sat_add_u64. destruct (N.leb_spec len (N.min (c + 1) u64_max)); lia. }
      unfold sub_u64. replace (1 <=? e) with true by lia. cbn [obind].
      unfold slice_chk, slice_get.
      replace (Nat.leb (N.to_nat a) (N.to_nat e)) with true by lia.
      replace (Nat.leb (N.to_nat e) (length body)) with true by lia.
      cbn [andb obind r_status r_content_range r_accept_ranges r_body]. unfold slice.
      replace (e - 1) with (N.min c (len - 1)) by lia.
      replace (N.to_nat e - N.to_nat a)%nat with (N.to_nat (N.min c (len - 1) - a + 1)) by lia.
      reflexivity.
Qed.

Lemma range_spec_st_200 range body : range_spec_st 200 range body = range_spec range body.
Proof.
  unfold range_spec_st. destruct (range_spec range body) as [|r]; [reflexivity|].
  destruct r; reflexivity.
Qed.

Lemma serve_range_spec checked hdr body :
  N.of_nat (length body) <= u64_max ->
  serve_range checked hdr 200 body = Ok (range_spec (denoted hdr) body).
Proof. intros H. rewrite serve_range_spec_st by assumption. rewrite range_spec_st_200. reflexivity. Qed.

(** No panic, whatever the header and the body (C02 uses this). *)
Lemma serve_range_no_panic checked hdr body :
  N.of_nat (length body) <= u64_max -> serve_range checked hdr 200 body <> Panic.
Proof. intros H. rewrite serve_range_spec by assumption. discriminate. Qed.

(** ---- the header syntax accepted by the code is exactly the declarative one ---- *)

Lemma parse_digits_value max acc s n :
  parse_digits max acc s = Some n -> all_digits s = true /\ digits_value acc s = n.
Proof.
  revert acc; induction s as [|c r IH]; intros acc H; cbn [parse_digits] in H.
  - inversion H; subst. split; reflexivity.
  - unfold all_digits in *. cbn [forallb digits_value].
    destruct (is_digit c); [|discriminate].
    destruct (acc * 10 + (c - 48) <=? max); [|discriminate].
    apply IH in H as [H1 H2]. split; [exact H1 | exact H2].
Qed.

Lemma digits_value_mono acc s : acc <= digits_value acc s.
Proof.
  revert acc; induction s as [|c r IH]; intros acc; cbn [digits_value]; [lia|].
  specialize (IH (acc * 10 + (c - 48))). lia.
Qed.

Lemma parse_digits_complete max acc s :
  all_digits s = true -> digits_value acc s <= max -> parse_digits max acc s = Some (digits_value acc s).
Proof.
  revert acc; induction s as [|c r IH]; intros acc Hd Hv; cbn [parse_digits digits_value] in *.
  - reflexivity.
  - unfold all_digits in Hd. cbn [forallb] in Hd. apply andb_true_iff in Hd as [Hc Hr].
    rewrite Hc.
    pose proof (digits_value_mono (acc * 10 + (c - 48)) r).
    replace (acc * 10 + (c - 48) <=? max) with true by lia.
    apply IH; assumption.
Qed.

Lemma is_digit_not_plus c : is_digit c = true -> N.eqb c 43 = false.
Proof. unfold is_digit. lia. Qed.

Lemma parse_u64_number s n : parse_u64 s = Some n <-> number s n.
Proof.
  unfold parse_u64, parse_uint, number. split.
  - destruct s as [|c r]; [discriminate|].
    destruct (N.eqb_spec c 43) as [->|Hne].
    + destruct r as [|d r']; [discriminate|]. intros H.
      pose proof (parse_digits_le _ _ _ _ H (N.le_0_l _)).
      apply parse_digits_value in H as [H1 H2].
      exists (d :: r'). repeat split; auto. discriminate.
    + intros H.
      pose proof (parse_digits_le _ _ _ _ H (N.le_0_l _)).
      apply parse_digits_value in H as [H1 H2].
      exists (c :: r). repeat split; auto. discriminate.
  - intros (ds & Hs & Hne & Hd & Hv & Hle).
    destruct ds as [|d ds']; [congruence|].
    assert (Hd0 : is_digit d = true).
    { unfold all_digits in Hd. cbn [forallb] in Hd. apply andb_true_iff in Hd as [? ?]; assumption. }
    destruct Hs as [-> | ->].
    + rewrite (is_digit_not_plus _ Hd0). rewrite <- Hv. apply parse_digits_complete; [assumption | lia].
    + rewrite N.eqb_refl. rewrite <- Hv. apply parse_digits_complete; [assumption | lia].
Qed.

Lemma number_chars s n : number s n -> forallb (fun c => is_digit c || N.eqb c 43) s = true.
Proof.
  intros (ds & Hs & _ & Hd & _).
  assert (H : forallb (fun c => is_digit c || N.eqb c 43) ds = true).
  { unfold all_digits in Hd. rewrite forallb_forall in *. intros x Hx. rewrite (Hd x Hx). reflexivity. }
  destruct Hs as [-> | ->]; [exact H|]. cbn [forallb]. rewrite H. rewrite N.eqb_refl. rewrite orb_true_r. reflexivity.
Qed.

Lemma find_byte_app_notin c s t :
  mem_byte c s = false -> find_byte c (s ++ c :: t) = Some (length s).
Proof.
  induction s as [|x s IH]; cbn [mem_byte find_byte app length]; intros H.
  - rewrite N.eqb_refl. reflexivity.
  - apply orb_false_iff in H as [H1 H2]. rewrite H1. rewrite (IH H2). reflexivity.
Qed.

Lemma find_byte_split c s i :
  find_byte c s = Some i -> s = firstn i s ++ c :: skipn (S i) s /\ mem_byte c (firstn i s) = false.
Proof.
  revert i; induction s as [|x s IH]; intros i; cbn [find_byte]; [discriminate|].
  destruct (N.eqb_spec x c) as [->|Hne].
  - intros H; inversion H; subst. split; reflexivity.
  - destruct (find_byte c s) as [j|]; [|discriminate]. cbn [option_map]. intros H; inversion H; subst.
    destruct (IH j eq_refl) as [H1 H2]. cbn [firstn skipn app mem_byte]. split.
    + f_equal. exact H1.
    + rewrite H2. apply N.eqb_neq in Hne. rewrite Hne. reflexivity.
Qed.

Lemma forallb_digitplus_props s :
  forallb (fun c => is_digit c || N.eqb c 43) s = true ->
  mem_byte c_dash s = false /\ forallb visible s = true /\
  existsb (fun c => (c =? c_comma) || (c =? c_space)) s = false.
Proof.
  induction s as [|x s IH]; cbn [forallb mem_byte existsb]; [auto|].
  intros H. apply andb_true_iff in H as [Hx Hs]. destruct (IH Hs) as (H1 & H2 & H3).
  rewrite H1, H2, H3. unfold is_digit, visible, c_dash, c_comma, c_space in *. repeat split; lia.
Qed.

Lemma forallb_app' {A} (f : A -> bool) l1 l2 : forallb f (l1 ++ l2) = forallb f l1 && forallb f l2.
Proof. induction l1 as [|x l IH]; cbn [forallb app]; [reflexivity|]. rewrite IH. apply andb_assoc. Qed.
Lemma existsb_app' {A} (f : A -> bool) l1 l2 : existsb f (l1 ++ l2) = existsb f l1 || existsb f l2.
Proof. induction l1 as [|x l IH]; cbn [existsb app]; [reflexivity|]. rewrite IH. apply orb_assoc. Qed.

Lemma skipn_app_exact {A} (l1 l2 : list A) : skipn (length l1) (l1 ++ l2) = l2.
Proof. induction l1; cbn; auto. Qed.
Lemma firstn_app_exact {A} (l1 l2 : list A) : firstn (length l1) (l1 ++ l2) = l1.
Proof. induction l1; cbn; f_equal; auto. Qed.

Definition prefix6 := B "bytes=".

Lemma parse_range_complete v a c : range_syntax v a c -> parse_range v = Some (a, c).
Proof.
  intros (sa & sb & Hv & Ha & Hc).
  pose proof (number_chars _ _ Ha) as Hca. pose proof (number_chars _ _ Hc) as Hcb.
  destruct (forallb_digitplus_props _ Hca) as (Ha1 & Ha2 & Ha3).
  destruct (forallb_digitplus_props _ Hcb) as (Hb1 & Hb2 & Hb3).
  apply parse_u64_number in Ha. apply parse_u64_number in Hc.
  unfold parse_range. subst v.
  assert (Hvis : to_str_ok (B "bytes=" ++ sa ++ [c_dash] ++ sb) = true).
  { unfold to_str_ok. rewrite !forallb_app'. rewrite Ha2, Hb2. reflexivity. }
  rewrite Hvis. cbn [negb].
  assert (Hst : starts_with (B "bytes=") (B "bytes=" ++ sa ++ [c_dash] ++ sb) = true).
  { apply starts_with_app. eexists; reflexivity. }
  rewrite Hst. cbn [negb].
  assert (Hex : existsb (fun c0 => (c0 =? c_comma) || (c0 =? c_space)) (B "bytes=" ++ sa ++ [c_dash] ++ sb) = false).
  { rewrite !existsb_app'. rewrite Ha3, Hb3. reflexivity. }
  rewrite Hex.
  assert (Hfind : find_byte c_dash (B "bytes=" ++ sa ++ [c_dash] ++ sb) = Some (6 + length sa)%nat).
  { replace (B "bytes=" ++ sa ++ [c_dash] ++ sb) with ((B "bytes=" ++ sa) ++ c_dash :: sb)
      by (rewrite <- app_assoc; reflexivity).
    rewrite find_byte_app_notin.
    - rewrite app_length. reflexivity.
    - assert (Hm : forall l1 l2, mem_byte c_dash (l1 ++ l2) = mem_byte c_dash l1 || mem_byte c_dash l2).
      { intros l1 l2. induction l1 as [|x l IH]; cbn [mem_byte app]; [reflexivity|]. rewrite IH. apply orb_assoc. }
      rewrite Hm, Ha1. reflexivity. }
  rewrite Hfind.
  assert (Hlen : length (B "bytes=" ++ sa ++ [c_dash] ++ sb) = (6 + length sa + 1 + length sb)%nat).
  { rewrite !app_length. cbn [length B bytes_of_string]. lia. }
  unfold slice_get. rewrite Hlen.
  replace (Nat.leb 6 (6 + length sa)) with true by lia.
  replace (Nat.leb (6 + length sa) (6 + length sa + 1 + length sb)) with true by lia.
  cbn [andb].
  assert (Hs1 : slice 6 (6 + length sa) (B "bytes=" ++ sa ++ [c_dash] ++ sb) = sa).
  { unfold slice. replace (6 + length sa - 6)%nat with (length sa) by lia.
    change 6%nat with (length (B "bytes=")). rewrite skipn_app_exact. apply firstn_app_exact. }
  rewrite Hs1, Ha.
  replace (Nat.leb (S (6 + length sa)) (6 + length sa + 1 + length sb)) with true by lia.
  replace (Nat.leb (6 + length sa + 1 + length sb) (6 + length sa + 1 + length sb)) with true by lia.
  cbn [andb].
  assert (Hs2 : slice (S (6 + length sa)) (6 + length sa + 1 + length sb) (B "bytes=" ++ sa ++ [c_dash] ++ sb) = sb).
  { unfold slice.
    replace (B "bytes=" ++ sa ++ [c_dash] ++ sb) with ((B "bytes=" ++ sa ++ [c_dash]) ++ sb)
      by (rewrite <- !app_assoc; reflexivity).
    replace (S (6 + length sa)) with (length (B "bytes=" ++ sa ++ [c_dash]))
      by (rewrite !app_length; cbn [length B bytes_of_string]; lia).
    rewrite skipn_app_exact.
    replace (6 + length sa + 1 + length sb - length (B "bytes=" ++ sa ++ [c_dash]))%nat with (length sb)
      by (rewrite !app_length; cbn [length B bytes_of_string]; lia).
    rewrite <- (app_nil_r sb) at 2. apply firstn_app_exact. }
  rewrite Hs2, Hc. reflexivity.
Qed.

Lemma parse_range_sound v a c : parse_range v = Some (a, c) -> range_syntax v a c.
Proof.
  unfold parse_range.
  destruct (negb (to_str_ok v)); [discriminate|].
  destruct (starts_with (B "bytes=") v) eqn:Hst; [|discriminate]. cbn [negb].
  destruct (existsb _ v); [discriminate|].
  destruct (find_byte c_dash v) as [sep|] eqn:Hf; [|discriminate].
  unfold slice_get.
  destruct (Nat.leb 6 sep && Nat.leb sep (length v))%bool eqn:Hb1; [|discriminate].
  destruct (parse_u64 (slice 6 sep v)) as [first|] eqn:Hp1; [|discriminate].
  destruct (Nat.leb (S sep) (length v) && Nat.leb (length v) (length v))%bool eqn:Hb2; [|discriminate].
  destruct (parse_u64 (slice (S sep) (length v) v)) as [second|] eqn:Hp2; [|discriminate].
  intros H; inversion H; subst first second.
  apply starts_with_app in Hst as [rest Hrest].
  apply find_byte_split in Hf as [Hsplit _].
  exists (slice 6 sep v), (slice (S sep) (length v) v).
  split; [| split; apply parse_u64_number; assumption].
  assert (H6 : (6 <= sep)%nat) by lia.
  rewrite Hsplit at 1.
  unfold slice. rewrite (app_assoc (B "bytes=")). f_equal.
  - (* firstn sep v = "bytes=" ++ firstn (sep-6) (skipn 6 v) *)
    rewrite Hrest. change 6%nat with (length (B "bytes=")).
    rewrite skipn_app_exact.
    replace sep with (length (B "bytes=") + (sep - length (B "bytes=")))%nat at 1
      by (cbn [length B bytes_of_string]; lia).
    rewrite firstn_app_2. reflexivity.
  - cbn [app]. f_equal. rewrite firstn_all2; [reflexivity|]. rewrite skipn_length. lia.
Qed.

Lemma parse_range_syntax v a c : parse_range v = Some (a, c) <-> range_syntax v a c.
Proof. split; [apply parse_range_sound | apply parse_range_complete]. Qed.

(** ---- tiling ---- *)
Definition reply_body (r : range_reply) : bytes :=
  match r with R416 => [] | RResp r => r_body r end.

Fixpoint tile_ranges (start : N) (ws : list N) : list (N * N) :=
  match ws with
  | [] => []
  | w :: r => (start, start + w - 1) :: tile_ranges (start + w) r
  end.

Fixpoint sumN (l : list N) : N := match l with [] => 0 | x :: r => x + sumN r end.

Lemma skipn_plus {A} (a c : nat) (l : list A) : skipn (a + c) l = skipn c (skipn a l).
Proof. revert l; induction a as [|a IH]; intros l; [reflexivity|]. destruct l; cbn [skipn plus]; [destruct c; reflexivity | apply IH]. Qed.

Lemma tiling_from body start ws :
  Forall (fun w => 0 < w) ws ->
  start + sumN ws = N.of_nat (length body) ->
  concat (map (fun r => reply_body (range_spec (Some r) body)) (tile_ranges start ws))
  = skipn (N.to_nat start) body.
Proof.
  revert start; induction ws as [|w ws IH]; intros start Hpos Hsum; cbn [tile_ranges map concat sumN] in *.
  - rewrite skipn_all2; [reflexivity | lia].
  - inversion Hpos as [|? ? Hw Hrest]; subst.
    rewrite IH by (assumption || lia).
    unfold range_spec.
    replace (start <=? start + w - 1) with true by lia.
    replace (start <? N.of_nat (length body)) with true by lia.
    cbn [andb reply_body r_body].
    replace (N.min (start + w - 1) (N.of_nat (length body) - 1)) with (start + w - 1) by lia.
    replace (N.to_nat (start + w - 1 - start + 1)) with (N.to_nat w) by lia.
    replace (N.to_nat (start + w)) with (N.to_nat start + N.to_nat w)%nat by lia.
    rewrite skipn_plus. apply firstn_skipn.
Qed.

Lemma tiling body ws :
  Forall (fun w => 0 < w) ws -> sumN ws = N.of_nat (length body) ->
  concat (map (fun r => reply_body (range_spec (Some r) body)) (tile_ranges 0 ws)) = body.
Proof. intros H1 H2. rewrite tiling_from by (assumption || lia). reflexivity. Qed.
