(** C18 — proofs about Model/Buffers.v *)
From KV Require Import Bytes RustInt Buffers.
