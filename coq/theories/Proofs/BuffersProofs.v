(** C18 — proofs about Model/Buffers.v *)
From KV Require Import Bytes RustInt Buffers.
From Coq Require Import ZifyBool ZifyNat ZifyN.
Open Scope N_scope.
Arguments N.add : simpl never. Arguments N.sub : simpl never. Arguments N.mul : simpl never.
Arguments N.eqb : simpl never. Arguments N.ltb : simpl never. Arguments N.leb : simpl never.
Arguments N.min : simpl never. Arguments N.of_nat : simpl never. Arguments N.to_nat : simpl never.
Arguments Nat.div : simpl never. Arguments Nat.mul : simpl never. Arguments Nat.max : simpl never.

(** The only thing assumed of the allocation layer. *)
Definition grow_ok (grow : nat -> nat -> nat) : Prop := forall cap need, (need <= grow cap need)%nat.

Lemma grow_vec_ok : grow_ok grow_vec.
Proof. intros c n. unfold grow_vec. lia. Qed.

(** ---- lists ---- *)
Lemma fresh_length junk d n : length (fresh junk d n) = n.
Proof. unfold fresh. rewrite map_length, seq_length. reflexivity. Qed.

Lemma firstn_app_le {A} n (l r : list A) : (n <= length l)%nat -> firstn n (l ++ r) = firstn n l.
Proof.
  intros H. rewrite firstn_app. replace (n - length l)%nat with O by lia.
  cbn [firstn]. apply app_nil_r.
Qed.

Lemma firstn_app_ge {A} n (l r : list A) : (length l <= n)%nat -> firstn n (l ++ r) = l ++ firstn (n - length l) r.
Proof. intros H. rewrite firstn_app. rewrite firstn_all2 by lia. reflexivity. Qed.

Lemma skipn_app_ge {A} n (l r : list A) : (length l <= n)%nat -> skipn n (l ++ r) = skipn (n - length l) r.
Proof. intros H. rewrite skipn_app. rewrite skipn_all2 by lia. reflexivity. Qed.

Lemma skipn_app_le {A} n (l r : list A) : (n <= length l)%nat -> skipn n (l ++ r) = skipn n l ++ r.
Proof.
  intros H. rewrite skipn_app. replace (n - length l)%nat with O by lia. reflexivity.
Qed.

Lemma firstn_firstn_le {A} n m (l : list A) : (n <= m)%nat -> firstn n (firstn m l) = firstn n l.
Proof. intros H. rewrite firstn_firstn. f_equal. lia. Qed.

Lemma firstn_len_le {A} n (l : list A) : (n <= length l)%nat -> length (firstn n l) = n.
Proof. intros H. rewrite firstn_length. lia. Qed.

Lemma skipn_firstn_slice {A} lo hi (l : list A) :
  (lo <= hi)%nat -> firstn (hi - lo) (skipn lo l) = skipn lo (firstn hi l).
Proof.
  intros H. rewrite skipn_firstn_comm. reflexivity.
Qed.

(** ---- BytesMut primitives ---- *)
Lemma set_len_ok b n : (n <= capacity b)%nat -> bm_set_len b n = Ok (mkbuf (b_data b) n).
Proof. intros H. unfold bm_set_len. replace (Nat.leb n (capacity b)) with true by lia. reflexivity. Qed.

Lemma write_at_ok b lo src :
  (lo + length src <= b_len b)%nat ->
  bm_write_at b lo (lo + length src) src
  = Ok (mkbuf (firstn lo (b_data b) ++ src ++ skipn (lo + length src) (b_data b)) (b_len b)).
Proof.
  intros H. unfold bm_write_at.
  replace (Nat.leb lo (lo + length src)) with true by lia.
  replace (Nat.leb (lo + length src) (b_len b)) with true by lia.
  replace (Nat.eqb (length src) (lo + length src - lo)) with true by lia.
  reflexivity.
Qed.

(** [reserve]: the visible bytes survive, the visible length is unchanged, the room is there. *)
Lemma reserve_spec grow junk b add :
  grow_ok grow -> wf b ->
  let b1 := bm_reserve grow junk b add in
  b_len b1 = b_len b /\ contents b1 = contents b /\ (b_len b + add <= capacity b1)%nat /\
  (capacity b <= capacity b1)%nat.
Proof.
  intros G W. unfold bm_reserve. unfold wf in W.
  destruct (Nat.leb add (capacity b - b_len b)) eqn:E.
  - cbn zeta. repeat split; try reflexivity; lia.
  - cbn zeta. unfold capacity, contents in *. cbn [b_data b_len].
    pose proof (G (length (b_data b)) (b_len b + add)%nat) as Hg.
    assert (Hl : length (firstn (b_len b) (b_data b)) = b_len b) by (apply firstn_len_le; lia).
    repeat split.
    + rewrite firstn_app_le by lia. apply firstn_firstn_le. lia.
    + rewrite app_length, fresh_length, Hl. lia.
    + rewrite app_length, fresh_length, Hl. lia.
Qed.

(** When the buffer is full ([len = capacity], the state [WriteableBytes] and
    [read_to_end_or_max] keep it in) a reserve of a positive amount appends fresh bytes. *)
Lemma reserve_full grow junk b add :
  grow_ok grow -> b_len b = capacity b -> (0 < add)%nat ->
  exists extra, bm_reserve grow junk b add = mkbuf (b_data b ++ extra) (b_len b) /\ (add <= length extra)%nat.
Proof.
  intros G F P. unfold bm_reserve. replace (Nat.leb add (capacity b - b_len b)) with false by lia.
  unfold contents. rewrite F. unfold capacity. rewrite firstn_all.
  eexists. split; [reflexivity|]. rewrite fresh_length.
  pose proof (G (length (b_data b)) (length (b_data b) + add)%nat). lia.
Qed.

(** ---- WriteableBytes ---- *)
(** Representation invariant: the inner [BytesMut]'s length is its capacity, the logical
    length is within it, and the first [w_len] bytes are exactly what was written. *)
Definition winv (w : wbuf) (pre : bytes) : Prop :=
  b_len (w_bytes w) = capacity (w_bytes w) /\
  (w_len w <= capacity (w_bytes w))%nat /\
  firstn (w_len w) (b_data (w_bytes w)) = pre.

Lemma div32_ge n : (n <= n * 3 / 2)%nat.
Proof. apply Nat.div_le_lower_bound; lia. Qed.

Lemma wb_write_inv grow junk w pre s :
  grow_ok grow -> winv w pre ->
  exists w', wb_write grow junk w s = Ok w' /\ winv w' (pre ++ s).
Proof.
  intros G (F & L & P). unfold wb_write.
  destruct w as [b len]. cbn [w_bytes w_len] in *.
  assert (Hstep : forall b0 : buf,
            b_len b0 = capacity b0 -> (len + length s <= capacity b0)%nat ->
            firstn len (b_data b0) = pre ->
            exists w', obind (bm_write_at b0 len (len + length s) s)
                         (fun b' => Ok (mkwb b' (len + length s))) = Ok w' /\ winv w' (pre ++ s)).
  { intros b0 F0 L0 P0. rewrite write_at_ok by lia. cbn [obind].
    eexists. split; [reflexivity|]. unfold winv, capacity in *. cbn [w_bytes w_len b_data b_len].
    assert (Hf : length (firstn len (b_data b0)) = len) by (apply firstn_len_le; lia).
    repeat split.
    - rewrite !app_length, skipn_length, Hf. lia.
    - rewrite !app_length, skipn_length, Hf. lia.
    - rewrite app_assoc. rewrite firstn_app_le by (rewrite app_length, Hf; lia).
      rewrite firstn_all2 by (rewrite app_length, Hf; lia). rewrite P0. reflexivity. }
  destruct (Nat.ltb (capacity b) (len + length s)) eqn:E.
  - destruct (reserve_full grow junk b (length s * 3 / 2 + 128) G F ltac:(lia)) as (extra & -> & Hex).
    rewrite set_len_ok by (cbn; lia). cbn [obind].
    unfold capacity at 1. cbn [b_data].
    apply Hstep.
    + reflexivity.
    + unfold capacity in *. cbn [b_data]. rewrite app_length. pose proof (div32_ge (length s)). lia.
    + cbn [b_data]. rewrite firstn_app_le by (unfold capacity in L; lia). exact P.
  - cbn [obind]. apply Hstep; try assumption. apply Nat.ltb_ge in E. lia.
Qed.

Lemma wb_writes_inv grow junk l : forall w pre,
  grow_ok grow -> winv w pre ->
  exists w', wb_writes grow junk w l = Ok w' /\ winv w' (pre ++ concat l).
Proof.
  induction l as [|s r IH]; intros w pre G I; cbn [wb_writes concat].
  - exists w. rewrite app_nil_r. auto.
  - destruct (wb_write_inv grow junk w pre s G I) as (w1 & -> & I1). cbn [obind].
    destruct (IH w1 (pre ++ s) G I1) as (w2 & -> & I2). exists w2. rewrite app_assoc. auto.
Qed.

Lemma wb_into_inner_inv w pre :
  winv w pre -> exists b, wb_into_inner w = Ok b /\ contents b = pre /\ wf b.
Proof.
  intros (F & L & P). unfold wb_into_inner. rewrite set_len_ok by lia.
  eexists. split; [reflexivity|]. unfold contents, wf, capacity in *. cbn [b_data b_len]. auto.
Qed.

(** [From<BytesMut>] establishes the invariant for any well-formed [BytesMut]. *)
Lemma wb_from_inv b : wf b -> exists w, wb_from b = Ok w /\ winv w (contents b).
Proof.
  intros W. unfold wb_from. rewrite set_len_ok by lia. cbn [obind].
  eexists. split; [reflexivity|]. unfold winv, wf, contents, capacity in *. cbn. auto.
Qed.

Lemma bm_of_wf junk init spare : wf (bm_of junk init spare) /\ contents (bm_of junk init spare) = init.
Proof.
  unfold wf, contents, capacity, bm_of. cbn [b_data b_len]. split.
  - rewrite app_length. lia.
  - rewrite firstn_app_le by lia. apply firstn_all.
Qed.

Lemma wb_make_inv junk c : exists w, wb_make junk c = Ok w /\ winv w (wctor_init c).
Proof.
  destruct c as [|c|init spare]; cbn [wb_make wctor_init].
  - exists wb_new. split; [reflexivity|]. unfold winv, wb_new, capacity. cbn. auto.
  - unfold wb_with_capacity. rewrite set_len_ok by lia. cbn [obind].
    eexists. split; [reflexivity|]. unfold winv, capacity. cbn [w_bytes w_len b_data b_len firstn].
    repeat split. lia.
  - destruct (bm_of_wf junk init spare) as [W C]. destruct (wb_from_inv _ W) as (w & -> & I).
    exists w. rewrite C in I. auto.
Qed.

(** writeable_is_append *)
Lemma wb_session_spec grow junk c l :
  grow_ok grow -> wb_session grow junk c l = Ok (wctor_init c ++ concat l).
Proof.
  intros G. unfold wb_session.
  destruct (wb_make_inv junk c) as (w & -> & I). cbn [obind].
  destruct (wb_writes_inv grow junk l w _ G I) as (w' & -> & I'). cbn [obind].
  destruct (wb_into_inner_inv w' _ I') as (b & -> & C & _). cbn [obind]. rewrite C. reflexivity.
Qed.

(** the same for an arbitrary well-formed [BytesMut] handed to [From] (any capacity, any junk
    behind its length) *)
Lemma wb_from_session_spec grow junk b l :
  grow_ok grow -> wf b ->
  exists w w' b', wb_from b = Ok w /\ wb_writes grow junk w l = Ok w' /\ wb_into_inner w' = Ok b' /\
                  wf b' /\ contents b' = contents b ++ concat l.
Proof.
  intros G W. destruct (wb_from_inv b W) as (w & Hw & I).
  destruct (wb_writes_inv grow junk l w _ G I) as (w' & Hw' & I').
  destruct (wb_into_inner_inv w' _ I') as (b' & Hb & C & W').
  exists w, w', b'. auto.
Qed.

(** every intermediate state is reachable without panic and keeps the logical length equal
    to the number of bytes written *)
Lemma winv_len w pre : winv w pre -> w_len w = length pre.
Proof. intros (F & L & P). subst pre. symmetry. apply firstn_len_le. unfold capacity in L. lia. Qed.

(** ---- BytesCow::replace ---- *)
Definition fits (b : buf) (rep : bytes) : Prop :=
  2 * N.of_nat (b_len b) + N.of_nat (length rep) <= u64_max.

Lemma add_u64_fit checked a c : a + c <= u64_max -> add_u64 checked a c = Ok (a + c).
Proof. intros H. unfold add_u64. replace (a + c <=? u64_max) with true by lia. reflexivity. Qed.

Lemma add_u64_cases checked a c : (exists v, add_u64 checked a c = Ok v) \/ add_u64 checked a c = Panic.
Proof. unfold add_u64. destruct (a + c <=? u64_max); [eauto|]. destruct checked; eauto. Qed.

Lemma firstn_exact {A} (l r : list A) n : n = length l -> firstn n (l ++ r) = l.
Proof. intros ->. rewrite firstn_app_le by lia. apply firstn_all. Qed.

Lemma replace_in_bounds grow junk checked b s e rep :
  grow_ok grow -> wf b -> fits b rep -> s <= e -> e <= N.of_nat (b_len b) ->
  exists b', cow_replace grow junk checked b s e rep = Ok b' /\ wf b' /\
             contents b' = splice (N.to_nat s) (N.to_nat e) rep (contents b).
Proof.
  intros G W Fit Hse Hel. unfold cow_replace, fits in *.
  replace (e <? s) with false by lia.
  set (rl := N.of_nat (length rep)) in *.
  set (lc := rl - (e - s)).
  destruct (reserve_spec grow junk b (N.to_nat lc) G W) as (Hlen & Hcont & Hcap & _).
  set (b1 := bm_reserve grow junk b (N.to_nat lc)) in *.
  unfold wf in W. set (len := b_len b) in *.
  assert (Hbody : length (contents b) = len) by (unfold contents; apply firstn_len_le; exact W).
  set (body := contents b) in *.
  destruct b1 as [d1 l1]. unfold contents, capacity in Hcont, Hcap. cbn [b_data b_len] in *. subst l1.
  assert (Hd : d1 = body ++ skipn len d1) by (rewrite <- Hcont; symmetry; apply firstn_skipn).
  set (tl := skipn len d1) in *. clearbody tl. subst d1. clear Hcont.
  rewrite app_length, Hbody in Hcap.
  rewrite (add_u64_fit checked (N.of_nat len) rl) by lia. cbn [obind].
  rewrite (add_u64_fit checked (N.of_nat len + rl) s) by lia. cbn [obind].
  replace (N.of_nat len + rl + s <? e) with false by lia.
  rewrite (add_u64_fit checked (N.of_nat len) lc) by lia. cbn [obind].
  unfold bm_set_len_N. unfold capacity. cbn [b_data].
  replace (N.of_nat len + lc <=? N.of_nat (length (body ++ tl))) with true by (rewrite app_length; lia).
  rewrite set_len_ok by (unfold capacity; cbn [b_data]; rewrite app_length; lia). cbn [obind b_data].
  rewrite (add_u64_fit checked s rl) by lia. cbn [obind].
  unfold bm_copy_within. cbn [b_len b_data].
  replace (e <=? N.of_nat len) with true by lia.
  replace (N.of_nat len <=? N.of_nat (N.to_nat (N.of_nat len + lc))) with true by lia. cbn [andb].
  replace (s + rl <=? N.of_nat (N.to_nat (N.of_nat len + lc)) - (N.of_nat len - e)) with true by lia.
  cbn [obind].
  unfold bm_write_at_N. cbn [b_len b_data].
  replace (s <=? s + rl) with true by lia.
  replace (s + rl <=? N.of_nat (N.to_nat (N.of_nat len + lc))) with true by lia. cbn [andb].
  set (s' := N.to_nat s). set (e' := N.to_nat e). set (r := length rep).
  replace (N.to_nat (s + rl)) with (s' + r)%nat by lia.
  replace (N.to_nat (N.of_nat len - e)) with (len - e')%nat by lia.
  replace (N.to_nat (N.of_nat len)) with len by lia.
  set (d := body ++ tl).
  assert (Hdl : (s' + r <= length d)%nat) by (unfold d; rewrite app_length; lia).
  set (d3 := firstn (s' + r) d ++ slice e' len d ++ skipn (s' + r + (len - e')) d).
  assert (H1 : firstn s' d3 = firstn s' body).
  { unfold d3. rewrite firstn_app_le by (rewrite firstn_len_le; lia).
    rewrite firstn_firstn_le by lia. unfold d. apply firstn_app_le. lia. }
  assert (H2 : skipn (s' + r) d3 = skipn e' body ++ skipn (s' + r + (len - e')) d).
  { unfold d3. rewrite skipn_app_ge by (rewrite firstn_len_le; lia).
    rewrite firstn_len_le by lia. replace (s' + r - (s' + r))%nat with O by lia. cbn [skipn].
    f_equal. unfold slice. rewrite <- skipn_firstn_comm. f_equal. unfold d. apply firstn_exact. lia. }
  change (s' + r)%nat with (s' + length rep)%nat at 1.
  rewrite write_at_ok.
  2:{ cbn [b_len]. lia. }
  fold r.
  cbn [obind b_data b_len]. fold d3. rewrite H1, H2.
  cbn [b_data].
  set (rest := skipn (s' + r + (len - e')) d).
  assert (Hlens : length (firstn s' body ++ rep ++ skipn e' body ++ rest)
                  = (s' + r + (len - e') + length rest)%nat).
  { rewrite !app_length, firstn_len_le, skipn_length by lia. lia. }
  replace (N.of_nat len + rl + s - e <=? N.of_nat (length (firstn s' body ++ rep ++ skipn e' body ++ rest)))
    with true by (rewrite Hlens; lia).
  rewrite set_len_ok by (unfold capacity; cbn [b_data]; rewrite Hlens; lia).
  eexists. split; [reflexivity|]. unfold wf, contents, capacity, splice. cbn [b_data b_len].
  split; [rewrite Hlens; lia|].
  replace (firstn s' body ++ rep ++ skipn e' body ++ rest)
    with ((firstn s' body ++ rep ++ skipn e' body) ++ rest) by (rewrite <- !app_assoc; reflexivity).
  apply firstn_exact. rewrite !app_length, firstn_len_le, skipn_length by lia. lia.
Qed.

(** A reversed range is treated as the empty range at [end]: [remove.start = remove.end]. *)
Lemma replace_reversed grow junk checked b s e rep :
  e < s -> cow_replace grow junk checked b s e rep = cow_replace grow junk checked b e e rep.
Proof.
  intros H. unfold cow_replace.
  replace (e <? s) with true by lia. replace (e <? e) with false by lia. reflexivity.
Qed.

(** An end beyond the body panics, in both arithmetic modes and whatever [start] is:
    either an addition overflows (checked), or [checked_sub] fails, or [copy_within]
    is handed a range that starts behind its end. *)
Lemma replace_out_of_bounds grow junk checked b s e rep :
  grow_ok grow -> wf b -> fits b rep -> N.of_nat (b_len b) < e ->
  cow_replace grow junk checked b s e rep = Panic.
Proof.
  intros G W Fit Hel. unfold cow_replace, fits in *.
  set (s0 := if e <? s then e else s).
  set (rl := N.of_nat (length rep)) in *.
  set (lc := rl - (e - s0)).
  destruct (reserve_spec grow junk b (N.to_nat lc) G W) as (Hlen & _ & Hcap & _).
  set (b1 := bm_reserve grow junk b (N.to_nat lc)) in *.
  rewrite Hlen. set (len := b_len b) in *.
  rewrite (add_u64_fit checked (N.of_nat len) rl) by lia. cbn [obind].
  destruct (add_u64_cases checked (N.of_nat len + rl) s0) as [[t2 ->]| ->]; [|reflexivity]. cbn [obind].
  destruct (t2 <? e); [reflexivity|].
  rewrite (add_u64_fit checked (N.of_nat len) lc) by lia. cbn [obind].
  unfold bm_set_len_N at 1.
  replace (N.of_nat len + lc <=? N.of_nat (capacity b1)) with true by lia.
  rewrite set_len_ok by lia. cbn [obind].
  destruct (add_u64_cases checked s0 rl) as [[dest ->]| ->]; [|reflexivity]. cbn [obind].
  unfold bm_copy_within. replace (e <=? N.of_nat len) with false by lia. reflexivity.
Qed.

(** The complete behaviour of [replace] on a body that fits in memory. *)
Lemma replace_total grow junk checked b s e rep :
  grow_ok grow -> wf b -> fits b rep ->
  if e <=? N.of_nat (b_len b) then
    exists b', cow_replace grow junk checked b s e rep = Ok b' /\ wf b' /\
               contents b' = splice (N.to_nat (N.min s e)) (N.to_nat e) rep (contents b)
  else cow_replace grow junk checked b s e rep = Panic.
Proof.
  intros G W Fit. destruct (N.leb_spec e (N.of_nat (b_len b))) as [Hin|Hout].
  - destruct (N.ltb_spec e s) as [Hrev|Hfwd].
    + rewrite replace_reversed by assumption. replace (N.min s e) with e by lia.
      apply replace_in_bounds; auto; lia.
    + replace (N.min s e) with s by lia. apply replace_in_bounds; auto.
  - apply replace_out_of_bounds; auto.
Qed.

Lemma replace_panics_iff_lemma grow junk checked b s e rep :
  grow_ok grow -> wf b -> fits b rep ->
  (cow_replace grow junk checked b s e rep = Panic <-> N.of_nat (b_len b) < e).
Proof.
  intros G W Fit. pose proof (replace_total grow junk checked b s e rep G W Fit) as T.
  destruct (N.leb_spec e (N.of_nat (b_len b))) as [Hin|Hout].
  - destruct T as (b' & -> & _). split; [discriminate|lia].
  - split; auto.
Qed.

(** The result does not depend on the spare capacity of the body's buffer, on what lies in
    it, on the growth policy or on fresh memory: only on the visible bytes. *)
Lemma replace_no_junk g1 j1 g2 j2 checked1 checked2 b1 b2 s e rep :
  grow_ok g1 -> grow_ok g2 -> wf b1 -> wf b2 -> fits b1 rep ->
  contents b1 = contents b2 ->
  match cow_replace g1 j1 checked1 b1 s e rep, cow_replace g2 j2 checked2 b2 s e rep with
  | Ok r1, Ok r2 => contents r1 = contents r2
  | Panic, Panic => True
  | _, _ => False
  end.
Proof.
  intros G1 G2 W1 W2 Fit C.
  assert (L : b_len b1 = b_len b2).
  { unfold contents, wf, capacity in *. apply (f_equal (@length N)) in C.
    rewrite !firstn_len_le in C by lia. exact C. }
  assert (Fit2 : fits b2 rep) by (unfold fits in *; rewrite <- L; exact Fit).
  pose proof (replace_total g1 j1 checked1 b1 s e rep G1 W1 Fit) as T1.
  pose proof (replace_total g2 j2 checked2 b2 s e rep G2 W2 Fit2) as T2.
  rewrite <- L in T2.
  destruct (e <=? N.of_nat (b_len b1)).
  - destruct T1 as (r1 & -> & _ & C1). destruct T2 as (r2 & -> & _ & C2). congruence.
  - rewrite T1, T2. exact I.
Qed.

(** ---- read_to_end_or_max ---- *)
(** One read with room for at least one byte. *)
Lemma rd_spec cs : forall room, (0 < room)%nat ->
  match rd cs room with
  | (RdData got, cs') =>
      (length got <= room)%nat /\
      fst (pre_fail cs) = got ++ fst (pre_fail cs') /\ snd (pre_fail cs) = snd (pre_fail cs') /\
      stream_len cs = (length got + stream_len cs')%nat /\
      stream_pends cs = stream_pends cs' /\
      (got = [] -> pre_fail cs = ([], None)) /\
      (forall k, before_stall k cs =
                 match before_stall k cs' with Some (p, r) => Some (got ++ p, r) | None => None end)
  | (RdFail e, cs') =>
      pre_fail cs = ([], Some e) /\ (stream_len cs' <= stream_len cs)%nat /\
      stream_pends cs = stream_pends cs' /\ (forall k, before_stall k cs = None)
  | (RdPending, cs') =>
      pre_fail cs = pre_fail cs' /\ stream_len cs = stream_len cs' /\
      stream_pends cs = S (stream_pends cs') /\
      before_stall 0 cs = Some ([], cs') /\ (forall k, before_stall (S k) cs = before_stall k cs')
  end.
Proof.
  induction cs as [|c r IH]; intros room Hr.
  - cbn. repeat split; auto. lia.
  - destruct c as [d|e|].
    + destruct d as [|x d].
      * cbn [rd]. specialize (IH room Hr). destruct (rd r room) as [[got|e|] cs'].
        -- destruct IH as (H1 & H2 & H3 & H4 & H5 & H6 & H7). cbn [pre_fail stream_len stream_pends length before_stall].
           destruct (pre_fail r) as [p f] eqn:Ep. cbn [fst snd app] in *.
           repeat split; auto.
           intros k. rewrite H7. destruct (before_stall k cs') as [[p' r']|]; reflexivity.
        -- destruct IH as (H1 & H2 & H3 & H4). cbn [pre_fail stream_len stream_pends length before_stall].
           rewrite H1. cbn. repeat split; auto. intros k. rewrite H4. reflexivity.
        -- destruct IH as (H1 & H2 & H3 & H4 & H5). cbn [pre_fail stream_len stream_pends length before_stall].
           rewrite H1. destruct (pre_fail cs') as [p f]. cbn [app].
           repeat split; auto.
           ++ rewrite H4. reflexivity.
           ++ intros k. rewrite H5. destruct (before_stall k cs') as [[p' r']|]; reflexivity.
      * cbn [rd]. set (c := x :: d).
        cbn [pre_fail stream_len stream_pends before_stall]. destruct (pre_fail r) as [p f] eqn:Ep. cbn [fst snd].
        repeat split.
        -- rewrite firstn_length. lia.
        -- rewrite app_assoc, firstn_skipn. reflexivity.
        -- rewrite skipn_length, firstn_length. lia.
        -- destruct room; [lia|]. unfold c. cbn [firstn]. discriminate.
        -- intros k. destruct (before_stall k r) as [[p' r']|]; [|reflexivity].
           rewrite app_assoc, firstn_skipn. reflexivity.
    + cbn [rd pre_fail stream_len stream_pends before_stall]. repeat split; auto.
    + cbn [rd pre_fail stream_len stream_pends before_stall]. repeat split; auto.
Qed.

(** inner [reserve(read, buffer)] on a buffer whose length is its capacity *)
Lemma rtm_reserve_spec grow junk read b :
  grow_ok grow -> b_len b = capacity b -> (read <= capacity b)%nat ->
  exists b2, rtm_reserve grow junk read b = Ok b2 /\ b_len b2 = capacity b2 /\
             (read + 32 <= capacity b2)%nat /\ (capacity b <= capacity b2)%nat /\
             firstn (capacity b) (b_data b2) = b_data b.
Proof.
  intros G F R. unfold rtm_reserve.
  replace (Nat.ltb (capacity b) read) with false by lia.
  destruct (Nat.ltb (capacity b - read) 32) eqn:E.
  - cbn zeta. replace (Nat.ltb (capacity b) (b_len b)) with false by lia.
    set (additional := if Nat.ltb (capacity b) 1024 then 1024%nat
                       else if Nat.ltb (Nat.max (capacity b * 2 / 3) 1024) (capacity b)
                            then Nat.max (capacity b * 2 / 3) 1024 else capacity b).
    assert (Ha : (1024 <= additional)%nat).
    { unfold additional. destruct (Nat.ltb_spec (capacity b) 1024); [lia|].
      destruct (Nat.ltb_spec (Nat.max (capacity b * 2 / 3) 1024) (capacity b)); lia. }
    destruct (reserve_full grow junk b (capacity b - b_len b + additional) G F ltac:(lia)) as (extra & -> & Hex).
    rewrite set_len_ok by lia. eexists. split; [reflexivity|].
    unfold capacity in *. cbn [b_data b_len]. rewrite app_length.
    repeat split; try lia. apply firstn_exact. reflexivity.
  - exists b. split; [reflexivity|]. apply Nat.ltb_ge in E.
    repeat split; try lia. unfold capacity. apply firstn_all.
Qed.

(** What the caller finds in the buffer after it dropped the future, with the drop guard
    ([guard = true]: the bytes delivered so far, nothing else) and without it (the length is
    still the capacity: behind the bytes delivered so far lies at least one byte nobody wrote). *)
Definition cancel_obs (guard : bool) (init pre : bytes) (b' : buf) : Prop :=
  if guard then wf b' /\ contents b' = init ++ pre
  else b_len b' = capacity b' /\ firstn (length init + length pre) (b_data b') = init ++ pre /\
       (length init + length pre < capacity b')%nat.

Definition poll_spec_g (guard : bool) (init : bytes) (cs : stream) (max : N) (patience : option nat) (r : rres) : Prop :=
  match r with
  | RCancelled b' rest =>
      exists k pre, patience = Some k /\ before_stall k cs = Some (pre, rest) /\
        cancel_obs guard init pre b' /\ N.of_nat (length init + length pre) < max
  | _ => read_spec init cs max r /\
         match patience with Some k => (stream_pends cs <= k + stream_pends (rres_rest r))%nat | None => True end
  end.

Lemma poll_spec_g_true init cs max patience r :
  poll_spec_g true init cs max patience r <-> poll_spec init cs max patience r.
Proof.
  destruct r as [b' rest|e b' rest|b' rest| |]; cbn [poll_spec_g poll_spec]; try tauto.
  unfold cancel_obs. split.
  - intros (k & pre & Hk & Hb & [W C] & M). exists k, pre. repeat split; auto.
    rewrite C, app_length. exact M.
  - intros (k & pre & Hk & Hb & W & C & M). exists k, pre. repeat split; auto.
    rewrite C, app_length in M. exact M.
Qed.

(** the specification composes along a successful read *)
Lemma read_spec_step init got cs cs' max r :
  fst (pre_fail cs) = got ++ fst (pre_fail cs') -> snd (pre_fail cs) = snd (pre_fail cs') ->
  read_spec (init ++ got) cs' max r -> read_spec init cs max r.
Proof.
  intros H1 H2 S. destruct r as [b' rest|e b' rest|b' rest| |]; cbn [read_spec] in *; try contradiction.
  - destruct S as (taken & C & P & F & D). exists (got ++ taken).
    repeat split.
    + rewrite C, app_assoc. reflexivity.
    + rewrite H1, P, app_assoc. reflexivity.
    + congruence.
    + destruct D as [[D1 D2]|D]; [left; split; congruence|right; exact D].
  - destruct S as [F C]. split; [congruence|]. rewrite C, H1, app_assoc. reflexivity.
Qed.

Lemma poll_spec_step guard init got cs cs' max patience r :
  fst (pre_fail cs) = got ++ fst (pre_fail cs') -> snd (pre_fail cs) = snd (pre_fail cs') ->
  stream_pends cs = stream_pends cs' ->
  (forall k, before_stall k cs =
             match before_stall k cs' with Some (p, r) => Some (got ++ p, r) | None => None end) ->
  poll_spec_g guard (init ++ got) cs' max patience r -> poll_spec_g guard init cs max patience r.
Proof.
  intros H1 H2 H3 H4 S.
  destruct r as [b' rest|e b' rest|b' rest| |]; cbn [poll_spec_g] in *;
    try (destruct S as [S P]; split; [eapply read_spec_step; eassumption|rewrite H3; exact P]).
  destruct S as (k & pre & Hk & Hb & Ho & M). exists k, (got ++ pre).
  split; [exact Hk|]. split; [rewrite H4, Hb; reflexivity|].
  split.
  - unfold cancel_obs in *. destruct guard.
    + rewrite app_assoc. exact Ho.
    + rewrite app_length in *. rewrite app_assoc, Nat.add_assoc. exact Ho.
  - rewrite app_length in *. rewrite Nat.add_assoc. exact M.
Qed.

(** ... and across a [Pending] the caller sat through *)
Lemma poll_spec_pend guard init cs cs' max patience patience' r :
  pre_fail cs = pre_fail cs' -> stream_pends cs = S (stream_pends cs') ->
  (forall k, before_stall (S k) cs = before_stall k cs') ->
  match patience with Some (S k) => patience' = Some k | Some O => False | None => patience' = None end ->
  poll_spec_g guard init cs' max patience' r -> poll_spec_g guard init cs max patience r.
Proof.
  intros H1 H2 H3 Hp S.
  assert (Hrs : forall r0, read_spec init cs' max r0 -> read_spec init cs max r0).
  { intros r0. destruct r0; cbn [read_spec]; try rewrite H1; auto. }
  destruct r as [b' rest|e b' rest|b' rest| |]; cbn [poll_spec_g] in *;
    try (destruct S as [S P]; split; [apply Hrs; exact S|];
         destruct patience as [[|k]|]; [contradiction|subst patience'; lia|exact I]).
  destruct S as (k & pre & Hk & Hb & Ho & M).
  destruct patience as [[|k0]|]; [contradiction| |congruence].
  exists (S k), pre. rewrite Hp in Hk. inversion Hk; subst k0.
  repeat split; auto. rewrite H3. exact Hb.
Qed.

(** Loop invariant: the buffer's length is its capacity, there is room for at least one
    byte, the maximum is not reached, and the fuel covers what is left of the stream. *)
Lemma rtm_loop_spec grow junk guard max : grow_ok grow -> forall fuel read b cs patience,
  b_len b = capacity b -> (read < capacity b)%nat -> N.of_nat read < max ->
  (stream_len cs + stream_pends cs < fuel)%nat ->
  poll_spec_g guard (firstn read (b_data b)) cs max patience (rtm_loop grow junk guard fuel max read b cs patience).
Proof.
  intros G. induction fuel as [|f IH]; intros read b cs patience F R M Fu; [lia|].
  cbn [rtm_loop]. replace (Nat.ltb (b_len b) read) with false by lia.
  pose proof (rd_spec cs (b_len b - read) ltac:(lia)) as Hrd.
  assert (Hfr : length (firstn read (b_data b)) = read) by (apply firstn_len_le; unfold capacity in R; lia).
  destruct (rd cs (b_len b - read)) as [[got|e|] cs'].
  - destruct Hrd as (Hl & Hp & Hs & Hn & Hpe & Hz & Hbs). destruct got as [|x got].
    + (* 0 bytes: end of stream *)
      rewrite set_len_ok by lia. cbn [poll_spec_g read_spec rres_rest]. split.
      * exists []. unfold contents. cbn [b_data b_len].
        rewrite (Hz eq_refl) in *. cbn [fst snd app] in *.
        split; [symmetry; apply app_nil_r|]. split; [exact Hp|]. split; [symmetry; exact Hs|].
        left. split; [symmetry; exact Hp| reflexivity].
      * destruct patience; [lia|exact I].
    + set (g := x :: got) in *.
      assert (Hput : firstn (read + length g) (b_data (put b read g)) = firstn read (b_data b) ++ g).
      { unfold put. cbn [b_data]. rewrite app_assoc. apply firstn_exact. rewrite app_length, Hfr. reflexivity. }
      assert (Hcap : capacity (put b read g) = capacity b).
      { unfold put, capacity in *. cbn [b_data]. rewrite !app_length, skipn_length, Hfr. lia. }
      assert (Hlenp : b_len (put b read g) = b_len b) by reflexivity.
      destruct (N.leb_spec max (N.of_nat (read + length g))) as [Hmax|Hmore].
      * rewrite set_len_ok by lia. cbn [poll_spec_g read_spec rres_rest]. split.
        -- exists g. unfold contents. cbn [b_data b_len]. rewrite Hput.
           repeat split; auto. right. rewrite app_length, Hfr. exact Hmax.
        -- destruct patience; [lia|exact I].
      * destruct (rtm_reserve_spec grow junk (read + length g) (put b read g) G ltac:(lia) ltac:(lia))
          as (b2 & -> & F2 & R2 & C2 & D2).
        eapply poll_spec_step; [exact Hp|exact Hs|exact Hpe|exact Hbs|].
        rewrite <- Hput. rewrite <- D2.
        rewrite firstn_firstn_le by lia.
        apply IH; try assumption; try lia.
        cbn [length] in Hn. unfold g in Hn. cbn [length] in Hn. lia.
  - destruct Hrd as (Hp & _ & Hpe & Hbs). rewrite set_len_ok by lia. cbn [poll_spec_g read_spec rres_rest]. split.
    + rewrite Hp. cbn [fst snd].
      split; [reflexivity|]. unfold contents. cbn [b_data b_len]. rewrite app_nil_r. reflexivity.
    + destruct patience; [lia|exact I].
  - destruct Hrd as (Hp & Hn & Hpe & Hb0 & HbS).
    destruct patience as [[|k]|].
    + (* the caller drops the future *)
      assert (Hobs : cancel_obs guard (firstn read (b_data b)) [] (if guard then mkbuf (b_data b) read else b)).
      { unfold cancel_obs. destruct guard.
        - unfold wf, contents, capacity in *. cbn [b_data b_len]. rewrite app_nil_r. split; [lia|reflexivity].
        - rewrite Hfr. cbn [length]. rewrite Nat.add_0_r, app_nil_r. repeat split; auto. }
      assert (Hm : N.of_nat (length (firstn read (b_data b)) + length (@nil N)) < max).
      { rewrite Hfr. cbn [length]. lia. }
      destruct guard.
      * rewrite set_len_ok by lia. cbn [poll_spec_g]. exists O, []. auto.
      * cbn [poll_spec_g]. exists O, []. auto.
    + eapply (poll_spec_pend guard _ cs cs' max (Some (S k)) (Some k)); [exact Hp|exact Hpe|exact HbS|reflexivity|].
      apply IH; try assumption; lia.
    + eapply (poll_spec_pend guard _ cs cs' max None None); [exact Hp|exact Hpe|exact HbS|reflexivity|].
      apply IH; try assumption; lia.
Qed.

(** The complete statement for a caller that may drop the future, and for the code with
    ([guard = true]) and without the drop guard. *)
Lemma read_poll_spec_g grow junk guard b cs max patience :
  grow_ok grow -> wf b ->
  poll_spec_g guard (contents b) cs max patience (read_poll grow junk false guard b cs max patience).
Proof.
  intros G W. unfold read_poll.
  destruct (N.leb_spec max (N.of_nat (b_len b))) as [Hm|Hm].
  - cbn [poll_spec_g read_spec rres_rest]. split.
    + exists []. rewrite app_nil_r. repeat split; auto.
      right. unfold contents. rewrite firstn_len_le by exact W. exact Hm.
    + destruct patience; [lia|exact I].
  - rewrite set_len_ok by lia. unfold capacity at 1 2. cbn [b_data b_len].
    replace (Nat.eqb (length (b_data b)) (capacity b)) with true by (unfold capacity; lia).
    destruct (rtm_reserve_spec grow junk (b_len b) (mkbuf (b_data b) (capacity b)) G eq_refl W)
      as (b2 & -> & F2 & R2 & C2 & D2).
    unfold contents. unfold capacity in D2 at 1. cbn [b_data] in D2.
    replace (firstn (b_len b) (b_data b)) with (firstn (b_len b) (b_data b2)).
    + apply rtm_loop_spec; auto; lia.
    + rewrite <- D2 at 1. rewrite firstn_firstn_le by exact W. reflexivity.
Qed.

Lemma read_poll_spec grow junk b cs max patience :
  grow_ok grow -> wf b ->
  poll_spec (contents b) cs max patience (read_poll grow junk false true b cs max patience).
Proof. intros G W. apply poll_spec_g_true. apply read_poll_spec_g; assumption. Qed.

Lemma poll_spec_none init cs max r : poll_spec_g true init cs max None r -> read_spec init cs max r.
Proof.
  destruct r; cbn [poll_spec_g]; try tauto.
  intros (k & pre & Hk & _). discriminate.
Qed.

(** read_all_or_prefix, in the general form (failing and pending readers included) *)
Lemma read_to_end_or_max_spec grow junk b cs max :
  grow_ok grow -> wf b ->
  read_spec (contents b) cs max (read_to_end_or_max grow junk false b cs max).
Proof.
  intros G W. unfold read_to_end_or_max. eapply poll_spec_none. apply read_poll_spec_g; assumption.
Qed.

(** A caller that awaits the helper to its end never finds it cancelled, ... *)
Lemma awaited_never_cancelled grow junk legacy guard b cs max b' rest :
  read_poll grow junk legacy guard b cs max None <> RCancelled b' rest.
Proof.
  unfold read_poll. destruct (max <=? N.of_nat (b_len b)); [discriminate|].
  destruct (bm_set_len b (capacity b)) as [b1| |]; try discriminate.
  destruct (if Nat.eqb (capacity b1) (b_len b1) then rtm_reserve grow junk (if legacy then O else b_len b) b1 else Ok b1)
    as [b2| |]; try discriminate.
  generalize (S (stream_len cs + stream_pends cs)) as fuel. generalize (b_len b) as read. revert b2 cs.
  intros b2 cs read fuel. revert read b2 cs.
  induction fuel as [|f IH]; intros read b2 cs; cbn [rtm_loop]; [discriminate|].
  destruct (Nat.ltb (b_len b2) read); [discriminate|].
  destruct (rd cs (b_len b2 - read)) as [[got|e|] cs'].
  - destruct got as [|x got].
    + destruct (bm_set_len b2 read); discriminate.
    + destruct (max <=? N.of_nat (read + length (x :: got))).
      * destruct (bm_set_len (put b2 read (x :: got)) (read + length (x :: got))); discriminate.
      * destruct (rtm_reserve grow junk (read + length (x :: got)) (put b2 read (x :: got))); try discriminate. apply IH.
  - destruct (bm_set_len b2 read); discriminate.
  - apply IH.
Qed.

(** ... and for such a caller the drop guard changes nothing. *)
Lemma guard_irrelevant_when_awaited grow junk legacy b cs max :
  read_poll grow junk legacy false b cs max None = read_poll grow junk legacy true b cs max None.
Proof.
  unfold read_poll. destruct (max <=? N.of_nat (b_len b)); [reflexivity|].
  destruct (bm_set_len b (capacity b)) as [b1| |]; try reflexivity.
  destruct (if Nat.eqb (capacity b1) (b_len b1) then rtm_reserve grow junk (if legacy then O else b_len b) b1 else Ok b1)
    as [b2| |]; try reflexivity.
  generalize (S (stream_len cs + stream_pends cs)) as fuel. generalize (b_len b) as read.
  intros read fuel. revert read b2 cs.
  induction fuel as [|f IH]; intros read b2 cs; cbn [rtm_loop]; [reflexivity|].
  destruct (Nat.ltb (b_len b2) read); [reflexivity|].
  destruct (rd cs (b_len b2 - read)) as [[got|e|] cs']; try reflexivity.
  - destruct got as [|x got]; [reflexivity|].
    destruct (max <=? N.of_nat (read + length (x :: got))); [reflexivity|].
    destruct (rtm_reserve grow junk (read + length (x :: got)) (put b2 read (x :: got))); try reflexivity. apply IH.
  - apply IH.
Qed.

(** The code before the drop guard: whenever the caller's patience runs out, the buffer it is
    left with still has its length at its capacity, and behind the bytes delivered so far at
    least one byte nobody wrote is visible. *)
Lemma unguarded_cancel_shows_junk grow junk b cs max patience b' rest :
  grow_ok grow -> wf b ->
  read_poll grow junk false false b cs max patience = RCancelled b' rest ->
  exists k pre, patience = Some k /\ before_stall k cs = Some (pre, rest) /\
    b_len b' = capacity b' /\
    firstn (length (contents b) + length pre) (contents b') = contents b ++ pre /\
    (length (contents b) + length pre < length (contents b'))%nat.
Proof.
  intros G W E. pose proof (read_poll_spec_g grow junk false b cs max patience G W) as S.
  rewrite E in S. cbn [poll_spec_g cancel_obs] in S.
  destruct S as (k & pre & Hk & Hb & (F & P & L) & _). exists k, pre.
  assert (C : contents b' = b_data b') by (unfold contents; rewrite F; apply firstn_all).
  rewrite C. repeat split; auto.
Qed.

Lemma unguarded_cancel_refuted :
  exists b cs max k, wf b /\
    ~ poll_spec (contents b) cs max (Some k) (read_poll grow_vec (junk_of []) false false b cs max (Some k)).
Proof.
  exists (bm_of (junk_of []) [105; 110] 0), [Data [97; 98; 99]; Pend; Data [100]], 1000, O.
  split; [apply bm_of_wf|].
  destruct (read_poll grow_vec (junk_of []) false false (bm_of (junk_of []) [105; 110] 0)
              [Data [97; 98; 99]; Pend; Data [100]] 1000 (Some O)) as [b' rest|e b' rest|b' rest| |] eqn:E;
    try (vm_compute in E; discriminate).
  cbn [poll_spec]. intros (k & pre & Hk & Hb & _ & C & _).
  injection Hk as <-. cbn in Hb. injection Hb as <- <-.
  apply (f_equal (@length N)) in C.
  assert (L : length (contents b') = 1026%nat).
  { assert (E' : match read_poll grow_vec (junk_of []) false false (bm_of (junk_of []) [105; 110] 0)
                        [Data [97; 98; 99]; Pend; Data [100]] 1000 (Some O) with
                 | RCancelled b0 _ => length (contents b0) | _ => O end = 1026%nat) by (vm_compute; reflexivity).
    rewrite E in E'. exact E'. }
  rewrite L in C. vm_compute in C. discriminate.
Qed.

(** ---- streams without failures: the statement of the property ---- *)
Definition data_stream (chunks : list bytes) : stream := map Data chunks.

Lemma pre_fail_data chunks : pre_fail (data_stream chunks) = (concat chunks, None).
Proof.
  induction chunks as [|c r IH]; [reflexivity|].
  cbn [data_stream map pre_fail concat]. fold (data_stream r). rewrite IH. reflexivity.
Qed.

Lemma read_data_stream grow junk b chunks max :
  grow_ok grow -> wf b ->
  exists b' rest taken,
    read_to_end_or_max grow junk false b (data_stream chunks) max = RDone b' rest /\
    contents b' = contents b ++ taken /\
    concat chunks = taken ++ fst (pre_fail rest) /\
    (taken = concat chunks \/ max <= N.of_nat (length (contents b'))).
Proof.
  intros G W. pose proof (read_to_end_or_max_spec grow junk b (data_stream chunks) max G W) as S.
  destruct (read_to_end_or_max grow junk false b (data_stream chunks) max) as [b' rest|e b' rest|b' rest| |];
    cbn [read_spec] in S; try contradiction; rewrite pre_fail_data in S; cbn [fst snd] in S.
  - destruct S as (taken & C & P & F & D). exists b', rest, taken.
    repeat split; auto. destruct D as [[D _]|D]; [left|right; exact D].
    rewrite D, app_nil_r in P. auto.
  - destruct S as [S _]. discriminate.
Qed.

Lemma pre_fail_len cs : (length (fst (pre_fail cs)) <= stream_len cs)%nat.
Proof.
  induction cs as [|[d|e|] r IH]; cbn [pre_fail stream_len fst length]; try lia.
  destruct (pre_fail r) as [p f]. cbn [fst] in *. rewrite app_length. lia.
Qed.

(** [kvarn::read::file]: every byte of the file, for every way the file delivers them;
    [None] exactly when a read fails. *)
Lemma read_file_spec grow junk cs :
  grow_ok grow -> N.of_nat (stream_len cs) < u64_max ->
  read_file grow junk cs =
  match snd (pre_fail cs) with None => Ok (fst (pre_fail cs)) | Some _ => Err 0 end.
Proof.
  intros G Hsz. unfold read_file.
  assert (W : wf (bm_with_capacity junk 4096)).
  { unfold wf, bm_with_capacity, capacity. cbn [b_data b_len]. lia. }
  pose proof (read_to_end_or_max_spec grow junk _ cs u64_max G W) as S.
  assert (C0 : contents (bm_with_capacity junk 4096) = []) by reflexivity.
  rewrite C0 in S. pose proof (pre_fail_len cs) as Hl.
  destruct (read_to_end_or_max grow junk false (bm_with_capacity junk 4096) cs u64_max) as [b' rest|e b' rest|b' rest| |];
    cbn [read_spec] in S; try contradiction.
  - destruct S as (taken & C & P & F & D). cbn [app] in C.
    destruct D as [[D1 D2]|D].
    + rewrite D2. rewrite D1, app_nil_r in P. congruence.
    + exfalso. rewrite C in D. rewrite P, app_length in Hl. lia.
  - destruct S as [S _]. rewrite S. reflexivity.
Qed.

Lemma read_file_chunking grow junk chunks :
  grow_ok grow -> N.of_nat (length (concat chunks)) < u64_max ->
  read_file grow junk (data_stream chunks) = Ok (concat chunks).
Proof.
  intros G Hsz. rewrite read_file_spec; auto.
  - rewrite pre_fail_data. reflexivity.
  - replace (stream_len (data_stream chunks)) with (length (concat chunks)); [exact Hsz|].
    clear. induction chunks as [|c r IH]; [reflexivity|].
    cbn [concat data_stream map stream_len]. rewrite app_length. fold (data_stream r). lia.
Qed.

(** ---- the code before the repair ---- *)
(** With [reserve(0, buffer)] the specification still holds whenever the buffer is not
    full or is smaller than 32 bytes (every caller inside kvarn leaves spare room)... *)
Lemma legacy_spec_when_room grow junk b cs max :
  grow_ok grow -> wf b -> (b_len b < capacity b \/ capacity b < 32)%nat ->
  read_spec (contents b) cs max (read_to_end_or_max grow junk true b cs max).
Proof.
  intros G W Room. unfold read_to_end_or_max, read_poll.
  destruct (N.leb_spec max (N.of_nat (b_len b))) as [Hm|Hm].
  - cbn [read_spec]. exists []. rewrite app_nil_r. repeat split; auto.
    right. unfold contents. rewrite firstn_len_le by exact W. exact Hm.
  - rewrite set_len_ok by lia. unfold capacity at 1 2. cbn [b_data b_len].
    replace (Nat.eqb (length (b_data b)) (capacity b)) with true by (unfold capacity; lia).
    destruct (rtm_reserve_spec grow junk O (mkbuf (b_data b) (capacity b)) G eq_refl ltac:(lia))
      as (b2 & -> & F2 & R2 & C2 & D2).
    unfold contents. unfold capacity in D2 at 1. unfold capacity in C2 at 1. cbn [b_data] in D2, C2.
    replace (firstn (b_len b) (b_data b)) with (firstn (b_len b) (b_data b2)).
    + eapply poll_spec_none. apply rtm_loop_spec; auto; unfold wf, capacity in *; lia.
    + rewrite <- D2 at 1. rewrite firstn_firstn_le by exact W. reflexivity.
Qed.

(** ... and fails on a full buffer of 32 bytes or more: nothing is read. *)
Lemma legacy_refuted :
  exists b cs max, wf b /\
    ~ read_spec (contents b) cs max (read_to_end_or_max grow_vec (junk_of []) true b cs max).
Proof.
  exists (bm_of (junk_of []) (repeat 65 32) 0), [Data [66]], 100.
  split; [apply bm_of_wf|].
  assert (E : read_to_end_or_max grow_vec (junk_of []) true (bm_of (junk_of []) (repeat 65 32) 0) [Data [66]] 100
              = RDone (bm_of (junk_of []) (repeat 65 32) 0) [Data [66]]) by (vm_compute; reflexivity).
  rewrite E. cbn [read_spec]. intros (taken & _ & _ & _ & [[H _]|H]).
  - cbn in H. discriminate.
  - vm_compute in H. apply H. reflexivity.
Qed.

(** ---- no_junk for the stream helper: a simulation between two runs ---- *)
(** What a caller can observe of a result: the kind, the visible bytes, what is left in the reader. *)
Definition same_obs (r1 r2 : rres) : Prop :=
  match r1, r2 with
  | RDone b1 c1, RDone b2 c2 => contents b1 = contents b2 /\ c1 = c2
  | RIoErr e1 b1 c1, RIoErr e2 b2 c2 => e1 = e2 /\ contents b1 = contents b2 /\ c1 = c2
  | RCancelled b1 c1, RCancelled b2 c2 => contents b1 = contents b2 /\ c1 = c2
  | RPanic, RPanic => True
  | RFuel, RFuel => True
  | _, _ => False
  end.

Lemma rd_len cs : forall room, match fst (rd cs room) with RdData got => (length got <= room)%nat | _ => True end.
Proof.
  induction cs as [|[d|e|] r IH]; intros room; cbn [rd fst length]; try lia; try exact I.
  destruct d as [|x d]; [apply IH|]. cbn [fst]. rewrite firstn_length. lia.
Qed.

Lemma reserve_full_len grow junk b add :
  b_len b = capacity b -> (0 < add)%nat ->
  capacity (bm_reserve grow junk b add) = (capacity b + (grow (capacity b) (capacity b + add) - capacity b))%nat.
Proof.
  intros F P. unfold bm_reserve. replace (Nat.leb add (capacity b - b_len b)) with false by lia.
  unfold contents. rewrite F. unfold capacity. cbn [b_data]. rewrite firstn_all, app_length, fresh_length.
  reflexivity.
Qed.

Lemma rtm_reserve_cap grow j1 j2 read b1 b2 r1 r2 :
  b_len b1 = capacity b1 -> b_len b2 = capacity b2 -> capacity b1 = capacity b2 ->
  rtm_reserve grow j1 read b1 = Ok r1 -> rtm_reserve grow j2 read b2 = Ok r2 ->
  capacity r1 = capacity r2.
Proof.
  intros F1 F2 C. unfold rtm_reserve. rewrite <- C, F1, F2, <- C.
  destruct (Nat.ltb (capacity b1) read); [discriminate|].
  destruct (Nat.ltb (capacity b1 - read) 32); [|intros H1 H2; inversion H1; inversion H2; subst; exact C].
  cbn zeta. rewrite Nat.ltb_irrefl.
  set (additional := if Nat.ltb (capacity b1) 1024 then 1024%nat
                     else if Nat.ltb (Nat.max (capacity b1 * 2 / 3) 1024) (capacity b1)
                          then Nat.max (capacity b1 * 2 / 3) 1024 else capacity b1).
  assert (Ha : (0 < capacity b1 - capacity b1 + additional)%nat).
  { unfold additional. destruct (Nat.ltb_spec (capacity b1) 1024); [lia|].
    destruct (Nat.ltb_spec (Nat.max (capacity b1 * 2 / 3) 1024) (capacity b1)); lia. }
  intros H1 H2.
  unfold bm_set_len in H1, H2. rewrite Nat.leb_refl in H1, H2. inversion H1; inversion H2; subst.
  change (capacity (bm_reserve grow j1 b1 (capacity b1 - capacity b1 + additional))
          = capacity (bm_reserve grow j2 b2 (capacity b1 - capacity b1 + additional))).
  rewrite !reserve_full_len by (auto; lia). rewrite <- C. reflexivity.
Qed.

Lemma rtm_loop_no_junk grow j1 j2 max : grow_ok grow -> forall fuel read b1 b2 cs patience,
  b_len b1 = capacity b1 -> b_len b2 = capacity b2 -> capacity b1 = capacity b2 ->
  firstn read (b_data b1) = firstn read (b_data b2) ->
  same_obs (rtm_loop grow j1 true fuel max read b1 cs patience) (rtm_loop grow j2 true fuel max read b2 cs patience).
Proof.
  intros G. induction fuel as [|f IH]; intros read b1 b2 cs patience F1 F2 C D; [exact I|].
  cbn [rtm_loop]. rewrite F1, F2, <- C.
  destruct (Nat.ltb_spec (capacity b1) read) as [|Hr]; [exact I|].
  pose proof (rd_len cs (capacity b1 - read)) as Hl.
  destruct (rd cs (capacity b1 - read)) as [[got|e|] cs']; cbn [fst] in Hl.
  - destruct got as [|x got].
    + rewrite !set_len_ok by lia. cbn [same_obs]. unfold contents. cbn [b_data b_len]. auto.
    + set (g := x :: got) in *.
      assert (Hput : forall b, (read + length g <= capacity b)%nat ->
                firstn (read + length g) (b_data (put b read g)) = firstn read (b_data b) ++ g /\
                capacity (put b read g) = capacity b).
      { intros b Hb. unfold put, capacity in *. cbn [b_data].
        assert (Hfr : length (firstn read (b_data b)) = read) by (apply firstn_len_le; lia).
        split.
        - rewrite app_assoc. apply firstn_exact. rewrite app_length, Hfr. reflexivity.
        - rewrite !app_length, skipn_length, Hfr. lia. }
      destruct (Hput b1 ltac:(lia)) as [P1 K1]. destruct (Hput b2 ltac:(lia)) as [P2 K2].
      destruct (max <=? N.of_nat (read + length g)).
      * rewrite !set_len_ok by lia. cbn [same_obs]. unfold contents. cbn [b_data b_len].
        rewrite P1, P2, D. auto.
      * assert (Q1 : b_len (put b1 read g) = capacity (put b1 read g)) by (change (b_len b1 = capacity (put b1 read g)); lia).
        assert (Q2 : b_len (put b2 read g) = capacity (put b2 read g)) by (change (b_len b2 = capacity (put b2 read g)); lia).
        destruct (rtm_reserve_spec grow j1 (read + length g) (put b1 read g) G Q1 ltac:(lia))
          as (r1 & E1 & A1 & _ & _ & B1).
        destruct (rtm_reserve_spec grow j2 (read + length g) (put b2 read g) G Q2 ltac:(lia))
          as (r2 & E2 & A2 & _ & _ & B2).
        pose proof (rtm_reserve_cap grow j1 j2 _ _ _ r1 r2 Q1 Q2 ltac:(lia) E1 E2) as Cr.
        rewrite E1, E2. apply IH; auto.
        rewrite <- (firstn_firstn_le (read + length g) (capacity (put b1 read g)) (b_data r1)) by lia.
        rewrite <- (firstn_firstn_le (read + length g) (capacity (put b2 read g)) (b_data r2)) by lia.
        rewrite B1, B2, P1, P2, D. reflexivity.
  - rewrite !set_len_ok by lia. cbn [same_obs]. unfold contents. cbn [b_data b_len]. auto.
  - destruct patience as [[|k]|].
    + rewrite !set_len_ok by lia. cbn [same_obs]. unfold contents. cbn [b_data b_len]. auto.
    + apply IH; auto.
    + apply IH; auto.
Qed.

(** The answer depends on the initial buffer only through its visible bytes and its capacity;
    neither the bytes behind its length nor any fresh memory can show up in it. *)
Lemma read_poll_no_junk grow j1 j2 b1 b2 cs max patience :
  grow_ok grow -> wf b1 -> wf b2 -> contents b1 = contents b2 -> capacity b1 = capacity b2 ->
  same_obs (read_poll grow j1 false true b1 cs max patience) (read_poll grow j2 false true b2 cs max patience).
Proof.
  intros G W1 W2 C K.
  assert (L : b_len b1 = b_len b2).
  { unfold contents, wf, capacity in *. apply (f_equal (@length N)) in C.
    rewrite !firstn_len_le in C by lia. exact C. }
  unfold read_poll. rewrite <- L.
  destruct (max <=? N.of_nat (b_len b1)); [cbn [same_obs]; auto|].
  rewrite !set_len_ok by lia. unfold capacity at 1 2 5 6. cbn [b_data b_len].
  replace (Nat.eqb (length (b_data b1)) (capacity b1)) with true by (unfold capacity; lia).
  replace (Nat.eqb (length (b_data b2)) (capacity b2)) with true by (unfold capacity; lia).
  unfold wf in *.
  destruct (rtm_reserve_spec grow j1 (b_len b1) (mkbuf (b_data b1) (capacity b1)) G eq_refl W1)
    as (r1 & E1 & A1 & _ & _ & B1).
  destruct (rtm_reserve_spec grow j2 (b_len b1) (mkbuf (b_data b2) (capacity b2)) G eq_refl ltac:(unfold capacity in *; cbn [b_data]; lia))
    as (r2 & E2 & A2 & _ & _ & B2).
  pose proof (rtm_reserve_cap grow j1 j2 _ (mkbuf (b_data b1) (capacity b1)) (mkbuf (b_data b2) (capacity b2)) r1 r2 eq_refl eq_refl K E1 E2) as Cr.
  rewrite E1, E2. apply rtm_loop_no_junk; auto.
  unfold capacity in B1 at 1. unfold capacity in B2 at 1. cbn [b_data] in B1, B2.
  rewrite <- (firstn_firstn_le (b_len b1) (length (b_data b1)) (b_data r1)) by exact W1.
  rewrite <- (firstn_firstn_le (b_len b1) (length (b_data b2)) (b_data r2)) by (unfold capacity in *; lia).
  rewrite B1, B2. unfold contents in C. rewrite <- L in C. exact C.
Qed.

Lemma read_no_junk grow j1 j2 b1 b2 cs max :
  grow_ok grow -> wf b1 -> wf b2 -> contents b1 = contents b2 -> capacity b1 = capacity b2 ->
  same_obs (read_to_end_or_max grow j1 false b1 cs max) (read_to_end_or_max grow j2 false b2 cs max).
Proof. intros. unfold read_to_end_or_max. apply read_poll_no_junk; assumption. Qed.

(** the same for the file reader and the write buffer (immediate from their equations) *)
Lemma read_file_no_junk grow j1 j2 cs :
  grow_ok grow -> N.of_nat (stream_len cs) < u64_max -> read_file grow j1 cs = read_file grow j2 cs.
Proof. intros G H. rewrite !read_file_spec by assumption. reflexivity. Qed.

Lemma wb_session_no_junk g1 g2 j1 j2 c l :
  grow_ok g1 -> grow_ok g2 -> wb_session g1 j1 c l = wb_session g2 j2 c l.
Proof. intros G1 G2. rewrite !wb_session_spec by assumption. reflexivity. Qed.

(** no_junk: the four independence statements together *)
Lemma no_junk_lemma : forall grow j1 j2, grow_ok grow ->
  (forall c writes, wb_session grow j1 c writes = wb_session grow j2 c writes) /\
  (forall checked b1 b2 s e rep, wf b1 -> wf b2 -> fits b1 rep -> contents b1 = contents b2 ->
     match cow_replace grow j1 checked b1 s e rep, cow_replace grow j2 checked b2 s e rep with
     | Ok r1, Ok r2 => contents r1 = contents r2
     | Panic, Panic => True
     | _, _ => False
     end) /\
  (forall b1 b2 cs max patience, wf b1 -> wf b2 -> contents b1 = contents b2 -> capacity b1 = capacity b2 ->
     same_obs (read_poll grow j1 false true b1 cs max patience) (read_poll grow j2 false true b2 cs max patience)) /\
  (forall cs, N.of_nat (stream_len cs) < u64_max -> read_file grow j1 cs = read_file grow j2 cs).
Proof.
  intros grow j1 j2 G. repeat split.
  - intros. apply wb_session_no_junk; assumption.
  - intros. apply replace_no_junk; assumption.
  - intros. apply read_poll_no_junk; assumption.
  - intros. apply read_file_no_junk; assumption.
Qed.

(** ---- what [write] returns ---- *)
Lemma sum_len_concat l : length (concat l) = sum_len l.
Proof. induction l as [|s r IH]; [reflexivity|]. cbn [concat sum_len]. rewrite app_length, IH. reflexivity. Qed.

Lemma wb_writes_n_spec grow junk l : forall w t,
  wb_writes_n grow junk w l t = obind (wb_writes grow junk w l) (fun w' => Ok (w', (t + sum_len l)%nat)).
Proof.
  induction l as [|s r IH]; intros w t; cbn [wb_writes_n wb_writes sum_len obind].
  - rewrite Nat.add_0_r. reflexivity.
  - unfold wb_write_n. destruct (wb_write grow junk w s) as [w1| |]; cbn [obind fst snd]; try reflexivity.
    rewrite IH. destruct (wb_writes grow junk w1 r) as [w2| |]; cbn [obind]; try reflexivity.
    f_equal. f_equal. lia.
Qed.

(** writeable_counts: the bytes are the appended writes and the counts [write] returned add up
    to their number *)
Lemma wb_session_n_spec grow junk c l :
  grow_ok grow -> wb_session_n grow junk c l = Ok (wctor_init c ++ concat l, length (concat l)).
Proof.
  intros G. unfold wb_session_n.
  destruct (wb_make_inv junk c) as (w & -> & I). cbn [obind].
  rewrite wb_writes_n_spec.
  destruct (wb_writes_inv grow junk l w _ G I) as (w' & -> & I'). cbn [obind fst snd].
  destruct (wb_into_inner_inv w' _ I') as (b & -> & C & _). cbn [obind]. rewrite C, sum_len_concat. reflexivity.
Qed.

(** ---- BytesCow: both representations, chains of edits ---- *)
Definition fits_bytes (body rep : bytes) : Prop :=
  2 * N.of_nat (length body) + N.of_nat (length rep) <= u64_max.

Lemma wf_len b : wf b -> b_len b = length (contents b).
Proof. intros W. unfold contents. symmetry. apply firstn_len_le. exact W. Qed.

Lemma cow_ref_mut_wf junk c :
  cow_wf c -> wf (cow_ref_mut junk c) /\ contents (cow_ref_mut junk c) = cow_bytes c.
Proof. destruct c as [d|b]; cbn [cow_wf cow_ref_mut cow_bytes]; intros W; [apply bm_of_wf|auto]. Qed.

Lemma cow_replace_c_total grow junk checked c s e rep :
  grow_ok grow -> cow_wf c -> fits_bytes (cow_bytes c) rep ->
  if e <=? N.of_nat (length (cow_bytes c)) then
    exists c', cow_replace_c grow junk checked c s e rep = Ok c' /\ cow_wf c' /\
               cow_bytes c' = splice (N.to_nat (N.min s e)) (N.to_nat e) rep (cow_bytes c)
  else cow_replace_c grow junk checked c s e rep = Panic.
Proof.
  intros G W Fit. destruct (cow_ref_mut_wf junk c W) as [Wb Cb].
  assert (L : b_len (cow_ref_mut junk c) = length (cow_bytes c)) by (rewrite <- Cb; apply wf_len; exact Wb).
  assert (Fb : fits (cow_ref_mut junk c) rep) by (unfold fits, fits_bytes in *; rewrite L; exact Fit).
  pose proof (replace_total grow junk checked _ s e rep G Wb Fb) as T. rewrite L in T.
  unfold cow_replace_c.
  destruct (e <=? N.of_nat (length (cow_bytes c))).
  - destruct T as (b' & -> & W' & C'). cbn [obind]. exists (CMut b'). rewrite <- Cb. auto.
  - rewrite T. reflexivity.
Qed.

(** every step of the chain fits in memory *)
Fixpoint fits_edits (body : bytes) (es : list edit) : Prop :=
  match es with
  | [] => True
  | (s, e, rep) :: r =>
      fits_bytes body rep /\
      (e <= N.of_nat (length body) -> fits_edits (splice (N.to_nat (N.min s e)) (N.to_nat e) rep body) r)
  end.

Lemma cow_edits_spec grow junk checked es : forall c,
  grow_ok grow -> cow_wf c -> fits_edits (cow_bytes c) es ->
  match splice_edits (cow_bytes c) es with
  | Ok d => exists c', cow_edits grow junk checked c es = Ok c' /\ cow_wf c' /\ cow_bytes c' = d
  | Panic => cow_edits grow junk checked c es = Panic
  | Err _ => False
  end.
Proof.
  induction es as [|[[s e] rep] r IH]; intros c G W Fit; cbn [splice_edits cow_edits].
  - exists c. auto.
  - destruct Fit as [F1 F2].
    pose proof (cow_replace_c_total grow junk checked c s e rep G W F1) as T.
    destruct (N.leb_spec e (N.of_nat (length (cow_bytes c)))) as [Hin|Hout].
    + destruct T as (c1 & -> & W1 & C1). cbn [obind]. rewrite <- C1. apply IH; auto.
      rewrite C1. apply F2. exact Hin.
    + rewrite T. reflexivity.
Qed.

(** ---- the file functions: the buffers are transparent, the cache only ever holds what a file held ---- *)
Definition content_of (fs : fsys) (p : N) : option bytes :=
  match alookup p fs with
  | None => None
  | Some n => match pre_fail (fn_stream n) with (d, None) => Some d | (_, Some _) => None end
  end.

Lemma fs_content_eq fs p : fs_content fs p = Ok (content_of fs p).
Proof. reflexivity. Qed.

Definition fs_small (fs : fsys) : Prop :=
  forall p n, alookup p fs = Some n -> N.of_nat (stream_len (fn_stream n)) < u64_max.
Definition op_small (op : fop) : Prop :=
  match op with FWrite _ cs _ => N.of_nat (stream_len cs) < u64_max | _ => True end.

Lemma fs_read_content grow junk fs p :
  grow_ok grow -> fs_small fs -> fs_read grow junk fs p = fs_content fs p.
Proof.
  intros G S. unfold fs_read, fs_content. destruct (alookup p fs) as [n|] eqn:E; [|reflexivity].
  rewrite read_file_spec by (auto; eapply S; exact E).
  destruct (pre_fail (fn_stream n)) as [d [e|]]; reflexivity.
Qed.

Lemma alookup_remove p q (fs : fsys) v :
  alookup q (fs_remove p fs) = Some v -> alookup q fs = Some v.
Proof.
  induction fs as [|[k w] r IH]; cbn [fs_remove alookup]; [auto|].
  destruct (N.eqb_spec p k) as [->|Hpk].
  - intros H. specialize (IH H). destruct (N.eqb_spec q k) as [->|]; [|exact IH].
    exfalso. clear IH. revert H. induction r as [|[k' w'] r' IH']; cbn [fs_remove alookup]; [discriminate|].
    destruct (N.eqb_spec k k') as [->|Hk]; [exact IH'|]. cbn [alookup].
    destruct (N.eqb_spec k k'); [contradiction|exact IH'].
  - cbn [alookup]. destruct (q =? k); auto.
Qed.

Lemma fc_read_ext r1 r2 now v fs p cache :
  r1 fs p = r2 fs p -> fc_read r1 now v fs p cache = fc_read r2 now v fs p cache.
Proof. intros E. unfold fc_read. rewrite E. reflexivity. Qed.

(** files_transparent: whatever the history, reading through [read_to_end_or_max] into a
    [BytesMut] gives the answers that reading the content directly gives *)
Lemma files_run_transparent grow junk now ops : forall fs c,
  grow_ok grow -> fs_small fs -> Forall op_small ops ->
  files_run (fs_read grow junk) now fs c ops = files_run fs_content now fs c ops.
Proof.
  induction ops as [|op r IH]; intros fs c G S Hs; [reflexivity|].
  inversion Hs as [|? ? Hop Hr]; subst. destruct op as [p cs m|p|v p cached]; cbn [files_run].
  - apply IH; auto. intros q n. cbn [alookup]. destruct (q =? p); [|apply S].
    intros H. injection H as <-. exact Hop.
  - apply IH; auto. intros q n H. eapply S. eapply alookup_remove. exact H.
  - rewrite (fc_read_ext (fs_read grow junk) fs_content) by (apply fs_read_content; auto).
    destruct (fc_read fs_content now v fs p (if cached then Some c else None)) as [a| |]; cbn [obind]; try reflexivity.
    rewrite IH by auto. reflexivity.
Qed.

(** one call: a cached entry answers whatever the file system holds now ... *)
Lemma fc_read_hit reader now v fs p c opt :
  alookup p c = Some opt ->
  fc_read reader now v fs p (Some c) =
  Ok (match opt with
      | None => None
      | Some (m, d) => Some (d, match v with VCachedMtime => Some m | _ => None end)
      end, Some c).
Proof. intros H. unfold fc_read. rewrite H. reflexivity. Qed.

(** ... with no cache the answer is the file as it is now ... *)
Lemma fc_read_uncached now v fs p :
  fc_read fs_content now v fs p None =
  Ok (match content_of fs p with
      | None => None
      | Some d => match v with
                  | VCachedMtime => match fs_stat fs p with Some m => Some (d, Some m) | None => None end
                  | _ => Some (d, None)
                  end
      end, None).
Proof.
  unfold fc_read. rewrite fs_content_eq. cbn [obind].
  destruct v, (content_of fs p); reflexivity.
Qed.

Lemma content_stat fs p d : content_of fs p = Some d -> exists m, fs_stat fs p = Some m.
Proof. unfold content_of, fs_stat. destruct (alookup p fs) as [n|]; [eexists; reflexivity|discriminate]. Qed.

(** ... and a miss of [file_cached] / [file_cached_with_mtime] answers with the file as it is
    now and remembers exactly that: [None] is cached exactly when the file could not be read. *)
Lemma fc_read_miss now v fs p c :
  alookup p c = None -> v <> VFile ->
  exists m0,
  fc_read fs_content now v fs p (Some c) =
  Ok (match content_of fs p with
      | None => (None, Some ((p, None) :: c))
      | Some d => (Some (d, match v with VCachedMtime => Some m0 | _ => None end), Some ((p, Some (m0, d)) :: c))
      end) /\ (forall d, content_of fs p = Some d -> fs_stat fs p = Some m0).
Proof.
  intros H Hv. unfold fc_read. rewrite H, fs_content_eq. cbn [obind].
  destruct (content_of fs p) as [d|] eqn:Ec.
  - destruct (content_stat fs p d Ec) as [m Hm]. exists m. rewrite Hm.
    destruct v; [contradiction| |]; split; auto; intros d' Hd; exact Hm.
  - exists 0. destruct v; [contradiction| |]; split; auto; discriminate.
Qed.

(** histories: every answer is what the file held (bytes and modification time) at some
    moment up to the read -- at the moment of the read when no cache is passed *)
Definition cache_sound (past : list fsys) (c : fcache) : Prop :=
  forall p opt, alookup p c = Some opt -> exists fs, In fs past /\
    match opt with
    | Some (m, d) => content_of fs p = Some d /\ fs_stat fs p = Some m
    | None => content_of fs p = None
    end.

Definition answer_from (states : list fsys) (p : N) (a : fres) : Prop :=
  exists fs, In fs states /\
    match a with
    | Some (d, om) => content_of fs p = Some d /\ (forall m, om = Some m -> fs_stat fs p = Some m)
    | None => content_of fs p = None
    end.

Fixpoint answers_ok (past : list fsys) (fs : fsys) (ops : list fop) (rs : list fres) : Prop :=
  match ops with
  | [] => rs = []
  | FWrite p cs m :: r => answers_ok (fs :: past) ((p, mkfnode cs m) :: fs) r rs
  | FRemove p :: r => answers_ok (fs :: past) (fs_remove p fs) r rs
  | FRead v p cached :: r =>
      match rs with
      | a :: rs' => answer_from (if cached then fs :: past else [fs]) p a /\ answers_ok past fs r rs'
      | [] => False
      end
  end.

Lemma cache_sound_more past past' c : incl past past' -> cache_sound past c -> cache_sound past' c.
Proof. intros I S p opt H. destruct (S p opt H) as (fs & Hi & Hc). exists fs. split; [apply I; exact Hi|exact Hc]. Qed.

Lemma fc_read_sound now v fs p (cached : bool) c past a c' :
  cache_sound (fs :: past) c ->
  fc_read fs_content now v fs p (if cached then Some c else None) = Ok (a, c') ->
  answer_from (if cached then fs :: past else [fs]) p a /\
  cache_sound (fs :: past) (match c' with Some c1 => c1 | None => c end).
Proof.
  intros S E. destruct cached; cbv iota in E |- *.
  - destruct (alookup p c) as [opt|] eqn:El.
    + rewrite (fc_read_hit _ _ _ _ _ _ _ El) in E. injection E as <- <-. split; [|exact S].
      destruct (S p opt El) as (fs' & Hi & Hc). exists fs'. split; [exact Hi|].
      destruct opt as [[m d]|]; [|exact Hc]. destruct Hc as [Hc Hm]. split; [exact Hc|].
      intros m0 Hm0. destruct v; try discriminate. injection Hm0 as <-. exact Hm.
    + destruct v.
      * (* file(): a miss reads and does not fill *)
        unfold fc_read in E. rewrite El, fs_content_eq in E. cbn [obind] in E. injection E as <- <-.
        split; [|exact S]. exists fs. split; [left; reflexivity|].
        destruct (content_of fs p); cbn [option_map]; [split; [reflexivity|discriminate]|reflexivity].
      * destruct (fc_read_miss now VCached fs p c El ltac:(discriminate)) as (m0 & E' & Hm0).
        pose proof (eq_trans (eq_sym E') E) as E2. clear E E'.
        destruct (content_of fs p) as [d|] eqn:Ec; injection E2 as <- <-.
        -- split.
           ++ exists fs. split; [left; reflexivity|]. split; [exact Ec|discriminate].
           ++ intros q opt. cbn [alookup]. destruct (N.eqb_spec q p) as [->|]; [|apply S].
              intros H. injection H as <-. exists fs. split; [left; reflexivity|].
              split; [exact Ec|apply (Hm0 d); first [exact Ec|reflexivity]].
        -- split.
           ++ exists fs. split; [left; reflexivity|exact Ec].
           ++ intros q opt. cbn [alookup]. destruct (N.eqb_spec q p) as [->|]; [|apply S].
              intros H. injection H as <-. exists fs. split; [left; reflexivity|exact Ec].
      * destruct (fc_read_miss now VCachedMtime fs p c El ltac:(discriminate)) as (m0 & E' & Hm0).
        pose proof (eq_trans (eq_sym E') E) as E2. clear E E'.
        destruct (content_of fs p) as [d|] eqn:Ec; injection E2 as <- <-.
        -- split.
           ++ exists fs. split; [left; reflexivity|]. split; [exact Ec|].
              intros m Hm. injection Hm as <-. apply (Hm0 d); first [exact Ec|reflexivity].
           ++ intros q opt. cbn [alookup]. destruct (N.eqb_spec q p) as [->|]; [|apply S].
              intros H. injection H as <-. exists fs. split; [left; reflexivity|].
              split; [exact Ec|apply (Hm0 d); first [exact Ec|reflexivity]].
        -- split.
           ++ exists fs. split; [left; reflexivity|exact Ec].
           ++ intros q opt. cbn [alookup]. destruct (N.eqb_spec q p) as [->|]; [|apply S].
              intros H. injection H as <-. exists fs. split; [left; reflexivity|exact Ec].
  - rewrite fc_read_uncached in E. injection E as <- <-. split; [|exact S].
    exists fs. split; [left; reflexivity|].
    destruct (content_of fs p) as [d|] eqn:Ec; [|reflexivity].
    destruct v; try (split; [reflexivity|discriminate]).
    destruct (content_stat fs p d Ec) as [m Hm]. rewrite Hm. split; [reflexivity|].
    intros m1 H1. injection H1 as <-. first [exact Hm|reflexivity].
Qed.

Lemma files_answers_sound now ops : forall past fs c rs,
  cache_sound (fs :: past) c ->
  files_run fs_content now fs c ops = Ok rs -> answers_ok past fs ops rs.
Proof.
  induction ops as [|op r IH]; intros past fs c rs S E.
  - cbn in E. injection E as <-. reflexivity.
  - destruct op as [p cs m|p|v p cached]; cbn [files_run answers_ok] in *.
    + eapply IH; [|exact E]. eapply cache_sound_more; [|exact S]. intros x Hx. right. exact Hx.
    + eapply IH; [|exact E]. eapply cache_sound_more; [|exact S]. intros x Hx. right. exact Hx.
    + destruct (fc_read fs_content now v fs p (if cached then Some c else None)) as [[a c']| |] eqn:Ef;
        cbn [obind fst snd] in E; try discriminate.
      destruct (fc_read_sound now v fs p cached c past a c' S Ef) as [Ha Sc].
      destruct (files_run fs_content now fs (match c' with Some c1 => c1 | None => c end) r) as [rs'| |] eqn:Er;
        cbn [obind] in E; try discriminate.
      injection E as <-. split; [exact Ha|]. eapply IH; [exact Sc|exact Er].
Qed.

(** the two together, for the model of the real functions and from the empty state *)
Lemma files_history_spec grow junk now ops rs :
  grow_ok grow -> Forall op_small ops ->
  files_run (fs_read grow junk) now [] [] ops = Ok rs -> answers_ok [] [] ops rs.
Proof.
  intros G Hs E. rewrite files_run_transparent in E; auto.
  - eapply files_answers_sound; [|exact E]. intros p opt H. discriminate.
  - intros p n H. discriminate.
Qed.

(** nothing in a history makes the model panic or fail *)
Lemma files_run_total now ops : forall fs c, exists rs, files_run fs_content now fs c ops = Ok rs.
Proof.
  induction ops as [|op r IH]; intros fs c; [eexists; reflexivity|].
  destruct op as [p cs m|p|v p cached]; cbn [files_run]; try apply IH.
  assert (H : exists a, fc_read fs_content now v fs p (if cached then Some c else None) = Ok a).
  { unfold fc_read. rewrite fs_content_eq. cbn [obind].
    destruct (match (if cached then Some c else None) with Some c0 => alookup p c0 | None => None end); [eexists; reflexivity|].
    destruct v, (if cached then Some c else None), (content_of fs p); try (eexists; reflexivity);
      destruct (fs_stat fs p); eexists; reflexivity. }
  destruct H as [a ->]. cbn [obind].
  destruct (IH fs (match snd a with Some c' => c' | None => c end)) as [rs ->]. eexists; reflexivity.
Qed.

Lemma files_transparent_lemma grow junk now ops :
  grow_ok grow -> Forall op_small ops ->
  files_run (fs_read grow junk) now [] [] ops = files_run fs_content now [] [] ops.
Proof. intros G Hs. apply files_run_transparent; auto. intros p n Hl. discriminate. Qed.

Lemma read_awaited_lemma grow junk legacy b cs max :
  (forall guard b' rest, read_poll grow junk legacy guard b cs max None <> RCancelled b' rest) /\
  read_poll grow junk legacy false b cs max None = read_poll grow junk legacy true b cs max None.
Proof. split; [intros; apply awaited_never_cancelled|apply guard_irrelevant_when_awaited]. Qed.
