(** C16 — the pipeline model of Model/RunOrder.v satisfies the declarative run-order
    specification of Model/RunSpec.v, and that specification determines the answer, the trace
    and the cache. *)
From KV Require Import Bytes RustStd Registry PresentLine RunOrder RunSpec RegistryProofs PresentLineProofs RunOrderProofs.
From Coq Require Import ZifyBool ZifyNat ZifyN.
Open Scope N_scope.

(** ---- association lists in strictly descending priority order, read as maps ---- *)
Section Maps.
Context {A : Type}.
Implicit Types l : list (Z * A).

Lemma ref_mem_in l p : ref_mem l p = true <-> In p (map fst l).
Proof.
  unfold ref_mem. rewrite existsb_exists. split.
  - intros (e & Hin & E). apply in_map_iff. exists e. split; [lia|exact Hin].
  - intros Hin. apply in_map_iff in Hin as (e & E & Hin). exists e. split; [exact Hin|lia].
Qed.

Lemma ref_get_in l i x : ref_get l i = Some x -> In (i, x) l.
Proof.
  induction l as [|[q b] r IH]; cbn [ref_get]; [discriminate|].
  destruct (Z.eqb_spec q i) as [->|Hn]; intros H.
  - inversion H; subst. left. reflexivity.
  - right. apply IH. exact H.
Qed.

Lemma desc_in_get l i x : desc l -> In (i, x) l -> ref_get l i = Some x.
Proof.
  induction l as [|[q b] r IH]; intros Hd Hin; [destruct Hin|].
  apply desc_inv in Hd as [Hd HF]. cbn [ref_get]. destruct Hin as [E|Hin].
  - inversion E; subst. rewrite Z.eqb_refl. reflexivity.
  - destruct (Z.eqb_spec q i) as [->|Hn]; [|apply IH; assumption].
    rewrite Forall_forall in HF. specialize (HF _ Hin). cbn [fst] in HF. lia.
Qed.

Lemma desc_sorted_prios l : desc l -> StronglySorted (fun a c => (c < a)%Z) (map fst l).
Proof.
  induction l as [|[q b] r IH]; intros Hd; [constructor|].
  apply desc_inv in Hd as [Hd HF]. cbn [map fst]. constructor; [apply IH; exact Hd|].
  apply Forall_forall. intros p Hp. apply in_map_iff in Hp as (e & <- & Hin).
  rewrite Forall_forall in HF. apply HF. exact Hin.
Qed.

Lemma all_once_desc_of_desc l : desc l -> all_once_desc l (map fst l).
Proof.
  intros Hd. split; [apply desc_sorted_prios; exact Hd|]. intros p. symmetry. apply ref_mem_in.
Qed.
End Maps.

Lemma sorted_same_mem_eq : forall ps qs : list Z,
  StronglySorted (fun a c => (c < a)%Z) ps -> StronglySorted (fun a c => (c < a)%Z) qs ->
  (forall p, In p ps <-> In p qs) -> ps = qs.
Proof.
  induction ps as [|p ps IH]; intros qs Hp Hq Hm.
  - destruct qs as [|q qs]; [reflexivity|]. exfalso. apply (proj2 (Hm q)). left. reflexivity.
  - destruct qs as [|q qs]; [exfalso; apply (proj1 (Hm p)); left; reflexivity|].
    inversion Hp as [|? ? Hp' HFp]; subst. inversion Hq as [|? ? Hq' HFq]; subst.
    rewrite Forall_forall in HFp, HFq.
    assert (p = q).
    { destruct (proj1 (Hm p) (or_introl eq_refl)) as [E|Hin]; [symmetry; exact E|].
      destruct (proj2 (Hm q) (or_introl eq_refl)) as [E|Hin2]; [exact E|].
      specialize (HFq _ Hin). specialize (HFp _ Hin2). lia. }
    subst q. f_equal. apply IH; try assumption. intros x. split; intros Hx.
    + destruct (proj1 (Hm x) (or_intror Hx)) as [E|Hin]; [|exact Hin]. subst x. specialize (HFp _ Hx). lia.
    + destruct (proj2 (Hm x) (or_intror Hx)) as [E|Hin]; [|exact Hin]. subst x. specialize (HFq _ Hx). lia.
Qed.

Lemma all_once_desc_unique {A} (l : list (Z * A)) ps qs : all_once_desc l ps -> all_once_desc l qs -> ps = qs.
Proof.
  intros [S1 M1] [S2 M2]. apply sorted_same_mem_eq; try assumption.
  intros p. rewrite M1, M2. reflexivity.
Qed.

Lemma sorted_filter {X} (R : X -> X -> Prop) (f : X -> bool) l : StronglySorted R l -> StronglySorted R (filter f l).
Proof.
  induction 1 as [|x l Hs IH HF]; cbn [filter]; [constructor|].
  destruct (f x); [|exact IH]. constructor; [exact IH|].
  apply Forall_forall. intros y Hy. apply filter_In in Hy as [Hy _]. rewrite Forall_forall in HF. apply HF. exact Hy.
Qed.

(** ---- Prime ---- *)
Section Stages.
Variable b : behaviours.

Lemma prime_chain_resolve : forall l2 st,
  (forall i pr, In (i, pr) l2 -> ref_get (b_prime b) i = Some pr) ->
  prime_chain b st (snd (resolve_prime l2 st)) (fst (resolve_prime l2 st)).
Proof.
  induction l2 as [|[i pr] r IH]; intros st Hin; [constructor|].
  cbn [resolve_prime]. specialize (IH (prime_apply pr st) (fun j q H => Hin j q (or_intror H))).
  destruct (resolve_prime r (prime_apply pr st)) as [st' tr]. cbn [fst snd] in *.
  econstructor; [apply Hin; left; reflexivity|exact IH].
Qed.

Lemma prime_spec_model st : desc (b_prime b) ->
  prime_spec b st (snd (resolve_prime (b_prime b) st)) (fst (resolve_prime (b_prime b) st)).
Proof.
  intros Hd. split.
  - apply prime_chain_resolve. intros i pr Hin. apply desc_in_get; assumption.
  - exists (map fst (b_prime b)). split; [|apply all_once_desc_of_desc; exact Hd].
    rewrite prime_trace_prios, map_map. reflexivity.
Qed.

Lemma prime_chain_unique : forall st tr1 st1, prime_chain b st tr1 st1 ->
  forall tr2 st2, prime_chain b st tr2 st2 -> map event_prio tr1 = map event_prio tr2 -> tr1 = tr2 /\ st1 = st2.
Proof.
  induction 1 as [st|st i pr tr st' Hg Hc IH]; intros tr2 st2 H2 Hm.
  - inversion H2; subst; [split; reflexivity|discriminate].
  - inversion H2 as [|? j pr' tr' ? Hg' Hc']; subst; [discriminate|].
    cbn [map event_prio] in Hm. inversion Hm as [[Hij Hm']]. subst j.
    rewrite Hg in Hg'. inversion Hg'; subst pr'.
    destruct (IH _ _ Hc' Hm') as [-> ->]. split; reflexivity.
Qed.

Lemma prime_spec_unique st tr1 st1 tr2 st2 :
  prime_spec b st tr1 st1 -> prime_spec b st tr2 st2 -> tr1 = tr2 /\ st1 = st2.
Proof.
  intros [C1 (ps & M1 & A1)] [C2 (qs & M2 & A2)].
  eapply prime_chain_unique; try eassumption.
  rewrite M1, M2, (all_once_desc_unique _ _ _ A1 A2). reflexivity.
Qed.

(** ---- Prepare ---- *)
Lemma first_match_max {R} (l : list (Z * ((bytes -> bool) * (bytes -> R)))) uri : desc l ->
  match first_match l uri with
  | Some (i, h) => exists pred, ref_get l i = Some (pred, h) /\ pred uri = true /\
                                forall j pred' h', ref_get l j = Some (pred', h') -> pred' uri = true -> (j <= i)%Z
  | None => forall j pred' h', ref_get l j = Some (pred', h') -> pred' uri = false
  end.
Proof.
  induction l as [|[q [pred h]] r IH]; intros Hd; cbn [first_match].
  - intros j pred' h' H. discriminate.
  - apply desc_inv in Hd as [Hd HF]. specialize (IH Hd). destruct (pred uri) eqn:Ep.
    + exists pred. cbn [ref_get]. rewrite Z.eqb_refl. split; [reflexivity|]. split; [exact Ep|].
      intros j pred' h' Hg Hp. destruct (Z.eqb_spec q j) as [->|Hn]; [lia|].
      apply ref_get_in in Hg. rewrite Forall_forall in HF. specialize (HF _ Hg). cbn [fst] in HF. lia.
    + destruct (first_match r uri) as [[i h1]|].
      * destruct IH as (pred1 & Hg & Hp & Hmax). exists pred1.
        assert (Hlt : (i < q)%Z).
        { apply ref_get_in in Hg. rewrite Forall_forall in HF. specialize (HF _ Hg). exact HF. }
        cbn [ref_get]. destruct (Z.eqb_spec q i); [lia|]. split; [exact Hg|]. split; [exact Hp|].
        intros j pred' h' Hg' Hp'. destruct (Z.eqb_spec q j) as [->|Hn].
        -- inversion Hg'; subst. rewrite Ep in Hp'. discriminate.
        -- eapply Hmax; eassumption.
      * intros j pred' h' Hg'. cbn [ref_get] in Hg'. destruct (Z.eqb_spec q j) as [->|Hn].
        -- inversion Hg'; subst. exact Ep.
        -- eapply IH; eassumption.
Qed.

Lemma prepare_spec_model st : desc (b_prepare_fn b) ->
  prepare_spec b st (fst (resolve_prepare (b_single b) (b_prepare_fn b) st))
                    (snd (resolve_prepare (b_single b) (b_prepare_fn b) st)).
Proof.
  intros Hd. unfold prepare_spec, resolve_prepare.
  destruct (assoc (prepare_key st) (b_single b)) as [h|] eqn:Ea.
  { unfold handler in Ea. rewrite Ea. split; reflexivity. }
  unfold handler in Ea. rewrite Ea.
  pose proof (first_match_max (b_prepare_fn b) (fst st) Hd) as Hm. unfold handler in Hm.
  destruct (first_match (b_prepare_fn b) (fst st)) as [[i h]|].
  - left. destruct Hm as (pred & Hg & Hp & Hmax). exists i, pred, h. cbn [fst snd]. repeat split; assumption.
  - right. cbn [fst snd]. repeat split. exact Hm.
Qed.

Lemma prepare_spec_unique st r1 t1 r2 t2 : prepare_spec b st r1 t1 -> prepare_spec b st r2 t2 -> r1 = r2 /\ t1 = t2.
Proof.
  unfold prepare_spec. destruct (assoc (prepare_key st) (b_single b)) as [h|].
  - intros [-> ->] [-> ->]. split; reflexivity.
  - intros [(i & p & h & Hg & Hp & Hmax & -> & ->)|(Hn & -> & ->)] [(i' & p' & h' & Hg' & Hp' & Hmax' & -> & ->)|(Hn' & -> & ->)].
    + assert (i = i') by (pose proof (Hmax _ _ _ Hg' Hp'); pose proof (Hmax' _ _ _ Hg Hp); lia). subst i'.
      rewrite Hg in Hg'. inversion Hg'; subst. split; reflexivity.
    + rewrite (Hn' _ _ _ Hg) in Hp. discriminate.
    + rewrite (Hn _ _ _ Hg') in Hp'. discriminate.
    + split; reflexivity.
Qed.

(** ---- Present ---- *)
Variable line : bytes -> option parsed.
Lemma present_spec_model parse uri body : desc (b_present_fn b) -> parse body = Ok (line body) ->
  exists body' tr,
    resolve_present parse (b_present_fn b) (b_present_file b) (b_present_internal b) uri body = Ok (body', tr) /\
    present_spec line b uri body body' tr.
Proof.
  intros Hd Hp. unfold resolve_present. rewrite Hp.
  set (sel := filter (fun x : Z * (bytes -> bool) => snd x uri) (b_present_fn b)).
  assert (Hps : StronglySorted (fun a c => (c < a)%Z) (map fst sel) /\
                forall p, In p (map fst sel) <-> exists pred, ref_get (b_present_fn b) p = Some pred /\ pred uri = true).
  { split.
    - apply desc_sorted_prios. apply sorted_filter. exact Hd.
    - intros p. split.
      + intros Hin. apply in_map_iff in Hin as ([q pred] & <- & Hin). apply filter_In in Hin as [Hin Hp'].
        exists pred. split; [apply desc_in_get; assumption|exact Hp'].
      + intros (pred & Hg & Hp'). apply in_map_iff. exists (p, pred). split; [reflexivity|].
        apply filter_In. split; [apply ref_get_in; exact Hg|exact Hp']. }
  destruct Hps as [Hs Hm].
  destruct (line body) as [p|] eqn:El; eexists; eexists; (split; [reflexivity|]); exists (map fst sel);
    rewrite El;
    (split; [exact Hs|split; [exact Hm|split; [|reflexivity]]]);
    unfold present_events; fold sel; rewrite map_map; reflexivity.
Qed.

Lemma present_spec_unique uri body b1 t1 b2 t2 :
  present_spec line b uri body b1 t1 -> present_spec line b uri body b2 t2 -> b1 = b2 /\ t1 = t2.
Proof.
  intros (ps & S1 & M1 & -> & ->) (qs & S2 & M2 & -> & ->).
  assert (ps = qs) as ->.
  { apply sorted_same_mem_eq; try assumption. intros p. rewrite M1, M2. reflexivity. }
  split; reflexivity.
Qed.

(** ---- Package / Post ---- *)
Lemma stage_spec_model {X} (mk : Z -> event) (l : list (Z * X)) : desc l -> stage_spec mk l (map (fun e => mk (fst e)) l).
Proof.
  intros Hd. exists (map fst l). split; [rewrite map_map; reflexivity|apply all_once_desc_of_desc; exact Hd].
Qed.
Lemma stage_spec_unique {X} (mk : Z -> event) (l : list (Z * X)) t1 t2 : stage_spec mk l t1 -> stage_spec mk l t2 -> t1 = t2.
Proof.
  intros (ps & -> & A1) (qs & -> & A2). rewrite (all_once_desc_unique _ _ _ A1 A2). reflexivity.
Qed.
End Stages.

(** ---- one request ---- *)
Theorem serve_meets_spec_gen line parse (h : hostcfg) (c : cache) (r : creq) :
  (forall d, parse d = Ok (line d)) -> host_desc (h_b h) ->
  serve_spec line h c r (serve parse h c r).
Proof.
  intros Hparse (Hd0 & Hd1 & Hd2 & Hd3 & Hd4). unfold serve_spec, serve.
  pose proof (prime_spec_model (h_b h) (q_uri r, None) Hd0) as HP.
  destruct (resolve_prime (b_prime (h_b h)) (q_uri r, None)) as [st tr1]. cbn [fst snd] in HP.
  exists tr1, st, (map (fun e => EPackage (fst e)) (b_package (h_b h))), (map (fun e => EPost (fst e)) (b_post (h_b h))).
  split; [exact HP|]. split; [apply stage_spec_model; exact Hd3|]. split; [apply stage_spec_model; exact Hd4|].
  destruct (cache_hit h c (sanitize r) (q_method r) (key_uri st)) as [sb|].
  - unfold send. rewrite resolve_post_map. reflexivity.
  - set (gen := match sanitize r with
                | SanOk _ => handle_request h (q_method r) st
                | SanUnsafe => (400, [], 1, [])
                | SanRange => (416, [], 1, [])
                end).
    assert (Hgen : match sanitize r with
                   | SanOk _ => exists resp, prepare_spec (h_b h) st resp (snd gen) /\ fst gen = response_of h (q_method r) (fst st) resp
                   | SanUnsafe => fst gen = (400, [], 1) /\ snd gen = []
                   | SanRange => fst gen = (416, [], 1) /\ snd gen = []
                   end).
    { unfold gen. destruct (sanitize r); try (split; reflexivity).
      unfold handle_request. pose proof (prepare_spec_model (h_b h) st Hd1) as Hs.
      destruct (resolve_prepare (b_single (h_b h)) (b_prepare_fn (h_b h)) st) as [resp tr]. cbn [fst snd] in *.
      exists resp. split; [exact Hs|reflexivity]. }
    destruct gen as [[[status body] pref] tr2]. cbn [fst snd] in Hgen.
    destruct (present_spec_model (h_b h) line parse (fst st) body Hd2 (Hparse body)) as (body' & tr3 & E & Hs).
    rewrite E. unfold send. rewrite resolve_post_map.
    exists status, body, pref, tr2, body', tr3. split; [|split; [exact Hs|reflexivity]].
    destruct (sanitize r).
    + destruct Hgen as (resp & H1 & H2). exists resp. split; [exact H1|exact H2].
    + destruct Hgen as [H1 H2]. split; [exact H1|exact H2].
    + destruct Hgen as [H1 H2]. split; [exact H1|exact H2].
Qed.

Theorem serve_spec_unique line (h : hostcfg) (c : cache) (r : creq) o1 o2 :
  serve_spec line h c r o1 -> serve_spec line h c r o2 -> o1 = o2.
Proof.
  intros (tr1 & st & pk & po & HP & Hk & Ho & H1) (tr1' & st' & pk' & po' & HP' & Hk' & Ho' & H2).
  destruct (prime_spec_unique _ _ _ _ _ _ HP HP') as [<- <-].
  rewrite <- (stage_spec_unique _ _ _ _ Hk Hk') in H2. rewrite <- (stage_spec_unique _ _ _ _ Ho Ho') in H2.
  destruct (cache_hit h c (sanitize r) (q_method r) (key_uri st)) as [sb|].
  - rewrite H1, H2. reflexivity.
  - destruct H1 as (s1 & b1 & p1 & t2 & b1' & t3 & Hg1 & Hs1 & ->).
    destruct H2 as (s2 & b2 & p2 & t2' & b2' & t3' & Hg2 & Hs2 & ->).
    assert (E : (s1, b1, p1) = (s2, b2, p2) /\ t2 = t2').
    { destruct (sanitize r).
      - destruct Hg1 as (r1 & Q1 & E1). destruct Hg2 as (r2 & Q2 & E2).
        destruct (prepare_spec_unique _ _ _ _ _ _ Q1 Q2) as [-> ->]. rewrite E1, E2. split; reflexivity.
      - destruct Hg1 as [-> ->]. destruct Hg2 as [-> ->]. split; reflexivity.
      - destruct Hg1 as [-> ->]. destruct Hg2 as [-> ->]. split; reflexivity. }
    destruct E as [E ->]. inversion E; subst.
    destruct (present_spec_unique _ _ _ _ _ _ _ _ Hs1 Hs2) as [-> ->]. reflexivity.
Qed.

(** ---- histories ---- *)
Lemma history_meets_spec_gen line parse (h : hostcfg) :
  (forall d, parse d = Ok (line d)) -> host_desc (h_b h) ->
  forall rs c, history_spec line h c rs (serve_all parse h c rs).
Proof.
  intros Hparse Hd. induction rs as [|r rs IH]; intros c; cbn [serve_all]; [constructor|].
  pose proof (serve_meets_spec_gen line parse h c r Hparse Hd) as Hs.
  destruct (serve parse h c r) as [reply c']. econstructor; [exact Hs|apply IH].
Qed.

Lemma history_spec_unique line (h : hostcfg) : forall rs c l1 l2,
  history_spec line h c rs l1 -> history_spec line h c rs l2 -> l1 = l2.
Proof.
  induction rs as [|r rs IH]; intros c l1 l2 H1 H2; inversion H1; subst; inversion H2; subst; [reflexivity|].
  match goal with
  | A : serve_spec line h c r (?x, ?cx), B : serve_spec line h c r (?y, ?cy) |- _ =>
      pose proof (serve_spec_unique line h c r _ _ A B) as E; inversion E; subst
  end.
  f_equal. eapply IH; eassumption.
Qed.

Lemma parse_is_parsed_line d : present_parse d = Ok (parsed_line d).
Proof.
  unfold parsed_line. destruct (present_parse_total d) as (x & E & _). rewrite E. reflexivity.
Qed.

(** ---- the host built by registry edits ---- *)
Lemma desc_mapsnd {X Y} (f : X -> Y) (l : list (Z * X)) : desc l -> desc (mapsnd f l).
Proof.
  induction l as [|[q x] r IH]; intros Hd; [constructor|].
  apply desc_inv in Hd as [Hd HF]. unfold mapsnd. cbn [map fst snd]. apply desc_cons; [apply IH; exact Hd|].
  apply Forall_forall. intros e He. apply in_map_iff in He as (e' & <- & Hin). cbn [fst].
  rewrite Forall_forall in HF. apply HF. exact Hin.
Qed.

Lemma behaviours_of_desc c : pc_desc c -> host_desc (behaviours_of c).
Proof.
  intros Hc. unfold host_desc, behaviours_of. cbn.
  repeat split; apply desc_mapsnd; apply nth_desc'; exact Hc.
Qed.
