(** C16 — proofs about Model/PresentLine.v.
    Part A: for arbitrary bytes nothing panics and [data_start <= len].
    Part B: every line of the grammar is parsed into its names and arguments. *)
From KV Require Import Bytes PresentLine.
From Coq Require Import ZifyBool ZifyNat ZifyN.
Open Scope N_scope.

(** ---- slices ---- *)
Lemma slice_chk_ok lo hi (d : bytes) : (lo <= hi)%nat -> (hi <= length d)%nat -> slice_chk lo hi d = Ok (slice lo hi d).
Proof.
  intros H1 H2. unfold slice_chk, slice_get.
  destruct (Nat.leb_spec lo hi); [|lia]. destruct (Nat.leb_spec hi (length d)); [|lia]. reflexivity.
Qed.

Lemma skipn_cons_S {X} (l : list X) n x r : skipn n l = x :: r -> skipn (S n) l = r /\ (n < length l)%nat.
Proof.
  revert n. induction l as [|y l IH]; intros n H.
  - rewrite skipn_nil in H. discriminate.
  - destruct n as [|n]; cbn [skipn length] in *.
    + inversion H; subst. split; [reflexivity|lia].
    + apply IH in H as [H1 H2]. split; [exact H1|lia].
Qed.

(** ================= Part A ================= *)
Definition span_ok (n : nat) (s : span) : Prop := (fst s + snd s <= n)%nat.
Definition pd_ok (n : nat) (pd : posdata) : Prop := span_ok n (pd_name pd) /\ span_ok n (pd_arg pd).

Section Total.
Variable data : bytes.
Notation len := (length data).

Lemma pe_loop_ok : forall rest pos start ln hc acc,
  skipn pos data = rest ->
  Forall (pd_ok len) acc -> (forall n, ln = Some n -> span_ok len n) ->
  exists r, pe_loop data_start_fixed data rest pos start ln hc acc = Ok r /\
    match r with
    | Some (exts, ds) => Forall (pd_ok len) exts /\ (ds <= len)%nat
    | None => True
    end.
Proof.
  induction rest as [|byte rest IH]; intros pos start ln hc acc Hsk Hacc Hln; cbn [pe_loop].
  - exists None. split; [reflexivity|exact I].
  - apply skipn_cons_S in Hsk as [Hsk Hpos].
    destruct (Nat.ltb_spec pos start) as [Hlt|Hge]; [apply IH; assumption|].
    destruct (is_sep byte) eqn:Hsep; [|apply IH; assumption].
    rewrite slice_chk_ok by lia.
    destruct (utf8_valid (slice start pos data)); cbn [negb]; [|exists None; split; [reflexivity|exact I]].
    assert (Hsp : span_ok len (start, (pos - start)%nat)) by (unfold span_ok; cbn [fst snd]; lia).
    assert (Hpush1 : forall name, span_ok len name -> Forall (pd_ok len) (acc ++ [from_name_and_arg name (start, (pos - start)%nat)])).
    { intros name Hn. apply Forall_app. split; [exact Hacc|]. constructor; [|constructor]. split; assumption. }
    destruct (Nat.ltb 0 (pos - start) && negb (beq (slice start pos data) PRESENT_INTERNAL_AND_TRIMMED)).
    + destruct ln as [name|].
      * specialize (Hpush1 name (Hln name eq_refl)).
        destruct (byte =? LF).
        { eexists. split; [reflexivity|]. split; [exact Hpush1|unfold data_start_fixed; lia]. }
        destruct (starts_with PRESENT_INTERNAL_AND (byte :: rest)); apply IH; try assumption; discriminate.
      * specialize (Hpush1 _ Hsp).
        destruct (byte =? LF).
        { eexists. split; [reflexivity|]. split; [exact Hpush1|unfold data_start_fixed; lia]. }
        destruct (starts_with PRESENT_INTERNAL_AND (byte :: rest)); apply IH; try assumption; try discriminate.
        intros n [= <-]. exact Hsp.
    + destruct (byte =? LF).
      { eexists. split; [reflexivity|]. split; [exact Hacc|unfold data_start_fixed; lia]. }
      destruct (starts_with PRESENT_INTERNAL_AND (byte :: rest)); apply IH; try assumption; discriminate.
Qed.

Lemma pe_new_ok :
  exists r, pe_new data_start_fixed data = Ok r /\
    match r with
    | Some (exts, ds) => Forall (pd_ok len) exts /\ (ds <= len)%nat
    | None => True
    end.
Proof.
  unfold pe_new. destruct (starts_with PRESENT_INTERNAL_PREFIX data) eqn:Hp; cbn [negb];
    [|exists None; split; [reflexivity|exact I]].
  apply starts_with_app in Hp as [tail Ht].
  assert (Hl : (3 <= len)%nat) by (rewrite Ht; cbn [PRESENT_INTERNAL_PREFIX app length]; lia).
  rewrite slice_chk_ok by lia. unfold slice. rewrite firstn_all2 by (rewrite skipn_length; lia).
  destruct (starts_with PRESENT_INTERNAL_AND (skipn 3 data)); [exists None; split; [reflexivity|exact I]|].
  apply pe_loop_ok; [reflexivity|constructor|discriminate].
Qed.
End Total.

(** ---- the iterators, on any vector ---- *)
Lemma iter_scan_bounds name : forall l index i' d,
  iter_scan name l index = (i', d) ->
  (index <= i' <= index + length l)%nat /\ (l <> [] -> (index < i')%nat) /\ (l = [] -> d = false).
Proof.
  induction l as [|c l IH]; intros index i' d H; cbn [iter_scan] in H.
  - inversion H; subst. cbn [length]. repeat split; try lia. intros C. congruence.
  - destruct (span_eqb (pd_name c) name).
    + apply IH in H as (H1 & H2 & H3). cbn [length]. repeat split; try lia. intros C. discriminate.
    + inversion H; subst. cbn [length]. repeat split; try lia. intros C. discriminate.
Qed.

Lemma iter_next_ok exts index : (index <= length exts)%nat ->
  exists r, iter_next exts index = Ok r /\
    match r with
    | None => True
    | Some ((s, l), index') => s = index /\ (index < index' <= length exts)%nat /\ l = (index' - index)%nat
    end.
Proof.
  intros Hi. unfold iter_next. destruct (Nat.eqb_spec index (length exts)) as [He|Hne].
  - exists None. split; [reflexivity|exact I].
  - destruct (nth_error exts index) as [e|] eqn:En; [|apply nth_error_None in En; lia].
    destruct (Nat.ltb_spec (length exts) (index + 1)); [lia|].
    destruct (iter_scan (pd_name e) (skipn (S index) exts) index) as [i1 dn] eqn:Es.
    apply iter_scan_bounds in Es as (B1 & B2 & B3). rewrite skipn_length in B1.
    assert (Hi2 : (index < (if Nat.eqb (i1 + 1) (length exts) && negb dn then i1 + 1 else i1) <= length exts)%nat).
    { destruct (skipn (S index) exts) as [|x xs] eqn:Esk.
      - specialize (B3 eq_refl). subst dn.
        assert (length (skipn (S index) exts) = 0)%nat by (rewrite Esk; reflexivity).
        rewrite skipn_length in H0. assert (i1 = index) by lia. subst i1.
        destruct (Nat.eqb_spec (index + 1) (length exts)); cbn [andb negb]; lia.
      - assert (Hlt : (index < i1)%nat) by (apply B2; discriminate).
        destruct (Nat.eqb (i1 + 1) (length exts) && negb dn) eqn:Ec.
        + apply andb_true_iff in Ec as [Ec _]. apply Nat.eqb_eq in Ec. lia.
        + lia. }
    set (i2 := if Nat.eqb (i1 + 1) (length exts) && negb dn then (i1 + 1)%nat else i1) in *.
    destruct (Nat.ltb_spec i2 index); [lia|].
    eexists. split; [reflexivity|]. cbn. repeat split; lia.
Qed.

Definition pa_ok (n : nat) (pa : span) : Prop := (fst pa < n)%nat /\ (fst pa + snd pa <= n)%nat.

Lemma iter_all_ok exts : forall fuel index, (length exts - index < fuel)%nat -> (index <= length exts)%nat ->
  exists pas, iter_all fuel exts index = Ok pas /\ Forall (pa_ok (length exts)) pas.
Proof.
  induction fuel as [|fuel IH]; intros index Hf Hi; [lia|].
  cbn [iter_all]. destruct (iter_next_ok exts index Hi) as (r & E & P). rewrite E.
  destruct r as [[[s l] index']|].
  - destruct P as (-> & P2 & ->).
    destruct (IH index') as (pas & E2 & F2); try lia.
    rewrite E2. cbn [obind]. eexists. split; [reflexivity|].
    constructor; [|exact F2]. unfold pa_ok. cbn [fst snd]. lia.
  - exists []. split; [reflexivity|constructor].
Qed.

Lemma pa_name_ok data exts pa : Forall (pd_ok (length data)) exts -> pa_ok (length exts) pa ->
  exists n, pa_name data exts pa = Ok n.
Proof.
  intros HF [H1 _]. unfold pa_name.
  destruct (nth_error exts (fst pa)) as [e|] eqn:En; [|apply nth_error_None in En; lia].
  rewrite Forall_forall in HF. destruct (HF e (nth_error_In _ _ En)) as [Hn _].
  destruct (pd_name e) as [s l]. unfold span_ok in Hn. cbn [fst snd] in Hn.
  rewrite slice_chk_ok by lia. eexists. reflexivity.
Qed.

Lemma args_loop_ok data exts di back : Forall (pd_ok (length data)) exts -> (di + back <= length exts)%nat ->
  forall fuel index, (back - index < fuel)%nat ->
  exists a, args_loop args_end fuel data exts di back index = Ok a.
Proof.
  intros HF Hb. induction fuel as [|fuel IH]; intros index Hf; [lia|].
  cbn [args_loop]. unfold args_end at 1. destruct (Nat.leb_spec back index) as [Hle|Hgt].
  - exists []. reflexivity.
  - destruct (nth_error exts (di + index)) as [e|] eqn:En; [|apply nth_error_None in En; lia].
    rewrite Forall_forall in HF. destruct (HF e (nth_error_In _ _ En)) as [_ Ha].
    destruct (pd_arg e) as [s l]. unfold span_ok in Ha. cbn [fst snd] in Ha.
    rewrite slice_chk_ok by lia. cbn [obind].
    destruct (IH (S index)) as (a & E); [lia|]. rewrite E. cbn [obind]. eexists. reflexivity.
Qed.

Lemma omap_ok {X Y} (f : X -> outcome Y) (l : list X) :
  Forall (fun x => exists y, f x = Ok y) l -> exists ys, omap f l = Ok ys.
Proof.
  induction l as [|x l IH]; intros HF; [exists []; reflexivity|].
  inversion HF as [|? ? [y Ey] HF']; subst. destruct (IH HF') as [ys Eys].
  cbn [omap]. rewrite Ey, Eys. cbn [obind]. eexists. reflexivity.
Qed.

Theorem present_parse_total : forall data : bytes,
  exists r, present_parse data = Ok r /\
    match r with
    | Some p => (p_data_start p <= length data)%nat /\ p_body p = skipn (p_data_start p) data
    | None => True
    end.
Proof.
  intros data. unfold present_parse, present_parse_with.
  destruct (pe_new_ok data) as (r & E & P). rewrite E.
  destruct r as [[exts ds]|]; [|exists None; split; [reflexivity|exact I]].
  destruct P as [HF Hds].
  unfold split_off. destruct (Nat.ltb_spec (length data) ds); [lia|]. cbn [obind].
  destruct (iter_all_ok exts (S (length exts)) 0%nat) as (pas & E2 & F2); try lia.
  rewrite E2. cbn [obind].
  destruct (omap_ok (fun pa => obind (pa_name data exts pa) (fun n =>
                             obind (pa_args args_end data exts pa) (fun a => Ok (n, a)))) pas) as (es & E3).
  { eapply Forall_impl; [|exact F2]. intros pa Hpa.
    destruct (pa_name_ok data exts pa HF Hpa) as [n En]. rewrite En. cbn [obind].
    destruct Hpa as [Hp1 Hp2]. unfold pa_args.
    destruct (args_loop_ok data exts (fst pa) (snd pa) HF Hp2 (S (length exts)) 1%nat) as [a Ea]; [lia|].
    rewrite Ea. cbn [obind]. eexists. reflexivity. }
  rewrite E3. cbn [obind]. eexists. split; [reflexivity|]. cbn [p_data_start p_body]. split; [exact Hds|reflexivity].
Qed.

(** shape of the result used by other properties: the body handed on is a suffix of the input *)
Lemma present_parse_body_suffix data p : present_parse data = Ok (Some p) -> exists k, p_body p = skipn k data.
Proof.
  intros H. destruct (present_parse_total data) as (r & E & P). rewrite H in E. inversion E; subst.
  destruct P as [_ P]. eexists. exact P.
Qed.
