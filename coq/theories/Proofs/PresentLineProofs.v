(** C16 — proofs about Model/PresentLine.v.
    Part A: for arbitrary bytes nothing panics and [data_start <= len].
    Part B: every line of the grammar is parsed into its names and arguments. *)
From KV Require Import Bytes PresentLine.
From Coq Require Import ZifyBool ZifyNat ZifyN Sorted.
Open Scope N_scope.

(** ---- slices ---- *)
Lemma slice_chk_ok lo hi (d : bytes) : (lo <= hi)%nat -> (hi <= length d)%nat -> slice_chk lo hi d = Ok (slice lo hi d).
Proof.
  intros H1 H2. unfold slice_chk, slice_get.
  destruct (Nat.leb_spec lo hi); [|lia]. destruct (Nat.leb_spec hi (length d)); [|lia]. reflexivity.
Qed.

Lemma skipn_cons_S {X} (l : list X) n x r : skipn n l = x :: r -> skipn (S n) l = r /\ (n < length l)%nat.
Proof.
  revert n. induction l as [|y l IH]; intros n H.
  - rewrite skipn_nil in H. discriminate.
  - destruct n as [|n]; cbn [skipn length] in *.
    + inversion H; subst. split; [reflexivity|lia].
    + apply IH in H as [H1 H2]. split; [exact H1|lia].
Qed.

(** ================= Part A ================= *)
Definition span_ok (n : nat) (s : span) : Prop := (fst s + snd s <= n)%nat.
Definition pd_ok (n : nat) (pd : posdata) : Prop := span_ok n (pd_name pd) /\ span_ok n (pd_arg pd).

Section Total.
Variable data : bytes.
Notation len := (length data).

Lemma pe_loop_ok : forall rest pos start ln hc acc,
  skipn pos data = rest ->
  Forall (pd_ok len) acc -> (forall n, ln = Some n -> span_ok len n) ->
  exists r, pe_loop data_start_fixed data rest pos start ln hc acc = Ok r /\
    match r with
    | Some (exts, ds) => Forall (pd_ok len) exts /\ (ds <= len)%nat
    | None => True
    end.
Proof.
  induction rest as [|byte rest IH]; intros pos start ln hc acc Hsk Hacc Hln; cbn [pe_loop].
  - exists None. split; [reflexivity|exact I].
  - apply skipn_cons_S in Hsk as [Hsk Hpos].
    destruct (Nat.ltb_spec pos start) as [Hlt|Hge]; [apply IH; assumption|].
    destruct (is_sep byte) eqn:Hsep; [|apply IH; assumption].
    rewrite slice_chk_ok by lia.
    destruct (utf8_valid (slice start pos data)); cbn [negb]; [|exists None; split; [reflexivity|exact I]].
    assert (Hsp : span_ok len (start, (pos - start)%nat)) by (unfold span_ok; cbn [fst snd]; lia).
    assert (Hpush1 : forall name, span_ok len name -> Forall (pd_ok len) (acc ++ [from_name_and_arg name (start, (pos - start)%nat)])).
    { intros name Hn. apply Forall_app. split; [exact Hacc|]. constructor; [|constructor]. split; assumption. }
    destruct (Nat.ltb 0 (pos - start) && negb (beq (slice start pos data) PRESENT_INTERNAL_AND_TRIMMED)).
    + destruct ln as [name|].
      * specialize (Hpush1 name (Hln name eq_refl)).
        destruct (byte =? LF).
        { eexists. split; [reflexivity|]. split; [exact Hpush1|unfold data_start_fixed; lia]. }
        destruct (starts_with PRESENT_INTERNAL_AND (byte :: rest)); apply IH; try assumption; discriminate.
      * specialize (Hpush1 _ Hsp).
        destruct (byte =? LF).
        { eexists. split; [reflexivity|]. split; [exact Hpush1|unfold data_start_fixed; lia]. }
        destruct (starts_with PRESENT_INTERNAL_AND (byte :: rest)); apply IH; try assumption; try discriminate.
        intros n [= <-]. exact Hsp.
    + destruct (byte =? LF).
      { eexists. split; [reflexivity|]. split; [exact Hacc|unfold data_start_fixed; lia]. }
      destruct (starts_with PRESENT_INTERNAL_AND (byte :: rest)); apply IH; try assumption; discriminate.
Qed.

Lemma pe_new_ok :
  exists r, pe_new data_start_fixed data = Ok r /\
    match r with
    | Some (exts, ds) => Forall (pd_ok len) exts /\ (ds <= len)%nat
    | None => True
    end.
Proof.
  unfold pe_new. destruct (starts_with PRESENT_INTERNAL_PREFIX data) eqn:Hp; cbn [negb];
    [|exists None; split; [reflexivity|exact I]].
  apply starts_with_app in Hp as [tail Ht].
  assert (Hl : (3 <= len)%nat) by (rewrite Ht; cbn [PRESENT_INTERNAL_PREFIX app length]; lia).
  rewrite slice_chk_ok by lia. unfold slice. rewrite firstn_all2 by (rewrite skipn_length; lia).
  destruct (starts_with PRESENT_INTERNAL_AND (skipn 3 data)); [exists None; split; [reflexivity|exact I]|].
  apply pe_loop_ok; [reflexivity|constructor|discriminate].
Qed.
End Total.

(** ---- the iterators, on any vector ---- *)
Lemma iter_scan_bounds name : forall l index i' d,
  iter_scan name l index = (i', d) ->
  (index <= i' <= index + length l)%nat /\ (l <> [] -> (index < i')%nat) /\ (l = [] -> d = false).
Proof.
  induction l as [|c l IH]; intros index i' d H; cbn [iter_scan] in H.
  - inversion H; subst. cbn [length]. repeat split; try lia. intros C. congruence.
  - destruct (span_eqb (pd_name c) name).
    + apply IH in H as (H1 & H2 & H3). cbn [length]. repeat split; try lia. intros C. discriminate.
    + inversion H; subst. cbn [length]. repeat split; try lia. intros C. discriminate.
Qed.

Lemma iter_next_ok exts index : (index <= length exts)%nat ->
  exists r, iter_next exts index = Ok r /\
    match r with
    | None => True
    | Some ((s, l), index') => s = index /\ (index < index' <= length exts)%nat /\ l = (index' - index)%nat
    end.
Proof.
  intros Hi. unfold iter_next. destruct (Nat.eqb_spec index (length exts)) as [He|Hne].
  - exists None. split; [reflexivity|exact I].
  - destruct (nth_error exts index) as [e|] eqn:En; [|apply nth_error_None in En; lia].
    destruct (Nat.ltb_spec (length exts) (index + 1)); [lia|].
    destruct (iter_scan (pd_name e) (skipn (S index) exts) index) as [i1 dn] eqn:Es.
    apply iter_scan_bounds in Es as (B1 & B2 & B3). rewrite skipn_length in B1.
    assert (Hi2 : (index < (if Nat.eqb (i1 + 1) (length exts) && negb dn then i1 + 1 else i1) <= length exts)%nat).
    { destruct (skipn (S index) exts) as [|x xs] eqn:Esk.
      - specialize (B3 eq_refl). subst dn.
        assert (length (skipn (S index) exts) = 0)%nat by (rewrite Esk; reflexivity).
        rewrite skipn_length in H0. assert (i1 = index) by lia. subst i1.
        destruct (Nat.eqb_spec (index + 1) (length exts)); cbn [andb negb]; lia.
      - assert (Hlt : (index < i1)%nat) by (apply B2; discriminate).
        destruct (Nat.eqb (i1 + 1) (length exts) && negb dn) eqn:Ec.
        + apply andb_true_iff in Ec as [Ec _]. apply Nat.eqb_eq in Ec. lia.
        + lia. }
    set (i2 := if Nat.eqb (i1 + 1) (length exts) && negb dn then (i1 + 1)%nat else i1) in *.
    destruct (Nat.ltb_spec i2 index); [lia|].
    eexists. split; [reflexivity|]. cbn. repeat split; lia.
Qed.

Definition pa_ok (n : nat) (pa : span) : Prop := (fst pa < n)%nat /\ (fst pa + snd pa <= n)%nat.

Lemma iter_all_ok exts : forall fuel index, (length exts - index < fuel)%nat -> (index <= length exts)%nat ->
  exists pas, iter_all fuel exts index = Ok pas /\ Forall (pa_ok (length exts)) pas.
Proof.
  induction fuel as [|fuel IH]; intros index Hf Hi; [lia|].
  cbn [iter_all]. destruct (iter_next_ok exts index Hi) as (r & E & P). rewrite E.
  destruct r as [[[s l] index']|].
  - destruct P as (-> & P2 & ->).
    destruct (IH index') as (pas & E2 & F2); try lia.
    rewrite E2. cbn [obind]. eexists. split; [reflexivity|].
    constructor; [|exact F2]. unfold pa_ok. cbn [fst snd]. lia.
  - exists []. split; [reflexivity|constructor].
Qed.

Lemma pa_name_ok data exts pa : Forall (pd_ok (length data)) exts -> pa_ok (length exts) pa ->
  exists n, pa_name data exts pa = Ok n.
Proof.
  intros HF [H1 _]. unfold pa_name.
  destruct (nth_error exts (fst pa)) as [e|] eqn:En; [|apply nth_error_None in En; lia].
  rewrite Forall_forall in HF. destruct (HF e (nth_error_In _ _ En)) as [Hn _].
  destruct (pd_name e) as [s l]. unfold span_ok in Hn. cbn [fst snd] in Hn.
  rewrite slice_chk_ok by lia. eexists. reflexivity.
Qed.

Lemma args_loop_ok data exts di back : Forall (pd_ok (length data)) exts -> (di + back <= length exts)%nat ->
  forall fuel index, (back - index < fuel)%nat ->
  exists a, args_loop args_end fuel data exts di back index = Ok a.
Proof.
  intros HF Hb. induction fuel as [|fuel IH]; intros index Hf; [lia|].
  cbn [args_loop]. unfold args_end at 1. destruct (Nat.leb_spec back index) as [Hle|Hgt].
  - exists []. reflexivity.
  - destruct (nth_error exts (di + index)) as [e|] eqn:En; [|apply nth_error_None in En; lia].
    rewrite Forall_forall in HF. destruct (HF e (nth_error_In _ _ En)) as [_ Ha].
    destruct (pd_arg e) as [s l]. unfold span_ok in Ha. cbn [fst snd] in Ha.
    rewrite slice_chk_ok by lia. cbn [obind].
    destruct (IH (S index)) as (a & E); [lia|]. rewrite E. cbn [obind]. eexists. reflexivity.
Qed.

Lemma omap_ok {X Y} (f : X -> outcome Y) (l : list X) :
  Forall (fun x => exists y, f x = Ok y) l -> exists ys, omap f l = Ok ys.
Proof.
  induction l as [|x l IH]; intros HF; [exists []; reflexivity|].
  inversion HF as [|? ? [y Ey] HF']; subst. destruct (IH HF') as [ys Eys].
  cbn [omap]. rewrite Ey, Eys. cbn [obind]. eexists. reflexivity.
Qed.

Theorem present_parse_total : forall data : bytes,
  exists r, present_parse data = Ok r /\
    match r with
    | Some p => (p_data_start p <= length data)%nat /\ p_body p = skipn (p_data_start p) data
    | None => True
    end.
Proof.
  intros data. unfold present_parse, present_parse_with.
  destruct (pe_new_ok data) as (r & E & P). rewrite E.
  destruct r as [[exts ds]|]; [|exists None; split; [reflexivity|exact I]].
  destruct P as [HF Hds].
  unfold split_off. destruct (Nat.ltb_spec (length data) ds); [lia|]. cbn [obind].
  destruct (iter_all_ok exts (S (length exts)) 0%nat) as (pas & E2 & F2); try lia.
  rewrite E2. cbn [obind].
  destruct (omap_ok (fun pa => obind (pa_name data exts pa) (fun n =>
                             obind (pa_args args_end data exts pa) (fun a => Ok (n, a)))) pas) as (es & E3).
  { eapply Forall_impl; [|exact F2]. intros pa Hpa.
    destruct (pa_name_ok data exts pa HF Hpa) as [n En]. rewrite En. cbn [obind].
    destruct Hpa as [Hp1 Hp2]. unfold pa_args.
    destruct (args_loop_ok data exts (fst pa) (snd pa) HF Hp2 (S (length exts)) 1%nat) as [a Ea]; [lia|].
    rewrite Ea. cbn [obind]. eexists. reflexivity. }
  rewrite E3. cbn [obind]. eexists. split; [reflexivity|]. cbn [p_data_start p_body]. split; [exact Hds|reflexivity].
Qed.

(** shape of the result used by other properties: the body handed on is a suffix of the input *)
Lemma present_parse_body_suffix data p : present_parse data = Ok (Some p) -> exists k, p_body p = skipn k data.
Proof.
  intros H. destruct (present_parse_total data) as (r & E & P). rewrite H in E. inversion E; subst.
  destruct P as [_ P]. eexists. exact P.
Qed.

(** ================= Part B ================= *)
(** A group: the span of the name and the spans of the arguments, as [pe_new] records them. *)
Definition gs : Type := (span * list span)%type.
Definition flat1 (g : gs) : list posdata :=
  from_name_and_arg (fst g) (fst g) :: map (from_name_and_arg (fst g)) (snd g).
Definition flat (gl : list gs) : list posdata := concat (map flat1 gl).
Definition olist {X} (o : option X) : list X := match o with Some x => [x] | None => [] end.
Definition push (cur : option gs) (sp : span) : gs :=
  match cur with Some (n, a) => (n, a ++ [sp]) | None => (sp, []) end.

(** [group_words] at the level of spans: [pos] is the index of the first byte of the next word *)
Fixpoint gw (pos : nat) (cur : option gs) (ws : list bytes) : list gs :=
  match ws with
  | [] => olist cur
  | w :: r =>
      let next := (pos + length w + 1)%nat in
      match w with
      | [] => gw next cur r
      | _ :: _ => if beq w PRESENT_INTERNAL_AND_TRIMMED then olist cur ++ gw next None r
                  else gw next (Some (push cur (pos, length w))) r
      end
  end.

Lemma flat_app a b : flat (a ++ b) = flat a ++ flat b.
Proof. unfold flat. rewrite map_app, concat_app. reflexivity. Qed.

Lemma flat_push closed cur sp :
  flat (closed ++ [push cur sp]) =
  flat (closed ++ olist cur) ++ [from_name_and_arg (match cur with Some g => fst g | None => sp end) sp].
Proof.
  rewrite !flat_app. rewrite <- app_assoc. f_equal.
  destruct cur as [[n a]|]; unfold flat, flat1; cbn [olist push map concat fst snd].
  - rewrite !app_nil_r, map_app. reflexivity.
  - reflexivity.
Qed.

(** ---- the byte loop on words ---- *)
Lemma is_sep_space : is_sep SPACE = true. Proof. reflexivity. Qed.

Lemma word_scan dso data : forall w rest' pos start ln hc acc,
  forallb (fun c => negb (is_sep c)) w = true -> (start <= pos)%nat ->
  pe_loop dso data (w ++ rest') pos start ln hc acc = pe_loop dso data rest' (pos + length w)%nat start ln hc acc.
Proof.
  induction w as [|c w IH]; intros rest' pos start ln hc acc Hw Hs.
  - cbn [app length]. rewrite Nat.add_0_r. reflexivity.
  - cbn [forallb] in Hw. apply andb_true_iff in Hw as [Hc Hw]. apply negb_true_iff in Hc.
    cbn [app pe_loop length]. destruct (Nat.ltb_spec pos start); [lia|]. rewrite Hc.
    rewrite IH by (try assumption; lia). f_equal. lia.
Qed.

Lemma skip_scan dso data : forall pre' rest' pos start ln hc acc,
  (pos + length pre' <= start)%nat ->
  pe_loop dso data (pre' ++ rest') pos start ln hc acc = pe_loop dso data rest' (pos + length pre')%nat start ln hc acc.
Proof.
  induction pre' as [|c p IH]; intros rest' pos start ln hc acc Hs.
  - cbn [app length]. rewrite Nat.add_0_r. reflexivity.
  - cbn [app pe_loop length] in *. destruct (Nat.ltb_spec pos start); [|lia].
    rewrite IH by lia. f_equal. lia.
Qed.

Lemma slice_word (pre w x : bytes) : slice (length pre) (length pre + length w) (pre ++ w ++ x) = w.
Proof.
  unfold slice. rewrite skipn_app, skipn_all, Nat.sub_diag. cbn [skipn app].
  replace (length pre + length w - length pre)%nat with (length w) by lia.
  rewrite firstn_app, firstn_all, Nat.sub_diag. cbn [firstn]. apply app_nil_r.
Qed.

(** one iteration at a separator, with the token already sliced *)
Definition pushf (ln : option span) (acc : list posdata) (start len : nat) (tok : bytes) : option span * list posdata :=
  if Nat.ltb 0 len && negb (beq tok PRESENT_INTERNAL_AND_TRIMMED) then
    match ln with
    | Some name => (ln, acc ++ [from_name_and_arg name (start, len)])
    | None => (Some (start, len), acc ++ [from_name_and_arg (start, len) (start, len)])
    end
  else (ln, acc).

Lemma pe_step_sep dso data byte rest' pos start ln hc acc tok :
  (start <= pos)%nat -> is_sep byte = true -> slice_chk start pos data = Ok tok -> utf8_valid tok = true ->
  pe_loop dso data (byte :: rest') pos start ln hc acc =
  let r := pushf ln acc start (pos - start) tok in
  let has_cr1 := hc || (byte =? CR) in
  if byte =? LF then Ok (Some (snd r, dso pos has_cr1))
  else if starts_with PRESENT_INTERNAL_AND (byte :: rest')
  then pe_loop dso data rest' (S pos) (pos + 4)%nat None has_cr1 (snd r)
  else pe_loop dso data rest' (S pos) (pos + 1)%nat (fst r) has_cr1 (snd r).
Proof.
  intros Hs Hsep Hsl Hu. cbn [pe_loop]. destruct (Nat.ltb_spec pos start); [lia|].
  rewrite Hsep, Hsl, Hu. cbn [negb]. unfold pushf.
  destruct (Nat.ltb 0 (pos - start) && negb (beq tok PRESENT_INTERNAL_AND_TRIMMED)); [destruct ln|]; reflexivity.
Qed.

Definition nonempty (w : bytes) : bool := match w with [] => false | _ => true end.
Definition cur_after (cur : option gs) (pos : nat) (w : bytes) : option gs :=
  if nonempty w && negb (beq w PRESENT_INTERNAL_AND_TRIMMED) then Some (push cur (pos, length w)) else cur.

Lemma pushf_spec closed cur pos w :
  pushf (option_map fst cur) (flat (closed ++ olist cur)) pos (length w) w
  = (option_map fst (cur_after cur pos w), flat (closed ++ olist (cur_after cur pos w))).
Proof.
  unfold pushf, cur_after. destruct w as [|c w]; [reflexivity|].
  cbn [length nonempty]. change (Nat.ltb 0 (S (length w))) with true. cbn [andb].
  destruct (beq (c :: w) PRESENT_INTERNAL_AND_TRIMMED); cbn [negb]; [reflexivity|].
  cbn [olist]. rewrite flat_push. destruct cur as [[n a]|]; reflexivity.
Qed.

Lemma gw_step pos cur w r :
  cur = None \/ r = [] \/ beq w PRESENT_INTERNAL_AND_TRIMMED = false ->
  gw pos cur (w :: r) = gw (pos + length w + 1) (cur_after cur pos w) r.
Proof.
  intros H. cbn [gw]. unfold cur_after. destruct w as [|c w]; [reflexivity|]. cbn [nonempty andb].
  destruct (beq (c :: w) PRESENT_INTERNAL_AND_TRIMMED) eqn:Eb; cbn [negb]; [|reflexivity].
  destruct H as [->|[->|H]]; [reflexivity| |discriminate].
  cbn [gw]. rewrite app_nil_r. reflexivity.
Qed.

Lemma word_ok_inv w : word_ok w = true -> forallb (fun c => negb (is_sep c)) w = true /\ utf8_valid w = true.
Proof. unfold word_ok. intros H. apply andb_true_iff in H. exact H. Qed.

Definition is_end (t : bytes) : Prop := exists c x, t = c :: x /\ (c = CR \/ c = LF).

Lemma line_end_is_end crlf rest : is_end (line_end crlf ++ rest).
Proof. destruct crlf; cbn; eexists _, _; split; [reflexivity|auto| reflexivity|auto]. Qed.

Definition has_more {X} (l : list X) : bool := match l with [] => false | _ => true end.

(** the look-ahead [range.starts_with(" &> ")] at a space: the next word is [&>] and a space follows it *)
Lemma and_lookahead w2 r2 t : word_ok w2 = true -> is_end t ->
  starts_with PRESENT_INTERNAL_AND (SPACE :: render_words (w2 :: r2) ++ t)
  = beq w2 PRESENT_INTERNAL_AND_TRIMMED && has_more r2.
Proof.
  intros Hw (c & x & -> & Hc). apply word_ok_inv in Hw as [Hw _].
  assert (Hd : exists d Z, render_words (w2 :: r2) ++ c :: x = w2 ++ d :: Z /\
                           is_sep d = true /\ (d =? SPACE) = has_more r2).
  { destruct r2 as [|w3 r3].
    - exists c, x. split; [reflexivity|]. destruct Hc as [-> | ->]; split; reflexivity.
    - exists SPACE, (render_words (w3 :: r3) ++ c :: x). split; [|split; reflexivity].
      cbn [render_words]. rewrite <- app_assoc. reflexivity. }
  destruct Hd as (d & Z & -> & Hsd & Hds).
  unfold PRESENT_INTERNAL_AND, PRESENT_INTERNAL_AND_TRIMMED.
  unfold is_sep in Hsd.
  destruct w2 as [|a [|b [|c0 w']]]; cbn [starts_with app beq forallb] in *.
  - change (SPACE =? SPACE) with true. cbn [andb].
    destruct (N.eqb_spec 38 d) as [<-|_]; [discriminate Hsd|reflexivity].
  - change (32 =? SPACE) with true. cbn [andb].
    destruct (N.eqb_spec 62 d) as [<-|_]; [discriminate Hsd|]. rewrite !andb_false_r. reflexivity.
  - change (32 =? SPACE) with true. cbn [andb]. rewrite !andb_true_r.
    rewrite (N.eqb_sym 38 a), (N.eqb_sym 62 b). rewrite <- Hds. rewrite (N.eqb_sym 32 d).
    change SPACE with 32. destruct (a =? 38), (b =? 62), (d =? 32); reflexivity.
  - change (32 =? SPACE) with true. cbn [andb].
    apply andb_true_iff in Hw as [_ Hw]. apply andb_true_iff in Hw as [_ Hw]. apply andb_true_iff in Hw as [Hc0 _].
    apply negb_true_iff in Hc0. unfold is_sep in Hc0.
    destruct (N.eqb_spec 32 c0) as [<-|_]; [discriminate Hc0|]. rewrite !andb_false_r. reflexivity.
Qed.

Lemma render_words_cons w w2 r2 : render_words (w :: w2 :: r2) = w ++ SPACE :: render_words (w2 :: r2).
Proof. reflexivity. Qed.

Lemma slice_chk_word (data pre w x : bytes) : data = pre ++ w ++ x ->
  slice_chk (length pre) (length pre + length w) data = Ok w.
Proof.
  intros ->. rewrite slice_chk_ok; [rewrite slice_word; reflexivity|lia|rewrite !app_length; lia].
Qed.

Lemma slice_chk_empty (data : bytes) lo hi : lo = hi -> (hi <= length data)%nat -> slice_chk lo hi data = Ok [].
Proof.
  intros -> H. rewrite slice_chk_ok by lia. unfold slice. rewrite Nat.sub_diag. reflexivity.
Qed.

Lemma gw_and pos cur r : gw pos cur (PRESENT_INTERNAL_AND_TRIMMED :: r) = olist cur ++ gw (pos + 3) None r.
Proof.
  change (gw pos cur (PRESENT_INTERNAL_AND_TRIMMED :: r)) with (olist cur ++ gw (pos + 2 + 1) None r).
  replace (pos + 2 + 1)%nat with (pos + 3)%nat by lia. reflexivity.
Qed.

Section Words.
Variable data : bytes.

Lemma pe_words : forall n ws, (length ws <= n)%nat -> forall w r, ws = w :: r ->
  forall pre closed cur hc crlf rest,
  data = pre ++ render_words (w :: r) ++ line_end crlf ++ rest ->
  Forall (fun w => word_ok w = true) (w :: r) ->
  (cur = None \/ r = [] \/ beq w PRESENT_INTERNAL_AND_TRIMMED = false) ->
  pe_loop data_start_fixed data (render_words (w :: r) ++ line_end crlf ++ rest) (length pre) (length pre)
          (option_map fst cur) hc (flat (closed ++ olist cur))
  = Ok (Some (flat (closed ++ gw (length pre) cur (w :: r)),
              (length pre + length (render_words (w :: r)) + length (line_end crlf))%nat)).
Proof.
  induction n as [|n IH]; intros ws Hn w r -> pre closed cur hc crlf rest Hd HF Hside; [cbn [length] in Hn; lia|].
  pose proof (Forall_inv HF) as Hw. pose proof (Forall_inv_tail HF) as HFr. cbv beta in Hw.
  destruct (word_ok_inv w Hw) as [Hns Hu].
  rewrite (gw_step _ _ _ _ Hside).
  set (cur1 := cur_after cur (length pre) w).
  set (p := (length pre + length w)%nat).
  destruct r as [|w2 r2].
  - (* the last word, then the line end *)
    cbn [render_words] in *.
    rewrite word_scan by (try assumption; lia). fold p.
    assert (Hsl : slice_chk (length pre) p data = Ok w) by (apply (slice_chk_word data pre w _ Hd)).
    assert (Hlen : length data = (p + length (line_end crlf) + length rest)%nat)
      by (rewrite Hd, !app_length; unfold p; lia).
    destruct crlf; cbn [line_end app length] in *.
    + rewrite (pe_step_sep _ _ CR (LF :: rest) p (length pre) _ _ _ w) by (try assumption; try reflexivity; lia).
      replace (p - length pre)%nat with (length w) by lia. rewrite pushf_spec. fold cur1. cbn [fst snd].
      change (CR =? LF) with false. cbv iota.
      change (starts_with PRESENT_INTERNAL_AND (CR :: LF :: rest)) with false. cbv iota.
      rewrite (pe_step_sep _ _ LF rest (S p) (p + 1)%nat _ _ _ []);
        [|lia|reflexivity|apply slice_chk_empty; lia|reflexivity].
      replace (S p - (p + 1))%nat with 0%nat by lia.
      change (LF =? LF) with true. cbv iota. unfold pushf. cbn [Nat.ltb Nat.leb andb snd gw].
      unfold data_start_fixed. do 2 f_equal. apply pair_equal_spec. split; [reflexivity|unfold p; lia].
    + rewrite (pe_step_sep _ _ LF rest p (length pre) _ _ _ w) by (try assumption; try reflexivity; lia).
      replace (p - length pre)%nat with (length w) by lia. rewrite pushf_spec. fold cur1. cbn [fst snd gw].
      change (LF =? LF) with true. cbv iota. unfold data_start_fixed. reflexivity.
  - (* a word followed by a space *)
    pose proof (Forall_inv HFr) as Hw2. pose proof (Forall_inv_tail HFr) as HFr2. cbv beta in Hw2.
    rewrite render_words_cons in *.
    set (RW2 := render_words (w2 :: r2)) in *.
    set (t := line_end crlf ++ rest) in *.
    rewrite <- app_assoc in Hd. rewrite <- app_comm_cons in Hd.
    rewrite <- app_assoc, <- app_comm_cons.
    rewrite word_scan by (try assumption; lia). fold p.
    assert (Hsl : slice_chk (length pre) p data = Ok w) by (apply (slice_chk_word data pre w _ Hd)).
    rewrite (pe_step_sep _ _ SPACE (RW2 ++ t) p (length pre) _ _ _ w) by (try assumption; try reflexivity; lia).
    replace (p - length pre)%nat with (length w) by lia. rewrite pushf_spec. fold cur1. cbn [fst snd].
    change (SPACE =? LF) with false. cbv iota.
    unfold RW2 at 1. unfold t at 1. rewrite (and_lookahead w2 r2 _ Hw2 (line_end_is_end crlf rest)).
    fold t. fold RW2.
    (* the continuation without the [ &> ] jump *)
    assert (Hnoskip : (cur1 = None \/ r2 = [] \/ beq w2 PRESENT_INTERNAL_AND_TRIMMED = false) ->
      pe_loop data_start_fixed data (RW2 ++ t) (S p) (p + 1)%nat (option_map fst cur1) (hc || (SPACE =? CR)) (flat (closed ++ olist cur1))
      = Ok (Some (flat (closed ++ gw (length pre + length w + 1) cur1 (w2 :: r2)),
                  (length pre + length (w ++ SPACE :: RW2) + length (line_end crlf))%nat))).
    { intros Hside2.
      assert (Hl' : length (pre ++ w ++ [SPACE]) = (p + 1)%nat) by (rewrite !app_length; cbn [length]; unfold p; lia).
      assert (Hd' : data = (pre ++ w ++ [SPACE]) ++ RW2 ++ t) by (rewrite Hd; repeat rewrite <- app_assoc; reflexivity).
      pose proof (IH (w2 :: r2) ltac:(cbn [length] in *; lia) w2 r2 eq_refl (pre ++ w ++ [SPACE]) closed cur1
                     (hc || (SPACE =? CR)) crlf rest Hd' HFr Hside2) as R.
      rewrite Hl' in R. replace (S p) with (p + 1)%nat by lia. fold RW2 t in R. etransitivity; [exact R|].
      do 2 f_equal. apply pair_equal_spec. split.
      - unfold p. reflexivity.
      - rewrite app_length. cbn [length]. unfold p. lia. }
    destruct (beq w2 PRESENT_INTERNAL_AND_TRIMMED) eqn:Eb2; [destruct r2 as [|w3 r3]|]; cbn [has_more andb].
    + apply Hnoskip. right. left. reflexivity.
    + (* [ &> ] and a further word: the jump *)
      apply beq_eq in Eb2. subst w2. clear Hnoskip.
      assert (Er : RW2 ++ t = [38; 62; 32] ++ render_words (w3 :: r3) ++ t) by reflexivity.
      rewrite Er. rewrite skip_scan by (cbn [length]; lia).
      assert (Ep : Nat.add (S p) (length ([38; 62; 32]%N : bytes)) = (p + 4)%nat) by (cbn [length]; lia). rewrite Ep.
      assert (Hl' : length (pre ++ w ++ SPACE :: [38; 62; 32]) = (p + 4)%nat) by (rewrite !app_length; cbn [length]; unfold p; lia).
      assert (Hd' : data = (pre ++ w ++ SPACE :: [38; 62; 32]) ++ render_words (w3 :: r3) ++ t).
      { rewrite Hd. unfold RW2. rewrite render_words_cons. repeat rewrite <- app_assoc. reflexivity. }
      pose proof (IH (w3 :: r3) ltac:(cbn [length] in *; lia) w3 r3 eq_refl (pre ++ w ++ SPACE :: [38; 62; 32])
                     (closed ++ olist cur1) None (hc || (SPACE =? CR)) crlf rest Hd' HFr2 (or_introl eq_refl)) as R.
      rewrite Hl' in R. cbn [option_map olist] in R. rewrite app_nil_r in R. fold t in R. etransitivity; [exact R|].
      do 2 f_equal. apply pair_equal_spec. split.
      * rewrite gw_and. rewrite <- app_assoc. replace (p + 1 + 3)%nat with (p + 4)%nat by lia. reflexivity.
      * unfold RW2. rewrite render_words_cons. rewrite !app_length. cbn [length]. rewrite app_length. cbn [length].
        change (length PRESENT_INTERNAL_AND_TRIMMED) with 2%nat. unfold p. lia.
    + apply Hnoskip. right. right. reflexivity.
Qed.
End Words.

(** ---- stage 2: the iterators on the vector of a list of groups ---- *)
Definition name_lt (g1 g2 : gs) : Prop := (fst (fst g1) < fst (fst g2))%nat.

Fixpoint spans_of (k : nat) (gl : list gs) : list span :=
  match gl with
  | [] => []
  | g :: r => (k, S (length (snd g))) :: spans_of (k + S (length (snd g))) r
  end.

Lemma span_eqb_refl s : span_eqb s s = true.
Proof. unfold span_eqb. rewrite !Nat.eqb_refl. reflexivity. Qed.

Lemma span_eqb_lt a b : (fst a < fst b)%nat -> span_eqb b a = false.
Proof. intros H. unfold span_eqb. destruct (Nat.eqb_spec (fst b) (fst a)); [lia|reflexivity]. Qed.

Lemma iter_scan_args n args : forall tl idx,
  iter_scan n (map (from_name_and_arg n) args ++ tl) idx = iter_scan n tl (idx + length args).
Proof.
  induction args as [|a args IH]; intros tl idx; cbn [map app length].
  - rewrite Nat.add_0_r. reflexivity.
  - cbn [iter_scan pd_name from_name_and_arg]. rewrite span_eqb_refl, IH. f_equal. lia.
Qed.

Lemma flat1_length g : length (flat1 g) = S (length (snd g)).
Proof. unfold flat1. cbn [length]. rewrite map_length. reflexivity. Qed.

Lemma flat_cons g r : flat (g :: r) = flat1 g ++ flat r.
Proof. reflexivity. Qed.

Lemma skipn_app_len {X} (P X0 : list X) k : skipn (length P + k) (P ++ X0) = skipn k X0.
Proof.
  rewrite skipn_app. rewrite skipn_all2 by lia. replace (length P + k - length P)%nat with k by lia. reflexivity.
Qed.

Lemma iter_next_flat P g r exts : StronglySorted name_lt (g :: r) -> exts = P ++ flat (g :: r) ->
  iter_next exts (length P)
  = Ok (Some ((length P, S (length (snd g))), (length P + S (length (snd g)))%nat)).
Proof.
  intros HS Eexts. destruct g as [n args]. cbn [snd].
  assert (Hlen : length exts = (length P + S (length args) + length (flat r))%nat).
  { rewrite Eexts. rewrite flat_cons, !app_length, flat1_length. cbn [snd]. lia. }
  unfold iter_next. cbv zeta. destruct (Nat.eqb_spec (length P) (length exts)); [lia|].
  assert (En : nth_error exts (length P) = Some (from_name_and_arg n n)).
  { rewrite Eexts. rewrite nth_error_app2, Nat.sub_diag by lia. reflexivity. }
  rewrite En. cbn [pd_name from_name_and_arg].
  destruct (Nat.ltb_spec (length exts) (length P + 1)); [lia|].
  assert (Esk : skipn (S (length P)) exts = map (from_name_and_arg n) args ++ flat r).
  { rewrite Eexts. replace (S (length P)) with (length P + 1)%nat by lia. rewrite skipn_app_len. reflexivity. }
  rewrite Esk, iter_scan_args.
  destruct r as [|g2 r2].
  - cbn [flat concat map iter_scan]. cbn [flat concat map length] in Hlen.
    destruct (Nat.eqb_spec (length P + length args + 1) (length exts)); [|lia]. cbn [andb negb].
    destruct (Nat.ltb_spec (length P + length args + 1) (length P)); [lia|].
    do 3 f_equal; [f_equal|]; lia.
  - rewrite flat_cons. unfold flat1 at 1. cbn [app iter_scan pd_name from_name_and_arg].
    inversion HS as [|? ? _ HF]; subst. apply Forall_inv in HF. unfold name_lt in HF. cbn [fst] in HF.
    rewrite (span_eqb_lt n (fst g2) HF). rewrite andb_false_r.
    destruct (Nat.ltb_spec (S (length P + length args)) (length P)); [lia|].
    do 3 f_equal; [f_equal|]; lia.
Qed.

Lemma iter_all_flat : forall gl P fuel, StronglySorted name_lt gl -> (length gl < fuel)%nat ->
  iter_all fuel (P ++ flat gl) (length P) = Ok (spans_of (length P) gl).
Proof.
  induction gl as [|g r IH]; intros P fuel HS Hf; (destruct fuel as [|fuel]; [cbn [length] in Hf; lia|]); cbn [iter_all].
  - unfold iter_next. cbn [flat map concat]. rewrite app_nil_r, Nat.eqb_refl. reflexivity.
  - rewrite (iter_next_flat P g r _ HS eq_refl).
    assert (E : P ++ flat (g :: r) = (P ++ flat1 g) ++ flat r) by (rewrite flat_cons, app_assoc; reflexivity).
    assert (El : (length P + S (length (snd g)))%nat = length (P ++ flat1 g)) by (rewrite app_length, flat1_length; reflexivity).
    rewrite E, El. rewrite IH.
    + cbn [obind spans_of]. rewrite El. reflexivity.
    + inversion HS; assumption.
    + cbn [length] in Hf. lia.
Qed.

(** names and arguments read back from the spans *)
Section Decode.
Variable data : bytes.
Definition dec (sp : span) : bytes := slice (fst sp) (fst sp + snd sp) data.
Definition decode (g : gs) : PresentLine.entry := (dec (fst g), map dec (snd g)).

Lemma dec_chk sp : span_ok (length data) sp -> (let '(s, l) := sp in slice_chk s (s + l) data) = Ok (dec sp).
Proof.
  destruct sp as [s l]. unfold span_ok, dec. cbn [fst snd]. intros H. apply slice_chk_ok; lia.
Qed.

Lemma args_loop_flat exts P n args Q : exts = P ++ flat1 (n, args) ++ Q -> Forall (pd_ok (length data)) exts ->
  forall todo done fuel, args = done ++ todo -> (length todo < fuel)%nat ->
  args_loop args_end fuel data exts (length P) (S (length args)) (S (length done)) = Ok (map dec todo).
Proof.
  intros Eexts HF. induction todo as [|a todo IH]; intros done fuel Ea Hf;
    (destruct fuel as [|fuel]; [cbn [length] in Hf; lia|]); cbn [args_loop].
  - rewrite app_nil_r in Ea. subst done. unfold args_end. rewrite Nat.leb_refl. reflexivity.
  - assert (Hl : length args = (length done + S (length todo))%nat) by (rewrite Ea, app_length; reflexivity).
    unfold args_end at 1. destruct (Nat.leb_spec (S (length args)) (S (length done))); [lia|].
    assert (En : nth_error exts (length P + S (length done)) = Some (from_name_and_arg n a)).
    { rewrite Eexts. rewrite nth_error_app2 by lia. replace (length P + S (length done) - length P)%nat with (S (length done)) by lia.
      rewrite nth_error_app1 by (rewrite flat1_length; cbn [snd]; lia).
      unfold flat1. cbn [fst snd nth_error]. rewrite Ea, map_app.
      rewrite nth_error_app2 by (rewrite map_length; lia). rewrite map_length, Nat.sub_diag. reflexivity. }
    rewrite En. cbn [pd_arg from_name_and_arg].
    rewrite Forall_forall in HF. destruct (HF _ (nth_error_In _ _ En)) as [_ Ha]. cbn [pd_arg from_name_and_arg] in Ha.
    destruct a as [s l]. unfold span_ok in Ha. cbn [fst snd] in Ha. rewrite slice_chk_ok by lia. cbn [obind].
    replace (S (S (length done))) with (S (length (done ++ [(s, l)]))) by (rewrite app_length; cbn [length]; lia).
    rewrite (IH (done ++ [(s, l)]) fuel); [reflexivity|rewrite Ea, <- app_assoc; reflexivity|cbn [length] in Hf; lia].
Qed.
End Decode.

Section Entries.
Variable data : bytes.

Lemma entries_flat exts : Forall (pd_ok (length data)) exts -> forall gl P, exts = P ++ flat gl ->
  omap (fun pa => obind (pa_name data exts pa) (fun n =>
                  obind (pa_args args_end data exts pa) (fun a => Ok (n, a)))) (spans_of (length P) gl)
  = Ok (map (decode data) gl).
Proof.
  intros HF. induction gl as [|[n args] r IH]; intros P E; [reflexivity|].
  cbn [spans_of omap snd].
  assert (E' : exts = P ++ flat1 (n, args) ++ flat r) by (rewrite E, flat_cons; reflexivity).
  assert (Hlen : length exts = (length P + S (length args) + length (flat r))%nat)
    by (rewrite E', !app_length, flat1_length; cbn [snd]; lia).
  assert (En : nth_error exts (length P) = Some (from_name_and_arg n n)).
  { rewrite E'. rewrite nth_error_app2, Nat.sub_diag by lia. reflexivity. }
  unfold pa_name at 1. cbn [fst]. rewrite En. cbn [pd_name from_name_and_arg].
  pose proof HF as HF2. rewrite Forall_forall in HF2.
  destruct (HF2 _ (nth_error_In _ _ En)) as [Hn _]. cbn [pd_name from_name_and_arg] in Hn.
  destruct n as [s l]. unfold span_ok in Hn; cbn [fst snd] in Hn. rewrite slice_chk_ok by lia. cbn [obind].
  unfold pa_args at 1. cbn [fst snd].
  change 1%nat with (S (length (@nil span))) at 1.
  rewrite (args_loop_flat data exts P (s, l) args (flat r) E' HF args [] (S (length exts)) eq_refl ltac:(lia)).
  cbn [obind].
  assert (El : (length P + S (length args))%nat = length (P ++ flat1 ((s, l), args))) by (rewrite app_length, flat1_length; reflexivity).
  rewrite El. rewrite (IH (P ++ flat1 ((s, l), args))) by (rewrite E', app_assoc; reflexivity).
  reflexivity.
Qed.

Lemma gw_decode : forall ws pre cur x, data = pre ++ render_words ws ++ x ->
  map (decode data) (gw (length pre) cur ws) = group_words (option_map (decode data) cur) (nonempty_words ws).
Proof.
  induction ws as [|w r IH]; intros pre cur x Hd.
  - cbn [gw nonempty_words filter group_words]. destruct cur; reflexivity.
  - assert (Hrec : forall cur', map (decode data) (gw (length pre + length w + 1) cur' r)
                               = group_words (option_map (decode data) cur') (nonempty_words r)).
    { intros cur'. destruct r as [|w2 r2]; [cbn [gw nonempty_words filter group_words]; destruct cur'; reflexivity|].
      replace (length pre + length w + 1)%nat with (length (pre ++ w ++ [SPACE])) by (rewrite !app_length; cbn [length]; lia).
      apply (IH (pre ++ w ++ [SPACE]) cur' x). rewrite Hd, render_words_cons. repeat rewrite <- app_assoc. reflexivity. }
    assert (Hdec : dec data (length pre, length w) = w).
    { unfold dec. cbn [fst snd]. rewrite Hd. destruct r as [|w2 r2].
      - cbn [render_words]. apply slice_word.
      - rewrite render_words_cons, <- app_assoc. apply slice_word. }
    cbn [gw]. destruct w as [|c w']; [apply Hrec|].
    set (w := c :: w') in *.
    change (nonempty_words (w :: r)) with (w :: nonempty_words r). cbn [group_words].
    destruct (beq w PRESENT_INTERNAL_AND_TRIMMED).
    + rewrite map_app, Hrec. destruct cur as [g|]; reflexivity.
    + rewrite Hrec. destruct cur as [[n0 a0]|]; cbn [option_map push]; unfold decode; cbn [fst snd map].
      * rewrite map_app. cbn [map]. rewrite Hdec. reflexivity.
      * rewrite Hdec. reflexivity.
Qed.
End Entries.

Definition ge_names (pos : nat) (L : list gs) : Prop := Forall (fun g => (pos <= fst (fst g))%nat) L.

Lemma ge_names_weaken a b L : (a <= b)%nat -> ge_names b L -> ge_names a L.
Proof. intros H HF. eapply Forall_impl; [|exact HF]. cbn. intros; lia. Qed.

Lemma gw_sorted : forall ws pos cur,
  (forall g, cur = Some g -> (fst (fst g) < pos)%nat) ->
  StronglySorted name_lt (gw pos cur ws) /\
  match cur with
  | Some g0 => exists a L', gw pos cur ws = (fst g0, a) :: L' /\ ge_names pos L'
  | None => ge_names pos (gw pos cur ws)
  end.
Proof.
  induction ws as [|w r IH]; intros pos cur Hc; cbn [gw].
  - destruct cur as [[n0 a0]|]; cbn [olist].
    + split; [repeat constructor|]. exists a0, []. split; [reflexivity|constructor].
    + split; constructor.
  - set (next := (pos + length w + 1)%nat). assert (Hnext : (pos < next)%nat) by (unfold next; lia).
    destruct w as [|c w'].
    + destruct (IH next cur) as [S1 S2]; [intros g Hg; specialize (Hc g Hg); lia|].
      split; [exact S1|]. destruct cur as [g0|].
      * destruct S2 as (a & L' & E & G). exists a, L'. split; [exact E|]. apply (ge_names_weaken pos next); [lia|exact G].
      * apply (ge_names_weaken pos next); [lia|exact S2].
    + set (w := c :: w') in *. destruct (beq w PRESENT_INTERNAL_AND_TRIMMED).
      * destruct (IH next None) as [S1 S2]; [intros g Hg; discriminate|].
        destruct cur as [[n0 a0]|]; cbn [olist app].
        -- specialize (Hc _ eq_refl). cbn [fst] in Hc. split.
           ++ constructor; [exact S1|]. eapply Forall_impl; [|exact S2]. unfold name_lt. cbn [fst]. intros g Hg. cbv beta in Hg.
              exact (Nat.lt_le_trans _ _ _ (Nat.lt_trans _ _ _ Hc Hnext) Hg).
           ++ exists a0, (gw next None r). split; [reflexivity|]. apply (ge_names_weaken pos next); [lia|exact S2].
        -- split; [exact S1|]. apply (ge_names_weaken pos next); [lia|exact S2].
      * destruct (IH next (Some (push cur (pos, length w)))) as [S1 S2].
        { intros g [= <-]. destruct cur as [[n0 a0]|]; cbn [push fst].
          - specialize (Hc _ eq_refl). cbn [fst] in Hc. lia.
          - lia. }
        split; [exact S1|]. destruct S2 as (a & L' & E & G).
        destruct cur as [[n0 a0]|]; cbn [push fst] in *.
        -- exists a, L'. split; [exact E|]. apply (ge_names_weaken pos next); [lia|exact G].
        -- rewrite E. constructor; [cbn [fst]; lia|]. apply (ge_names_weaken pos next); [lia|exact G].
Qed.

Lemma flat_length_ge gl : (length gl <= length (flat gl))%nat.
Proof.
  induction gl as [|g r IH]; [cbn; lia|]. rewrite flat_cons, app_length, flat1_length. cbn [length]. lia.
Qed.

Lemma starts_with_ext p : forall a c x d y, ~ In c p -> ~ In d p ->
  starts_with p (a ++ c :: x) = starts_with p (a ++ d :: y).
Proof.
  induction p as [|b p IH]; intros a c x d y Hc Hd; [reflexivity|].
  destruct a as [|e a]; cbn [app starts_with].
  - destruct (N.eqb_spec b c) as [->|_]; [exfalso; apply Hc; left; reflexivity|].
    destruct (N.eqb_spec b d) as [->|_]; [exfalso; apply Hd; left; reflexivity|]. reflexivity.
  - f_equal. apply IH; intros H; [apply Hc|apply Hd]; right; exact H.
Qed.

(** ---- the theorem ---- *)
Theorem present_line_grammar : forall (ws : list bytes) (crlf : bool) (rest : bytes),
  line_words_ok ws ->
  present_parse (render_line ws crlf ++ rest)
  = Ok (Some {| p_entries := group_words None (nonempty_words ws);
                p_data_start := length (render_line ws crlf);
                p_body := rest |}).
Proof.
  intros ws crlf rest [HF Hand].
  remember (render_line ws crlf ++ rest) as data eqn:Edata.
  (* no word at all = one empty word *)
  remember (match ws with [] => [[]] | _ => ws end) as ws' eqn:Ews'.
  assert (Erw : render_words ws' = render_words ws) by (subst ws'; destruct ws; reflexivity).
  assert (Ene : nonempty_words ws' = nonempty_words ws) by (subst ws'; destruct ws; reflexivity).
  assert (HF' : Forall (fun w => word_ok w = true) ws') by (subst ws'; destruct ws; [repeat constructor|exact HF]).
  assert (Hd : data = PRESENT_INTERNAL_PREFIX ++ render_words ws' ++ line_end crlf ++ rest).
  { rewrite Edata. unfold render_line. rewrite Erw. repeat rewrite <- app_assoc. reflexivity. }
  destruct ws' as [|w r]; [destruct ws; discriminate|]. clear Ews'.
  set (gl := gw 3 None (w :: r)).
  set (ds := (3 + length (render_words (w :: r)) + length (line_end crlf))%nat).
  assert (Hds : ds = length (render_line ws crlf)).
  { unfold ds, render_line. rewrite !app_length, Erw. reflexivity. }
  assert (Hpe : pe_new data_start_fixed data = Ok (Some (flat gl, ds))).
  { unfold pe_new.
    assert (Hp : starts_with PRESENT_INTERNAL_PREFIX data = true) by (apply starts_with_app; eexists; exact Hd).
    rewrite Hp. cbn [negb].
    assert (Hl : (3 <= length data)%nat) by (rewrite Hd, app_length; cbn [length PRESENT_INTERNAL_PREFIX]; lia).
    rewrite slice_chk_ok by lia. unfold slice. rewrite firstn_all2 by (rewrite skipn_length; lia).
    assert (Hsk : skipn 3 data = render_words (w :: r) ++ line_end crlf ++ rest) by (rewrite Hd; reflexivity).
    rewrite Hsk.
    assert (Hno : starts_with PRESENT_INTERNAL_AND (render_words (w :: r) ++ line_end crlf ++ rest) = false).
    { rewrite Erw. rewrite <- Hand. destruct crlf; cbn [line_end app].
      - apply starts_with_ext; intros [H|[H|[H|[H|[]]]]]; discriminate.
      - apply starts_with_ext; intros [H|[H|[H|[H|[]]]]]; discriminate. }
    rewrite Hno.
    exact (pe_words data _ (w :: r) (le_n _) w r eq_refl PRESENT_INTERNAL_PREFIX [] None false crlf rest Hd HF' (or_introl eq_refl)). }
  assert (HFok : Forall (pd_ok (length data)) (flat gl)).
  { destruct (pe_new_ok data) as (r0 & E0 & P0). rewrite Hpe in E0. inversion E0; subst r0. exact (proj1 P0). }
  unfold present_parse, present_parse_with. rewrite Hpe.
  assert (Hle : (ds <= length data)%nat) by (rewrite Hds, Edata, app_length; lia).
  unfold split_off. destruct (Nat.ltb_spec (length data) ds); [lia|]. cbn [obind].
  assert (Hsorted : StronglySorted name_lt gl) by (apply (gw_sorted (w :: r) 3%nat None); intros g Hg; discriminate).
  pose proof (iter_all_flat gl [] (S (length (flat gl))) Hsorted ltac:(pose proof (flat_length_ge gl); lia)) as Hit.
  cbn [app length] in Hit. rewrite Hit. cbn [obind].
  pose proof (entries_flat data (flat gl) HFok gl [] eq_refl) as Hen. cbn [length] in Hen. rewrite Hen. cbn [obind].
  do 2 f_equal. f_equal.
  - pose proof (gw_decode data (w :: r) PRESENT_INTERNAL_PREFIX None (line_end crlf ++ rest) Hd) as Hg.
    cbn [option_map] in Hg. rewrite <- Ene. exact Hg.
  - exact Hds.
  - rewrite Hds, Edata. rewrite skipn_app, skipn_all, Nat.sub_diag. reflexivity.
Qed.

(** ================= Part C: the double-ended argument iterator ================= *)
Section DoubleEndedProofs.
Variable data : bytes.
Variable exts : list posdata.
Variable di : nat.
Notation argf := (arg_at data exts).
Definition rng (index back : nat) : list nat := map (Nat.add di) (seq index (back - index)).

Lemma rng_nil index back : (back <= index)%nat -> rng index back = [].
Proof. intros H. unfold rng. replace (back - index)%nat with 0%nat by lia. reflexivity. Qed.
Lemma rng_cons index back : (index < back)%nat -> rng index back = (di + index)%nat :: rng (S index) back.
Proof.
  intros H. unfold rng. replace (back - index)%nat with (S (back - S index)) by lia. reflexivity.
Qed.
Lemma rng_snoc index back : (index < back)%nat -> rng index back = rng index (back - 1) ++ [(di + back - 1)%nat].
Proof.
  intros H. unfold rng. replace (back - index)%nat with ((back - 1 - index) + 1)%nat by lia.
  rewrite seq_app, map_app. cbn [seq map]. do 2 f_equal. lia.
Qed.

Lemma args_loop_char : forall fuel index back, (back - index <= fuel)%nat ->
  args_loop args_end fuel data exts di back index = omap argf (rng index back).
Proof.
  induction fuel as [|fuel IH]; intros index back Hf.
  - cbn [args_loop]. unfold args_end. destruct (Nat.leb_spec back index); [|lia].
    rewrite rng_nil by lia. reflexivity.
  - cbn [args_loop]. unfold args_end. destruct (Nat.leb_spec back index) as [Hb|Hb].
    + rewrite rng_nil by lia. reflexivity.
    + rewrite rng_cons by lia. cbn [omap]. unfold arg_at at 1.
      destruct (nth_error exts (di + index)) as [e|]; [|reflexivity].
      destruct (pd_arg e) as [s l]. rewrite IH by lia. reflexivity.
Qed.

Lemma omap_snoc_ok {X Y} (f : X -> outcome Y) l x r :
  omap f (l ++ [x]) = Ok r -> exists r1 a, omap f l = Ok r1 /\ f x = Ok a /\ r = r1 ++ [a].
Proof.
  revert r. induction l as [|y l IH]; intros r H; cbn [app omap] in H.
  - destruct (f x) as [a| |] eqn:E; try discriminate. cbn [obind] in H. inversion H; subst.
    exists [], a. repeat split; reflexivity.
  - destruct (f y) as [b| |] eqn:Ey; try discriminate. cbn [obind] in H.
    destruct (omap f (l ++ [x])) as [r'| |] eqn:Er; try discriminate. cbn [obind] in H. inversion H; subst.
    destruct (IH r' eq_refl) as (r1 & a & E1 & E2 & E3). exists (b :: r1), a.
    cbn [omap]. rewrite Ey, E1. cbn [obind]. subst r'. repeat split; try reflexivity. exact E2.
Qed.

Lemma de_drive_char : forall sched index back l,
  omap argf (rng index back) = Ok l ->
  de_drive data exts di sched (index, back) = Ok (deque_drive sched l).
Proof.
  induction sched as [|front sched IH]; intros index back l H; [reflexivity|].
  cbn [de_drive]. destruct front.
  - unfold de_next. destruct (Nat.leb_spec back index) as [Hb|Hb].
    + rewrite rng_nil in H by lia. cbn [omap] in H. inversion H; subst. cbn [obind snd fst].
      rewrite (IH index back []); [|rewrite rng_nil by lia; reflexivity]. cbn [obind deque_drive].
      destruct (deque_drive sched []); reflexivity.
    + rewrite rng_cons in H by lia. cbn [omap] in H.
      destruct (argf (di + index)) as [a| |] eqn:Ea; try discriminate. cbn [obind] in H.
      destruct (omap argf (rng (S index) back)) as [l'| |] eqn:El; try discriminate. cbn [obind] in H.
      inversion H; subst. cbn [obind snd fst]. rewrite (IH _ _ _ El). cbn [obind deque_drive]. reflexivity.
  - unfold de_next_back. destruct (Nat.leb_spec back index) as [Hb|Hb].
    + rewrite rng_nil in H by lia. cbn [omap] in H. inversion H; subst. cbn [obind snd fst].
      rewrite (IH index back []); [|rewrite rng_nil by lia; reflexivity]. cbn [obind deque_drive].
      destruct (deque_drive sched []); reflexivity.
    + destruct (Nat.eqb_spec (di + back) 0); [lia|].
      rewrite rng_snoc in H by lia. apply omap_snoc_ok in H as (r1 & a & E1 & E2 & E3).
      rewrite E2. cbn [obind snd fst]. rewrite (IH _ _ _ E1). cbn [obind]. subst l.
      destruct r1 as [|b r1]; cbn [app deque_drive].
      * reflexivity.
      * change (b :: r1 ++ [a]) with ((b :: r1) ++ [a]). rewrite removelast_last, last_last. reflexivity.
Qed.

Lemma de_back_all_char : forall fuel index back l, (back - index < fuel)%nat ->
  omap argf (rng index back) = Ok l ->
  de_back_all data exts di fuel (index, back) = Ok (rev l).
Proof.
  induction fuel as [|fuel IH]; intros index back l Hf H; [lia|].
  cbn [de_back_all]. unfold de_next_back. destruct (Nat.leb_spec back index) as [Hb|Hb].
  - rewrite rng_nil in H by lia. cbn [omap] in H. inversion H; subst. reflexivity.
  - destruct (Nat.eqb_spec (di + back) 0); [lia|].
    rewrite rng_snoc in H by lia. apply omap_snoc_ok in H as (r1 & a & E1 & E2 & E3).
    rewrite E2. cbn [obind snd fst]. rewrite (IH _ _ r1) by (try lia; exact E1). cbn [obind].
    subst l. rewrite rev_app_distr. reflexivity.
Qed.
End DoubleEndedProofs.

Lemma pa_args_char data exts pa l : pa_args args_end data exts pa = Ok l ->
  omap (arg_at data exts) (rng (fst pa) 1 (snd pa)) = Ok l /\ (snd pa - 1 <= length l)%nat.
Proof.
  unfold pa_args. intros H.
  assert (Hlen : forall fuel index back r, args_loop args_end fuel data exts (fst pa) back index = Ok r ->
                                           (back - index <= fuel -> length r = back - index)%nat).
  { induction fuel as [|fuel IH]; intros index back r Hr Hf.
    - cbn [args_loop] in Hr. unfold args_end at 1 in Hr. destruct (Nat.leb_spec back index); [|discriminate].
      inversion Hr; subst. cbn [length]. lia.
    - cbn [args_loop] in Hr. unfold args_end at 1 in Hr. destruct (Nat.leb_spec back index).
      + inversion Hr; subst. cbn [length]. lia.
      + destruct (nth_error exts (fst pa + index)) as [e|]; [|discriminate]. destruct (pd_arg e) as [s l0].
        destruct (slice_chk s (s + l0) data) as [a| |]; try discriminate. cbn [obind] in Hr.
        destruct (args_loop args_end fuel data exts (fst pa) back (S index)) as [r'| |] eqn:Er; try discriminate.
        cbn [obind] in Hr. inversion Hr; subst. cbn [length]. rewrite (IH _ _ _ Er) by lia. lia. }
  (* the forward loop reads exts[data_index + index]: all of them exist, so back_index - 1 <= length exts *)
  destruct (Nat.le_gt_cases (snd pa - 1) (S (length exts))) as [Hle|Hgt].
  - rewrite args_loop_char in H by lia. split; [exact H|].
    assert (length l = length (rng (fst pa) 1 (snd pa))) as ->.
    { clear -H. revert l H. generalize (rng (fst pa) 1 (snd pa)). intros xs. induction xs as [|x xs IH]; intros r Hr; cbn [omap] in Hr.
      - inversion Hr; reflexivity.
      - destruct (arg_at data exts x); try discriminate. cbn [obind] in Hr. destruct (omap (arg_at data exts) xs); try discriminate.
        cbn [obind] in Hr. inversion Hr; subst. cbn [length]. f_equal. apply IH. reflexivity. }
    unfold rng. rewrite map_length, seq_length. lia.
  - exfalso.
    (* with back_index - 1 > S (length exts) the loop runs out of the vector before it runs out of fuel *)
    assert (Hbad : forall fuel index, (fuel + index = S (S (length exts)))%nat -> (index < snd pa)%nat ->
                   forall r, args_loop args_end fuel data exts (fst pa) (snd pa) index <> Ok r).
    { induction fuel as [|fuel IH]; intros index Hs Hi r Hr.
      - cbn [args_loop] in Hr. unfold args_end at 1 in Hr. destruct (Nat.leb_spec (snd pa) index); [lia|]. discriminate.
      - cbn [args_loop] in Hr. unfold args_end at 1 in Hr. destruct (Nat.leb_spec (snd pa) index); [lia|].
        destruct (nth_error exts (fst pa + index)) as [e|] eqn:En; [|discriminate]. destruct (pd_arg e) as [s l0].
        destruct (slice_chk s (s + l0) data) as [a| |]; try discriminate. cbn [obind] in Hr.
        destruct (args_loop args_end fuel data exts (fst pa) (snd pa) (S index)) as [r'| |] eqn:Er; try discriminate.
        assert (fst pa + index < length exts)%nat by (apply nth_error_Some; rewrite En; discriminate).
        eapply (IH (S index)); [lia|lia|exact Er]. }
    eapply (Hbad (S (length exts)) 1%nat); [lia|lia|exact H].
Qed.

(** [.iter().rev()] yields the arguments of [.iter()] in reverse order (and fails where it fails). *)
Theorem args_rev_is_reverse_model data exts pa l :
  pa_args args_end data exts pa = Ok l -> pa_args_back data exts pa = Ok (rev l).
Proof.
  intros H. apply pa_args_char in H as [H _]. unfold pa_args_back.
  apply de_back_all_char; [lia|exact H].
Qed.

(** Any interleaving of [next] and [next_back] behaves as a deque on the list of arguments. *)
Theorem args_double_ended_model data exts pa l sched :
  pa_args args_end data exts pa = Ok l -> pa_args_drive data exts pa sched = Ok (deque_drive sched l).
Proof.
  intros H. apply pa_args_char in H as [H _]. unfold pa_args_drive. apply de_drive_char. exact H.
Qed.

(** ... so every argument is yielded at most once, in order from both ends, and all of them once the
    schedule is as long as the list. *)
Lemma deque_each_once_model : forall sched l,
  exists mid, l = fst (deque_drive sched l) ++ mid ++ rev (snd (deque_drive sched l)) /\
              (length l <= length sched -> mid = [])%nat.
Proof.
  induction sched as [|front sched IH]; intros l.
  - exists l. cbn [deque_drive fst snd rev]. rewrite app_nil_r. split; [reflexivity|].
    cbn [length]. intros H. destruct l; [reflexivity|cbn [length] in H; lia].
  - destruct l as [|a l].
    + exists []. assert (E : deque_drive (front :: sched) [] = deque_drive sched []) by (destruct front; reflexivity).
      rewrite E. destruct (IH []) as (mid & E1 & E2). rewrite (E2 ltac:(cbn [length]; lia)) in E1.
      split; [exact E1|reflexivity].
    + destruct front; cbn [deque_drive fst snd].
      * destruct (IH l) as (mid & E1 & E2). exists mid. split.
        -- cbn [app]. f_equal. exact E1.
        -- cbn [length]. intros H. apply E2. lia.
      * destruct (IH (removelast (a :: l))) as (mid & E1 & E2). exists mid.
        assert (Hl : a :: l = removelast (a :: l) ++ [last (a :: l) []]) by (apply app_removelast_last; discriminate).
        split.
        -- cbn [rev]. rewrite Hl at 1. rewrite E1 at 1. rewrite <- !app_assoc. reflexivity.
        -- intros H. apply E2. rewrite Hl in H. rewrite app_length in H. cbn [length] in H. cbn [length]. lia.
Qed.

(** the complete reading of a line with a second way of reading the arguments *)
Lemma present_parse_de_char {R} (f : bytes -> list posdata -> span -> outcome R) (g : list bytes -> R) data :
  (forall exts pa a, pa_args args_end data exts pa = Ok a -> f data exts pa = Ok (g a)) ->
  present_parse_de f data =
  match present_parse data with
  | Ok (Some p) => Ok (Some (map (fun e => (fst e, snd e, g (snd e))) (p_entries p)))
  | Ok None => Ok None
  | Err e => Err e
  | Panic => Panic
  end.
Proof.
  intros Hf. destruct (present_parse_total data) as (r & E & _). rewrite E.
  unfold present_parse, present_parse_with in E. unfold present_parse_de.
  destruct (pe_new data_start_fixed data) as [[[exts ds]|]| |]; try discriminate; [|inversion E; reflexivity].
  destruct (split_off ds data) as [body| |]; try discriminate. cbn [obind] in E.
  destruct (iter_all (S (length exts)) exts 0) as [pas| |]; try discriminate. cbn [obind] in E |- *.
  match type of E with obind (omap ?F pas) _ = _ => destruct (omap F pas) as [es| |] eqn:Ees; try discriminate end.
  cbn [obind] in E. inversion E; subst r. cbn [p_entries].
  assert (H : omap (fun pa => obind (pa_name data exts pa) (fun n =>
                            obind (pa_args args_end data exts pa) (fun a =>
                            obind (f data exts pa) (fun r => Ok (n, a, r))))) pas
              = Ok (map (fun e => (fst e, snd e, g (snd e))) es)).
  { clear E. revert es Ees. induction pas as [|pa pas IH]; intros es Ees; cbn [omap] in *.
    - inversion Ees; reflexivity.
    - destruct (pa_name data exts pa) as [n| |]; try discriminate. cbn [obind] in *.
      destruct (pa_args args_end data exts pa) as [a| |] eqn:Ea; try discriminate. cbn [obind] in *.
      rewrite (Hf _ _ _ Ea). cbn [obind].
      match type of Ees with obind (omap ?F pas) _ = _ => destruct (omap F pas) as [es'| |] eqn:E'; try discriminate end.
      cbn [obind] in Ees. inversion Ees; subst es. rewrite (IH es' eq_refl). cbn [obind map fst snd]. reflexivity. }
  rewrite H. reflexivity.
Qed.
