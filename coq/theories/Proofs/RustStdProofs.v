(** Lemmas about the transcription of rustc 1.95's [binary_search_by] (Model/RustStd.v):
    totality for every list, and the characterisation on a slice that is sorted
    consistently with the comparator. *)
From KV Require Import RustStd.
From Coq Require Import ZifyBool ZifyNat.

Section BinarySearch.
Context {T : Type}.
Variable f : T -> comparison.

(** ---- totality: the fuel is enough and every index is inside the slice ---- *)

Lemma bs_loop_total fuel l base size :
  (size <= S fuel)%nat -> (1 <= size)%nat -> (base + size <= length l)%nat ->
  exists b, bs_loop f fuel l base size = Some b /\ (base <= b)%nat /\ (b < base + size)%nat.
Proof.
  revert base size; induction fuel as [|fuel IH]; intros base size Hf H1 Hl; cbn [bs_loop].
  - assert (size = 1)%nat by lia; subst. cbn. exists base. repeat split; lia.
  - destruct (Nat.leb_spec size 1) as [Hs|Hs].
    + exists base. repeat split; lia.
    + assert (Hh : (1 <= size / 2 /\ size / 2 <= size - size / 2 /\ size / 2 < size)%nat).
      { pose proof (Nat.div_mod size 2 ltac:(lia)) as E.
        pose proof (Nat.mod_upper_bound size 2 ltac:(lia)). lia. }
      destruct (nth_error l (base + size / 2)) as [x|] eqn:En.
      2:{ apply nth_error_None in En. lia. }
      destruct (f x).
      * destruct (IH (base + size / 2)%nat (size - size / 2)%nat) as (b & E & B1 & B2); try lia.
        exists b. repeat split; try assumption; lia.
      * destruct (IH (base + size / 2)%nat (size - size / 2)%nat) as (b & E & B1 & B2); try lia.
        exists b. repeat split; try assumption; lia.
      * destruct (IH base (size - size / 2)%nat) as (b & E & B1 & B2); try lia.
        exists b. repeat split; try assumption; lia.
Qed.

Lemma binary_search_by_total l : exists r, binary_search_by f l = Some r.
Proof.
  unfold binary_search_by. destruct (Nat.eqb_spec (length l) 0) as [|Hn]; [eauto|].
  destruct (bs_loop_total (length l) l 0 (length l)) as (b & E & _ & B2); try lia.
  rewrite E. destruct (nth_error l b) as [x|] eqn:En.
  - destruct (f x); eauto.
  - apply nth_error_None in En. lia.
Qed.

(** ---- characterisation on a slice that is partitioned by the comparator ----
    [l = L ++ E ++ G] with [f = Less] on [L], [Equal] on [E], [Greater] on [G] — that is
    what "sorted consistently with the comparator" means for [binary_search_by]. *)

Definition k_nongreater (L E : list T) : nat := (length L + length E)%nat.

Lemma bs_loop_partition L E G fuel base size :
  Forall (fun x => f x = Lt) L -> Forall (fun x => f x = Eq) E -> Forall (fun x => f x = Gt) G ->
  (size <= S fuel)%nat -> (1 <= size)%nat -> (base + size <= length (L ++ E ++ G))%nat ->
  (base = 0 \/ base < k_nongreater L E)%nat -> (k_nongreater L E <= base + size)%nat ->
  bs_loop f fuel (L ++ E ++ G) base size = Some (Nat.pred (k_nongreater L E)).
Proof.
  intros HL HE HG. unfold k_nongreater.
  revert base size; induction fuel as [|fuel IH]; intros base size Hf H1 Hl Hb Hk; cbn [bs_loop].
  - assert (size = 1)%nat by lia; subst. cbn. f_equal. lia.
  - destruct (Nat.leb_spec size 1) as [Hs|Hs].
    + f_equal. lia.
    + assert (Hh : (1 <= size / 2 /\ size / 2 <= size - size / 2 /\ size / 2 < size)%nat).
      { pose proof (Nat.div_mod size 2 ltac:(lia)) as E0.
        pose proof (Nat.mod_upper_bound size 2 ltac:(lia)). lia. }
      set (mid := (base + size / 2)%nat).
      destruct (nth_error (L ++ E ++ G) mid) as [x|] eqn:En.
      2:{ apply nth_error_None in En. lia. }
      (* where is mid? *)
      destruct (Nat.lt_ge_cases mid (length L)) as [HmL|HmL].
      { rewrite nth_error_app1 in En by assumption.
        apply nth_error_In in En. rewrite Forall_forall in HL. rewrite (HL _ En).
        apply IH; lia. }
      rewrite nth_error_app2 in En by assumption.
      destruct (Nat.lt_ge_cases (mid - length L) (length E)) as [HmE|HmE].
      { rewrite nth_error_app1 in En by assumption.
        apply nth_error_In in En. rewrite Forall_forall in HE. rewrite (HE _ En).
        apply IH; lia. }
      rewrite nth_error_app2 in En by assumption.
      apply nth_error_In in En. rewrite Forall_forall in HG. rewrite (HG _ En).
      apply IH; lia.
Qed.

(** The characterising lemma: on a comparator-partitioned slice the result is [Ok] of the
    (last) matching index when some element matches, else [Err] of the insertion point. *)
Theorem binary_search_by_partition L E G :
  Forall (fun x => f x = Lt) L -> Forall (fun x => f x = Eq) E -> Forall (fun x => f x = Gt) G ->
  binary_search_by f (L ++ E ++ G) =
  Some (match E with
        | [] => BErr (length L)
        | _ => BOk (length L + length E - 1)
        end).
Proof.
  intros HL HE HG. unfold binary_search_by.
  destruct (Nat.eqb_spec (length (L ++ E ++ G)) 0) as [Hz|Hn].
  - apply length_zero_iff_nil in Hz. apply app_eq_nil in Hz as [-> Hz].
    apply app_eq_nil in Hz as [-> ->]. reflexivity.
  - rewrite (bs_loop_partition L E G) by (try assumption; unfold k_nongreater; rewrite ?app_length in *; lia).
    unfold k_nongreater.
    rewrite !app_length in Hn.
    destruct E as [|e E'].
    + cbn [length] in *. rewrite Nat.add_0_r.
      destruct L as [|x0 L'] using rev_ind.
      * cbn [length app Nat.pred]. destruct G as [|g G']; [cbn in Hn; lia|].
        cbn [nth_error]. inversion HG; subst. rewrite H1. reflexivity.
      * clear IHL'. rewrite app_length. cbn [length].
        replace (Nat.pred (length L' + 1)) with (length L') by lia.
        rewrite <- app_assoc. rewrite nth_error_app2 by lia. rewrite Nat.sub_diag. cbn [app nth_error].
        apply Forall_app in HL as [_ HL]. apply Forall_inv in HL. rewrite HL.
        reflexivity.
    + set (E := e :: E') in *.
      assert (HlenE : (1 <= length E)%nat) by (subst E; cbn; lia).
      rewrite nth_error_app2 by lia.
      rewrite nth_error_app1 by lia.
      destruct (nth_error E (Nat.pred (length L + length E) - length L)) as [x|] eqn:En.
      2:{ apply nth_error_None in En. lia. }
      apply nth_error_In in En. rewrite Forall_forall in HE. rewrite (HE _ En).
      f_equal. f_equal. lia.
Qed.

(** Reading of the result as the statement asked for in DESIGN.md: with at most one
    matching element, [Ok i] iff element [i] matches, otherwise [Err] of the insertion
    point (= number of elements ordered before the target). *)
Corollary binary_search_by_unique L e G :
  Forall (fun x => f x = Lt) L -> f e = Eq -> Forall (fun x => f x = Gt) G ->
  binary_search_by f (L ++ e :: G) = Some (BOk (length L)).
Proof.
  intros HL He HG. change (L ++ e :: G) with (L ++ [e] ++ G).
  rewrite binary_search_by_partition by (try assumption; repeat constructor; assumption).
  cbn [length]. f_equal. f_equal. lia.
Qed.

Corollary binary_search_by_absent L G :
  Forall (fun x => f x = Lt) L -> Forall (fun x => f x = Gt) G ->
  binary_search_by f (L ++ G) = Some (BErr (length L)).
Proof.
  intros HL HG. change (L ++ G) with (L ++ [] ++ G).
  rewrite binary_search_by_partition by (try assumption; constructor). reflexivity.
Qed.


(** ---- the statement of DESIGN.md section 4 ----
    [partitioned l]: [l] is sorted consistently with the comparator and strictly (at most
    one element compares [Equal]): all [Less] elements, then the target if present, then all
    [Greater] ones.  Then [Ok i] iff element [i] is the target, and [Err i] iff [i] is the
    insertion point (everything before it is ordered before the target, everything from it
    on after the target), which is unique. *)
Definition partitioned (l : list T) : Prop :=
  exists L E G, l = L ++ E ++ G /\ Forall (fun x => f x = Lt) L /\ Forall (fun x => f x = Eq) E /\
                Forall (fun x => f x = Gt) G /\ (length E <= 1)%nat.

Definition insertion_point (l : list T) (i : nat) : Prop :=
  (i <= length l)%nat /\ Forall (fun x => f x = Lt) (firstn i l) /\ Forall (fun x => f x = Gt) (skipn i l).

Lemma insertion_point_unique l i j : insertion_point l i -> insertion_point l j -> i = j.
Proof.
  intros (Hi & Li & Gi) (Hj & Lj & Gj).
  destruct (Nat.lt_trichotomy i j) as [Hlt|[Heq|Hgt]]; [exfalso|exact Heq|exfalso].
  - (* element i is Greater (from i) and Less (before j) *)
    destruct (nth_error l i) as [x|] eqn:En; [|apply nth_error_None in En; lia].
    assert (H1 : f x = Gt).
    { rewrite Forall_forall in Gi. apply Gi. rewrite <- (firstn_skipn i l) in En.
      rewrite nth_error_app2 in En by (rewrite firstn_length; lia).
      rewrite firstn_length, Nat.min_l, Nat.sub_diag in En by lia. eapply nth_error_In; exact En. }
    assert (H2 : f x = Lt).
    { rewrite Forall_forall in Lj. apply Lj. rewrite <- (firstn_skipn j l) in En.
      rewrite nth_error_app1 in En by (rewrite firstn_length; lia). eapply nth_error_In; exact En. }
    congruence.
  - destruct (nth_error l j) as [x|] eqn:En; [|apply nth_error_None in En; lia].
    assert (H1 : f x = Gt).
    { rewrite Forall_forall in Gj. apply Gj. rewrite <- (firstn_skipn j l) in En.
      rewrite nth_error_app2 in En by (rewrite firstn_length; lia).
      rewrite firstn_length, Nat.min_l, Nat.sub_diag in En by lia. eapply nth_error_In; exact En. }
    assert (H2 : f x = Lt).
    { rewrite Forall_forall in Li. apply Li. rewrite <- (firstn_skipn i l) in En.
      rewrite nth_error_app1 in En by (rewrite firstn_length; lia). eapply nth_error_In; exact En. }
    congruence.
Qed.

Lemma partitioned_result l : partitioned l ->
  exists L E G, l = L ++ E ++ G /\ Forall (fun x => f x = Lt) L /\ Forall (fun x => f x = Eq) E /\
    Forall (fun x => f x = Gt) G /\ (length E <= 1)%nat /\
    binary_search_by f l = Some (match E with [] => BErr (length L) | _ => BOk (length L) end).
Proof.
  intros (L & E & G & -> & HL & HE & HG & Hlen). exists L, E, G. repeat split; try assumption.
  rewrite (binary_search_by_partition L E G HL HE HG).
  destruct E as [|e [|e' E']]; cbn [length] in *; try lia; try reflexivity.
  f_equal. f_equal. lia.
Qed.

Theorem binary_search_by_ok_iff l i : partitioned l ->
  (binary_search_by f l = Some (BOk i) <-> exists x, nth_error l i = Some x /\ f x = Eq).
Proof.
  intros HP. destruct (partitioned_result l HP) as (L & E & G & -> & HL & HE & HG & Hlen & R).
  rewrite R. split.
  - destruct E as [|e E']; [discriminate|]. intros [= <-]. exists e.
    rewrite nth_error_app2, Nat.sub_diag by lia. split; [reflexivity|]. apply Forall_inv in HE. exact HE.
  - intros (x & En & Hx).
    destruct (Nat.lt_ge_cases i (length L)) as [H1|H1].
    { rewrite nth_error_app1 in En by exact H1. apply nth_error_In in En.
      rewrite Forall_forall in HL. rewrite (HL _ En) in Hx. discriminate. }
    rewrite nth_error_app2 in En by exact H1.
    destruct (Nat.lt_ge_cases (i - length L) (length E)) as [H2|H2].
    + destruct E as [|e E']; [cbn in H2; lia|]. f_equal. f_equal. cbn [length] in *. lia.
    + rewrite nth_error_app2 in En by exact H2. apply nth_error_In in En.
      rewrite Forall_forall in HG. rewrite (HG _ En) in Hx. discriminate.
Qed.

Theorem binary_search_by_err_iff l i : partitioned l ->
  (binary_search_by f l = Some (BErr i) <-> insertion_point l i).
Proof.
  intros HP. split.
  - destruct (partitioned_result l HP) as (L & E & G & -> & HL & HE & HG & Hlen & R).
    rewrite R. destruct E as [|e E']; [|discriminate]. intros [= <-]. cbn [app].
    unfold insertion_point. rewrite app_length, firstn_app, Nat.sub_diag, firstn_all, skipn_app, Nat.sub_diag, skipn_all.
    cbn [firstn skipn app]. rewrite app_nil_r. repeat split; try assumption. lia.
  - intros (Hi & HL & HG). rewrite <- (firstn_skipn i l) at 1.
    rewrite (binary_search_by_absent _ _ HL HG). rewrite firstn_length, Nat.min_l by exact Hi. reflexivity.
Qed.

End BinarySearch.
