(** C14 — the serialisation of a CSP rule ([Rule::to_header_nonce], Model/Nonce.v) against an
    independent reading of the emitted text: a CSP parser ([parse_policy]: split on ';', tokens
    separated by spaces) returns exactly the directives and sources the rule holds ([spec_policy]),
    with the nonce source added once to each of the four script/style directives. *)
From Coq Require Import Lia ZifyBool ZifyNat ZifyN.
From KV Require Import Bytes RuleSetStd RuleSet Nonce RuleSetProofs NonceProofs.
Open Scope N_scope.

(** ---- splitting ---- *)
Lemma split_byte_nonempty c s : split_byte c s <> [].
Proof.
  destruct s as [|x r]; cbn [split_byte]; [discriminate|].
  destruct (N.eqb x c); [discriminate|]. destruct (split_byte c r); discriminate.
Qed.

Lemma split_byte_app c x y : split_byte c (x ++ c :: y) = split_byte c x ++ split_byte c y.
Proof.
  induction x as [|a x IH]; cbn [app split_byte].
  - rewrite N.eqb_refl. reflexivity.
  - destruct (N.eqb a c); [rewrite IH; reflexivity|].
    rewrite IH. pose proof (split_byte_nonempty c x) as NE.
    destruct (split_byte c x) as [|seg rest]; [contradiction|reflexivity].
Qed.

Lemma split_byte_none c s : ~ In c s -> split_byte c s = [s].
Proof.
  induction s as [|a s IH]; intros H; cbn [split_byte]; [reflexivity|].
  destruct (N.eqb a c) eqn:E.
  - exfalso. apply H. left. apply N.eqb_eq. exact E.
  - rewrite IH; [reflexivity|]. intros Hi. apply H. right. exact Hi.
Qed.

(** ---- tokens ---- *)
Lemma tokens_nil : tokens [] = [].
Proof. reflexivity. Qed.

Lemma tokens_app_sp x y : tokens (x ++ c_sp :: y) = tokens x ++ tokens y.
Proof. unfold tokens. rewrite split_byte_app, filter_app. reflexivity. Qed.

Lemma tokens_atom t : wf_tok t -> tokens t = [t].
Proof.
  intros [NE [NS _]]. unfold tokens. rewrite (split_byte_none c_sp t NS). cbn [filter].
  destruct t; [contradiction|reflexivity].
Qed.

Lemma tokens_join_go : forall (r : list bytes) (v : bytes), wf_tok v -> Forall wf_tok r ->
  tokens (v ++ concat (map (fun x => c_sp :: x) r)) = v :: r.
Proof.
  induction r as [|w r IH]; intros v Hv Hr; cbn [map concat].
  - rewrite app_nil_r. apply tokens_atom. exact Hv.
  - inversion Hr as [|? ? Hw Hr']; subst. cbn [app]. rewrite tokens_app_sp, (tokens_atom v Hv), (IH w Hw Hr'). reflexivity.
Qed.

Lemma tokens_join vals : Forall wf_tok vals -> tokens (join_sp vals) = vals.
Proof.
  intros H. destruct vals as [|v r]; [reflexivity|]. inversion H; subst. cbn [join_sp].
  apply tokens_join_go; assumption.
Qed.

Lemma tokens_trailing vals : Forall wf_tok vals -> tokens (concat (map (fun v => v ++ [c_sp]) vals)) = vals.
Proof.
  induction 1 as [|v r Hv Hr IH]; [reflexivity|]. cbn [map concat].
  rewrite <- app_assoc. cbn [app]. rewrite tokens_app_sp, (tokens_atom v Hv), IH. reflexivity.
Qed.

(** ---- no semicolon in what a directive writes ---- *)
Lemma not_in_app {A} (x : A) a b : ~ In x a -> ~ In x b -> ~ In x (a ++ b).
Proof. intros Ha Hb Hi. apply in_app_or in Hi as [H|H]; [exact (Ha H)|exact (Hb H)]. Qed.

Lemma no_semi_concat (f : bytes -> bytes) vals :
  (forall v, wf_tok v -> ~ In c_semi (f v)) -> Forall wf_tok vals -> ~ In c_semi (concat (map f vals)).
Proof.
  intros Hf. induction 1 as [|v r Hv Hr IH]; [intros []|]. cbn [map concat]. apply not_in_app; [apply Hf; exact Hv|exact IH].
Qed.

Lemma semi_ne_sp : c_semi <> c_sp.
Proof. discriminate. Qed.

Lemma no_semi_join vals : Forall wf_tok vals -> ~ In c_semi (join_sp vals).
Proof.
  intros H. destruct vals as [|v r]; [intros []|]. inversion H as [|? ? Hv Hr]; subst. cbn [join_sp].
  apply not_in_app; [exact (proj2 (proj2 Hv))|].
  apply no_semi_concat; [|exact Hr]. intros w Hw [E|Hi]; [discriminate E|exact (proj2 (proj2 Hw) Hi)].
Qed.

Lemma no_semi_trailing vals : Forall wf_tok vals -> ~ In c_semi (concat (map (fun v => v ++ [c_sp]) vals)).
Proof.
  apply no_semi_concat. intros w Hw. apply not_in_app; [exact (proj2 (proj2 Hw))|].
  intros [E|[]]. discriminate E.
Qed.

(** ---- the nonce source is a token ---- *)
Lemma wf_nonce_source n : ~ In c_sp n -> ~ In c_semi n -> wf_tok (nonce_source n).
Proof.
  intros Hs Hm. unfold nonce_source. split; [discriminate|]. split.
  - apply not_in_app; [vm_compute; intuition discriminate|]. apply not_in_app; [exact Hs|]. intros [E|[]]. discriminate E.
  - apply not_in_app; [vm_compute; intuition discriminate|]. apply not_in_app; [exact Hm|]. intros [E|[]]. discriminate E.
Qed.

Lemma wf_self : wf_tok SELF.
Proof. split; [discriminate|]. split; vm_compute; intuition discriminate. Qed.

Lemma is_nil_join vals : Forall wf_tok vals -> is_nil (join_sp vals) = is_nil vals.
Proof.
  intros H. destruct vals as [|v r]; [reflexivity|]. inversion H as [|? ? Hv _]; subst.
  cbn [join_sp is_nil]. destruct v; [exfalso; exact (proj1 Hv eq_refl)|reflexivity].
Qed.

(** what a directive's value reads as *)
Lemma tokens_directive_value vals special nonce :
  Forall wf_tok vals -> wf_nonce nonce ->
  tokens (directive_value vals special nonce) = spec_sources special nonce vals /\
  ~ In c_semi (directive_value vals special nonce).
Proof.
  intros Hv Hn. unfold directive_value, spec_sources, nonce_usable.
  destruct special; [|split; [apply tokens_join; exact Hv|apply no_semi_join; exact Hv]].
  destruct nonce as [n|]; [|split; [apply tokens_join; exact Hv|apply no_semi_join; exact Hv]].
  destruct (hv_to_str_ok n); [|split; [apply tokens_join; exact Hv|apply no_semi_join; exact Hv]].
  destruct Hn as [Hs Hm]. pose proof (wf_nonce_source n Hs Hm) as Wn.
  rewrite (is_nil_join vals Hv). destruct vals as [|v r]; cbn [is_nil].
  - split.
    + change SELF_SP with (SELF ++ [c_sp]). rewrite <- app_assoc. cbn [app].
      rewrite tokens_app_sp, (tokens_atom SELF wf_self), (tokens_atom _ Wn). reflexivity.
    + apply not_in_app; [vm_compute; intuition discriminate|exact (proj2 (proj2 Wn))].
  - split.
    + rewrite <- app_assoc. cbn [app]. rewrite tokens_app_sp, (tokens_join _ Hv), (tokens_atom _ Wn). reflexivity.
    + apply not_in_app; [|exact (proj2 (proj2 Wn))].
      apply not_in_app; [apply no_semi_join; exact Hv|]. intros [E|[]]. discriminate E.
Qed.

(** ---- parsing what the serialiser appends ---- *)
Lemma parse_policy_nil : parse_policy [] = [].
Proof. reflexivity. Qed.

Lemma parse_policy_app_semi x y : parse_policy (x ++ c_semi :: y) = parse_policy x ++ parse_policy y.
Proof. unfold parse_policy. rewrite split_byte_app, flat_map_app. reflexivity. Qed.

Lemma parse_policy_segment seg : ~ In c_semi seg -> parse_policy seg = parse_directive seg.
Proof. intros H. unfold parse_policy. rewrite (split_byte_none c_semi seg H). cbn [flat_map]. apply app_nil_r. Qed.

Lemma parse_put_directive s acc name :
  wf_tok name -> ~ In c_semi s ->
  parse_policy (put_directive s acc name) = parse_policy acc ++ [(name, tokens s)].
Proof.
  intros Hn Hs. unfold put_directive.
  assert (NS : ~ In c_semi (name ++ c_sp :: s)).
  { apply not_in_app; [exact (proj2 (proj2 Hn))|]. intros [E|Hi]; [discriminate E|exact (Hs Hi)]. }
  assert (T : tokens (name ++ c_sp :: s) = name :: tokens s).
  { rewrite tokens_app_sp, (tokens_atom name Hn). reflexivity. }
  destruct acc as [|a acc]; cbn [is_nil].
  - change ([] ++ [] ++ name ++ [c_sp] ++ s) with (name ++ c_sp :: s).
    rewrite (parse_policy_segment _ NS). unfold parse_directive. rewrite T. reflexivity.
  - change ((a :: acc) ++ SEMI_SP ++ name ++ [c_sp] ++ s) with ((a :: acc) ++ c_semi :: (c_sp :: name ++ c_sp :: s)).
    rewrite parse_policy_app_semi. f_equal.
    assert (NS2 : ~ In c_semi (c_sp :: name ++ c_sp :: s)).
    { intros [E|Hi]; [discriminate E|]. exact (NS Hi). }
    rewrite (parse_policy_segment _ NS2). unfold parse_directive.
    change (c_sp :: name ++ c_sp :: s) with ([] ++ c_sp :: (name ++ c_sp :: s)).
    rewrite tokens_app_sp, tokens_nil. cbn [app]. rewrite T. reflexivity.
Qed.

Lemma parse_fold_put s : ~ In c_semi s -> forall names acc, Forall wf_tok names ->
  parse_policy (fold_left (put_directive s) names acc) = parse_policy acc ++ map (fun name => (name, tokens s)) names.
Proof.
  intros Hs. induction names as [|nm names IH]; intros acc Hn; cbn [fold_left map].
  - symmetry. apply app_nil_r.
  - inversion Hn as [|? ? H1 H2]; subst. rewrite (IH _ H2), (parse_put_directive s acc nm H1 Hs), <- app_assoc. reflexivity.
Qed.

Lemma parse_emit_named nonce acc d :
  Forall wf_tok (fst d) -> Forall wf_tok (snd d) -> wf_nonce nonce ->
  parse_policy (emit_named nonce acc d) = parse_policy acc ++ spec_named nonce d.
Proof.
  intros Hn Hv Hno. unfold emit_named, spec_named.
  destruct (negb (is_nil (snd d)) || is_special nonce (fst d)); [|symmetry; apply app_nil_r].
  destruct (tokens_directive_value (snd d) (is_special nonce (fst d)) nonce Hv Hno) as [T NS].
  rewrite (parse_fold_put _ NS (fst d) acc Hn), T. reflexivity.
Qed.

Lemma parse_emit_undefined acc u :
  wf_tok (fst u) -> Forall wf_tok (snd u) ->
  parse_policy (emit_undefined acc u) = parse_policy acc ++ spec_undefined u.
Proof.
  intros Hn Hv. unfold emit_undefined, spec_undefined. destruct (is_nil (snd u)); [symmetry; apply app_nil_r|].
  rewrite (parse_put_directive _ acc (fst u) Hn (no_semi_trailing _ Hv)), (tokens_trailing _ Hv).
  destruct u; reflexivity.
Qed.

Lemma parse_fold_named nonce : wf_nonce nonce -> forall l acc,
  Forall (fun d => Forall wf_tok (fst d) /\ Forall wf_tok (snd d)) l ->
  parse_policy (fold_left (emit_named nonce) l acc) = parse_policy acc ++ flat_map (spec_named nonce) l.
Proof.
  intros Hno. induction l as [|d l IH]; intros acc H; cbn [fold_left flat_map].
  - symmetry. apply app_nil_r.
  - inversion H as [|? ? [H1 H2] H3]; subst. rewrite (IH _ H3), (parse_emit_named nonce acc d H1 H2 Hno), <- app_assoc. reflexivity.
Qed.

Lemma parse_fold_undefined : forall l acc,
  Forall (fun u => wf_tok (fst u) /\ Forall wf_tok (snd u)) l ->
  parse_policy (fold_left emit_undefined l acc) = parse_policy acc ++ flat_map spec_undefined l.
Proof.
  induction l as [|u l IH]; intros acc H; cbn [fold_left flat_map].
  - symmetry. apply app_nil_r.
  - inversion H as [|? ? [H1 H2] H3]; subst. rewrite (IH _ H3), (parse_emit_undefined acc u H1 H2), <- app_assoc. reflexivity.
Qed.

(** the names of the 27 directives are tokens *)
Definition wf_tokb (t : bytes) : bool :=
  negb (is_nil t) && negb (existsb (N.eqb c_sp) t) && negb (existsb (N.eqb c_semi) t).
Lemma wf_tokb_ok t : wf_tokb t = true -> wf_tok t.
Proof.
  unfold wf_tokb. intros H. apply andb_prop in H as [H H3]. apply andb_prop in H as [H1 H2].
  split; [destruct t; [discriminate|discriminate]|]. split.
  - intros Hi. apply negb_true_iff in H2. assert (E : existsb (N.eqb c_sp) t = true).
    { apply existsb_exists. exists c_sp. split; [exact Hi|apply N.eqb_refl]. } rewrite E in H2. discriminate.
  - intros Hi. apply negb_true_iff in H3. assert (E : existsb (N.eqb c_semi) t = true).
    { apply existsb_exists. exists c_semi. split; [exact Hi|apply N.eqb_refl]. } rewrite E in H3. discriminate.
Qed.
Lemma directive_names_wf : Forall (Forall wf_tok) directive_names.
Proof.
  apply Forall_forall. intros ns Hns. apply Forall_forall. intros t Ht. apply wf_tokb_ok.
  assert (A : forallb (forallb wf_tokb) directive_names = true) by (vm_compute; reflexivity).
  rewrite forallb_forall in A. specialize (A ns Hns). rewrite forallb_forall in A. exact (A t Ht).
Qed.

Lemma combine_wf (vs : list (list bytes)) : Forall (Forall wf_tok) vs ->
  Forall (fun d => Forall wf_tok (fst d) /\ Forall wf_tok (snd d)) (combine directive_names vs).
Proof.
  intros H. apply Forall_forall. intros [ns v] Hin. cbn [fst snd]. split.
  - apply in_combine_l in Hin. exact (proj1 (Forall_forall _ _) directive_names_wf ns Hin).
  - apply in_combine_r in Hin. exact (proj1 (Forall_forall _ _) H v Hin).
Qed.

(** ---- policy_parses: what a CSP parser reads from the serialisation is what the rule holds ---- *)
Lemma to_header_nonce_parses r nonce v :
  wf_rule r -> wf_nonce nonce -> to_header_nonce r nonce = Some v -> parse_policy v = spec_policy r nonce.
Proof.
  intros [_ [Hn Hu]] Hno. unfold to_header_nonce, spec_policy.
  destruct (forallb is_nil (fst r) && forallb (fun u => is_nil (snd u)) (snd r) && _); [discriminate|].
  intros E. apply (f_equal (fun o => match o with Some x => x | None => [] end)) in E. cbv beta iota in E. subst v.
  rewrite (parse_fold_undefined (snd r) _ Hu), (parse_fold_named nonce Hno _ [] (combine_wf (fst r) Hn)).
  rewrite parse_policy_nil. reflexivity.
Qed.

(** ... and a rule serialises to nothing exactly when it holds nothing and the page has no nonce *)
Lemma flat_map_nil {A C} (f : A -> list C) l : (forall x, In x l -> f x = []) -> flat_map f l = [].
Proof.
  induction l as [|x l IH]; intros H; [reflexivity|]. cbn [flat_map]. rewrite (H x (or_introl eq_refl)).
  apply IH. intros y Hy. apply H. right. exact Hy.
Qed.

Lemma to_header_nonce_none r nonce : to_header_nonce r nonce = None -> spec_policy r nonce = [].
Proof.
  unfold to_header_nonce, spec_policy.
  destruct (forallb is_nil (fst r)) eqn:A; cbn [andb]; [|discriminate].
  destruct (forallb (fun u => is_nil (snd u)) (snd r)) eqn:Bq; cbn [andb]; [|discriminate].
  destruct nonce as [n|]; [discriminate|]. intros _.
  rewrite forallb_forall in A. rewrite forallb_forall in Bq.
  rewrite !flat_map_nil; [reflexivity| |].
  - intros u Hu. unfold spec_undefined. rewrite (Bq u Hu). reflexivity.
  - intros [ns v] Hin. unfold spec_named. cbn [fst snd is_special]. rewrite (A v (in_combine_r _ _ _ _ Hin)). reflexivity.
Qed.

Lemma in_combine_names (vs : list (list bytes)) v : length vs = 27%nat -> In v vs ->
  exists ns, ns <> [] /\ In (ns, v) (combine directive_names vs).
Proof.
  intros L Hin.
  do 27 (destruct vs as [|? vs]; [discriminate|]). destruct vs; [|discriminate].
  cbn [In] in Hin. cbn [combine directive_names].
  repeat (destruct Hin as [<-|Hin]; [eexists; split; [|cbn [In]; repeat (first [left; reflexivity|right])]; discriminate|]).
  destruct Hin.
Qed.

Lemma script_src_in (vs : list (list bytes)) : length vs = 27%nat -> exists v, In ([B "script-src"], v) (combine directive_names vs).
Proof.
  intros L. do 27 (destruct vs as [|? vs]; [discriminate|]). destruct vs; [|discriminate].
  eexists. cbn [combine directive_names In]. do 10 right. left. reflexivity.
Qed.

Lemma flat_map_nil_inv {A C} (f : A -> list C) l : flat_map f l = [] -> forall x, In x l -> f x = [].
Proof.
  induction l as [|y l IH]; intros H x Hx; [destruct Hx|]. cbn [flat_map] in H.
  apply app_eq_nil in H as [H1 H2]. destruct Hx as [<-|Hx]; [exact H1|exact (IH H2 x Hx)].
Qed.

Lemma to_header_nonce_some_nonempty r nonce v :
  length (fst r) = 27%nat -> to_header_nonce r nonce = Some v -> spec_policy r nonce <> [].
Proof.
  intros L E Hnil. unfold spec_policy in Hnil. apply app_eq_nil in Hnil as [N1 N2].
  assert (A : forallb is_nil (fst r) = true).
  { apply forallb_forall. intros x Hx. destruct (in_combine_names (fst r) x L Hx) as [ns [NE Hin]].
    pose proof (flat_map_nil_inv _ _ N1 (ns, x) Hin) as S. unfold spec_named in S. cbn [fst snd] in S.
    destruct x; [reflexivity|]. cbn [is_nil negb orb] in S. destruct ns; [contradiction|discriminate]. }
  assert (Bq : forallb (fun u => is_nil (snd u)) (snd r) = true).
  { apply forallb_forall. intros u Hu. pose proof (flat_map_nil_inv _ _ N2 u Hu) as S. unfold spec_undefined in S.
    destruct (is_nil (snd u)); [reflexivity|discriminate]. }
  assert (Cn : nonce = None).
  { destruct nonce as [n|]; [|reflexivity]. destruct (script_src_in (fst r) L) as [x Hin].
    pose proof (flat_map_nil_inv _ _ N1 _ Hin) as S. unfold spec_named in S. cbn [fst snd] in S.
    assert (Sp : is_special (Some n) [B "script-src"] = true) by (vm_compute; reflexivity).
    rewrite Sp, orb_true_r in S. discriminate. }
  unfold to_header_nonce in E. rewrite A, Bq, Cn in E. discriminate.
Qed.

(** ---- the four directives carry the nonce source once, the others not at all ---- *)
Lemma spec_policy_nonce_directive r n d :
  length (fst r) = 27%nat -> hv_to_str_ok n = true -> In d nonce_directives ->
  exists vals, In ([d], vals) (combine directive_names (fst r)) /\
               In (d, (match vals with [] => [SELF] | _ => vals end) ++ [nonce_source n]) (spec_policy r (Some n)).
Proof.
  intros L Hn Hd. destruct (nonce_directive_present (fst r) d L Hd) as [vals Hin].
  exists vals. split; [exact Hin|]. unfold spec_policy. apply in_or_app. left.
  apply in_flat_map. exists ([d], vals). split; [exact Hin|].
  unfold spec_named. cbn [fst snd]. rewrite (is_special_single n d Hd), orb_true_r. cbn [map].
  left. unfold spec_sources, nonce_usable. rewrite Hn. reflexivity.
Qed.

Lemma count_occ_app_one (x : bytes) (l : list bytes) :
  ~ In x l -> count_occ (list_eq_dec N.eq_dec) (l ++ [x]) x = 1%nat.
Proof.
  intros H. rewrite count_occ_app. rewrite (proj1 (count_occ_not_In _ l x) H). cbn [count_occ].
  destruct (list_eq_dec N.eq_dec x x); [reflexivity|contradiction].
Qed.

Lemma self_not_nonce_source n : SELF <> nonce_source n.
Proof. unfold nonce_source. vm_compute. discriminate. Qed.

(** the nonce source occurs exactly once in the sources of a special directive (when the rule's own values do not already hold it) *)
Lemma spec_sources_once n vals :
  hv_to_str_ok n = true -> ~ In (nonce_source n) vals ->
  count_occ (list_eq_dec N.eq_dec) (spec_sources true (Some n) vals) (nonce_source n) = 1%nat.
Proof.
  intros Hn Hv. unfold spec_sources, nonce_usable. rewrite Hn. apply count_occ_app_one.
  destruct vals; [|exact Hv]. intros [E|[]]. exact (self_not_nonce_source n E).
Qed.

(** ---- the policy on the wire, as a parser reads it, is the policy of the most specific rule ---- *)
Lemma resolve_in {R} (hist : list (bytes * R)) uri r : resolve hist uri = Some r -> exists p, In (p, r) hist.
Proof.
  intros H. apply resolve_some_meaning in H as [p [_ [_ [_ L]]]].
  apply last_added_meaning in L as [h1 [h2 [E _]]]. exists p. rewrite E. apply in_or_app. right. left. reflexivity.
Qed.

Lemma spec_csp_parsed_ok hist path h :
  Forall (fun e => wf_rule (snd e)) hist -> wf_nonce (h_get H_NONCE h) ->
  map parse_policy (spec_csp hist path h) = spec_csp_parsed hist path h.
Proof.
  intros W Hn. unfold spec_csp, spec_csp_parsed. destruct (resolve hist (csp_path path)) as [rule|] eqn:R; [|reflexivity].
  destruct (resolve_in hist _ rule R) as [p Hin].
  pose proof (proj1 (Forall_forall _ _) W (p, rule) Hin) as Wr. cbn [snd] in Wr.
  destruct (to_header_nonce rule (h_get H_NONCE h)) as [v|] eqn:E.
  - pose proof (to_header_nonce_parses rule _ v Wr Hn E) as P.
    pose proof (to_header_nonce_some_nonempty rule _ v (proj1 Wr) E) as NE.
    cbn [map]. rewrite P. destruct (spec_policy rule (h_get H_NONCE h)); [contradiction|reflexivity].
  - rewrite (to_header_nonce_none rule _ E). reflexivity.
Qed.

Lemma chain_policy hist rules pl ov server path h :
  rs_reach hist rules -> Forall (fun e => wf_rule (snd e)) hist -> wf_nonce (h_get H_NONCE h) ->
  map parse_policy (h_all H_CSP (package_chain_cfg (mkCfg true true true pl ov) rules server path h))
  = spec_csp_parsed hist path h.
Proof.
  intros HR W Hn. destruct (chain_flags_headers hist rules pl ov server path h HR) as [E _]. rewrite E.
  apply spec_csp_parsed_ok; assumption.
Qed.
