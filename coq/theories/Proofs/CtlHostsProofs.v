(** C19 — proofs about [clear] on an instance with ports (Model/CtlHosts.v): what the operator typed
    is what the plugin gets, and exactly the typed entry of the typed host leaves the caches. *)
From KV Require Import Bytes Quoted QuotedProofs Ctl CtlProofs CtlHosts.
From Coq Require Import ZifyBool ZifyNat ZifyN.
Open Scope N_scope.

(** ---- every plugin is called with the arguments the operator typed ---------------------------------------- *)

(** [kvarnctl name a args...] against any plugin table, in any state: the plugin registered under
    [name] is called with exactly [a :: args] (whatever characters they contain), and its response is
    framed. *)
Lemma plugin_gets_typed_args S (ps : plugins S) (name : str) (p : plugin S) a args s :
  lookup_plugin name ps = Some p ->
  all_scalar name = true -> forallb all_scalar (a :: args) = true ->
  handle ps (utf8_encode (client_message name (a :: args))) s
  = (let (response, s') := p (a :: args) s in
     let (data, prepend) := match pr_kind response with
                            | KError data => (data, B "error")
                            | KOk data => (data, B "ok")
                            end in
     ({| hr_data := frame prepend data; hr_close := pr_close response |}, s')).
Proof.
  intros Hp Hn Ha. unfold handle. rewrite utf8_roundtrip.
  - rewrite split_client_message. unfold request_name, request_args. cbn [tl]. rewrite Hp. reflexivity.
  - rewrite client_message_is_join, all_scalar_join_encoded.
    change (forallb all_scalar (name :: a :: args)) with (all_scalar name && forallb all_scalar (a :: args)).
    rewrite Hn, Ha. reflexivity.
Qed.

(** ---- membership after a removal ------------------------------------------------------------------------------- *)

Section MemRemove.
  Variable A : Type.
  Variable eqb : A -> A -> bool.
  Variable eqb_eq : forall a b, eqb a b = true <-> a = b.

  Lemma eqb_refl' a : eqb a a = true.
  Proof. apply eqb_eq. reflexivity. Qed.

  Lemma mem_remove_gen (key gone : A) l :
    existsb (eqb key) (filter (fun x => negb (eqb gone x)) l) = existsb (eqb key) l && negb (eqb gone key).
  Proof.
    induction l as [|x r IH]; [reflexivity|].
    cbn [filter existsb]. destruct (eqb gone x) eqn:E; cbn [negb].
    - apply eqb_eq in E. subst x. rewrite IH.
      destruct (eqb key gone) eqn:K.
      + apply eqb_eq in K. subst key. rewrite eqb_refl'. cbn. rewrite andb_false_r. reflexivity.
      + reflexivity.
    - cbn [existsb]. rewrite IH.
      destruct (eqb key x) eqn:K.
      + apply eqb_eq in K. subst x. rewrite E. reflexivity.
      + reflexivity.
  Qed.
End MemRemove.

Lemma rkey_eqb_eq a c : rkey_eqb a c = true <-> a = c.
Proof.
  destruct a as [p|p q], c as [p'|p' q']; cbn [rkey_eqb]; split; intros H; try discriminate; try congruence.
  - apply beq_eq in H. congruence.
  - inversion H. apply beq_refl.
  - apply andb_true_iff in H as [H1 H2]. apply beq_eq in H1, H2. congruence.
  - inversion H. rewrite !beq_refl. reflexivity.
Qed.

Lemma mem_remove_str key path l : mem_str key (remove_str path l) = mem_str key l && negb (beq path key).
Proof. apply (mem_remove_gen str beq beq_eq). Qed.

Lemma mem_remove_rkey k gone l : mem_rkey k (remove_rkey gone l) = mem_rkey k l && negb (rkey_eqb gone k).
Proof. apply (mem_remove_gen rkey rkey_eqb rkey_eqb_eq). Qed.

(** ---- one host of a collection loses one entry ------------------------------------------------------------ *)

Lemma get_host_name name hs h : get_host name hs = Some h -> In h hs /\ h_name h = name.
Proof.
  induction hs as [|x r IH]; cbn [get_host]; [discriminate|].
  destruct (beq (h_name x) name) eqn:E.
  - intros H. inversion H; subst. split; [left; reflexivity|apply beq_eq; exact E].
  - intros H. destruct (IH H) as [I N]. split; [right; exact I|exact N].
Qed.

(** a host record changed by [f], which keeps the name and changes what [look] sees of the record only by [k] *)
Lemma cached_update (look look' : hostrec -> bool) (f : hostrec -> hostrec) (k : bool) n name hs :
  (forall h, h_name (f h) = h_name h) ->
  (forall h, look' (f h) = look h && k) -> (forall h, look' h = look h) ->
  existsb (fun h => beq (h_name h) name && look' h) (map (fun h => if beq (h_name h) n then f h else h) hs)
  = existsb (fun h => beq (h_name h) name && look h) hs && negb (beq n name && negb k).
Proof.
  intros Hn Hf Hl. induction hs as [|h r IH]; [reflexivity|].
  cbn [map existsb]. rewrite IH.
  set (E := existsb (fun h0 => beq (h_name h0) name && look h0) r).
  destruct (beq (h_name h) n) eqn:En.
  - rewrite Hn, Hf. destruct (beq (h_name h) name) eqn:G.
    + assert (Q : beq n name = true) by (apply beq_eq; apply beq_eq in En, G; congruence).
      rewrite Q. destruct (look h), k, E; reflexivity.
    + cbn [andb orb]. reflexivity.
  - rewrite Hl. destruct (beq (h_name h) name) eqn:G.
    + assert (Q : beq n name = false).
      { destruct (beq n name) eqn:Q; [|reflexivity]. apply beq_eq in Q, G. subst n.
        rewrite <- G, beq_refl in En. discriminate En. }
      rewrite Q. cbn [andb negb]. rewrite !andb_true_r. reflexivity.
    + cbn [andb orb]. reflexivity.
Qed.

Definition file_look (key : str) (h : hostrec) : bool :=
  match h_files h with Some fs => mem_str key fs | None => false end.
Definition page_look (k : rkey) (h : hostrec) : bool :=
  match h_pages h with Some ps => mem_rkey k ps | None => false end.

Lemma file_cached_update c n path name key :
  file_cached (update_host n (fun h' => {| h_name := h_name h'; h_files := option_map (remove_str path) (h_files h');
                                          h_pages := h_pages h' |}) c) name key
  = file_cached c name key && negb (beq n name && beq path key).
Proof.
  unfold file_cached, update_host. cbn [c_hosts].
  rewrite (cached_update (file_look key) (file_look key) _ (negb (beq path key)) n name (c_hosts c)).
  - rewrite negb_involutive. reflexivity.
  - reflexivity.
  - intros h. unfold file_look. cbn [h_files]. destruct (h_files h) as [fs|]; cbn [option_map];
      [apply mem_remove_str|reflexivity].
  - reflexivity.
Qed.

Lemma page_cached_update c n k1 k2 name k :
  page_cached (update_host n (fun h' => {| h_name := h_name h'; h_files := h_files h';
                                          h_pages := option_map (fun l => remove_rkey k2 (remove_rkey k1 l)) (h_pages h') |}) c) name k
  = page_cached c name k && negb (beq n name && (rkey_eqb k1 k || rkey_eqb k2 k)).
Proof.
  unfold page_cached, update_host. cbn [c_hosts].
  rewrite (cached_update (page_look k) (page_look k) _ (negb (rkey_eqb k1 k || rkey_eqb k2 k)) n name (c_hosts c)).
  - rewrite negb_involutive. reflexivity.
  - reflexivity.
  - intros h. unfold page_look. cbn [h_pages]. destruct (h_pages h) as [l|]; cbn [option_map]; [|reflexivity].
    rewrite !mem_remove_rkey. destruct (mem_rkey k l), (rkey_eqb k1 k), (rkey_eqb k2 k); reflexivity.
  - reflexivity.
Qed.

(** ---- [clear_file] / [clear_page] on one collection -------------------------------------------------------- *)

(** the host record that the argument [host] designates *)
Definition designated (c : collection) (host : str) : option hostrec :=
  if is_empty host || beq host (B "default") then get_default c else get_host host (c_hosts c).
(** the name of the host whose FILE cache [clear file host ..] touches, if any *)
Definition file_target (c : collection) (host : str) : option str :=
  match designated c host with
  | Some h => match h_files h with Some _ => Some (h_name h) | None => None end
  | None => None
  end.
Definition page_target (c : collection) (host : str) : option str :=
  match designated c host with
  | Some h => match h_pages h with Some _ => Some (h_name h) | None => None end
  | None => None
  end.

(** a host that is named (neither [""] nor ["default"]) is the host of exactly that name *)
Lemma named_target_is_typed c host n :
  is_empty host || beq host (B "default") = false ->
  (file_target c host = Some n \/ page_target c host = Some n) -> n = host.
Proof.
  unfold file_target, page_target, designated. intros ->.
  destruct (get_host host (c_hosts c)) as [h|] eqn:G; [|intros [H|H]; discriminate H].
  apply get_host_name in G as [_ N].
  intros [H|H]; [destruct (h_files h)|destruct (h_pages h)]; inversion H; congruence.
Qed.

(** Exactly the typed entry of the designated host leaves the file caches of the collection. *)
Lemma clear_file_exact host path c name key :
  file_cached (snd (clear_file_coll host path c)) name key
  = file_cached c name key &&
    negb (match file_target c host with Some n => beq n name && beq path key | None => false end).
Proof.
  unfold clear_file_coll, file_target, designated.
  destruct (is_empty host || beq host (B "default")).
  - destruct (get_default c) as [h|]; [|cbn [snd]; rewrite andb_true_r; reflexivity].
    destruct (h_files h); cbn [snd]; [apply file_cached_update|rewrite andb_true_r; reflexivity].
  - destruct (get_host host (c_hosts c)) as [h|]; [|cbn [snd]; rewrite andb_true_r; reflexivity].
    destruct (h_files h); cbn [snd]; [apply file_cached_update|rewrite andb_true_r; reflexivity].
Qed.

Lemma clear_page_exact host p q c name k :
  page_cached (snd (clear_page_coll host p q c)) name k
  = page_cached c name k &&
    negb (match page_target c host with
          | Some n => beq n name && (rkey_eqb (RPathQuery p q) k || rkey_eqb (RPath p) k)
          | None => false
          end).
Proof.
  unfold clear_page_coll, page_target, designated.
  destruct (is_empty host || beq host (B "default")).
  - destruct (get_default c) as [h|]; [|cbn [snd]; rewrite andb_true_r; reflexivity].
    destruct (h_pages h); cbn [snd]; [apply page_cached_update|rewrite andb_true_r; reflexivity].
  - destruct (get_host host (c_hosts c)) as [h|]; [|cbn [snd]; rewrite andb_true_r; reflexivity].
    destruct (h_pages h); cbn [snd]; [apply page_cached_update|rewrite andb_true_r; reflexivity].
Qed.

(** the other kind of cache is not touched *)
Lemma clear_file_keeps_pages host path c name k :
  page_cached (snd (clear_file_coll host path c)) name k = page_cached c name k.
Proof.
  assert (U : forall n, page_cached (update_host n (fun h' => {| h_name := h_name h';
                 h_files := option_map (remove_str path) (h_files h'); h_pages := h_pages h' |}) c) name k = page_cached c name k).
  { intros n. unfold page_cached, update_host. cbn [c_hosts].
    induction (c_hosts c) as [|h r IH]; [reflexivity|]. cbn [map existsb]. rewrite IH.
    destruct (beq (h_name h) n); reflexivity. }
  unfold clear_file_coll.
  destruct (is_empty host || beq host (B "default")).
  - destruct (get_default c) as [h|]; [|reflexivity]. destruct (h_files h); cbn [snd]; [apply U|reflexivity].
  - destruct (get_host host (c_hosts c)) as [h|]; [|reflexivity]. destruct (h_files h); cbn [snd]; [apply U|reflexivity].
Qed.

Lemma clear_page_keeps_files host p q c name key :
  file_cached (snd (clear_page_coll host p q c)) name key = file_cached c name key.
Proof.
  assert (U : forall n, file_cached (update_host n (fun h' => {| h_name := h_name h'; h_files := h_files h';
                 h_pages := option_map (fun l => remove_rkey (RPath p) (remove_rkey (RPathQuery p q) l)) (h_pages h') |}) c) name key
               = file_cached c name key).
  { intros n. unfold file_cached, update_host. cbn [c_hosts].
    induction (c_hosts c) as [|h r IH]; [reflexivity|]. cbn [map existsb]. rewrite IH.
    destruct (beq (h_name h) n); reflexivity. }
  unfold clear_page_coll.
  destruct (is_empty host || beq host (B "default")).
  - destruct (get_default c) as [h|]; [|reflexivity]. destruct (h_pages h); cbn [snd]; [apply U|reflexivity].
  - destruct (get_host host (c_hosts c)) as [h|]; [|reflexivity]. destruct (h_pages h); cbn [snd]; [apply U|reflexivity].
Qed.

(** [cleared] says that the typed entry was in the designated host's cache *)
Lemma clear_file_cleared host path c :
  snd (fst (clear_file_coll host path c)) = true ->
  exists n, file_target c host = Some n /\ file_cached c n path = true.
Proof.
  unfold clear_file_coll, file_target, designated, get_default.
  assert (K : forall h nm fs, get_host nm (c_hosts c) = Some h -> h_files h = Some fs -> mem_str path fs = true ->
                              file_cached c (h_name h) path = true).
  { intros h nm fs G F M. apply get_host_name in G as [I _]. unfold file_cached.
    apply existsb_exists. exists h. split; [exact I|]. rewrite beq_refl, F. exact M. }
  destruct (is_empty host || beq host (B "default")).
  - destruct (c_default c) as [d|]; [|discriminate].
    destruct (get_host d (c_hosts c)) as [h|] eqn:G; [|discriminate].
    destruct (h_files h) as [fs|] eqn:F; cbn [fst snd]; [|discriminate].
    intros M. exists (h_name h). split; [reflexivity|exact (K h d fs G F M)].
  - destruct (get_host host (c_hosts c)) as [h|] eqn:G; [|discriminate].
    destruct (h_files h) as [fs|] eqn:F; cbn [fst snd]; [|discriminate].
    intros M. exists (h_name h). split; [reflexivity|exact (K h host fs G F M)].
Qed.

(** ---- all ports ------------------------------------------------------------------------------------------------ *)

Lemma over_ports_spec (f : collection -> (bool * bool) * collection) ports :
  over_ports f ports
  = ((existsb (fun c => fst (fst (f c))) ports, existsb (fun c => snd (fst (f c))) ports), map (fun c => snd (f c)) ports).
Proof.
  induction ports as [|c r IH]; [reflexivity|].
  cbn [over_ports map existsb]. rewrite IH. destruct (f c) as [[f1 c1] c']. reflexivity.
Qed.

(** ---- the theorems of Properties/C19.v --------------------------------------------------------------------------- *)

Section Clear.
  Variable dbg : str -> str.
  Variable ps : plugins (list collection).
  Variable Hclear : lookup_plugin (B "clear") ps = Some (clear_hosts_plugin dbg).

  Lemma clear_file_typed host path ports :
    all_scalar host = true -> all_scalar path = true ->
    let res := handle ps (utf8_encode (client_message (B "clear") [(B "file" : str); host; path])) ports in
    let found := existsb (fun c => fst (fst (clear_file_coll host path c))) ports in
    let cleared := existsb (fun c => snd (fst (clear_file_coll host path c))) ports in
    snd res = map (fun c => snd (clear_file_coll host path c)) ports /\
    hr_close (fst res) = false /\
    starts_with (B "ok") (hr_data (fst res)) = found && cleared /\
    starts_with (B "error") (hr_data (fst res)) = negb (found && cleared).
  Proof.
    intros Hh Hp. cbv zeta.
    rewrite (plugin_gets_typed_args _ ps (B "clear") _ (B "file") [host; path] ports Hclear eq_refl)
      by (cbn [forallb]; rewrite Hh, Hp; reflexivity).
    unfold clear_hosts_plugin.
    change (beq (B "file") (B "all")) with false. change (beq (B "file") (B "files")) with false.
    change (beq (B "file") (B "responses")) with false. change (beq (B "file") (B "file")) with true.
    cbv iota. rewrite over_ports_spec.
    destruct (existsb (fun c => fst (fst (clear_file_coll host path c))) ports);
      destruct (existsb (fun c => snd (fst (clear_file_coll host path c))) ports); cbn [negb andb];
      cbn [pr_kind pr_close pr_error pr_ok fst snd hr_data hr_close]; rewrite !frame_eq; repeat split.
  Qed.

  Lemma clear_response_typed host response ports :
    all_scalar host = true -> all_scalar response = true ->
    let res := handle ps (utf8_encode (client_message (B "clear") [(B "response" : str); host; response])) ports in
    match uri_parts (utf8_encode response) with
    | None => snd res = ports /\ hr_close (fst res) = false /\ starts_with (B "error") (hr_data (fst res)) = true
    | Some (p, q) =>
        let query := match q with Some q' => q' | None => [] end in
        let found := existsb (fun c => fst (fst (clear_page_coll host p query c))) ports in
        let cleared := existsb (fun c => snd (fst (clear_page_coll host p query c))) ports in
        snd res = map (fun c => snd (clear_page_coll host p query c)) ports /\
        hr_close (fst res) = false /\
        starts_with (B "ok") (hr_data (fst res)) = found && cleared /\
        starts_with (B "error") (hr_data (fst res)) = negb (found && cleared)
    end.
  Proof.
    intros Hh Hp. cbv zeta.
    rewrite (plugin_gets_typed_args _ ps (B "clear") _ (B "response") [host; response] ports Hclear eq_refl)
      by (cbn [forallb]; rewrite Hh, Hp; reflexivity).
    unfold clear_hosts_plugin.
    change (beq (B "response") (B "all")) with false. change (beq (B "response") (B "files")) with false.
    change (beq (B "response") (B "responses")) with false. change (beq (B "response") (B "file")) with false.
    change (beq (B "response") (B "response")) with true.
    cbv iota. destruct (uri_parts (utf8_encode response)) as [[p q]|].
    - rewrite over_ports_spec.
      destruct (existsb (fun c => fst (fst (clear_page_coll host p _ c))) ports);
        destruct (existsb (fun c => snd (fst (clear_page_coll host p _ c))) ports); cbn [negb andb];
        cbn [pr_kind pr_close pr_error pr_ok fst snd hr_data hr_close]; rewrite !frame_eq; repeat split.
    - cbn [pr_kind pr_close pr_error fst snd hr_data hr_close]. rewrite frame_eq. repeat split.
  Qed.
End Clear.

(** Without ports nothing is found: the portless [clear_plugin] of Model/Ctl.v is this plugin on the
    empty list of ports (same replies, no state), for the [uri_ok] that http's scanner defines. *)
Lemma clear_portless dbg args :
  fst (clear_hosts_plugin dbg args [])
  = fst (clear_plugin (fun r => match uri_parts (utf8_encode r) with Some _ => true | None => false end) args tt).
Proof.
  unfold clear_hosts_plugin, clear_plugin.
  destruct args as [|m rest]; [reflexivity|].
  destruct (beq m (B "all")); [destruct rest as [|h [|x r]]; reflexivity|].
  destruct (beq m (B "files")); [destruct rest as [|h [|x r]]; reflexivity|].
  destruct (beq m (B "responses")); [destruct rest as [|h [|x r]]; reflexivity|].
  destruct (beq m (B "file")); [destruct rest as [|h [|x r]]; reflexivity|].
  destruct (beq m (B "response")); [|reflexivity].
  destruct rest as [|h [|x r]]; try reflexivity.
  destruct (uri_parts (utf8_encode x)) as [[p q]|]; reflexivity.
Qed.
