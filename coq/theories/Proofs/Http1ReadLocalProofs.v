(** C07 — the parser never looks past the blank line: for an arbitrary byte stream the result of
    the reader is a function of the delivered bytes alone ([serve_spec]). *)
From KV Require Export Bytes RustInt Http1Read Http1ReadProofs Http1ReadParseProofs.
From Coq Require Import ZifyBool ZifyNat ZifyN.
Open Scope N_scope.
Local Open Scope nat_scope.

Definition irb (lf : nat) : bool := Nat.eqb lf 1.

(** * Look-ups that stay inside the part already seen *)

Lemma slice_get_app_le (a x : bytes) lo hi : hi <= length a -> slice_get lo hi (a ++ x) = slice_get lo hi a.
Proof.
  intros H. unfold slice_get, slice. rewrite app_length.
  destruct (Nat.leb lo hi) eqn:E1; cbn [andb]; [|reflexivity]. apply Nat.leb_le in E1.
  replace (Nat.leb hi (length a + length x)) with true by (symmetry; apply Nat.leb_le; lia).
  replace (Nat.leb hi (length a)) with true by (symmetry; apply Nat.leb_le; lia).
  f_equal. rewrite skipn_app, firstn_app, skipn_length.
  replace (hi - lo - (length a - lo)) with 0 by lia. cbn [firstn]. apply app_nil_r.
Qed.

Lemma slice_get_local (pre x y : bytes) lo hi : hi <= length pre -> slice_get lo hi (pre ++ x) = slice_get lo hi (pre ++ y).
Proof. intros H. rewrite !slice_get_app_le by exact H. reflexivity. Qed.

Lemma slice_chk_local (pre x y : bytes) lo hi : hi <= length pre -> slice_chk lo hi (pre ++ x) = slice_chk lo hi (pre ++ y).
Proof. intros H. unfold slice_chk. rewrite (slice_get_local pre x y lo hi H). reflexivity. Qed.

Lemma prev_is_cr_local (pre x y : bytes) : prev_is_cr (pre ++ x) (length pre) = prev_is_cr (pre ++ y) (length pre).
Proof.
  unfold prev_is_cr. destruct (length pre) as [|p] eqn:E; [reflexivity|].
  rewrite !nth_error_app1 by lia. reflexivity.
Qed.

(** trimming trailing whitespace only looks at the bytes before [ve] *)
Lemma trim_end_le all vs : forall ve, trim_end all vs ve <= ve.
Proof.
  induction ve as [|p IH]; [cbn [trim_end]; lia|]. cbn [trim_end].
  destruct (Nat.ltb vs (S p) && match nth_error all p with Some c => ows c | None => false end)%bool; lia.
Qed.

Lemma trim_end_local (pre x y : bytes) vs : forall ve, ve <= length pre ->
  trim_end (pre ++ x) vs ve = trim_end (pre ++ y) vs ve.
Proof.
  induction ve as [|p IH]; intros H; [reflexivity|]. cbn [trim_end].
  rewrite !nth_error_app1 by lia. rewrite IH by lia. reflexivity.
Qed.

Lemma bl_end_nonempty ir x k : bl_end ir x = Some k -> x <> [].
Proof. intros H ->. discriminate. Qed.

Lemma next_is_ows_local (pre : bytes) byte rest extra : rest <> [] ->
  next_is_ows (pre ++ byte :: rest ++ extra) (length pre) = next_is_ows (pre ++ byte :: rest) (length pre).
Proof.
  intros Hne. unfold next_is_ows. rewrite (nth_error_app2 pre (byte :: rest ++ extra)) by lia.
  rewrite (nth_error_app2 pre (byte :: rest)) by lia.
  replace (S (length pre) - length pre) with 1 by lia.
  destruct rest as [|r0 rest]; [contradiction|]. reflexivity.
Qed.

Lemma pns_app ir x y k : bl_end ir x = Some k -> position_non_ows (x ++ y) = position_non_ows x.
Proof.
  revert ir k; induction x as [|c x IH]; intros ir k H; [discriminate|].
  cbn [app position_non_ows]. destruct (ows c) eqn:Esp; [|reflexivity].
  cbn [bl_end] in H.
  destruct (ows_spec _ Esp) as [Hcr [Hlf _]].
  rewrite Hlf, Hcr in H. destruct (bl_end false x) as [k'|] eqn:E; [|discriminate].
  rewrite (IH false k' E). reflexivity.
Qed.

Lemma value_start_from_local (pre : bytes) byte rest extra ir k : bl_end ir (byte :: rest) = Some k ->
  value_start_from (pre ++ byte :: rest ++ extra) (length pre) = value_start_from (pre ++ byte :: rest) (length pre).
Proof.
  intros H. unfold value_start_from. rewrite !skipn_mid by reflexivity.
  change (byte :: rest ++ extra) with ((byte :: rest) ++ extra). rewrite (pns_app ir (byte :: rest) extra k H). reflexivity.
Qed.

(** * [parse::headers] *)

Lemma bl_cr ir byte rest n : N.eqb byte CR = true -> bl_end ir (byte :: rest) = Some (S n) -> bl_end ir rest = Some n.
Proof.
  intros Hcr H. cbn [bl_end] in H.
  assert (Hlf : N.eqb byte LF = false) by (unfold CR, LF in *; lia).
  rewrite Hlf, Hcr in H. destruct (bl_end ir rest); [|discriminate]. inversion H. reflexivity.
Qed.

Lemma bl_lf0 byte rest n : N.eqb byte LF = true -> bl_end false (byte :: rest) = Some (S n) -> bl_end true rest = Some n.
Proof.
  intros Hlf H. cbn [bl_end] in H. rewrite Hlf in H. destruct (bl_end true rest); [|discriminate]. inversion H. reflexivity.
Qed.

Lemma bl_other ir byte rest n : N.eqb byte CR = false -> N.eqb byte LF = false ->
  bl_end ir (byte :: rest) = Some (S n) -> bl_end false rest = Some n.
Proof.
  intros Hcr Hlf H. cbn [bl_end] in H. rewrite Hlf, Hcr in H. destruct (bl_end false rest); [|discriminate]. inversion H. reflexivity.
Qed.

Lemma hdr_local : forall rest pre extra inval lf ns ne vs m,
  lf <= 1 -> bl_end (irb lf) rest = Some (length rest) -> ne <= length pre ->
  hdr_loop (pre ++ rest ++ extra) (rest ++ extra) (length pre) inval lf ns ne vs m =
  hdr_loop (pre ++ rest) rest (length pre) inval lf ns ne vs m.
Proof.
  induction rest as [|byte rest IH]; intros pre extra inval lf ns ne vs m Hlf Hbl Hne; [discriminate|].
  assert (Hstep : forall inval' lf' ns' ne' vs' m', lf' <= 1 -> bl_end (irb lf') rest = Some (length rest) -> ne' <= S (length pre) ->
     hdr_loop (pre ++ (byte :: rest) ++ extra) (rest ++ extra) (S (length pre)) inval' lf' ns' ne' vs' m' =
     hdr_loop (pre ++ byte :: rest) rest (S (length pre)) inval' lf' ns' ne' vs' m').
  { intros inval' lf' ns' ne' vs' m' H1 H2 H3.
    replace (pre ++ (byte :: rest) ++ extra) with ((pre ++ [byte]) ++ rest ++ extra) by (rewrite <- app_assoc; reflexivity).
    replace (pre ++ byte :: rest) with ((pre ++ [byte]) ++ rest) by (rewrite <- app_assoc; reflexivity).
    replace (S (length pre)) with (length (pre ++ [byte])) by (rewrite app_length; cbn [length]; lia).
    apply IH; try assumption. rewrite app_length; cbn [length]; lia. }
  cbn [length] in Hbl. cbn [app hdr_loop].
  destruct (N.eqb byte CR) eqn:Ecr.
  { apply Hstep; [exact Hlf|exact (bl_cr _ _ _ _ Ecr Hbl)|lia]. }
  destruct (N.eqb byte LF) eqn:Elf.
  - destruct lf as [|[|lf]]; [|reflexivity|lia].
    cbn [Nat.eqb andb]. unfold irb in Hbl. cbn [Nat.eqb] in Hbl. pose proof (bl_lf0 _ _ _ Elf Hbl) as Hbl'.
    destruct inval.
    + rewrite (slice_get_local pre (byte :: rest ++ extra) (byte :: rest) ns ne Hne).
      destruct (slice_get ns ne (pre ++ byte :: rest)) as [raw|]; [|reflexivity].
      destruct (header_name raw) as [name|]; [|reflexivity].
      rewrite (prev_is_cr_local pre (byte :: rest ++ extra) (byte :: rest)).
      set (ve := if prev_is_cr (pre ++ byte :: rest) (length pre) then length pre - 1 else length pre).
      assert (Hve : ve <= length pre) by (subst ve; destruct (prev_is_cr (pre ++ byte :: rest) (length pre)); lia).
      rewrite (trim_end_local pre (byte :: rest ++ extra) (byte :: rest) vs ve Hve).
      pose proof (trim_end_le (pre ++ byte :: rest) vs ve) as Hte.
      rewrite (slice_chk_local pre (byte :: rest ++ extra) (byte :: rest) vs (trim_end (pre ++ byte :: rest) vs ve)) by lia.
      destruct (slice_chk vs _ (pre ++ byte :: rest)) as [v|e|]; [|reflexivity|reflexivity].
      destruct (hvalue_ok v); [|reflexivity]. apply Hstep; [lia|exact Hbl'|lia].
    + assert (Hc : N.eqb byte COLON = false) by (unfold LF, COLON in *; lia).
      assert (Hs : ows byte = false) by (unfold ows, LF, SP, TAB in *; lia).
      rewrite Hc, Hs. apply Hstep; [lia|exact Hbl'|lia].
  - cbn [andb]. pose proof (bl_other _ _ _ _ Ecr Elf Hbl) as Hbl'.
    destruct inval; [apply Hstep; [lia|exact Hbl'|lia]|].
    destruct (N.eqb byte COLON) eqn:Ec.
    + rewrite (next_is_ows_local pre byte rest extra (bl_end_nonempty _ _ _ Hbl')).
      destruct (next_is_ows (pre ++ byte :: rest) (length pre)); apply Hstep; (lia || exact Hbl').
    + destruct (ows byte) eqn:Es; [|apply Hstep; [lia|exact Hbl'|lia]].
      rewrite (value_start_from_local pre byte rest extra _ _ Hbl). apply Hstep; [lia|exact Hbl'|lia].
Qed.

(** on success [parse::headers] has consumed exactly the block *)
Lemma hdr_end : forall rest all pos inval lf ns ne vs m m' e,
  lf <= 1 -> bl_end (irb lf) rest = Some (length rest) ->
  hdr_loop all rest pos inval lf ns ne vs m = Ok (m', e) -> e = pos + length rest.
Proof.
  induction rest as [|byte rest IH]; intros all pos inval lf ns ne vs m m' e Hlf Hbl H; [discriminate|].
  cbn [length] in Hbl. cbn [hdr_loop] in H.
  destruct (N.eqb byte CR) eqn:Ecr.
  { apply IH in H; [cbn [length]; lia|exact Hlf|exact (bl_cr _ _ _ _ Ecr Hbl)]. }
  destruct (N.eqb byte LF) eqn:Elf.
  - destruct lf as [|[|lf]]; [| |lia].
    + cbn [Nat.eqb andb] in H. unfold irb in Hbl. cbn [Nat.eqb] in Hbl. pose proof (bl_lf0 _ _ _ Elf Hbl) as Hbl'.
      destruct inval.
      * destruct (slice_get ns ne all) as [raw|]; [|discriminate].
        destruct (header_name raw) as [name|]; [|discriminate].
        destruct (slice_chk vs _ all) as [v|e'|]; [|discriminate|discriminate].
        destruct (hvalue_ok v); [|discriminate].
        apply IH in H; [cbn [length]; lia|lia|exact Hbl'].
      * assert (Hc : N.eqb byte COLON = false) by (unfold LF, COLON in *; lia).
        assert (Hs : ows byte = false) by (unfold ows, LF, SP, TAB in *; lia).
        rewrite Hc, Hs in H. apply IH in H; [cbn [length]; lia|lia|exact Hbl'].
    + cbn [Nat.eqb andb] in H. inversion H; subst. unfold irb in Hbl. cbn [Nat.eqb bl_end] in Hbl.
      rewrite Elf in Hbl. inversion Hbl as [Hl]. cbn [length]. lia.
  - cbn [andb] in H. pose proof (bl_other _ _ _ _ Ecr Elf Hbl) as Hbl'.
    destruct inval; [apply IH in H; [cbn [length]; lia|lia|exact Hbl']|].
    destruct (N.eqb byte COLON).
    + destruct (next_is_ows all pos); apply IH in H; try (cbn [length]; lia); try lia; exact Hbl'.
    + destruct (ows byte); apply IH in H; try (cbn [length]; lia); try lia; exact Hbl'.
Qed.

(** * The request line *)

Lemma req_local : forall rest pre extra st method ps pe ver lf,
  lf <= 1 -> bl_end (irb lf) rest = Some (length rest) -> length method <= length pre ->
  req_loop (pre ++ rest ++ extra) (rest ++ extra) (length pre) st method ps pe ver lf =
  req_loop (pre ++ rest) rest (length pre) st method ps pe ver lf.
Proof.
  induction rest as [|byte rest IH]; intros pre extra st method ps pe ver lf Hlf Hbl Hm; [discriminate|].
  assert (Hstep : forall st' method' ps' pe' ver' lf', lf' <= 1 -> bl_end (irb lf') rest = Some (length rest) ->
     length method' <= S (length pre) ->
     req_loop (pre ++ (byte :: rest) ++ extra) (rest ++ extra) (S (length pre)) st' method' ps' pe' ver' lf' =
     req_loop (pre ++ byte :: rest) rest (S (length pre)) st' method' ps' pe' ver' lf').
  { intros st' method' ps' pe' ver' lf' H1 H2 H3.
    replace (pre ++ (byte :: rest) ++ extra) with ((pre ++ [byte]) ++ rest ++ extra) by (rewrite <- app_assoc; reflexivity).
    replace (pre ++ byte :: rest) with ((pre ++ [byte]) ++ rest) by (rewrite <- app_assoc; reflexivity).
    replace (S (length pre)) with (length (pre ++ [byte])) by (rewrite app_length; cbn [length]; lia).
    apply IH; try assumption. rewrite app_length; cbn [length]; lia. }
  cbn [length] in Hbl. cbn [app req_loop].
  destruct (N.eqb byte CR) eqn:Ecr.
  { apply Hstep; [exact Hlf|exact (bl_cr _ _ _ _ Ecr Hbl)|lia]. }
  assert (Hbody : forall lf', lf' <= 1 -> bl_end (irb lf') rest = Some (length rest) ->
    bl_end false (byte :: rest) = Some (S (length rest)) ->
    match st with
    | RMethod =>
        if (N.eqb byte SP || Nat.eqb (length method) 7)%bool
        then match slice_chk 0 (length method) (pre ++ (byte :: rest) ++ extra) with
             | Ok m0 => if method_ok m0
                        then req_loop (pre ++ (byte :: rest) ++ extra) (rest ++ extra) (S (length pre)) RPath method ps pe ver lf'
                        else Err E_INVALID_METHOD
             | Err e => Err e
             | Panic => Panic
             end
        else req_loop (pre ++ (byte :: rest) ++ extra) (rest ++ extra) (S (length pre)) RMethod (method ++ [byte]) ps pe ver lf'
    | RPath =>
        if N.eqb byte SP
        then req_loop (pre ++ (byte :: rest) ++ extra) (rest ++ extra) (S (length pre)) RVersion method
               (if Nat.eqb ps 0 then length pre else ps) (length pre) ver lf'
        else req_loop (pre ++ (byte :: rest) ++ extra) (rest ++ extra) (S (length pre)) RPath method
               (if Nat.eqb ps 0 then length pre else ps) pe ver lf'
    | RVersion =>
        if (N.eqb byte LF || Nat.eqb (length ver) 8)%bool
        then match version_code ver with
             | Some _ => req_loop (pre ++ (byte :: rest) ++ extra) (rest ++ extra) (S (length pre)) RHeader method ps pe ver lf'
             | None => Err E_INVALID_VERSION
             end
        else req_loop (pre ++ (byte :: rest) ++ extra) (rest ++ extra) (S (length pre)) RVersion method ps pe (ver ++ [byte]) lf'
    | RHeader =>
        match slice_chk (length pre) (length (pre ++ (byte :: rest) ++ extra)) (pre ++ (byte :: rest) ++ extra) with
        | Ok hb => match parse_headers hb with
                   | Ok (h, e) => Ok (mk_scan method ps pe ver h (S (length pre) + e))
                   | Err e => Err e
                   | Panic => Panic
                   end
        | Err e => Err e
        | Panic => Panic
        end
    end =
    match st with
    | RMethod =>
        if (N.eqb byte SP || Nat.eqb (length method) 7)%bool
        then match slice_chk 0 (length method) (pre ++ byte :: rest) with
             | Ok m0 => if method_ok m0
                        then req_loop (pre ++ byte :: rest) rest (S (length pre)) RPath method ps pe ver lf'
                        else Err E_INVALID_METHOD
             | Err e => Err e
             | Panic => Panic
             end
        else req_loop (pre ++ byte :: rest) rest (S (length pre)) RMethod (method ++ [byte]) ps pe ver lf'
    | RPath =>
        if N.eqb byte SP
        then req_loop (pre ++ byte :: rest) rest (S (length pre)) RVersion method
               (if Nat.eqb ps 0 then length pre else ps) (length pre) ver lf'
        else req_loop (pre ++ byte :: rest) rest (S (length pre)) RPath method
               (if Nat.eqb ps 0 then length pre else ps) pe ver lf'
    | RVersion =>
        if (N.eqb byte LF || Nat.eqb (length ver) 8)%bool
        then match version_code ver with
             | Some _ => req_loop (pre ++ byte :: rest) rest (S (length pre)) RHeader method ps pe ver lf'
             | None => Err E_INVALID_VERSION
             end
        else req_loop (pre ++ byte :: rest) rest (S (length pre)) RVersion method ps pe (ver ++ [byte]) lf'
    | RHeader =>
        match slice_chk (length pre) (length (pre ++ byte :: rest)) (pre ++ byte :: rest) with
        | Ok hb => match parse_headers hb with
                   | Ok (h, e) => Ok (mk_scan method ps pe ver h (S (length pre) + e))
                   | Err e => Err e
                   | Panic => Panic
                   end
        | Err e => Err e
        | Panic => Panic
        end
    end).
  { intros lf' Hlf' Hbl' Hb0. destruct st.
    - destruct (N.eqb byte SP || Nat.eqb (length method) 7)%bool.
      + rewrite (slice_chk_local pre ((byte :: rest) ++ extra) (byte :: rest) 0 (length method) Hm).
        destruct (slice_chk 0 (length method) (pre ++ byte :: rest)) as [m0|e|]; [|reflexivity|reflexivity].
        destruct (method_ok m0); [|reflexivity]. apply Hstep; [exact Hlf'|exact Hbl'|lia].
      + apply Hstep; [exact Hlf'|exact Hbl'|rewrite app_length; cbn [length]; lia].
    - destruct (N.eqb byte SP); apply Hstep; (exact Hlf' || exact Hbl' || lia).
    - destruct (N.eqb byte LF || Nat.eqb (length ver) 8)%bool.
      + destruct (version_code ver); [|reflexivity]. apply Hstep; [exact Hlf'|exact Hbl'|lia].
      + apply Hstep; [exact Hlf'|exact Hbl'|lia].
    - rewrite !(slice_chk_tail pre _ (length pre) eq_refl).
      (* parse::headers on the rest of the buffer *)
      unfold parse_headers.
      pose proof (hdr_local (byte :: rest) [] extra false 0 0 0 0 [] ltac:(lia) Hb0 ltac:(cbn [length]; lia)) as Hh.
      cbn [length] in Hh. change ([] ++ (byte :: rest) ++ extra) with ((byte :: rest) ++ extra) in Hh.
      change ([] ++ byte :: rest) with (byte :: rest) in Hh. rewrite Hh. reflexivity. }
  destruct (N.eqb byte LF) eqn:Elf.
  - destruct lf as [|[|lf]]; [|reflexivity|lia].
    cbn [Nat.eqb andb]. unfold irb in Hbl. cbn [Nat.eqb] in Hbl. pose proof (bl_lf0 _ _ _ Elf Hbl) as Hbl'.
    apply (Hbody 1); [lia|exact Hbl'|exact Hbl].
  - cbn [andb]. pose proof (bl_other _ _ _ _ Ecr Elf Hbl) as Hbl'. apply (Hbody 0); [lia|exact Hbl'|].
    cbn [bl_end] in *. rewrite Elf, Ecr in *. exact Hbl.
Qed.

(** on success the loop has consumed exactly the head, and the target lies inside it *)
Lemma req_end : forall rest pre st method ps pe ver lf s,
  lf <= 1 -> bl_end (irb lf) rest = Some (length rest) -> pe <= length pre ->
  req_loop (pre ++ rest) rest (length pre) st method ps pe ver lf = Ok s ->
  sc_end s = S (length pre + length rest) /\ sc_pe s <= length pre + length rest.
Proof.
  induction rest as [|byte rest IH]; intros pre st method ps pe ver lf s Hlf Hbl Hpe H; [discriminate|].
  assert (Hstep : forall st' method' ps' pe' ver' lf', lf' <= 1 -> bl_end (irb lf') rest = Some (length rest) ->
     pe' <= S (length pre) ->
     req_loop (pre ++ byte :: rest) rest (S (length pre)) st' method' ps' pe' ver' lf' = Ok s ->
     sc_end s = S (length pre + length (byte :: rest)) /\ sc_pe s <= length pre + length (byte :: rest)).
  { intros st' method' ps' pe' ver' lf' H1 H2 H3 H4.
    replace (pre ++ byte :: rest) with ((pre ++ [byte]) ++ rest) in H4 by (rewrite <- app_assoc; reflexivity).
    replace (S (length pre)) with (length (pre ++ [byte])) in H4 by (rewrite app_length; cbn [length]; lia).
    apply IH in H4; try assumption; [|rewrite app_length; cbn [length]; lia].
    rewrite app_length in H4. cbn [length] in *. lia. }
  cbn [length] in Hbl. cbn [req_loop] in H.
  destruct (N.eqb byte CR) eqn:Ecr.
  { apply (Hstep _ _ _ _ _ _ Hlf (bl_cr _ _ _ _ Ecr Hbl)) in H; [exact H|lia]. }
  assert (Hbody : forall lf', lf' <= 1 -> bl_end (irb lf') rest = Some (length rest) ->
    bl_end false (byte :: rest) = Some (S (length rest)) ->
    match st with
    | RMethod =>
        if (N.eqb byte SP || Nat.eqb (length method) 7)%bool
        then match slice_chk 0 (length method) (pre ++ byte :: rest) with
             | Ok m0 => if method_ok m0
                        then req_loop (pre ++ byte :: rest) rest (S (length pre)) RPath method ps pe ver lf'
                        else Err E_INVALID_METHOD
             | Err e => Err e
             | Panic => Panic
             end
        else req_loop (pre ++ byte :: rest) rest (S (length pre)) RMethod (method ++ [byte]) ps pe ver lf'
    | RPath =>
        if N.eqb byte SP
        then req_loop (pre ++ byte :: rest) rest (S (length pre)) RVersion method
               (if Nat.eqb ps 0 then length pre else ps) (length pre) ver lf'
        else req_loop (pre ++ byte :: rest) rest (S (length pre)) RPath method
               (if Nat.eqb ps 0 then length pre else ps) pe ver lf'
    | RVersion =>
        if (N.eqb byte LF || Nat.eqb (length ver) 8)%bool
        then match version_code ver with
             | Some _ => req_loop (pre ++ byte :: rest) rest (S (length pre)) RHeader method ps pe ver lf'
             | None => Err E_INVALID_VERSION
             end
        else req_loop (pre ++ byte :: rest) rest (S (length pre)) RVersion method ps pe (ver ++ [byte]) lf'
    | RHeader =>
        match slice_chk (length pre) (length (pre ++ byte :: rest)) (pre ++ byte :: rest) with
        | Ok hb => match parse_headers hb with
                   | Ok (h, e) => Ok (mk_scan method ps pe ver h (S (length pre) + e))
                   | Err e => Err e
                   | Panic => Panic
                   end
        | Err e => Err e
        | Panic => Panic
        end
    end = Ok s ->
    sc_end s = S (length pre + length (byte :: rest)) /\ sc_pe s <= length pre + length (byte :: rest)).
  { intros lf' Hlf' Hbl' Hb0 H'. destruct st.
    - destruct (N.eqb byte SP || Nat.eqb (length method) 7)%bool.
      + destruct (slice_chk 0 (length method) (pre ++ byte :: rest)) as [m0|e|]; [|discriminate|discriminate].
        destruct (method_ok m0); [|discriminate]. apply (Hstep _ _ _ _ _ _ Hlf' Hbl') in H'; [exact H'|lia].
      + apply (Hstep _ _ _ _ _ _ Hlf' Hbl') in H'; [exact H'|lia].
    - destruct (N.eqb byte SP); apply (Hstep _ _ _ _ _ _ Hlf' Hbl') in H'; (exact H' || lia).
    - destruct (N.eqb byte LF || Nat.eqb (length ver) 8)%bool.
      + destruct (version_code ver); [|discriminate]. apply (Hstep _ _ _ _ _ _ Hlf' Hbl') in H'; [exact H'|lia].
      + apply (Hstep _ _ _ _ _ _ Hlf' Hbl') in H'; [exact H'|lia].
    - rewrite (slice_chk_tail pre _ (length pre) eq_refl) in H'. unfold parse_headers in H'.
      destruct (hdr_loop (byte :: rest) (byte :: rest) 0 false 0 0 0 0 []) as [[h e]|e|] eqn:Eh; [|discriminate|discriminate].
      apply hdr_end in Eh; [|lia|exact Hb0]. inversion H'; subst s. cbn [sc_end sc_pe length] in *. lia. }
  destruct (N.eqb byte LF) eqn:Elf.
  - destruct lf as [|[|lf]]; [| |lia].
    + cbn [Nat.eqb andb] in H. unfold irb in Hbl. cbn [Nat.eqb] in Hbl. pose proof (bl_lf0 _ _ _ Elf Hbl) as Hbl'.
      apply (Hbody 1); [lia|exact Hbl'|exact Hbl|exact H].
    + cbn [Nat.eqb andb] in H. inversion H; subst s. cbn [sc_end sc_pe].
      unfold irb in Hbl. cbn [Nat.eqb bl_end] in Hbl. rewrite Elf in Hbl. inversion Hbl as [Hl]. cbn [length]. lia.
  - cbn [andb] in H. pose proof (bl_other _ _ _ _ Ecr Elf Hbl) as Hbl'. apply (Hbody 0); [lia|exact Hbl'| |exact H].
    cbn [bl_end] in *. rewrite Elf, Ecr in *. exact Hbl.
Qed.

(** * The parser sees only the head *)

Lemma parse_local https dh a extra : bl_end false a = Some (length a) ->
  parse_request https dh (a ++ extra) =
  match parse_request https dh a with
  | Ok q => Ok (mk_request (q_method q) (q_path q) (q_query q) (q_version q) (q_headers q) (q_authority q) extra)
  | Err e => Err e
  | Panic => Panic
  end.
Proof.
  intros Hbl. unfold parse_request.
  pose proof (req_local a [] extra RMethod [] 0 0 [] 0 ltac:(lia) Hbl ltac:(cbn [length]; lia)) as Hl.
  cbn [length] in Hl. change ([] ++ a ++ extra) with (a ++ extra) in Hl. change ([] ++ a) with a in Hl.
  rewrite Hl. destruct (req_loop a a 0 RMethod [] 0 0 [] 0) as [s|e|] eqn:E; [|reflexivity|reflexivity].
  pose proof (req_end a [] RMethod [] 0 0 [] 0 s ltac:(lia) Hbl ltac:(cbn [length]; lia)) as He.
  cbn [length] in He. change ([] ++ a) with a in He. specialize (He E). destruct He as [He Hpe]. cbn [Nat.add] in *.
  cbn [obind]. unfold req_finish. destruct (Nat.leb (sc_pe s) (sc_ps s)); [reflexivity|].
  generalize (usable_host (match hm_get host_name (sc_headers s) with Some h => Some h | None => dh end)). intros host.
  rewrite <- (app_nil_r a) at 2. rewrite (slice_chk_local a extra [] (sc_ps s) (sc_pe s) Hpe). rewrite app_nil_r.
  destruct (slice_chk (sc_ps s) (sc_pe s) a) as [target|e|]; [|reflexivity|reflexivity]. cbn [obind].
  destruct (no_host host target); [reflexivity|].
  destruct (negb (method_ok (sc_method s))); [reflexivity|].
  destruct (uri_of https host target) as [[[auth path] query]|]; [|reflexivity].
  destruct (version_code (sc_ver s)); [|reflexivity].
  rewrite He. rewrite (slice_chk_tail a extra (length a) eq_refl).
  pose proof (slice_chk_tail a [] (length a) eq_refl) as Ht. rewrite app_nil_r in Ht. rewrite Ht.
  cbn [obind q_method q_path q_query q_version q_headers q_authority]. reflexivity.
Qed.

Lemma head_spec_ok_inv max_len ds k : head_spec max_len ds = Ok k -> blank_end ds = Some k /\ k <= max_len.
Proof.
  unfold head_spec, head_fail. destruct (blank_end ds) as [k0|].
  - destruct (Nat.leb k0 max_len) eqn:E.
    + destruct (valid_start ds); [|discriminate]. intros H; inversion H; subst. apply Nat.leb_le in E. split; [reflexivity|exact E].
    + destruct (_ && _)%bool; [discriminate|]. destruct (Nat.leb max_len (length ds)); discriminate.
  - destruct (_ && _)%bool; [discriminate|]. destruct (Nat.leb max_len (length ds)); discriminate.
Qed.

Lemma body_spec_cat mode e1 cl limit ds1 : body_spec mode e1 cl limit ds1 = body_spec mode [] cl limit (e1 ++ ds1).
Proof. unfold body_spec. rewrite app_length. cbn [length app Nat.add]. reflexivity. Qed.

(** For every stream (well-formed or not), every schedule of non-empty bursts, every growth
    function that keeps its promise: what a handler sees is [serve_spec] of the delivered bytes. *)
Lemma serve_blind_lemma : forall grow mode https dh max_len limit stream sched,
  grow_ok grow -> sched_pos sched ->
  match serve grow mode https dh max_len limit stream sched with
  | Ok sv => Ok (view_of sv)
  | Err e => Err e
  | Panic => Panic
  end = serve_spec mode https dh max_len limit (firstn (sum_sched sched) stream).
Proof.
  intros grow mode https dh max_len limit stream sched Hg Hp.
  pose proof (serve_head grow Hg mode https dh max_len limit stream sched Hp) as Hs. cbv zeta in Hs.
  rewrite <- (firstn_min_length stream (sum_sched sched)).
  set (d := Nat.min (sum_sched sched) (length stream)) in *. set (ds := firstn d stream) in *.
  unfold serve_spec. destruct (head_spec max_len ds) as [k|e|] eqn:Hhs; [|rewrite Hs; reflexivity|contradiction].
  destruct Hs as [c [r' [Hkc [Hcm [Hat Hs]]]]]. rewrite Hs. cbn [obind].
  destruct (head_spec_ok_inv _ _ _ Hhs) as [Hbe Hkm]. unfold blank_end in Hbe.
  assert (Hcd : c <= d) by (destruct Hat as [_ [_ [? _]]]; assumption).
  assert (HdS : d <= length stream) by (subst d; lia).
  pose proof (bl_end_le _ _ _ Hbe) as Hkl. unfold ds in Hkl. rewrite firstn_length_le in Hkl by exact HdS.
  assert (Ha : firstn k ds = firstn k stream) by (unfold ds; apply firstn_firstn_le; lia).
  rewrite Ha.
  assert (Hbla : bl_end false (firstn k stream) = Some (length (firstn k stream))).
  { rewrite <- Ha. rewrite (bl_end_firstn false ds k k Hbe) by lia. rewrite Ha, firstn_length_le by lia. reflexivity. }
  rewrite (firstn_le_split stream k c Hkc). rewrite (parse_local https dh _ _ Hbla).
  destruct (parse_request https dh (firstn k stream)) as [q0|e|]; [|reflexivity|reflexivity].
  cbn [obind q_early q_method q_headers].
  pose proof (read_to_bytes_exact grow Hg mode (firstn (c - k) (skipn k stream))
                (body_length (q_method q0) (q_headers q0)) limit stream d c r' Hat) as Hb.
  rewrite body_spec_cat in Hb.
  assert (Hcat : firstn (c - k) (skipn k stream) ++ firstn (d - c) (skipn c stream) = skipn k ds).
  { unfold ds. rewrite skipn_firstn_comm.
    replace (skipn c stream) with (skipn (c - k) (skipn k stream)) by (rewrite skipn_skipn_add; f_equal; lia).
    rewrite firstn_skipn_add. f_equal. lia. }
  rewrite Hcat in Hb.
  destruct (body_spec mode [] (body_length (q_method q0) (q_headers q0)) limit (skipn k ds)) as [b|e|].
  - destruct Hb as [r'' [Hb _]]. rewrite Hb. reflexivity.
  - rewrite Hb. reflexivity.
  - contradiction.
Qed.

Lemma schedule_independent_any_lemma : forall grow1 grow2 mode https dh max_len limit stream sched1 sched2,
  grow_ok grow1 -> grow_ok grow2 -> sched_pos sched1 -> sched_pos sched2 ->
  firstn (sum_sched sched1) stream = firstn (sum_sched sched2) stream ->
  result_view (serve grow1 mode https dh max_len limit stream sched1) =
  result_view (serve grow2 mode https dh max_len limit stream sched2).
Proof.
  intros grow1 grow2 mode https dh max_len limit stream sched1 sched2 Hg1 Hg2 Hp1 Hp2 Heq.
  unfold result_view. rewrite (serve_blind_lemma grow1 mode https dh max_len limit stream sched1 Hg1 Hp1).
  rewrite (serve_blind_lemma grow2 mode https dh max_len limit stream sched2 Hg2 Hp2). rewrite Heq. reflexivity.
Qed.
