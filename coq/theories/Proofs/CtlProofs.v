(** C19 — proofs about the model of the control socket (Model/Ctl.v). *)
From KV Require Import Bytes Quoted QuotedProofs Ctl.
From Coq Require Import ZifyBool ZifyNat ZifyN.
Open Scope N_scope.

(** ---- UTF-8: decoding an encoded scalar value gives it back ------------------------------------ *)

Lemma decode1 b0 r : b0 < 128 -> utf8_decode (b0 :: r) = option_map (cons b0) (utf8_decode r).
Proof. intros H. cbn [utf8_decode]. destruct (N.ltb_spec b0 128); [reflexivity|lia]. Qed.

Lemma decode2 b0 b1 r :
  194 <= b0 <= 223 -> 128 <= b1 <= 191 ->
  utf8_decode (b0 :: b1 :: r) = option_map (cons ((b0 - 192) * 64 + (b1 - 128))) (utf8_decode r).
Proof.
  intros H0 H1. cbn [utf8_decode]. unfold is_cont.
  destruct (N.ltb_spec b0 128); [lia|].
  destruct (N.leb_spec 194 b0); [|lia]. destruct (N.leb_spec b0 223); [|lia]. cbn [andb].
  destruct (N.leb_spec 128 b1); [|lia]. destruct (N.leb_spec b1 191); [|lia]. reflexivity.
Qed.

Lemma decode3 b0 b1 b2 r :
  224 <= b0 <= 239 -> 128 <= b1 <= 191 -> (b0 = 224 -> 160 <= b1) -> (b0 = 237 -> b1 <= 159) ->
  128 <= b2 <= 191 ->
  utf8_decode (b0 :: b1 :: b2 :: r)
  = option_map (cons ((b0 - 224) * 4096 + (b1 - 128) * 64 + (b2 - 128))) (utf8_decode r).
Proof.
  intros H0 H1 Ha Hb H2. cbn [utf8_decode]. unfold second3_ok, is_cont.
  destruct (N.ltb_spec b0 128); [lia|].
  destruct (N.leb_spec 194 b0); [|lia]. destruct (N.leb_spec b0 223); [lia|]. cbn [andb].
  destruct (N.leb_spec 224 b0); [|lia]. destruct (N.leb_spec b0 239); [|lia]. cbn [andb].
  assert (E : (if b0 =? 224 then (160 <=? b1) && (b1 <=? 191)
               else if b0 =? 237 then (128 <=? b1) && (b1 <=? 159) else (128 <=? b1) && (b1 <=? 191)) = true).
  { destruct (N.eqb_spec b0 224); [|destruct (N.eqb_spec b0 237)]; apply andb_true_iff; split; apply N.leb_le; lia. }
  rewrite E. cbn [andb].
  destruct (N.leb_spec 128 b2); [|lia]. destruct (N.leb_spec b2 191); [|lia]. reflexivity.
Qed.

Lemma decode4 b0 b1 b2 b3 r :
  240 <= b0 <= 244 -> 128 <= b1 <= 191 -> (b0 = 240 -> 144 <= b1) -> (b0 = 244 -> b1 <= 143) ->
  128 <= b2 <= 191 -> 128 <= b3 <= 191 ->
  utf8_decode (b0 :: b1 :: b2 :: b3 :: r)
  = option_map (cons ((b0 - 240) * 262144 + (b1 - 128) * 4096 + (b2 - 128) * 64 + (b3 - 128))) (utf8_decode r).
Proof.
  intros H0 H1 Ha Hb H2 H3. cbn [utf8_decode]. unfold second4_ok, is_cont.
  destruct (N.ltb_spec b0 128); [lia|].
  destruct (N.leb_spec 194 b0); [|lia]. destruct (N.leb_spec b0 223); [lia|]. cbn [andb].
  destruct (N.leb_spec 224 b0); [|lia]. destruct (N.leb_spec b0 239); [lia|]. cbn [andb].
  destruct (N.leb_spec 240 b0); [|lia]. destruct (N.leb_spec b0 244); [|lia]. cbn [andb].
  assert (E : (if b0 =? 240 then (144 <=? b1) && (b1 <=? 191)
               else if b0 =? 244 then (128 <=? b1) && (b1 <=? 143) else (128 <=? b1) && (b1 <=? 191)) = true).
  { destruct (N.eqb_spec b0 240); [|destruct (N.eqb_spec b0 244)]; apply andb_true_iff; split; apply N.leb_le; lia. }
  rewrite E. cbn [andb].
  destruct (N.leb_spec 128 b2); [|lia]. destruct (N.leb_spec b2 191); [|lia]. cbn [andb].
  destruct (N.leb_spec 128 b3); [|lia]. destruct (N.leb_spec b3 191); [|lia]. reflexivity.
Qed.

(** quotient / remainder by 64 as linear facts *)
Lemma split64 x : exists q r, x = 64 * q + r /\ r < 64 /\ x / 64 = q /\ x mod 64 = r.
Proof.
  exists (x / 64), (x mod 64). repeat split.
  - apply N.div_mod'.
  - apply N.mod_lt. lia.
Qed.

Lemma utf8_char_roundtrip c r :
  is_scalar c = true -> utf8_decode (utf8_encode_char c ++ r) = option_map (cons c) (utf8_decode r).
Proof.
  unfold is_scalar. intros Hs. unfold utf8_encode_char.
  destruct (split64 c) as (a & r0 & Ec & Hr0 & Da & Ma).
  destruct (split64 a) as (b & r1 & Ea & Hr1 & Db & Mb).
  destruct (split64 b) as (d & r2 & Eb & Hr2 & Dd & Md).
  assert (D4096 : c / 4096 = b).
  { change 4096 with (64 * 64). rewrite <- N.div_div by lia. rewrite Da. exact Db. }
  assert (D262144 : c / 262144 = d).
  { change 262144 with (64 * 64 * 64). rewrite <- N.div_div by lia. rewrite <- N.div_div by lia.
    rewrite Da, Db. exact Dd. }
  destruct (N.ltb_spec c 128) as [H1|H1].
  - cbn [app]. apply decode1. exact H1.
  - destruct (N.ltb_spec c 2048) as [H2|H2].
    + cbn [app]. rewrite Da, Ma. rewrite decode2 by lia. do 2 f_equal. lia.
    + destruct (N.ltb_spec c 65536) as [H3|H3].
      * cbn [app]. rewrite D4096, Da, Ma, Mb.
        rewrite decode3 by lia. do 2 f_equal. lia.
      * cbn [app]. rewrite D262144, D4096, Da, Ma, Mb, Md.
        rewrite decode4 by lia. do 2 f_equal. lia.
Qed.

Definition all_scalar (s : str) : bool := forallb is_scalar s.

Lemma utf8_roundtrip_app s : forall r,
  all_scalar s = true ->
  utf8_decode (utf8_encode s ++ r) = option_map (app s) (utf8_decode r).
Proof.
  induction s as [|c s IH]; intros r H.
  - cbn [utf8_encode flat_map app]. destruct (utf8_decode r); reflexivity.
  - cbn [all_scalar forallb] in H. apply andb_true_iff in H as [Hc Hs].
    unfold utf8_encode. cbn [flat_map]. rewrite <- app_assoc.
    rewrite utf8_char_roundtrip by exact Hc.
    fold (utf8_encode s). rewrite IH by exact Hs.
    destruct (utf8_decode r); reflexivity.
Qed.

Lemma utf8_roundtrip s : all_scalar s = true -> utf8_decode (utf8_encode s) = Some s.
Proof.
  intros H. rewrite <- (app_nil_r (utf8_encode s)). rewrite utf8_roundtrip_app by exact H.
  cbn [utf8_decode option_map]. rewrite app_nil_r. reflexivity.
Qed.

Lemma utf8_encode_app a c : utf8_encode (a ++ c) = utf8_encode a ++ utf8_encode c.
Proof. unfold utf8_encode. apply flat_map_app. Qed.

(** ---- scalar values are preserved by the encoder and the join ---------------------------------------- *)

Lemma all_scalar_app a c : all_scalar (a ++ c) = all_scalar a && all_scalar c.
Proof. apply forallb_app. Qed.

Lemma all_scalar_encode_body s : all_scalar (flat_map encode_char s) = all_scalar s.
Proof.
  induction s as [|c s IH]; [reflexivity|].
  cbn [flat_map]. rewrite all_scalar_app, IH. cbn [all_scalar forallb]. f_equal.
  unfold encode_char.
  destruct (N.eqb_spec c c_dquote) as [->|]; [reflexivity|].
  destruct (N.eqb_spec c c_bslash) as [->|]; [reflexivity|].
  cbn [forallb]. apply andb_true_r.
Qed.

Lemma all_scalar_encode s : all_scalar (encode_quoted_str s) = all_scalar s.
Proof.
  unfold encode_quoted_str. rewrite !all_scalar_app, all_scalar_encode_body.
  cbn. apply andb_true_r.
Qed.

Lemma all_scalar_join_encoded l :
  all_scalar (join_sp (map encode_quoted_str l)) = forallb all_scalar l.
Proof.
  induction l as [|a l IH]; [reflexivity|].
  destruct l as [|b r].
  - cbn [map join_sp forallb]. rewrite all_scalar_encode, andb_true_r. reflexivity.
  - change (join_sp (map encode_quoted_str (a :: b :: r)))
      with (encode_quoted_str a ++ [c_space] ++ join_sp (map encode_quoted_str (b :: r))).
    rewrite !all_scalar_app, all_scalar_encode, IH. reflexivity.
Qed.

(** ---- reply framing ----------------------------------------------------------------------------------- *)

Lemma skipn_repeat_app {A} (x : A) n m l : skipn n (repeat x (n + m) ++ l) = repeat x m ++ l.
Proof. induction n as [|n IH]; [reflexivity|]. cbn [Nat.add repeat app skipn]. exact IH. Qed.

(** The in-place construction is: the status word, then a space and the data if there is data. *)
Lemma frame_eq prepend data :
  frame prepend data = prepend ++ match data with Some (c :: d) => c_space :: c :: d | _ => [] end.
Proof.
  unfold frame. f_equal.
  destruct data as [[|c d]|]; cbn [is_empty].
  - rewrite (skipn_repeat_app c_space (length prepend) 0 []). reflexivity.
  - rewrite (skipn_repeat_app c_space (length prepend) 1 (c :: d)). reflexivity.
  - rewrite (skipn_repeat_app c_space (length prepend) 0 []). reflexivity.
Qed.

Lemma frame_starts prepend data : starts_with prepend (frame prepend data) = true.
Proof. rewrite frame_eq. apply starts_with_app. eexists. reflexivity. Qed.

(** ---- dispatch is total and the status word tells what happened ------------------------------------------ *)

Inductive request_class := CBinary | CUnknown | CPluginError | CPluginOk.

Section Dispatch.
  Variable S : Type.
  Implicit Types (ps : plugins S) (s : S).

  (** What becomes of a request, stated without the handler: not UTF-8; no plugin of that name;
      the plugin answers [Error]; the plugin answers [Ok]. *)
  Definition classify ps (req : bytes) s : request_class :=
    match utf8_decode req with
    | None => CBinary
    | Some line =>
        match lookup_plugin (request_name (quoted_str_split line)) ps with
        | None => CUnknown
        | Some p =>
            match pr_kind (fst (p (request_args (quoted_str_split line)) s)) with
            | KError _ => CPluginError
            | KOk _ => CPluginOk
            end
        end
    end.

  Lemma handle_total ps req s :
    let hr := fst (handle ps req s) in
    (classify ps req s <> CPluginOk -> starts_with (B "error") (hr_data hr) = true) /\
    (classify ps req s = CPluginOk -> starts_with (B "ok") (hr_data hr) = true) /\
    (classify ps req s = CBinary \/ classify ps req s = CUnknown ->
       hr_close hr = false /\ snd (handle ps req s) = s).
  Proof.
    unfold classify, handle.
    destruct (utf8_decode req) as [line|].
    2:{ cbn. split; [|split]; intros H; try reflexivity; try congruence. split; reflexivity. }
    destruct (lookup_plugin _ ps) as [p|].
    2:{ cbn. split; [|split]; intros H; try reflexivity; try congruence. split; reflexivity. }
    destruct (p _ s) as [r s'] eqn:E. cbn [fst snd].
    destruct (pr_kind r) as [d|d]; cbn [fst snd hr_data hr_close]; (split; [|split]); intros H;
      try congruence; try apply frame_starts; destruct H; congruence.
  Qed.

  Lemma handle_status_word ps req s :
    let d := hr_data (fst (handle ps req s)) in
    starts_with (B "ok") d = true \/ starts_with (B "error") d = true.
  Proof.
    cbn zeta. destruct (handle_total ps req s) as (He & Ho & _).
    destruct (classify ps req s) eqn:C.
    - right. apply He. congruence.
    - right. apply He. congruence.
    - right. apply He. congruence.
    - left. apply Ho. reflexivity.
  Qed.

  (** ---- the listener ---------------------------------------------------------------------------------- *)

  (** no request of the history, handled in order, gets a closing response *)
  Fixpoint no_close ps s (reqs : list bytes) : bool :=
    match reqs with
    | [] => true
    | req :: r => let (hr, s') := handle ps req s in negb (hr_close hr) && no_close ps s' r
    end.

  Definition answered (r : reply) : Prop :=
    exists d, r = Data d /\ (starts_with (B "ok") d = true \/ starts_with (B "error") d = true).

  Lemma run_persists ps reqs : forall s,
    no_close ps s reqs = true ->
    fst (fst (run ps (Listening, s) reqs)) = Listening /\
    Forall answered (snd (run ps (Listening, s) reqs)) /\
    length (snd (run ps (Listening, s) reqs)) = length reqs.
  Proof.
    induction reqs as [|req r IH]; intros s H.
    - cbn. split; [reflexivity|]. split; [constructor|reflexivity].
    - cbn [no_close] in H. cbn [run serve].
      pose proof (handle_status_word ps req s) as Hw. cbn zeta in Hw.
      destruct (handle ps req s) as [hr s'] eqn:E. cbn [fst] in Hw.
      apply andb_true_iff in H as [Hc Hr]. apply negb_true_iff in Hc. rewrite Hc.
      specialize (IH s' Hr). destruct (run ps (Listening, s') r) as [ls'' reps] eqn:R.
      cbn [fst snd] in *. destruct IH as (I1 & I2 & I3).
      split; [exact I1|]. split; [|cbn [length]; congruence].
      constructor; [|exact I2]. exists (hr_data hr). split; [reflexivity|exact Hw].
  Qed.

  Lemma run_closed ps reqs s :
    run ps (Closed, s) reqs = ((Closed, s), repeat NoAnswer (length reqs)).
  Proof.
    induction reqs as [|req r IH]; [reflexivity|].
    cbn [run serve]. rewrite IH. reflexivity.
  Qed.

  (** A history with a closing response: everything up to and including it is answered, nothing
      after it is. *)
  Lemma run_until_close ps pre : forall s c post,
    no_close ps s pre = true ->
    (let s1 := snd (fst (run ps (Listening, s) pre)) in hr_close (fst (handle ps c s1)) = true) ->
    let res := run ps (Listening, s) (pre ++ c :: post) in
    fst (fst res) = Closed /\
    exists ans last, length ans = length pre /\ Forall answered ans /\ answered last /\
                     snd res = ans ++ last :: repeat NoAnswer (length post).
  Proof.
    induction pre as [|req r IH]; intros s c post Hn Hc.
    - cbn [app run serve] in *. cbn [fst snd] in Hc.
      pose proof (handle_status_word ps c s) as Hw. cbn zeta in Hw.
      destruct (handle ps c s) as [hr s'] eqn:E. cbn [fst] in Hc, Hw. rewrite Hc.
      rewrite run_closed. cbn [fst snd]. split; [reflexivity|].
      exists [], (Data (hr_data hr)).
      split; [reflexivity|]. split; [constructor|]. split; [|reflexivity].
      exists (hr_data hr). split; [reflexivity|exact Hw].
    - cbn [no_close] in Hn. cbn [app run serve] in *.
      pose proof (handle_status_word ps req s) as Hw. cbn zeta in Hw.
      destruct (handle ps req s) as [hr s'] eqn:E. cbn [fst] in Hw.
      apply andb_true_iff in Hn as [Hh Hr]. apply negb_true_iff in Hh. rewrite Hh in *.
      destruct (run ps (Listening, s') r) as [ls1 reps1] eqn:R1. cbn [fst snd] in Hc.
      specialize (IH s' c post Hr). rewrite R1 in IH. specialize (IH Hc). cbn zeta in IH.
      destruct (run ps (Listening, s') (r ++ c :: post)) as [ls2 reps2] eqn:R2.
      cbn [fst snd] in *. destruct IH as (I1 & ans & last & L & Fa & La & Eq).
      split; [exact I1|].
      exists (Data (hr_data hr) :: ans), last.
      split; [cbn [length]; congruence|]. split; [|split].
      + constructor; [|exact Fa]. exists (hr_data hr). split; [reflexivity|exact Hw].
      + exact La.
      + rewrite Eq. reflexivity.
  Qed.

  (** ---- ping ---------------------------------------------------------------------------------------------- *)

  (** whatever spelling of the line: if its tokens are [ping :: args], the reply is [ok] and the
      encoded arguments *)
  Lemma ping_reply_for_line ps line args s :
    lookup_plugin (B "ping") ps = Some ping_plugin ->
    quoted_str_split line = B "ping" :: args ->
    all_scalar line = true ->
    handle ps (utf8_encode line) s
    = ({| hr_data := frame (B "ok") (Some (utf8_encode (join_sp (map encode_quoted_str args))));
          hr_close := false |}, s).
  Proof.
    intros Hp Hl Hs. unfold handle. rewrite utf8_roundtrip by exact Hs. rewrite Hl.
    unfold request_name, request_args. cbn [tl]. rewrite Hp.
    unfold ping_plugin. rewrite ping_data_is_join. reflexivity.
  Qed.

  Lemma split_after_ok rest :
    quoted_str_split (B "ok" ++ c_space :: rest) = B "ok" :: quoted_str_split rest.
  Proof. reflexivity. Qed.

  Lemma ping_echo_lemma ps args s :
    lookup_plugin (B "ping") ps = Some ping_plugin ->
    forallb all_scalar args = true ->
    let reply := B "ok" ++ match args with
                           | [] => []
                           | _ => c_space :: utf8_encode (join_sp (map encode_quoted_str args))
                           end in
    handle ps (utf8_encode (client_message (B "ping") args)) s = ({| hr_data := reply; hr_close := false |}, s)
    /\ client_reply_tokens reply = Some (B "ok" :: args).
  Proof.
    intros Hp Hs. destruct args as [|a r].
    - cbn zeta. split.
      + unfold handle. change (utf8_decode (utf8_encode (client_message (B "ping") []))) with (Some (B "ping")).
        cbv beta iota zeta. change (quoted_str_split (B "ping")) with [B "ping"].
        unfold request_name, request_args. cbn [tl]. rewrite Hp. reflexivity.
      + reflexivity.
    - cbn zeta.
      assert (Hj : all_scalar (join_sp (map encode_quoted_str (a :: r))) = true)
        by (rewrite all_scalar_join_encoded; exact Hs).
      split.
      + rewrite (ping_reply_for_line ps _ (a :: r) s Hp).
        * rewrite frame_eq. f_equal. f_equal. f_equal.
          destruct (utf8_encode (join_sp (map encode_quoted_str (a :: r)))) eqn:E; [|reflexivity].
          exfalso. rewrite join_encoded_cons in E. unfold encode_quoted_str in E.
          cbn [app] in E. unfold utf8_encode in E. cbn [flat_map] in E.
          change (utf8_encode_char c_dquote) with [c_dquote] in E. cbn [app] in E. discriminate E.
        * apply split_client_message.
        * rewrite client_message_is_join, all_scalar_join_encoded.
          change (forallb all_scalar (B "ping" :: a :: r)) with (all_scalar (B "ping") && forallb all_scalar (a :: r)).
          rewrite Hs. reflexivity.
      + unfold client_reply_tokens.
        change (B "ok" ++ c_space :: utf8_encode (join_sp (map encode_quoted_str (a :: r))))
          with (utf8_encode (B "ok" ++ [c_space]) ++ utf8_encode (join_sp (map encode_quoted_str (a :: r)))).
        rewrite <- utf8_encode_app. rewrite utf8_roundtrip.
        * cbn [option_map]. rewrite <- app_assoc. cbn [app]. rewrite split_after_ok.
          rewrite split_join_encoded. reflexivity.
        * rewrite all_scalar_app, Hj. reflexivity.
  Qed.

  (** whatever a plugin answers, kvarnctl reads the status word as the first token *)
  Lemma client_reads_status prepend data line :
    (prepend = B "ok" \/ prepend = B "error") ->
    utf8_decode (frame prepend data) = Some line ->
    exists rest, quoted_str_split line = prepend :: rest.
  Proof.
    intros Hp Hd. rewrite frame_eq in Hd.
    destruct data as [[|c d]|].
    1,3: rewrite app_nil_r in Hd; destruct Hp as [-> | ->]; vm_compute in Hd; inversion Hd; subst;
         eexists; reflexivity.
    destruct Hp as [-> | ->].
    - change (B "ok" ++ c_space :: c :: d) with (111 :: 107 :: 32 :: c :: d) in Hd.
      do 3 (rewrite decode1 in Hd by lia).
      destruct (utf8_decode (c :: d)) as [l|]; [|discriminate Hd].
      cbn [option_map] in Hd. inversion Hd; subst. eexists. reflexivity.
    - change (B "error" ++ c_space :: c :: d) with (101 :: 114 :: 114 :: 111 :: 114 :: 32 :: c :: d) in Hd.
      do 6 (rewrite decode1 in Hd by lia).
      destruct (utf8_decode (c :: d)) as [l|]; [|discriminate Hd].
      cbn [option_map] in Hd. inversion Hd; subst. eexists. reflexivity.
  Qed.
End Dispatch.

(** ---- [clear] and [shutdown] see what the operator typed ---------------------------------------------------- *)

Lemma clear_all_sees_host S (ps : plugins S) uri_ok host s :
  lookup_plugin (B "clear") ps = Some (clear_plugin uri_ok) ->
  all_scalar host = true ->
  handle ps (utf8_encode (client_message (B "clear") [B "all"; host])) s
  = ({| hr_data := frame (B "ok") (Some (B "cleared the caches on " ++ utf8_encode host)); hr_close := false |}, s).
Proof.
  intros Hp Hs. unfold handle. rewrite utf8_roundtrip.
  - rewrite split_client_message. unfold request_name, request_args. cbn [tl]. rewrite Hp. reflexivity.
  - rewrite client_message_is_join, all_scalar_join_encoded. cbn [forallb]. rewrite Hs. reflexivity.
Qed.

Lemma shutdown_no_wait_closes S (ps : plugins S) eff s :
  lookup_plugin (B "shutdown") ps = Some (shutdown_plugin eff) ->
  handle ps (B "shutdown no-wait") s
  = ({| hr_data := B "ok 'Successfully completed a graceful shutdown.'"; hr_close := true |}, eff true s).
Proof.
  intros Hp. unfold handle.
  change (utf8_decode (B "shutdown no-wait")) with (Some (B "shutdown no-wait")).
  cbv beta iota zeta. change (quoted_str_split (B "shutdown no-wait")) with [B "shutdown"; B "no-wait"].
  unfold request_name, request_args. cbn [tl]. rewrite Hp. reflexivity.
Qed.

(** ================================================================================================
    Strengthening: the handler with every panic explicit, and the listener with many connections
    ================================================================================================ *)

Definition status_ok (d : bytes) : Prop :=
  starts_with (B "ok") d = true \/ starts_with (B "error") d = true.

(** no plugin of the table panics or fails outside its [PluginResponse] *)
Definition plugins_total {S} (ps : plugins_chk S) : Prop :=
  forall name p, lookup_chk name ps = Some p -> forall args s, exists r, p args s = Ok r.

(** ---- the handler's own partial operations never fail ---------------------------------------------- *)

Lemma frame_chk_ok prepend data : frame_chk prepend data = Ok (frame prepend data).
Proof.
  unfold frame_chk, frame, slice_chk, slice_get.
  set (d := match data with Some d => d | None => [] end).
  set (len := (length prepend + (if is_empty d then 0 else 1))%nat).
  assert (H : Nat.leb (length prepend) (length (repeat c_space len ++ d)) = true).
  { apply Nat.leb_le. rewrite app_length, repeat_length. unfold len. lia. }
  cbn [Nat.leb andb]. rewrite H.
  rewrite slice_length; [|lia|apply Nat.leb_le; exact H].
  rewrite Nat.sub_0_r, Nat.eqb_refl. reflexivity.
Qed.

Lemma lookup_lift S (ps : plugins S) name :
  lookup_chk name (lift_plugins ps) = option_map lift_plugin (lookup_plugin name ps).
Proof.
  unfold lift_plugins. induction ps as [|[k p] r IH]; [reflexivity|].
  cbn [map fst snd lookup_chk lookup_plugin]. destruct (beq k name); [reflexivity|exact IH].
Qed.

Lemma handle_chk_lift S (ps : plugins S) req s :
  handle_chk (lift_plugins ps) req s = Ok (handle ps req s).
Proof.
  unfold handle_chk, handle. destruct (utf8_decode req) as [line|]; [|reflexivity].
  cbv zeta. rewrite lookup_lift. destruct (lookup_plugin _ ps) as [p|]; [|reflexivity].
  cbn [option_map]. unfold lift_plugin. cbn [obind]. destruct (p _ s) as [r s'] eqn:E. cbn [fst snd].
  destruct (pr_kind r); cbv beta iota zeta; rewrite frame_chk_ok; reflexivity.
Qed.

Lemma handle_chk_total S (ps : plugins_chk S) req s :
  plugins_total ps ->
  exists hr s', handle_chk ps req s = Ok (hr, s') /\ status_ok (hr_data hr).
Proof.
  intros T. unfold handle_chk. destruct (utf8_decode req) as [line|].
  2:{ eexists _, _. split; [reflexivity|]. right. reflexivity. }
  cbv zeta. destruct (lookup_chk _ ps) as [p|] eqn:L.
  2:{ eexists _, _. split; [reflexivity|]. right. reflexivity. }
  destruct (T _ _ L (request_args (quoted_str_split line)) s) as [[r s'] E]. rewrite E. cbn [obind fst snd].
  destruct (pr_kind r) as [d|d]; cbv beta iota zeta; rewrite frame_chk_ok; cbn [obind];
    eexists _, _; (split; [reflexivity|]); cbn [hr_data].
  - left. apply frame_starts.
  - right. apply frame_starts.
Qed.

(** A request that is not UTF-8 or names no plugin gets the same [error] reply in every state and
    changes nothing: whenever its handler is scheduled among the other connections' events, the
    client sees the same bytes. *)
Lemma rejected_reply_constant S (ps : plugins_chk S) req :
  (utf8_decode req = None \/
   exists line, utf8_decode req = Some line /\ lookup_chk (request_name (quoted_str_split line)) ps = None) ->
  exists d, starts_with (B "error") d = true /\
            forall s, handle_chk ps req s = Ok ({| hr_data := d; hr_close := false |}, s).
Proof.
  intros [H|(line & H & L)].
  - exists msg_binary. split; [reflexivity|]. intros s. unfold handle_chk. rewrite H. reflexivity.
  - exists msg_not_found. split; [reflexivity|]. intros s. unfold handle_chk. rewrite H. cbv zeta. rewrite L. reflexivity.
Qed.

(** ---- [String::remove(0)] in [with_ping] ------------------------------------------------------------- *)

Lemma str_remove_first_ascii b t : b < 128 -> str_remove_chk 0 (b :: t) = Ok t.
Proof.
  intros Hb. unfold str_remove_chk, str_slice_chk.
  change (length (b :: t)) with (Datatypes.S (length t)).
  cbn [Nat.leb is_char_boundary andb].
  change (length (b :: t)) with (Datatypes.S (length t)).
  rewrite Nat.compare_refl. unfold slice. cbn [Nat.sub skipn firstn].
  unfold char_width. destruct (N.ltb_spec b 128) as [_|H]; [|lia].
  reflexivity.
Qed.

Lemma utf8_encode_cons_space r : utf8_encode (c_space :: r) = c_space :: utf8_encode r.
Proof. reflexivity. Qed.

Lemma ping_fold_bytes_gen args : forall acc,
  fold_left (fun acc arg => acc ++ [c_space] ++ utf8_encode (encode_quoted_str arg)) args (utf8_encode acc)
  = utf8_encode (fold_left (fun acc arg => acc ++ [c_space] ++ encode_quoted_str arg) args acc).
Proof.
  induction args as [|a r IH]; intros acc; [reflexivity|].
  cbn [fold_left]. rewrite <- IH. f_equal. rewrite !utf8_encode_app. reflexivity.
Qed.

Lemma ping_fold_bytes_eq args : ping_fold_bytes args = utf8_encode (ping_fold args).
Proof. exact (ping_fold_bytes_gen args []). Qed.

Lemma ping_data_chk_ok args : ping_data_chk args = Ok (utf8_encode (ping_data args)).
Proof.
  unfold ping_data_chk. rewrite ping_fold_bytes_eq. unfold ping_data, ping_fold.
  rewrite fold_push_encoded. cbn [app].
  destruct args as [|a r]; [reflexivity|].
  cbn [flat_map]. unfold sp_enc at 1 3. cbn [app].
  rewrite utf8_encode_cons_space. cbn [is_empty].
  apply str_remove_first_ascii. reflexivity.
Qed.

Lemma ping_plugin_chk_ok S args (s : S) : ping_plugin_chk args s = Ok (ping_plugin args s).
Proof. unfold ping_plugin_chk, ping_plugin. rewrite ping_data_chk_ok. reflexivity. Qed.

(** ---- cutting a [&str] at a byte count is not total ------------------------------------------------ *)

Lemma log_truncation_panics :
  exists (data : bytes) (line : str),
    utf8_decode data = Some line /\ (length data > 64)%nat /\ log_truncate_chk 64 data = Panic.
Proof.
  exists (repeat 97 63 ++ [195; 182; 122]), (repeat 97 63 ++ [246; 122]).
  split; [vm_compute; reflexivity|]. split; [vm_compute; lia|vm_compute; reflexivity].
Qed.

(** ... while at a char boundary it is what [slice] is *)
Lemma str_slice_chk_boundary lo hi s :
  (lo <= hi)%nat -> is_char_boundary s lo = true -> is_char_boundary s hi = true ->
  str_slice_chk lo hi s = Ok (slice lo hi s).
Proof.
  intros H1 H2 H3. unfold str_slice_chk. rewrite H2, H3.
  destruct (Nat.leb_spec lo hi); [reflexivity|lia].
Qed.

(** ---- the table of the fixture ---------------------------------------------------------------------------- *)

Lemma plugins_total_forall S (ps : plugins_chk S) :
  Forall (fun kp => forall args s, exists r, snd kp args s = Ok r) ps -> plugins_total ps.
Proof.
  intros F name p. induction F as [|[k q] r Hq F IH]; cbn [lookup_chk]; [discriminate|].
  destruct (beq k name); [|exact IH]. intros E. inversion E; subst. exact Hq.
Qed.

Lemma lift_plugins_forall S (ps : plugins S) :
  Forall (fun kp => forall args s, exists r, snd kp args s = Ok r) (lift_plugins ps).
Proof.
  unfold lift_plugins. induction ps as [|[k p] r IH]; cbn [map]; constructor; [|exact IH].
  intros args s. eexists. reflexivity.
Qed.

Lemma fx_plugins_chk_total : plugins_total fx_plugins_chk.
Proof.
  apply plugins_total_forall. unfold fx_plugins_chk.
  apply Forall_app. split; [|apply lift_plugins_forall].
  repeat constructor; intros args s; cbn [snd].
  - eexists. reflexivity.
  - eexists. reflexivity.
  - rewrite ping_plugin_chk_ok. eexists. reflexivity.
Qed.

(** ---- the listener with any number of connections ------------------------------------------------------------- *)

Lemma conn_get_set_same k v cs : conn_get k (conn_set k v cs) = Some v.
Proof.
  induction cs as [|[i p] r IH]; cbn [conn_set conn_get].
  - rewrite N.eqb_refl. reflexivity.
  - destruct (N.eqb_spec i k) as [->|Hn]; cbn [conn_get].
    + rewrite N.eqb_refl. reflexivity.
    + destruct (N.eqb_spec i k); [contradiction|exact IH].
Qed.

Lemma conn_get_set_other j k v cs : j <> k -> conn_get j (conn_set k v cs) = conn_get j cs.
Proof.
  intros Hjk. induction cs as [|[i p] r IH]; cbn [conn_set conn_get].
  - destruct (N.eqb_spec k j); [congruence|reflexivity].
  - destruct (N.eqb_spec i k) as [->|Hn]; cbn [conn_get].
    + destruct (N.eqb_spec k j); [congruence|reflexivity].
    + destruct (N.eqb_spec i j); [reflexivity|exact IH].
Qed.

Section LtsProofs.
  Variable S : Type.
  Variable ps : plugins_chk S.
  Variable blocked : bytes -> S -> bool.
  Variable env_step : N -> S -> S * bool.
  Variable ack : S -> S.
  Notation stepg := (lstep_gen ps blocked env_step ack).
  Notation step := (lstep ps blocked env_step ack).
  Notation step0 := (lstep_v0 ps blocked env_step ack).
  Notation runl := (lrun ps blocked env_step ack).
  Notation task := (run_task ps blocked ack).

  Lemma run_task_other fixed (st : lts_state S) k req reads j :
    j <> k -> conn_get j (l_conns (task fixed st k req reads)) = conn_get j (l_conns st).
  Proof.
    intros H. unfold run_task. destruct (blocked req (l_env st)); [reflexivity|].
    destruct (handle_chk ps req (l_env st)) as [[hr s']| |]; cbn [with_conn l_conns];
      apply conn_get_set_other; congruence.
  Qed.

  (** An event of another connection, of the listener or of the environment never reads or writes
      this connection's entry (before and after the repairs). *)
  Lemma lstep_gen_other fixed (st : lts_state S) ev k :
    event_conn ev <> Some k -> conn_get k (l_conns (stepg fixed st ev)) = conn_get k (l_conns st).
  Proof.
    intros H. destruct ev as [i|i b|i|i|e|i| | |]; cbn [lstep_gen event_conn] in *.
    - destruct (conn_get i (l_conns st)); [reflexivity|].
      cbn [with_conn l_conns]. apply conn_get_set_other. congruence.
    - destruct (conn_get i (l_conns st)) as [[|buf|req|d|req h]|]; try reflexivity.
      cbn [with_conn l_conns]. apply conn_get_set_other. congruence.
    - destruct (conn_get i (l_conns st)) as [[|buf|req|d|req h]|]; try reflexivity.
      cbn [with_conn l_conns]. apply conn_get_set_other. congruence.
    - destruct (conn_get i (l_conns st)) as [[|buf|req|d|req [|]]|]; try reflexivity;
        apply run_task_other; congruence.
    - destruct (env_step e (l_env st)). reflexivity.
    - destruct (conn_get i (l_conns st)) as [[|buf|req|d|req h]|]; try reflexivity;
        cbn [with_conn l_conns]; apply conn_get_set_other; congruence.
    - destruct (l_listener st); reflexivity.
    - destruct (l_listener st); reflexivity.
    - destruct fixed; [reflexivity|]. destruct (l_listener st); reflexivity.
  Qed.

  Lemma lstep_other (st : lts_state S) ev k :
    event_conn ev <> Some k -> conn_get k (l_conns (step st ev)) = conn_get k (l_conns st).
  Proof. apply lstep_gen_other. Qed.

  Lemma lrun_others evs : forall (st : lts_state S) k,
    Forall (fun ev => event_conn ev <> Some k) evs ->
    conn_get k (l_conns (runl st evs)) = conn_get k (l_conns st).
  Proof.
    unfold lrun. induction evs as [|ev r IH]; intros st k F; [reflexivity|].
    inversion F as [|? ? Hev Hr]; subst. cbn [fold_left]. rewrite IH by exact Hr.
    apply lstep_other. exact Hev.
  Qed.

  (** A complete request whose handler is not blocked is answered by its own step, whatever
      state the other connections are in; the step touches no other connection. *)
  Lemma handle_step_answers (st : lts_state S) k req :
    plugins_total ps ->
    conn_get k (l_conns st) = Some (PComplete req) ->
    blocked req (l_env st) = false ->
    (exists d, conn_get k (l_conns (step st (EHandle k))) = Some (PReplied d) /\ status_ok d) /\
    (forall j, j <> k -> conn_get j (l_conns (step st (EHandle k))) = conn_get j (l_conns st)).
  Proof.
    intros T Hk Hb. split.
    - unfold lstep. cbn [lstep_gen]. rewrite Hk. unfold run_task. rewrite Hb.
      destruct (handle_chk_total S ps req (l_env st) T) as (hr & s' & E & St). rewrite E.
      cbn [l_conns]. exists (hr_data hr). split; [apply conn_get_set_same|exact St].
    - intros j Hj. apply lstep_other. cbn [event_conn]. congruence.
  Qed.

  Lemma never_wedged (st : lts_state S) evs k req :
    plugins_total ps ->
    conn_get k (l_conns st) = Some (PComplete req) ->
    Forall (fun ev => event_conn ev <> Some k) evs ->
    let st1 := runl st evs in
    conn_get k (l_conns st1) = Some (PComplete req) /\
    (blocked req (l_env st1) = false ->
     let st2 := step st1 (EHandle k) in
     (exists d, conn_get k (l_conns st2) = Some (PReplied d) /\ status_ok d) /\
     (forall j, j <> k -> conn_get j (l_conns st2) = conn_get j (l_conns st1))).
  Proof.
    intros T Hk F. cbn zeta.
    assert (H1 : conn_get k (l_conns (runl st evs)) = Some (PComplete req))
      by (rewrite lrun_others by exact F; exact Hk).
    split; [exact H1|]. intros Hb. exact (handle_step_answers (runl st evs) k req T H1 Hb).
  Qed.

  (** While the listener listens, a new connection is accepted and its request is read to the
      end, whatever the other connections are doing; this changes neither the listener, nor the
      state, nor any other connection. *)
  Lemma accept_not_blocked (st : lts_state S) k req :
    l_listener st = Listening -> conn_get k (l_conns st) = None ->
    let st1 := runl st [EConnect k; ESend k req; EFin k] in
    conn_get k (l_conns st1) = Some (PComplete req) /\ l_listener st1 = Listening /\ l_env st1 = l_env st /\
    (forall j, j <> k -> conn_get j (l_conns st1) = conn_get j (l_conns st)).
  Proof.
    intros Hl Hk. cbn zeta. unfold lrun, lstep. cbn [fold_left].
    assert (E1 : stepg true st (EConnect k) = with_conn st k (POpen [])).
    { cbn [lstep_gen]. rewrite Hk, Hl. reflexivity. }
    rewrite E1.
    assert (E2 : stepg true (with_conn st k (POpen [])) (ESend k req) = with_conn (with_conn st k (POpen [])) k (POpen req)).
    { cbn [lstep_gen with_conn l_conns]. rewrite conn_get_set_same. reflexivity. }
    rewrite E2.
    assert (E3 : stepg true (with_conn (with_conn st k (POpen [])) k (POpen req)) (EFin k)
                 = with_conn (with_conn (with_conn st k (POpen [])) k (POpen req)) k (PComplete req)).
    { cbn [lstep_gen with_conn l_conns]. rewrite conn_get_set_same. reflexivity. }
    rewrite E3. cbn [with_conn l_conns l_listener l_env].
    split; [apply conn_get_set_same|]. split; [exact Hl|]. split; [reflexivity|].
    intros j Hj. rewrite !conn_get_set_other by exact Hj. reflexivity.
  Qed.

  (** What clients do (connect, send, half-close, close) never changes the listener and never
      changes the state: only a response with [close], the environment, or what happens to the
      socket file does. *)
  Lemma client_events_keep_listener (st : lts_state S) ev :
    (forall k, ev <> EHandle k) -> event_conn ev <> None ->
    l_listener (step st ev) = l_listener st /\ l_env (step st ev) = l_env st.
  Proof.
    intros H1 H2. unfold lstep. destruct ev as [i|i b|i|i|e|i| | |]; cbn [lstep_gen event_conn] in *; try congruence.
    - destruct (conn_get i (l_conns st)); split; reflexivity.
    - destruct (conn_get i (l_conns st)) as [[|buf|req|d|req h]|]; split; reflexivity.
    - destruct (conn_get i (l_conns st)) as [[|buf|req|d|req h]|]; split; reflexivity.
    - exfalso. apply (H1 i). reflexivity.
    - destruct (conn_get i (l_conns st)) as [[|buf|req|d|req h]|]; split; reflexivity.
  Qed.

  (** ---- the socket file, accept errors ------------------------------------------------------------------- *)

  (** Removing the socket file and the re-listen that follows leave every connection and the state
      as they were; the listener listens again. *)
  Lemma unlink_relisten (st : lts_state S) :
    l_listener st = Listening ->
    let st1 := step st EUnlink in
    l_listener st1 = Unlinked /\ l_env st1 = l_env st /\ l_conns st1 = l_conns st /\
    step st1 ERelisten = st.
  Proof.
    intros Hl. cbn zeta. unfold lstep. cbn [lstep_gen]. rewrite Hl. cbn [with_listener l_listener l_env l_conns].
    repeat split. destruct st as [l e c]. cbn in Hl. subst l. reflexivity.
  Qed.

  (** While the file is gone nobody can connect; as soon as the path is bound again, connections are
      accepted again ([accept_not_blocked] applies: the listener is [Listening]). *)
  Lemma unlinked_refuses_then_accepts (st : lts_state S) k :
    l_listener st = Unlinked -> conn_get k (l_conns st) = None ->
    conn_get k (l_conns (step st (EConnect k))) = Some PRefused /\
    l_listener (step st ERelisten) = Listening /\ l_env (step st ERelisten) = l_env st /\
    l_conns (step st ERelisten) = l_conns st.
  Proof.
    intros Hl Hk. unfold lstep. cbn [lstep_gen]. rewrite Hk, Hl. cbn [with_conn with_listener l_conns l_listener l_env].
    split; [apply conn_get_set_same|]. repeat split.
  Qed.

  (** A failed [accept()] changes nothing ... *)
  Lemma accept_error_harmless (st : lts_state S) : step st EAcceptErr = st.
  Proof. reflexivity. Qed.

  (** ... whereas before the repair it ended the listener for good. *)
  Lemma accept_error_v0 (st : lts_state S) :
    l_listener st = Listening -> l_listener (step0 st EAcceptErr) = Closed.
  Proof. intros Hl. unfold lstep_v0. cbn [lstep_gen]. rewrite Hl. reflexivity. Qed.

  (** [Closed] is final: whatever happens afterwards (also a re-listen that was under way), nobody
      listens any more. *)
  Lemma lstep_gen_closed fixed (st : lts_state S) ev :
    l_listener st = Closed -> l_listener (stepg fixed st ev) = Closed.
  Proof.
    intros Hl. destruct ev as [i|i b|i|i|e|i| | |]; cbn [lstep_gen].
    - destruct (conn_get i (l_conns st)); exact Hl.
    - destruct (conn_get i (l_conns st)) as [[|buf|req|d|req h]|]; exact Hl.
    - destruct (conn_get i (l_conns st)) as [[|buf|req|d|req h]|]; exact Hl.
    - destruct (conn_get i (l_conns st)) as [[|buf|req|d|req [|]]|]; try exact Hl;
        unfold run_task; destruct (blocked _ _); try exact Hl;
        destruct (handle_chk ps _ (l_env st)) as [[hr s']| |]; try exact Hl;
        cbn [l_listener]; rewrite Hl; destruct (hr_close hr); reflexivity.
    - destruct (env_step e (l_env st)) as [s' c]. cbn [l_listener]. rewrite Hl. destruct c; reflexivity.
    - destruct (conn_get i (l_conns st)) as [[|buf|req|d|req h]|]; exact Hl.
    - rewrite Hl. exact Hl.
    - rewrite Hl. exact Hl.
    - destruct fixed; [exact Hl|]. rewrite Hl. exact Hl.
  Qed.

  Lemma closed_final_gen fixed evs : forall (st : lts_state S),
    l_listener st = Closed -> l_listener (fold_left (stepg fixed) evs st) = Closed.
  Proof.
    induction evs as [|ev r IH]; intros st Hl; [exact Hl|].
    cbn [fold_left]. apply IH. apply lstep_gen_closed. exact Hl.
  Qed.

  Lemma closed_final evs (st : lts_state S) :
    l_listener st = Closed -> l_listener (runl st evs) = Closed.
  Proof. apply closed_final_gen. Qed.

  (** Before the repair: one failed [accept()] and nobody listens any more, whatever happens next. *)
  Lemma accept_error_v0_final (st : lts_state S) evs :
    l_listener st = Listening ->
    l_listener (lrun_v0 ps blocked env_step ack (step0 st EAcceptErr) evs) = Closed.
  Proof. intros Hl. apply closed_final_gen. apply accept_error_v0. exact Hl. Qed.

  (** ---- post_send ------------------------------------------------------------------------------------------ *)

  (** The task of a connection whose client has gone away does what it does for a client that still
      reads: same effect of the plugin, same [close], and the [post_send] runs. *)
  Lemma task_without_client (st : lts_state S) k req hr s' :
    conn_get k (l_conns st) = Some (PGone req false) ->
    blocked req (l_env st) = false ->
    handle_chk ps req (l_env st) = Ok (hr, s') ->
    let st1 := step st (EHandle k) in
    l_env st1 = (if response_ack ps req (l_env st) then ack s' else s') /\
    l_listener st1 = (if hr_close hr then Closed else l_listener st) /\
    conn_get k (l_conns st1) = Some (PGone req true) /\
    l_env st1 = l_env (task true st k req true) /\ l_listener st1 = l_listener (task true st k req true).
  Proof.
    intros Hk Hb E. cbn zeta. unfold lstep. cbn [lstep_gen]. rewrite Hk. unfold run_task. rewrite Hb, E.
    cbn [l_env l_listener l_conns orb]. rewrite andb_true_r.
    repeat split. apply conn_get_set_same.
  Qed.

  (** Before the repair the failed write ended the task: the [post_send] did not run. *)
  Lemma task_without_client_v0 (st : lts_state S) k req hr s' :
    conn_get k (l_conns st) = Some (PGone req false) ->
    blocked req (l_env st) = false ->
    handle_chk ps req (l_env st) = Ok (hr, s') ->
    l_env (step0 st (EHandle k)) = s'.
  Proof.
    intros Hk Hb E. unfold lstep_v0. cbn [lstep_gen]. rewrite Hk. unfold run_task. rewrite Hb, E.
    cbn [l_env orb]. rewrite andb_false_r. reflexivity.
  Qed.

  (** ---- quiescence: nobody listens and every connection is finished ------------------------------------------- *)

  Definition terminal (p : conn_phase) : bool :=
    match p with PRefused | PReplied _ | PGone _ true => true | _ => false end.
  Definition quiescent (st : lts_state S) : Prop :=
    l_listener st = Closed /\ forall k p, conn_get k (l_conns st) = Some p -> terminal p = true.

  (** In a quiescent state only the environment can still change the state. *)
  Lemma quiescent_step fixed (st : lts_state S) ev :
    quiescent st ->
    quiescent (stepg fixed st ev) /\
    (l_env (stepg fixed st ev) = l_env st \/ exists e, l_env (stepg fixed st ev) = fst (env_step e (l_env st))).
  Proof.
    intros [Hl Hq].
    assert (Same : quiescent st /\ (l_env st = l_env st \/ exists e, l_env st = fst (env_step e (l_env st))))
      by (split; [split; assumption|left; reflexivity]).
    destruct ev as [i|i b|i|i|e|i| | |]; cbn [lstep_gen].
    - destruct (conn_get i (l_conns st)) eqn:G; [exact Same|].
      rewrite Hl. split; [|left; reflexivity]. split; [exact Hl|].
      intros k p. cbn [with_conn l_conns]. destruct (N.eq_dec k i) as [->|Hn].
      + rewrite conn_get_set_same. intros Hp. inversion Hp. reflexivity.
      + rewrite conn_get_set_other by exact Hn. apply Hq.
    - destruct (conn_get i (l_conns st)) as [[|buf|req|d|req h]|] eqn:G; try exact Same.
      apply Hq in G. discriminate G.
    - destruct (conn_get i (l_conns st)) as [[|buf|req|d|req h]|] eqn:G; try exact Same.
      apply Hq in G. discriminate G.
    - destruct (conn_get i (l_conns st)) as [[|buf|req|d|req [|]]|] eqn:G; try exact Same;
        apply Hq in G; discriminate G.
    - destruct (env_step e (l_env st)) as [s' c] eqn:E. split.
      + split; [cbn [l_listener]; rewrite Hl; destruct c; reflexivity|exact Hq].
      + right. exists e. rewrite E. reflexivity.
    - destruct (conn_get i (l_conns st)) as [[|buf|req|d|req h]|] eqn:G; try exact Same;
        apply Hq in G; discriminate G.
    - rewrite Hl. exact Same.
    - rewrite Hl. exact Same.
    - destruct fixed; [exact Same|]. rewrite Hl. exact Same.
  Qed.
End LtsProofs.

(** ---- kvarnctl: what is printed and the exit status -------------------------------------------------------------- *)

Lemma kvarnctl_ping S (ps : plugins S) args s :
  lookup_plugin (B "ping") ps = Some ping_plugin ->
  forallb all_scalar args = true ->
  client_outcome (Data (hr_data (fst (handle ps (utf8_encode (client_message (B "ping") args)) s))))
  = (0, utf8_encode (join_sp args) ++ [c_newline]).
Proof.
  intros Hp Hs. destruct (ping_echo_lemma S ps args s Hp Hs) as [E T]. cbn zeta in E, T.
  rewrite E. cbn [fst hr_data]. unfold client_outcome. unfold client_reply_tokens in T.
  destruct (utf8_decode _) as [line|]; [|discriminate T].
  cbn [option_map] in T. inversion T as [T']. rewrite T'. cbv beta iota. rewrite beq_refl. reflexivity.
Qed.

Lemma client_outcome_framed prepend data line :
  utf8_decode (frame prepend data) = Some line ->
  (prepend = B "ok" -> fst (client_outcome (Data (frame prepend data))) = 0) /\
  (prepend = B "error" -> client_outcome (Data (frame prepend data)) = (1, [])).
Proof.
  intros D. split; intros ->.
  - destruct (client_reads_status (B "ok") data line (or_introl eq_refl) D) as [rest R].
    unfold client_outcome. rewrite D, R. cbv beta iota. rewrite beq_refl. reflexivity.
  - destruct (client_reads_status (B "error") data line (or_intror eq_refl) D) as [rest R].
    unfold client_outcome. rewrite D, R. cbv beta iota.
    change (beq (B "error") (B "ok")) with false. cbv iota. rewrite beq_refl. reflexivity.
Qed.

Lemma kvarnctl_exit S (ps : plugins S) req s :
  let d := hr_data (fst (handle ps req s)) in
  (utf8_decode d = None -> client_outcome (Data d) = (6, [])) /\
  (utf8_decode d <> None ->
     (classify S ps req s = CPluginOk -> fst (client_outcome (Data d)) = 0) /\
     (classify S ps req s <> CPluginOk -> client_outcome (Data d) = (1, []))).
Proof.
  cbn zeta. split.
  - intros D. unfold client_outcome. rewrite D. reflexivity.
  - intros D. unfold classify, handle in *.
    destruct (utf8_decode req) as [line|].
    2:{ cbn [fst hr_data] in *. split; intros H; [discriminate H|]. vm_compute. reflexivity. }
    destruct (lookup_plugin _ ps) as [p|].
    2:{ cbn [fst hr_data] in *. split; intros H; [discriminate H|]. vm_compute. reflexivity. }
    destruct (p _ s) as [r s'] eqn:E. cbn [fst snd] in *.
    destruct (pr_kind r) as [dt|dt]; cbn [fst hr_data] in *.
    + destruct (utf8_decode (frame (B "ok") dt)) as [l|] eqn:U; [|congruence].
      destruct (client_outcome_framed (B "ok") dt l U) as [Ho _].
      split; intros H; [apply Ho; reflexivity|congruence].
    + destruct (utf8_decode (frame (B "error") dt)) as [l|] eqn:U; [|congruence].
      destruct (client_outcome_framed (B "error") dt l U) as [_ He].
      split; intros H; [discriminate H|apply He; reflexivity].
Qed.

(** ---- the fixture: a shutdown whose client has gone away still finishes -------------------------------------------- *)

Lemma fx_handle_shutdown s :
  handle_chk fx_plugins_chk (B "shutdown") s
  = Ok ({| hr_data := B "ok 'Successfully completed a graceful shutdown.'"; hr_close := true |}, fx_shutdown_effect false s).
Proof. reflexivity. Qed.

Lemma fx_ack_shutdown s : response_ack fx_plugins_chk (B "shutdown") s = true.
Proof. reflexivity. Qed.

Lemma fx_shutdown_without_client (st : lts_state fx_state) k :
  conn_get k (l_conns st) = Some (PGone (B "shutdown") false) ->
  fx_acks (l_env st) = 0 ->
  fx_finished (l_env (fx_lstep st (EHandle k))) = true /\ l_listener (fx_lstep st (EHandle k)) = Closed.
Proof.
  intros Hk Ha. unfold fx_lstep.
  destruct (task_without_client fx_state fx_plugins_chk fx_blocked fx_env_step fx_ack st k (B "shutdown") _ _ Hk eq_refl
              (fx_handle_shutdown (l_env st))) as (He & Hl & _).
  cbn zeta in He, Hl. rewrite He, Hl, fx_ack_shutdown. split; [|reflexivity].
  unfold fx_finished, fx_ack, fx_shutdown_effect, fx_set_acks, fx_set_shutdown. cbn [fx_shutdown fx_acks andb].
  rewrite Ha. reflexivity.
Qed.

Lemma fx_env_step_acks e s : fx_acks (fst (fx_env_step e s)) = fx_acks s.
Proof. unfold fx_env_step. destruct (e =? 0); reflexivity. Qed.

Lemma fx_quiescent_acks fixed evs : forall (st : lts_state fx_state),
  quiescent fx_state st ->
  fx_acks (l_env (fold_left (lstep_gen fx_plugins_chk fx_blocked fx_env_step fx_ack fixed) evs st)) = fx_acks (l_env st).
Proof.
  induction evs as [|ev r IH]; intros st Q; [reflexivity|].
  cbn [fold_left].
  destruct (quiescent_step fx_state fx_plugins_chk fx_blocked fx_env_step fx_ack fixed st ev Q) as [Q' [E|[e E]]].
  - rewrite IH by exact Q'. rewrite E. reflexivity.
  - rewrite IH by exact Q'. rewrite E. apply fx_env_step_acks.
Qed.

(** Before the repair: a [shutdown] whose client went away before the reply could be written left
    the instance shut down but never finished, whatever happened afterwards. *)
Lemma fx_shutdown_hangs_v0 :
  exists evs, let st := lrun_v0 fx_plugins_chk fx_blocked fx_env_step fx_ack (lts_init fx_init) evs in
    fx_shutdown (l_env st) = true /\
    forall evs', fx_finished (l_env (lrun_v0 fx_plugins_chk fx_blocked fx_env_step fx_ack st evs')) = false.
Proof.
  exists [EConnect 1; ESend 1 (B "shutdown"); EDrop 1; EHandle 1]. cbn zeta.
  set (st := lrun_v0 fx_plugins_chk fx_blocked fx_env_step fx_ack (lts_init fx_init)
               [EConnect 1; ESend 1 (B "shutdown"); EDrop 1; EHandle 1]).
  assert (Est : st = {| l_listener := Closed; l_env := fx_shutdown_effect false fx_init;
                        l_conns := [(1, PGone (B "shutdown") true)] |}) by reflexivity.
  split; [rewrite Est; reflexivity|].
  intros evs'. unfold lrun_v0, lstep_v0.
  assert (Q : quiescent fx_state st).
  { rewrite Est. split; [reflexivity|]. intros k p. cbn [l_conns conn_get].
    destruct (1 =? k); [|discriminate]. intros H. inversion H. reflexivity. }
  unfold fx_finished. rewrite (fx_quiescent_acks false evs' st Q). rewrite Est. cbn [l_env].
  change (fx_acks (fx_shutdown_effect false fx_init)) with 1. rewrite andb_false_r. reflexivity.
Qed.

(** ... and the same history with the repaired task finishes. *)
Lemma fx_shutdown_finishes_fixed :
  fx_finished (l_env (lrun fx_plugins_chk fx_blocked fx_env_step fx_ack (lts_init fx_init)
                        [EConnect 1; ESend 1 (B "shutdown"); EDrop 1; EHandle 1])) = true.
Proof. reflexivity. Qed.

(** Before its repair [wait] panicked once the shutdown had collected its acknowledgements: a request
    that was accepted before the shutdown and handled after it got an empty reply (the task died);
    the repaired plugin answers [ok]. *)
Lemma fx_wait_after_shutdown_v0 :
  let evs := [EConnect 1; EConnect 2; ESend 2 (B "shutdown"); EFin 2; EHandle 2; ESend 1 (B "wait"); EFin 1; EHandle 1] in
  conn_get 1 (l_conns (lrun fx_plugins_chk_v0 fx_blocked fx_env_step fx_ack (lts_init fx_init) evs)) = Some (PReplied []) /\
  conn_get 1 (l_conns (lrun fx_plugins_chk fx_blocked fx_env_step fx_ack (lts_init fx_init) evs)) = Some (PReplied (B "ok")) /\
  ~ plugins_total fx_plugins_chk_v0.
Proof.
  cbn zeta. split; [vm_compute; reflexivity|]. split; [vm_compute; reflexivity|].
  intros T. destruct (T (B "wait") wait_plugin_v0 eq_refl [] (fx_shutdown_effect true fx_init)) as [r E].
  vm_compute in E. discriminate E.
Qed.

(** ================================================================================================
    The accept loop with its channel ([loop_step]): a close is final whenever it arrives -- also
    between the removal of the socket file and the re-listen
    ================================================================================================ *)

Lemma existsb_id_app a b : existsb (fun c : bool => c) (a ++ b) = existsb (fun c => c) a || existsb (fun c => c) b.
Proof. apply existsb_app. Qed.

(** the emptying loop of the code breaks out exactly when a close is in the channel *)
Lemma drain_id_spec ch :
  match drain (fun c => c) ch with
  | Some _ => existsb (fun c => c) ch = true
  | None => existsb (fun c => c) ch = false
  end.
Proof.
  induction ch as [|c r IH]; [reflexivity|].
  cbn [drain existsb]. destruct c; [reflexivity|]. cbn [orb]. exact IH.
Qed.

(** every step keeps a pending close pending (in EVERY state, reachable or not) *)
Lemma loop_step_close_pending st ev : close_pending st = true -> close_pending (loop_step st ev) = true.
Proof.
  destruct st as [pc ch f]. unfold close_pending, loop_step, loop_step_gen. cbn [lp_pc lp_chan lp_file].
  intros H. destruct ev.
  - exact H.
  - destruct f; cbn [lp_pc lp_chan]; [exact H|].
    destruct pc; try reflexivity; rewrite existsb_id_app, H; reflexivity.
  - cbn [lp_pc lp_chan]. destruct pc; try reflexivity; rewrite existsb_id_app, H; reflexivity.
  - destruct pc.
    + destruct ch as [|[|] r]; cbn [lp_pc lp_chan]; [discriminate H|reflexivity|exact H].
    + pose proof (drain_id_spec ch) as D. destruct (drain (fun c => c) ch); [reflexivity|]. congruence.
    + reflexivity.
Qed.

Lemma loop_close_final evs : forall st, close_pending st = true -> close_pending (loop_run st evs) = true.
Proof.
  unfold loop_run. induction evs as [|ev r IH]; intros st H; [exact H|].
  cbn [fold_left]. apply IH. apply loop_step_close_pending. exact H.
Qed.

(** with a close pending nobody is ever bound to the path again: the loop is at most two of its own
    steps away from [LStopped] (receive the [false], then find the close while emptying the channel),
    whatever else happens in between, and it never leaves [LStopped] *)
Definition loop_steps_left (st : loop_state) : nat :=
  match lp_pc st with LStopped => 0 | LPause => 1 | LAccept => 2 end.
Definition is_floop (ev : loop_event) : bool := match ev with FLoop => true | _ => false end.

Lemma loop_step_progress st ev :
  close_pending st = true ->
  (loop_steps_left (loop_step st ev) <= loop_steps_left st - (if is_floop ev then 1 else 0))%nat.
Proof.
  destruct st as [pc ch f]. unfold close_pending, loop_steps_left, loop_step, loop_step_gen.
  cbn [lp_pc lp_chan lp_file]. intros H. destruct ev; cbn [is_floop].
  - cbn [lp_pc]. lia.
  - destruct f; cbn [lp_pc]; lia.
  - cbn [lp_pc]. lia.
  - destruct pc.
    + destruct ch as [|[|] r]; cbn [lp_pc]; [discriminate H|lia|lia].
    + pose proof (drain_id_spec ch) as D. destruct (drain (fun c => c) ch); cbn [lp_pc]; [lia|congruence].
    + cbn [lp_pc]. lia.
Qed.

Lemma loop_stops_after_close evs : forall st,
  close_pending st = true ->
  (loop_steps_left (loop_run st evs) <= loop_steps_left st - length (filter is_floop evs))%nat.
Proof.
  unfold loop_run. induction evs as [|ev r IH]; intros st H; [cbn; lia|].
  cbn [fold_left filter].
  pose proof (loop_step_progress st ev H) as P.
  pose proof (IH (loop_step st ev) (loop_step_close_pending st ev H)) as Q.
  destruct (is_floop ev); cbn [length]; lia.
Qed.

Lemma loop_stopped_of_left st : loop_steps_left st = 0%nat -> lp_pc st = LStopped.
Proof. unfold loop_steps_left. destruct (lp_pc st); [discriminate|discriminate|reflexivity]. Qed.

Lemma loop_close_stops st evs :
  close_pending st = true -> (2 <= length (filter is_floop evs))%nat ->
  lp_pc (loop_run st evs) = LStopped /\ connectable (loop_run st evs) = false.
Proof.
  intros H L. pose proof (loop_stops_after_close evs st H) as P.
  assert (B : (loop_steps_left st <= 2)%nat) by (unfold loop_steps_left; destruct (lp_pc st); lia).
  assert (E : lp_pc (loop_run st evs) = LStopped) by (apply loop_stopped_of_left; lia).
  split; [exact E|]. unfold connectable. rewrite E. reflexivity.
Qed.

(** ... and once the listener has been dropped with a close pending, the loop never gets back to
    [accept()]: a CLOSED instance does not bind the path again *)
Lemma loop_never_rebinds st evs :
  close_pending st = true -> lp_pc st <> LAccept ->
  lp_pc (loop_run st evs) <> LAccept /\ connectable (loop_run st evs) = false.
Proof.
  intros H Hp. pose proof (loop_stops_after_close evs st H) as P.
  assert (B : (loop_steps_left st <= 1)%nat) by (unfold loop_steps_left; destruct (lp_pc st); [congruence|lia|lia]).
  assert (Q : (loop_steps_left (loop_run st evs) <= 1)%nat) by lia.
  unfold loop_steps_left in Q. unfold connectable.
  destruct (lp_pc (loop_run st evs)); [lia| |]; split; (discriminate || reflexivity).
Qed.

(** the invariant of the reachable states *)
Lemma loop_inv_init : loop_inv loop_init.
Proof. split; [intros []|discriminate]. Qed.

Lemma loop_inv_step st ev : loop_inv st -> loop_inv (loop_step st ev).
Proof.
  destruct st as [pc ch f]. unfold loop_inv, loop_step, loop_step_gen. cbn [lp_pc lp_chan lp_file].
  intros [I1 I2]. destruct ev.
  - cbn [lp_pc lp_chan lp_file]. split; reflexivity.
  - destruct f eqn:F; cbn [lp_pc lp_chan lp_file]; [split; assumption|]. split; reflexivity.
  - cbn [lp_pc lp_chan lp_file]. split; [|exact I2].
    intros H. apply in_app_or in H as [H|[H|[]]]; [exact (I1 H)|discriminate H].
  - destruct pc.
    + destruct ch as [|[|] r]; cbn [lp_pc lp_chan lp_file].
      * split; assumption.
      * split; [|discriminate]. intros H. apply I1. right. exact H.
      * split; intros _; apply I1; left; reflexivity.
    + destruct (drain (fun c => c) ch) as [r|] eqn:D; cbn [lp_pc lp_chan lp_file].
      * split; [|discriminate]. intros _. apply I2. reflexivity.
      * rewrite (I2 eq_refl). cbn [lp_pc lp_chan lp_file]. split; [intros []|discriminate].
    + split; assumption.
Qed.

Lemma loop_inv_run evs : forall st, loop_inv st -> loop_inv (loop_run st evs).
Proof.
  unfold loop_run. induction evs as [|ev r IH]; intros st H; [exact H|].
  cbn [fold_left]. apply IH. apply loop_inv_step. exact H.
Qed.

(** after the pause the path can always be bound ([Err(_) => return] is not reachable) *)
Lemma loop_rebind_succeeds st :
  loop_inv st -> lp_pc st = LPause -> close_pending st = false ->
  loop_step st FLoop = {| lp_pc := LAccept; lp_chan := []; lp_file := true |}.
Proof.
  destruct st as [pc ch f]. unfold loop_inv, close_pending, loop_step, loop_step_gen. cbn [lp_pc lp_chan lp_file].
  intros [_ I2] -> H. pose proof (drain_id_spec ch) as D.
  destruct (drain (fun c => c) ch); [congruence|]. rewrite (I2 eq_refl). reflexivity.
Qed.

(** Forward simulation: every step of the loop is zero or one step of the coarse listener
    ([EUnlink] for the removal, [ERelisten] for the successful re-bind, a closing event for a close
    that is sent), seen through [loop_listener]. *)
Lemma loop_simulates st ev :
  loop_inv st ->
  l_listener (fold_left coarse_step (coarse_events st ev) (coarse_of st)) = loop_listener (loop_step st ev).
Proof.
  destruct st as [pc ch f]. unfold loop_inv. cbn [lp_pc lp_chan lp_file]. intros [I1 I2].
  unfold coarse_events, coarse_of, coarse_step, lstep, loop_listener, close_pending, loop_step, loop_step_gen.
  cbn [lp_pc lp_chan lp_file].
  destruct ev; cbn [fold_left lstep_gen l_listener l_env with_listener lp_pc lp_chan lp_file].
  - (* FRemove *)
    destruct pc; cbn [lp_pc lp_chan lp_file].
    + destruct (existsb (fun c => c) ch); [reflexivity|]. destruct f; reflexivity.
    + destruct (existsb (fun c => c) ch); reflexivity.
    + reflexivity.
  - (* FWatch *)
    destruct f; cbn [lp_pc lp_chan lp_file]; [reflexivity|].
    destruct pc; try reflexivity; rewrite existsb_id_app; cbn [existsb orb]; rewrite orb_false_r; reflexivity.
  - (* FClose *)
    destruct pc; cbn [lp_pc lp_chan lp_file]; try reflexivity;
      rewrite existsb_id_app; cbn [existsb orb]; rewrite orb_true_r;
      destruct (existsb (fun c => c) ch); try destruct f; reflexivity.
  - (* FLoop *)
    destruct pc; cbn [lp_pc lp_chan lp_file].
    + destruct ch as [|[|] r]; cbn [fold_left lp_pc lp_chan lp_file existsb orb l_listener]; try reflexivity.
      assert (F : f = false) by (apply I1; left; reflexivity). subst f.
      destruct (existsb (fun c => c) r); reflexivity.
    + pose proof (drain_id_spec ch) as D.
      destruct (drain (fun c => c) ch) as [r|]; rewrite D; cbn [fold_left lp_pc lp_chan lp_file l_listener]; [reflexivity|].
      rewrite (I2 eq_refl). cbn [lstep_gen l_listener with_listener lp_pc lp_chan lp_file existsb]. reflexivity.
    + reflexivity.
Qed.

(** The same history with the emptying loop's test negated: the close that arrives during the pause
    is thrown away and the CLOSED instance is bound to the path again. *)
Lemma loop_negated_test_rebinds :
  let evs := [FRemove; FWatch; FLoop; FClose; FLoop; FLoop] in
  connectable (fold_left loop_step_neg evs loop_init) = true /\
  lp_chan (fold_left loop_step_neg evs loop_init) = [] /\
  lp_pc (loop_run loop_init evs) = LStopped /\
  close_pending (loop_run loop_init [FRemove; FWatch; FLoop; FClose]) = true /\
  lp_pc (loop_run loop_init [FRemove; FWatch; FLoop; FClose]) = LPause.
Proof. repeat split. Qed.

(** ---- the coarse listener: a closing response between the removal and the re-listen ---------------- *)
Section CloseWhileUnlinked.
  Variable S : Type.
  Variable ps : plugins_chk S.
  Variable blocked : bytes -> S -> bool.
  Variable env_step : N -> S -> S * bool.
  Variable ack : S -> S.

  (** A request whose response closes, handled in ANY state of the listener (in particular [Unlinked]:
      the file is gone, the path not yet bound again): its client gets the reply, and from then on
      nobody listens, whatever follows -- also the [ERelisten] that was under way. *)
  Lemma closing_response_final (st : lts_state S) k req hr s' evs :
    conn_get k (l_conns st) = Some (PComplete req) ->
    blocked req (l_env st) = false ->
    handle_chk ps req (l_env st) = Ok (hr, s') -> hr_close hr = true ->
    let st1 := lstep ps blocked env_step ack st (EHandle k) in
    conn_get k (l_conns st1) = Some (PReplied (hr_data hr)) /\
    l_listener (lrun ps blocked env_step ack st1 evs) = Closed /\
    forall j, conn_get j (l_conns (lrun ps blocked env_step ack st1 evs)) = None ->
              conn_get j (l_conns (lstep ps blocked env_step ack (lrun ps blocked env_step ack st1 evs) (EConnect j))) = Some PRefused.
  Proof.
    intros Hk Hb E Hc. cbn zeta.
    assert (E1 : lstep ps blocked env_step ack st (EHandle k)
                 = {| l_listener := Closed; l_env := if response_ack ps req (l_env st) && true then ack s' else s';
                      l_conns := conn_set k (PReplied (hr_data hr)) (l_conns st) |}).
    { unfold lstep. cbn [lstep_gen]. rewrite Hk. unfold run_task. rewrite Hb, E, Hc. reflexivity. }
    rewrite E1. split; [cbn [l_conns]; apply conn_get_set_same|].
    assert (C : l_listener (lrun ps blocked env_step ack
                  {| l_listener := Closed; l_env := if response_ack ps req (l_env st) && true then ack s' else s';
                     l_conns := conn_set k (PReplied (hr_data hr)) (l_conns st) |} evs) = Closed)
      by (apply closed_final; reflexivity).
    split; [exact C|]. intros j Hj. unfold lstep. cbn [lstep_gen]. rewrite Hj, C.
    cbn [with_conn l_conns]. apply conn_get_set_same.
  Qed.

  (** the same for a close from outside the socket ([Manager::shutdown]) *)
  Lemma env_close_final (st : lts_state S) e evs :
    snd (env_step e (l_env st)) = true ->
    l_listener (lrun ps blocked env_step ack (lstep ps blocked env_step ack st (EEnv e)) evs) = Closed.
  Proof.
    intros H. apply closed_final. unfold lstep. cbn [lstep_gen].
    destruct (env_step e (l_env st)) as [s' c]. cbn [snd] in H. subst c. reflexivity.
  Qed.
End CloseWhileUnlinked.
