(** C07 — [Http1Body] as an [AsyncRead]: whatever sequence of [read] calls a handler makes, with whatever window
    sizes, over whatever segmentation, it is handed a prefix of the declared body and not a byte of what follows;
    with enough reads it gets all of it, then end of file; [drain] leaves the connection at the next request. *)
From KV Require Export Bytes RustInt Http1Read Http1ReadProofs Http1ReadParseProofs.
From Coq Require Import ZifyBool ZifyNat ZifyN.
Open Scope N_scope.
Local Open Scope nat_scope.

(** what is true of the body's state and of the connection between two calls *)
Definition hb_inv (early : bytes) (cl : nat) (stream : bytes) (b : hbody) (r : reader) : Prop :=
  hb_bytes b = early /\ hb_cl b = cl /\ hb_offset b <= cl /\
  rd_data r = skipn (hb_offset b - length early) stream /\
  hb_unread b = cl - length early - (hb_offset b - length early).

Lemma hb_inv_new early cl stream sched : hb_inv early cl stream (hb_new early cl) (mk_reader stream sched).
Proof. unfold hb_inv, hb_new. cbn [hb_bytes hb_cl hb_offset hb_unread rd_data Nat.sub skipn]. repeat split; lia. Qed.

Lemma skipn_app_le {A} (a b : list A) n : n <= length a -> skipn n (a ++ b) = skipn n a ++ b.
Proof. intros H. rewrite skipn_app. replace (n - length a) with 0 by lia. reflexivity. Qed.

Lemma skipn_app_ge {A} (a b : list A) n : length a <= n -> skipn n (a ++ b) = skipn (n - length a) b.
Proof. intros H. rewrite skipn_app, skipn_all2 by lia. reflexivity. Qed.

Lemma firstn_app_le {A} (a b : list A) n : n <= length a -> firstn n (a ++ b) = firstn n a.
Proof. intros H. rewrite firstn_app. replace (n - length a) with 0 by lia. cbn [firstn]. apply app_nil_r. Qed.

(** one [read]: the bytes handed out are the next bytes of [early ++ stream], the offset moves by as many *)
Lemma hb_read_step mode early cl stream b r w got b' r' :
  hb_inv early cl stream b r -> hb_read mode b r w = Ok (got, b', r') ->
  hb_inv early cl stream b' r' /\ hb_offset b' = hb_offset b + length got /\ length got <= w /\
  got = firstn (length got) (skipn (hb_offset b) (early ++ stream)).
Proof.
  intros [Hb [Hc [Ho [Hd Hu]]]] H. unfold hb_read in H. rewrite Hb, Hc in H.
  destruct (Nat.eqb (cl - hb_offset b) 0) eqn:E0.
  { inversion H; subst got b' r'. cbn [length firstn]. rewrite Nat.add_0_r.
    split; [unfold hb_inv; repeat split; assumption|]. split; [reflexivity|]. split; [lia|reflexivity]. }
  apply Nat.eqb_neq in E0.
  destruct (Nat.ltb (hb_offset b) (length early)) eqn:E1.
  - apply Nat.ltb_lt in E1.
    set (n := Nat.min (Nat.min w (length early - hb_offset b)) (cl - hb_offset b)) in *.
    inversion H; subst got b' r'. clear H.
    assert (Hn : n <= length early - hb_offset b) by (subst n; lia).
    assert (Hl : length (firstn n (skipn (hb_offset b) early)) = n) by (rewrite firstn_length, skipn_length; lia).
    rewrite Hl. cbn [hb_offset hb_bytes hb_cl hb_unread].
    split.
    + unfold hb_inv. cbn [hb_offset hb_bytes hb_cl hb_unread].
      split; [first [reflexivity|exact Hb]|]. split; [first [reflexivity|exact Hc]|]. split; [subst n; lia|].
      split; [rewrite Hd; f_equal; lia|rewrite Hu; lia].
    + split; [reflexivity|]. split; [subst n; lia|].
      rewrite skipn_app_le by lia. rewrite firstn_app_le by (rewrite skipn_length; lia). reflexivity.
  - apply Nat.ltb_ge in E1.
    pose proof (rd_read_any mode r (Nat.min w (cl - hb_offset b))) as Hany.
    destruct (rd_read mode r (Nat.min w (cl - hb_offset b))) as [g r1| |]; [|discriminate|discriminate].
    inversion H; subst got b' r'. clear H.
    destruct Hany as [n [Hg [Hgl [Hn1 [Hn2 [Hn3 [Hd' Hs']]]]]]].
    cbn [hb_offset hb_bytes hb_cl hb_unread]. rewrite Hgl.
    split.
    + unfold hb_inv. cbn [hb_offset hb_bytes hb_cl hb_unread].
      split; [first [reflexivity|exact Hb]|]. split; [first [reflexivity|exact Hc]|]. split; [lia|].
      split; [rewrite Hd', Hd, skipn_skipn_add; f_equal; lia|rewrite Hu; lia].
    + split; [reflexivity|]. split; [lia|].
      rewrite skipn_app_ge by lia. rewrite <- Hd. exact Hg.
Qed.

(** any sequence of reads *)
Lemma hb_reads_inv mode early cl stream : forall ws b r data b' r' e,
  hb_inv early cl stream b r -> hb_reads mode b r ws = (data, b', r', e) ->
  hb_inv early cl stream b' r' /\ hb_offset b' = hb_offset b + length data /\
  data = firstn (length data) (skipn (hb_offset b) (early ++ stream)).
Proof.
  induction ws as [|w ws IH]; intros b r data b' r' e Hinv H; cbn [hb_reads] in H.
  { inversion H; subst. cbn [length firstn]. rewrite Nat.add_0_r. repeat split; try assumption; apply Hinv. }
  destruct (hb_read mode b r w) as [[[got b1] r1]|e1|] eqn:Er.
  - destruct (hb_read_step mode early cl stream b r w got b1 r1 Hinv Er) as [Hinv1 [Ho1 [_ Hg1]]].
    destruct (hb_reads mode b1 r1 ws) as [[[data2 b2] r2] e2] eqn:Ers.
    inversion H; subst data b' r' e. clear H.
    destruct (IH b1 r1 data2 b2 r2 e2 Hinv1 Ers) as [Hinv2 [Ho2 Hg2]].
    split; [exact Hinv2|]. rewrite app_length. split; [lia|].
    rewrite Hg1 at 1. rewrite Hg2 at 1. rewrite Ho1, <- skipn_skipn_add. apply firstn_skipn_add.
  - inversion H; subst. cbn [length firstn]. rewrite Nat.add_0_r. repeat split; try assumption; apply Hinv.
  - inversion H; subst. cbn [length firstn]. rewrite Nat.add_0_r. repeat split; try assumption; apply Hinv.
Qed.

(** The cap: for EVERY sequence of window sizes, every stream, every schedule (zero-length bursts included), every end
    mode: what the reads hand out is a prefix of the declared body, the connection has lost exactly the part of it that
    did not come with the head, and [unread] says how much of it is still there. *)
Lemma body_read_capped_lemma : forall mode early cl stream sched ws data b' r' e,
  hb_reads mode (hb_new early cl) (mk_reader stream sched) ws = (data, b', r', e) ->
  data = firstn (length data) (firstn cl (early ++ stream)) /\ length data <= cl /\
  rd_data r' = skipn (length data - length early) stream /\
  hb_unread b' = cl - length early - (length data - length early).
Proof.
  intros mode early cl stream sched ws data b' r' e H.
  destruct (hb_reads_inv mode early cl stream ws _ _ _ _ _ _ (hb_inv_new early cl stream sched) H) as [Hinv [Ho Hd]].
  cbn [hb_new hb_offset skipn Nat.add] in Ho, Hd.
  destruct Hinv as [_ [_ [Hle [Hrd Hu]]]]. rewrite Ho in *.
  split; [rewrite firstn_firstn; replace (Nat.min (length data) cl) with (length data) by lia; exact Hd|].
  repeat split; assumption.
Qed.

(** * With enough reads: the whole body, then end of file *)

Definition hb_inv2 (early : bytes) (cl : nat) (S : bytes) (d : nat) (b : hbody) (r : reader) : Prop :=
  hb_inv early cl S b r /\ rd_at S d (hb_offset b - length early) r.

Lemma hb_read_progress mode early cl S d b r w :
  hb_inv2 early cl S d b r -> 0 < w -> cl <= length early + d -> hb_offset b < cl ->
  exists got b' r', hb_read mode b r w = Ok (got, b', r') /\ 0 < length got /\ hb_inv2 early cl S d b' r'.
Proof.
  intros [Hinv Hat] Hw Hd Hlt.
  assert (Hinv' := Hinv). destruct Hinv' as [Hb [Hc [Ho [Hrd Hu]]]].
  destruct (Nat.ltb (hb_offset b) (length early)) eqn:E1.
  - apply Nat.ltb_lt in E1.
    destruct (hb_read mode b r w) as [[[got b1] r1]|e1|] eqn:Er.
    + destruct (hb_read_step mode early cl S b r w got b1 r1 Hinv Er) as [Hinv1 [Ho1 [_ Hg1]]].
      assert (Hr1 : r1 = r /\ length got = Nat.min (Nat.min w (length early - hb_offset b)) (cl - hb_offset b)).
      { unfold hb_read in Er. rewrite Hb, Hc in Er.
        destruct (Nat.eqb (cl - hb_offset b) 0) eqn:E0; [apply Nat.eqb_eq in E0; lia|].
        replace (Nat.ltb (hb_offset b) (length early)) with true in Er by (symmetry; apply Nat.ltb_lt; exact E1).
        inversion Er; subst. split; [reflexivity|]. rewrite firstn_length, skipn_length. lia. }
      destruct Hr1 as [-> Hgl]. exists got, b1, r. split; [reflexivity|]. split; [lia|].
      split; [exact Hinv1|]. rewrite Ho1. replace (hb_offset b + length got - length early) with (hb_offset b - length early) by lia.
      exact Hat.
    + exfalso. unfold hb_read in Er. rewrite Hb, Hc in Er.
      destruct (Nat.eqb (cl - hb_offset b) 0); [discriminate|].
      replace (Nat.ltb (hb_offset b) (length early)) with true in Er by (symmetry; apply Nat.ltb_lt; exact E1). discriminate.
    + exfalso. unfold hb_read in Er. rewrite Hb, Hc in Er.
      destruct (Nat.eqb (cl - hb_offset b) 0); [discriminate|].
      replace (Nat.ltb (hb_offset b) (length early)) with true in Er by (symmetry; apply Nat.ltb_lt; exact E1). discriminate.
  - apply Nat.ltb_ge in E1.
    pose proof (rd_at_avail _ _ _ _ Hat) as Hav.
    assert (Hp : sched_pos (rd_sched r)) by (destruct Hat as [_ [? _]]; assumption).
    destruct (rd_read_pos mode r (Nat.min w (cl - hb_offset b)) Hp ltac:(lia) ltac:(lia))
      as [n [r1 [Hrd1 [Hn0 [Hn1 [Hn2 [Hd1 [Hp1 Hs1]]]]]]]].
    assert (Er : hb_read mode b r w =
                 Ok (firstn n (rd_data r), mk_hbody (hb_bytes b) (hb_offset b + length (firstn n (rd_data r))) (hb_cl b)
                                                     (hb_unread b - length (firstn n (rd_data r))), r1)).
    { unfold hb_read. rewrite Hb, Hc.
      destruct (Nat.eqb (cl - hb_offset b) 0) eqn:E0; [apply Nat.eqb_eq in E0; lia|].
      replace (Nat.ltb (hb_offset b) (length early)) with false by (symmetry; apply Nat.ltb_ge; exact E1).
      rewrite Hrd1. reflexivity. }
    assert (Hgl : length (firstn n (rd_data r)) = n).
    { rewrite firstn_length. unfold avail in Hn2. lia. }
    eexists. eexists. exists r1. split; [exact Er|]. split; [lia|].
    destruct (hb_read_step mode early cl S b r w _ _ _ Hinv Er) as [Hinv1 [Ho1 _]].
    split; [exact Hinv1|]. rewrite Ho1, Hgl.
    replace (hb_offset b + n - length early) with (hb_offset b - length early + n) by lia.
    apply (rd_at_step _ _ _ r n r1 Hat Hn2 Hd1 Hp1 Hs1).
Qed.

Lemma hb_reads_progress mode early cl S d : forall ws b r,
  hb_inv2 early cl S d b r -> Forall (fun w => 0 < w) ws -> cl <= length early + d ->
  exists data b' r', hb_reads mode b r ws = (data, b', r', None) /\ hb_inv2 early cl S d b' r' /\
                     Nat.min (hb_offset b + length ws) cl <= hb_offset b'.
Proof.
  induction ws as [|w ws IH]; intros b r Hinv Hws Hd.
  { exists [], b, r. cbn [hb_reads length]. split; [reflexivity|]. split; [exact Hinv|]. lia. }
  inversion Hws as [|w' ws' Hw Hws']; subst w' ws'.
  destruct (Nat.lt_ge_cases (hb_offset b) cl) as [Hlt|Hge].
  - destruct (hb_read_progress mode early cl S d b r w Hinv Hw Hd Hlt) as [got [b1 [r1 [Er [Hg Hinv1]]]]].
    destruct (IH b1 r1 Hinv1 Hws' Hd) as [data [b2 [r2 [Ers [Hinv2 Ho2]]]]].
    exists (got ++ data), b2, r2. cbn [hb_reads]. rewrite Er, Ers. split; [reflexivity|]. split; [exact Hinv2|].
    destruct Hinv as [Hi _].
    destruct (hb_read_step mode early cl S b r w got b1 r1 Hi Er) as [_ [Ho1 _]]. cbn [length]. lia.
  - (* the body has been handed out: end of file, the connection is not touched *)
    assert (Er : hb_read mode b r w = Ok ([], b, r)).
    { unfold hb_read. destruct Hinv as [[Hb [Hc [Ho _]]] _]. rewrite Hc.
      replace (Nat.eqb (cl - hb_offset b) 0) with true by (symmetry; apply Nat.eqb_eq; lia). reflexivity. }
    destruct (IH b r Hinv Hws' Hd) as [data [b2 [r2 [Ers [Hinv2 Ho2]]]]].
    exists data, b2, r2. cbn [hb_reads]. rewrite Er, Ers. split; [reflexivity|]. split; [exact Hinv2|].
    destruct Hinv2 as [[_ [_ [Ho _]]] _]. lia.
Qed.

(** Enough reads with non-empty windows over a connection that delivers the body: exactly the declared body, in order,
    nothing else; the connection keeps everything behind it. *)
Lemma body_read_complete_lemma : forall mode early cl stream sched ws,
  sched_pos sched -> Forall (fun w => 0 < w) ws -> cl <= length ws ->
  cl <= length early + Nat.min (sum_sched sched) (length stream) ->
  exists b' r', hb_reads mode (hb_new early cl) (mk_reader stream sched) ws = (firstn cl (early ++ stream), b', r', None) /\
                rd_data r' = skipn (cl - length early) stream /\ hb_unread b' = 0 /\
                (forall w, hb_read mode b' r' w = Ok ([], b', r')).
Proof.
  intros mode early cl stream sched ws Hp Hws Hlen Hd.
  set (d := Nat.min (sum_sched sched) (length stream)) in *.
  assert (Hinv : hb_inv2 early cl stream d (hb_new early cl) (mk_reader stream sched)).
  { split; [apply hb_inv_new|]. cbn [hb_new hb_offset Nat.sub]. apply rd_at_start. exact Hp. }
  destruct (hb_reads_progress mode early cl stream d ws _ _ Hinv Hws Hd) as [data [b' [r' [Hr [Hinv' Ho]]]]].
  cbn [hb_new hb_offset Nat.add] in Ho.
  destruct (body_read_capped_lemma mode early cl stream sched ws data b' r' None Hr) as [Hdata [Hdl [Hrd Hu]]].
  destruct Hinv' as [[Hb [Hc [Hle _]]] _].
  destruct (hb_reads_inv mode early cl stream ws _ _ _ _ _ _ (hb_inv_new early cl stream sched) Hr) as [_ [Ho' _]].
  cbn [hb_new hb_offset Nat.add] in Ho'.
  assert (Hl : length data = cl) by lia.
  assert (Hfl : length (firstn cl (early ++ stream)) = cl).
  { rewrite firstn_length, app_length. lia. }
  exists b', r'. rewrite Hl in *. split; [|split; [exact Hrd|split; [lia|]]].
  - rewrite Hr. f_equal. f_equal. f_equal. rewrite Hdata. rewrite <- Hfl at 1. apply firstn_all.
  - intros w. unfold hb_read. rewrite Hc. replace (Nat.eqb (cl - hb_offset b') 0) with true by (symmetry; apply Nat.eqb_eq; lia). reflexivity.
Qed.

(** * [drain] *)

Lemma drain_loop_exact mode S d : forall fuel unread p r,
  rd_at S d p r -> unread < fuel -> unread <= d - p ->
  exists r', drain_loop fuel mode unread r = Ok r' /\ rd_at S d (p + unread) r'.
Proof.
  induction fuel as [|f IH]; intros unread p r Hat Hf Hu; [lia|].
  cbn [drain_loop]. destruct (Nat.eqb unread 0) eqn:E0.
  { apply Nat.eqb_eq in E0. subst unread. exists r. rewrite Nat.add_0_r. split; [reflexivity|exact Hat]. }
  apply Nat.eqb_neq in E0.
  pose proof (rd_at_avail _ _ _ _ Hat) as Hav.
  assert (Hp : sched_pos (rd_sched r)) by (destruct Hat as [_ [? _]]; assumption).
  assert (H4 : 0 < N.to_nat 4096) by lia.
  destruct (rd_read_pos mode r (Nat.min (N.to_nat 4096) unread) Hp ltac:(lia) ltac:(lia))
    as [n [r1 [Hrd1 [Hn0 [Hn1 [Hn2 [Hd1 [Hp1 Hs1]]]]]]]].
  rewrite Hrd1.
  assert (Hgl : length (firstn n (rd_data r)) = n) by (rewrite firstn_length; unfold avail in Hn2; lia).
  assert (Hnull : null (firstn n (rd_data r)) = false) by (apply null_false_length; lia).
  rewrite Hnull, Hgl.
  pose proof (rd_at_step _ _ _ r n r1 Hat Hn2 Hd1 Hp1 Hs1) as Hat1.
  destruct (IH (unread - n) (p + n) r1 Hat1 ltac:(lia) ltac:(lia)) as [r' [Hdr Hat']].
  exists r'. split; [exact Hdr|]. replace (p + unread) with (p + n + (unread - n)) by lia. exact Hat'.
Qed.

(** After any reads whatsoever, [drain] takes from the connection exactly what is left of the declared body: the
    next read from the connection starts at the next request. *)
Lemma body_drain_aligns_lemma : forall mode early cl stream sched ws data b' r',
  sched_pos sched -> Forall (fun w => 0 < w) ws ->
  cl <= length early + Nat.min (sum_sched sched) (length stream) ->
  hb_reads mode (hb_new early cl) (mk_reader stream sched) ws = (data, b', r', None) ->
  exists b'' r'', hb_drain mode b' r' = Ok (b'', r'') /\ rd_data r'' = skipn (cl - length early) stream /\ hb_unread b'' = 0 /\
                  (forall w, hb_read mode b'' r'' w = Ok ([], b'', r'')).
Proof.
  intros mode early cl stream sched ws data b' r' Hp Hws Hd Hr.
  set (d := Nat.min (sum_sched sched) (length stream)) in *.
  assert (Hinv : hb_inv2 early cl stream d (hb_new early cl) (mk_reader stream sched)).
  { split; [apply hb_inv_new|]. cbn [hb_new hb_offset Nat.sub]. apply rd_at_start. exact Hp. }
  destruct (hb_reads_progress mode early cl stream d ws _ _ Hinv Hws Hd) as [data2 [b2 [r2 [Hr2 [Hinv' _]]]]].
  rewrite Hr in Hr2. inversion Hr2; subst data2 b2 r2. clear Hr2.
  destruct Hinv' as [[Hb [Hc [Hle [Hrd Hu]]]] Hat].
  assert (Hpd : hb_offset b' - length early <= d) by (destruct Hat as [_ [_ [? _]]]; assumption).
  destruct (drain_loop_exact mode stream d (S (hb_unread b')) (hb_unread b') _ r' Hat ltac:(lia) ltac:(lia)) as [r'' [Hdr Hat']].
  unfold hb_drain. rewrite Hdr. eexists. exists r''. split; [reflexivity|]. split; [|split; [reflexivity|intros w; reflexivity]].
  destruct Hat' as [Hrd' _]. rewrite Hrd'. f_equal. lia.
Qed.

(** * [read_to_bytes] after some of the body has been read through [AsyncRead]: the rest of it, exactly *)

Lemma body_rest_exact_lemma : forall grow mode early cl limit stream sched ws data b' r',
  grow_ok grow -> sched_pos sched -> Forall (fun w => 0 < w) ws ->
  cl <= length early + Nat.min (sum_sched sched) (length stream) ->
  hb_reads mode (hb_new early cl) (mk_reader stream sched) ws = (data, b', r', None) ->
  exists b'' r'', hb_read_to_bytes grow mode b' r' limit =
     Ok (firstn (N.to_nat limit) (skipn (length data) (firstn cl (early ++ stream))), b'', r'').
Proof.
  intros grow mode early cl limit stream sched ws data b' r' Hg Hp Hws Hd Hr.
  set (d := Nat.min (sum_sched sched) (length stream)) in *.
  assert (Hinv : hb_inv2 early cl stream d (hb_new early cl) (mk_reader stream sched)).
  { split; [apply hb_inv_new|]. cbn [hb_new hb_offset Nat.sub]. apply rd_at_start. exact Hp. }
  destruct (hb_reads_progress mode early cl stream d ws _ _ Hinv Hws Hd) as [data2 [b2 [r2 [Hr2 [Hinv' _]]]]].
  rewrite Hr in Hr2. inversion Hr2; subst data2 b2 r2. clear Hr2.
  destruct (hb_reads_inv mode early cl stream ws _ _ _ _ _ _ (hb_inv_new early cl stream sched) Hr) as [_ [Ho _]].
  cbn [hb_new hb_offset Nat.add] in Ho.
  destruct Hinv' as [[Hb [Hc [Hle [Hrd Hu]]]] Hat].
  set (o := hb_offset b') in *. set (le := length early) in *.
  assert (HdS : d <= length stream) by (subst d; qlia).
  assert (Hpd : o - le <= d) by (destruct Hat as [_ [_ [? _]]]; assumption).
  (* the right-hand side as a prefix of what is left *)
  assert (Hrhs : firstn (N.to_nat limit) (skipn (length data) (firstn cl (early ++ stream))) =
                 firstn (Nat.min (cl - o) (N.to_nat limit)) (skipn o early ++ skipn (o - le) stream)).
  { rewrite <- Ho. rewrite skipn_firstn_comm, firstn_firstn, skipn_app. fold le. f_equal. qlia. }
  rewrite Hrhs. unfold hb_read_to_bytes. rewrite Hb, Hc. fold o.
  assert (Hneed : N.to_nat (N.min (N.of_nat (cl - o)) limit) = Nat.min (cl - o) (N.to_nat limit)) by qlia.
  rewrite Hneed.
  destruct (Nat.eqb (Nat.min (cl - o) (N.to_nat limit)) 0) eqn:E0.
  { apply Nat.eqb_eq in E0. rewrite E0. cbn [firstn]. eexists. eexists. reflexivity. }
  apply Nat.eqb_neq in E0.
  pose proof (read_to_bytes_exact grow Hg mode (skipn o early) (N.of_nat (cl - o)) limit stream d (o - le) r' Hat) as Hx.
  unfold body_spec in Hx. rewrite Hneed in Hx.
  assert (Hl1 : length (skipn o early) = le - o) by (rewrite skipn_length; reflexivity).
  assert (Hl2 : length (firstn (d - (o - le)) (skipn (o - le) stream)) = d - (o - le)).
  { rewrite firstn_length, skipn_length. qlia. }
  rewrite Hl1, Hl2 in Hx.
  destruct (Nat.leb (Nat.min (cl - o) (N.to_nat limit)) (le - o + (d - (o - le)))) eqn:E1; [|apply Nat.leb_gt in E1; qlia].
  apply Nat.leb_le in E1.
  destruct Hx as [r'' [Hx _]]. rewrite Hx. eexists. exists r''. f_equal. f_equal. f_equal.
  rewrite !firstn_app, Hl1. f_equal.
  rewrite firstn_firstn. f_equal. qlia.
Qed.
