(** C08 — lemmas about Model/Http1Write.v *)
From KV Require Import Bytes RustInt Range RangeProofs DecProofs CacheControl Cache Fixture Http1Write.
From Coq Require Import ZifyBool ZifyNat ZifyN.
Open Scope N_scope.
