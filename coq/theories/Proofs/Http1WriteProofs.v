(** C08 — lemmas about Model/Http1Write.v *)
From KV Require Import Bytes RustInt Range RangeProofs DecProofs CacheControl Cache Fixture Http1Write.
From Coq Require Import ZifyBool ZifyNat ZifyN.
Open Scope N_scope.
Arguments N.add : simpl never. Arguments N.sub : simpl never. Arguments N.mul : simpl never.
Arguments N.div : simpl never. Arguments N.modulo : simpl never.
Arguments N.eqb : simpl never. Arguments N.ltb : simpl never. Arguments N.leb : simpl never.
Arguments N.of_nat : simpl never. Arguments N.to_nat : simpl never.

Ltac Zify.zify_post_hook ::= Z.div_mod_to_equations.

(** ------------------------------------------------------------------------------------------
    A. printer / strict parser round trip
    ------------------------------------------------------------------------------------------ *)
Lemma no_nl_app a c : no_nl (a ++ c) = no_nl a && no_nl c.
Proof. unfold no_nl. apply forallb_app'. Qed.

Lemma split_crlf_app l rest : no_nl l = true -> split_crlf (l ++ crlf ++ rest) = Some (l, rest).
Proof.
  induction l as [|c l IH]; intros H.
  - reflexivity.
  - cbn [no_nl forallb] in H. apply andb_true_iff in H as [Hc Hl].
    change ((c :: l) ++ crlf ++ rest) with (c :: (l ++ crlf ++ rest)). cbn [split_crlf].
    unfold is_nl in Hc. destruct (N.eqb_spec c 13) as [->|Hne]; [discriminate|].
    cbn [andb]. fold (no_nl l) in Hl. rewrite (IH Hl). reflexivity.
Qed.

Lemma take_prefix_app p r : take_prefix p (p ++ r) = Some r.
Proof.
  unfold take_prefix. assert (H : starts_with p (p ++ r) = true) by (apply starts_with_app; eauto).
  rewrite H, skipn_app_exact. reflexivity.
Qed.

Lemma status_text_digits st : 100 <= st <= 999 ->
  exists d1 d2 d3, status_text st = [d1; d2; d3] /\ is_digit d1 = true /\ is_digit d2 = true /\ is_digit d3 = true /\
                   (d1 - 48) * 100 + (d2 - 48) * 10 + (d3 - 48) = st.
Proof.
  intros H. exists (48 + st / 100), (48 + (st / 10) mod 10), (48 + st mod 10).
  split; [reflexivity|]. unfold is_digit. repeat split; lia.
Qed.

Lemma lookup_reason_no_nl st t : forallb (fun p => no_nl (snd p)) t = true -> no_nl (lookup_reason st t) = true.
Proof.
  induction t as [|[k v] t IH]; intros H; cbn [lookup_reason]; [reflexivity|].
  cbn [forallb snd] in H. apply andb_true_iff in H as [H1 H2].
  destruct (k =? st); [assumption | apply IH; assumption].
Qed.
Lemma reason_no_nl st : no_nl (reason st) = true.
Proof. apply lookup_reason_no_nl. vm_compute. reflexivity. Qed.

Lemma status_line_roundtrip v st rs :
  v = 10 \/ v = 11 -> 100 <= st <= 999 -> no_nl rs = true ->
  parse_status_line (version_text v ++ [32] ++ status_text st ++ [32] ++ rs) = Some (v, st, rs).
Proof.
  intros Hv Hst Hrs.
  destruct (status_text_digits st Hst) as (d1 & d2 & d3 & E & H1 & H2 & H3 & Hval).
  rewrite E. unfold parse_status_line.
  assert (Hnl : no_nl (version_text v ++ [32] ++ [d1; d2; d3] ++ [32] ++ rs) = true).
  { rewrite !no_nl_app, Hrs.
    assert (Hd : forall d, is_digit d = true -> negb (is_nl d) = true).
    { intros d Hd. unfold is_digit in Hd. unfold is_nl. lia. }
    cbn [no_nl forallb]. rewrite (Hd _ H1), (Hd _ H2), (Hd _ H3).
    destruct Hv as [-> | ->]; reflexivity. }
  rewrite Hnl. cbn [negb].
  destruct Hv as [-> | ->].
  - change (version_text 10 ++ [32] ++ [d1; d2; d3] ++ [32] ++ rs)
      with (B "HTTP/1.0 " ++ (d1 :: d2 :: d3 :: 32 :: rs)).
    assert (Hno : take_prefix (B "HTTP/1.1 ") (B "HTTP/1.0 " ++ d1 :: d2 :: d3 :: 32 :: rs) = None) by reflexivity.
    rewrite Hno, take_prefix_app, H1, H2, H3. cbn [andb].
    change (32 =? 32) with true. cbn [andb]. rewrite Hval.
    destruct (N.leb_spec 100 st); [reflexivity | lia].
  - change (version_text 11 ++ [32] ++ [d1; d2; d3] ++ [32] ++ rs)
      with (B "HTTP/1.1 " ++ (d1 :: d2 :: d3 :: 32 :: rs)).
    rewrite take_prefix_app, H1, H2, H3. cbn [andb].
    change (32 =? 32) with true. cbn [andb]. rewrite Hval.
    destruct (N.leb_spec 100 st); [reflexivity | lia].
Qed.

Lemma tchar_not_colon c : is_tchar c = true -> (c =? 58) = false.
Proof.
  intros H. destruct (N.eqb_spec c 58) as [->|]; [|reflexivity]. vm_compute in H. discriminate.
Qed.
Lemma tchar_not_nl c : is_tchar c = true -> negb (is_nl c) = true.
Proof.
  intros H. unfold is_nl.
  destruct (N.eqb_spec c 13) as [->|]; [vm_compute in H; discriminate|].
  destruct (N.eqb_spec c 10) as [->|]; [vm_compute in H; discriminate|]. reflexivity.
Qed.
Lemma value_byte_not_nl c : value_byte c = true -> negb (is_nl c) = true.
Proof. unfold value_byte, is_nl. lia. Qed.

Lemma forallb_impl {A} (f g : A -> bool) l : (forall x, f x = true -> g x = true) -> forallb f l = true -> forallb g l = true.
Proof.
  intros Hfg. induction l as [|x l IH]; cbn [forallb]; [reflexivity|].
  intros H. apply andb_true_iff in H as [H1 H2]. rewrite (Hfg _ H1), (IH H2). reflexivity.
Qed.

Lemma split_colon_app n v : forallb is_tchar n = true -> split_colon (n ++ 58 :: v) = Some (n, v).
Proof.
  induction n as [|c n IH]; intros H.
  - reflexivity.
  - cbn [forallb] in H. apply andb_true_iff in H as [Hc Hn].
    change ((c :: n) ++ 58 :: v) with (c :: (n ++ 58 :: v)). cbn [split_colon].
    rewrite (tchar_not_colon _ Hc), (IH Hn). reflexivity.
Qed.

Definition header_text (h : bytes * bytes) : bytes := fst h ++ [58; 32] ++ snd h.
Lemma print_header_text h : print_header h = header_text h ++ crlf.
Proof. unfold print_header, header_text. rewrite <- !app_assoc. reflexivity. Qed.

Lemma header_line_roundtrip h : hdr_ok h = true -> parse_header_line (header_text h) = Some h.
Proof.
  destruct h as [n v]. unfold hdr_ok, header_text. cbn [fst snd]. intros H.
  apply andb_true_iff in H as [Hn Hv]. unfold parse_header_line.
  pose proof Hn as Hn'. unfold name_ok in Hn'. apply andb_true_iff in Hn' as [_ Ht].
  change (n ++ [58; 32] ++ v) with (n ++ 58 :: (32 :: v)).
  rewrite (split_colon_app _ _ Ht). change (32 =? 32) with true. rewrite Hn, Hv. reflexivity.
Qed.

Lemma header_text_no_nl h : hdr_ok h = true -> no_nl (header_text h) = true.
Proof.
  destruct h as [n v]. unfold hdr_ok, header_text. cbn [fst snd]. intros H.
  apply andb_true_iff in H as [Hn Hv]. unfold name_ok in Hn. apply andb_true_iff in Hn as [_ Ht].
  rewrite !no_nl_app. unfold no_nl at 1.
  rewrite (forallb_impl _ _ _ tchar_not_nl Ht). unfold no_nl at 2.
  unfold value_ok in Hv. rewrite (forallb_impl _ _ _ value_byte_not_nl Hv). reflexivity.
Qed.

Lemma header_text_nonempty h : hdr_ok h = true -> exists c l, header_text h = c :: l.
Proof.
  destruct h as [n v]. unfold hdr_ok, header_text, name_ok. cbn [fst snd]. intros H.
  destruct n as [|c n]; [discriminate|]. eexists _, _. reflexivity.
Qed.

Lemma header_block_roundtrip hs : forall fuel rest,
  Forall (fun h => hdr_ok h = true) hs -> (length hs < fuel)%nat ->
  parse_header_block fuel (print_headers hs ++ crlf ++ rest) = Some (hs, rest).
Proof.
  induction hs as [|h hs IH]; intros fuel rest Hok Hf.
  - destruct fuel as [|f]; [cbn in Hf; lia|]. reflexivity.
  - destruct fuel as [|f]; [cbn in Hf; lia|].
    inversion Hok as [|? ? Hh Hrest]; subst.
    unfold print_headers. cbn [map concat]. fold (print_headers hs).
    rewrite print_header_text, <- !app_assoc. cbn [parse_header_block].
    rewrite (split_crlf_app _ _ (header_text_no_nl _ Hh)).
    destruct (header_text_nonempty _ Hh) as (c & l & E). rewrite E. rewrite <- E.
    rewrite (header_line_roundtrip _ Hh).
    rewrite (IH f rest Hrest); [reflexivity | cbn [length] in Hf; lia].
Qed.

Lemma print_headers_length hs : (length hs <= length (print_headers hs))%nat.
Proof.
  induction hs as [|h hs IH]; [cbn; lia|].
  unfold print_headers. cbn [map concat]. fold (print_headers hs).
  rewrite app_length. unfold print_header. rewrite !app_length. cbn [length]. lia.
Qed.

(** well-formedness of what is written for one request of method [m] *)
Definition names_lower (hs : list (bytes * bytes)) : Prop := Forall (fun h => lower (fst h) = fst h) hs.
Definition head_ok (h : head) : Prop :=
  (hd_version h = 10 \/ hd_version h = 11) /\ 100 <= hd_status h <= 999 /\
  Forall (fun x => hdr_ok x = true) (hd_headers h) /\
  existsb (is_name s_transfer_encoding) (hd_headers h) = false.
Definition framed (m : N) (s : sent) : Prop :=
  head_ok (st_head s) /\
  if is_head_method m || bodyless_status (hd_status (st_head s))
  then st_body s = [] /\ announced_ok_bodyless (hd_headers (st_head s)) = true
  else announced (hd_headers (st_head s)) = Some (N.of_nat (length (st_body s))).

Lemma parse_one_wire m s rest : framed m s -> parse_one m (wire s ++ rest) = Some (observable s, rest).
Proof.
  intros [(Hv & Hst & Hhs & Hte) Hb]. destruct s as [[v st hs] body]. cbn [st_head st_body hd_version hd_status hd_headers] in *.
  unfold wire, print_response, print_head, observable. cbn [st_head st_body hd_version hd_status hd_headers].
  set (line := version_text v ++ [32] ++ status_text st ++ [32] ++ reason st).
  replace ((version_text v ++ [32] ++ status_text st ++ [32] ++ reason st ++ crlf ++ print_headers hs ++ crlf) ++ body)
    with (line ++ crlf ++ (print_headers hs ++ crlf ++ body)) by (unfold line; rewrite <- !app_assoc; reflexivity).
  rewrite <- !app_assoc.
  unfold parse_one.
  assert (Hline : no_nl line = true).
  { unfold line. rewrite !no_nl_app, reason_no_nl.
    destruct (status_text_digits st Hst) as (d1 & d2 & d3 & E & H1 & H2 & H3 & _). rewrite E.
    assert (Hd : forall d, is_digit d = true -> negb (is_nl d) = true).
    { intros d Hd. unfold is_digit in Hd. unfold is_nl. lia. }
    cbn [no_nl forallb]. rewrite (Hd _ H1), (Hd _ H2), (Hd _ H3).
    destruct Hv as [-> | ->]; reflexivity. }
  rewrite (split_crlf_app _ _ Hline).
  unfold line. rewrite (status_line_roundtrip v st (reason st) Hv Hst (reason_no_nl st)).
  rewrite header_block_roundtrip; [|assumption|].
  2:{ rewrite !app_length. pose proof (print_headers_length hs). lia. }
  rewrite Hte.
  destruct (is_head_method m || bodyless_status st).
  - destruct Hb as [-> Ha]. rewrite Ha. reflexivity.
  - rewrite Hb.
    destruct (N.ltb_spec (N.of_nat (length (body ++ rest))) (N.of_nat (length body))) as [Hlt|_].
    { rewrite app_length in Hlt. lia. }
    rewrite Nat2N.id, firstn_app_exact, skipn_app_exact. reflexivity.
Qed.

Lemma framing_roundtrip_lemma (l : list (N * sent)) :
  Forall (fun p => framed (fst p) (snd p)) l ->
  parse_responses (map fst l) (concat (map (fun p => wire (snd p)) l)) = Some (map (fun p => observable (snd p)) l).
Proof.
  induction l as [|[m s] l IH]; intros H.
  - reflexivity.
  - inversion H as [|? ? Hp Hl]; subst. cbn [map concat fst snd parse_responses].
    rewrite (parse_one_wire m s _ Hp). rewrite (IH Hl). reflexivity.
Qed.
