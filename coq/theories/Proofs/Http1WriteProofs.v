(** C08 — lemmas about Model/Http1Write.v *)
From KV Require Import Bytes RustInt Range RangeProofs DecProofs CacheControl Cache Fixture Http1Write.
From Coq Require Import ZifyBool ZifyNat ZifyN.
Open Scope N_scope.
Arguments N.add : simpl never. Arguments N.sub : simpl never. Arguments N.mul : simpl never.
Arguments N.div : simpl never. Arguments N.modulo : simpl never.
Arguments N.eqb : simpl never. Arguments N.ltb : simpl never. Arguments N.leb : simpl never.
Arguments N.of_nat : simpl never. Arguments N.to_nat : simpl never.

Ltac Zify.zify_post_hook ::= Z.div_mod_to_equations.

(** ------------------------------------------------------------------------------------------
    A. printer / strict parser round trip
    ------------------------------------------------------------------------------------------ *)
Lemma no_nl_app a c : no_nl (a ++ c) = no_nl a && no_nl c.
Proof. unfold no_nl. apply forallb_app'. Qed.

Lemma split_crlf_app l rest : no_nl l = true -> split_crlf (l ++ crlf ++ rest) = Some (l, rest).
Proof.
  induction l as [|c l IH]; intros H.
  - reflexivity.
  - cbn [no_nl forallb] in H. apply andb_true_iff in H as [Hc Hl].
    change ((c :: l) ++ crlf ++ rest) with (c :: (l ++ crlf ++ rest)). cbn [split_crlf].
    unfold is_nl in Hc. destruct (N.eqb_spec c 13) as [->|Hne]; [discriminate|].
    cbn [andb]. fold (no_nl l) in Hl. rewrite (IH Hl). reflexivity.
Qed.

Lemma take_prefix_app p r : take_prefix p (p ++ r) = Some r.
Proof.
  unfold take_prefix. assert (H : starts_with p (p ++ r) = true) by (apply starts_with_app; eauto).
  rewrite H, skipn_app_exact. reflexivity.
Qed.

Lemma status_text_digits st : 100 <= st <= 999 ->
  exists d1 d2 d3, status_text st = [d1; d2; d3] /\ is_digit d1 = true /\ is_digit d2 = true /\ is_digit d3 = true /\
                   (d1 - 48) * 100 + (d2 - 48) * 10 + (d3 - 48) = st.
Proof.
  intros H. exists (48 + st / 100), (48 + (st / 10) mod 10), (48 + st mod 10).
  split; [reflexivity|]. unfold is_digit. repeat split; lia.
Qed.

Lemma lookup_reason_no_nl st t : forallb (fun p => no_nl (snd p)) t = true -> no_nl (lookup_reason st t) = true.
Proof.
  induction t as [|[k v] t IH]; intros H; cbn [lookup_reason]; [reflexivity|].
  cbn [forallb snd] in H. apply andb_true_iff in H as [H1 H2].
  destruct (k =? st); [assumption | apply IH; assumption].
Qed.
Lemma reason_no_nl st : no_nl (reason st) = true.
Proof. apply lookup_reason_no_nl. vm_compute. reflexivity. Qed.

Lemma status_line_roundtrip v st rs :
  v = 10 \/ v = 11 -> 100 <= st <= 999 -> no_nl rs = true ->
  parse_status_line (version_text v ++ [32] ++ status_text st ++ [32] ++ rs) = Some (v, st, rs).
Proof.
  intros Hv Hst Hrs.
  destruct (status_text_digits st Hst) as (d1 & d2 & d3 & E & H1 & H2 & H3 & Hval).
  rewrite E. unfold parse_status_line.
  assert (Hnl : no_nl (version_text v ++ [32] ++ [d1; d2; d3] ++ [32] ++ rs) = true).
  { rewrite !no_nl_app, Hrs.
    assert (Hd : forall d, is_digit d = true -> negb (is_nl d) = true).
    { intros d Hd. unfold is_digit in Hd. unfold is_nl. lia. }
    cbn [no_nl forallb]. rewrite (Hd _ H1), (Hd _ H2), (Hd _ H3).
    destruct Hv as [-> | ->]; reflexivity. }
  rewrite Hnl. cbn [negb].
  destruct Hv as [-> | ->].
  - change (version_text 10 ++ [32] ++ [d1; d2; d3] ++ [32] ++ rs)
      with (B "HTTP/1.0 " ++ (d1 :: d2 :: d3 :: 32 :: rs)).
    assert (Hno : take_prefix (B "HTTP/1.1 ") (B "HTTP/1.0 " ++ d1 :: d2 :: d3 :: 32 :: rs) = None) by reflexivity.
    rewrite Hno, take_prefix_app, H1, H2, H3. cbn [andb].
    change (32 =? 32) with true. cbn [andb]. rewrite Hval.
    destruct (N.leb_spec 100 st); [reflexivity | lia].
  - change (version_text 11 ++ [32] ++ [d1; d2; d3] ++ [32] ++ rs)
      with (B "HTTP/1.1 " ++ (d1 :: d2 :: d3 :: 32 :: rs)).
    rewrite take_prefix_app, H1, H2, H3. cbn [andb].
    change (32 =? 32) with true. cbn [andb]. rewrite Hval.
    destruct (N.leb_spec 100 st); [reflexivity | lia].
Qed.

Lemma tchar_not_colon c : is_tchar c = true -> (c =? 58) = false.
Proof.
  intros H. destruct (N.eqb_spec c 58) as [->|]; [|reflexivity]. vm_compute in H. discriminate.
Qed.
Lemma tchar_not_nl c : is_tchar c = true -> negb (is_nl c) = true.
Proof.
  intros H. unfold is_nl.
  destruct (N.eqb_spec c 13) as [->|]; [vm_compute in H; discriminate|].
  destruct (N.eqb_spec c 10) as [->|]; [vm_compute in H; discriminate|]. reflexivity.
Qed.
Lemma value_byte_not_nl c : value_byte c = true -> negb (is_nl c) = true.
Proof. unfold value_byte, is_nl. lia. Qed.

Lemma forallb_impl {A} (f g : A -> bool) l : (forall x, f x = true -> g x = true) -> forallb f l = true -> forallb g l = true.
Proof.
  intros Hfg. induction l as [|x l IH]; cbn [forallb]; [reflexivity|].
  intros H. apply andb_true_iff in H as [H1 H2]. rewrite (Hfg _ H1), (IH H2). reflexivity.
Qed.

Lemma split_colon_app n v : forallb is_tchar n = true -> split_colon (n ++ 58 :: v) = Some (n, v).
Proof.
  induction n as [|c n IH]; intros H.
  - reflexivity.
  - cbn [forallb] in H. apply andb_true_iff in H as [Hc Hn].
    change ((c :: n) ++ 58 :: v) with (c :: (n ++ 58 :: v)). cbn [split_colon].
    rewrite (tchar_not_colon _ Hc), (IH Hn). reflexivity.
Qed.

Definition header_text (h : bytes * bytes) : bytes := fst h ++ [58; 32] ++ snd h.
Lemma print_header_text h : print_header h = header_text h ++ crlf.
Proof. unfold print_header, header_text. rewrite <- !app_assoc. reflexivity. Qed.

Lemma header_line_roundtrip h : hdr_ok h = true -> parse_header_line (header_text h) = Some h.
Proof.
  destruct h as [n v]. unfold hdr_ok, header_text. cbn [fst snd]. intros H.
  apply andb_true_iff in H as [Hn Hv]. unfold parse_header_line.
  pose proof Hn as Hn'. unfold name_ok in Hn'. apply andb_true_iff in Hn' as [_ Ht].
  change (n ++ [58; 32] ++ v) with (n ++ 58 :: (32 :: v)).
  rewrite (split_colon_app _ _ Ht). change (32 =? 32) with true. rewrite Hn, Hv. reflexivity.
Qed.

Lemma header_text_no_nl h : hdr_ok h = true -> no_nl (header_text h) = true.
Proof.
  destruct h as [n v]. unfold hdr_ok, header_text. cbn [fst snd]. intros H.
  apply andb_true_iff in H as [Hn Hv]. unfold name_ok in Hn. apply andb_true_iff in Hn as [_ Ht].
  rewrite !no_nl_app. unfold no_nl at 1.
  rewrite (forallb_impl _ _ _ tchar_not_nl Ht). unfold no_nl at 2.
  unfold value_ok in Hv. rewrite (forallb_impl _ _ _ value_byte_not_nl Hv). reflexivity.
Qed.

Lemma header_text_nonempty h : hdr_ok h = true -> exists c l, header_text h = c :: l.
Proof.
  destruct h as [n v]. unfold hdr_ok, header_text, name_ok. cbn [fst snd]. intros H.
  destruct n as [|c n]; [discriminate|]. eexists _, _. reflexivity.
Qed.

Lemma header_block_roundtrip hs : forall fuel rest,
  Forall (fun h => hdr_ok h = true) hs -> (length hs < fuel)%nat ->
  parse_header_block fuel (print_headers hs ++ crlf ++ rest) = Some (hs, rest).
Proof.
  induction hs as [|h hs IH]; intros fuel rest Hok Hf.
  - destruct fuel as [|f]; [cbn in Hf; lia|]. reflexivity.
  - destruct fuel as [|f]; [cbn in Hf; lia|].
    inversion Hok as [|? ? Hh Hrest]; subst.
    unfold print_headers. cbn [map concat]. fold (print_headers hs).
    rewrite print_header_text, <- !app_assoc. cbn [parse_header_block].
    rewrite (split_crlf_app _ _ (header_text_no_nl _ Hh)).
    destruct (header_text_nonempty _ Hh) as (c & l & E). rewrite E. rewrite <- E.
    rewrite (header_line_roundtrip _ Hh).
    rewrite (IH f rest Hrest); [reflexivity | cbn [length] in Hf; lia].
Qed.

Lemma print_headers_length hs : (length hs <= length (print_headers hs))%nat.
Proof.
  induction hs as [|h hs IH]; [cbn; lia|].
  unfold print_headers. cbn [map concat]. fold (print_headers hs).
  rewrite app_length. unfold print_header. rewrite !app_length. cbn [length]. lia.
Qed.

(** well-formedness of what is written for one request of method [m] *)
Definition names_lower (hs : list (bytes * bytes)) : Prop := Forall (fun h => lower (fst h) = fst h) hs.
Definition head_ok (h : head) : Prop :=
  (hd_version h = 10 \/ hd_version h = 11) /\ 100 <= hd_status h <= 999 /\
  Forall (fun x => hdr_ok x = true) (hd_headers h) /\
  existsb (is_name s_transfer_encoding) (hd_headers h) = false.
Definition framed (m : N) (s : sent) : Prop :=
  head_ok (st_head s) /\
  if is_head_method m || bodyless_status (hd_status (st_head s))
  then st_body s = [] /\ announced_ok_bodyless (hd_headers (st_head s)) = true
  else announced (hd_headers (st_head s)) = Some (N.of_nat (length (st_body s))).

Lemma parse_one_wire m s rest : framed m s -> parse_one m (wire s ++ rest) = Some (observable s, rest).
Proof.
  intros [(Hv & Hst & Hhs & Hte) Hb]. destruct s as [[v st hs] body]. cbn [st_head st_body hd_version hd_status hd_headers] in *.
  unfold wire, print_response, print_head, observable. cbn [st_head st_body hd_version hd_status hd_headers].
  set (line := version_text v ++ [32] ++ status_text st ++ [32] ++ reason st).
  replace ((version_text v ++ [32] ++ status_text st ++ [32] ++ reason st ++ crlf ++ print_headers hs ++ crlf) ++ body)
    with (line ++ crlf ++ (print_headers hs ++ crlf ++ body)) by (unfold line; rewrite <- !app_assoc; reflexivity).
  rewrite <- !app_assoc.
  unfold parse_one.
  assert (Hline : no_nl line = true).
  { unfold line. rewrite !no_nl_app, reason_no_nl.
    destruct (status_text_digits st Hst) as (d1 & d2 & d3 & E & H1 & H2 & H3 & _). rewrite E.
    assert (Hd : forall d, is_digit d = true -> negb (is_nl d) = true).
    { intros d Hd. unfold is_digit in Hd. unfold is_nl. lia. }
    cbn [no_nl forallb]. rewrite (Hd _ H1), (Hd _ H2), (Hd _ H3).
    destruct Hv as [-> | ->]; reflexivity. }
  rewrite (split_crlf_app _ _ Hline).
  unfold line. rewrite (status_line_roundtrip v st (reason st) Hv Hst (reason_no_nl st)).
  rewrite header_block_roundtrip; [|assumption|].
  2:{ rewrite !app_length. pose proof (print_headers_length hs). lia. }
  rewrite Hte.
  destruct (is_head_method m || bodyless_status st).
  - destruct Hb as [-> Ha]. rewrite Ha. reflexivity.
  - rewrite Hb.
    destruct (N.ltb_spec (N.of_nat (length (body ++ rest))) (N.of_nat (length body))) as [Hlt|_].
    { rewrite app_length in Hlt. lia. }
    rewrite Nat2N.id, firstn_app_exact, skipn_app_exact. reflexivity.
Qed.

Lemma framing_roundtrip_lemma (l : list (N * sent)) :
  Forall (fun p => framed (fst p) (snd p)) l ->
  parse_responses (map fst l) (concat (map (fun p => wire (snd p)) l)) = Some (map (fun p => observable (snd p)) l).
Proof.
  induction l as [|[m s] l IH]; intros H.
  - reflexivity.
  - inversion H as [|? ? Hp Hl]; subst. cbn [map concat fst snd parse_responses].
    rewrite (parse_one_wire m s _ Hp). rewrite (IH Hl). reflexivity.
Qed.

(** the last response of a connection the server closes: a head that announces no length (the bytes up to the
    end of the stream are the body), or a response framed as usual *)
Definition close_framed (m : N) (s : sent) : Prop :=
  head_ok (st_head s) /\
  if is_head_method m || bodyless_status (hd_status (st_head s))
  then st_body s = [] /\ announced_ok_bodyless (hd_headers (st_head s)) = true
  else filter (is_name s_content_length) (hd_headers (st_head s)) = [] \/
       announced (hd_headers (st_head s)) = Some (N.of_nat (length (st_body s))).

Lemma parse_last_wire m s : close_framed m s -> parse_last m (wire s) = Some (observable s).
Proof.
  intros [(Hv & Hst & Hhs & Hte) Hb]. destruct s as [[v st hs] body]. cbn [st_head st_body hd_version hd_status hd_headers] in *.
  unfold wire, print_response, print_head, observable. cbn [st_head st_body hd_version hd_status hd_headers].
  set (line := version_text v ++ [32] ++ status_text st ++ [32] ++ reason st).
  replace ((version_text v ++ [32] ++ status_text st ++ [32] ++ reason st ++ crlf ++ print_headers hs ++ crlf) ++ body)
    with (line ++ crlf ++ (print_headers hs ++ crlf ++ body)) by (unfold line; rewrite <- !app_assoc; reflexivity).
  unfold parse_last.
  assert (Hline : no_nl line = true).
  { unfold line. rewrite !no_nl_app, reason_no_nl.
    destruct (status_text_digits st Hst) as (d1 & d2 & d3 & E & H1 & H2 & H3 & _). rewrite E.
    assert (Hd : forall d, is_digit d = true -> negb (is_nl d) = true).
    { intros d Hd. unfold is_digit in Hd. unfold is_nl. lia. }
    cbn [no_nl forallb]. rewrite (Hd _ H1), (Hd _ H2), (Hd _ H3).
    destruct Hv as [-> | ->]; reflexivity. }
  rewrite (split_crlf_app _ _ Hline).
  unfold line. rewrite (status_line_roundtrip v st (reason st) Hv Hst (reason_no_nl st)).
  rewrite header_block_roundtrip; [|assumption|].
  2:{ rewrite !app_length. pose proof (print_headers_length hs). lia. }
  rewrite Hte.
  destruct (is_head_method m || bodyless_status st).
  - destruct Hb as [-> Ha]. rewrite Ha. reflexivity.
  - destruct Hb as [Hnone | Ha].
    + rewrite Hnone. reflexivity.
    + unfold announced in Ha |- *.
      destruct (filter (is_name s_content_length) hs) as [|h [|h2 t]] eqn:Ef; try discriminate.
      rewrite Ha, N.eqb_refl. reflexivity.
Qed.

Lemma framed_close_framed m s : framed m s -> close_framed m s.
Proof.
  intros [Hh Hb]. split; [assumption|]. destruct (is_head_method m || bodyless_status (hd_status (st_head s))); [assumption|].
  right. assumption.
Qed.

(** responses framed by their lengths, then one the close ends *)
Lemma closing_roundtrip ms ss : Forall2 framed ms ss -> forall m s, close_framed m s ->
  parse_closing (ms ++ [m]) (concat (map wire ss) ++ wire s) = Some (map observable ss ++ [observable s]).
Proof.
  induction 1 as [|m0 s0 ms ss Hf Hrest IH]; intros m s Hc.
  - cbn [app map concat parse_closing]. rewrite (parse_last_wire m s Hc). reflexivity.
  - cbn [map concat]. rewrite <- app_assoc.
    change ((m0 :: ms) ++ [m]) with (m0 :: (ms ++ [m])).
    assert (E : parse_closing (m0 :: (ms ++ [m])) (wire s0 ++ concat (map wire ss) ++ wire s) =
                match parse_one m0 (wire s0 ++ concat (map wire ss) ++ wire s) with
                | None => None
                | Some (r, rest) => match parse_closing (ms ++ [m]) rest with Some rs => Some (r :: rs) | None => None end
                end).
    { destruct ms as [|m1 ms]; reflexivity. }
    rewrite E, (parse_one_wire m0 s0 _ Hf), (IH m s Hc). reflexivity.
Qed.

(** ------------------------------------------------------------------------------------------
    B. the send path
    ------------------------------------------------------------------------------------------ *)
Lemma existsb_filter_nil {A} (f : A -> bool) l : existsb f l = false <-> filter f l = [].
Proof.
  induction l as [|x l IH]; cbn [existsb filter]; [tauto|].
  destruct (f x); cbn [orb]; [split; discriminate | exact IH].
Qed.

Lemma hm_remove_Forall (P : bytes * bytes -> Prop) n hs : Forall P hs -> Forall P (hm_remove n hs).
Proof.
  induction 1 as [|h r Hh Hr IH]; cbn [hm_remove]; [constructor|].
  destruct (beq (fst h) n); [assumption | constructor; assumption].
Qed.
Lemma hm_insert_Forall (P : bytes * bytes -> Prop) n v hs : P (n, v) -> Forall P hs -> Forall P (hm_insert n v hs).
Proof.
  intros Hnv. induction 1 as [|h r Hh Hr IH]; cbn [hm_insert]; [repeat constructor; assumption|].
  destruct (beq (fst h) n); constructor; try assumption. apply hm_remove_Forall. assumption.
Qed.

Lemma is_name_same_fst a h n v : fst h = n -> is_name a h = is_name a (n, v).
Proof. unfold is_name. cbn [fst]. intros ->. reflexivity. Qed.

(** inserting another name does not touch the headers called [a] *)
Lemma filter_hm_remove_other a n hs :
  (forall v, is_name a (n, v) = false) -> filter (is_name a) (hm_remove n hs) = filter (is_name a) hs.
Proof.
  intros Hn. induction hs as [|h r IH]; cbn [hm_remove filter]; [reflexivity|].
  destruct (beq (fst h) n) eqn:E.
  - apply beq_eq in E. rewrite (is_name_same_fst a h n [] E), Hn. exact IH.
  - cbn [filter]. rewrite IH. reflexivity.
Qed.
Lemma filter_hm_insert_other a n v hs :
  (forall w, is_name a (n, w) = false) -> filter (is_name a) (hm_insert n v hs) = filter (is_name a) hs.
Proof.
  intros Hn. induction hs as [|h r IH]; cbn [hm_insert filter]; [rewrite Hn; reflexivity|].
  destruct (beq (fst h) n) eqn:E.
  - apply beq_eq in E. cbn [filter]. rewrite Hn, (is_name_same_fst a h n [] E), Hn.
    apply filter_hm_remove_other. assumption.
  - cbn [filter]. rewrite IH. reflexivity.
Qed.

(** inserting a (lower-case) name into a map of lower-case names leaves exactly one header of that name *)
Lemma filter_hm_remove_same n hs : names_lower hs -> filter (is_name n) (hm_remove n hs) = [].
Proof.
  induction 1 as [|h r Hh Hr IH]; cbn [hm_remove]; [reflexivity|].
  destruct (beq (fst h) n) eqn:E; [assumption|].
  cbn [filter]. unfold is_name at 1. rewrite Hh, E. assumption.
Qed.
Lemma filter_hm_insert_same n v hs :
  lower n = n -> names_lower hs -> filter (is_name n) (hm_insert n v hs) = [(n, v)].
Proof.
  intros Hn. induction 1 as [|h r Hh Hr IH]; cbn [hm_insert filter].
  - unfold is_name. cbn [fst]. rewrite Hn, beq_refl. reflexivity.
  - destruct (beq (fst h) n) eqn:E.
    + cbn [filter]. unfold is_name at 1. cbn [fst]. rewrite Hn, beq_refl.
      rewrite (filter_hm_remove_same n r Hr). reflexivity.
    + cbn [filter]. unfold is_name at 1. rewrite Hh, E. assumption.
Qed.

Lemma hm_remove_lower n hs : names_lower hs -> names_lower (hm_remove n hs).
Proof. apply hm_remove_Forall. Qed.
Lemma hm_insert_lower n v hs : lower n = n -> names_lower hs -> names_lower (hm_insert n v hs).
Proof. intros Hn. apply hm_insert_Forall. exact Hn. Qed.

Lemma all_digits_value_ok ds : all_digits ds = true -> value_ok ds = true.
Proof.
  unfold all_digits, value_ok. apply forallb_impl. intros c H. unfold is_digit in H. unfold value_byte. lia.
Qed.
Lemma value_ok_dec n : value_ok (dec n) = true.
Proof. destruct (dec_spec n) as (ds & E & _ & Hd & _). rewrite E. apply all_digits_value_ok. assumption. Qed.
Lemma parse_length_dec n : parse_length (dec n) = Some n.
Proof.
  destruct (dec_spec n) as (ds & E & Hne & Hd & Hv). rewrite E. unfold parse_length.
  destruct ds as [|c ds]; [congruence|]. rewrite Hd, Hv. reflexivity.
Qed.
Lemma value_ok_app a c : value_ok (a ++ c) = value_ok a && value_ok c.
Proof. unfold value_ok. apply forallb_app'. Qed.

(** what [apply_range] can return *)
Lemma apply_range_ok rg st body x :
  apply_range true rg st body = Ok x ->
  (rg = None /\ r_status x = st /\ r_content_range x = None /\ r_body x = body) \/
  (exists s e, rg = Some (s, e) /\ s < N.of_nat (length body) /\ r_status x = (if st =? 200 then 206 else st) /\
               r_accept_ranges x = false /\
               exists cr, r_content_range x = Some cr /\ value_ok cr = true).
Proof.
  unfold apply_range. destruct rg as [[s e]|].
  - destruct (N.leb_spec (N.of_nat (length body)) s) as [Hle|Hlt]; [discriminate|].
    destruct (sub_u64 true _ 1) as [ei| |]; cbn [obind]; try discriminate.
    destruct (slice_chk _ _ body) as [sl| |]; cbn [obind]; try discriminate.
    set (crv := B "bytes " ++ dec s ++ B "-" ++ dec ei ++ B "/" ++ dec (N.of_nat (length body))).
    assert (Hcr : value_ok crv = true).
    { unfold crv. rewrite !value_ok_app, !value_ok_dec. reflexivity. }
    clearbody crv.
    intros H. inversion H; subst; clear H. right. exists s, e. cbn [r_status r_accept_ranges r_content_range].
    repeat split; try assumption.
    exists crv. split; [reflexivity | assumption].
  - intros H. inversion H; subst. left. repeat split.
Qed.

Lemma apply_range_no_panic s e st body :
  s < e \/ N.of_nat (length body) <= s -> apply_range true (Some (s, e)) st body <> Panic.
Proof.
  intros H. unfold apply_range.
  destruct (N.leb_spec (N.of_nat (length body)) s) as [Hle|Hlt]; [discriminate|].
  destruct H as [Hse|]; [|lia].
  set (re := if N.of_nat (length body) <=? e then N.of_nat (length body) else e).
  assert (Hre : s < re /\ re <= N.of_nat (length body)).
  { unfold re. destruct (N.leb_spec (N.of_nat (length body)) e); lia. }
  unfold sub_u64. destruct (N.leb_spec 1 re) as [_|]; [|lia]. cbn [obind].
  unfold slice_chk, slice_get.
  destruct (Nat.leb_spec (N.to_nat s) (N.to_nat re)) as [_|]; [|lia].
  destruct (Nat.leb_spec (N.to_nat re) (length body)) as [_|]; [|lia].
  cbn [andb obind]. discriminate.
Qed.

Lemma beq_sym a c : beq a c = beq c a.
Proof.
  destruct (beq a c) eqn:E1; destruct (beq c a) eqn:E2; try reflexivity.
  - apply beq_eq in E1. subst. rewrite beq_refl in E2. discriminate.
  - apply beq_eq in E2. subst. rewrite beq_refl in E1. discriminate.
Qed.
Lemma assoc_hm_insert n v hs : assoc n (hm_insert n v hs) = Some v.
Proof.
  induction hs as [|[k w] r IH]; cbn [hm_insert assoc fst].
  - rewrite beq_refl. reflexivity.
  - destruct (beq k n) eqn:E; cbn [assoc].
    + rewrite beq_refl. reflexivity.
    + rewrite beq_sym, E. exact IH.
Qed.

(** a streamed reply: not a 1xx/204/304; the announced length is the length of what body and future write;
    a stream of unknown length is not framed by the handler itself *)
Definition stream_ok (r : reply0) : Prop :=
  match r0_future r with
  | None => True
  | Some (Some l, chunks) =>
      bodyless_status (r0_status r) = false /\ l = N.of_nat (length (r0_body r) + length (concat chunks))
  | Some (None, _) =>
      bodyless_status (r0_status r) = false /\ filter (is_name s_transfer_encoding) (r0_headers r) = [] /\
      filter (is_name s_content_length) (r0_headers r) = []
  end.
(** the invariants of the [http] crate (status 100..999, lower-case token names, values without CR/LF, not
    HTTP/0.9), a range that comes from [sanitize_request], and [stream_ok].  Nothing is asked of the body of a
    1xx/204/304 reply or about [transfer-encoding] any more: [send] repairs both *)
Definition reply_ok (r : reply0) : Prop :=
  100 <= r0_status r <= 999 /\ r0_version r <> 9 /\
  Forall (fun x => hdr_ok x = true) (r0_headers r) /\ names_lower (r0_headers r) /\
  match r0_sanitize r with
  | Some (Some (s, e)) => s < e
  | _ => True
  end /\
  stream_ok r.
(** the response after the range step *)
Definition mid_ok (r : reply0) : Prop :=
  100 <= r0_status r <= 999 /\ r0_version r <> 9 /\
  Forall (fun x => hdr_ok x = true) (r0_headers r) /\ names_lower (r0_headers r) /\
  (bodyless_status (r0_status r) = true -> r0_body r = []).
(** Package extensions may add and change headers, but leave version, status, [content-length] alone,
    keep the [http] crate's invariants and do not add [transfer-encoding] *)
Definition package_ok (pk : head -> head) : Prop := forall h,
  hd_version (pk h) = hd_version h /\ hd_status (pk h) = hd_status h /\
  (Forall (fun x => hdr_ok x = true) (hd_headers h) -> Forall (fun x => hdr_ok x = true) (hd_headers (pk h))) /\
  (filter (is_name s_transfer_encoding) (hd_headers h) = [] -> filter (is_name s_transfer_encoding) (hd_headers (pk h)) = []) /\
  filter (is_name s_content_length) (hd_headers (pk h)) = filter (is_name s_content_length) (hd_headers h).

Lemma package_id_ok : package_ok (fun h => h).
Proof. intros h. repeat split; auto. Qed.

Lemma has_header_false n hs : has_header n hs = false <-> filter (is_name n) hs = [].
Proof. apply existsb_filter_nil. Qed.
Lemma has_header_true n hs h t : filter (is_name n) hs = h :: t -> has_header n hs = true.
Proof.
  intros E. destruct (has_header n hs) eqn:H; [reflexivity|]. apply has_header_false in H. congruence.
Qed.

(** [ensure_length]: exactly one [content-length], the announced one, and no [transfer-encoding] *)
Lemma ensure_length_props l hs :
  Forall (fun x => hdr_ok x = true) hs -> names_lower hs ->
  Forall (fun x => hdr_ok x = true) (ensure_length l hs) /\ names_lower (ensure_length l hs) /\
  filter (is_name s_transfer_encoding) (ensure_length l hs) = [] /\
  filter (is_name s_content_length) (ensure_length l hs) = [(s_content_length, dec l)].
Proof.
  intros Hhs Hlo. unfold ensure_length.
  assert (H1 : Forall (fun x => hdr_ok x = true) (hm_insert s_content_length (dec l) hs)).
  { apply hm_insert_Forall; [|assumption]. unfold hdr_ok. cbn [fst snd]. rewrite value_ok_dec. reflexivity. }
  assert (H2 : names_lower (hm_insert s_content_length (dec l) hs)) by (apply hm_insert_lower; [reflexivity | assumption]).
  split; [apply hm_remove_Forall; assumption|]. split; [apply hm_remove_lower; assumption|].
  split; [apply filter_hm_remove_same; assumption|].
  rewrite filter_hm_remove_other; [|reflexivity]. apply filter_hm_insert_same; [reflexivity | assumption].
Qed.

Lemma connection_rule_props st hs :
  Forall (fun x => hdr_ok x = true) hs ->
  Forall (fun x => hdr_ok x = true) (connection_rule st hs) /\
  (forall a, (forall w, is_name a (s_connection, w) = false) ->
             filter (is_name a) (connection_rule st hs) = filter (is_name a) hs).
Proof.
  intros H. unfold connection_rule.
  assert (Hins : Forall (fun x => hdr_ok x = true) (hm_insert s_connection s_keep_alive hs))
    by (apply hm_insert_Forall; [reflexivity | assumption]).
  assert (Hcl : Forall (fun x => hdr_ok x = true) (hm_insert s_connection (B "close") hs))
    by (apply hm_insert_Forall; [reflexivity | assumption]).
  destruct (close_delimited_head st hs).
  { split; [assumption|]. intros a Ha. apply filter_hm_insert_other; assumption. }
  destruct (assoc s_connection hs) as [v|]; [destruct (to_str_ok v && negb (beq v (B "close")))|];
    (split; [assumption|]); intros a Ha; try reflexivity; apply filter_hm_insert_other; assumption.
Qed.

Lemma body_written_spec m body :
  body_written m body = if m =? M_HEAD then [] else body.
Proof.
  unfold body_written. destruct body as [|c body]; [destruct (m =? M_HEAD); reflexivity|].
  cbn [negb andb]. destruct (N.eqb_spec m M_HEAD) as [->|Hne].
  - reflexivity.
  - cbn [negb]. rewrite orb_true_r. reflexivity.
Qed.

Lemma bodyless_101 : bodyless_status 101 = true.
Proof. reflexivity. Qed.

Section SendProofs.
  Variable error_body : N -> option bytes -> bytes.
  Variable package : head -> head.
  Hypothesis Hpk : package_ok package.

  Lemma default_error_mid code msg : 100 <= code <= 999 -> bodyless_status code = false -> mid_ok (default_error error_body code msg).
  Proof.
    intros Hc Hb. unfold mid_ok, default_error.
    cbn [r0_status r0_version r0_headers r0_body].
    split; [lia|]. split; [discriminate|]. split; [|split].
    - destruct msg as [m|]; [destruct (value_ok m) eqn:E|]; repeat constructor.
      unfold hdr_ok. cbn [fst snd]. rewrite E. reflexivity.
    - destruct msg as [m|]; [destruct (value_ok m)|]; repeat constructor.
    - rewrite Hb. discriminate.
  Qed.

  (** the range step on a reply without a future whose 1xx/204/304 body was dropped *)
  Lemma apply_sanitize_mid r :
    100 <= r0_status r <= 999 -> r0_version r <> 9 ->
    Forall (fun x => hdr_ok x = true) (r0_headers r) -> names_lower (r0_headers r) ->
    (bodyless_status (r0_status r) = true -> r0_body r = []) ->
    match r0_sanitize r with Some (Some (s, e)) => s < e | _ => True end ->
    r0_future r = None ->
    exists r1, apply_sanitize error_body r = Ok r1 /\ mid_ok r1 /\ r0_future r1 = None.
  Proof.
    intros Hst Hv Hhs Hlo Hbl Hrg Hfu. unfold apply_sanitize.
    destruct (r0_sanitize r) as [rg|].
    2:{ exists r. split; [reflexivity|]. split; [|assumption]. repeat split; assumption || lia. }
    destruct (r0_status r =? 304).
    { exists r. split; [reflexivity|]. split; [|assumption]. repeat split; assumption || lia. }
    destruct (apply_range true rg (r0_status r) (r0_body r)) as [x|e|] eqn:E.
    - eexists. split; [reflexivity|]. cbn [r0_future]. split; [|assumption].
      destruct (apply_range_ok _ _ _ _ E) as [(-> & Es & Ecr & Eb) | (s & e & -> & Hs & Es & Ear & cr & Ecr & Hcr)].
      + rewrite Ecr. unfold mid_ok. cbn [r0_status r0_version r0_headers r0_body]. rewrite Es, Eb.
        destruct (r_accept_ranges x).
        * repeat split; try assumption; try lia.
          -- apply hm_insert_Forall; [reflexivity | assumption].
          -- apply hm_insert_lower; [reflexivity | assumption].
        * repeat split; try assumption; lia.
      + rewrite Ecr, Ear. unfold mid_ok. cbn [r0_status r0_version r0_headers r0_body]. rewrite Es.
        repeat split; try assumption.
        * destruct (r0_status r =? 200); lia.
        * destruct (r0_status r =? 200); lia.
        * apply hm_insert_Forall; [|assumption]. unfold hdr_ok. cbn [fst snd]. rewrite Hcr. reflexivity.
        * apply hm_insert_lower; [reflexivity | assumption].
        * intros Hb. destruct (N.eqb_spec (r0_status r) 200) as [E2|E2]; [vm_compute in Hb; discriminate|].
          rewrite (Hbl Hb) in Hs. cbn in Hs. lia.
    - eexists. split; [reflexivity|]. split; [|reflexivity]. apply default_error_mid; [lia | reflexivity].
    - exfalso. destruct rg as [[s e]|]; [|discriminate].
      exact (apply_range_no_panic s e _ _ (or_introl Hrg) E).
  Qed.

  (** the first steps of [send]: the body of a 1xx/204/304 dropped, the range applied unless the reply streams *)
  Definition pre_send (r : reply0) : outcome reply0 :=
    match r0_future (clear_bodyless r) with
    | Some _ => Ok (clear_bodyless r)
    | None => apply_sanitize error_body (clear_bodyless r)
    end.

  Lemma clear_bodyless_fields r :
    r0_status (clear_bodyless r) = r0_status r /\ r0_version (clear_bodyless r) = r0_version r /\
    r0_headers (clear_bodyless r) = r0_headers r /\ r0_sanitize (clear_bodyless r) = r0_sanitize r /\
    r0_future (clear_bodyless r) = r0_future r /\
    (bodyless_status (r0_status r) = true -> r0_body (clear_bodyless r) = []) /\
    (bodyless_status (r0_status r) = false -> r0_body (clear_bodyless r) = r0_body r).
  Proof.
    unfold clear_bodyless. destruct (bodyless_status (r0_status r)); cbn [r0_status r0_version r0_headers r0_sanitize r0_future r0_body];
      repeat split; try reflexivity; discriminate.
  Qed.

  Lemma pre_send_mid r : reply_ok r ->
    exists r1, pre_send r = Ok r1 /\ mid_ok r1 /\
      match r0_future r with
      | None => r0_future r1 = None
      | Some f => r0_future r1 = Some f /\ r0_headers r1 = r0_headers r /\ r0_body r1 = r0_body r /\
                  r0_status r1 = r0_status r
      end.
  Proof.
    intros (Hst & Hv & Hhs & Hlo & Hrg & Hso). unfold pre_send.
    destruct (clear_bodyless_fields r) as (Es & Ev & Eh & Esa & Ef & Eb1 & Eb2).
    rewrite Ef. destruct (r0_future r) as [f|] eqn:Efu.
    - exists (clear_bodyless r). split; [reflexivity|].
      assert (Hnb : bodyless_status (r0_status r) = false).
      { unfold stream_ok in Hso. rewrite Efu in Hso. destruct f as [[l|] cs]; tauto. }
      split.
      + unfold mid_ok. rewrite Es, Ev, Eh. repeat split; try assumption; try lia.
      + repeat split; try assumption. apply Eb2. assumption.
    - destruct (apply_sanitize_mid (clear_bodyless r)) as (r1 & E1 & Hm & Hf1).
      + rewrite Es. assumption.
      + rewrite Ev. assumption.
      + rewrite Eh. assumption.
      + rewrite Eh. assumption.
      + rewrite Es. assumption.
      + rewrite Esa. assumption.
      + congruence.
      + exists r1. split; [exact E1 | split; [exact Hm | exact Hf1]].
  Qed.

  (** every output of the send path: well formed for the strict client; unless the reply is a stream of
      unknown length, the announced length is the length of the representation whatever the method *)
  Lemma send_facts m r : reply_ok r ->
    exists r1 s, pre_send r = Ok r1 /\ send error_body package m r = Ok s /\
      ((hd_version (st_head s) = 10 \/ hd_version (st_head s) = 11) /\ 100 <= hd_status (st_head s) <= 999 /\
       Forall (fun x => hdr_ok x = true) (hd_headers (st_head s))) /\
      filter (is_name s_transfer_encoding) (hd_headers (st_head s)) = [] /\
      st_body s = (if m =? M_HEAD then [] else r0_body r1 ++ stream_bytes r1) /\
      (bodyless_status (hd_status (st_head s)) = true -> r0_body r1 ++ stream_bytes r1 = []) /\
      (forall m', exists s', send error_body package m' r = Ok s' /\ st_head s' = st_head s) /\
      (unframed r = false ->
       announced (hd_headers (st_head s)) = Some (N.of_nat (length (r0_body r1 ++ stream_bytes r1)))) /\
      (unframed r = true ->
       filter (is_name s_content_length) (hd_headers (st_head s)) = [] /\
       bodyless_status (hd_status (st_head s)) = false /\
       assoc s_connection (hd_headers (st_head s)) = Some (B "close")).
  Proof.
    intros Hr. destruct (pre_send_mid r Hr) as (r1 & E1 & (Hst & Hv & Hhs & Hlo & Hbl) & Hfut).
    destruct Hr as (_ & _ & _ & _ & _ & Hso).
    assert (Esend : forall m', send error_body package m' r = obind (pre_send r) (fun r1 =>
      let body := r0_body r1 in
      let hs2 := match r0_future r1 with
                 | Some (None, _) => r0_headers r1
                 | Some (Some len, _) => ensure_length len (r0_headers r1)
                 | None => ensure_length (N.of_nat (length body)) (r0_headers r1)
                 end in
      let h4 := package (mkHead (ensure_version (r0_version r1)) (r0_status r1) hs2) in
      Ok (mkSent (mkHead (hd_version h4) (hd_status h4) (connection_rule (hd_status h4) (hd_headers h4)))
                 (body_written m' body ++
                  (if (m' =? M_HEAD) && negb (hd_status h4 =? 101) then [] else stream_bytes r1))))) by reflexivity.
    set (hs2 := match r0_future r1 with
                | Some (None, _) => r0_headers r1
                | Some (Some len, _) => ensure_length len (r0_headers r1)
                | None => ensure_length (N.of_nat (length (r0_body r1))) (r0_headers r1)
                end).
    set (h3 := mkHead (ensure_version (r0_version r1)) (r0_status r1) hs2).
    destruct (Hpk h3) as (Pv & Ps & Ph & Pt & Pc).
    (* the head before the package: its headers, content-length and transfer-encoding *)
    assert (Hhs2 : Forall (fun x => hdr_ok x = true) hs2 /\
                   (unframed r = false ->
                    filter (is_name s_transfer_encoding) hs2 = [] /\
                    filter (is_name s_content_length) hs2 =
                      [(s_content_length, dec (N.of_nat (length (r0_body r1 ++ stream_bytes r1))))]) /\
                   (unframed r = true ->
                    filter (is_name s_transfer_encoding) hs2 = [] /\ filter (is_name s_content_length) hs2 = [] /\
                    bodyless_status (r0_status r1) = false) /\
                   filter (is_name s_transfer_encoding) hs2 = [] /\
                   (r0_future r1 <> None -> bodyless_status (r0_status r1) = false)).
    { unfold hs2, unframed, stream_bytes, stream_ok in *.
      destruct (r0_future r) as [[[l|] cs]|] eqn:Efu.
      - destruct Hfut as (Ef1 & Eh1 & Eb1 & Es1). rewrite Ef1. destruct Hso as [Hnb ->].
        destruct (ensure_length_props (N.of_nat (length (r0_body r) + length (concat cs))) _ Hhs Hlo) as (A1 & A2 & A3 & A4).
        split; [assumption|]. split; [|split; [discriminate|split; [assumption|intros _; rewrite Es1; assumption]]].
        intros _. split; [assumption|]. rewrite A4, app_length, Eb1. reflexivity.
      - destruct Hfut as (Ef1 & Eh1 & Eb1 & Es1). rewrite Ef1. destruct Hso as (Hnb & Hte & Hcl).
        assert (Hh : has_header s_transfer_encoding (r0_headers r) = false) by (apply has_header_false; assumption).
        assert (Hh2 : has_header s_content_length (r0_headers r) = false) by (apply has_header_false; assumption).
        rewrite Hh, Hh2. cbn [negb andb]. rewrite Eh1.
        split; [rewrite <- Eh1; assumption|]. split; [discriminate|].
        split; [intros _; rewrite Es1; repeat split; assumption|]. split; [assumption|]. intros _. rewrite Es1. assumption.
      - rewrite Hfut.
        destruct (ensure_length_props (N.of_nat (length (r0_body r1))) _ Hhs Hlo) as (A1 & A2 & A3 & A4).
        split; [assumption|]. split; [|split; [discriminate|split; [assumption|congruence]]].
        intros _. split; [assumption|]. rewrite A4, app_nil_r. reflexivity. }
    destruct Hhs2 as (Hok2 & Hfr & Hun & Hte2 & Hnb).
    assert (Ps' : hd_status (package h3) = r0_status r1) by (rewrite Ps; reflexivity).
    destruct (connection_rule_props (r0_status r1) (hd_headers (package h3)) (Ph Hok2)) as (Ch & Cf).
    (* the future's bytes are written unless the method is HEAD: the status is not 101 when there is a future *)
    assert (Hstr : forall m', (if (m' =? M_HEAD) && negb (r0_status r1 =? 101) then [] else stream_bytes r1)
                              = (if m' =? M_HEAD then [] else stream_bytes r1)).
    { intros m'. destruct (m' =? M_HEAD); [|reflexivity]. cbn [andb].
      destruct (N.eqb_spec (r0_status r1) 101) as [E101|_]; [|reflexivity]. cbn [negb].
      unfold stream_bytes. destruct (r0_future r1) as [f|] eqn:Ef; [|reflexivity].
      assert (Hf : bodyless_status (r0_status r1) = false) by (apply Hnb; discriminate).
      rewrite E101 in Hf. discriminate. }
    eexists r1, _. split; [exact E1|]. split; [rewrite Esend, E1; reflexivity|].
    cbn [st_head st_body hd_version hd_status hd_headers]. fold hs2. fold h3. rewrite !Ps'.
    split; [|split; [|split; [|split; [|split; [|split]]]]].
    - rewrite Pv. cbn [h3 hd_version]. split; [|split; [lia | exact Ch]].
      unfold ensure_version.
      destruct (N.eqb_spec (r0_version r1) 9) as [E9|_]; [congruence|].
      destruct (N.eqb_spec (r0_version r1) 10) as [->|_]; [left; reflexivity|].
      destruct (N.eqb_spec (r0_version r1) 11) as [->|_]; right; reflexivity.
    - rewrite Cf; [|reflexivity]. apply Pt. assumption.
    - rewrite Hstr, body_written_spec. destruct (m =? M_HEAD); reflexivity.
    - intros Hb.
      unfold stream_bytes. destruct (r0_future r1) as [f|] eqn:Ef.
      + assert (Hf : bodyless_status (r0_status r1) = false) by (apply Hnb; discriminate). congruence.
      + rewrite (Hbl Hb). reflexivity.
    - intros m'. eexists. split; [rewrite Esend, E1; reflexivity|].
      cbn [st_head hd_version hd_status hd_headers]. fold hs2. fold h3. rewrite !Ps'. reflexivity.
    - intros Hu. destruct (Hfr Hu) as (_ & Hcl2).
      unfold announced. rewrite Cf; [|reflexivity]. rewrite Pc. cbn [h3 hd_headers]. rewrite Hcl2.
      cbn [snd]. apply parse_length_dec.
    - intros Hu. destruct (Hun Hu) as (Hte3 & Hcl3 & Hnb3).
      assert (Hclp : filter (is_name s_content_length) (hd_headers (package h3)) = []) by (rewrite Pc; exact Hcl3).
      assert (Htep : filter (is_name s_transfer_encoding) (hd_headers (package h3)) = []) by (apply Pt; exact Hte3).
      split; [rewrite Cf; [assumption | reflexivity]|]. split; [assumption|].
      unfold connection_rule, close_delimited_head.
      apply has_header_false in Hclp. apply has_header_false in Htep. rewrite Hclp, Htep, Hnb3.
      cbn [orb negb]. apply assoc_hm_insert.
  Qed.

  (** under [reply_ok], "the connection is kept" = "the reply does not stream a body of unknown length" *)
  Lemma send_framed m r s : reply_ok r -> unframed r = false -> send error_body package m r = Ok s -> framed m s.
  Proof.
    intros Hr Hu Hs. destruct (send_facts m r Hr) as (r1 & s' & _ & Es & (Hv & Hst & Hhs) & Hte & Hb & Hbl & _ & Ha & _).
    rewrite Hs in Es. inversion Es; subst s'. specialize (Ha Hu). split.
    { unfold head_ok. repeat split; try assumption; try lia. apply existsb_filter_nil. assumption. }
    unfold is_head_method. destruct (N.eqb_spec m M_HEAD) as [->|Hne]; cbn [orb].
    - split; [assumption|]. unfold announced_ok_bodyless. unfold announced in Ha.
      destruct (filter (is_name s_content_length) (hd_headers (st_head s))) as [|h [|h2 t]]; try discriminate.
      rewrite Ha. reflexivity.
    - destruct (bodyless_status (hd_status (st_head s))) eqn:Eb.
      + rewrite Hb, (Hbl eq_refl). split; [reflexivity|].
        unfold announced_ok_bodyless. unfold announced in Ha.
        destruct (filter (is_name s_content_length) (hd_headers (st_head s))) as [|h [|h2 t]]; try discriminate.
        rewrite Ha. reflexivity.
      + rewrite Hb. assumption.
  Qed.

  Lemma send_never_panics m r : reply_ok r -> exists s, send error_body package m r = Ok s.
  Proof. intros Hr. destruct (send_facts m r Hr) as (r1 & s & _ & Es & _). eauto. Qed.

  (** [length_is_body]: content-length = number of body bytes written (body and streamed chunks), for every
      method but HEAD *)
  Lemma length_is_body_lemma m r s : reply_ok r -> unframed r = false -> m <> M_HEAD -> send error_body package m r = Ok s ->
    announced (hd_headers (st_head s)) = Some (N.of_nat (length (st_body s))).
  Proof.
    intros Hr Hu Hm Hs. destruct (send_facts m r Hr) as (r1 & s' & _ & Es & _ & _ & Hb & _ & _ & Ha & _).
    rewrite Hs in Es. inversion Es; subst s'. rewrite Hb.
    destruct (N.eqb_spec m M_HEAD); [contradiction | auto].
  Qed.

  (** [head_has_no_body]: for HEAD nothing follows the head - whether the body is held by the reply or
      streamed by its future - and the head, in particular the announced length, is the one GET gets for the
      same reply of [handle_cache] *)
  Lemma head_has_no_body_lemma r s : reply_ok r -> send error_body package M_HEAD r = Ok s ->
    st_body s = [] /\
    exists g, send error_body package M_GET r = Ok g /\ st_head g = st_head s /\
              (unframed r = false -> announced (hd_headers (st_head s)) = Some (N.of_nat (length (st_body g)))).
  Proof.
    intros Hr Hs.
    destruct (send_facts M_HEAD r Hr) as (r1 & s' & E1 & Es & _ & _ & Hb & _ & Hall & Ha & _).
    rewrite Hs in Es. inversion Es; subst s'. split; [exact Hb|].
    destruct (send_facts M_GET r Hr) as (r1' & g & E1' & Eg & _ & _ & Hbg & _ & _ & _ & _).
    rewrite E1 in E1'. inversion E1'; subst r1'.
    destruct (Hall M_GET) as (g' & Eg' & Hh). rewrite Eg in Eg'. inversion Eg'; subst g'.
    exists g. split; [assumption|]. split; [assumption|].
    intros Hu. rewrite Hbg. cbn. auto.
  Qed.

  Lemma send_close_framed m r s : reply_ok r -> unframed r = true -> send error_body package m r = Ok s ->
    close_framed m s /\ assoc s_connection (hd_headers (st_head s)) = Some (B "close") /\
    announced (hd_headers (st_head s)) = None.
  Proof.
    intros Hr Hu Hs. destruct (send_facts m r Hr) as (r1 & s' & _ & Es & (Hv & Hst & Hhs) & Hte & Hb & Hbl & _ & _ & Hc).
    rewrite Hs in Es. inversion Es; subst s'. destruct (Hc Hu) as (Hcl & Hnb & Hconn).
    split; [|split; [assumption | unfold announced; rewrite Hcl; reflexivity]].
    split.
    { unfold head_ok. repeat split; try assumption; try lia. apply existsb_filter_nil. assumption. }
    rewrite Hnb, orb_false_r. unfold is_head_method. destruct (N.eqb_spec m M_HEAD) as [->|Hne].
    - split; [assumption|]. unfold announced_ok_bodyless. rewrite Hcl. reflexivity.
    - left. assumption.
  Qed.
End SendProofs.

(** ------------------------------------------------------------------------------------------
    C. the connection
    ------------------------------------------------------------------------------------------ *)
Lemma forall2_length {X Y} (R : X -> Y -> Prop) l1 l2 : Forall2 R l1 l2 -> length l1 = length l2.
Proof. induction 1; cbn [length]; congruence. Qed.

Lemma framing_roundtrip_forall2 ms ss :
  Forall2 framed ms ss -> parse_responses ms (concat (map wire ss)) = Some (map observable ss).
Proof.
  induction 1 as [|m s ms ss Hf _ IH]; [reflexivity|].
  cbn [map concat parse_responses]. rewrite (parse_one_wire m s _ Hf), IH. reflexivity.
Qed.

Lemma fixed_head_framed m st (hs : list (bytes * bytes)) body v :
  100 <= st <= 999 -> bodyless_status st = false ->
  v = dec (N.of_nat (length body)) ->
  Forall (fun x => hdr_ok x = true) hs ->
  filter (is_name s_transfer_encoding) hs = [] ->
  filter (is_name s_content_length) hs = [(s_content_length, v)] ->
  framed m (mkSent (mkHead 11 st hs) (if m =? M_HEAD then [] else body)).
Proof.
  intros Hst Hb -> Hhs Hte Hcl. split.
  - unfold head_ok. cbn [st_head hd_version hd_status hd_headers].
    split; [right; reflexivity|]. split; [assumption|]. split; [assumption|]. apply existsb_filter_nil. assumption.
  - cbn [st_head st_body hd_status hd_headers]. rewrite Hb, orb_false_r. unfold is_head_method.
    destruct (m =? M_HEAD).
    + split; [reflexivity|]. unfold announced_ok_bodyless. rewrite Hcl. cbn [snd]. rewrite parse_length_dec. reflexivity.
    + unfold announced. rewrite Hcl. cbn [snd]. apply parse_length_dec.
Qed.

Lemma limited_framed tmb m : framed m (limited tmb true m).
Proof.
  unfold limited. cbn [andb].
  set (v := dec (N.of_nat (length tmb))).
  assert (E : connection_rule 429 (ensure_length (N.of_nat (length tmb))
            [(B "content-type", B "text/html; charset=utf-8"); (s_content_length, v); (B "content-encoding", B "identity")])
          = [(B "content-type", B "text/html; charset=utf-8"); (s_content_length, v); (B "content-encoding", B "identity");
             (s_connection, s_keep_alive)]) by reflexivity.
  rewrite E.
  apply (fixed_head_framed m 429 _ tmb v); try reflexivity; try lia.
  repeat constructor. unfold hdr_ok. cbn [fst snd]. unfold v. rewrite value_ok_dec. reflexivity.
Qed.

Lemma no_host_framed eb m : framed m (no_host eb true m).
Proof.
  unfold no_host. cbn [andb].
  set (body := r0_body (default_error eb 409 (Some (B "The host you're looking for wasn't found.")))).
  set (v := dec (N.of_nat (length body))).
  assert (E : connection_rule 409 (ensure_length (N.of_nat (length body))
               (r0_headers (default_error eb 409 (Some (B "The host you're looking for wasn't found.")))))
          = [(B "content-type", B "text/html; charset=utf-8"); (B "content-encoding", B "identity");
             (B "reason", B "The host you're looking for wasn't found."); (s_content_length, v);
             (s_connection, s_keep_alive)]) by reflexivity.
  rewrite E.
  apply (fixed_head_framed m 409 _ body v); try reflexivity; try lia.
  repeat constructor. unfold hdr_ok. cbn [fst snd]. unfold v. rewrite value_ok_dec. reflexivity.
Qed.

Arguments h_q {Q} h. Arguments h_body {Q} h. Arguments h_early {Q} h. Arguments h_action {Q} h.

Section BodyProofs.
  Variable Q : Type.
  Variable q_method : Q -> N.
  Variable q_content_length : Q -> option bytes.

  (** [unread_body]: with the repair, whatever part of the body the handler read ([lim]) and however the
      body was split ([h_early]), the connection stays usable iff the client sent exactly the declared
      body; if it sent less, the connection is closed after the response (end of stream / 30 s) *)
  Lemma after_body_spec (h : hreq Q) (lim : option N) :
    let declared := body_length (q_method (h_q h)) (q_content_length (h_q h)) in
    let total := N.of_nat (length (h_body h)) in
    N.min (N.of_nat (h_early h)) total <= declared ->
    match lim with Some l => N.min declared l | None => 0 end <= total ->
    after_body Q q_method q_content_length true h lim =
      if total =? declared then Open [] else if total <? declared then Closed else Unmodelled.
  Proof.
    intros declared total He Hw. unfold declared, total in *. clear declared total. unfold after_body.
    set (cl := body_length (q_method (h_q h)) (q_content_length (h_q h))) in *.
    set (tot := N.of_nat (length (h_body h))) in *.
    set (early := N.min (N.of_nat (h_early h)) tot) in *.
    set (want := match lim with Some l => N.min cl l | None => 0 end) in *.
    assert (Hwcl : want <= cl) by (unfold want; destruct lim; lia).
    assert (Het : early <= tot) by (unfold early; lia).
    destruct (N.ltb_spec cl early) as [|_]; [lia|].
    destruct (N.ltb_spec (tot - early) (want - N.min want early)) as [|_]; [lia|].
    destruct (N.eqb_spec tot cl) as [E|E].
    - destruct (N.eqb_spec (tot - early - (want - N.min want early)) (cl - early - (want - N.min want early))); [reflexivity | lia].
    - destruct (N.eqb_spec (tot - early - (want - N.min want early)) (cl - early - (want - N.min want early))); [lia|].
      destruct (N.ltb_spec tot cl);
        destruct (N.ltb_spec (tot - early - (want - N.min want early)) (cl - early - (want - N.min want early))); try reflexivity; lia.
  Qed.

End BodyProofs.

Section ConnProofs.
  Variables Q A : Type.
  Variable q_method : Q -> N.
  Variable q_content_length : Q -> option bytes.
  Variable q_known_host : Q -> bool.
  Variable q_head : Q -> bytes.
  Variable app : A -> Q -> A * reply0 * option N.
  Variable error_body : N -> option bytes -> bytes.
  Variable package : Q -> head -> head.
  Variable too_many_body : bytes.

  Let declared (h : hreq Q) : N := body_length (q_method (h_q h)) (q_content_length (h_q h)).
  Let total (h : hreq Q) : N := N.of_nat (length (h_body h)).

  (** a client in the property's scope: it talks to a configured host, is not past the limiter's drop
      level, and sends exactly the body it declares — in any split between the head's segment and later *)
  Definition polite (h : hreq Q) : Prop :=
    q_known_host (h_q h) = true /\ h_action h <> ADrop /\ total h = declared h.
  (** the application keeps an invariant [I] of its state (e.g. "every cached response is well formed") under
      which what it returns satisfies [reply_ok] *)
  Definition app_ok (I : A -> Prop) : Prop :=
    forall a q, I a -> reply_ok (snd (fst (app a q))) /\ unframed (snd (fst (app a q))) = false /\
                       I (fst (fst (app a q))).
  Definition packages_ok : Prop := forall q, package_ok (package q).

  Lemma after_body_polite (h : hreq Q) (lim : option N) :
    polite h -> after_body Q q_method q_content_length true h lim = Open [].
  Proof.
    intros (_ & _ & Ht). unfold total, declared in Ht. rewrite after_body_spec.
    - rewrite Ht, N.eqb_refl. reflexivity.
    - rewrite <- Ht. lia.
    - rewrite <- Ht. destruct lim; lia.
  Qed.

  Variable I : A -> Prop.
  Hypothesis Happ : app_ok I.
  Hypothesis Hpk : packages_ok.

  Lemma conn_polite : forall hs a, I a -> Forall polite hs ->
    exists ss,
      conn_run Q A q_method q_content_length q_known_host q_head app error_body package too_many_body true true a (Open []) hs
        = (map Some ss, Open []) /\
      serve_seq Q A q_method app error_body package too_many_body true a hs = map Ok ss /\
      Forall2 framed (map (fun h => q_method (h_q h)) hs) ss.
  Proof.
    induction hs as [|h hs IH]; intros a Ia Hp.
    - exists []. repeat split. constructor.
    - inversion Hp as [|? ? Hh Hrest]; subst. pose proof Hh as (Hk & Hd & Ht).
      cbn [conn_run serve_seq]. unfold conn_step. rewrite Hk. cbn [negb].
      destruct (h_action h) eqn:Ea; [| |congruence].
      + destruct (app a (h_q h)) as [[a' r] lim] eqn:Eapp.
        pose proof (Happ a (h_q h) Ia) as (Hr & Hu & Ia'). rewrite Eapp in Hr, Hu, Ia'. cbn [fst snd] in Hr, Hu, Ia'.
        destruct (send_never_panics error_body (package (h_q h)) (Hpk (h_q h)) (q_method (h_q h)) r Hr) as (s & Es).
        rewrite Es. rewrite (after_body_polite h lim Hh), Hu.
        destruct (IH a' Ia' Hrest) as (ss & E1 & E2 & E3). rewrite E1, E2.
        exists (s :: ss). repeat split. cbn [map]. constructor; [|assumption].
        exact (send_framed error_body (package (h_q h)) (Hpk (h_q h)) _ r s Hr Hu Es).
      + rewrite (after_body_polite h None Hh).
        destruct (IH a Ia Hrest) as (ss & E1 & E2 & E3). rewrite E1, E2.
        exists (limited too_many_body true (q_method (h_q h)) :: ss). repeat split.
        cbn [map]. constructor; [apply limited_framed | assumption].
  Qed.

  Lemma written_somes ss : written (map Some ss) = concat (map wire ss).
  Proof. unfold written. rewrite map_map. reflexivity. Qed.

  Lemma one_response_per_request_lemma hs a : I a -> Forall polite hs ->
    exists ss,
      conn_run Q A q_method q_content_length q_known_host q_head app error_body package too_many_body true true a (Open []) hs
        = (map Some ss, Open []) /\
      length ss = length hs /\
      serve_seq Q A q_method app error_body package too_many_body true a hs = map Ok ss /\
      parse_responses (map (fun h => q_method (h_q h)) hs) (written (map Some ss)) = Some (map observable ss).
  Proof.
    intros Ia Hp. destruct (conn_polite hs a Ia Hp) as (ss & E1 & E2 & E3). exists ss.
    split; [assumption|]. split.
    - apply forall2_length in E3. rewrite map_length in E3. symmetry. assumption.
    - split; [assumption|]. rewrite written_somes. apply framing_roundtrip_forall2. assumption.
  Qed.
End ConnProofs.

(** the same, with the hypothesis on the application stated along the run of this very history *)
Section PathProofs.
  Variables Q A : Type.
  Variable q_method : Q -> N.
  Variable q_content_length : Q -> option bytes.
  Variable q_known_host : Q -> bool.
  Variable q_head : Q -> bytes.
  Variable app : A -> Q -> A * reply0 * option N.
  Variable error_body : N -> option bytes -> bytes.
  Variable package : Q -> head -> head.
  Variable too_many_body : bytes.
  Hypothesis Hpk : packages_ok Q package.

  Fixpoint run_ok (a : A) (hs : list (hreq Q)) : Prop :=
    match hs with
    | [] => True
    | h :: rest =>
        match h_action h with
        | ASend => run_ok a rest
        | _ => reply_ok (snd (fst (app a (h_q h)))) /\ unframed (snd (fst (app a (h_q h)))) = false /\
               run_ok (fst (fst (app a (h_q h)))) rest
        end
    end.

  Lemma conn_polite_path : forall hs a, run_ok a hs -> Forall (polite Q q_method q_content_length q_known_host) hs ->
    exists ss,
      conn_run Q A q_method q_content_length q_known_host q_head app error_body package too_many_body true true a (Open []) hs
        = (map Some ss, Open []) /\
      length ss = length hs /\
      parse_responses (map (fun h => q_method (h_q h)) hs) (written (map Some ss)) = Some (map observable ss).
  Proof.
    assert (H : forall hs a, run_ok a hs -> Forall (polite Q q_method q_content_length q_known_host) hs ->
      exists ss,
        conn_run Q A q_method q_content_length q_known_host q_head app error_body package too_many_body true true a (Open []) hs
          = (map Some ss, Open []) /\
        Forall2 framed (map (fun h => q_method (h_q h)) hs) ss).
    { induction hs as [|h hs IH]; intros a Hrun Hp.
      - exists []. split; [reflexivity | constructor].
      - inversion Hp as [|? ? Hh Hrest]; subst. pose proof Hh as (Hk & Hd & Ht).
        cbn [conn_run run_ok] in *. unfold conn_step. rewrite Hk. cbn [negb].
        destruct (h_action h) eqn:Ea; [| |congruence].
        + destruct Hrun as (Hr & Hu & Hrun). destruct (app a (h_q h)) as [[a' r] lim] eqn:Eapp. cbn [fst snd] in Hr, Hu, Hrun.
          destruct (send_never_panics error_body (package (h_q h)) (Hpk (h_q h)) (q_method (h_q h)) r Hr) as (s & Es).
          rewrite Es. rewrite (after_body_polite Q q_method q_content_length q_known_host error_body h lim Hh), Hu.
          destruct (IH a' Hrun Hrest) as (ss & E1 & E3). rewrite E1.
          exists (s :: ss). split; [reflexivity|]. cbn [map]. constructor; [|assumption].
          exact (send_framed error_body (package (h_q h)) (Hpk (h_q h)) _ r s Hr Hu Es).
        + rewrite (after_body_polite Q q_method q_content_length q_known_host error_body h None Hh).
          destruct (IH a Hrun Hrest) as (ss & E1 & E3). rewrite E1.
          exists (limited too_many_body true (q_method (h_q h)) :: ss). split; [reflexivity|].
          cbn [map]. constructor; [apply limited_framed | assumption]. }
    intros hs a Hrun Hp. destruct (H hs a Hrun Hp) as (ss & E1 & E3). exists ss.
    split; [assumption|]. split.
    - apply forall2_length in E3. rewrite map_length in E3. symmetry. assumption.
    - rewrite written_somes. apply framing_roundtrip_forall2. assumption.
  Qed.

  (** the application state after a history (of requests the server answers) *)
  Fixpoint app_after (a : A) (hs : list (hreq Q)) : A :=
    match hs with
    | [] => a
    | h :: rest =>
        match h_action h with
        | ASend => app_after a rest
        | _ => app_after (fst (fst (app a (h_q h)))) rest
        end
    end.

  (** a history whose last request is answered by a stream of unknown length: every request is answered, in
      order; the last response announces no length and says [connection: close], the server closes the
      connection after it, and a client that reads the last body up to the end of the stream recovers every
      response *)
  Lemma closing_history_lemma : forall hs a h,
    run_ok a hs -> Forall (polite Q q_method q_content_length q_known_host) (hs ++ [h]) -> h_action h = APassed ->
    reply_ok (snd (fst (app (app_after a hs) (h_q h)))) -> unframed (snd (fst (app (app_after a hs) (h_q h)))) = true ->
    exists ss s,
      conn_run Q A q_method q_content_length q_known_host q_head app error_body package too_many_body true true a (Open []) (hs ++ [h])
        = (map Some (ss ++ [s]), Closed) /\
      length ss = length hs /\
      announced (hd_headers (st_head s)) = None /\ assoc s_connection (hd_headers (st_head s)) = Some (B "close") /\
      parse_closing (map (fun h => q_method (h_q h)) (hs ++ [h])) (written (map Some (ss ++ [s])))
        = Some (map observable (ss ++ [s])).
  Proof.
    assert (H : forall hs a h,
      run_ok a hs -> Forall (polite Q q_method q_content_length q_known_host) (hs ++ [h]) -> h_action h = APassed ->
      reply_ok (snd (fst (app (app_after a hs) (h_q h)))) -> unframed (snd (fst (app (app_after a hs) (h_q h)))) = true ->
      exists ss s,
        conn_run Q A q_method q_content_length q_known_host q_head app error_body package too_many_body true true a (Open []) (hs ++ [h])
          = (map Some (ss ++ [s]), Closed) /\
        Forall2 framed (map (fun h => q_method (h_q h)) hs) ss /\
        close_framed (q_method (h_q h)) s /\
        announced (hd_headers (st_head s)) = None /\ assoc s_connection (hd_headers (st_head s)) = Some (B "close")).
    { induction hs as [|h0 hs IH]; intros a h Hrun Hp Ha Hr Hu.
      - cbn [app_after] in Hr, Hu. cbn [Datatypes.app] in Hp. inversion Hp as [|? ? Hh _]; subst. pose proof Hh as (Hk & _ & _).
        cbn [Datatypes.app conn_run]. unfold conn_step. rewrite Hk, Ha. cbn [negb].
        destruct (app a (h_q h)) as [[a' r] lim] eqn:Eapp. cbn [fst snd] in Hr, Hu.
        destruct (send_never_panics error_body (package (h_q h)) (Hpk (h_q h)) (q_method (h_q h)) r Hr) as (s & Es).
        rewrite Es. rewrite (after_body_polite Q q_method q_content_length q_known_host error_body h lim Hh), Hu.
        destruct (send_close_framed error_body (package (h_q h)) (Hpk (h_q h)) _ r s Hr Hu Es) as (Hc & Hconn & Hann).
        exists [], s. cbn [Datatypes.app map conn_run]. split; [reflexivity|]. split; [constructor|]. split; [exact Hc | split; [exact Hann | exact Hconn]].
      - change ((h0 :: hs) ++ [h]) with (h0 :: (hs ++ [h])) in *.
        inversion Hp as [|? ? Hh Hrest]; subst. pose proof Hh as (Hk & Hd & Ht).
        cbn [conn_run run_ok app_after] in *. unfold conn_step. rewrite Hk. cbn [negb].
        destruct (h_action h0) eqn:Ea0; [| |congruence].
        + destruct Hrun as (Hr0 & Hu0 & Hrun). destruct (app a (h_q h0)) as [[a' r0] lim] eqn:Eapp. cbn [fst snd] in *.
          destruct (send_never_panics error_body (package (h_q h0)) (Hpk (h_q h0)) (q_method (h_q h0)) r0 Hr0) as (s0 & Es0).
          rewrite Es0. rewrite (after_body_polite Q q_method q_content_length q_known_host error_body h0 lim Hh), Hu0.
          destruct (IH a' h Hrun Hrest Ha Hr Hu) as (ss & s & E1 & E3 & Hc & Hann & Hconn). rewrite E1.
          exists (s0 :: ss), s. split; [reflexivity|]. split; [|split; [exact Hc | split; [exact Hann | exact Hconn]]].
          cbn [map]. constructor; [|assumption].
          exact (send_framed error_body (package (h_q h0)) (Hpk (h_q h0)) _ r0 s0 Hr0 Hu0 Es0).
        + rewrite (after_body_polite Q q_method q_content_length q_known_host error_body h0 None Hh).
          destruct (IH a h Hrun Hrest Ha Hr Hu) as (ss & s & E1 & E3 & Hc & Hann & Hconn). rewrite E1.
          exists (limited too_many_body true (q_method (h_q h0)) :: ss), s. split; [reflexivity|].
          split; [|split; [exact Hc | split; [exact Hann | exact Hconn]]]. cbn [map]. constructor; [apply limited_framed | assumption]. }
    intros hs a h Hrun Hp Ha Hr Hu. destruct (H hs a h Hrun Hp Ha Hr Hu) as (ss & s & E1 & E3 & Hc & Hann & Hconn).
    exists ss, s. split; [assumption|]. split.
    { apply forall2_length in E3. rewrite map_length in E3. symmetry. assumption. }
    split; [assumption|]. split; [assumption|].
    rewrite written_somes, !map_app, concat_app. cbn [map concat]. rewrite app_nil_r.
    apply closing_roundtrip; assumption.
  Qed.
End PathProofs.

(** the executable checks of Model/Http1Write.v imply the hypotheses *)
Lemma stream_okb_sound r : stream_okb r = true -> stream_ok r.
Proof.
  unfold stream_okb, stream_ok. destruct (r0_future r) as [[[l|] cs]|]; intros H; [| |exact Logic.I].
  - apply andb_true_iff in H as [H1 H2]. split; [destruct (bodyless_status (r0_status r)); [discriminate | reflexivity]|].
    apply N.eqb_eq in H2. exact H2.
  - apply andb_true_iff in H as [H H3]. apply andb_true_iff in H as [H1 H2].
    split; [destruct (bodyless_status (r0_status r)); [discriminate | reflexivity]|].
    split; apply has_header_false.
    + destruct (has_header s_transfer_encoding (r0_headers r)); [discriminate | reflexivity].
    + destruct (has_header s_content_length (r0_headers r)); [discriminate | reflexivity].
Qed.

Lemma reply_okb_sound r : reply_okb r = true -> reply_ok r.
Proof.
  unfold reply_okb, reply_ok. intros H.
  repeat (apply andb_true_iff in H; destruct H as [H ?]).
  split; [lia|]. split; [intros E; rewrite E in *; discriminate|].
  split; [apply Forall_forall; intros x Hx; eapply forallb_forall in Hx; eassumption|].
  split.
  { apply Forall_forall. intros x Hx.
    match goal with Hl : forallb (fun h => beq (lower (fst h)) (fst h)) _ = true |- _ =>
      eapply forallb_forall in Hl; [|exact Hx]; apply beq_eq in Hl; exact Hl end. }
  split; [|apply stream_okb_sound; assumption].
  destruct (r0_sanitize r) as [[[s e]|]|]; try exact Logic.I. lia.
Qed.

Lemma c8_politeb_sound h : c8_politeb h = true ->
  polite c8req (fun q => rq_method (q_req q)) c8_content_length (fun q => negb (q_nohost q)) h.
Proof.
  unfold c8_politeb, polite. intros H. repeat (apply andb_true_iff in H; destruct H as [H ?]).
  split; [assumption|]. split; [intros E; rewrite E in *; discriminate|]. lia.
Qed.

Lemma c8_hyps_sound cfg : forall hs st, c8_hyps cfg st hs = true ->
  run_ok c8req c8_state (fun st q => c8_app cfg st (q_req q)) st hs /\
  Forall (polite c8req (fun q => rq_method (q_req q)) c8_content_length (fun q => negb (q_nohost q))) hs.
Proof.
  induction hs as [|h hs IH]; intros st H; [split; [exact Logic.I | constructor]|].
  cbn [c8_hyps] in H. apply andb_true_iff in H as [Hp H]. apply c8_politeb_sound in Hp.
  cbn [run_ok].
  destruct (h_action h).
  - destruct (c8_app cfg st (q_req (h_q h))) as [[st' r] lim] eqn:E.
    apply andb_true_iff in H as [Hr H]. apply andb_true_iff in Hr as [Hr Hu].
    destruct (IH st' H) as [H1 H2]. cbn [fst snd].
    split; [split; [apply reply_okb_sound; assumption | split; [destruct (unframed r); [discriminate | reflexivity] | assumption]]|].
    constructor; assumption.
  - destruct (IH st H) as [H1 H2]. split; [assumption | constructor; assumption].
  - destruct (c8_app cfg st (q_req (h_q h))) as [[st' r] lim] eqn:E.
    apply andb_true_iff in H as [Hr H]. apply andb_true_iff in Hr as [Hr Hu].
    destruct (IH st' H) as [H1 H2]. cbn [fst snd].
    split; [split; [apply reply_okb_sound; assumption | split; [destruct (unframed r); [discriminate | reflexivity] | assumption]]|].
    constructor; assumption.
Qed.

(** every history of the correspondence run whose hypothesis bit (third field of [h1w.expect]) is 1 is an
    instance of the connection theorem: the model's run of it has the property, by proof *)
Lemma checked_history_lemma cfg reqs :
  c8_hyps cfg (c8_state0 cfg) (with_actions (c8_limit cfg) 1 reqs) = true ->
  exists ss, c8_run true true cfg reqs = (map Some ss, Open []) /\
             length ss = length (with_actions (c8_limit cfg) 1 reqs) /\
             parse_responses (map (fun h => rq_method (q_req (h_q h))) (with_actions (c8_limit cfg) 1 reqs))
                             (written (map Some ss)) = Some (map observable ss).
Proof.
  intros H. destruct (c8_hyps_sound cfg _ _ H) as [Hrun Hp]. unfold c8_run.
  apply (conn_polite_path c8req c8_state (fun q => rq_method (q_req q)) c8_content_length
           (fun q => negb (q_nohost q)) q_raw_head (fun st q => c8_app cfg st (q_req q)) hardcoded_error_body
           (fun _ h => h) TOO_MANY (fun q => package_id_ok) _ _ Hrun Hp).
Qed.

(** the executable check for a history that ends with a stream of unknown length *)
Lemma c8_hyps_closing_sound cfg : forall hs st k n, c8_hyps_closing cfg st hs k = Some n ->
  exists pre h post, hs = pre ++ h :: post /\ n = (k + length pre + 1)%nat /\
    run_ok c8req c8_state (fun st q => c8_app cfg st (q_req q)) st pre /\
    Forall (polite c8req (fun q => rq_method (q_req q)) c8_content_length (fun q => negb (q_nohost q)))
           (pre ++ [h]) /\
    h_action h = APassed /\
    reply_ok (snd (fst (c8_app cfg (app_after c8req c8_state (fun st q => c8_app cfg st (q_req q)) st pre) (q_req (h_q h))))) /\
    unframed (snd (fst (c8_app cfg (app_after c8req c8_state (fun st q => c8_app cfg st (q_req q)) st pre) (q_req (h_q h))))) = true.
Proof.
  induction hs as [|h hs IH]; intros st k n H; [discriminate|].
  cbn [c8_hyps_closing] in H. destruct (c8_politeb h) eqn:Ep; [|discriminate]. cbn [negb] in H.
  apply c8_politeb_sound in Ep.
  destruct (h_action h) eqn:Ea; [| |discriminate].
  - destruct (c8_app cfg st (q_req (h_q h))) as [[st' r] lim] eqn:E.
    destruct (reply_okb r) eqn:Er; [|discriminate]. cbn [negb] in H. apply reply_okb_sound in Er.
    destruct (unframed r) eqn:Eu.
    + inversion H; subst n. exists [], h, hs. cbn [Datatypes.app length app_after run_ok]. rewrite E. cbn [fst snd].
      split; [reflexivity|]. split; [lia|]. split; [exact Logic.I|]. split; [constructor; [assumption | constructor]|].
      split; [assumption|]. split; assumption.
    + destruct (IH st' (S k) n H) as (pre & h' & post & -> & -> & Hrun & Hp & Ha' & Hr' & Hu').
      exists (h :: pre), h', post. cbn [Datatypes.app length app_after run_ok]. rewrite Ea, E. cbn [fst snd].
      split; [reflexivity|]. split; [lia|]. split; [split; [assumption | split; assumption]|].
      split; [constructor; assumption|]. split; [assumption|]. split; assumption.
  - destruct (IH st (S k) n H) as (pre & h' & post & -> & -> & Hrun & Hp & Ha' & Hr' & Hu').
    exists (h :: pre), h', post. cbn [Datatypes.app length app_after run_ok]. rewrite Ea.
    split; [reflexivity|]. split; [lia|]. split; [assumption|].
    split; [constructor; assumption|]. split; [assumption|]. split; assumption.
Qed.

(** every history of the correspondence run whose fifth [h1w.expect] field is 1: up to and including the first
    answer that is a stream of unknown length it is an instance of [closing_history_lemma] (what is sent
    after that is not answered: [closed_is_silent_lemma]) *)
Lemma checked_closing_history_lemma cfg reqs n :
  c8_hyps_closing cfg (c8_state0 cfg) (with_actions (c8_limit cfg) 1 reqs) O = Some n ->
  exists pre h post ss s,
    with_actions (c8_limit cfg) 1 reqs = pre ++ h :: post /\ n = S (length pre) /\
    c8_run_hs true true cfg (pre ++ [h]) = (map Some (ss ++ [s]), Closed) /\ length ss = length pre /\
    announced (hd_headers (st_head s)) = None /\ assoc s_connection (hd_headers (st_head s)) = Some (B "close") /\
    parse_closing (map (fun h => rq_method (q_req (h_q h))) (pre ++ [h])) (written (map Some (ss ++ [s])))
      = Some (map observable (ss ++ [s])).
Proof.
  intros H. destruct (c8_hyps_closing_sound cfg _ _ _ _ H) as (pre & h & post & E & En & Hrun & Hp & Ha & Hr & Hu).
  destruct (closing_history_lemma c8req c8_state (fun q => rq_method (q_req q)) c8_content_length
              (fun q => negb (q_nohost q)) q_raw_head (fun st q => c8_app cfg st (q_req q)) hardcoded_error_body
              (fun _ h => h) TOO_MANY (fun q => package_id_ok) pre (c8_state0 cfg) h Hrun Hp Ha Hr Hu)
    as (ss & s & E1 & E2 & E3 & E4 & E5).
  exists pre, h, post, ss, s. split; [assumption|]. split; [lia|]. unfold c8_run_hs. repeat split; assumption.
Qed.

(** the failure modes of the loop: after the server closed, nothing more is written; a request beyond the
    limiter's drop level closes without an answer; a request for an unknown host gets a well-formed 409 and
    the connection is closed *)
Section CloseProofs.
  Variables Q A : Type.
  Variable q_method : Q -> N.
  Variable q_content_length : Q -> option bytes.
  Variable q_known_host : Q -> bool.
  Variable q_head : Q -> bytes.
  Variable app : A -> Q -> A * reply0 * option N.
  Variable error_body : N -> option bytes -> bytes.
  Variable package : Q -> head -> head.
  Variable too_many_body : bytes.
  Variables drain head_rule : bool.

  Lemma closed_is_silent_lemma (hs : list (hreq Q)) (a : A) :
    conn_run Q A q_method q_content_length q_known_host q_head app error_body package too_many_body drain head_rule a Closed hs
    = (map (fun _ => None) hs, Closed).
  Proof.
    induction hs as [|h hs IH]; [reflexivity|]. cbn [conn_run map]. rewrite IH. reflexivity.
  Qed.

  Lemma closing_requests_lemma (h : hreq Q) (a : A) :
    (q_known_host (h_q h) = false ->
     conn_step Q A q_method q_content_length q_known_host q_head app error_body package too_many_body drain true a [] h
     = (a, Some (no_host error_body true (q_method (h_q h))), Closed) /\
     framed (q_method (h_q h)) (no_host error_body true (q_method (h_q h)))) /\
    (q_known_host (h_q h) = true -> h_action h = ADrop ->
     conn_step Q A q_method q_content_length q_known_host q_head app error_body package too_many_body drain head_rule a [] h
     = (a, None, Closed)).
  Proof.
    split.
    - intros Hk. split; [|apply no_host_framed]. unfold conn_step. rewrite Hk. reflexivity.
    - intros Hk Ha. unfold conn_step. rewrite Hk, Ha. reflexivity.
  Qed.
End CloseProofs.

(** ---- witnesses: the code before the C08 repairs ---- *)
Definition w_cfg : c8cfg :=
  mkC8 (mkCfg true false true [] [] [] 500) [(B "/f.txt", B "0123456789abcdefghij")] [] 0 [].
Definition w_req (m t : bytes) (hs : list (bytes * bytes)) (body : bytes) (early : nat) : c8req * bytes * nat :=
  (mkC8req (d_request 0 m t hs) false (m ++ [32] ++ t ++ B " HTTP/1.1" ++ crlf), body, early).
(** POST to a file (405, body not read), the ten body bytes arrive after the head; then GET *)
Definition w_unread : list (c8req * bytes * nat) :=
  [ w_req (B "POST") (B "/f.txt") [(B "content-length", B "10")] (B "0123456789") 0;
    w_req (B "GET") (B "/f.txt") [] [] 0 ].
Definition statuses (os : list (option sent)) : list (option N) :=
  map (option_map (fun s => hd_status (st_head s))) os.

Lemma unread_body_v0_witness :
  (let '(os, fin) := c8_run false true w_cfg w_unread in
   statuses os = [Some 405; None] /\ fin = Closed /\ parse_responses [M_POST; M_GET] (written os) = None) /\
  (let '(os, fin) := c8_run true true w_cfg w_unread in
   statuses os = [Some 405; Some 200] /\ fin = Open [] /\
   option_map (map p_status) (parse_responses [M_POST; M_GET] (written os)) = Some [405; 200]).
Proof. vm_compute. repeat split. Qed.

(** a rate-limited HEAD: before the repair the 429 carried its body *)
Lemma limited_head_v0_witness :
  parse_responses [M_HEAD; M_GET] (wire (limited TOO_MANY false M_HEAD) ++ wire (limited TOO_MANY false M_GET)) = None /\
  option_map (map p_status)
    (parse_responses [M_HEAD; M_GET] (wire (limited TOO_MANY true M_HEAD) ++ wire (limited TOO_MANY true M_GET))) = Some [429; 429].
Proof. vm_compute. split; reflexivity. Qed.

(** what the two send paths write for a HEAD followed by a GET that get the same reply *)
Definition w_pair (snd_ : N -> reply0 -> outcome sent) (r : reply0) : bytes :=
  match snd_ M_HEAD r, snd_ M_GET r with Ok a, Ok c => wire a ++ wire c | _, _ => [] end.
Definition w_send := send hardcoded_error_body (fun h => h).
Definition w_send_v0 := send_v0 hardcoded_error_body (fun h => h).

(** a handler that answers 204 with a body: before the repair 89e2956 the body was written and the strict
    client lost the framing; now it is dropped *)
Definition w_204 : reply0 := mkR0 11 204 [] (B "oops") (Some None) None.
Lemma bodyless_with_body_witness :
  (exists s, w_send_v0 M_GET w_204 = Ok s /\ parse_responses [M_GET] (wire s) = None) /\
  (exists s, w_send M_GET w_204 = Ok s /\ st_body s = [] /\
             option_map (map p_status) (parse_responses [M_GET] (wire s)) = Some [204]).
Proof. split; eexists; (split; [vm_compute; reflexivity|]); vm_compute; repeat split. Qed.

(** a streamed reply (announced length 11, the future writes "hello " and "world"): before the repair
    d63bba7 the future ran for HEAD too *)
Definition w_stream : reply0 :=
  mkR0 11 200 [(B "content-type", B "text/plain")] [] (Some None) (Some (Some 11, [B "hello "; B "world"])).
Lemma head_stream_v0_witness :
  parse_responses [M_HEAD; M_GET] (w_pair w_send_v0 w_stream) = None /\
  option_map (map (fun p => (p_status p, p_body p))) (parse_responses [M_HEAD; M_GET] (w_pair w_send w_stream))
    = Some [(200, []); (200, B "hello world")].
Proof. vm_compute. split; reflexivity. Qed.

(** a stream of unknown length: before the repair 7334433 it went out without a length on a connection
    announced and kept as keep-alive - no client can tell where it ends; now the head says close and the
    server closes after it *)
Definition w_nolen : reply0 :=
  mkR0 11 200 [(B "content-type", B "text/plain")] [] (Some None) (Some (None, [B "abc"; B "defg"])).
Lemma unframed_stream_v0_witness :
  (exists s, w_send_v0 M_GET w_nolen = Ok s /\ announced (hd_headers (st_head s)) = None /\
             assoc s_connection (hd_headers (st_head s)) = Some s_keep_alive /\
             parse_responses [M_GET] (wire s) = None) /\
  (exists s, w_send M_GET w_nolen = Ok s /\ assoc s_connection (hd_headers (st_head s)) = Some (B "close") /\
             option_map (map p_body) (parse_closing [M_GET] (wire s)) = Some [B "abcdefg"]).
Proof. split; eexists; (split; [vm_compute; reflexivity|]); vm_compute; repeat split. Qed.

(** a reply that carries [transfer-encoding] (a reverse proxy passing on its upstream's header): before the
    repair 3c296af it went out beside [content-length] *)
Definition w_te : reply0 :=
  mkR0 11 200 [(B "content-type", B "text/plain"); (B "transfer-encoding", B "chunked")] (B "with te") (Some None) None.
Lemma te_with_length_v0_witness :
  (exists s, w_send_v0 M_GET w_te = Ok s /\ parse_responses [M_GET] (wire s) = None) /\
  (exists s, w_send M_GET w_te = Ok s /\
             option_map (map p_body) (parse_responses [M_GET] (wire s)) = Some [B "with te"]).
Proof. split; eexists; (split; [vm_compute; reflexivity|]); vm_compute; repeat split. Qed.

(** [extensions::stream_body] announces what it sends, for every file and every request it answers with a
    stream (after the repair 4cb2e2f; before, a range that reaches past the end of the file announced bytes
    that never came) *)
Lemma stream_body_announces_lemma content r f :
  stream_body_future true content r = Some f ->
  fst f = Some (N.of_nat (length (concat (snd f)))).
Proof.
  unfold stream_body_future. cbn [andb].
  destruct (stream_body_416 content r); [discriminate|].
  intros H. injection H as <-.
  cbn [fst snd concat]. rewrite app_nil_r, firstn_length, skipn_length. f_equal.
  destruct (stream_body_range r) as [[s e]|]; lia.
Qed.
(** ... and it answers with a stream unless the request's range starts at or after the end of the file
    (d675f8a: that request gets the 416 page and no future) *)
Lemma stream_body_refuses_lemma content r :
  stream_body_future true content r = None <->
  exists s e, sanitize_range (header (B "range") r) = Ok (Some (s, e)) /\ N.of_nat (length content) <= s.
Proof.
  unfold stream_body_future, stream_body_416, stream_body_range. cbn [andb].
  destruct (sanitize_range (header (B "range") r)) as [[[s e]|]|c|].
  - destruct (N.of_nat (length content) <=? s) eqn:Hle.
    + split; [intros _; exists s, e; split; [reflexivity|lia] | reflexivity].
    + split; [discriminate|]. intros (s' & e' & Heq & Hs). injection Heq as <- <-. lia.
  - split; [discriminate|]. intros (s' & e' & Heq & _). discriminate.
  - split; [discriminate|]. intros (s' & e' & Heq & _). discriminate.
  - split; [discriminate|]. intros (s' & e' & Heq & _). discriminate.
Qed.
(** ... and for a request with a range (start < end, as [sanitize_request] hands it over) the streamed answer is
    a 206 whose [content-range] names exactly the bytes the future sends, at least one, out of the whole file
    (d675f8a; before, such a request got 200 and no [content-range]) *)
Lemma stream_body_content_range_lemma content r s e0 f :
  stream_body_range r = Some (s, e0) -> s < e0 ->
  stream_body_future true content r = Some f ->
  let n := N.of_nat (length (concat (snd f))) in
  0 < n /\
  stream_body_head content r
  = (206, [(B "content-range", B "bytes " ++ dec s ++ B "-" ++ dec (s + n - 1) ++ B "/" ++ dec (N.of_nat (length content)))]) /\
  concat (snd f) = firstn (N.to_nat n) (skipn (N.to_nat s) content).
Proof.
  intros Hrg Hse. unfold stream_body_future, stream_body_head, stream_body_416. rewrite Hrg. cbn [andb].
  destruct (N.of_nat (length content) <=? s) eqn:Hle; [discriminate|].
  intros H. injection H as <-. cbn [snd concat]. rewrite app_nil_r.
  set (flen := N.of_nat (length content)) in *.
  assert (Hlen : N.of_nat (length (firstn (N.to_nat (N.min (N.min e0 flen) flen - N.min s (N.min (N.min e0 flen) flen)))
                                         (skipn (N.to_nat s) content))) = N.min e0 flen - s).
  { rewrite firstn_length, skipn_length. subst flen. lia. }
  cbv zeta. rewrite Hlen. split; [lia|]. split.
  - replace (s + (N.min e0 flen - s) - 1) with (N.min e0 flen - 1) by lia. reflexivity.
  - f_equal. lia.
Qed.
Lemma stream_body_range_v0_witness :
  exists content r f, stream_body_future false content r = Some f /\
                      fst f <> Some (N.of_nat (length (concat (snd f)))).
Proof.
  exists (B "0123456789"), (d_request 0 (B "GET") (B "/s/file.txt") [(B "range", B "bytes=0-99")]).
  eexists. split; [vm_compute; reflexivity|]. vm_compute. discriminate.
Qed.
