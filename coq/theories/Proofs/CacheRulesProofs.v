(** C03 — which vary rules the cache model applies to a path (Model/CacheX.v [rules_for_x]): those of the most specific
    pattern added to the host's rule set, by C14's theorem about [RuleSet::get] (Proofs/RuleSetProofs.v). *)
From KV Require Import Bytes RustInt Range CacheControl Cache Fixture CacheX CacheRules RuleSetStd RuleSet RuleSetProofs.
Open Scope N_scope.

Definition rules_or_none (o : option (list vrule)) : list vrule := match o with Some rs => rs | None => [] end.

(** the rules of a path are those of the independent resolver over the history of [add_mut] calls *)
Lemma rules_for_x_resolve rules p : rules_for_x p rules = rules_or_none (resolve rules p).
Proof. unfold rules_for_x. rewrite rs_get_build_resolve. reflexivity. Qed.

(** an exact rule for the path wins against every pattern that covers the path too, whatever their lengths *)
Lemma exact_rule_wins rules p rs :
  is_wild p = false -> last_added rules p = Some rs -> rules_for_x p rules = rs.
Proof.
  intros W L. rewrite rules_for_x_resolve.
  assert (Hin : In p (map fst rules)) by (eapply last_added_in; exact L).
  assert (Hc : covers p p = true) by (unfold covers; rewrite W; apply beq_refl).
  destruct (resolve rules p) as [r|] eqn:E.
  - apply resolve_some_meaning in E. destruct E as (q & Hq & Hqc & Hmax & Hl).
    assert (q = p) as ->.
    { pose proof (Hmax p Hin Hc) as M. destruct (is_wild q) eqn:Wq.
      - rewrite (ms_exact_beats_wild p q W Wq) in M. discriminate.
      - unfold covers in Hqc. rewrite Wq in Hqc. apply beq_eq in Hqc. exact Hqc. }
    rewrite L in Hl. inversion Hl. reflexivity.
  - exfalso. pose proof (proj1 (resolve_none rules p) E p Hin) as F. rewrite Hc in F. discriminate.
Qed.

(** without an exact rule: the longest pattern that covers the path *)
Lemma longest_pattern_wins rules p q rs :
  (forall x, In x (map fst rules) -> covers x p = true -> is_wild x = true /\ (length x <= length q)%nat) ->
  is_wild q = true -> covers q p = true -> last_added rules q = Some rs -> rules_for_x p rules = rs.
Proof.
  intros Hall W C L. rewrite rules_for_x_resolve.
  assert (Hin : In q (map fst rules)) by (eapply last_added_in; exact L).
  replace (resolve rules p) with (Some rs); [reflexivity|]. symmetry. apply resolve_some_meaning.
  exists q. repeat split; try assumption.
  intros x Hx Hxc. destruct (Hall x Hx Hxc) as [Wx Len]. unfold more_specific. rewrite Wx, W. cbn [Bool.eqb].
  apply PeanoNat.Nat.ltb_ge. exact Len.
Qed.

(** the seeded change C03-7: sorted by length first, the pattern "/lang*" (6 bytes) shadows the exact rule "/lang"
    (5 bytes): the item of "/lang" is built with the pattern's rules, the two x-w variants of the page fall into one
    slot (equal tuples), although the page's own rules tell them apart *)
Lemma length_first_shadows_exact_refuted_w :
  rules_for_x (B "/lang") w8_rules = [(B "x-w", 0, B "dw")] /\
  rules_for_len_first (B "/lang") w8_rules = [(B "x-v", 0, B "dv")] /\
  tuple_of_rules (rules_for_x (B "/lang") w8_rules) (w8_req (B "sv")) <> tuple_of_rules (rules_for_x (B "/lang") w8_rules) (w8_req (B "en")) /\
  tuple_of_rules (rules_for_len_first (B "/lang") w8_rules) (w8_req (B "sv")) =
  tuple_of_rules (rules_for_len_first (B "/lang") w8_rules) (w8_req (B "en")).
Proof. repeat split; try (vm_compute; reflexivity). vm_compute. discriminate. Qed.
