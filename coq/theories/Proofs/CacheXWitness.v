(** C03 / C04 — witnesses on the faithful model of the code BEFORE each repair made in the repo worktree
    (the flags [fix_* = false] of Model/CacheX.v); every witness was replayed on the real code through the
    harness before the repair (component pipex.run). *)
From KV Require Import Bytes RustInt Range CacheControl Cache Fixture CacheX.
Open Scope N_scope.

Definition w_cfg (default_ext : bool) (handlers : list hspec) (vary : list (bytes * list vrule)) : config :=
  mkCfg true default_ext true handlers vary [] 500.
Definition w_A : hspec := mkH (B "/v") 2 200 (B "a=") [] SP_FULL 0 false [].
Definition w_xh (b : hspec) : xhandler := mkXH (B "/v") (B "x-v") [mkBeh (B "a") w_A 0 0; mkBeh (B "b") b 0 0].
Definition w_vary : list (bytes * list vrule) := [(B "/v", [(B "x-v", 0, B "d")])].
Definition w_req (v : bytes) : request := mkReq M_GET (B "/v") None [(B "x-v", v)] 1.

(** ---- handle_vary_missing pushed every computed variant (repo commit 8fe98d4) ---- *)
(** page /v varies on x-v; variant "a" is cacheable, the handler declares NO server caching for variant "b" *)
Definition w1_cx : configx :=
  mkCfgX (w_cfg false [] w_vary) [w_xh (mkH (B "/v") 2 200 (B "b=") [] SP_NONE 0 false [])] 0 None false true true true true true.
Definition w1_ops : list opx := [XReq (w_req (B "a")); XReq (w_req (B "b"))].

Lemma vary_push_admission_refuted_w :
  exists k e v,
    xc_find k (fst (fst (run_cfgx_state true w1_cx w1_ops))) = Some e /\ In v (ex_vars e) /\
    may_store_x true (sfilter_fix (cx_sfilter w1_cx)) M_GET (v_resp v) = false.
Proof.
  exists (KPath (B "/v")). eexists. eexists. split; [vm_compute; reflexivity|]. split; [left; reflexivity|].
  vm_compute. reflexivity.
Qed.
(** ... and the third request for variant "b" is answered without invoking the handler *)
Lemma vary_push_served_refuted_w :
  exists rp, nth 2 (run_cfgx true w1_cx (w1_ops ++ [XReq (w_req (B "b"))])) XbNone = XbReply rp [] /\
             rx_from_cache rp = true /\ rx_body rp = B "b=2".
Proof. eexists. split; [vm_compute; reflexivity|]. split; reflexivity. Qed.

(** variant "b" carries max-age=1, variant "a" never expires: "b" is served 2.5 s after it was stored *)
Definition w2_cx : configx :=
  mkCfgX (w_cfg false [] w_vary) [w_xh (mkH (B "/v") 2 200 (B "b=") [(B "cache-control", B "max-age=1")] SP_FULL 0 false [])]
         0 None false true true true true true.
Definition w2_ops : list opx := [XReq (w_req (B "a")); XReq (w_req (B "b")); XWait 2500].

Lemma variant_lifetime_refuted_w :
  exists k e c1 v L,
    let st := run_cfgx_state true w2_cx w2_ops in
    xlookup (w_req (B "b")) (fst (fst st)) (snd st) = ((k, Some e), c1) /\
    xv_find [B "b"] (ex_vars e) = Some v /\ lifetime_x (v_resp v) = Some L /\ L < snd st - v_stored v.
Proof.
  do 5 eexists. cbv zeta. split; [vm_compute; reflexivity|]. split; [vm_compute; reflexivity|].
  split; [vm_compute; reflexivity|]. vm_compute. reflexivity.
Qed.

(** ---- the insert key was built from the request URI, the lookup key from the override URI (9992768) ---- *)
Definition w3_cx : configx :=
  mkCfgX (w_cfg false [mkH (B "/p") 0 200 (B "page") [] SP_FULL 0 false []; mkH (B "/./int") 0 200 (B "internal") [] SP_FULL 0 false []] [])
         [] 0 (Some (B "x-int", B "/./int")) true false true true true true.
Definition w3_ops : list opx :=
  [XReq (mkReq M_GET (B "/p") None [(B "x-int", B "1")] 1); XReq (mkReq M_GET (B "/p") None [] 1)].
Definition bodies (l : list obsx) : list bytes := map (fun o => match o with XbReply rp _ => rx_body rp | _ => [] end) l.

Lemma override_poisons_refuted_w :
  bodies (run_cfgx true w3_cx w3_ops) = [B "internal"; B "internal"] /\
  bodies (run_cfgx false w3_cx w3_ops) = [B "internal"; B "page"].
Proof. split; vm_compute; reflexivity. Qed.

(** ---- clear_page keyed the URI as given, not what the default redirect makes of it (8ff8142) ---- *)
Definition w4_cx : configx :=
  mkCfgX (w_cfg true [mkH (B "/a/index.html") 2 200 (B "n=") [] SP_FULL 0 false []] []) [] 0 None true true false true true true.
Definition w4_r : request := mkReq M_GET (B "/a/") None [] 1.

Lemma clear_unprimed_refuted_w :
  exists o1 rp, run_cfgx true w4_cx [XReq w4_r; XClearPage w4_r; XReq w4_r] = [o1; XbCleared true false; XbReply rp []] /\
                rx_from_cache rp = true /\ rx_body rp = B "n=1".
Proof. do 2 eexists. split; [vm_compute; reflexivity|]. split; reflexivity. Qed.

(** ---- a stream without length got a vary header from the cached-item arm only (00528a6) ---- *)
Definition w5_cx : configx :=
  mkCfgX (w_cfg false [] w_vary) [mkXH (B "/v") (B "x-v") [mkBeh (B "a") w_A 0 0; mkBeh (B "b") (mkH (B "/v") 2 200 (B "b=") [] SP_FULL 0 false []) 0 1]]
         0 None true true true false true true.
Definition vary_of (l : list obsx) : list (option bytes) :=
  map (fun o => match o with XbReply rp _ => assoc (B "vary") (rx_headers rp) | _ => None end) l.

Lemma stream_vary_refuted_w :
  nth 1 (vary_of (run_cfgx true w5_cx w1_ops)) None = Some (B "accept-encoding, x-v") /\
  nth 1 (vary_of (run_cfgx false w5_cx w1_ops)) None = None.
Proof. split; vm_compute; reflexivity. Qed.

(** ---- a query-dependent variant joined an entry keyed by the path alone (the last repair) ---- *)
(** page /v varies on x-v; variant "a" is Full (static), variant "b" is QueryMatters (echoes path?query) *)
Definition w6_cx : configx :=
  mkCfgX (w_cfg false [] w_vary)
         [mkXH (B "/v") (B "x-v") [mkBeh (B "a") (mkH (B "/v") 0 200 (B "static-a") [] SP_FULL 0 false []) 0 0;
                                    mkBeh (B "b") (mkH (B "/v") 1 200 (B "b:") [] SP_QUERY 0 false []) 0 0]]
         0 None true true true true false true.
Definition w6_req (q v : bytes) : request := mkReq M_GET (B "/v") (Some q) [(B "x-v", v)] 1.
Definition w6_ops : list opx := [XReq (w6_req (B "x=1") (B "a")); XReq (w6_req (B "x=1") (B "b")); XReq (w6_req (B "x=2") (B "b"))].

Lemma qm_variant_refuted_w :
  bodies (run_cfgx true w6_cx w6_ops) = [B "static-a"; B "b:/v?x=1"; B "b:/v?x=1"] /\
  bodies (run_cfgx false w6_cx w6_ops) = [B "static-a"; B "b:/v?x=1"; B "b:/v?x=2"].
Proof. split; vm_compute; reflexivity. Qed.

(** ---- 304 was decided before the variant was looked up (the last repair) ---- *)
(** the handler declares NO server caching for variant "b"; the page has an entry (variant "a"): a request for "b"
    with If-Modified-Since = the scenario start was answered 304 without invoking the handler *)
Definition w7_cx : configx :=
  mkCfgX (w_cfg false [] w_vary) [w_xh (mkH (B "/v") 2 200 (B "b=") [] SP_NONE 0 false [])] 0 None true true true true true false.
Definition w7_ops : list opx :=
  [XReq (w_req (B "a")); XReq (mkReq M_GET (B "/v") None [(B "x-v", B "b"); (B "if-modified-since", B "@T+0")] 1)].
Lemma ims_unstored_variant_refuted_w :
  exists rp, nth 1 (run_cfgx true w7_cx w7_ops) XbNone = XbReply rp [] /\ rx_status rp = 304.
Proof. eexists. split; [vm_compute; reflexivity | reflexivity]. Qed.
