(** Proofs about Model/UrlCrawl.v: the repaired [LinkIter] never panics, for every filter function and every
    text; the code as it was panics on a quote that is not closed before the end of the data. *)
From Coq Require Import Lia List Bool.
From Coq Require Import ZifyBool ZifyNat ZifyN.
From KV Require Import Bytes RustInt UrlCrawl.
Import ListNotations.
Open Scope N_scope.

Lemma slice_chk_ok' lo hi (s : bytes) : (lo <= hi)%nat -> (hi <= length s)%nat -> slice_chk lo hi s = Ok (slice lo hi s).
Proof.
  intros H1 H2. unfold slice_chk, slice_get.
  replace (Nat.leb lo hi && Nat.leb hi (length s))%bool with true; [reflexivity|].
  symmetry. apply andb_true_iff. split; apply Nat.leb_le; assumption.
Qed.

Lemma quote_illegal_bound inter final data : forall lws e n,
  quote_illegal inter final data lws e = Some n -> (e <= n <= e + length data)%nat.
Proof.
  induction data as [|b r IH]; intros lws e n; cbn [quote_illegal length].
  - intros H; inversion H; subst. lia.
  - destruct (b =? final); [intros H; inversion H; subst; lia|].
    destruct (_ || _ || _ || _)%bool; [discriminate|].
    destruct (_ && _ && _)%bool; [discriminate|].
    intros H. apply IH in H. lia.
Qed.

Lemma is_quote_type byte : is_quote byte = true -> exists qt, quote_type byte = Ok qt.
Proof.
  unfold is_quote, quote_type. destruct (byte =? q_double); [eauto|]. destruct (byte =? q_single); [eauto|].
  destruct (byte =? q_back); [eauto|]. discriminate.
Qed.

(** [next_quote] on a suffix of [all]: every slice is inside. *)
Lemma next_quote_ok filter inter all : forall rest pos li inv,
  (pos + length rest = length all)%nat ->
  exists r, next_quote filter inter all rest pos li inv = Ok r /\
            match fst (fst r) with
            | Some fd => (f_advance fd <= S (length all))%nat /\ (0 < f_advance fd)%nat
            | None => True
            end.
Proof.
  induction rest as [|byte r IH]; intros pos li inv Hpos; cbn [next_quote].
  - eexists; split; [reflexivity|exact I].
  - cbn [length] in Hpos.
    destruct (0 <? inv); [apply IH; lia|].
    destruct (0 <? utf8_skip byte); [apply IH; lia|].
    destruct (negb li && is_quote byte && filter all pos)%bool eqn:Econd; [|apply IH; lia].
    apply andb_true_iff in Econd as [Econd _]. apply andb_true_iff in Econd as [_ Hq].
    destruct (is_quote_type byte Hq) as [qt ->]. cbn [obind].
    rewrite slice_chk_ok' by lia. cbn [obind].
    destruct (quote_illegal inter byte (slice (S pos) (length all) all) false 0) as [ending|] eqn:Eq; [|apply IH; lia].
    apply quote_illegal_bound in Eq. rewrite slice_length in Eq by lia.
    destruct (2 <? ending)%nat eqn:E2; [|apply IH; lia].
    rewrite slice_chk_ok' by (rewrite ?slice_length; lia). cbn [obind].
    destruct (slice 0 ending (slice (S pos) (length all) all)) as [|q0 qr]; [apply IH; lia|].
    rewrite slice_chk_ok' by lia. cbn [obind].
    eexists; split; [reflexivity|]. cbn [fst f_advance]. lia.
Qed.

Lemma link_items_ok filter inter : forall fuel data li inv,
  exists l, link_items false filter inter fuel data li inv = Ok l.
Proof.
  induction fuel as [|f IH]; intros data li inv; cbn [link_items]; [eauto|].
  destruct data as [|d0 dr]; [eauto|].
  destruct (next_quote_ok filter inter (d0 :: dr) (d0 :: dr) 0 li inv eq_refl) as ([[fo li'] inv'] & -> & _).
  cbn [obind]. destruct fo as [fd|]; [|eauto].
  cbn [obind]. destruct (IH (match slice_get (f_advance fd) (length (d0 :: dr)) (d0 :: dr) with Some d => d | None => [] end) li' inv') as [l ->].
  cbn [obind]. eauto.
Qed.

(** The repaired iterator: every filter, both settings of [interdomain_links], every text. *)
Lemma link_iter_no_panic filter inter data : link_iter false filter inter data <> Panic.
Proof. unfold link_iter. destruct (link_items_ok filter inter (S (length data)) data false 0) as [l ->]. discriminate. Qed.

(** The code as it was: an img tag whose src attribute value is cut off ([unclosed]) — the text [get_urls] (the resource filter) meets when an HTML document ends
    inside an attribute value. *)
Definition unclosed : bytes := Eval vm_compute in B "<img src=" ++ [34] ++ B "/abc".
Lemma link_iter_v0_panics :
  link_iter true filter_resource false unclosed = Panic /\ link_iter true filter_absolute false unclosed = Panic /\
  link_iter false filter_resource false unclosed = Ok [IPath (B "/abc") (B "<img src=" ++ [34]) 1].
Proof. vm_compute. repeat split. Qed.
