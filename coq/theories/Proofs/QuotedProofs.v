(** C19 — proofs about the model of [encode_quoted_str] / [quoted_str_split]. *)
From KV Require Import Bytes Quoted.
From Coq Require Import ZifyBool ZifyNat ZifyN.
Open Scope N_scope.

(** ---- the splitter inside a double-quoted section ------------------------------------ *)

Definition in_dq (cur : str) (cq : bool) : split_state :=
  {| quotes := QDouble; current := cur; escaped := 0; closed_quote := cq |}.

Lemma step_dq_plain cur cq c :
  c <> c_dquote -> c <> c_bslash ->
  split_step (in_dq cur cq) c = (in_dq (cur ++ [c]) cq, None).
Proof.
  intros Hd Hb. apply N.eqb_neq in Hd, Hb.
  unfold split_step, in_dq. cbn [quotes current escaped closed_quote quoted negb].
  rewrite Hb. cbn [andb]. rewrite andb_false_r, Hd.
  change (0 =? 1) with false. cbn iota.
  destruct (c =? c_squote); reflexivity.
Qed.

Lemma step_dq_escaped_dquote cur cq rest :
  split_from (in_dq cur cq) (c_bslash :: c_dquote :: rest) = split_from (in_dq (cur ++ [c_dquote]) cq) rest.
Proof. reflexivity. Qed.

Lemma step_dq_escaped_bslash cur cq rest :
  split_from (in_dq cur cq) (c_bslash :: c_bslash :: rest) = split_from (in_dq (cur ++ [c_bslash]) cq) rest.
Proof. reflexivity. Qed.

(** The invariant of the round trip: reading the encoded body of [s] inside double quotes
    appends exactly [s] to [current], emits nothing, and comes back to [escaped = 0]. *)
Lemma split_encoded_body s : forall cur cq rest,
  split_from (in_dq cur cq) (flat_map encode_char s ++ rest) = split_from (in_dq (cur ++ s) cq) rest.
Proof.
  induction s as [|c s IH]; intros cur cq rest.
  - cbn [flat_map app]. rewrite app_nil_r. reflexivity.
  - cbn [flat_map]. rewrite <- app_assoc. unfold encode_char at 1.
    replace (cur ++ c :: s) with ((cur ++ [c]) ++ s) by (rewrite <- app_assoc; reflexivity).
    destruct (N.eqb_spec c c_dquote) as [->|Hd].
    + cbn [app]. rewrite step_dq_escaped_dquote. apply IH.
    + destruct (N.eqb_spec c c_bslash) as [->|Hb].
      * cbn [app]. rewrite step_dq_escaped_bslash. apply IH.
      * cbn [app split_from]. rewrite (step_dq_plain cur cq c Hd Hb). apply IH.
Qed.

(** One encoded argument at a token boundary: it is returned whole at the end of input ... *)
Lemma split_one_encoded s : split_from split_init (encode_quoted_str s) = [s].
Proof.
  unfold encode_quoted_str. cbn [app].
  change (split_from split_init (c_dquote :: flat_map encode_char s ++ [c_dquote]))
    with (split_from (in_dq [] false) (flat_map encode_char s ++ [c_dquote])).
  rewrite split_encoded_body. cbn [app].
  cbn [split_from]. unfold split_step, in_dq, split_end.
  cbn. rewrite orb_true_r. reflexivity.
Qed.

(** ... and at the separating space, which leaves the splitter in its initial state. *)
Lemma split_encoded_then_space s rest :
  split_from split_init (encode_quoted_str s ++ c_space :: rest) = s :: split_from split_init rest.
Proof.
  unfold encode_quoted_str. cbn [app]. rewrite <- app_assoc. cbn [app].
  change (split_from split_init (c_dquote :: flat_map encode_char s ++ c_dquote :: c_space :: rest))
    with (split_from (in_dq [] false) (flat_map encode_char s ++ c_dquote :: c_space :: rest)).
  rewrite split_encoded_body. cbn [app].
  cbn [split_from]. unfold split_step at 1, in_dq. cbn.
  rewrite andb_false_r. reflexivity.
Qed.

(** ---- the round trip ------------------------------------------------------------------------ *)

Lemma split_join_encoded l : quoted_str_split (join_sp (map encode_quoted_str l)) = l.
Proof.
  unfold quoted_str_split. induction l as [|a l IH].
  - reflexivity.
  - destruct l as [|b r].
    + cbn [map join_sp]. apply split_one_encoded.
    + change (join_sp (map encode_quoted_str (a :: b :: r)))
        with (encode_quoted_str a ++ [c_space] ++ join_sp (map encode_quoted_str (b :: r))).
      cbn [app]. rewrite split_encoded_then_space. f_equal. exact IH.
Qed.

(** The wire format is injective: two argument vectors with the same encoding are equal. *)
Lemma join_encoded_injective l1 l2 :
  join_sp (map encode_quoted_str l1) = join_sp (map encode_quoted_str l2) -> l1 = l2.
Proof.
  intros H. rewrite <- (split_join_encoded l1), <- (split_join_encoded l2), H. reflexivity.
Qed.

(** ---- the two folds that build the line are that join ------------------------------------------ *)

Definition sp_enc (a : str) : str := c_space :: encode_quoted_str a.

Lemma fold_push_encoded args : forall acc,
  fold_left (fun acc arg => acc ++ [c_space] ++ encode_quoted_str arg) args acc = acc ++ flat_map sp_enc args.
Proof.
  induction args as [|a r IH]; intros acc; cbn [fold_left flat_map].
  - rewrite app_nil_r. reflexivity.
  - rewrite IH. rewrite <- app_assoc. reflexivity.
Qed.

Lemma join_encoded_cons a r :
  join_sp (map encode_quoted_str (a :: r)) = encode_quoted_str a ++ flat_map sp_enc r.
Proof.
  revert a; induction r as [|b r IH]; intros a.
  - cbn [map join_sp flat_map]. rewrite app_nil_r. reflexivity.
  - change (join_sp (map encode_quoted_str (a :: b :: r)))
      with (encode_quoted_str a ++ [c_space] ++ join_sp (map encode_quoted_str (b :: r))).
    rewrite IH. reflexivity.
Qed.

Lemma ping_data_is_join args : ping_data args = join_sp (map encode_quoted_str args).
Proof.
  unfold ping_data, ping_fold. rewrite fold_push_encoded. cbn [app].
  destruct args as [|a r]; [reflexivity|].
  rewrite join_encoded_cons. reflexivity.
Qed.

Lemma client_message_is_join command a args :
  client_message command (a :: args) = join_sp (map encode_quoted_str (command :: a :: args)).
Proof.
  unfold client_message. rewrite fold_push_encoded, join_encoded_cons. reflexivity.
Qed.

Lemma split_ping_data args : quoted_str_split (ping_data args) = args.
Proof. rewrite ping_data_is_join. apply split_join_encoded. Qed.

Lemma split_client_message command a args :
  quoted_str_split (client_message command (a :: args)) = command :: a :: args.
Proof. rewrite client_message_is_join. apply split_join_encoded. Qed.

(** A command typed without arguments is sent as it is: it arrives as one token exactly when it
    is a plain word. *)
Definition plain_char (c : N) : bool :=
  negb ((c =? c_space) || (c =? c_dquote) || (c =? c_squote) || (c =? c_bslash)).

Definition in_plain (cur : str) : split_state :=
  {| quotes := QNo; current := cur; escaped := 0; closed_quote := false |}.

Lemma step_plain cur c : plain_char c = true -> split_step (in_plain cur) c = (in_plain (cur ++ [c]), None).
Proof.
  unfold plain_char. intros H. apply negb_true_iff in H.
  apply orb_false_iff in H as [H Hb]. apply orb_false_iff in H as [H Hs]. apply orb_false_iff in H as [Hsp Hd].
  unfold split_step, in_plain. cbn [quotes current escaped closed_quote quoted negb].
  rewrite Hb, Hsp, Hd, Hs. reflexivity.
Qed.

Lemma split_plain_word w : forall cur, forallb plain_char w = true ->
  split_from (in_plain cur) w = if is_empty (cur ++ w) then [] else [cur ++ w].
Proof.
  induction w as [|c w IH]; intros cur H.
  - rewrite app_nil_r. cbn [split_from]. unfold split_end, in_plain. cbn [current closed_quote].
    rewrite orb_false_r. destruct cur; reflexivity.
  - cbn [forallb] in H. apply andb_true_iff in H as [Hc Hw].
    cbn [split_from]. rewrite (step_plain cur c Hc). rewrite IH by exact Hw.
    rewrite <- app_assoc. reflexivity.
Qed.

Lemma split_client_message_noargs command :
  command <> [] -> forallb plain_char command = true ->
  quoted_str_split (client_message command []) = [command].
Proof.
  intros Hne Hp. unfold quoted_str_split, client_message.
  change split_init with (in_plain []). rewrite split_plain_word by exact Hp.
  cbn [app]. destruct command; [contradiction|reflexivity].
Qed.

(** ---- [escaped] never exceeds 1: the [_ => {}] arm is dead and [escaped += 1] cannot overflow --- *)

Lemma split_step_escaped st c : escaped st <= 1 -> escaped (fst (split_step st c)) <= 1.
Proof.
  intros H. unfold split_step.
  destruct (N.eqb_spec c c_bslash) as [->|Hb]; cbn [andb].
  - destruct (N.eqb_spec (escaped st + 1) 1) as [E1|E1]; [cbn; lia|].
    destruct (N.eqb_spec (escaped st + 1) 2) as [E2|E2]; [cbn; lia|].
    lia.
  - destruct (N.eqb_spec (escaped st) 1) as [E1|E1]; [cbn; lia|].
    assert (E0 : escaped st = 0) by lia.
    repeat match goal with
           | |- context [if ?b then _ else _] => destruct b
           | |- context [match ?q with QNo => _ | QSingle => _ | QDouble => _ end] => destruct q
           end; cbn [fst escaped]; lia.
Qed.

Fixpoint run_state (st : split_state) (s : str) : split_state :=
  match s with [] => st | c :: r => run_state (fst (split_step st c)) r end.

Lemma reachable_escaped_le_1 s : escaped (run_state split_init s) <= 1.
Proof.
  assert (G : forall st, escaped st <= 1 -> escaped (run_state st s) <= 1).
  { induction s as [|c r IH]; intros st H; cbn [run_state]; [exact H|].
    apply IH. apply split_step_escaped. exact H. }
  apply G. cbn. lia.
Qed.

(** ---- the splitter invents nothing: for EVERY input (encoded by kvarnctl or typed by hand, with
    unbalanced quotes, dangling backslashes, ...) the tokens, laid end to end, are the input with
    some characters (separators, quotes, escaping backslashes) left out ----------------------------- *)

Lemma split_step_shape st c :
  match snd (split_step st c) with
  | None => current (fst (split_step st c)) = current st
            \/ current (fst (split_step st c)) = current st ++ [c]
  | Some t => t = current st /\ current (fst (split_step st c)) = []
  end.
Proof.
  unfold split_step.
  destruct (N.eqb_spec c c_bslash) as [->|Hb]; cbn [andb].
  - repeat match goal with
           | |- context [if ?b then _ else _] => destruct b
           | |- context [match ?q with QNo => _ | QSingle => _ | QDouble => _ end] => destruct q
           end; cbn [fst snd current]; auto.
  - repeat match goal with
           | |- context [if ?b then _ else _] => destruct b
           | |- context [match ?q with QNo => _ | QSingle => _ | QDouble => _ end] => destruct q
           end; cbn [fst snd current]; auto.
Qed.

Lemma subseq_nil s : subseq [] s.
Proof. induction s as [|c r IH]; [apply sub_nil | apply sub_skip, IH]. Qed.

Lemma subseq_length x s : subseq x s -> (length x <= length s)%nat.
Proof. induction 1; cbn [length]; lia. Qed.

Lemma split_from_subseq s : forall st,
  exists x, concat (split_from st s) = current st ++ x /\ subseq x s.
Proof.
  induction s as [|c r IH]; intros st; cbn [split_from].
  - exists []. split; [|apply sub_nil]. unfold split_end.
    destruct (current st) as [|a cur] eqn:Ec; cbn [is_empty negb orb].
    + destruct (closed_quote st); reflexivity.
    + cbn [concat]. rewrite !app_nil_r. reflexivity.
  - pose proof (split_step_shape st c) as Hs.
    destruct (split_step st c) as [st' [t|]]; cbn [fst snd] in Hs.
    + destruct Hs as [-> Hc]. destruct (IH st') as [x [Hx Hsub]].
      exists x. split; [|apply sub_skip, Hsub].
      cbn [concat]. rewrite Hx, Hc. reflexivity.
    + destruct (IH st') as [x [Hx Hsub]]. destruct Hs as [Hc|Hc].
      * exists x. split; [|apply sub_skip, Hsub]. rewrite Hx, Hc. reflexivity.
      * exists (c :: x). split; [|apply sub_take, Hsub].
        rewrite Hx, Hc, <- app_assoc. reflexivity.
Qed.

Lemma split_subseq s : subseq (concat (quoted_str_split s)) s.
Proof.
  unfold quoted_str_split. destruct (split_from_subseq s split_init) as [x [Hx Hsub]].
  rewrite Hx. exact Hsub.
Qed.

Lemma split_no_amplification s : (length (concat (quoted_str_split s)) <= length s)%nat.
Proof. apply subseq_length, split_subseq. Qed.

(** premises are not needed; the statement is not vacuous: a hand-typed line with an unbalanced quote *)
Example split_subseq_example :
  quoted_str_split [112; 32; 34; 97; 32; 92; 98] = [[112]; [97; 32; 98]].
Proof. vm_compute. reflexivity. Qed.

(** ---- lines compose: after a prefix that leaves the splitter outside quotes and outside an
    escape, a space starts afresh — what follows cannot change the tokens before it, and the
    tokens after it are those of the rest alone ------------------------------------------------- *)

Fixpoint emitted (st : split_state) (s : str) : list str :=
  match s with
  | [] => []
  | c :: r => match split_step st c with
              | (st', None) => emitted st' r
              | (st', Some t) => t :: emitted st' r
              end
  end.

Lemma split_from_app a : forall st r,
  split_from st (a ++ r) = emitted st a ++ split_from (run_state st a) r.
Proof.
  induction a as [|c a IH]; intros st r; cbn [app emitted run_state split_from]; [reflexivity|].
  destruct (split_step st c) as [st' [t|]]; cbn [fst]; rewrite IH; reflexivity.
Qed.

Lemma split_from_space_fresh st b :
  quotes st = QNo -> escaped st = 0 ->
  split_from st (c_space :: b) = split_end st ++ split_from split_init b.
Proof.
  destruct st as [q cur e cq]; cbn [quotes escaped]; intros -> ->.
  cbn [split_from]. unfold split_step, split_end; cbn [quotes current escaped closed_quote quoted negb].
  replace (c_space =? c_bslash) with false by reflexivity.
  replace (0 =? 1) with false by reflexivity.
  replace (c_space =? c_space) with true by reflexivity. cbn [andb].
  destruct cur as [|x cur]; cbn [is_empty negb andb orb].
  - destruct cq; reflexivity.
  - reflexivity.
Qed.

Lemma split_compose a b :
  quotes (run_state split_init a) = QNo -> escaped (run_state split_init a) = 0 ->
  quoted_str_split (a ++ c_space :: b) = quoted_str_split a ++ quoted_str_split b.
Proof.
  intros Hq He. unfold quoted_str_split.
  rewrite split_from_app, (split_from_space_fresh _ b Hq He), app_assoc.
  f_equal. rewrite <- (app_nil_r a) at 3. rewrite split_from_app. reflexivity.
Qed.

(** ... in particular after every message kvarnctl encodes: what follows the space after it is
    split on its own and cannot reach back into the message. *)
Lemma split_encoded_prefix l : forall b,
  quoted_str_split (join_sp (map encode_quoted_str l) ++ c_space :: b) = l ++ quoted_str_split b.
Proof.
  unfold quoted_str_split. induction l as [|a l IH]; intros b.
  - cbn [map join_sp app]. rewrite split_from_space_fresh by reflexivity. reflexivity.
  - destruct l as [|a' r].
    + cbn [map join_sp]. rewrite split_encoded_then_space. reflexivity.
    + change (join_sp (map encode_quoted_str (a :: a' :: r)))
        with (encode_quoted_str a ++ [c_space] ++ join_sp (map encode_quoted_str (a' :: r))).
      rewrite <- !app_assoc. cbn [app]. rewrite split_encoded_then_space.
      cbn [app]. f_equal. apply IH.
Qed.

(** ---- the wire form of an argument is at most twice its length plus the two quotes ------------ *)
Lemma encode_char_length c : (1 <= length (encode_char c) <= 2)%nat.
Proof. unfold encode_char. destruct (c =? c_dquote); [cbn; lia|]. destruct (c =? c_bslash); cbn; lia. Qed.

Lemma encode_length s :
  (length s + 2 <= length (encode_quoted_str s) <= 2 * length s + 2)%nat.
Proof.
  unfold encode_quoted_str. rewrite !app_length. cbn [length].
  assert (H : (length s <= length (flat_map encode_char s) <= 2 * length s)%nat).
  { induction s as [|c r IH]; cbn [flat_map length]; [lia|].
    rewrite app_length. pose proof (encode_char_length c). lia. }
  lia.
Qed.
