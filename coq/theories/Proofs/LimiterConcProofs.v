(** C12 — proofs about Model/LimiterConc.v (concurrent calls of [register]). *)
From KV Require Import Bytes RustInt Limiter LimiterProofs LimiterConc.
From Coq Require Import ZifyBool ZifyNat ZifyN.
Open Scope N_scope.
Arguments N.add : simpl never. Arguments N.sub : simpl never. Arguments N.mul : simpl never.
Arguments N.eqb : simpl never. Arguments N.ltb : simpl never. Arguments N.leb : simpl never.
Arguments N.div : simpl never. Arguments N.modulo : simpl never. Arguments N.max : simpl never.
Arguments N.of_nat : simpl never. Arguments N.to_nat : simpl never.

(** * Lists of threads *)
Lemma upd_length {A} (x : A) : forall l i, length (upd i x l) = length l.
Proof. induction l as [|y r IH]; intros [|j]; cbn [upd length]; try reflexivity. rewrite IH. reflexivity. Qed.

Lemma nth_upd_same {A} (x : A) : forall l i y, nth_error l i = Some y -> nth_error (upd i x l) i = Some x.
Proof.
  induction l as [|z r IH]; intros [|j] y H; cbn [upd nth_error] in *; try discriminate; [reflexivity|].
  eapply IH; eassumption.
Qed.

Lemma Forall_upd {A} (P : A -> Prop) (x : A) : forall l i, Forall P l -> P x -> Forall P (upd i x l).
Proof.
  induction l as [|z r IH]; intros [|j] Hl Hx; cbn [upd]; try constructor; inversion Hl; subst; auto.
Qed.

(** * The map *)
Lemma map_get_clear_shard shard i b m v :
  map_get b (clear_shard shard i m) = Some v -> map_get b m = Some v.
Proof.
  unfold clear_shard. induction m as [|[k w] r IH]; cbn [filter map_get fst]; [discriminate|].
  destruct (Nat.eqb (shard k) i) eqn:Es; cbn [negb map_get].
  - intros H. specialize (IH H). destruct (N.eqb_spec k b) as [E|E]; [|exact IH].
    (* the first binding of [b] is the cleared one: then every binding of [b] is cleared *)
    exfalso. subst k. clear IH. revert H. induction r as [|[k2 w2] r2 IH2]; cbn [filter map_get fst]; [discriminate|].
    destruct (Nat.eqb (shard k2) i) eqn:Es2; cbn [negb map_get]; [exact IH2|].
    destruct (N.eqb_spec k2 b) as [E2|E2]; [subst; congruence|exact IH2].
  - destruct (N.eqb_spec k b); [tauto|exact IH].
Qed.

Lemma verdict_ok checked cfg r : r <= third -> verdict checked cfg r = Ok (ladder (max_requests cfg) r).
Proof.
  intros Hr. unfold verdict, ladder.
  destruct (N.leb_spec r (max_requests cfg)) as [Hle|Hgt]; [reflexivity|].
  unfold mul3_usize. rewrite usize_val. unfold third in Hr.
  replace (3 * max_requests cfg <=? 18446744073709551615) with true by lia. reflexivity.
Qed.

Lemma rets_cons b i a d log : rets b ((i, a, d) :: log) = (if a =? b then 1 else 0) + rets b log.
Proof. reflexivity. Qed.

Lemma rets_le_length b log : rets b log <= N.of_nat (length log).
Proof. unfold rets. pose proof (count_le_length b (map e_addr log)) as H. rewrite map_length in H. exact H. Qed.

Lemma rets_app b l1 l2 : rets b (l1 ++ l2) = rets b l1 + rets b l2.
Proof. unfold rets. rewrite map_app. apply count_app. Qed.

(** * One access: what it does to the map and what it may return

    [f b] bounds the count of [b] in the map (it will be the number of returned calls of [b]). *)
Lemma cstep_bound checked cfg nsh shard sh a p now n (f : N -> N) :
  c_iter sh <= n -> n + 1 <= third ->
  (forall b v, map_get b (c_map sh) = Some v -> v <= f b) -> (forall b, f b <= n) ->
  c_iter (fst (fst (cstep checked cfg nsh shard sh a p now))) <= n + 1 /\
  match snd (cstep checked cfg nsh shard sh a p now) with
  | None => forall b v, map_get b (c_map (fst (fst (cstep checked cfg nsh shard sh a p now)))) = Some v -> v <= f b
  | Some d =>
      (forall b v, map_get b (c_map (fst (fst (cstep checked cfg nsh shard sh a p now)))) = Some v
                   -> v <= (if a =? b then 1 else 0) + f b) /\
      exists act, d = Ok act /\ action_code act <= action_code (ladder (max_requests cfg) (1 + f a))
  end.
Proof.
  intros Hit Hfit Hmap Hf.
  assert (Hpass : forall m, action_code Passed <= action_code (ladder (max_requests cfg) m)).
  { intros m. cbn [action_code]. lia. }
  assert (Hweak : forall b v, map_get b (c_map sh) = Some v -> v <= (if a =? b then 1 else 0) + f b).
  { intros b v H. specialize (Hmap b v H). destruct (a =? b); lia. }
  destruct p; cbn [cstep].
  - (* Idle *)
    destruct (N.eqb_spec (check_every cfg) usize_max) as [Hd|Hd]; cbn [fst snd].
    + split; [lia|]. split; [exact Hweak|]. exists Passed. split; [reflexivity|apply Hpass].
    + unfold inc_usize. rewrite usize_val. unfold third in Hfit.
      replace (c_iter sh + 1 <=? 18446744073709551615) with true by lia.
      assert (Hmod : (c_iter sh + 1) mod (18446744073709551615 + 1) = c_iter sh + 1).
      { apply N.mod_small. lia. }
      destruct (c_iter sh + 1 <? check_every cfg); cbn [fst snd with_iter c_iter c_map]; rewrite Hmod.
      * split; [lia|]. split; [exact Hweak|]. exists Passed. split; [reflexivity|apply Hpass].
      * split; [lia|exact Hmap].
  - (* Fetched *) cbn [fst snd with_iter c_iter c_map]. split; [lia|exact Hmap].
  - (* Stored *) cbn [fst snd]. split; [lia|exact Hmap].
  - (* GotSecs *)
    destruct (window_over (reset_after cfg) (now - time_of s (c_nanos sh))); cbn [fst snd]; (split; [lia|exact Hmap]).
  - (* Resetting *) cbn [fst snd with_secs c_iter c_map]. split; [lia|exact Hmap].
  - (* Updating *) cbn [fst snd with_nanos c_iter c_map]. split; [lia|exact Hmap].
  - (* Clearing *)
    destruct (Nat.ltb (S i) nsh); cbn [fst snd with_map c_iter c_map].
    + split; [lia|]. intros b v H. apply (Hmap b v). eapply map_get_clear_shard; exact H.
    + split; [lia|]. split.
      * intros b v H. apply Hweak. eapply map_get_clear_shard; exact H.
      * exists Passed. split; [reflexivity|apply Hpass].
  - (* Counting *)
    unfold entry_bump.
    assert (Hcur : match map_get a (c_map sh) with Some c => c <= f a | None => True end).
    { destruct (map_get a (c_map sh)) as [c|] eqn:E; [apply (Hmap a c E)|exact I]. }
    assert (Hbump : exists r, r <= 1 + f a /\
              match map_get a (c_map sh) with
              | None => Ok (1, map_set a 1 (c_map sh))
              | Some c => match inc_usize checked c with
                          | Ok c' => Ok (c', map_set a c' (c_map sh))
                          | Err e => Err e
                          | Panic => Panic
                          end
              end = Ok (r, map_set a r (c_map sh))).
    { destruct (map_get a (c_map sh)) as [c|].
      - exists (c + 1). split; [lia|]. unfold inc_usize. rewrite usize_val. unfold third in Hfit. specialize (Hf a).
        replace (c + 1 <=? 18446744073709551615) with true by lia. reflexivity.
      - exists 1. split; [lia|reflexivity]. }
    destruct Hbump as (r & Hr & ->). cbn [fst snd with_map c_iter c_map].
    split; [lia|]. split.
    + intros b v. destruct (N.eqb_spec a b) as [E|E].
      * subst b. rewrite map_get_set_same. intros H. injection H as <-. lia.
      * rewrite (map_get_set_other a b _ _ E). intros H. specialize (Hmap b v H). lia.
    + exists (ladder (max_requests cfg) r). split.
      * apply verdict_ok. specialize (Hf a). lia.
      * apply ladder_mono. exact Hr.
Qed.

(** * The invariant of every reachable world: counts in the map are bounded by the returned
      calls of their address, and every returned verdict by the ladder on them. *)
Record winv (cfg : config) (n : N) (w : world) : Prop := {
  wi_iter : c_iter (w_sh w) <= n;
  wi_len : N.of_nat (length (w_log w)) <= n;
  wi_map : forall b v, map_get b (c_map (w_sh w)) = Some v -> v <= rets b (w_log w);
  wi_log : forall l2 i b d l1, w_log w = l2 ++ (i, b, d) :: l1 ->
             exists act, d = Ok act /\
               action_code act <= action_code (ladder (max_requests cfg) (rets b ((i, b, d) :: l1)))
}.

Lemma winv_start cfg t0 progs : winv cfg 0 (wstart t0 progs).
Proof.
  constructor; cbn [wstart w_sh w_log cinit c_iter c_map length map_get]; try lia; try discriminate.
  intros [|x l2] i b d l1 H; discriminate.
Qed.

Lemma winv_mono cfg n m w : winv cfg n w -> n <= m -> winv cfg m w.
Proof. intros [H1 H2 H3 H4] Hle. constructor; try assumption; lia. Qed.

Lemma wstep_inv checked cfg nsh shard n w e :
  winv cfg n w -> n + 1 <= third -> winv cfg (n + 1) (wstep checked cfg nsh shard w e).
Proof.
  intros Hinv Hfit. unfold wstep.
  destruct (nth_error (w_thr w) (fst e)) as [th|]; [|eapply winv_mono; [exact Hinv|lia]].
  destruct (t_todo th) as [|a rest]; [eapply winv_mono; [exact Hinv|lia]|].
  destruct Hinv as [Hit Hlen Hmap Hlog].
  pose proof (cstep_bound checked cfg nsh shard (w_sh w) a (t_pc th) (snd e) n (fun b => rets b (w_log w)) Hit Hfit Hmap) as Hc.
  destruct Hc as [Hit' Hres].
  { intros b. pose proof (rets_le_length b (w_log w)). lia. }
  destruct (cstep checked cfg nsh shard (w_sh w) a (t_pc th) (snd e)) as [[sh' p'] r]. cbn [fst snd] in *.
  destruct r as [d|].
  - destruct Hres as [Hmap' (act & Hd & Hact)].
    constructor; cbn [w_sh w_log length].
    + exact Hit'.
    + lia.
    + intros b v H. rewrite rets_cons. apply Hmap'. exact H.
    + intros l2 i b d' l1 Heq. destruct l2 as [|x l2]; cbn [app] in Heq.
      * injection Heq as <- <- <- <-. exists act. split; [exact Hd|].
        rewrite rets_cons, N.eqb_refl. exact Hact.
      * injection Heq as _ Heq. apply (Hlog l2 i b d' l1 Heq).
  - constructor; cbn [w_sh w_log]; try assumption; lia.
Qed.

Lemma wrun_inv checked cfg nsh shard : forall sch n w,
  winv cfg n w -> n + N.of_nat (length sch) <= third ->
  winv cfg (n + N.of_nat (length sch)) (wrun checked cfg nsh shard w sch).
Proof.
  induction sch as [|e r IH]; intros n w Hinv Hfit; cbn [wrun length] in *.
  - eapply winv_mono; [exact Hinv|lia].
  - eapply winv_mono; [apply (IH (n + 1)); [apply wstep_inv; [exact Hinv|lia]|lia]|lia].
Qed.

(** Theorem C1: under every interleaving, whatever the other threads and addresses do, a call of
    [b] is never answered more harshly than the ladder on the number of [b]'s own calls that
    have returned so far (this one included); and no call panics. *)
Lemma conc_others_never_hurt checked cfg nsh shard t0 progs sch l2 i b d l1 :
  fits (length sch) ->
  conc_log checked cfg nsh shard t0 progs sch = l2 ++ (i, b, d) :: l1 ->
  exists act, d = Ok act /\
    action_code act <= action_code (ladder (max_requests cfg) (rets b ((i, b, d) :: l1))).
Proof.
  intros Hf Heq. apply (proj1 (fits_third _)) in Hf.
  pose proof (wrun_inv checked cfg nsh shard sch 0 (wstart t0 progs) (winv_start cfg t0 progs) ltac:(lia)) as Hinv.
  exact (wi_log _ _ _ Hinv l2 i b d l1 Heq).
Qed.

(** * Calls made and calls returned *)
Definition todo_all (thr : list thread) : list N := concat (map t_todo thr).

Lemma todo_upd_same thr : forall i th th', nth_error thr i = Some th -> t_todo th' = t_todo th ->
  todo_all (upd i th' thr) = todo_all thr.
Proof.
  unfold todo_all. induction thr as [|z r IH]; intros [|j] th th' H Ht; cbn [upd nth_error map concat] in *; try discriminate.
  - injection H as ->. rewrite Ht. reflexivity.
  - rewrite (IH j th th' H Ht). reflexivity.
Qed.

Lemma todo_upd_pop b thr : forall i th th' a rest, nth_error thr i = Some th -> t_todo th = a :: rest -> t_todo th' = rest ->
  count b (todo_all thr) = (if a =? b then 1 else 0) + count b (todo_all (upd i th' thr)).
Proof.
  unfold todo_all. induction thr as [|z r IH]; intros [|j] th th' a rest H Ht Ht'; cbn [upd nth_error map concat] in *; try discriminate.
  - injection H as ->. rewrite Ht, Ht'. cbn [app count]. reflexivity.
  - rewrite !count_app. rewrite (IH j th th' a rest H Ht Ht'). lia.
Qed.

Lemma wstep_calls checked cfg nsh shard b w e :
  rets b (w_log (wstep checked cfg nsh shard w e)) + count b (todo_all (w_thr (wstep checked cfg nsh shard w e)))
  = rets b (w_log w) + count b (todo_all (w_thr w)).
Proof.
  unfold wstep.
  destruct (nth_error (w_thr w) (fst e)) as [th|] eqn:Hn; [|reflexivity].
  destruct (t_todo th) as [|a rest] eqn:Ht; [reflexivity|].
  destruct (cstep checked cfg nsh shard (w_sh w) a (t_pc th) (snd e)) as [[sh' p'] r].
  destruct r as [d|]; cbn [w_log w_thr].
  - rewrite rets_cons.
    rewrite (todo_upd_pop b (w_thr w) (fst e) th {| t_todo := rest; t_pc := Idle |} a rest Hn Ht eq_refl). lia.
  - rewrite (todo_upd_same (w_thr w) (fst e) th {| t_todo := a :: rest; t_pc := p' |} Hn); [reflexivity|].
    cbn [t_todo]. symmetry. exact Ht.
Qed.

Lemma wrun_calls checked cfg nsh shard b : forall sch w,
  rets b (w_log (wrun checked cfg nsh shard w sch)) + count b (todo_all (w_thr (wrun checked cfg nsh shard w sch)))
  = rets b (w_log w) + count b (todo_all (w_thr w)).
Proof.
  induction sch as [|e r IH]; intros w; cbn [wrun]; [reflexivity|].
  rewrite IH. apply wstep_calls.
Qed.

Lemma todo_start progs t0 : todo_all (w_thr (wstart t0 progs)) = all_calls progs.
Proof.
  unfold todo_all, all_calls, wstart. cbn [w_thr]. rewrite map_map. cbn [t_todo]. rewrite map_id. reflexivity.
Qed.

(** returned calls of [b] + calls of [b] still to return = calls of [b] in the programs *)
Lemma conc_calls_accounted checked cfg nsh shard t0 progs sch b :
  rets b (conc_log checked cfg nsh shard t0 progs sch)
  + count b (todo_all (w_thr (wrun checked cfg nsh shard (wstart t0 progs) sch)))
  = count b (all_calls progs).
Proof.
  unfold conc_log. rewrite wrun_calls. rewrite todo_start. cbn [wstart w_log]. unfold rets. cbn [map count]. lia.
Qed.

(** Theorem C2: an address whose calls — all of them, on all threads — are at most
    [max_requests] is never limited, under any interleaving with any other traffic. *)
Lemma conc_own_traffic checked cfg nsh shard t0 progs sch i b d :
  fits (length sch) ->
  count b (all_calls progs) <= max_requests cfg ->
  In (i, b, d) (conc_log checked cfg nsh shard t0 progs sch) -> d = Ok Passed.
Proof.
  intros Hf Hown Hin. apply in_split in Hin as (l2 & l1 & Heq).
  destruct (conc_others_never_hurt checked cfg nsh shard t0 progs sch l2 i b d l1 Hf Heq) as (act & -> & Hact).
  pose proof (conc_calls_accounted checked cfg nsh shard t0 progs sch b) as Hacc.
  rewrite Heq in Hacc. rewrite rets_app in Hacc.
  assert (Hl : ladder (max_requests cfg) (rets b ((i, b, Ok act) :: l1)) = Passed).
  { apply ladder_passed. lia. }
  rewrite Hl in Hact. destruct act; cbn [action_code] in Hact; try lia. reflexivity.
Qed.

(** * Every call counted, no reset: the exact ladder per address under every interleaving *)
Definition safe_pc (p : pc) : Prop :=
  match p with Idle | Fetched | Stored | GotSecs _ | Counting => True | _ => False end.

Record linv (cfg : config) (n : N) (w : world) : Prop := {
  li_pcs : Forall (fun th => safe_pc (t_pc th)) (w_thr w);
  li_iter : c_iter (w_sh w) <= n;
  li_len : N.of_nat (length (w_log w)) <= n;
  li_map : forall b, map_get b (c_map (w_sh w))
                     = if rets b (w_log w) =? 0 then None else Some (rets b (w_log w));
  li_verd : forall b, verdicts_of b (w_log w)
                      = map (@Ok action) (ladder_down (max_requests cfg) (N.to_nat (rets b (w_log w))))
}.

Lemma linv_start cfg t0 progs : linv cfg 0 (wstart t0 progs).
Proof.
  constructor; cbn [wstart w_sh w_thr w_log cinit c_iter c_map length map_get]; try lia; try reflexivity.
  apply Forall_forall. intros th Hin. apply in_map_iff in Hin as (p & <- & _). exact I.
Qed.

Lemma verdicts_cons_same i a d log : verdicts_of a ((i, a, d) :: log) = d :: verdicts_of a log.
Proof. unfold verdicts_of. cbn [filter e_addr fst snd]. rewrite N.eqb_refl. reflexivity. Qed.
Lemma verdicts_cons_other i a b d log : a <> b -> verdicts_of b ((i, a, d) :: log) = verdicts_of b log.
Proof. intros H. unfold verdicts_of. cbn [filter e_addr fst snd]. destruct (N.eqb_spec a b); [contradiction|reflexivity]. Qed.

Lemma lstep_inv checked cfg nsh shard n w e :
  check_every cfg <= 1 -> reset_after cfg = None ->
  linv cfg n w -> n + 1 <= third -> linv cfg (n + 1) (wstep checked cfg nsh shard w e).
Proof.
  intros Hce Hnr Hinv Hfit. unfold wstep.
  assert (Hmono : linv cfg (n + 1) w).
  { destruct Hinv. constructor; try assumption; lia. }
  destruct (nth_error (w_thr w) (fst e)) as [th|] eqn:Hn; [|exact Hmono].
  destruct (t_todo th) as [|a rest] eqn:Ht; [exact Hmono|].
  destruct Hinv as [Hpcs Hit Hlen Hmap Hverd].
  assert (Hsafe : safe_pc (t_pc th)).
  { apply nth_error_In in Hn. exact (proj1 (Forall_forall _ _) Hpcs th Hn). }
  assert (Hnd : check_every cfg <> usize_max) by (rewrite usize_val; lia).
  destruct (t_pc th) eqn:Hp; cbn [safe_pc] in Hsafe; try contradiction; cbn [cstep].
  - (* Idle: every call is sampled *)
    destruct (N.eqb_spec (check_every cfg) usize_max) as [Hd|_]; [contradiction|].
    unfold inc_usize. rewrite usize_val. unfold third in Hfit.
    replace (c_iter (w_sh w) + 1 <=? 18446744073709551615) with true by lia.
    replace (c_iter (w_sh w) + 1 <? check_every cfg) with false by lia.
    constructor; cbn [w_sh w_thr w_log with_iter c_iter c_map]; try assumption; try lia.
    all: try (apply Forall_upd; [exact Hpcs|exact I]).
    all: try (rewrite N.mod_small by lia; lia).
  - (* Fetched *)
    constructor; cbn [w_sh w_thr w_log with_iter c_iter c_map]; try assumption; try lia.
    apply Forall_upd; [exact Hpcs|exact I].
  - (* Stored *)
    constructor; cbn [w_sh w_thr w_log]; try assumption; try lia.
    apply Forall_upd; [exact Hpcs|exact I].
  - (* GotSecs: the window is never over *)
    rewrite Hnr. cbn [window_over].
    constructor; cbn [w_sh w_thr w_log]; try assumption; try lia.
    apply Forall_upd; [exact Hpcs|exact I].
  - (* Counting *)
    unfold entry_bump. rewrite (Hmap a).
    set (c := rets a (w_log w)) in *.
    assert (Hc : c <= n) by (pose proof (rets_le_length a (w_log w)); lia).
    assert (Hinc : match (if c =? 0 then None else Some c) with
                   | None => Ok (1, map_set a 1 (c_map (w_sh w)))
                   | Some c0 => match inc_usize checked c0 with
                                | Ok c' => Ok (c', map_set a c' (c_map (w_sh w)))
                                | Err e => Err e
                                | Panic => Panic
                                end
                   end = Ok (c + 1, map_set a (c + 1) (c_map (w_sh w)))).
    { destruct (N.eqb_spec c 0) as [E|E].
      - rewrite E. reflexivity.
      - unfold inc_usize. rewrite usize_val. unfold third in Hfit.
        replace (c + 1 <=? 18446744073709551615) with true by lia. reflexivity. }
    rewrite Hinc. rewrite (verdict_ok checked cfg (c + 1)) by lia.
    constructor; cbn [w_sh w_thr w_log with_map c_iter c_map length].
    + apply Forall_upd; [exact Hpcs|exact I].
    + lia.
    + lia.
    + intros b. rewrite rets_cons. destruct (N.eqb_spec a b) as [E|E].
      * subst b. rewrite map_get_set_same. fold c. destruct (N.eqb_spec (1 + c) 0); [lia|]. f_equal. lia.
      * rewrite (map_get_set_other a b _ _ E). rewrite N.add_0_l. apply Hmap.
    + intros b. rewrite rets_cons. destruct (N.eqb_spec a b) as [E|E].
      * subst b. rewrite verdicts_cons_same, (Hverd a). fold c.
        replace (N.to_nat (1 + c)) with (S (N.to_nat c)) by lia.
        cbn [ladder_down map]. f_equal. f_equal. f_equal. lia.
      * rewrite (verdicts_cons_other _ a b _ _ E). rewrite N.add_0_l. apply Hverd.
Qed.

Lemma lrun_inv checked cfg nsh shard : check_every cfg <= 1 -> reset_after cfg = None ->
  forall sch n w, linv cfg n w -> n + N.of_nat (length sch) <= third ->
  linv cfg (n + N.of_nat (length sch)) (wrun checked cfg nsh shard w sch).
Proof.
  intros Hce Hnr. induction sch as [|e r IH]; intros n w Hinv Hfit; cbn [wrun length] in *.
  - destruct Hinv. constructor; try assumption; lia.
  - assert (H1 := lstep_inv checked cfg nsh shard n w e Hce Hnr Hinv ltac:(lia)).
    assert (H2 := IH (n + 1) _ H1 ltac:(lia)).
    destruct H2. constructor; try assumption; lia.
Qed.

(** Theorem C3: with every call counted ([check_every] <= 1) and no reset, under every
    interleaving the k-th call of an address to return gets exactly [ladder max k] — the
    answers an address receives do not depend on the schedule, on the threads its calls are
    made on, or on anybody else's calls. *)
Lemma conc_exact_ladder checked cfg nsh shard t0 progs sch b :
  fits (length sch) -> check_every cfg <= 1 -> reset_after cfg = None ->
  verdicts_of b (conc_log checked cfg nsh shard t0 progs sch)
  = map (@Ok action) (ladder_down (max_requests cfg) (N.to_nat (rets b (conc_log checked cfg nsh shard t0 progs sch)))).
Proof.
  intros Hf Hce Hnr. apply (proj1 (fits_third _)) in Hf.
  pose proof (lrun_inv checked cfg nsh shard Hce Hnr sch 0 (wstart t0 progs) (linv_start cfg t0 progs) ltac:(lia)) as Hinv.
  exact (li_verd _ _ _ Hinv b).
Qed.

(** ... and when every thread has finished, that is all its calls. *)
Lemma all_done_todo thr : forallb (fun th => match t_todo th with [] => true | _ => false end) thr = true -> todo_all thr = [].
Proof.
  unfold todo_all. induction thr as [|th r IH]; cbn [forallb map concat]; [reflexivity|].
  intros H. apply andb_prop in H as [H1 H2]. destruct (t_todo th); [|discriminate]. cbn [app]. exact (IH H2).
Qed.

Lemma conc_exact_ladder_done checked cfg nsh shard t0 progs sch b :
  fits (length sch) -> check_every cfg <= 1 -> reset_after cfg = None ->
  all_done (wrun checked cfg nsh shard (wstart t0 progs) sch) = true ->
  verdicts_of b (conc_log checked cfg nsh shard t0 progs sch)
  = map (@Ok action) (ladder_down (max_requests cfg) (N.to_nat (count b (all_calls progs)))).
Proof.
  intros Hf Hce Hnr Hdone. rewrite (conc_exact_ladder checked cfg nsh shard t0 progs sch b Hf Hce Hnr).
  pose proof (conc_calls_accounted checked cfg nsh shard t0 progs sch b) as Hacc.
  unfold all_done in Hdone. rewrite (all_done_todo _ Hdone) in Hacc. cbn [count] in Hacc.
  rewrite N.add_0_r in Hacc. rewrite Hacc. reflexivity.
Qed.

(** * Disabled *)
Lemma dstep checked cfg nsh shard w e :
  check_every cfg = usize_max ->
  Forall (fun th => t_pc th = Idle) (w_thr w) ->
  Forall (fun en => snd en = Ok Passed) (w_log w) ->
  w_sh (wstep checked cfg nsh shard w e) = w_sh w /\
  Forall (fun th => t_pc th = Idle) (w_thr (wstep checked cfg nsh shard w e)) /\
  Forall (fun en => snd en = Ok Passed) (w_log (wstep checked cfg nsh shard w e)).
Proof.
  intros Hd Hpcs Hlog. unfold wstep.
  destruct (nth_error (w_thr w) (fst e)) as [th|] eqn:Hn; [|auto].
  destruct (t_todo th) as [|a rest]; [auto|].
  assert (Hp : t_pc th = Idle).
  { apply nth_error_In in Hn. exact (proj1 (Forall_forall _ _) Hpcs th Hn). }
  rewrite Hp. cbn [cstep]. rewrite Hd, N.eqb_refl. cbn [w_sh w_thr w_log].
  refine (conj eq_refl (conj _ _)).
  - apply Forall_upd; [exact Hpcs|reflexivity].
  - constructor; [reflexivity|exact Hlog].
Qed.

(** Theorem C4: a disabled limiter never limits and touches no shared state, under any interleaving. *)
Lemma conc_disabled checked cfg nsh shard t0 progs sch :
  Forall (fun en => snd en = Ok Passed) (conc_log checked (disable cfg) nsh shard t0 progs sch) /\
  conc_shared checked (disable cfg) nsh shard t0 progs sch = cinit t0.
Proof.
  unfold conc_log, conc_shared.
  assert (H : forall sch w, Forall (fun th => t_pc th = Idle) (w_thr w) -> Forall (fun en => snd en = Ok Passed) (w_log w) ->
            Forall (fun en => snd en = Ok Passed) (w_log (wrun checked (disable cfg) nsh shard w sch)) /\
            w_sh (wrun checked (disable cfg) nsh shard w sch) = w_sh w).
  { clear sch. induction sch as [|e r IH]; intros w Hp Hl; cbn [wrun]; [split; [exact Hl|reflexivity]|].
    destruct (dstep checked (disable cfg) nsh shard w e eq_refl Hp Hl) as (E1 & E2 & E3).
    destruct (IH _ E2 E3) as [F1 F2]. split; [exact F1|congruence]. }
  apply H; cbn [wstart w_thr w_log]; [|constructor].
  apply Forall_forall. intros th Hin. apply in_map_iff in Hin as (p & <- & _). reflexivity.
Qed.

(** * One thread: the concurrent semantics run call by call is the sequential model *)
Definition w1 (sh : cshared) (todo : list N) (p : pc) (log : list ret_entry) : world :=
  {| w_sh := sh; w_thr := [{| t_todo := todo; t_pc := p |}]; w_log := log |}.

Lemma finish_done checked cfg nsh shard fuel n t w :
  length (w_log w) <> n -> finish_call checked cfg nsh shard fuel n t w = w.
Proof.
  intros H. destruct fuel; cbn [finish_call]; [reflexivity|].
  apply Nat.eqb_neq in H. rewrite H. reflexivity.
Qed.

Lemma finish_step checked cfg nsh shard fuel t sh a rest p log :
  finish_call checked cfg nsh shard (S fuel) (length log) t (w1 sh (a :: rest) p log)
  = finish_call checked cfg nsh shard fuel (length log) t
      (match cstep checked cfg nsh shard sh a p t with
       | (sh', p', None) => w1 sh' (a :: rest) p' log
       | (sh', _, Some d) => w1 sh' rest Idle ((O, a, d) :: log)
       end).
Proof.
  cbn [finish_call w1 w_log]. rewrite Nat.eqb_refl. f_equal.
  all: unfold wstep; cbn [w1 w_thr w_sh w_log fst snd nth_error t_todo t_pc];
    destruct (cstep checked cfg nsh shard sh a p t) as [[sh' p'] [d|]]; reflexivity.
Qed.

Lemma finish_returned checked cfg nsh shard fuel t sh a rest d log :
  finish_call checked cfg nsh shard fuel (length log) t (w1 sh rest Idle ((O, a, d) :: log))
  = w1 sh rest Idle ((O, a, d) :: log).
Proof. apply finish_done. unfold w1. cbn [w_log]. cbn [length]. intros H. apply (n_Sn (length log)). symmetry. exact H. Qed.

(** the clearing loop removes everything when every key has a shard *)
Lemma clear_shard_range shard i nsh m :
  Forall (fun kv => (i <= shard (fst kv) < nsh)%nat) m ->
  Forall (fun kv => (S i <= shard (fst kv) < nsh)%nat) (clear_shard shard i m).
Proof.
  unfold clear_shard. induction m as [|kv r IH]; intros H; cbn [filter]; [constructor|].
  inversion H as [|? ? Hkv Hr]; subst.
  destruct (Nat.eqb_spec (shard (fst kv)) i) as [E|E]; cbn [negb]; [apply IH; exact Hr|].
  constructor; [lia|apply IH; exact Hr].
Qed.

Lemma range_empty shard i nsh (m : list (N * N)) :
  (nsh <= i)%nat -> Forall (fun kv => (i <= shard (fst kv) < nsh)%nat) m -> m = [].
Proof. intros Hle H. destruct m as [|kv r]; [reflexivity|]. inversion H; subst. lia. Qed.

Lemma clearing_run checked cfg nsh shard t a rest log : forall k i sh fuel,
  (k <= fuel)%nat -> (i + k = Nat.max nsh (S i))%nat ->
  Forall (fun kv => (i <= shard (fst kv) < nsh)%nat) (c_map sh) ->
  finish_call checked cfg nsh shard (S fuel) (length log) t (w1 sh (a :: rest) (Clearing i) log)
  = w1 (with_map [] sh) rest Idle ((O, a, Ok Passed) :: log).
Proof.
  induction k as [|k IH]; intros i sh fuel Hfuel Hk Hm; [lia|].
  rewrite finish_step. cbn [cstep].
  pose proof (clear_shard_range shard i nsh (c_map sh) Hm) as Hm'.
  destruct (Nat.ltb_spec (S i) nsh) as [Hlt|Hge].
  - destruct fuel as [|fuel]; [lia|].
    rewrite (IH (S i) (with_map (clear_shard shard i (c_map sh)) sh) fuel); [|lia|lia|exact Hm'].
    unfold with_map. cbn [c_iter c_secs c_nanos c_map]. reflexivity.
  - rewrite (range_empty shard (S i) nsh _ Hge Hm'). apply finish_returned.
Qed.

Record rel (cfg : config) (st : lstate) (sh : cshared) : Prop := {
  r_iter : iteration st = c_iter sh;
  r_ok : c_iter sh = 0 \/ c_iter sh < check_every cfg;
  r_time : win_start st = time_of (c_secs sh) (c_nanos sh);
  r_map : conn_map st = c_map sh
}.

Lemma time_split t : time_of (t / nanos_per_sec) (t mod nanos_per_sec) = t.
Proof. unfold time_of, nanos_per_sec. rewrite N.mul_comm. symmetry. apply N.div_mod. discriminate. Qed.

Lemma rel_init cfg t0 : rel cfg (init t0) (cinit t0).
Proof.
  constructor; cbn [init cinit iteration win_start conn_map c_iter c_secs c_nanos c_map]; try reflexivity.
  - left. reflexivity.
  - symmetry. apply time_split.
Qed.

Lemma call_sim checked cfg nsh shard st sh a t rest log :
  check_every cfg <= usize_max -> (forall k, (shard k < nsh)%nat) -> rel cfg st sh ->
  exists sh',
    finish_call checked cfg nsh shard (8 + nsh) (length log) t (w1 sh (a :: rest) Idle log)
    = w1 sh' rest Idle ((O, a, snd (register checked cfg st a t)) :: log) /\
    rel cfg (fst (register checked cfg st a t)) sh'.
Proof.
  intros Hce Hshard [Hit Hok Htime Hmap].
  change (8 + nsh)%nat with (S (S (S (S (S (S (S (S nsh)))))))).
  rewrite finish_step. unfold register. cbn [cstep].
  destruct (N.eqb_spec (check_every cfg) usize_max) as [Hd|Hd].
  { exists sh. split; [apply finish_returned|]. cbn [fst]. constructor; assumption. }
  rewrite usize_val in *.
  assert (Hsmall : c_iter sh + 1 <= 18446744073709551615) by lia.
  unfold inc_usize. rewrite usize_val.
  replace (c_iter sh + 1 <=? 18446744073709551615) with true by lia.
  rewrite Hit.
  assert (Hmod : (c_iter sh + 1) mod (18446744073709551615 + 1) = c_iter sh + 1) by (apply N.mod_small; lia).
  destruct (N.ltb_spec (c_iter sh + 1) (check_every cfg)) as [Hlt|Hge].
  { (* not sampled *)
    exists (with_iter ((c_iter sh + 1) mod (18446744073709551615 + 1)) sh). split; [apply finish_returned|].
    cbn [fst]. rewrite Hmod.
    constructor; cbn [iteration win_start conn_map with_iter c_iter c_secs c_nanos c_map]; try assumption; try reflexivity.
    right. exact Hlt. }
  (* sampled: B, C, D *)
  rewrite finish_step. cbn [cstep].
  rewrite finish_step. cbn [cstep with_iter c_secs].
  rewrite finish_step. cbn [cstep with_iter c_nanos c_secs].
  rewrite Htime.
  destruct (window_over (reset_after cfg) (t - time_of (c_secs sh) (c_nanos sh))).
  { (* the window is over: E, F, the clearing loop *)
    rewrite finish_step. cbn [cstep].
    rewrite finish_step. cbn [cstep].
    eexists. split.
    - apply (clearing_run checked cfg nsh shard t a rest log (Nat.max nsh 1) 0 _ (S nsh)); [lia|lia|].
      apply Forall_forall. intros kv _. specialize (Hshard (fst kv)). lia.
    - cbn [fst]. constructor; cbn [iteration win_start conn_map with_map with_nanos with_secs with_iter c_iter c_secs c_nanos c_map];
        try reflexivity.
      + left. reflexivity.
      + symmetry. apply time_split. }
  (* counted: H *)
  rewrite finish_step. cbn [cstep with_iter c_map]. rewrite Hmap.
  destruct (entry_bump checked a (c_map sh)) as [[requests m']|e|].
  - eexists. split.
    + rewrite finish_returned. unfold verdict.
      destruct (requests <=? max_requests cfg); [reflexivity|].
      destruct (mul3_usize checked (max_requests cfg)); reflexivity.
    + assert (Hrel : forall d : outcome action,
               rel cfg (fst ({| iteration := 0; win_start := time_of (c_secs sh) (c_nanos sh); conn_map := m' |}, d))
                   (with_map m' (with_iter 0 (with_iter ((c_iter sh + 1) mod (18446744073709551615 + 1)) sh)))).
      { intros d. constructor; cbn [fst iteration win_start conn_map with_map with_iter c_iter c_secs c_nanos c_map]; try reflexivity.
        left. reflexivity. }
      destruct (requests <=? max_requests cfg); [apply Hrel|].
      destruct (mul3_usize checked (max_requests cfg)); apply Hrel.
  - eexists. split; [rewrite finish_returned; reflexivity|].
    cbn [fst]. constructor; cbn [iteration win_start conn_map with_iter c_iter c_secs c_nanos c_map]; try reflexivity; try exact Hmap.
    left. reflexivity.
  - eexists. split; [rewrite finish_returned; reflexivity|].
    cbn [fst]. constructor; cbn [iteration win_start conn_map with_iter c_iter c_secs c_nanos c_map]; try reflexivity; try exact Hmap.
    left. reflexivity.
Qed.

Lemma seq_calls_sim checked cfg nsh shard :
  check_every cfg <= usize_max -> (forall k, (shard k < nsh)%nat) ->
  forall h st sh log, rel cfg st sh ->
  rev (map snd (w_log (seq_calls checked cfg nsh shard (w1 sh (map fst h) Idle log) (map snd h))))
  = rev (map snd log) ++ snd (run checked cfg st h).
Proof.
  intros Hce Hshard. induction h as [|[a t] r IH]; intros st sh log Hrel.
  - cbn [map seq_calls w1 w_log run snd]. rewrite app_nil_r. reflexivity.
  - cbn [map fst snd seq_calls run]. cbn [w1 w_log].
    change {| w_sh := sh; w_thr := [{| t_todo := a :: map fst r; t_pc := Idle |}]; w_log := log |}
      with (w1 sh (a :: map fst r) Idle log).
    destruct (call_sim checked cfg nsh shard st sh a t (map fst r) log Hce Hshard Hrel) as (sh' & Hfin & Hrel').
    rewrite Hfin.
    destruct (register checked cfg st a t) as [st1 d]. cbn [fst snd] in *.
    rewrite (IH st1 sh' _ Hrel').
    destruct (run checked cfg st1 r) as [st2 ds]. cbn [snd map rev].
    rewrite <- app_assoc. reflexivity.
Qed.

(** Theorem C5: on one thread, each call run to its end at one clock reading, the concurrent
    semantics gives exactly the decisions of the sequential model (the one that is compared with
    the code call by call, and that refines the reference counter). *)
Lemma concseq_is_sequential checked cfg nsh shard t0 h :
  check_every cfg <= usize_max -> (forall k, (shard k < nsh)%nat) ->
  concseq_decisions checked cfg nsh shard t0 h = decisions checked cfg t0 h.
Proof.
  intros Hce Hshard. unfold concseq_decisions, decisions.
  change (wstart t0 [map fst h]) with (w1 (cinit t0) (map fst h) Idle []).
  rewrite (seq_calls_sim checked cfg nsh shard Hce Hshard h (init t0) (cinit t0) [] (rel_init cfg t0)).
  reflexivity.
Qed.

(** * Linearisability in the every-call-counted regime: the returned verdicts, in the order of
      their linearisation points (the order of the log), are those of the sequential reference
      counter on the same sequence of addresses. *)
Definition ev_of (tm : ret_entry -> N) (e : ret_entry) : event := (e_addr e, tm e).
Definition rs_of (t0 : N) (log : list ret_entry) : rstate :=
  {| r_seen := N.of_nat (length log); r_start := t0; r_counted := map e_addr log |}.
Definition refinv (cfg : config) (t0 : N) (tm : ret_entry -> N) (log : list ret_entry) : Prop :=
  exists acts, map snd log = map (@Ok action) acts /\
    ref_run cfg (rinit t0) (rev (map (ev_of tm) log)) = (rs_of t0 log, rev acts).

Lemma wstep_log checked cfg nsh shard w e :
  w_log (wstep checked cfg nsh shard w e) = w_log w \/
  exists i a d, w_log (wstep checked cfg nsh shard w e) = (i, a, d) :: w_log w.
Proof.
  unfold wstep. destruct (nth_error (w_thr w) (fst e)) as [th|]; [|left; reflexivity].
  destruct (t_todo th) as [|a rest]; [left; reflexivity|].
  destruct (cstep checked cfg nsh shard (w_sh w) a (t_pc th) (snd e)) as [[sh' p'] [d|]]; cbn [w_log].
  - right. eauto.
  - left. reflexivity.
Qed.

Lemma refinv_step checked cfg nsh shard t0 tm n w e :
  check_every cfg <= 1 -> reset_after cfg = None ->
  linv cfg n (wstep checked cfg nsh shard w e) ->
  refinv cfg t0 tm (w_log w) -> refinv cfg t0 tm (w_log (wstep checked cfg nsh shard w e)).
Proof.
  intros Hce Hnr Hinv Href.
  destruct (wstep_log checked cfg nsh shard w e) as [E|(i & a & d & E)]; [rewrite E; exact Href|].
  pose proof (li_verd _ _ _ Hinv a) as Hv. rewrite E in *.
  rewrite verdicts_cons_same in Hv. rewrite rets_cons in Hv. rewrite (N.eqb_refl a) in Hv.
  set (c := rets a (w_log w)) in *.
  replace (N.to_nat (1 + c)) with (S (N.to_nat c)) in Hv by lia.
  cbn [ladder_down map] in Hv. injection Hv as Hd _.
  replace (N.of_nat (S (N.to_nat c))) with (1 + c) in Hd by lia.
  destruct Href as (acts & Hacts & Hrun).
  exists (ladder (max_requests cfg) (1 + c) :: acts). split.
  - cbn [map snd]. rewrite Hd, Hacts. reflexivity.
  - cbn [map rev]. rewrite ref_run_app, Hrun. cbn [fst snd].
    unfold ev_of. cbn [e_addr fst snd ref_run]. unfold ref_step.
    assert (Hnd : (check_every cfg =? usize_max) = false) by (rewrite usize_val; lia).
    rewrite Hnd. unfold sampled. replace (check_every cfg <=? 1) with true by lia. cbn [orb negb].
    rewrite Hnr. cbn [window_over rs_of r_seen r_start r_counted fst snd].
    f_equal.
    + unfold rs_of. cbn [length map e_addr fst snd]. f_equal. lia.
    + f_equal. f_equal. f_equal. cbn [count]. rewrite N.eqb_refl. unfold c, rets. reflexivity.
Qed.

Lemma refinv_run checked cfg nsh shard t0 tm :
  check_every cfg <= 1 -> reset_after cfg = None ->
  forall sch n w, linv cfg n w -> n + N.of_nat (length sch) <= third ->
  refinv cfg t0 tm (w_log w) -> refinv cfg t0 tm (w_log (wrun checked cfg nsh shard w sch)).
Proof.
  intros Hce Hnr. induction sch as [|e r IH]; intros n w Hinv Hfit Href; cbn [wrun length] in *; [exact Href|].
  assert (H1 := lstep_inv checked cfg nsh shard n w e Hce Hnr Hinv ltac:(lia)).
  apply (IH (n + 1) _ H1); [lia|].
  eapply refinv_step; eassumption.
Qed.

(** Theorem C6 (linearisable): with every call counted and no reset, for every interleaving
    the verdicts in the order in which the calls took effect are exactly what the sequential
    reference counter answers to that sequence of addresses. *)
Lemma conc_linearizable checked cfg nsh shard t0 progs sch tm :
  fits (length sch) -> check_every cfg <= 1 -> reset_after cfg = None ->
  map snd (rev (conc_log checked cfg nsh shard t0 progs sch))
  = map (@Ok action) (reference cfg t0 (map (ev_of tm) (rev (conc_log checked cfg nsh shard t0 progs sch)))).
Proof.
  intros Hf Hce Hnr. apply (proj1 (fits_third _)) in Hf.
  assert (Href : refinv cfg t0 tm (conc_log checked cfg nsh shard t0 progs sch)).
  { unfold conc_log. apply (refinv_run checked cfg nsh shard t0 tm Hce Hnr sch 0 (wstart t0 progs) (linv_start cfg t0 progs)); [lia|].
    exists []. split; reflexivity. }
  destruct Href as (acts & Hacts & Hrun).
  unfold reference. rewrite (map_rev (ev_of tm)), Hrun. cbn [snd].
  rewrite !map_rev. f_equal. exact Hacts.
Qed.
