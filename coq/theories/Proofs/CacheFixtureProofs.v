(** C03 — the handlers of the fixture menu (Model/Fixture.v + CacheX.v [compute_x]; harness/src/c00pipe.rs) honour the
    cache contract of the property, for every configuration that passes [wf_fixture] (Model/CacheRules.v): so the
    transparency theorem applies to the very model runs the differential check compares with the real code
    ([run_cfgx] with and without the response cache), for all histories. *)
From KV Require Import Bytes RustInt Range CacheControl Cache CacheProofs Cache04Proofs Fixture CacheX CacheXProofs CacheKey CacheKeyProofs.
From KV Require Import RuleSet CacheRules CacheRulesProofs CacheReachProofs.
From Coq Require Import ZifyBool ZifyNat ZifyN.
Open Scope N_scope.
Arguments N.add : simpl never. Arguments N.sub : simpl never. Arguments N.eqb : simpl never.

Lemma vrule_eqb_eq a c : vrule_eqb a c = true -> a = c.
Proof.
  destruct a as [[n xf] d], c as [[n' xf'] d']. cbn [vrule_eqb]. intros H.
  apply andb_true_iff in H as [H Hd]. apply andb_true_iff in H as [Hn Hx].
  apply beq_eq in Hn. apply beq_eq in Hd. apply N.eqb_eq in Hx. subst. reflexivity.
Qed.
Lemma vrules_eqb_eq a : forall c, vrules_eqb a c = true -> a = c.
Proof.
  induction a as [|x a IH]; intros [|y c] H; cbn [vrules_eqb] in H; try discriminate; [reflexivity|].
  apply andb_true_iff in H as [Hx Ha]. apply vrule_eqb_eq in Hx. apply IH in Ha. subst. reflexivity.
Qed.

Lemma find_handler_last_some p hs : forall i acc j h,
  find_handler_last p hs i acc = Some (j, h) -> acc = Some (j, h) \/ (In h hs /\ h_path h = p).
Proof.
  induction hs as [|x hs IH]; intros i acc j h H; cbn [find_handler_last] in H; [left; exact H|].
  apply IH in H. destruct H as [H | [Hin Hp]]; [|right; split; [right; exact Hin | exact Hp]].
  destruct (beq (h_path x) p) eqn:E; [|left; exact H].
  inversion H; subst. right. split; [left; reflexivity | apply beq_eq; exact E].
Qed.

Lemma lookup_path r ov : rq_path (lookup_req r ov) = match ov with Some (p, _) => p | None => rq_path r end.
Proof. destruct ov as [[p q]|]; reflexivity. Qed.
Lemma vary_req_lookup r ov : vary_req true r ov = lookup_req r ov.
Proof. destruct ov as [[p q]|]; reflexivity. Qed.
Lemma header_text_lookup n r ov : header_text n (lookup_req r ov) = header_text n r.
Proof. destruct ov as [[p q]|]; reflexivity. Qed.
Lemma tuple_of_rules_lookup rs r ov : tuple_of_rules rs (lookup_req r ov) = tuple_of_rules rs r.
Proof.
  unfold tuple_of_rules. apply map_ext. intros [[n xf] d]. rewrite header_text_lookup. reflexivity.
Qed.

(** the body of a tuple-echoing handler is a function of the transformed tuple *)
Lemma tuple_body rs r :
  concat (map (fun '(n, xf, d) => 124 :: match header_text n r with Some v => xform xf v | None => d end) rs) =
  concat (map (cons 124) (tuple_of_rules rs r)).
Proof.
  unfold tuple_of_rules. rewrite map_map. f_equal. apply map_ext. intros [[n xf] d]. reflexivity.
Qed.

(** the echo of path and query is a function of the path and the non-empty query *)
Lemma echo_body r :
  rq_path r ++ match rq_query r with Some (c :: q) => 63 :: c :: q | _ => [] end =
  rq_path r ++ match eff_query r with Some q => 63 :: q | None => [] end.
Proof. unfold eff_query. destruct (rq_query r) as [[|c q]|]; reflexivity. Qed.

Lemma handler_body_nocount h n n' r : (h_kind h =? 2) = false -> handler_body h n r = handler_body h n' r.
Proof. intros K. unfold handler_body. rewrite K. reflexivity. Qed.

(** what [compute_x] answers on a host without extended handlers *)
Lemma compute_x_fat de handlers hs r ov :
  fst (fst (compute_x de handlers [] hs r ov true)) =
  let p := rq_path (lookup_req r ov) in
  if de && beq p CORS_FAIL then plain cors_fail_fat
  else match find_handler_last p handlers O None with
       | Some (i, h) => plain (fat_of_spec h (snd (bump i hs)) r)
       | None => plain (error_fat 404 SP_FULL)
       end.
Proof.
  unfold compute_x. cbn [negb firstn find_xhandler_last]. rewrite lookup_path. cbv zeta.
  destruct (de && beq _ CORS_FAIL); [reflexivity|].
  destruct (find_handler_last _ handlers O None) as [[i h]|]; [|reflexivity].
  destruct (bump i hs) as [hs' n]. reflexivity.
Qed.

Section Fixture.
  Variable cx : configx.
  Hypothesis WF : wf_fixture cx = true.
  Let de := cf_default_ext (cx_base cx).
  Let handlers := cf_handlers (cx_base cx).
  Let rules := cf_vary (cx_base cx).
  Let ovp := cx_ovprime cx.

  Lemma wf_parts :
    cx_xhandlers cx = [] /\ cx_fix_vary cx = true /\ cx_fix_ovkey cx = true /\ cx_fix_svary cx = true /\
    cx_fix_qmkey cx = true /\ cx_fix_ims cx = true /\ forall h, In h handlers -> wf_handler de ovp rules h = true.
  Proof.
    pose proof WF as W. unfold wf_fixture in W.
    apply andb_true_iff in W as [W W7]. apply andb_true_iff in W as [W W6]. apply andb_true_iff in W as [W W5].
    apply andb_true_iff in W as [W W4]. apply andb_true_iff in W as [W W3]. apply andb_true_iff in W as [W1 W2].
    split; [destruct (cx_xhandlers cx); [reflexivity | discriminate]|].
    repeat (split; [assumption|]). apply forallb_forall. exact W7.
  Qed.

  Lemma wf_of h : In h handlers ->
    (h_kind h =? 2) = false /\
    ((h_kind h =? 1) = true -> (h_spref h =? SP_QUERY) = true /\ allowed_ov de ovp (h_path h) = false) /\
    ((h_kind h =? 3) = true -> h_tuple h = rules_for_x (h_path h) rules).
  Proof.
    intros Hin. destruct wf_parts as (_ & _ & _ & _ & _ & _ & W). specialize (W h Hin). unfold wf_handler in W.
    apply andb_true_iff in W as [W W3]. apply andb_true_iff in W as [W2 W1]. split; [|split].
    - apply negb_true_iff. exact W2.
    - intros K. rewrite K in W1. cbn [negb orb] in W1. apply andb_true_iff in W1 as [A C]. split; [exact A|].
      apply negb_true_iff. exact C.
    - intros K. rewrite K in W3. cbn [negb orb] in W3. apply vrules_eqb_eq. exact W3.
  Qed.

  (** the handlers answer as a function of the request alone (no handler state) *)
  Lemma fixture_pure hs r ov ok : fst (fst (compute_x de handlers [] hs r ov ok)) = cf_fix cx r ov ok.
  Proof.
    unfold cf_fix. fold de handlers. destruct ok.
    - rewrite (compute_x_fat de handlers hs), (compute_x_fat de handlers (repeat 0 (length handlers + 8))). cbv zeta. destruct (de && beq _ CORS_FAIL); [reflexivity|].
      destruct (find_handler_last _ handlers O None) as [[i h]|] eqn:F; [|reflexivity].
      apply find_handler_last_some in F. destruct F as [F | [Hin _]]; [discriminate|].
      destruct (wf_of h Hin) as (K2 & _). unfold fat_of_spec. rewrite (handler_body_nocount h _ (snd (bump i (repeat 0 (length handlers + 8)))) r K2).
      reflexivity.
    - unfold compute_x. cbn [negb]. reflexivity.
  Qed.

  Lemma fixture_err r ov : f_spref (fx_fat (cf_fix cx r ov false)) = SP_NONE.
  Proof. unfold cf_fix, compute_x. cbn [negb fst]. destruct (negb (path_part_ok (rq_path r))); reflexivity. Qed.

  (** every override the Primes of the fixture produce is one of the internal routes *)
  Lemma fixture_reach r0 : reach_fix de ovp (prime_fix de r0) (override_x de ovp r0).
  Proof.
    unfold reach_fix, override_x, allowed_ov.
    destruct (override_fix ovp (if de then uri_redirect r0 else r0)) as [[p q]|] eqn:O.
    - unfold override_fix in O. destruct ovp as [[n ip]|]; [|discriminate].
      destruct (starts_with (B "/./") ip); [|discriminate].
      destruct (header n _); [|discriminate]. inversion O; subst. rewrite beq_refl. apply orb_true_r.
    - destruct de eqn:D; [|exact I]. unfold cors_override. destruct (header (B "origin") r0); [|exact I].
      destruct (to_str_ok b && same_origin b _); [exact I|]. cbn [andb]. rewrite beq_refl. reflexivity.
  Qed.

  (** THE CONTRACT: for requests of the GET/HEAD class, the same transformed vary tuple, the same path of the URI the
      response is cached under and — for a query-dependent response — the same query give the same response *)
  Lemma fixture_contract r ov r' ov' :
    reach_fix de ovp r ov -> reach_fix de ovp r' ov' ->
    get_or_head (rq_method r) = true -> get_or_head (rq_method r') = true ->
    vary_tuple_x true rules r ov = vary_tuple_x true rules r' ov' ->
    rq_path (lookup_req r ov) = rq_path (lookup_req r' ov') ->
    (qmx (cf_fix cx r ov true) = true -> path_query (lookup_req r ov) = path_query (lookup_req r' ov')) ->
    cf_fix cx r ov true = cf_fix cx r' ov' true.
  Proof.
    intros R R' G G' T P Q. unfold cf_fix in Q |- *. fold de handlers in Q |- *. rewrite (compute_x_fat de handlers _ r ov) in Q |- *. rewrite (compute_x_fat de handlers _ r' ov'). cbv zeta in Q |- *.
    rewrite <- P. set (p := rq_path (lookup_req r ov)) in Q, P |- *.
    destruct (de && beq p CORS_FAIL) eqn:C; [reflexivity|].
    destruct (find_handler_last p handlers O None) as [[i h]|] eqn:F; [|reflexivity].
    apply find_handler_last_some in F. destruct F as [F | [Hin Hp]]; [discriminate|].
    destruct (wf_of h Hin) as (K2 & K1 & K3).
    set (n := snd (bump i (repeat 0 (length handlers + 8)))) in Q |- *.
    unfold fat_of_spec. f_equal. f_equal. unfold handler_body. f_equal.
    destruct (h_kind h =? 1) eqn:E1.
    - (* echo of path and query: QueryMatters, never behind an override *)
      destruct (K1 eq_refl) as [SQ NA].
      assert (Hov : forall (r1 : request) ov1, reach_fix de ovp r1 ov1 -> rq_path (lookup_req r1 ov1) = p -> ov1 = None).
      { intros r1 [[p1 q1]|] R1 P1; [|reflexivity]. exfalso. cbn [reach_fix] in R1. rewrite lookup_path in P1. subst p1.
        rewrite <- Hp in R1. congruence. }
      assert (ov = None) as -> by (eapply Hov; [exact R | reflexivity]).
      assert (ov' = None) as -> by (eapply Hov; [exact R' | symmetry; exact P]).
      cbn [lookup_req] in *.
      assert (PQ : path_query r = path_query r') by (apply Q; unfold qmx, plain; cbn [fx_fat f_spref fat_of_spec]; exact SQ).
      apply path_query_inj in PQ. destruct PQ as [Pp Pq]. rewrite !echo_body, Pp, Pq. reflexivity.
    - rewrite K2. destruct (h_kind h =? 3) eqn:E3.
      + (* echo of the transformed tuple: the rules of the handler's path *)
        rewrite (K3 eq_refl), Hp. rewrite !tuple_body. f_equal. f_equal.
        unfold vary_tuple_x in T. rewrite (vary_req_lookup r ov), (vary_req_lookup r' ov'), (tuple_of_rules_lookup _ r ov), (tuple_of_rules_lookup _ r' ov') in T.
        rewrite <- P in T. exact T.
      + destruct (h_kind h =? 4); [|reflexivity]. rewrite G, G'. reflexivity.
  Qed.

  (** for every history without If-Modified-Since (C04's subject), from the empty cache, the model of the caching host and
      the model of the cache-less host — the two runs the differential check compares with the real code — answer alike *)
  Lemma fixture_transparent ops :
    Forall (op_no_imsx (cf_ims (cx_base cx)) (prime_fix de)) ops ->
    Forall2 obsx_equiv (run_cfgx true cx ops) (run_cfgx false cx ops).
  Proof.
    intros Hno. unfold run_cfgx. destruct wf_parts as (X & F1 & F2 & F3 & F4 & F5 & _).
    rewrite X, F1, F2, F3, F4, F5. fold de handlers rules ovp. change (if de then uri_redirect else fun r => r) with (prime_fix de).
    apply (run_simR (list N) (compute_x de handlers []) (cf_ims (cx_base cx)) (cx_fix_clear cx) (sfilter_fix (cx_sfilter cx))
             parse_ims_fix sanitize_ok_fix (prime_fix de) (override_x de ovp) (fun _ _ => None)
             (vary_tuple_x true rules) (vary_header_x true rules) clear_alias_fix
             (reach_fix de ovp) fixture_reach (cf_fix cx) fixture_pure fixture_contract fixture_err).
    - apply TInvR_nil.
    - exact Hno.
  Qed.
End Fixture.
