(** C03 / C04 over the full cache layer (Model/CacheX.v): admission and lifetime invariants over all
    histories, recomputation, clears, one computation per key, transparency. *)
From KV Require Import Bytes RustInt Range CacheControl Cache CacheProofs Cache04Proofs Fixture CacheX.
From Coq Require Import ZifyBool ZifyNat ZifyN.
Open Scope N_scope.
Arguments N.add : simpl never. Arguments N.sub : simpl never. Arguments N.mul : simpl never.
Arguments N.eqb : simpl never. Arguments N.ltb : simpl never. Arguments N.leb : simpl never.
Arguments N.of_nat : simpl never. Arguments N.min : simpl never.

(** ---- the finite map ---- *)
Lemma xc_find_remove k k' c :
  xc_find k (xc_remove k' c) = if key_eqb k k' then None else xc_find k c.
Proof.
  induction c as [|[k0 e0] c IH]; cbn [xc_remove xc_find].
  - destruct (key_eqb k k'); reflexivity.
  - destruct (key_eqb k' k0) eqn:E0.
    + rewrite IH. destruct (key_eqb k k') eqn:E1; [reflexivity|].
      apply key_eqb_eq in E0. subst k0. rewrite E1. reflexivity.
    + cbn [xc_find]. rewrite IH. destruct (key_eqb k k0) eqn:E2; [|reflexivity].
      apply key_eqb_eq in E2. subst k0.
      destruct (key_eqb k k') eqn:E1; [|reflexivity].
      apply key_eqb_eq in E1. subst k'. rewrite key_eqb_refl in E0. discriminate.
Qed.
Lemma xc_find_insert k k' e c :
  xc_find k (xc_insert k' e c) = if key_eqb k k' then Some e else xc_find k c.
Proof.
  unfold xc_insert. cbn [xc_find]. destruct (key_eqb k k') eqn:E; [reflexivity|].
  rewrite xc_find_remove, E. reflexivity.
Qed.

Lemma xv_find_in t vs v : xv_find t vs = Some v -> In v vs /\ v_tuple v = t.
Proof.
  induction vs as [|v0 vs IH]; cbn [xv_find]; [discriminate|].
  destruct (tuple_eqb t (v_tuple v0)) eqn:E.
  - intros H; inversion H; subst. apply tuple_eqb_eq in E. split; [left; reflexivity | congruence].
  - intros H. destruct (IH H) as [H1 H2]. split; [right; exact H1 | exact H2].
Qed.
Lemma xv_find_cons_some t v vs : xv_find t vs <> None -> xv_find t (v :: vs) <> None.
Proof. cbn [xv_find]. destruct (tuple_eqb t (v_tuple v)); [discriminate | auto]. Qed.

Lemma xfresh_spec e now :
  xfresh e now = true <-> match ex_life e with Some l => now - ex_created e <= l | None => True end.
Proof. unfold xfresh. destruct (ex_life e); [lia | tauto]. Qed.

Lemma xget_item_cases k c now res c' :
  xget_item k c now = (res, c') ->
  (exists e, xc_find k c = Some e /\ xfresh e now = true /\ res = Some e /\ c' = c) \/
  (res = None /\ c' = xc_remove k c).
Proof.
  unfold xget_item. destruct (xc_find k c) as [e|] eqn:F.
  - destruct (xfresh e now) eqn:Fr; intros H; inversion H; subst res c'; clear H.
    + left. exists e. repeat split; assumption.
    + right. split; reflexivity.
  - intros H; inversion H; subst res c'; clear H. right. split; [reflexivity|].
    induction c as [|[k0 e0] c IH]; [reflexivity|]. cbn [xc_find xc_remove] in *.
    destruct (key_eqb k k0); [discriminate|]. rewrite <- IH by assumption. reflexivity.
Qed.

(** what a lookup returns: the cache is the old one minus (expired or absent) looked-up keys, the entry found is
    stored under the returned key and fresh *)
Lemma xlookup_cases lr c now k res c' :
  xlookup lr c now = ((k, res), c') ->
  (k = key_pq lr \/ k = key_p lr) /\
  (forall k0, xc_find k0 c' = xc_find k0 c \/ (xc_find k0 c' = None /\ (k0 = key_pq lr \/ k0 = key_p lr) /\
                                                match xc_find k0 c with Some e0 => xfresh e0 now = false | None => True end)) /\
  match res with
  | Some e => xc_find k c = Some e /\ xc_find k c' = Some e /\ xfresh e now = true
  | None => xc_find (key_pq lr) c' = None /\ xc_find (key_p lr) c' = None
  end.
Proof.
  unfold xlookup.
  assert (Hrm : forall kk (cc : cachex) k0, xc_find k0 (xc_remove kk cc) = xc_find k0 cc \/
                 (xc_find k0 (xc_remove kk cc) = None /\ k0 = kk)).
  { intros kk cc k0. rewrite xc_find_remove. destruct (key_eqb k0 kk) eqn:E; [right | left; reflexivity].
    split; [reflexivity | apply key_eqb_eq; exact E]. }
  destruct (xget_item (key_pq lr) c now) as [[e1|] c1] eqn:G1.
  - intros H; inversion H; subst.
    destruct (xget_item_cases _ _ _ _ _ G1) as [(e & F & Fr & Er & Ec) | [Er _]]; [|discriminate].
    inversion Er; subst. split; [left; reflexivity|]. split; [intros k0; left; reflexivity|]. repeat split; assumption.
  - destruct (xget_item (key_p lr) c1 now) as [res2 c2] eqn:G2. intros H; inversion H; subst.
    destruct (xget_item_cases _ _ _ _ _ G1) as [(e & _ & _ & Er & _) | [_ Ec1]]; [discriminate|]. subst c1.
    assert (Hexp1 : match xc_find (key_pq lr) c with Some e0 => xfresh e0 now = false | None => True end).
    { unfold xget_item in G1. destruct (xc_find (key_pq lr) c) as [e0|]; [|exact I].
      destruct (xfresh e0 now); [discriminate | reflexivity]. }
    split; [right; reflexivity|].
    destruct (xget_item_cases _ _ _ _ _ G2) as [(e & F & Fr & Er & Ec) | [Er Ec]]; subst.
    + split.
      * intros k0. destruct (Hrm (key_pq lr) c k0) as [E | [E K]]; [left; exact E | right].
        split; [exact E|]. split; [left; exact K|]. subst k0. exact Hexp1.
      * rewrite xc_find_remove in F. destruct (key_eqb (key_p lr) (key_pq lr)); [discriminate|].
        split; [exact F|]. split; [|exact Fr]. rewrite xc_find_remove.
        destruct (key_eqb (key_p lr) (key_pq lr)) eqn:E; [|exact F].
        unfold key_p, key_pq in E. destruct (path_query lr). discriminate.
    + assert (Hexp2 : match xc_find (key_p lr) (xc_remove (key_pq lr) c) with Some e0 => xfresh e0 now = false | None => True end).
      { unfold xget_item in G2. destruct (xc_find (key_p lr) (xc_remove (key_pq lr) c)) as [e0|]; [|exact I].
        destruct (xfresh e0 now); [discriminate | reflexivity]. }
      split.
      * intros k0. rewrite !xc_find_remove.
        destruct (key_eqb k0 (key_p lr)) eqn:E2.
        -- right. split; [reflexivity|]. apply key_eqb_eq in E2. split; [right; exact E2|]. subst k0.
           rewrite xc_find_remove in Hexp2. destruct (key_eqb (key_p lr) (key_pq lr)) eqn:E; [|exact Hexp2].
           unfold key_p, key_pq in E. destruct (path_query lr). discriminate.
        -- destruct (key_eqb k0 (key_pq lr)) eqn:E1; [right | left; reflexivity].
           split; [reflexivity|]. apply key_eqb_eq in E1. split; [left; exact E1|]. subst k0. exact Hexp1.
      * rewrite !xc_find_remove, !key_eqb_refl.
        split; [|reflexivity]. destruct (key_eqb (key_pq lr) (key_p lr)); reflexivity.
Qed.

(** ---- admission is exactly the property's conjunction ---- *)
Lemma may_store_x_iff sfilter m x :
  may_store_x true sfilter m x = true <->
  is_stream x = false /\ f_spref (fx_fat x) <> SP_NONE /\ sfilter (f_status (fx_fat x)) = false /\
  get_or_head m = true /\ fx_len x < size_limit /\ kvarn_none (fx_fat x) = false.
Proof.
  unfold may_store_x, wants_cache_x, pref_caches. cbn [andb].
  rewrite !andb_true_iff, !negb_true_iff, N.ltb_lt, N.eqb_neq. tauto.
Qed.
Lemma may_store_x_method co sf m m' x :
  get_or_head m = get_or_head m' -> may_store_x co sf m x = may_store_x co sf m' x.
Proof. intros H. unfold may_store_x, wants_cache_x. rewrite H. reflexivity. Qed.
Lemma stream_not_stored co sf m x : is_stream x = true -> may_store_x co sf m x = false.
Proof. intros H. unfold may_store_x, wants_cache_x. rewrite H. reflexivity. Qed.
Lemma default_filter_is_the_list m x :
  may_store_x true status_filter_drop m x = true ->
  ~ ((100 <= f_status (fx_fat x) <= 199) \/ f_status (fx_fat x) = 304 \/
     (400 <= f_status (fx_fat x) <= 499 /\ f_status (fx_fat x) <> 404 /\ f_status (fx_fat x) <> 410)).
Proof.
  intros H. apply may_store_x_iff in H. destruct H as (_ & _ & H & _). intros C.
  apply status_filter_spec in C. congruence.
Qed.

Section X.
  Variable hstate : Type.
  Variable compute : hstate -> request -> option (bytes * option bytes) -> bool -> fatx * hstate * list bytes.
  Variable ims_on : bool.
  Variable fix_ovkey fix_clear fix_svary : bool.
  Variable sfilter : N -> bool.
  Variable parse_ims : bytes -> option Z.
  Variable sanitize_ok : request -> bool.
  Variable prime : request -> request.
  Variable override : request -> option (bytes * option bytes).
  Variable negotiate : request -> fatx -> option (N * bytes).
  Variable vary_tuple : request -> option (bytes * option bytes) -> tuple.
  Variable vary_header : request -> option (bytes * option bytes) -> fatx -> list (bytes * bytes).
  Variable clear_alias : request -> option request.

  (** the repaired [handle_vary_missing] ([fix_vary = true]); the other repairs are parameters *)
  Notation finishR := (finishX fix_svary negotiate vary_header).
  Notation missR := (missX hstate compute true ims_on fix_ovkey fix_svary sfilter negotiate vary_tuple vary_header).
  Notation vmissR := (vary_missingX hstate compute true ims_on true fix_svary true sfilter negotiate vary_tuple vary_header).
  Notation serveR := (serveX hstate compute true ims_on true fix_ovkey fix_svary true true sfilter parse_ims sanitize_ok prime override
                             negotiate vary_tuple vary_header).
  Notation stepR := (stepX hstate compute true ims_on true fix_ovkey fix_clear fix_svary true true sfilter parse_ims sanitize_ok prime
                           override negotiate vary_tuple vary_header clear_alias).
  Notation runR_state := (runX_state hstate compute true ims_on true fix_ovkey fix_clear fix_svary true true sfilter parse_ims sanitize_ok
                                     prime override negotiate vary_tuple vary_header clear_alias).
  Notation runR := (runX hstate compute true ims_on true fix_ovkey fix_clear fix_svary true true sfilter parse_ims sanitize_ok
                         prime override negotiate vary_tuple vary_header clear_alias).

  Definition ims_hit (r : request) (e : entryx) : bool :=
    match (if ims_on then match header (B "if-modified-since") r with Some v => parse_ims v | None => None end else None) with
    | Some t => ims_fresh t (ex_created e)
    | None => false
    end.

  (** how one request changes the cache: nothing beyond the lookup's own invalidations, or exactly one insert —
      a new single-variant entry by the miss arm, or the found entry with one more variant — and only of an
      admitted response that was computed for this request *)
  Inductive cache_change (c1 : cachex) (now : N) (r : request) (ov : option (bytes * option bytes)) (ok : bool)
            (k : key) (found : option entryx) (x : fatx) : cachex -> Prop :=
  | CC_same : cache_change c1 now r ov ok k found x c1
  | CC_new :
      may_store_x true sfilter (rq_method r) x = true ->
      (found = None \/ ok && get_or_head (rq_method r) = false) ->
      cache_change c1 now r ov ok k found x
        (xc_insert (insert_key (if fix_ovkey then lookup_req r ov else r) (fx_fat x))
                   {| ex_vars := [mkVar (vary_tuple r ov) x now]; ex_created := now; ex_life := lifetime_x x |} c1)
  | CC_push e :
      found = Some e -> ok && get_or_head (rq_method r) = true ->
      xv_find (vary_tuple r ov) (ex_vars e) = None ->
      may_store_x true sfilter (rq_method r) x = true -> qm_key_ok k x = true ->
      cache_change c1 now r ov ok k found x
        (xc_insert k {| ex_vars := mkVar (vary_tuple r ov) x now :: ex_vars e; ex_created := now;
                        ex_life := min_life (option_map (fun l => l - (now - ex_created e)) (ex_life e)) (lifetime_x x) |} c1).

  Lemma serve_cache_update c hs now r0 st' rp lg :
    serveR (c, hs) now r0 = (st', rp, lg) ->
    let r := prime r0 in let ov := override r0 in let ok := sanitize_ok r0 in
    exists k found c1,
      xlookup (lookup_req r ov) c now = ((k, found), c1) /\
      cache_change c1 now r ov ok k found (fst (fst (compute hs r ov ok))) (fst st').
  Proof.
    intros H r ov ok. unfold serveX in H. cbn [negb] in H. fold r ov ok in H.
    destruct (xlookup (lookup_req r ov) c now) as [[k found] c1] eqn:L.
    exists k, found, c1. split; [reflexivity|].
    assert (Hmiss : forall st2 rp2 lg2, missR c1 hs now r ov ok = (st2, rp2, lg2) ->
                    (found = None \/ ok && get_or_head (rq_method r) = false) ->
                    cache_change c1 now r ov ok k found (fst (fst (compute hs r ov ok))) (fst st2)).
    { intros st2 rp2 lg2 M G. unfold missX in M. destruct (compute hs r ov ok) as [[x hs'] lg'] eqn:C. cbn [fst].
      destruct (may_store_x true sfilter (rq_method r) x) eqn:A; inversion M; subst; cbn [fst].
      - apply CC_new; assumption.
      - apply CC_same. }
    destruct found as [e|].
    - destruct (ok && get_or_head (rq_method r)) eqn:G.
      + fold (ims_hit r e) in H. cbn [negb orb] in H.
        destruct (ims_hit r e && match xv_find (vary_tuple r ov) (ex_vars e) with Some _ => true | None => false end) eqn:I.
        * inversion H; subst. cbn [fst]. apply CC_same.
        * destruct (xv_find (vary_tuple r ov) (ex_vars e)) as [v|] eqn:V.
          -- inversion H; subst. cbn [fst]. apply CC_same.
          -- unfold vary_missingX in H. destruct (compute hs r ov ok) as [[x hs'] lg'] eqn:C. cbn [fst].
             cbn [negb orb] in H.
             destruct (may_store_x true sfilter (rq_method r) x && qm_key_ok k x) eqn:A; inversion H; subst; cbn [fst].
             ++ apply andb_true_iff in A as [A Q]. eapply CC_push; try eassumption; reflexivity.
             ++ apply CC_same.
      + eapply Hmiss; [exact H | right; reflexivity].
    - eapply Hmiss; [exact H | left; reflexivity].
  Qed.

  (** ================= C04: every stored variant was admitted, in every history ================= *)
  Definition AdmInv (c : cachex) : Prop :=
    forall k e v, xc_find k c = Some e -> In v (ex_vars e) -> may_store_x true sfilter M_GET (v_resp v) = true.

  Lemma AdmInv_nil : AdmInv [].
  Proof. intros k e v H. discriminate. Qed.
  Lemma AdmInv_remove k c : AdmInv c -> AdmInv (xc_remove k c).
  Proof.
    intros H k0 e0 v. rewrite xc_find_remove. destruct (key_eqb k0 k); [discriminate|]. apply H.
  Qed.
  Lemma AdmInv_insert k e c :
    AdmInv c -> (forall v, In v (ex_vars e) -> may_store_x true sfilter M_GET (v_resp v) = true) -> AdmInv (xc_insert k e c).
  Proof.
    intros H He k0 e0 v. rewrite xc_find_insert. destruct (key_eqb k0 k).
    - intros H0; inversion H0; subst. apply He.
    - apply H.
  Qed.
  Lemma AdmInv_lookup lr c now k res c' :
    xlookup lr c now = ((k, res), c') -> AdmInv c -> AdmInv c'.
  Proof.
    intros L I k0 e0 v F. destruct (xlookup_cases _ _ _ _ _ _ L) as (_ & Hc & _).
    destruct (Hc k0) as [E | [E _]]; rewrite E in F; [eapply I; exact F | discriminate].
  Qed.
  Lemma may_store_get m x :
    may_store_x true sfilter m x = true -> may_store_x true sfilter M_GET x = true.
  Proof.
    intros H. rewrite (may_store_x_method true sfilter M_GET m); [exact H|].
    apply may_store_x_iff in H. destruct H as (_ & _ & _ & G & _). rewrite G. reflexivity.
  Qed.

  Lemma serve_adm c hs now r0 : AdmInv c -> AdmInv (fst (fst (fst (serveR (c, hs) now r0)))).
  Proof.
    intros I. destruct (serveR (c, hs) now r0) as [[st' rp] lg] eqn:S. cbn [fst].
    destruct (serve_cache_update _ _ _ _ _ _ _ S) as (k & found & c1 & L & CC).
    pose proof (AdmInv_lookup _ _ _ _ _ _ L I) as I1.
    destruct CC as [ | A _ | e Ef G V A Q ].
    - exact I1.
    - apply AdmInv_insert; [exact I1|]. cbn [ex_vars]. intros v [<- | []]. cbn [v_resp]. eapply may_store_get; exact A.
    - apply AdmInv_insert; [exact I1|]. cbn [ex_vars]. intros v [<- | Hin].
      + cbn [v_resp]. eapply may_store_get; exact A.
      + destruct (xlookup_cases _ _ _ _ _ _ L) as (_ & _ & Hres). rewrite Ef in Hres. destruct Hres as (F & _ & _).
        eapply I; eassumption.
  Qed.

  Lemma clear_uri_adm r c : AdmInv c -> AdmInv (xclear_uri r c).
  Proof. intros I. unfold xclear_uri. apply AdmInv_remove, AdmInv_remove, I. Qed.
  Lemma clear_page_adm r c : AdmInv c -> AdmInv (xclear_page fix_clear clear_alias r c).
  Proof.
    intros I. unfold xclear_page. destruct (if fix_clear then clear_alias r else None); repeat apply clear_uri_adm; exact I.
  Qed.

  Lemma step_adm st now o : AdmInv (fst st) -> AdmInv (fst (fst (fst (stepR st now o)))).
  Proof.
    destruct st as [c hs]. cbn [fst]. intros I. destruct o as [r | r | | ms]; cbn [stepX].
    - pose proof (serve_adm c hs now r I) as H. destruct (serveR (c, hs) now r) as [[st' rp] lg]. exact H.
    - cbn [fst]. apply clear_page_adm, I.
    - cbn [fst]. apply AdmInv_nil.
    - cbn [fst]. exact I.
  Qed.

  Lemma run_adm ops : forall st now, AdmInv (fst st) -> AdmInv (fst (fst (runR_state st now ops))).
  Proof.
    induction ops as [|o ops IH]; intros st now I; cbn [runX_state]; [exact I|].
    pose proof (step_adm st now o I) as S. destruct (stepR st now o) as [[st' now'] ob]. apply IH. exact S.
  Qed.

  (** ================= C04: no variant is served past its own lifetime, in every history ================= *)
  Definition var_life_ok (e : entryx) (v : variant) : Prop :=
    v_stored v <= ex_created e /\
    match lifetime_x (v_resp v) with
    | Some L => exists l, ex_life e = Some l /\ ex_created e + l <= v_stored v + L
    | None => True
    end.
  Definition LifeInv (c : cachex) (now : N) : Prop :=
    forall k e, xc_find k c = Some e -> ex_created e <= now /\ forall v, In v (ex_vars e) -> var_life_ok e v.

  Lemma LifeInv_nil now : LifeInv [] now.
  Proof. intros k e H. discriminate. Qed.
  Lemma LifeInv_remove k c now : LifeInv c now -> LifeInv (xc_remove k c) now.
  Proof. intros H k0 e0. rewrite xc_find_remove. destruct (key_eqb k0 k); [discriminate|]. apply H. Qed.
  Lemma LifeInv_insert k e c now :
    LifeInv c now -> ex_created e <= now -> (forall v, In v (ex_vars e) -> var_life_ok e v) -> LifeInv (xc_insert k e c) now.
  Proof.
    intros H Hc He k0 e0. rewrite xc_find_insert. destruct (key_eqb k0 k).
    - intros H0; inversion H0; subst. split; assumption.
    - apply H.
  Qed.
  Lemma LifeInv_later c now now' : LifeInv c now -> now <= now' -> LifeInv c now'.
  Proof. intros H Hle k e F. destruct (H k e F) as [H1 H2]. split; [lia | exact H2]. Qed.
  Lemma LifeInv_lookup lr c now k res c' :
    xlookup lr c now = ((k, res), c') -> LifeInv c now -> LifeInv c' now.
  Proof.
    intros L I k0 e0 F. destruct (xlookup_cases _ _ _ _ _ _ L) as (_ & Hc & _).
    destruct (Hc k0) as [E | [E _]]; rewrite E in F; [eapply I; exact F | discriminate].
  Qed.

  Lemma serve_life c hs now r0 : LifeInv c now -> LifeInv (fst (fst (fst (serveR (c, hs) now r0)))) now.
  Proof.
    intros I. destruct (serveR (c, hs) now r0) as [[st' rp] lg] eqn:S. cbn [fst].
    destruct (serve_cache_update _ _ _ _ _ _ _ S) as (k & found & c1 & L & CC).
    pose proof (LifeInv_lookup _ _ _ _ _ _ L I) as I1.
    destruct CC as [ | A _ | e Ef G V A Q ].
    - exact I1.
    - apply LifeInv_insert; [exact I1 | cbn; lia |]. cbn [ex_vars]. intros v [<- | []].
      unfold var_life_ok. cbn [v_stored v_resp ex_created ex_life]. split; [lia|].
      destruct (lifetime_x _) as [L0|]; [|exact Logic.I]. exists L0. split; [reflexivity | lia].
    - destruct (xlookup_cases _ _ _ _ _ _ L) as (_ & _ & Hres). rewrite Ef in Hres. destruct Hres as (F & _ & Fr).
      destruct (I _ _ F) as [Hcr Hvars]. apply xfresh_spec in Fr.
      apply LifeInv_insert; [exact I1 | cbn; lia |]. cbn [ex_vars]. intros v [<- | Hin].
      + unfold var_life_ok. cbn [v_stored v_resp ex_created ex_life]. split; [lia|].
        destruct (lifetime_x _) as [L0|]; [|exact Logic.I].
        destruct (ex_life e) as [l0|]; cbn [option_map min_life].
        * eexists. split; [reflexivity|]. lia.
        * eexists. split; [reflexivity|]. lia.
      + destruct (Hvars v Hin) as [Hs Hl]. unfold var_life_ok. cbn [ex_created ex_life]. split; [lia|].
        destruct (lifetime_x (v_resp v)) as [Lv|]; [|exact Logic.I].
        destruct Hl as (l0 & El & Hl). rewrite El in *. cbn [option_map].
        destruct (lifetime_x _) as [L0|]; cbn [min_life]; eexists; (split; [reflexivity|]); lia.
  Qed.

  Lemma clear_page_life r c now : LifeInv c now -> LifeInv (xclear_page fix_clear clear_alias r c) now.
  Proof.
    intros I. unfold xclear_page, xclear_uri.
    destruct (if fix_clear then clear_alias r else None); repeat apply LifeInv_remove; exact I.
  Qed.

  Lemma step_life st now o :
    LifeInv (fst st) now -> LifeInv (fst (fst (fst (stepR st now o)))) (snd (fst (stepR st now o))) /\ now <= snd (fst (stepR st now o)).
  Proof.
    destruct st as [c hs]. cbn [fst]. intros I. destruct o as [r | r | | ms]; cbn [stepX].
    - pose proof (serve_life c hs now r I) as H. destruct (serveR (c, hs) now r) as [[st' rp] lg]. cbn [fst snd] in *. split; [exact H | lia].
    - cbn [fst snd]. split; [apply clear_page_life, I | lia].
    - cbn [fst snd]. split; [apply LifeInv_nil | lia].
    - cbn [fst snd]. split; [eapply LifeInv_later; [exact I | lia] | lia].
  Qed.

  Lemma run_life ops : forall st now, LifeInv (fst st) now ->
    LifeInv (fst (fst (runR_state st now ops))) (snd (runR_state st now ops)) /\ now <= snd (runR_state st now ops).
  Proof.
    induction ops as [|o ops IH]; intros st now I; cbn [runX_state]; [cbn [fst snd]; split; [exact I | lia]|].
    destruct (step_life st now o I) as [S Hle]. destruct (stepR st now o) as [[st' now'] ob]. cbn [fst snd] in *.
    destruct (IH st' now' S) as [H1 H2]. split; [exact H1 | lia].
  Qed.

  (** what a hit serves at [now] was stored at most its own lifetime ago *)
  Lemma hit_within_own_lifetime lr c now k e c' t v L :
    LifeInv c now -> xlookup lr c now = ((k, Some e), c') -> xv_find t (ex_vars e) = Some v ->
    lifetime_x (v_resp v) = Some L -> v_stored v <= now /\ now - v_stored v <= L.
  Proof.
    intros I Lk V HL. destruct (xlookup_cases _ _ _ _ _ _ Lk) as (_ & _ & F & _ & Fr).
    destruct (I _ _ F) as [Hcr Hvars]. apply xv_find_in in V. destruct V as [Hin _].
    destruct (Hvars v Hin) as [Hs Hl]. rewrite HL in Hl. destruct Hl as (l0 & El & Hl).
    apply xfresh_spec in Fr. rewrite El in Fr. lia.
  Qed.

  (** ================= C04: what is not found, not GET/HEAD or unsafe is recomputed ================= *)
  Lemma miss_computes_x c1 hs now r ov ok :
    snd (missR c1 hs now r ov ok) = snd (compute hs r ov ok) /\
    snd (fst (fst (missR c1 hs now r ov ok))) = snd (fst (compute hs r ov ok)).
  Proof.
    unfold missX. destruct (compute hs r ov ok) as [[x hs'] lg]. cbn [fst snd].
    destruct (may_store_x true sfilter (rq_method r) x); split; reflexivity.
  Qed.
  Lemma not_found_recomputes_x c hs now r0 :
    snd (fst (xlookup (lookup_req (prime r0) (override r0)) c now)) = None ->
    snd (serveR (c, hs) now r0) = snd (compute hs (prime r0) (override r0) (sanitize_ok r0)) /\
    snd (fst (fst (serveR (c, hs) now r0))) = snd (fst (compute hs (prime r0) (override r0) (sanitize_ok r0))).
  Proof.
    intros H. unfold serveX. cbn [negb].
    destruct (xlookup (lookup_req (prime r0) (override r0)) c now) as [[k found] c1]. cbn [fst snd] in H. subst found.
    apply miss_computes_x.
  Qed.
  Lemma guard_recomputes_x c hs now r0 :
    sanitize_ok r0 && get_or_head (rq_method (prime r0)) = false ->
    snd (serveR (c, hs) now r0) = snd (compute hs (prime r0) (override r0) (sanitize_ok r0)) /\
    snd (fst (fst (serveR (c, hs) now r0))) = snd (fst (compute hs (prime r0) (override r0) (sanitize_ok r0))).
  Proof.
    intros H. unfold serveX. cbn [negb].
    destruct (xlookup (lookup_req (prime r0) (override r0)) c now) as [[k [e|]] c1]; [rewrite H|]; apply miss_computes_x.
  Qed.

  (** ================= C04: explicit clears ================= *)
  Lemma xfind_clear_uri k r c :
    xc_find k (xclear_uri r c) = if key_eqb k (key_p r) || key_eqb k (key_pq r) then None else xc_find k c.
  Proof.
    unfold xclear_uri. rewrite !xc_find_remove. destruct (key_eqb k (key_p r)), (key_eqb k (key_pq r)); reflexivity.
  Qed.
  Lemma xlookup_absent lr c now :
    xc_find (key_pq lr) c = None -> xc_find (key_p lr) c = None -> xlookup lr c now = ((key_p lr, None), c).
  Proof.
    intros H1 H2. unfold xlookup, xget_item. rewrite H1, H2. reflexivity.
  Qed.
  Lemma same_pq_keys a b : path_query a = path_query b -> key_pq a = key_pq b /\ key_p a = key_p b.
  Proof.
    intros E. split; [unfold key_pq; rewrite E; reflexivity|].
    unfold key_p. rewrite (path_query_path _ _ E). reflexivity.
  Qed.
  Lemma cleared_uri_is_miss lr r' c now :
    path_query lr = path_query r' -> snd (fst (xlookup lr (xclear_uri r' c) now)) = None.
  Proof.
    intros E. destruct (same_pq_keys _ _ E) as [K1 K2]. rewrite xlookup_absent; [reflexivity | |];
      rewrite xfind_clear_uri, ?K1, ?K2, key_eqb_refl, ?orb_true_r; reflexivity.
  Qed.
  Lemma cleared_page_is_miss lr r' c now :
    (path_query lr = path_query r' \/
     exists a, fix_clear = true /\ clear_alias r' = Some a /\ path_query lr = path_query a) ->
    snd (fst (xlookup lr (xclear_page fix_clear clear_alias r' c) now)) = None.
  Proof.
    intros [E | (a & Hf & Ha & E)]; unfold xclear_page.
    - destruct (if fix_clear then clear_alias r' else None) as [a|]; [|apply cleared_uri_is_miss; exact E].
      destruct (same_pq_keys _ _ E) as [K1 K2]. rewrite xlookup_absent; [reflexivity | |];
        rewrite !xfind_clear_uri, ?K1, ?K2, key_eqb_refl, ?orb_true_r;
        destruct (key_eqb _ (key_p a) || key_eqb _ (key_pq a)); reflexivity.
    - rewrite Hf, Ha. apply cleared_uri_is_miss. exact E.
  Qed.
  (** end to end: after [clear_page(uri)] the next request for that URI — as given, or as the default
      redirect rewrites it — invokes the layer below *)
  Lemma clear_then_request_recomputes c hs now r0 r' :
    override r0 = None ->
    (path_query (prime r0) = path_query r' \/
     exists a, fix_clear = true /\ clear_alias r' = Some a /\ path_query (prime r0) = path_query a) ->
    snd (serveR (xclear_page fix_clear clear_alias r' c, hs) now r0) = snd (compute hs (prime r0) None (sanitize_ok r0)).
  Proof.
    intros Ho H. pose proof (not_found_recomputes_x (xclear_page fix_clear clear_alias r' c) hs now r0) as N.
    rewrite Ho in N. cbn [lookup_req] in N. apply N. apply cleared_page_is_miss. exact H.
  Qed.
  Lemma clear_all_is_miss_x lr now : snd (fst (xlookup lr [] now)) = None.
  Proof. reflexivity. Qed.

  (** ================= C04: 304 exactly by the date rule ================= *)
  Lemma ims_rule_x c hs now r0 k e c1 :
    let r := prime r0 in
    xlookup (lookup_req r (override r0)) c now = ((k, Some e), c1) -> sanitize_ok r0 = true -> get_or_head (rq_method r) = true ->
    (ims_hit r e = true /\ xv_find (vary_tuple r (override r0)) (ex_vars e) <> None /\
     rx_status (snd (fst (serveR (c, hs) now r0))) = 304 /\ rx_from_cache (snd (fst (serveR (c, hs) now r0))) = true /\
     snd (serveR (c, hs) now r0) = [] /\ rx_body (snd (fst (serveR (c, hs) now r0))) = [] /\ fst (fst (serveR (c, hs) now r0)) = (c1, hs))
    \/
    ((ims_hit r e = false \/ xv_find (vary_tuple r (override r0)) (ex_vars e) = None) /\
     serveR (c, hs) now r0 =
       match xv_find (vary_tuple r (override r0)) (ex_vars e) with
       | Some v => ((c1, hs), finishR r (override r0) (v_resp v) ims_on true false, [])
       | None => vmissR c1 hs now r (override r0) true k e
       end).
  Proof.
    intros r L Hok GH. unfold serveX. cbn [negb orb]. fold r. rewrite L, Hok, GH. cbn [andb]. fold (ims_hit r e).
    destruct (ims_hit r e) eqn:E; cbn [andb].
    - destruct (xv_find (vary_tuple r (override r0)) (ex_vars e)) as [v|] eqn:V.
      + left. cbn [fst snd rx_status rx_from_cache rx_body]. repeat split. discriminate.
      + right. split; [right; reflexivity | reflexivity].
    - right. split; [left; reflexivity | reflexivity].
  Qed.
End X.

(** ================= C04: one computation per key while fresh, over whole histories ================= *)
Lemma key_p_ne_pq a b : key_p a <> key_pq b.
Proof. unfold key_p, key_pq. destruct (path_query b). discriminate. Qed.
Lemma keys_same_path a b k :
  (k = key_pq a \/ k = key_p a) -> (k = key_pq b \/ k = key_p b) -> rq_path a = rq_path b.
Proof.
  intros [Ha | Ha] [Hb | Hb]; subst k.
  - unfold key_pq in Hb. destruct (path_query a) eqn:Pa, (path_query b) eqn:Pb. inversion Hb; subst.
    apply path_query_path. congruence.
  - symmetry in Hb. exfalso. exact (key_p_ne_pq _ _ Hb).
  - exfalso. exact (key_p_ne_pq _ _ Hb).
  - unfold key_p in Hb. inversion Hb. reflexivity.
Qed.
Lemma insert_key_cases lr f : (insert_key lr f = key_pq lr /\ (f_spref f =? SP_QUERY) = true) \/
                              (insert_key lr f = key_p lr /\ (f_spref f =? SP_QUERY) = false).
Proof. unfold insert_key. destruct (f_spref f =? SP_QUERY); [left | right]; split; reflexivity. Qed.

Section Once.
  Variable hstate : Type.
  Variable compute : hstate -> request -> option (bytes * option bytes) -> bool -> fatx * hstate * list bytes.
  Variable ims_on : bool.
  Variable fix_clear fix_svary : bool.
  Variable sfilter : N -> bool.
  Variable parse_ims : bytes -> option Z.
  Variable sanitize_ok : request -> bool.
  Variable prime : request -> request.
  Variable override : request -> option (bytes * option bytes).
  Variable negotiate : request -> fatx -> option (N * bytes).
  Variable vary_tuple : request -> option (bytes * option bytes) -> tuple.
  Variable vary_header : request -> option (bytes * option bytes) -> fatx -> list (bytes * bytes).
  Variable clear_alias : request -> option request.

  Notation finishR := (finishX fix_svary negotiate vary_header).
  Notation serveR := (serveX hstate compute true ims_on true true fix_svary true true sfilter parse_ims sanitize_ok prime override
                             negotiate vary_tuple vary_header).
  Notation stepR := (stepX hstate compute true ims_on true true fix_clear fix_svary true true sfilter parse_ims sanitize_ok prime
                           override negotiate vary_tuple vary_header clear_alias).
  Notation runR_state := (runX_state hstate compute true ims_on true true fix_clear fix_svary true true sfilter parse_ims sanitize_ok
                                     prime override negotiate vary_tuple vary_header clear_alias).

  (** the request whose response was stored, the response, the time it was stored and a deadline *)
  Variable r0 : request.
  Variable x : fatx.
  Variable now0 D : N.
  Notation r := (prime r0).
  Notation ov := (override r0).
  Notation lr := (lookup_req (prime r0) (override r0)).
  Notation t := (vary_tuple (prime r0) (override r0)).
  Notation k := (insert_key (lookup_req (prime r0) (override r0)) (fx_fat x)).

  (** error responses (sanitize failed) are never admitted *)
  Hypothesis Herr : forall hs r' ov', may_store_x true sfilter (rq_method r') (fst (fst (compute hs r' ov' false))) = false.
  (** whatever the layer below computes for this path has the same query-matters-ness and a lifetime
      that reaches the deadline *)
  Hypothesis Hsame : forall hs r' ov' ok, rq_path (lookup_req r' ov') = rq_path lr ->
    qmx (fst (fst (compute hs r' ov' ok))) = qmx x /\
    match lifetime_x (fst (fst (compute hs r' ov' ok))) with Some L => D <= now0 + L | None => True end.

  Definition OnceInv (c : cachex) (tm : N) : Prop :=
    exists e, xc_find k c = Some e /\ xv_find t (ex_vars e) <> None /\ ex_created e <= tm /\
              match ex_life e with Some l => D <= ex_created e + l | None => True end /\
              (k = key_p lr -> xc_find (key_pq lr) c = None).

  Definition keys_off (r' : request) : Prop := key_pq r' <> k /\ key_p r' <> k.
  (** operations that do not clear the key *)
  Definition benign (o : opx) : Prop :=
    match o with
    | XClearAll => False
    | XClearPage r' => keys_off r' /\ match (if fix_clear then clear_alias r' else None) with Some a => keys_off a | None => True end
    | _ => True
    end.

  Lemma k_cases : (k = key_pq lr /\ qmx x = true) \/ (k = key_p lr /\ qmx x = false).
  Proof. apply insert_key_cases. Qed.

  Lemma once_lookup lr1 c tm k1 found c1 :
    OnceInv c tm -> tm <= D -> xlookup lr1 c tm = ((k1, found), c1) -> OnceInv c1 tm.
  Proof.
    intros (e & F & V & Hc & Hl & Hsh) Hle L. destruct (xlookup_cases _ _ _ _ _ _ L) as (_ & Hch & _).
    exists e. split; [|split; [exact V | split; [exact Hc | split; [exact Hl|]]]].
    - destruct (Hch k) as [E | (_ & _ & Hex)]; [rewrite E; exact F|].
      rewrite F in Hex. unfold xfresh in Hex. destruct (ex_life e) as [l|]; [lia | discriminate].
    - intros Hk. destruct (Hch (key_pq lr)) as [E | [E _]]; rewrite E; [apply Hsh; exact Hk | reflexivity].
  Qed.

  Lemma once_serve c hs tm r1 :
    OnceInv c tm -> now0 <= tm -> tm <= D -> OnceInv (fst (fst (fst (serveR (c, hs) tm r1)))) tm.
  Proof.
    intros I H0 HD. destruct (serveR (c, hs) tm r1) as [[st' rp] lg] eqn:S. cbn [fst].
    destruct (serve_cache_update hstate compute ims_on true fix_svary sfilter parse_ims sanitize_ok prime override negotiate vary_tuple vary_header _ _ _ _ _ _ _ S) as (k1 & found & c1 & L & CC).
    pose proof (once_lookup _ _ _ _ _ _ I HD L) as (e & F & V & Hc & Hl & Hsh).
    destruct (xlookup_cases _ _ _ _ _ _ L) as (Hk1 & _ & Hres).
    set (r1' := prime r1) in *. set (ov1 := override r1) in *. set (lr1 := lookup_req r1' ov1) in *.
    set (x1 := fst (fst (compute hs r1' ov1 (sanitize_ok r1)))) in *.
    destruct CC as [ | A G | e1 Ef G V1 A Q ].
    - exists e. repeat split; assumption.
    - (* a new entry: under another key *)
      assert (Hnone : found = None).
      { destruct G as [G | G]; [exact G|]. exfalso.
        assert (GH : get_or_head (rq_method r1') = true) by (apply may_store_x_iff in A; tauto).
        rewrite GH, andb_true_r in G. unfold x1 in A. rewrite G in A. rewrite Herr in A. discriminate. }
      subst found. destruct Hres as [N1 N2].
      cbv iota. fold r1' ov1. fold lr1.
      set (kn := insert_key lr1 (fx_fat x1)) in *.
      assert (Hkn : kn = key_pq lr1 \/ kn = key_p lr1).
      { unfold kn. destruct (insert_key_cases lr1 (fx_fat x1)) as [[E _] | [E _]]; rewrite E; auto. }
      assert (Hne : key_eqb k kn = false).
      { apply key_eqb_neq. intros E. destruct Hkn as [K | K]; rewrite <- E in K; rewrite K in F; congruence. }
      exists e. rewrite xc_find_insert, Hne. repeat split; try assumption.
      intros Hk. rewrite xc_find_insert. destruct (key_eqb (key_pq lr) kn) eqn:E2; [|apply Hsh; exact Hk].
      exfalso. apply key_eqb_eq in E2.
      destruct (insert_key_cases lr1 (fx_fat x1)) as [[E Q] | [E Q]]; fold kn in E; rewrite E in E2.
      + assert (Hp : rq_path lr1 = rq_path lr).
        { apply (keys_same_path lr1 lr (key_pq lr)); [left; exact E2 | left; reflexivity]. }
        destruct (Hsame hs r1' ov1 (sanitize_ok r1) Hp) as [Hq _]. fold x1 in Hq. unfold qmx in Hq at 1. rewrite Q in Hq.
        destruct k_cases as [[Ek _] | [_ Eq]]; [|congruence].
        rewrite Ek in Hk. symmetry in Hk. exact (key_p_ne_pq _ _ Hk).
      + exact (key_p_ne_pq _ _ (eq_sym E2)).
    - (* one more variant *)
      rewrite Ef in Hres. destruct Hres as (_ & F1 & Fr1).
      destruct (key_eqb k k1) eqn:Ek.
      + apply key_eqb_eq in Ek. subst k1. rewrite F in F1. inversion F1; subst e1.
        apply xfresh_spec in Fr1.
        assert (Hp : rq_path lr1 = rq_path lr).
        { apply (keys_same_path lr1 lr k); [exact Hk1|]. destruct k_cases as [[E _] | [E _]]; rewrite E; auto. }
        destruct (Hsame hs r1' ov1 (sanitize_ok r1) Hp) as [_ Hlife]. fold x1 in Hlife.
        eexists. rewrite xc_find_insert, key_eqb_refl. split; [reflexivity|]. cbn [ex_vars ex_created ex_life].
        split; [apply xv_find_cons_some; exact V|]. split; [lia|]. split.
        * destruct (ex_life e) as [l|]; cbn [option_map]; destruct (lifetime_x x1) as [L1|]; cbn [min_life]; try exact Logic.I; lia.
        * intros Hk. rewrite xc_find_insert. destruct (key_eqb (key_pq lr) k) eqn:E2; [|apply Hsh; exact Hk].
          apply key_eqb_eq in E2. rewrite Hk in E2. exfalso. exact (key_p_ne_pq _ _ (eq_sym E2)).
      + exists e. rewrite xc_find_insert, Ek. repeat split; try assumption.
        intros Hk. rewrite xc_find_insert. destruct (key_eqb (key_pq lr) k1) eqn:E2; [|apply Hsh; exact Hk].
        apply key_eqb_eq in E2. subst k1. rewrite (Hsh Hk) in F1. discriminate.
  Qed.

  Lemma once_clear_uri r' c tm : OnceInv c tm -> keys_off r' -> OnceInv (xclear_uri r' c) tm.
  Proof.
    intros (e & F & V & Hc & Hl & Hsh) [K1 K2]. exists e. rewrite xfind_clear_uri.
    apply not_eq_sym in K1. apply not_eq_sym in K2. apply key_eqb_neq in K1. apply key_eqb_neq in K2. rewrite K1, K2. cbn [orb].
    repeat split; try assumption. intros Hk. rewrite xfind_clear_uri. rewrite (Hsh Hk).
    destruct (key_eqb _ _ || key_eqb _ _); reflexivity.
  Qed.

  Lemma once_step st tm o :
    OnceInv (fst st) tm -> now0 <= tm -> benign o -> snd (fst (stepR st tm o)) <= D ->
    OnceInv (fst (fst (fst (stepR st tm o)))) (snd (fst (stepR st tm o))) /\ tm <= snd (fst (stepR st tm o)).
  Proof.
    destruct st as [c hs]. cbn [fst]. intros I H0 Hb. destruct o as [r1 | r' | | ms]; cbn [stepX].
    - pose proof (once_serve c hs tm r1 I H0) as H. destruct (serveR (c, hs) tm r1) as [[st' rp] lg]. cbn [fst snd] in *.
      intros HD. split; [apply H; exact HD | lia].
    - cbn [fst snd]. intros HD. split; [|lia]. cbn [benign] in Hb. destruct Hb as [B1 B2]. unfold xclear_page.
      destruct (if fix_clear then clear_alias r' else None) as [a|]; repeat apply once_clear_uri; assumption.
    - destruct Hb.
    - cbn [fst snd]. intros HD. split; [|lia]. destruct I as (e & F & V & Hc & Hl & Hsh). exists e. repeat split; try assumption. lia.
  Qed.

  Lemma run_time_mono ops : forall st tm, tm <= snd (runR_state st tm ops).
  Proof.
    induction ops as [|o ops IH]; intros st tm; cbn [runX_state]; [cbn; lia|].
    assert (Hs : tm <= snd (fst (stepR st tm o))).
    { destruct st as [c hs]. destruct o as [r1 | r' | | ms]; cbn [stepX]; try (cbn [fst snd]; lia).
      destruct (serveR (c, hs) tm r1) as [[st' rp] lg]. cbn [fst snd]. lia. }
    destruct (stepR st tm o) as [[st' tm'] ob]. cbn [fst snd] in Hs. specialize (IH st' tm'). lia.
  Qed.

  Lemma once_run ops : forall st tm,
    OnceInv (fst st) tm -> now0 <= tm -> Forall benign ops -> snd (runR_state st tm ops) <= D ->
    OnceInv (fst (fst (runR_state st tm ops))) (snd (runR_state st tm ops)).
  Proof.
    induction ops as [|o ops IH]; intros st tm I H0 Hb HD; cbn [runX_state] in *; [exact I|].
    inversion Hb as [|? ? Ho Hrest]; subst.
    pose proof (once_step st tm o I H0 Ho) as S. pose proof (run_time_mono ops) as M.
    destruct (stepR st tm o) as [[st' tm'] ob]. cbn [fst snd] in S. specialize (M st' tm').
    destruct S as [S1 S2]; [lia|]. apply IH; try assumption. lia.
  Qed.

  (** with the invariant, the request is answered from the stored variant: no invocation of the layer below *)
  Lemma once_hit c hs tm :
    OnceInv c tm -> tm <= D -> sanitize_ok r0 = true -> get_or_head (rq_method r) = true ->
    (ims_on = false \/ header (B "if-modified-since") r = None) ->
    snd (serveR (c, hs) tm r0) = [] /\ snd (fst (fst (serveR (c, hs) tm r0))) = hs /\
    rx_from_cache (snd (fst (serveR (c, hs) tm r0))) = true /\
    exists v, v_tuple v = t /\ snd (fst (serveR (c, hs) tm r0)) = finishR r ov (v_resp v) ims_on true false.
  Proof.
    intros (e & F & V & Hc & Hl & Hsh) HD Hok GH Hims.
    assert (Hfresh : xfresh e tm = true).
    { apply xfresh_spec. destruct (ex_life e) as [l|]; [lia | exact Logic.I]. }
    assert (L : exists c1, xlookup lr c tm = ((k, Some e), c1)).
    { unfold xlookup, xget_item. destruct k_cases as [[Ek _] | [Ek _]].
      - rewrite Ek in F. rewrite F, Hfresh. rewrite Ek. eexists; reflexivity.
      - rewrite (Hsh Ek). rewrite Ek in F. rewrite F, Hfresh. rewrite Ek. eexists; reflexivity. }
    destruct L as [c1 L]. unfold serveX. cbn [negb]. rewrite L, Hok, GH. cbn [andb].
    assert (Hno : (match (if ims_on then match header (B "if-modified-since") r with
                                          | Some v => parse_ims v | None => None end else None) with
                   | Some t0 => ims_fresh t0 (ex_created e) | None => false end) = false).
    { destruct Hims as [-> | ->]; [reflexivity | destruct ims_on; reflexivity]. }
    rewrite Hno. cbn [andb]. destruct (xv_find t (ex_vars e)) as [v|] eqn:Vf; [|congruence].
    cbn [fst snd]. split; [reflexivity|]. split; [reflexivity|]. split.
    - unfold finishX. destruct (if is_stream (v_resp v) then None else negotiate r (v_resp v)) as [[? ?]|]; reflexivity.
    - exists v. split; [apply (xv_find_in _ _ _ Vf) | reflexivity].
  Qed.

  (** the state right after the response was computed and stored satisfies the invariant *)
  Lemma once_init c hs hs1 lg1 :
    sanitize_ok r0 = true ->
    snd (fst (xlookup lr c now0)) = None ->
    compute hs r ov true = (x, hs1, lg1) -> may_store_x true sfilter (rq_method r) x = true ->
    OnceInv (fst (fst (fst (serveR (c, hs) now0 r0)))) now0.
  Proof.
    intros Hok Hnone C A. unfold serveX. cbn [negb]. rewrite Hok.
    destruct (xlookup lr c now0) as [[k1 found] c1] eqn:L. cbn [fst snd] in Hnone. subst found.
    destruct (xlookup_cases _ _ _ _ _ _ L) as (_ & _ & N1 & N2).
    unfold missX. rewrite C, A. cbn [fst].
    eexists. rewrite xc_find_insert, key_eqb_refl. split; [reflexivity|]. cbn [ex_vars ex_created ex_life xv_find v_tuple].
    assert (Ht : tuple_eqb t t = true) by (apply tuple_eqb_eq; reflexivity). rewrite Ht.
    split; [discriminate|]. split; [lia|]. split.
    - destruct (Hsame hs r ov true eq_refl) as [_ Hl]. rewrite C in Hl. cbn [fst] in Hl.
      destruct (lifetime_x x); [lia | exact Logic.I].
    - intros Hk. rewrite xc_find_insert. destruct (key_eqb (key_pq lr) k) eqn:E; [|exact N1].
      apply key_eqb_eq in E. rewrite Hk in E. exfalso. exact (key_p_ne_pq _ _ (eq_sym E)).
  Qed.

  (** In every history of operations that do not clear the key — any requests, waits and clears of other pages —
      that follows the computation and storing of a response, the same request is answered without invoking
      the layer below as long as the deadline (the shortest lifetime the handler gives this path) has not passed. *)
  Theorem computed_once_history c hs hs1 lg1 ops :
    sanitize_ok r0 = true -> get_or_head (rq_method r) = true ->
    (ims_on = false \/ header (B "if-modified-since") r = None) ->
    snd (fst (xlookup lr c now0)) = None ->
    compute hs r ov true = (x, hs1, lg1) -> may_store_x true sfilter (rq_method r) x = true ->
    Forall benign ops ->
    let st1 := fst (fst (serveR (c, hs) now0 r0)) in
    let st2 := fst (runR_state st1 now0 ops) in
    let tm2 := snd (runR_state st1 now0 ops) in
    tm2 <= D ->
    snd (serveR st2 tm2 r0) = [] /\ snd (fst (fst (serveR st2 tm2 r0))) = snd st2 /\
    rx_from_cache (snd (fst (serveR st2 tm2 r0))) = true /\
    exists v, v_tuple v = t /\ snd (fst (serveR st2 tm2 r0)) = finishR r ov (v_resp v) ims_on true false.
  Proof.
    intros Hok GH Hims Hnone C A Hb st1 st2 tm2 HD.
    pose proof (once_init c hs hs1 lg1 Hok Hnone C A) as I1. fold st1 in I1.
    assert (I2 : OnceInv (fst st2) tm2).
    { apply once_run; try assumption. lia. }
    destruct st2 as [c2 hs2]. cbn [fst snd] in *. apply once_hit; assumption.
  Qed.
End Once.

(** ================= C03: the caching server simulates the cache-less server ================= *)
Section TransparencyX.
  Variable hstate : Type.
  Variable compute : hstate -> request -> option (bytes * option bytes) -> bool -> fatx * hstate * list bytes.
  Variable ims_on : bool.
  Variable fix_clear : bool.
  Variable sfilter : N -> bool.
  Variable parse_ims : bytes -> option Z.
  Variable sanitize_ok : request -> bool.
  Variable prime : request -> request.
  Variable override : request -> option (bytes * option bytes).
  Variable negotiate : request -> fatx -> option (N * bytes).
  Variable vary_tuple : request -> option (bytes * option bytes) -> tuple.
  Variable vary_header : request -> option (bytes * option bytes) -> fatx -> list (bytes * bytes).
  Variable clear_alias : request -> option request.

  (** the handler contract of the property: the response is a function [cf] of the request (not of handler state)
      that depends only on the method class, the path of the URI that selects the handler (the internal route if
      a Prime overrode the URI), the vary tuple and — for QueryMatters — the query; error responses (sanitize
      failed) are not cacheable *)
  Variable cf : request -> option (bytes * option bytes) -> bool -> fatx.
  Hypothesis Hpure : forall hs r ov ok, fst (fst (compute hs r ov ok)) = cf r ov ok.
  Hypothesis contract : forall r ov r' ov',
    get_or_head (rq_method r) = true -> get_or_head (rq_method r') = true ->
    vary_tuple r ov = vary_tuple r' ov' -> rq_path (lookup_req r ov) = rq_path (lookup_req r' ov') ->
    (qmx (cf r ov true) = true -> path_query (lookup_req r ov) = path_query (lookup_req r' ov')) ->
    cf r ov true = cf r' ov' true.
  Hypothesis Herr : forall r ov, f_spref (fx_fat (cf r ov false)) = SP_NONE.

  Notation finishT := (finishX true negotiate vary_header).
  Notation serveC := (serveX hstate compute true ims_on true true true true true sfilter parse_ims sanitize_ok prime override
                             negotiate vary_tuple vary_header).
  Notation serveU := (serveX hstate compute false ims_on true true true true true sfilter parse_ims sanitize_ok prime override
                             negotiate vary_tuple vary_header).
  Notation stepC := (stepX hstate compute true ims_on true true fix_clear true true true sfilter parse_ims sanitize_ok prime
                           override negotiate vary_tuple vary_header clear_alias).
  Notation stepU := (stepX hstate compute false ims_on true true fix_clear true true true sfilter parse_ims sanitize_ok prime
                           override negotiate vary_tuple vary_header clear_alias).
  Notation runC := (runX hstate compute true ims_on true true fix_clear true true true sfilter parse_ims sanitize_ok prime
                         override negotiate vary_tuple vary_header clear_alias).
  Notation runU := (runX hstate compute false ims_on true true fix_clear true true true sfilter parse_ims sanitize_ok prime
                         override negotiate vary_tuple vary_header clear_alias).
  Notation runC_state := (runX_state hstate compute true ims_on true true fix_clear true true true sfilter parse_ims sanitize_ok prime
                                     override negotiate vary_tuple vary_header clear_alias).

  Definition key_okx (k : key) (lr : request) (x : fatx) : Prop :=
    match k with
    | KPath p => rq_path lr = p /\ qmx x = false
    | KPathQuery s i => path_query lr = (s, i)
    end.
  Definition var_okx (k : key) (v : variant) : Prop :=
    exists r ov, get_or_head (rq_method r) = true /\ vary_tuple r ov = v_tuple v /\ v_resp v = cf r ov true /\
                 key_okx k (lookup_req r ov) (v_resp v).
  Definition entry_okx (k : key) (e : entryx) : Prop :=
    ex_vars e <> [] /\ forall v, In v (ex_vars e) -> var_okx k v.
  Definition TInv (c : cachex) : Prop := forall k e, xc_find k c = Some e -> entry_okx k e.

  Lemma TInv_nil : TInv [].
  Proof. intros k e H. discriminate. Qed.
  Lemma TInv_remove k c : TInv c -> TInv (xc_remove k c).
  Proof. intros H k0 e0. rewrite xc_find_remove. destruct (key_eqb k0 k); [discriminate|]. apply H. Qed.
  Lemma TInv_insert k e c : TInv c -> entry_okx k e -> TInv (xc_insert k e c).
  Proof.
    intros H He k0 e0. rewrite xc_find_insert. destruct (key_eqb k0 k) eqn:E.
    - intros H0; inversion H0; subst. apply key_eqb_eq in E. subst. exact He.
    - apply H.
  Qed.
  Lemma TInv_lookup lr c now k res c' : xlookup lr c now = ((k, res), c') -> TInv c -> TInv c'.
  Proof.
    intros L I k0 e0 F. destruct (xlookup_cases _ _ _ _ _ _ L) as (_ & Hc & _).
    destruct (Hc k0) as [E | [E _]]; rewrite E in F; [eapply I; exact F | discriminate].
  Qed.

  Lemma key_ok_insert lr x : key_okx (insert_key lr (fx_fat x)) lr x.
  Proof.
    unfold insert_key, key_okx. fold (qmx x). destruct (qmx x) eqn:Q.
    - unfold key_pq. destruct (path_query lr). reflexivity.
    - unfold key_p. split; reflexivity.
  Qed.

  (** what a hit returns is what the layer below would compute for this request *)
  Lemma hit_is_cf c now r ov k e c1 v :
    TInv c -> xlookup (lookup_req r ov) c now = ((k, Some e), c1) -> get_or_head (rq_method r) = true ->
    xv_find (vary_tuple r ov) (ex_vars e) = Some v -> v_resp v = cf r ov true.
  Proof.
    intros I L GH V. destruct (xlookup_cases _ _ _ _ _ _ L) as (Hk & _ & F & _ & _).
    destruct (I _ _ F) as [_ Hvars]. destruct (xv_find_in _ _ _ V) as [Hin Ht].
    destruct (Hvars v Hin) as (r1 & ov1 & GH1 & T1 & F1 & K1). rewrite F1. rewrite F1 in K1.
    apply contract; try assumption; [congruence | |].
    - destruct Hk as [-> | ->]; unfold key_okx, key_pq, key_p in K1.
      + destruct (path_query (lookup_req r ov)) as [s i] eqn:PQ. apply path_query_path. congruence.
      + destruct K1 as [K1 _]. exact K1.
    - intros Q. destruct Hk as [-> | ->]; unfold key_okx, key_pq, key_p in K1.
      + destruct (path_query (lookup_req r ov)) as [s i] eqn:PQ. congruence.
      + destruct K1 as [_ K1]. congruence.
  Qed.

  Definition replyx_equiv (a c : replyx) : Prop :=
    rx_status a = rx_status c /\ rx_headers a = rx_headers c /\ rx_pad a = rx_pad c /\ rx_body a = rx_body c /\
    rx_ipad a = rx_ipad c /\ rx_identity a = rx_identity c /\ rx_stream a = rx_stream c.

  Lemma finish_equiv_x r ov x lm1 c1 m1 lm2 c2 m2 : replyx_equiv (finishT r ov x lm1 c1 m1) (finishT r ov x lm2 c2 m2).
  Proof.
    unfold finishX. rewrite !orb_true_r.
    destruct (if is_stream x then None else negotiate r x) as [[st body]|]; repeat split.
  Qed.

  Definition no_imsx (r0 : request) : Prop :=
    ims_on = false \/ header (B "if-modified-since") (prime r0) = None.

  Lemma compute_cf hs r ov ok x hs' lg : compute hs r ov ok = (x, hs', lg) -> x = cf r ov ok.
  Proof. intros H. rewrite <- (Hpure hs r ov ok), H. reflexivity. Qed.

  Lemma cc_tinv c1 now r ov ok k found c2 :
    TInv c1 -> (ok = true \/ ok = false) ->
    (forall e, found = Some e -> xc_find k c1 = Some e /\ (k = key_pq (lookup_req r ov) \/ k = key_p (lookup_req r ov))) ->
    cache_change true sfilter vary_tuple c1 now r ov ok k found (cf r ov ok) c2 -> TInv c2.
  Proof.
    intros I Hok Hf CC. destruct CC as [ | A G | e Ef G V A Q ].
    - exact I.
    - assert (Hok' : ok = true).
      { destruct ok; [reflexivity|]. apply may_store_x_iff in A. rewrite Herr in A. tauto. }
      subst ok. assert (GH : get_or_head (rq_method r) = true) by (apply may_store_x_iff in A; tauto).
      apply TInv_insert; [exact I|]. split; [cbn; discriminate|]. cbn [ex_vars]. intros v [<- | []].
      exists r, ov. cbn [v_tuple v_resp]. repeat split; try assumption; try reflexivity. apply key_ok_insert.
    - apply andb_true_iff in G as [Gok GH]. subst ok. destruct (Hf e Ef) as [F Hk].
      destruct (I _ _ F) as [Hne Hvars].
      apply TInv_insert; [exact I|]. split; [cbn; discriminate|]. cbn [ex_vars]. intros v [<- | Hin]; [|apply Hvars; exact Hin].
      exists r, ov. cbn [v_tuple v_resp]. repeat split; try assumption; try reflexivity.
      destruct Hk as [-> | ->]; unfold key_okx, key_pq, key_p.
      + destruct (path_query (lookup_req r ov)). reflexivity.
      + split; [reflexivity|]. unfold qm_key_ok, key_p in Q. rewrite orb_false_r in Q. apply negb_true_iff in Q. exact Q.
  Qed.

  Lemma serve_simx c hs now r0 st' rp lg cU hsU :
    serveC (c, hs) now r0 = (st', rp, lg) -> TInv c -> no_imsx r0 ->
    TInv (fst st') /\ replyx_equiv rp (snd (fst (serveU (cU, hsU) now r0))).
  Proof.
    intros H I Hims.
    set (r := prime r0) in *. set (ov := override r0) in *. set (ok := sanitize_ok r0) in *.
    assert (HU : snd (fst (serveU (cU, hsU) now r0)) = finishT r ov (cf r ov ok) false false true).
    { unfold serveX. cbn [negb]. fold r ov ok. destruct (compute hsU r ov ok) as [[x h] l] eqn:C.
      cbn [fst snd]. apply compute_cf in C. subst. reflexivity. }
    rewrite HU. clear HU. split.
    - (* the invariant *)
      destruct (serve_cache_update _ _ _ _ _ _ _ _ _ _ _ _ _ _ _ _ _ _ _ _ H) as (k & found & c1 & L & CC).
      fold r ov ok in L, CC. rewrite Hpure in CC.
      pose proof (TInv_lookup _ _ _ _ _ _ L I) as I1.
      apply (cc_tinv c1 now r ov ok k found (fst st') I1); [destruct ok; auto | | exact CC].
      intros e Ef. destruct (xlookup_cases _ _ _ _ _ _ L) as (Hk & _ & Hres). rewrite Ef in Hres.
      split; [apply Hres | exact Hk].
    - (* the reply *)
      unfold serveX in H. cbn [negb] in H. fold r ov ok in H.
      destruct (xlookup (lookup_req r ov) c now) as [[k found] c1] eqn:L.
      assert (Hmiss : forall st2 rp2 lg2,
                 missX hstate compute true ims_on true true sfilter negotiate vary_tuple vary_header c1 hs now r ov ok = (st2, rp2, lg2) ->
                 replyx_equiv rp2 (finishT r ov (cf r ov ok) false false true)).
      { intros st2 rp2 lg2 M. unfold missX in M. destruct (compute hs r ov ok) as [[x hs'] lg'] eqn:C.
        apply compute_cf in C. subst x.
        destruct (may_store_x true sfilter (rq_method r) (cf r ov ok)); inversion M; subst; apply finish_equiv_x. }
      destruct found as [e|]; [|eapply Hmiss; exact H].
      destruct (ok && get_or_head (rq_method r)) eqn:G; [|eapply Hmiss; exact H].
      apply andb_true_iff in G as [Gok GH]. rewrite Gok in *.
      assert (Hno : (match (if ims_on then match header (B "if-modified-since") r with
                                             | Some v => parse_ims v | None => None end else None) with
                     | Some t => ims_fresh t (ex_created e) | None => false end) = false).
      { destruct Hims as [-> | Hh]; [reflexivity|]. fold r in Hh. rewrite Hh. destruct ims_on; reflexivity. }
      rewrite Hno in H. cbn [andb] in H. clear Hno.
      destruct (xv_find (vary_tuple r ov) (ex_vars e)) as [v|] eqn:V.
      + inversion H; subst. rewrite (hit_is_cf _ _ _ _ _ _ _ _ I L GH V). apply finish_equiv_x.
      + unfold vary_missingX in H. destruct (compute hs r ov true) as [[x hs'] lg'] eqn:C. apply compute_cf in C. subst x.
        destruct (may_store_x true sfilter (rq_method r) (cf r ov true) && _); inversion H; subst; apply finish_equiv_x.
  Qed.

  Definition obsx_equiv (a c : obsx) : Prop :=
    match a, c with
    | XbReply ra _, XbReply rc _ => replyx_equiv ra rc
    | XbCleared _ _, XbCleared _ _ => True
    | XbNone, XbNone => True
    | _, _ => False
    end.
  Definition op_no_imsx (o : opx) : Prop := match o with XReq r => no_imsx r | _ => True end.

  Lemma step_simx c hs cU hsU now o :
    TInv c -> op_no_imsx o ->
    let '(stC, nowC, obC) := stepC (c, hs) now o in
    let '(stU, nowU, obU) := stepU (cU, hsU) now o in
    TInv (fst stC) /\ nowC = nowU /\ obsx_equiv obC obU.
  Proof.
    intros I Hno. destruct o as [r | r | | ms]; cbn [stepX].
    - destruct (serveC (c, hs) now r) as [[stC rp] lg] eqn:SC.
      destruct (serveU (cU, hsU) now r) as [[stU rpU] lgU] eqn:SU.
      destruct (serve_simx _ _ _ _ _ _ _ cU hsU SC I Hno) as [I' E]. rewrite SU in E. cbn [fst snd] in E.
      split; [exact I' | split; [reflexivity | exact E]].
    - cbn [fst]. split; [| split; [reflexivity | exact Logic.I]]. unfold xclear_page, xclear_uri.
      destruct (if fix_clear then clear_alias r else None); repeat apply TInv_remove; exact I.
    - cbn [fst]. split; [| split; [reflexivity | exact Logic.I]]. apply TInv_nil.
    - cbn [fst]. split; [| split; [reflexivity | exact Logic.I]]. exact I.
  Qed.

  Lemma run_simx ops : forall c hs cU hsU now,
    TInv c -> Forall op_no_imsx ops ->
    Forall2 obsx_equiv (runC (c, hs) now ops) (runU (cU, hsU) now ops).
  Proof.
    induction ops as [|o ops IH]; intros c hs cU hsU now I Hno; cbn [runX]; [constructor|].
    inversion Hno as [|? ? Ho Hrest]; subst.
    pose proof (step_simx c hs cU hsU now o I Ho) as S.
    destruct (stepC (c, hs) now o) as [[[c' hs'] nowC] obC].
    destruct (stepU (cU, hsU) now o) as [[[cU' hsU'] nowU] obU].
    destruct S as (I' & En & Eo). subst nowU. constructor; [exact Eo|]. apply IH; assumption.
  Qed.

  Lemma run_tinv ops : forall st now, TInv (fst st) -> Forall op_no_imsx ops -> TInv (fst (fst (runC_state st now ops))).
  Proof.
    induction ops as [|o ops IH]; intros [c hs] now I Hno; cbn [runX_state]; [exact I|].
    inversion Hno as [|? ? Ho Hrest]; subst.
    pose proof (step_simx c hs c hs now o I Ho) as S.
    destruct (stepC (c, hs) now o) as [[stC nowC] obC]. destruct (stepU (c, hs) now o) as [[stU nowU] obU].
    destruct S as (I' & _ & _). apply IH; assumption.
  Qed.

  (** an entry stored for one path / query / method class / variant is never served for another *)
  Lemma hit_same_class_x c now lr k e c1 v :
    TInv c -> xlookup lr c now = ((k, Some e), c1) -> xv_find (v_tuple v) (ex_vars e) = Some v ->
    exists r1 ov1, get_or_head (rq_method r1) = true /\ vary_tuple r1 ov1 = v_tuple v /\ v_resp v = cf r1 ov1 true /\
                   rq_path (lookup_req r1 ov1) = rq_path lr /\
                   (qmx (v_resp v) = true -> path_query (lookup_req r1 ov1) = path_query lr).
  Proof.
    intros I L V. destruct (xlookup_cases _ _ _ _ _ _ L) as (Hk & _ & F & _ & _).
    destruct (I _ _ F) as [_ Hvars]. destruct (xv_find_in _ _ _ V) as [Hin _].
    destruct (Hvars v Hin) as (r1 & ov1 & GH1 & T1 & F1 & K1). exists r1, ov1. repeat split; try assumption.
    - destruct Hk as [-> | ->]; unfold key_okx, key_pq, key_p in K1.
      + destruct (path_query lr) as [s i] eqn:PQ. apply path_query_path. congruence.
      + destruct K1 as [K1 _]. exact K1.
    - intros Q. destruct Hk as [-> | ->]; unfold key_okx, key_pq, key_p in K1.
      + destruct (path_query lr) as [s i] eqn:PQ. congruence.
      + destruct K1 as [_ K1]. congruence.
  Qed.

  (** C04, first clause, over histories: a response that is not admissible — handler declared no caching, method,
      status filter, stream, size, kvarn-cache-control: none — is recomputed by every request, whatever the cache
      holds (any state reachable by a history: [TInv] and [AdmInv] are invariants of [runX]) *)
  Lemma uncacheable_recomputed c hs now r0 :
    TInv c -> AdmInv sfilter c ->
    may_store_x true sfilter (rq_method (prime r0)) (cf (prime r0) (override r0) (sanitize_ok r0)) = false ->
    snd (serveC (c, hs) now r0) = snd (compute hs (prime r0) (override r0) (sanitize_ok r0)) /\
    snd (fst (fst (serveC (c, hs) now r0))) = snd (fst (compute hs (prime r0) (override r0) (sanitize_ok r0))).
  Proof.
    intros I A Hnot.
    set (r := prime r0) in *. set (ov := override r0) in *. set (ok := sanitize_ok r0) in *.
    unfold serveX. cbn [negb orb]. fold r ov ok.
    destruct (xlookup (lookup_req r ov) c now) as [[k found] c1] eqn:L.
    destruct found as [e|]; [|apply miss_computes_x].
    destruct (ok && get_or_head (rq_method r)) eqn:G; [|apply miss_computes_x].
    apply andb_true_iff in G as [Gok GH]. rewrite Gok in *.
    destruct (xv_find (vary_tuple r ov) (ex_vars e)) as [v|] eqn:V.
    - exfalso. pose proof (hit_is_cf _ _ _ _ _ _ _ _ I L GH V) as Ev.
      destruct (xlookup_cases _ _ _ _ _ _ L) as (_ & _ & F & _ & _). destruct (xv_find_in _ _ _ V) as [Hin _].
      pose proof (A _ _ _ F Hin) as Ad. rewrite Ev in Ad.
      rewrite (may_store_x_method true sfilter (rq_method r) M_GET) in Hnot by (rewrite GH; reflexivity). congruence.
    - rewrite andb_false_r. unfold vary_missingX. destruct (compute hs r ov true) as [[x hs'] lg'].
      destruct (may_store_x true sfilter (rq_method r) x && _); split; reflexivity.
  Qed.

  Lemma uncacheable_recomputed_history ops c hs now r0 :
    TInv c -> AdmInv sfilter c -> Forall op_no_imsx ops ->
    may_store_x true sfilter (rq_method (prime r0)) (cf (prime r0) (override r0) (sanitize_ok r0)) = false ->
    let st := runC_state (c, hs) now ops in
    snd (serveC (fst st) (snd st) r0) = snd (compute (snd (fst st)) (prime r0) (override r0) (sanitize_ok r0)) /\
    snd (fst (fst (serveC (fst st) (snd st) r0))) = snd (fst (compute (snd (fst st)) (prime r0) (override r0) (sanitize_ok r0))).
  Proof.
    intros I A Hno Hnot st.
    pose proof (run_tinv ops (c, hs) now I Hno) as I2.
    pose proof (run_adm hstate compute ims_on true fix_clear true sfilter parse_ims sanitize_ok prime override
                        negotiate vary_tuple vary_header clear_alias ops (c, hs) now A) as A2.
    fold st in I2, A2. destruct st as [[c2 hs2] t2]. cbn [fst snd] in *.
    apply uncacheable_recomputed; assumption.
  Qed.
End TransparencyX.

(** ================= statements over whole histories, from any admissible start state ================= *)
Section Histories.
  Variable hstate : Type.
  Variable compute : hstate -> request -> option (bytes * option bytes) -> bool -> fatx * hstate * list bytes.
  Variable ims_on : bool.
  Variable fix_ovkey fix_clear fix_svary : bool.
  Variable sfilter : N -> bool.
  Variable parse_ims : bytes -> option Z.
  Variable sanitize_ok : request -> bool.
  Variable prime : request -> request.
  Variable override : request -> option (bytes * option bytes).
  Variable negotiate : request -> fatx -> option (N * bytes).
  Variable vary_tuple : request -> option (bytes * option bytes) -> tuple.
  Variable vary_header : request -> option (bytes * option bytes) -> fatx -> list (bytes * bytes).
  Variable clear_alias : request -> option request.
  Notation missR := (missX hstate compute true ims_on fix_ovkey fix_svary sfilter negotiate vary_tuple vary_header).
  Notation runR_state := (runX_state hstate compute true ims_on true fix_ovkey fix_clear fix_svary true true sfilter parse_ims sanitize_ok
                                     prime override negotiate vary_tuple vary_header clear_alias).

  (** the miss arm stores exactly when admission says so, and nothing else changes in the cache *)
  Lemma miss_store_x c1 hs now r ov ok :
    let x := fst (fst (compute hs r ov ok)) in
    fst (fst (fst (missR c1 hs now r ov ok))) =
      if may_store_x true sfilter (rq_method r) x
      then xc_insert (insert_key (if fix_ovkey then lookup_req r ov else r) (fx_fat x))
                     {| ex_vars := [mkVar (vary_tuple r ov) x now]; ex_created := now; ex_life := lifetime_x x |} c1
      else c1.
  Proof.
    unfold missX. destruct (compute hs r ov ok) as [[x hs'] lg]. cbn [fst].
    destruct (may_store_x true sfilter (rq_method r) x); reflexivity.
  Qed.

  (** whatever a lookup finds at time [now] is within the entry's lifetime *)
  Lemma never_stale_x lr c now k e c' :
    xlookup lr c now = ((k, Some e), c') ->
    match ex_life e with Some l => now - ex_created e <= l | None => True end.
  Proof. intros L. destruct (xlookup_cases _ _ _ _ _ _ L) as (_ & _ & _ & _ & Fr). apply xfresh_spec. exact Fr. Qed.

  (** every variant in the cache after any history was admitted when it was stored *)
  Lemma stored_admitted_history ops c hs now :
    AdmInv sfilter c ->
    forall k e v, xc_find k (fst (fst (runR_state (c, hs) now ops))) = Some e -> In v (ex_vars e) ->
      is_stream (v_resp v) = false /\ f_spref (fx_fat (v_resp v)) <> SP_NONE /\ sfilter (f_status (fx_fat (v_resp v))) = false /\
      fx_len (v_resp v) < size_limit /\ kvarn_none (fx_fat (v_resp v)) = false.
  Proof.
    intros I k e v F Hin.
    pose proof (run_adm hstate compute ims_on fix_ovkey fix_clear fix_svary sfilter parse_ims sanitize_ok prime override
                        negotiate vary_tuple vary_header clear_alias ops (c, hs) now I k e v F Hin) as A.
    apply may_store_x_iff in A. tauto.
  Qed.

  (** after any history, what a lookup finds and serves was stored at most its own lifetime ago *)
  Lemma served_within_own_lifetime_history ops c hs now lr k e c1 tu v L :
    LifeInv c now ->
    let st := runR_state (c, hs) now ops in
    xlookup lr (fst (fst st)) (snd st) = ((k, Some e), c1) -> xv_find tu (ex_vars e) = Some v ->
    lifetime_x (v_resp v) = Some L -> v_stored v <= snd st /\ snd st - v_stored v <= L.
  Proof.
    intros I st Lk V HL.
    destruct (run_life hstate compute ims_on fix_ovkey fix_clear fix_svary sfilter parse_ims sanitize_ok prime override
                       negotiate vary_tuple vary_header clear_alias ops (c, hs) now I) as [I2 _].
    eapply hit_within_own_lifetime; eassumption.
  Qed.
End Histories.
