(** C01 — proofs about the runnable pipeline model (Model/PathSanPipe.v): the statements of
    Proofs/PathSanServeProofs.v about one [serve_st] step are lifted to ALL histories of requests and
    cache-alias steps, with the response cache and the file cache threaded through. *)
From Coq Require Import ZifyBool ZifyNat ZifyN.
From KV Require Import Bytes PathSan PathSanProofs PathSanServe PathSanServeProofs PathSanPipe.
Open Scope N_scope.

(** the content [c] is the content of a regular file reached from the public directory [P] by
    descending through child names only *)
Definition inside (P : pos) (c : bytes) : Prop :=
  exists names : list bytes,
    names <> [] /\ Forall (fun s => proper_name s = true) names /\ descend (fst P) names = Some (File c).

(** the content of one of the operator's error pages: of the file whose path is [error_path] of the
    host and of some status code — no part of a request enters that path *)
Definition error_page_of (c : pcfg) (b : bytes) : Prop :=
  exists status : N, pc_fs c (error_path (pc_host c) status) = Some b.

(** a body the fixture host may send: generated (error page, CORS refusal, empty), the body of one
    of the operator's path-bound handlers, the content of a file inside the public directory, or
    the content of one of the operator's error pages *)
Definition body_ok (c : pcfg) (P : pos) (b : bytes) : Prop :=
  b = errpage \/ b = cors_denied \/ b = [] \/ (exists k s, In (k, (b, s)) (pc_handlers c)) \/ inside P b \/
  error_page_of c b.

Definition answer_ok (c : pcfg) (P : pos) (x : xval) : Prop :=
  match x with
  | XL [XN _; XB b; _; _] => body_ok c P b
  | _ => True
  end.

Definition cache_ok (c : pcfg) (P : pos) (cache : cache_t) : Prop :=
  Forall (fun kv => body_ok c P (c_body (snd kv))) cache.

Definition state_ok (c : pcfg) (P : pos) (st : pstate) : Prop :=
  cache_ok c P (fst st) /\ fc_coherent (pc_fs c) (snd st).

Lemma serve_cached_cases h fs m ov cr p :
  fst (serve h fs m ov (Some cr) p) =
    {| r_status := r_status cr; r_body := r_body cr; r_err := r_err cr; r_from_cache := true |} \/
  serve h fs m ov (Some cr) p = serve h fs m ov None p.
Proof.
  rewrite !serve_unfold. cbn zeta. destruct (sanitize_path p) as [u| |]; destruct m; cbn [fst]; auto.
Qed.

Lemma serve_body_inside h root cwd P m ov cached p r ev c :
  benign_host h -> wf_pos root -> wf_pos cwd ->
  resolve_path root cwd (h_path h ++ [c_slash] ++ h_public h) = Some P ->
  (forall cr, cached = Some cr -> r_body cr = None) ->
  serve h (read_path root cwd) m ov cached p = (r, ev) ->
  r_body r = Some c -> inside P c.
Proof.
  intros Bh Wr Wc RP Hc S Hb.
  destruct cached as [cr|].
  - destruct (serve_cached_cases h (read_path root cwd) m ov cr p) as [E|E].
    + rewrite S in E. cbn [fst] in E. subst r. cbn [r_body] in Hb. rewrite (Hc cr eq_refl) in Hb. discriminate.
    + rewrite E in S. exact (served_file_inside_lemma h root cwd P m ov p r ev c Bh Wr Wc RP S Hb).
  - exact (served_file_inside_lemma h root cwd P m ov p r ev c Bh Wr Wc RP S Hb).
Qed.

Lemma serve_err_content h fs m ov cached p r ev c :
  (forall cr, cached = Some cr -> r_err cr = None) ->
  serve h fs m ov cached p = (r, ev) -> r_err r = Some c -> fs (error_path h (r_status r)) = Some c.
Proof.
  intros Hc S Hb.
  destruct cached as [cr|].
  - destruct (serve_cached_cases h fs m ov cr p) as [E|E].
    + rewrite S in E. cbn [fst] in E. subst r. cbn [r_err] in Hb. rewrite (Hc cr eq_refl) in Hb. discriminate.
    + rewrite E in S. exact (err_content_lemma h fs m ov p r ev c S Hb).
  - exact (err_content_lemma h fs m ov p r ev c S Hb).
Qed.

Lemma handler_last_in k l : forall i acc j v,
  handler_last k i l acc = Some (j, v) -> acc = Some (j, v) \/ exists k', In (k', v) l.
Proof.
  induction l as [|[k' v'] l IH]; intros i acc j v H; cbn [handler_last] in H.
  - left. exact H.
  - apply IH in H. destruct H as [H|[k'' H]].
    + destruct (beq k' k).
      * inversion H; subst. right. exists k'. left. reflexivity.
      * left. exact H.
    + right. exists k''. right. exact H.
Qed.

Lemma prepare_response_ok c P k okind : body_ok c P (c_body (prepare_response c k okind)).
Proof.
  unfold prepare_response.
  destruct (handler_last k 0 (pc_handlers c) None) as [[j [body spref]]|] eqn:H.
  - apply handler_last_in in H. destruct H as [H|[k' H]]; [discriminate|].
    cbn [c_body]. right. right. right. left. exists k', spref. exact H.
  - destruct (beq k cors_options && ((okind =? 0) || (okind =? 1) || (okind =? 4))); cbn [c_body].
    + right. right. left. reflexivity.
    + right. left. reflexivity.
Qed.

Lemma cache_get_ok c P k cache cr : cache_ok c P cache -> cache_get k cache = Some cr -> body_ok c P (c_body cr).
Proof.
  intros Hc. induction Hc as [|[k' v] l Hv Hl IH]; cbn [cache_get]; [discriminate|].
  destruct (ckey_eqb k' k); [intros H; inversion H; subst; exact Hv|exact IH].
Qed.

Lemma cache_lookup_ok c P on kpq kp cache cr :
  cache_ok c P cache -> cache_lookup on kpq kp cache = Some cr -> body_ok c P (c_body cr).
Proof.
  intros Hc. unfold cache_lookup. destruct on; [|discriminate].
  destruct (cache_get kpq cache) as [e|] eqn:E.
  - intros H. inversion H; subst. exact (cache_get_ok c P _ _ _ Hc E).
  - apply cache_get_ok. exact Hc.
Qed.

Section History.
  Variable c : pcfg.
  Variables root cwd P : pos.
  Hypothesis Bh : benign_host (pc_host c).
  Hypothesis Wr : wf_pos root.
  Hypothesis Wc : wf_pos cwd.
  Hypothesis Fs : pc_fs c = read_path root cwd.
  Hypothesis RP : resolve_path root cwd (h_path (pc_host c) ++ [c_slash] ++ h_public (pc_host c)) = Some P.

  Variable f : front.

  Lemma step_request_ok st m t k :
    state_ok c P st ->
    answer_ok c P (fst (step_request_with f (fmt_std c) c st m t k)) /\
    state_ok c P (snd (step_request_with f (fmt_std c) c st m t k)).
  Proof.
    intros [Hc Hf]. unfold step_request_with.
    destruct (f_uri f t) as [[p q]|]; [|split; [exact I|split; assumption]].
    cbn zeta.
    set (k' := f_kind f t k).
    set (ov := override_of (pc_default_ext c) m k').
    destruct (keys_of ov (primed_path (pc_host c) p) q) as [kpq kp].
    destruct (cache_lookup (pc_cache c) kpq kp (fst st)) as [cr0|] eqn:Hit.
    - pose proof (cache_lookup_ok c P _ _ _ _ _ Hc Hit) as Hcr0.
      pose proof (fcache_transparent_lemma (pc_host c) (pc_fs c) (pc_fcache c) (snd st) (meth_of m) ov
                    (option_map abstract (Some cr0)) p Hf) as T.
      destruct (serve_st (pc_host c) (pc_fs c) (pc_fcache c) (snd st) (meth_of m) ov (option_map abstract (Some cr0)) p)
        as [[[r ev] fc'] os].
      destruct T as (T1 & T2 & _). symmetry in T1.
      destruct (r_status r =? 0); [split; [exact I|split; assumption]|].
      destruct (r_from_cache r).
      + split; [exact Hcr0|split; [exact Hc|exact T2]].
      + assert (Hb : body_ok c P (c_body
                   match find_run ev with
                   | Some k0 => prepare_response c k0 k'
                   | None => {| c_status := r_status r;
                                c_body := match r_body r, r_err r with
                                          | Some content, _ => content
                                          | None, Some page => page
                                          | None, None => errpage
                                          end;
                                c_store := negb (r_status r =? E_UNSAFE); c_qm := false |}
                   end)).
        { destruct (find_run ev); [apply prepare_response_ok|]. cbn [c_body].
          destruct (r_body r) as [content|] eqn:Hbody.
          - right. right. right. right. left. rewrite Fs in T1.
            refine (serve_body_inside (pc_host c) root cwd P (meth_of m) ov _ p r ev content Bh Wr Wc RP _ T1 Hbody).
            intros cr E. cbn [option_map] in E. inversion E. reflexivity.
          - destruct (r_err r) as [page|] eqn:Herr; [|left; reflexivity].
            right. right. right. right. right. exists (r_status r).
            refine (serve_err_content (pc_host c) (pc_fs c) (meth_of m) ov _ p r ev page _ T1 Herr).
            intros cr E. cbn [option_map] in E. inversion E. reflexivity. }
        split; [exact Hb|].
        match goal with |- state_ok _ _ (snd (_, (if ?s then _ else _, _))) => destruct s end; cbn [snd];
          (split; [|exact T2]); cbn [fst]; [constructor; [exact Hb|exact Hc]|exact Hc].
    - pose proof (fcache_transparent_lemma (pc_host c) (pc_fs c) (pc_fcache c) (snd st) (meth_of m) ov
                    (option_map abstract None) p Hf) as T.
      destruct (serve_st (pc_host c) (pc_fs c) (pc_fcache c) (snd st) (meth_of m) ov (option_map abstract None) p)
        as [[[r ev] fc'] os].
      destruct T as (T1 & T2 & _). symmetry in T1.
      destruct (r_status r =? 0); [split; [exact I|split; assumption]|].
      assert (Hb : body_ok c P (c_body
                   match find_run ev with
                   | Some k0 => prepare_response c k0 k'
                   | None => {| c_status := r_status r;
                                c_body := match r_body r, r_err r with
                                          | Some content, _ => content
                                          | None, Some page => page
                                          | None, None => errpage
                                          end;
                                c_store := negb (r_status r =? E_UNSAFE); c_qm := false |}
                   end)).
      { destruct (find_run ev); [apply prepare_response_ok|]. cbn [c_body].
        destruct (r_body r) as [content|] eqn:Hbody.
        - right. right. right. right. left. rewrite Fs in T1.
          refine (serve_body_inside (pc_host c) root cwd P (meth_of m) ov _ p r ev content Bh Wr Wc RP _ T1 Hbody).
          intros cr E. discriminate.
        - destruct (r_err r) as [page|] eqn:Herr; [|left; reflexivity].
          right. right. right. right. right. exists (r_status r).
          refine (serve_err_content (pc_host c) (pc_fs c) (meth_of m) ov _ p r ev page _ T1 Herr).
          intros cr E. discriminate. }
      destruct (r_from_cache r).
      all: (split; [exact Hb|]);
        match goal with |- state_ok _ _ (snd (_, (if ?s then _ else _, _))) => destruct s end; cbn [snd];
          (split; [|exact T2]); cbn [fst]; [constructor; [exact Hb|exact Hc]|exact Hc].
  Qed.

  Lemma strip_head_body_ok m x : answer_ok c P x -> answer_ok c P (strip_head_body m x).
  Proof.
    unfold strip_head_body. destruct (beq m (B "HEAD")); [|exact (fun H => H)].
    destruct x as [n|b|l]; try exact (fun H => H).
    destruct l as [|x1 l]; [exact (fun H => H)|]. destruct x1 as [n|b|l1]; try exact (fun H => H).
    destruct l as [|x2 l]; [exact (fun H => H)|]. destruct x2 as [n2|b|l2]; try exact (fun H => H).
    destruct l as [|x3 l]; [exact (fun H => H)|]. destruct l as [|x4 l]; [exact (fun H => H)|].
    destruct l; [|exact (fun H => H)]. intros _. right. right. left. reflexivity.
  Qed.

  Lemma step_op_ok st o :
    state_ok c P st ->
    answer_ok c P (fst (step_op_with f (fmt_std c) c st o)) /\ state_ok c P (snd (step_op_with f (fmt_std c) c st o)).
  Proof.
    intros Hs. destruct o as [m t k|from to_]; cbn [step_op_with].
    - destruct (f_sendable f m t); [|split; [exact I|exact Hs]].
      pose proof (step_request_ok st m t k Hs) as [Ha Hs'].
      destruct (step_request_with f (fmt_std c) c st m t k) as [out st']. cbn [fst snd] in *.
      split; [|exact Hs']. destruct (f_headless f); [apply strip_head_body_ok|]; exact Ha.
    - destruct Hs as [Hc Hf].
      destruct (if pc_cache c then cache_get (KPath from) (fst st) else None) as [cr|] eqn:Hit; cbn [fst snd].
      + split; [exact I|]. split; [|exact Hf]. cbn [fst]. constructor; [|exact Hc]. cbn [snd].
        destruct (pc_cache c); [|discriminate]. exact (cache_get_ok c P _ _ _ Hc Hit).
      + split; [exact I|split; assumption].
  Qed.

  Lemma run_history_ok ops : forall st, state_ok c P st -> Forall (answer_ok c P) (run_history_with f (fmt_std c) c st ops).
  Proof.
    induction ops as [|o ops IH]; intros st Hs; cbn [run_history_with]; [constructor|].
    destruct (step_op_ok st o Hs) as [Ha Hs'].
    destruct (step_op_with f (fmt_std c) c st o) as [out st']. cbn [fst snd] in Ha, Hs'.
    constructor; [exact Ha|apply IH; exact Hs'].
  Qed.
End History.

(** Every answer in every history that starts with empty caches carries an admissible body — through every
    front end. *)
Lemma history_bodies_confined_lemma (f : front) (c : pcfg) (root cwd P : pos) (ops : list op) :
  benign_host (pc_host c) -> wf_pos root -> wf_pos cwd -> pc_fs c = read_path root cwd ->
  resolve_path root cwd (h_path (pc_host c) ++ [c_slash] ++ h_public (pc_host c)) = Some P ->
  Forall (answer_ok c P) (run_history_with f (fmt_std c) c empty_state ops).
Proof.
  intros Bh Wr Wc Fs RP. apply (run_history_ok c root cwd P Bh Wr Wc Fs RP).
  split; [constructor|apply fc_coherent_nil].
Qed.

(** ------------------------------------------------------------------ *)
(** * An unsafe path is answered 400 in every state, the response cache is left alone *)
Lemma silent_no_run ev : silent ev -> find_run ev = None.
Proof.
  unfold silent. induction ev as [|e ev IH]; cbn [forallb find_run]; [reflexivity|].
  intros H. apply andb_true_iff in H as [H1 H2]. destruct e; cbn in H1; try discriminate; apply IH; exact H2.
Qed.
Lemma silent_no_log c ev : silent ev -> log_of c ev = [].
Proof.
  unfold silent, log_of. induction ev as [|e ev IH]; cbn [forallb flat_map]; [reflexivity|].
  intros H. apply andb_true_iff in H as [H1 H2]. destruct e; cbn in H1; try discriminate; cbn [app]; apply IH; exact H2.
Qed.

Lemma opens_of_only c os f :
  Forall (fun x => x = f) os -> Forall (fun o => In o (open_name (pc_tree c) f)) (opens_of c os).
Proof.
  intros H. unfold opens_of. induction H as [|x os Hx Hos IH]; cbn [flat_map]; [constructor|].
  subst x. apply Forall_app. split; [apply Forall_forall; auto|exact IH].
Qed.

(** In every state (whatever earlier requests and alias steps left in the response cache, any coherent
    file cache), a request whose percent-decoded path is unsafe is answered 400; the body is the
    generated page or the operator's page for status 400; no Prepare extension is consulted or run
    (empty log); the only object the operating system may be asked to open is the operator's page for
    status 400; the response cache is left as it was and the file cache changes at most under that
    page's path. *)
Lemma unsafe_step_lemma f c st m t k p q :
  f_uri f t = Some (p, q) -> unsafe (percent_decode p) -> fc_coherent (pc_fs c) (snd st) ->
  exists body opens fc',
    step_request_with f (fmt_std c) c st m t k = (XL [XN 400; XB body; XL []; x_list XB opens], (fst st, fc')) /\
    (body = errpage \/ pc_fs c (error_path (pc_host c) 400) = Some body) /\
    Forall (fun o => In o (open_name (pc_tree c) (error_path (pc_host c) 400))) opens /\
    (forall f, f <> error_path (pc_host c) 400 -> fc_get f fc' = fc_get f (snd st)).
Proof.
  intros Hu U Hf. unfold step_request_with. rewrite Hu. cbn zeta.
  destruct (keys_of (override_of (pc_default_ext c) m (f_kind f t k)) (primed_path (pc_host c) p) q) as [kpq kp].
  set (cached := option_map abstract (cache_lookup (pc_cache c) kpq kp (fst st))).
  set (ov := override_of (pc_default_ext c) m (f_kind f t k)).
  pose proof (unsafe_is_400_and_silent_st_lemma (pc_host c) (pc_fs c) (pc_fcache c) (snd st) (meth_of m) ov cached p U) as H.
  pose proof (fcache_transparent_lemma (pc_host c) (pc_fs c) (pc_fcache c) (snd st) (meth_of m) ov cached p Hf) as T.
  assert (E : forall rr evv cc, serve (pc_host c) (pc_fs c) (meth_of m) ov cached p = (rr, evv) ->
                r_err rr = Some cc -> pc_fs c (error_path (pc_host c) (r_status rr)) = Some cc).
  { intros rr evv cc. apply serve_err_content. intros cr X. subst cached.
    destruct (cache_lookup (pc_cache c) kpq kp (fst st)); [|discriminate]. inversion X. reflexivity. }
  destruct (serve_st (pc_host c) (pc_fs c) (pc_fcache c) (snd st) (meth_of m) ov cached p) as [[[r ev] fc'] os].
  destruct H as (H1 & H2 & H3 & H4 & H5 & H6). destruct T as (T1 & _). symmetry in T1.
  rewrite H1, H3, H2, (silent_no_run ev H4), (silent_no_log c ev H4).
  change (400 =? 0) with false. cbn iota.
  exists (match r_err r with Some page => page | None => errpage end), (opens_of c os), fc'.
  split.
  { destruct (cache_lookup (pc_cache c) kpq kp (fst st)); cbn; rewrite ?andb_false_r; reflexivity. }
  split.
  { destruct (r_err r) as [page|] eqn:Er; [|left; reflexivity]. right. rewrite <- H1. exact (E r ev page T1 Er). }
  split; [apply opens_of_only; exact H5|exact H6].
Qed.

(** ------------------------------------------------------------------ *)
(** * Without a Prime override the internal routes do not exist for the request *)
Definition strip_host (h : host_cfg) : host_cfg :=
  {| h_path := h_path h; h_public := h_public h; h_errors := h_errors h; h_fs := h_fs h; h_redirect := h_redirect h;
     h_ext_default := h_ext_default h; h_folder_default := h_folder_default h;
     h_prepare_single := filter (fun k => negb (has_dot_slash_b k)) (h_prepare_single h) |}.
Definition strip_internal (c : pcfg) : pcfg :=
  {| pc_default_ext := pc_default_ext c; pc_cache := pc_cache c; pc_fcache := pc_fcache c; pc_host := strip_host (pc_host c);
     pc_fs := pc_fs c; pc_tree := pc_tree c; pc_host_header := pc_host_header c; pc_handlers := pc_handlers c |}.

Lemma existsb_filter_key key l :
  has_dot_slash_b key = false ->
  existsb (beq key) (filter (fun k => negb (has_dot_slash_b k)) l) = existsb (beq key) l.
Proof.
  intros Hk. induction l as [|a l IH]; cbn [filter existsb]; [reflexivity|].
  destruct (beq key a) eqn:E.
  - apply beq_eq in E. subst a. rewrite Hk. cbn [negb existsb]. rewrite beq_refl. reflexivity.
  - destruct (negb (has_dot_slash_b a)); cbn [existsb]; rewrite ?E; exact IH.
Qed.

Lemma serve_st_strip h rd on fc m cached p :
  benign_host h -> serve_st (strip_host h) rd on fc m None cached p = serve_st h rd on fc m None cached p.
Proof.
  intros Bh. unfold serve_st.
  assert (E : forall st ev os, err_reply (strip_host h) rd on fc st ev os = err_reply h rd on fc st ev os) by reflexivity.
  destruct (sanitize_path p) as [u| |] eqn:S; [|reflexivity|reflexivity].
  apply sanitize_ok_safe in S. apply (primed_safe h p Bh) in S.
  assert (N : has_dot_slash_b (primed_path h p) = false).
  { destruct (has_dot_slash_b (primed_path h p)) eqn:E0; [|reflexivity].
    apply pd_keeps_dot_slash in E0. unfold unsafe_b in S. apply orb_false_iff in S as [S _]. congruence. }
  assert (F : serve_fresh (strip_host h) rd on fc m None p = serve_fresh h rd on fc m None p).
  { unfold serve_fresh. change (primed_path (strip_host h) p) with (primed_path h p).
    cbn [strip_host h_path h_public h_fs h_prepare_single].
    rewrite (existsb_filter_key _ _ N). reflexivity. }
  rewrite F. reflexivity.
Qed.

Lemma no_override_strip_lemma f c st m t k :
  benign_host (pc_host c) -> override_of (pc_default_ext c) m (f_kind f t k) = None ->
  step_request_with f (fmt_std (strip_internal c)) (strip_internal c) st m t k = step_request_with f (fmt_std c) c st m t k.
Proof.
  intros Bh Ho. unfold step_request_with. cbn [strip_internal pc_default_ext pc_cache pc_fcache pc_host pc_fs].
  rewrite Ho.
  destruct (f_uri f t) as [[p q]|]; [|reflexivity].
  cbn zeta. change (primed_path (strip_host (pc_host c)) p) with (primed_path (pc_host c) p).
  destruct (keys_of None (primed_path (pc_host c) p) q) as [kpq kp].
  rewrite (serve_st_strip _ _ _ _ _ _ _ Bh). reflexivity.
Qed.
