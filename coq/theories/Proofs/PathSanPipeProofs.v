(** C01 — proofs about the runnable pipeline model (Model/PathSanPipe.v): the statements of
    Proofs/PathSanProofs.v about one [serve] step are lifted to ALL histories of requests and
    cache-alias steps, with the response cache threaded through. *)
From Coq Require Import ZifyBool ZifyNat ZifyN.
From KV Require Import Bytes PathSan PathSanProofs PathSanPipe.
Open Scope N_scope.

(** the content [c] is the content of a regular file reached from the public directory [P] by
    descending through child names only *)
Definition inside (P : pos) (c : bytes) : Prop :=
  exists names : list bytes,
    names <> [] /\ Forall (fun s => proper_name s = true) names /\ descend (fst P) names = Some (File c).

(** a body the fixture host may send: generated (error page, CORS refusal, empty), the body of one
    of the operator's path-bound handlers, or the content of a file inside the public directory *)
Definition body_ok (c : pcfg) (P : pos) (b : bytes) : Prop :=
  b = errpage \/ b = cors_denied \/ b = [] \/ (exists k s, In (k, (b, s)) (pc_handlers c)) \/ inside P b.

Definition answer_ok (c : pcfg) (P : pos) (x : xval) : Prop :=
  match x with
  | XL [XN _; XB b; _] => body_ok c P b
  | _ => True
  end.

Definition cache_ok (c : pcfg) (P : pos) (cache : cache_t) : Prop :=
  Forall (fun kv => body_ok c P (c_body (snd kv))) cache.

Lemma serve_cached_cases h fs m ov cr p :
  fst (serve h fs m ov (Some cr) p) = {| r_status := r_status cr; r_body := r_body cr; r_from_cache := true |} \/
  serve h fs m ov (Some cr) p = serve h fs m ov None p.
Proof.
  unfold serve. destruct (sanitize_path p) as [u| |]; destruct m; cbn [fst]; auto.
Qed.

Lemma serve_body_inside h root cwd P m ov cached p r ev c :
  benign_host h -> wf_pos root -> wf_pos cwd ->
  resolve_path root cwd (h_path h ++ [c_slash] ++ h_public h) = Some P ->
  (forall cr, cached = Some cr -> r_body cr = None) ->
  serve h (read_path root cwd) m ov cached p = (r, ev) ->
  r_body r = Some c -> inside P c.
Proof.
  intros Bh Wr Wc RP Hc S Hb.
  destruct cached as [cr|].
  - destruct (serve_cached_cases h (read_path root cwd) m ov cr p) as [E|E].
    + rewrite S in E. cbn [fst] in E. subst r. cbn [r_body] in Hb. rewrite (Hc cr eq_refl) in Hb. discriminate.
    + rewrite E in S. exact (served_file_inside_lemma h root cwd P m ov p r ev c Bh Wr Wc RP S Hb).
  - exact (served_file_inside_lemma h root cwd P m ov p r ev c Bh Wr Wc RP S Hb).
Qed.

Lemma handler_last_in k l : forall i acc j v,
  handler_last k i l acc = Some (j, v) -> acc = Some (j, v) \/ exists k', In (k', v) l.
Proof.
  induction l as [|[k' v'] l IH]; intros i acc j v H; cbn [handler_last] in H.
  - left. exact H.
  - apply IH in H. destruct H as [H|[k'' H]].
    + destruct (beq k' k).
      * inversion H; subst. right. exists k'. left. reflexivity.
      * left. exact H.
    + right. exists k''. right. exact H.
Qed.

Lemma prepare_response_ok c P k okind : body_ok c P (c_body (prepare_response c k okind)).
Proof.
  unfold prepare_response.
  destruct (handler_last k 0 (pc_handlers c) None) as [[j [body spref]]|] eqn:H.
  - apply handler_last_in in H. destruct H as [H|[k' H]]; [discriminate|].
    cbn [c_body]. right. right. right. left. exists k', spref. exact H.
  - destruct (beq k cors_options && ((okind =? 0) || (okind =? 1) || (okind =? 4))); cbn [c_body].
    + right. right. left. reflexivity.
    + right. left. reflexivity.
Qed.

Lemma cache_get_ok c P k cache cr : cache_ok c P cache -> cache_get k cache = Some cr -> body_ok c P (c_body cr).
Proof.
  intros Hc. induction Hc as [|[k' v] l Hv Hl IH]; cbn [cache_get]; [discriminate|].
  destruct (beq k' k); [intros H; inversion H; subst; exact Hv|exact IH].
Qed.

Lemma hit_ok c P (b : bool) k cache cr :
  cache_ok c P cache -> (if b then cache_get k cache else None) = Some cr -> body_ok c P (c_body cr).
Proof. intros Hc. destruct b; [apply cache_get_ok; exact Hc|discriminate]. Qed.

Section History.
  Variable c : pcfg.
  Variables root cwd P : pos.
  Hypothesis Bh : benign_host (pc_host c).
  Hypothesis Wr : wf_pos root.
  Hypothesis Wc : wf_pos cwd.
  Hypothesis Fs : pc_fs c = read_path root cwd.
  Hypothesis RP : resolve_path root cwd (h_path (pc_host c) ++ [c_slash] ++ h_public (pc_host c)) = Some P.

  Lemma step_request_ok cache m t k :
    cache_ok c P cache ->
    answer_ok c P (fst (step_request c cache m t k)) /\ cache_ok c P (snd (step_request c cache m t k)).
  Proof.
    intros Hc. unfold step_request.
    destruct (negb (starts_with [c_slash] t)); [split; [exact I|exact Hc]|].
    destruct (uri_path t) as [p|]; [|split; [exact I|exact Hc]].
    cbn zeta.
    set (ov := override_of (pc_default_ext c) m k).
    set (key := match ov with Some k0 => k0 | None => primed_path (pc_host c) p end).
    destruct (if pc_cache c then cache_get key cache else None) as [cr0|] eqn:Hit.
    - pose proof (hit_ok c P (pc_cache c) key cache cr0 Hc Hit) as Hcr0.
      destruct (serve (pc_host c) (pc_fs c) (meth_of m) ov (option_map abstract (Some cr0)) p) as [r ev] eqn:S.
      destruct (r_status r =? 0); [split; [exact I|exact Hc]|].
      destruct (r_from_cache r).
      + split; [exact Hcr0|exact Hc].
      + assert (Hb : body_ok c P (c_body
                   match find_run ev with
                   | Some k0 => prepare_response c k0 k
                   | None => match r_body r with
                             | Some content => {| c_status := r_status r; c_body := content; c_store := true |}
                             | None => {| c_status := r_status r; c_body := errpage; c_store := true |}
                             end
                   end)).
        { destruct (find_run ev); [apply prepare_response_ok|].
          destruct (r_body r) as [content|] eqn:Hbody; cbn [c_body]; [|left; reflexivity].
          right. right. right. right. rewrite Fs in S.
          refine (serve_body_inside (pc_host c) root cwd P (meth_of m) ov _ p r ev content Bh Wr Wc RP _ S Hbody).
          intros cr E. cbn [option_map] in E. inversion E. reflexivity. }
        split; [exact Hb|].
        match goal with |- cache_ok _ _ (snd (_, if ?s then _ else _)) => destruct s end; cbn [snd];
          [constructor; [exact Hb|exact Hc]|exact Hc].
    - destruct (serve (pc_host c) (pc_fs c) (meth_of m) ov (option_map abstract None) p) as [r ev] eqn:S.
      destruct (r_status r =? 0); [split; [exact I|exact Hc]|].
      assert (Hb : body_ok c P (c_body
                   match find_run ev with
                   | Some k0 => prepare_response c k0 k
                   | None => match r_body r with
                             | Some content => {| c_status := r_status r; c_body := content; c_store := true |}
                             | None => {| c_status := r_status r; c_body := errpage; c_store := true |}
                             end
                   end)).
      { destruct (find_run ev); [apply prepare_response_ok|].
        destruct (r_body r) as [content|] eqn:Hbody; cbn [c_body]; [|left; reflexivity].
        right. right. right. right. rewrite Fs in S.
        refine (serve_body_inside (pc_host c) root cwd P (meth_of m) ov _ p r ev content Bh Wr Wc RP _ S Hbody).
        intros cr E. discriminate. }
      destruct (r_from_cache r).
      all: (split; [exact Hb|]);
        match goal with |- cache_ok _ _ (snd (_, if ?s then _ else _)) => destruct s end; cbn [snd];
          [constructor; [exact Hb|exact Hc]|exact Hc].
  Qed.

  Lemma step_op_ok cache o :
    cache_ok c P cache ->
    answer_ok c P (fst (step_op c cache o)) /\ cache_ok c P (snd (step_op c cache o)).
  Proof.
    intros Hc. destruct o as [m t k|from to_]; cbn [step_op].
    - apply step_request_ok. exact Hc.
    - destruct (if pc_cache c then cache_get from cache else None) as [cr|] eqn:Hit; cbn [fst snd].
      + split; [exact I|]. constructor; [|exact Hc]. cbn [snd]. exact (hit_ok c P _ _ _ _ Hc Hit).
      + split; [exact I|exact Hc].
  Qed.

  Lemma run_history_ok ops : forall cache, cache_ok c P cache -> Forall (answer_ok c P) (run_history c cache ops).
  Proof.
    induction ops as [|o ops IH]; intros cache Hc; cbn [run_history]; [constructor|].
    destruct (step_op_ok cache o Hc) as [Ha Hc'].
    destruct (step_op c cache o) as [out cache']. cbn [fst snd] in Ha, Hc'.
    constructor; [exact Ha|apply IH; exact Hc'].
  Qed.
End History.

(** Every answer in every history that starts with an empty cache carries an admissible body. *)
Lemma history_bodies_confined_lemma (c : pcfg) (root cwd P : pos) (ops : list op) :
  benign_host (pc_host c) -> wf_pos root -> wf_pos cwd -> pc_fs c = read_path root cwd ->
  resolve_path root cwd (h_path (pc_host c) ++ [c_slash] ++ h_public (pc_host c)) = Some P ->
  Forall (answer_ok c P) (run_history c [] ops).
Proof.
  intros Bh Wr Wc Fs RP. apply (run_history_ok c root cwd P Bh Wr Wc Fs RP). constructor.
Qed.

(** ------------------------------------------------------------------ *)
(** * An unsafe path is answered 400 in every cache state, the cache is left alone *)
Lemma silent_no_run ev : silent ev -> find_run ev = None.
Proof.
  unfold silent. induction ev as [|e ev IH]; cbn [forallb find_run]; [reflexivity|].
  intros H. apply andb_true_iff in H as [H1 H2]. destruct e; cbn in H1; try discriminate; apply IH; exact H2.
Qed.
Lemma silent_no_log c ev : silent ev -> log_of c ev = [].
Proof.
  unfold silent, log_of. induction ev as [|e ev IH]; cbn [forallb flat_map]; [reflexivity|].
  intros H. apply andb_true_iff in H as [H1 H2]. destruct e; cbn in H1; try discriminate; cbn [app]; apply IH; exact H2.
Qed.

Lemma unsafe_step_lemma c cache m t k p :
  starts_with [c_slash] t = true -> uri_path t = Some p -> unsafe (percent_decode p) ->
  step_request c cache m t k = (XL [XN 400; XB errpage; XL []], cache).
Proof.
  intros Hs Hu U. unfold step_request. rewrite Hs, Hu. cbn [negb]. cbn zeta.
  match goal with |- context [serve ?h ?fs ?mm ?ov ?ca p] =>
    pose proof (unsafe_is_400_and_silent_lemma h fs mm ov ca p U) as H; destruct (serve h fs mm ov ca p) as [r ev] end.
  destruct H as (H1 & H2 & H3 & H4).
  rewrite H1, H3, H2, (silent_no_run ev H4), (silent_no_log c ev H4).
  cbn. rewrite !andb_false_r. reflexivity.
Qed.

(** ------------------------------------------------------------------ *)
(** * Without a Prime override the internal routes do not exist for the request *)
Definition strip_host (h : host_cfg) : host_cfg :=
  {| h_path := h_path h; h_public := h_public h; h_redirect := h_redirect h; h_ext_default := h_ext_default h;
     h_folder_default := h_folder_default h;
     h_prepare_single := filter (fun k => negb (has_dot_slash_b k)) (h_prepare_single h) |}.
Definition strip_internal (c : pcfg) : pcfg :=
  {| pc_default_ext := pc_default_ext c; pc_cache := pc_cache c; pc_host := strip_host (pc_host c);
     pc_fs := pc_fs c; pc_handlers := pc_handlers c |}.

Lemma existsb_filter_key key l :
  has_dot_slash_b key = false ->
  existsb (beq key) (filter (fun k => negb (has_dot_slash_b k)) l) = existsb (beq key) l.
Proof.
  intros Hk. induction l as [|a l IH]; cbn [filter existsb]; [reflexivity|].
  destruct (beq key a) eqn:E.
  - apply beq_eq in E. subst a. rewrite Hk. cbn [negb existsb]. rewrite beq_refl. reflexivity.
  - destruct (negb (has_dot_slash_b a)); cbn [existsb]; rewrite ?E; exact IH.
Qed.

Lemma primed_path_strip h p : primed_path (strip_host h) p = primed_path h p.
Proof. reflexivity. Qed.

Lemma serve_strip h fs m cached p :
  benign_host h -> serve (strip_host h) fs m None cached p = serve h fs m None cached p.
Proof.
  intros Bh. unfold serve. rewrite primed_path_strip.
  destruct (sanitize_path p) as [u| |] eqn:S; [|reflexivity|reflexivity].
  apply sanitize_ok_safe in S. apply (primed_safe h p Bh) in S.
  assert (N : has_dot_slash_b (primed_path h p) = false).
  { destruct (has_dot_slash_b (primed_path h p)) eqn:E; [|reflexivity].
    apply pd_keeps_dot_slash in E. unfold unsafe_b in S. apply orb_false_iff in S as [S _]. congruence. }
  cbn [strip_host h_path h_public h_prepare_single].
  rewrite (existsb_filter_key _ _ N). reflexivity.
Qed.

Lemma no_override_strip_lemma c cache m t k :
  benign_host (pc_host c) -> override_of (pc_default_ext c) m k = None ->
  step_request (strip_internal c) cache m t k = step_request c cache m t k.
Proof.
  intros Bh Ho. unfold step_request. cbn [strip_internal pc_default_ext pc_cache pc_host pc_fs].
  rewrite Ho.
  destruct (negb (starts_with [c_slash] t)); [reflexivity|].
  destruct (uri_path t) as [p|]; [|reflexivity].
  cbn zeta. rewrite (serve_strip _ _ _ _ _ Bh). reflexivity.
Qed.
