(** C14 (reused by C13) — proofs about Model/RuleSet.v:
    every vector that a history of [add_mut] calls can produce — whatever permutation the
    unstable sort returns — answers [get] like the independent resolver [resolve] does. *)
From Coq Require Import Sorting.Permutation Sorting.Sorted Relations.Relation_Definitions.
From Coq Require Import ZifyBool ZifyNat ZifyN.
From KV Require Import Bytes RuleSetStd RuleSet.
Open Scope N_scope.
Arguments N.add : simpl never. Arguments N.sub : simpl never. Arguments N.eqb : simpl never.
Arguments N.ltb : simpl never. Arguments N.leb : simpl never.

(** ---- patterns ---- *)
Lemma rev_cons_inv {A} (p : list A) c r : rev p = c :: r -> p = rev r ++ [c].
Proof. intros H. rewrite <- (rev_involutive p), H. reflexivity. Qed.

Lemma ends_with_star_snoc p : ends_with_star p = true -> p = removelast p ++ [c_star].
Proof.
  unfold ends_with_star. destruct (rev p) as [|c r] eqn:E; [discriminate|]. intros H.
  apply N.eqb_eq in H. subst c. apply rev_cons_inv in E. rewrite E at 1.
  rewrite E, removelast_last. reflexivity.
Qed.

Lemma strip_suffix_star_spec p :
  strip_suffix_star p = if ends_with_star p then Some (removelast p) else None.
Proof.
  unfold strip_suffix_star, ends_with_star. destruct (rev p) as [|c r] eqn:E; [reflexivity|].
  apply rev_cons_inv in E. destruct (N.eqb c c_star); [|reflexivity].
  rewrite E, removelast_last. reflexivity.
Qed.

Lemma rule_matches_covers p uri : rule_matches p uri = covers p uri.
Proof.
  unfold rule_matches, covers, is_wild. rewrite strip_suffix_star_spec.
  destruct (ends_with_star p) eqn:W.
  - destruct (beq p uri) eqn:E; [|reflexivity]. cbn [orb]. symmetry.
    apply beq_eq in E. subst uri. apply starts_with_app. exists [c_star].
    apply ends_with_star_snoc. exact W.
  - apply orb_false_r.
Qed.

(** what [covers] means *)
Lemma covers_meaning p uri :
  covers p uri = true <->
  (is_wild p = false /\ p = uri) \/ (exists pre rest, p = pre ++ [c_star] /\ uri = pre ++ rest).
Proof.
  unfold covers. destruct (is_wild p) eqn:W.
  - rewrite starts_with_app. split.
    + intros [r Hr]. right. exists (removelast p), r. split; [apply ends_with_star_snoc; exact W|exact Hr].
    + intros [[HW _]|[pre [rest [Hp Hu]]]]; [discriminate|]. subst p. rewrite removelast_last. exists rest. exact Hu.
  - rewrite beq_eq. split.
    + intros H. left. split; [reflexivity|exact H].
    + intros [[_ H]|[pre [rest [Hp _]]]]; [exact H|].
      exfalso. subst p. unfold is_wild, ends_with_star in W. rewrite rev_unit in W.
      rewrite N.eqb_refl in W. discriminate.
Qed.

(** ---- the specificity order ---- *)
Ltac ms_crush :=
  unfold more_specific, is_wild in *;
  repeat match goal with
         | |- context [ends_with_star ?p] => destruct (ends_with_star p)
         | H : context [ends_with_star ?p] |- _ => destruct (ends_with_star p)
         end;
  cbn [Bool.eqb] in *; try discriminate; try reflexivity; try lia.

Lemma ms_irrefl p : more_specific p p = false.
Proof. ms_crush. Qed.
Lemma ms_asym p q : more_specific p q = true -> more_specific q p = false.
Proof. ms_crush. Qed.
Lemma ms_negtrans x y z : more_specific x y = false -> more_specific y z = false -> more_specific x z = false.
Proof. ms_crush. Qed.
Lemma ms_trans x y z : more_specific x y = true -> more_specific y z = true -> more_specific x z = true.
Proof. ms_crush. Qed.
Lemma ms_incomparable p q :
  more_specific p q = false -> more_specific q p = false -> is_wild p = is_wild q /\ length p = length q.
Proof. ms_crush; split; try reflexivity; lia. Qed.
Lemma ms_exact_beats_wild p q : is_wild p = false -> is_wild q = true -> more_specific p q = true.
Proof. intros Hp Hq. unfold more_specific. rewrite Hp, Hq. reflexivity. Qed.
Lemma ms_longer_beats_shorter p q :
  is_wild p = is_wild q -> (length q < length p)%nat -> more_specific p q = true.
Proof. intros H L. unfold more_specific. rewrite H, Bool.eqb_reflx. apply Nat.ltb_lt. exact L. Qed.

Lemma app_eq_len {A} (a b r1 r2 : list A) : a ++ r1 = b ++ r2 -> length a = length b -> a = b.
Proof.
  revert b; induction a as [|x a IH]; intros [|y b] H L; cbn in *; try discriminate; [reflexivity|].
  inversion H; subst. f_equal. apply IH; [assumption|lia].
Qed.

Lemma covers_same_rank_eq p q uri :
  covers p uri = true -> covers q uri = true -> is_wild p = is_wild q -> length p = length q -> p = q.
Proof.
  unfold covers. intros Hp Hq W L. rewrite <- W in Hq. destruct (is_wild p) eqn:Wp.
  - symmetry in W. apply ends_with_star_snoc in Wp. apply ends_with_star_snoc in W.
    apply starts_with_app in Hp as [r1 H1]. apply starts_with_app in Hq as [r2 H2].
    assert (E : removelast p = removelast q).
    { apply app_eq_len with (r1 := r1) (r2 := r2); [congruence|].
      rewrite Wp, W in L. rewrite !app_length in L. cbn in L. lia. }
    rewrite Wp, W, E. reflexivity.
  - apply beq_eq in Hp. apply beq_eq in Hq. congruence.
Qed.

(** of two patterns covering the same path, one is strictly more specific, or they are equal *)
Lemma best_unique p q uri :
  covers p uri = true -> covers q uri = true ->
  more_specific q p = false -> more_specific p q = false -> p = q.
Proof.
  intros Hp Hq H1 H2. destruct (ms_incomparable _ _ H2 H1) as [W L].
  eapply covers_same_rank_eq; eassumption.
Qed.

(** ---- [most_specific] returns a maximal candidate ---- *)
Definition ms_step (best p : bytes) : bytes := if more_specific p best then p else best.

Lemma fold_best_in cs : forall c, In (fold_left ms_step cs c) (c :: cs).
Proof.
  induction cs as [|p cs IH]; intros c; cbn [fold_left]; [left; reflexivity|].
  specialize (IH (ms_step c p)). destruct IH as [H|H].
  - unfold ms_step in H at 1. destruct (more_specific p c); [right; left|left]; exact H.
  - right; right; exact H.
Qed.

Lemma fold_best_max cs : forall c x, In x (c :: cs) -> more_specific x (fold_left ms_step cs c) = false.
Proof.
  induction cs as [|p cs IH]; intros c x Hx; cbn [fold_left].
  - destruct Hx as [<-|[]]. apply ms_irrefl.
  - assert (Hc : more_specific c (ms_step c p) = false).
    { unfold ms_step. destruct (more_specific p c) eqn:E; [apply ms_asym; exact E|apply ms_irrefl]. }
    assert (Hp : more_specific p (ms_step c p) = false).
    { unfold ms_step. destruct (more_specific p c) eqn:E; [apply ms_irrefl|exact E]. }
    pose proof (IH (ms_step c p) (ms_step c p) (or_introl eq_refl)) as Hb.
    destruct Hx as [<-|[<-|Hx]].
    + eapply ms_negtrans; eassumption.
    + eapply ms_negtrans; eassumption.
    + apply IH. right. exact Hx.
Qed.

Lemma most_specific_spec cands b :
  most_specific cands = Some b -> In b cands /\ forall x, In x cands -> more_specific x b = false.
Proof.
  destruct cands as [|c cs]; cbn [most_specific]; [discriminate|]. intros H. inversion H; subst b.
  split; [apply (fold_best_in cs c)|apply (fold_best_max cs c)].
Qed.
Lemma most_specific_none cands : most_specific cands = None -> cands = [].
Proof. destruct cands; [reflexivity|discriminate]. Qed.

(** ---- [last_added] ---- *)
Section Hist.
  Context {R : Type}.
  Implicit Types (hist : list (bytes * R)) (rules : ruleset R).

  Lemma last_added_snoc hist path (rule : R) p :
    last_added (hist ++ [(path, rule)]) p = if beq path p then Some rule else last_added hist p.
  Proof. unfold last_added. rewrite rev_unit. cbn [find fst]. destruct (beq path p); reflexivity. Qed.

  Lemma last_added_in hist p (r : R) : last_added hist p = Some r -> In p (map fst hist).
  Proof.
    unfold last_added. destruct (find _ (rev hist)) as [e|] eqn:E; [|discriminate]. intros _.
    apply find_some in E as [Hin Hb]. apply beq_eq in Hb. subst p. apply in_map. apply in_rev. exact Hin.
  Qed.

  Lemma in_last_added hist p : In p (map fst hist) -> exists r : R, last_added hist p = Some r.
  Proof.
    intros Hin. unfold last_added. destruct (find _ (rev hist)) as [e|] eqn:E; [exists (snd e); reflexivity|].
    exfalso. apply in_map_iff in Hin as [e [He Hin]]. apply in_rev in Hin.
    pose proof (find_none _ _ E e Hin) as Hf. cbn in Hf. rewrite He, beq_refl in Hf. discriminate.
  Qed.

  (** [last_added hist p = Some r] iff [(p, r)] is the last add for [p] in the history *)
  Lemma last_added_meaning hist p (r : R) :
    last_added hist p = Some r <->
    exists h1 h2, hist = h1 ++ (p, r) :: h2 /\ ~ In p (map fst h2).
  Proof.
    split.
    - induction hist as [|[q s] h IH] using rev_ind; [discriminate|].
      rewrite last_added_snoc. destruct (beq q p) eqn:E.
      + apply beq_eq in E. subst q. intros H. inversion H; subst s. exists h, []. split; [reflexivity|intros []].
      + intros H. destruct (IH H) as [h1 [h2 [Hh Hn]]]. exists h1, (h2 ++ [(q, s)]). split.
        * rewrite Hh, <- app_assoc. reflexivity.
        * rewrite map_app, in_app_iff. cbn. intros [Hi|[Hq|[]]]; [exact (Hn Hi)|].
          subst q. rewrite beq_refl in E. discriminate.
    - intros [h1 [h2 [Hh Hn]]]. subst hist. induction h2 as [|[q s] h2 IH] using rev_ind.
      + rewrite (last_added_snoc h1 p r p), beq_refl. reflexivity.
      + change (h1 ++ (p, r) :: h2 ++ [(q, s)]) with (h1 ++ ((p, r) :: h2) ++ [(q, s)]).
        rewrite app_assoc, last_added_snoc.
        rewrite map_app, in_app_iff in Hn. cbn in Hn.
        destruct (beq q p) eqn:E; [apply beq_eq in E; exfalso; apply Hn; right; left; exact E|].
        apply IH. intros Hi. apply Hn. left. exact Hi.
  Qed.
End Hist.

(** ---- the comparator ---- *)
Section Cmp.
  Context {R : Type}.
  Implicit Types (a b c : bytes * R).

  Lemma rule_cmp_Lt a b : rule_cmp a b = Lt <-> more_specific (fst a) (fst b) = true.
  Proof.
    unfold rule_cmp, more_specific, is_wild.
    destruct (ends_with_star (fst a)), (ends_with_star (fst b)); cbn [Bool.eqb];
      rewrite ?Nat.compare_lt_iff, ?Nat.ltb_lt; split; intros H; try discriminate; try reflexivity; exact H.
  Qed.
  Lemma rule_cmp_Gt a b : rule_cmp a b = Gt <-> more_specific (fst b) (fst a) = true.
  Proof.
    unfold rule_cmp, more_specific, is_wild.
    destruct (ends_with_star (fst a)), (ends_with_star (fst b)); cbn [Bool.eqb];
      rewrite ?Nat.compare_gt_iff, ?Nat.ltb_lt; split; intros H; try discriminate; try reflexivity; exact H.
  Qed.

  Lemma cmp_le_iff a b : cmp_le a b <-> more_specific (fst b) (fst a) = false.
  Proof.
    unfold cmp_le. rewrite rule_cmp_Gt. destruct (more_specific (fst b) (fst a)); split; intros H; congruence.
  Qed.
  Lemma cmp_le_refl a : cmp_le a a.
  Proof. apply cmp_le_iff. apply ms_irrefl. Qed.
  Lemma cmp_le_trans : transitive _ (@cmp_le R).
  Proof.
    intros a b c H1 H2. apply cmp_le_iff in H1. apply cmp_le_iff in H2. apply cmp_le_iff.
    eapply ms_negtrans; eassumption.
  Qed.
  (** the comparator is total: what is not [Lt] one way is not [Gt] the other way *)
  Lemma rule_cmp_not_Lt a b : rule_cmp a b <> Lt -> cmp_le b a.
  Proof.
    intros H. apply cmp_le_iff. destruct (more_specific (fst a) (fst b)) eqn:E; [|reflexivity].
    exfalso. apply H. apply rule_cmp_Lt. exact E.
  Qed.
  Lemma rule_cmp_Lt_le a b : rule_cmp a b = Lt -> cmp_le a b.
  Proof. intros H. unfold cmp_le. rewrite H. discriminate. Qed.
End Cmp.

(** ---- first match in a sorted vector ---- *)
Section Find.
  Context {R : Type}.
  Implicit Types (rules : ruleset R).

  Lemma find_sorted (f : bytes * R -> bool) rules e :
    StronglySorted cmp_le rules -> find f rules = Some e ->
    In e rules /\ f e = true /\ forall e', In e' rules -> f e' = true -> cmp_le e e'.
  Proof.
    induction rules as [|x r IH]; intros S H; [discriminate|]. cbn [find] in H.
    apply StronglySorted_inv in S as [S F]. destruct (f x) eqn:Fx.
    - inversion H; subst e. split; [left; reflexivity|]. split; [exact Fx|].
      intros e' [<-|Hin] _; [apply cmp_le_refl|]. rewrite Forall_forall in F. apply F. exact Hin.
    - destruct (IH S H) as [Hin [Hf Hall]]. split; [right; exact Hin|]. split; [exact Hf|].
      intros e' [<-|Hin'] Hf'; [congruence|]. apply Hall; assumption.
  Qed.
End Find.

(** ---- the invariant of [add_mut] ---- *)
Section Inv.
  Context {R : Type}.
  Implicit Types (hist : list (bytes * R)) (rules : ruleset R).

  Lemma filter_all_id {A} (f : A -> bool) (l : list A) : (forall x, In x l -> f x = true) -> filter f l = l.
  Proof.
    induction l as [|x l IH]; intros H; [reflexivity|]. cbn [filter].
    rewrite (H x (or_introl eq_refl)). f_equal. apply IH. intros y Hy. apply H. right. exact Hy.
  Qed.
  Lemma filter_none_nil {A} (f : A -> bool) (l : list A) : (forall x, In x l -> f x = false) -> filter f l = [].
  Proof.
    induction l as [|x l IH]; intros H; [reflexivity|]. cbn [filter].
    rewrite (H x (or_introl eq_refl)). apply IH. intros y Hy. apply H. right. exact Hy.
  Qed.

  (** with one rule per pattern, removing the first rule for [path] removes every rule for it *)
  Lemma remove_position_filter rules path :
    NoDup (map fst rules) ->
    match position (fun probe => beq (fst probe) path) rules with
    | Some idx => remove_nth idx rules
    | None => rules
    end = filter (fun e => negb (beq (fst e) path)) rules.
  Proof.
    induction rules as [|x r IH]; intros ND; [reflexivity|]. cbn [map] in ND. apply NoDup_cons_iff in ND as [Hx ND].
    cbn [position filter]. destruct (beq (fst x) path) eqn:E; cbn [negb].
    - cbn [remove_nth]. symmetry. apply filter_all_id. intros y Hy.
      destruct (beq (fst y) path) eqn:Ey; [|reflexivity]. exfalso. apply Hx.
      apply beq_eq in E. apply beq_eq in Ey. rewrite E, <- Ey. apply in_map. exact Hy.
    - specialize (IH ND). destruct (position _ r) as [j|]; cbn [option_map remove_nth]; f_equal; exact IH.
  Qed.

  Lemma NoDup_map_filter (f : bytes * R -> bool) rules :
    NoDup (map fst rules) -> NoDup (map fst (filter f rules)).
  Proof.
    induction rules as [|x r IH]; intros ND; [constructor|]. cbn [map] in ND. apply NoDup_cons_iff in ND as [Hx ND].
    cbn [filter]. destruct (f x); [|apply IH; exact ND]. cbn [map]. constructor; [|apply IH; exact ND].
    intros Hin. apply Hx. apply in_map_iff in Hin as [y [Hy Hin]]. apply filter_In in Hin as [Hin _].
    rewrite <- Hy. apply in_map. exact Hin.
  Qed.

  Lemma unsorted_add_in rules path (rule : R) p r :
    NoDup (map fst rules) ->
    (In (p, r) (rs_unsorted_add rules path rule) <-> (p <> path /\ In (p, r) rules) \/ (p = path /\ r = rule)).
  Proof.
    intros ND. unfold rs_unsorted_add. rewrite (remove_position_filter rules path ND).
    rewrite in_app_iff, filter_In. cbn [In fst]. split.
    - intros [[Hin Hb]|[H|[]]].
      + left. split; [|exact Hin]. intros ->. rewrite beq_refl in Hb. discriminate.
      + right. inversion H; subst. split; reflexivity.
    - intros [[Hne Hin]|[-> ->]]; [left|right; left; reflexivity].
      split; [exact Hin|]. destruct (beq p path) eqn:E; [apply beq_eq in E; contradiction|reflexivity].
  Qed.

  Lemma unsorted_add_nodup rules path (rule : R) :
    NoDup (map fst rules) -> NoDup (map fst (rs_unsorted_add rules path rule)).
  Proof.
    intros ND. unfold rs_unsorted_add. rewrite (remove_position_filter rules path ND).
    rewrite map_app. cbn [map fst]. eapply Permutation_NoDup; [apply Permutation_cons_append|].
    constructor; [|apply NoDup_map_filter; exact ND].
    intros Hin. apply in_map_iff in Hin as [y [Hy Hin]]. apply filter_In in Hin as [_ Hb].
    rewrite Hy, beq_refl in Hb. discriminate.
  Qed.

  Record rs_inv hist rules : Prop := {
    inv_nodup : NoDup (map fst rules);
    inv_map : forall p r, In (p, r) rules <-> last_added hist p = Some r;
    inv_sorted : Sorted cmp_le rules }.

  Lemma reach_inv hist rules : rs_reach hist rules -> rs_inv hist rules.
  Proof.
    induction 1 as [|hist rules path rule rules' _ IH [HP HS]].
    - split; [constructor| |constructor]. intros p r. cbn. split; [intros []|discriminate].
    - destruct IH as [ND HM _]. split; [| |exact HS].
      + eapply Permutation_NoDup; [apply Permutation_map; exact HP|]. apply unsorted_add_nodup. exact ND.
      + intros p r. rewrite last_added_snoc.
        assert (Hiff : In (p, r) rules' <-> In (p, r) (rs_unsorted_add rules path rule)).
        { split; [apply Permutation_in; apply Permutation_sym; exact HP|apply Permutation_in; exact HP]. }
        rewrite Hiff, (unsorted_add_in rules path rule p r ND). destruct (beq path p) eqn:E.
        * apply beq_eq in E. subst p. split.
          -- intros [[Hne _]|[_ ->]]; [contradiction|reflexivity].
          -- intros H. inversion H; subst. right. split; reflexivity.
        * assert (Hne : p <> path) by (intros ->; rewrite beq_refl in E; discriminate). rewrite <- HM. split.
          -- intros [[_ Hin]|[-> _]]; [exact Hin|contradiction].
          -- intros Hin. left. split; assumption.
  Qed.

  (** [get] on a vector satisfying the invariant = the independent resolver on the history *)
  Lemma inv_get_resolve hist rules uri : rs_inv hist rules -> rs_get rules uri = resolve hist uri.
  Proof.
    intros [ND HM HS]. unfold rs_get, resolve.
    assert (SS : StronglySorted cmp_le rules) by (apply Sorted_StronglySorted; [apply cmp_le_trans|exact HS]).
    set (cands := filter (fun p => covers p uri) (map fst hist)).
    destruct (find (fun e => rule_matches (fst e) uri) rules) as [[p r]|] eqn:F.
    - destruct (find_sorted _ rules (p, r) SS F) as [Hin [Hm Hall]]. cbn [fst] in Hm.
      rewrite rule_matches_covers in Hm. cbn [option_map snd].
      pose proof (proj1 (HM p r) Hin) as Hl.
      assert (Hpc : In p cands).
      { apply filter_In. split; [eapply last_added_in; exact Hl|exact Hm]. }
      destruct (most_specific cands) as [b|] eqn:MS; [|apply most_specific_none in MS; rewrite MS in Hpc; destruct Hpc].
      destruct (most_specific_spec _ _ MS) as [Hb Hmax]. apply filter_In in Hb as [Hbh Hbc].
      destruct (in_last_added hist b Hbh) as [rb Hrb].
      pose proof (proj2 (HM b rb) Hrb) as Hbin.
      assert (Hpb : more_specific b p = false).
      { pose proof (Hall (b, rb) Hbin) as Hle. cbn [fst] in Hle. rewrite rule_matches_covers in Hle.
        specialize (Hle Hbc). apply cmp_le_iff in Hle. exact Hle. }
      assert (E : p = b) by (eapply best_unique; eauto).
      subst b. symmetry. exact Hl.
    - cbn [option_map]. replace cands with (@nil bytes); [reflexivity|]. symmetry. apply filter_none_nil.
      intros p Hp. destruct (in_last_added hist p Hp) as [r Hr]. apply HM in Hr.
      pose proof (find_none _ _ F (p, r) Hr) as Hf. cbn [fst] in Hf. rewrite rule_matches_covers in Hf. exact Hf.
  Qed.

  (** Theorem most_specific_rule (for every permutation the unstable sort may return) *)
  Lemma rs_get_resolve hist rules uri : rs_reach hist rules -> rs_get rules uri = resolve hist uri.
  Proof. intros H. apply inv_get_resolve. apply reach_inv. exact H. Qed.

  (** the vectors reachable with one history answer alike: the sort's choice is unobservable *)
  Lemma rs_get_sort_independent hist rules1 rules2 uri :
    rs_reach hist rules1 -> rs_reach hist rules2 -> rs_get rules1 uri = rs_get rules2 uri.
  Proof. intros H1 H2. rewrite (rs_get_resolve _ _ _ H1), (rs_get_resolve _ _ _ H2). reflexivity. Qed.

  (** ---- what [resolve] says, in words ---- *)
  Definition is_best hist (uri p : bytes) : Prop :=
    In p (map fst hist) /\ covers p uri = true /\
    forall q, In q (map fst hist) -> covers q uri = true -> more_specific q p = false.

  Lemma resolve_some hist uri (r : R) :
    resolve hist uri = Some r <-> exists p, is_best hist uri p /\ last_added hist p = Some r.
  Proof.
    unfold resolve. set (cands := filter (fun p => covers p uri) (map fst hist)). split.
    - destruct (most_specific cands) as [b|] eqn:MS; [|discriminate]. intros Hl.
      destruct (most_specific_spec _ _ MS) as [Hb Hmax]. apply filter_In in Hb as [Hbh Hbc].
      exists b. split; [|exact Hl]. split; [exact Hbh|]. split; [exact Hbc|].
      intros q Hq Hqc. apply Hmax. apply filter_In. split; assumption.
    - intros [p [[Hph [Hpc Hmax]] Hl]].
      assert (Hpin : In p cands) by (apply filter_In; split; assumption).
      destruct (most_specific cands) as [b|] eqn:MS; [|apply most_specific_none in MS; rewrite MS in Hpin; destruct Hpin].
      destruct (most_specific_spec _ _ MS) as [Hb Hbmax]. apply filter_In in Hb as [Hbh Hbc].
      assert (E : p = b) by (eapply best_unique; eauto).
      subst b. exact Hl.
  Qed.

  Lemma resolve_some_meaning hist uri (r : R) :
    resolve hist uri = Some r <->
    exists p, In p (map fst hist) /\ covers p uri = true /\
              (forall q, In q (map fst hist) -> covers q uri = true -> more_specific q p = false) /\
              last_added hist p = Some r.
  Proof.
    rewrite resolve_some. unfold is_best. split; intros [p H]; exists p; tauto.
  Qed.

  Lemma resolve_none hist uri :
    @resolve R hist uri = None <-> forall p, In p (map fst hist) -> covers p uri = false.
  Proof.
    unfold resolve. set (cands := filter (fun p => covers p uri) (map fst hist)). split.
    - intros H p Hp. destruct (covers p uri) eqn:C; [|reflexivity]. exfalso.
      assert (Hpin : In p cands) by (apply filter_In; split; assumption).
      destruct (most_specific cands) as [b|] eqn:MS.
      + destruct (most_specific_spec _ _ MS) as [Hb _]. apply filter_In in Hb as [Hbh _].
        destruct (in_last_added hist b Hbh) as [rb Hrb]. congruence.
      + apply most_specific_none in MS. rewrite MS in Hpin. destruct Hpin.
    - intros H. replace cands with (@nil bytes); [reflexivity|]. symmetry. apply filter_none_nil. exact H.
  Qed.

  Lemma is_best_unique hist uri p q : is_best hist uri p -> is_best hist uri q -> p = q.
  Proof. intros [Hp [Hpc Hpm]] [Hq [Hqc Hqm]]. eapply best_unique; eauto. Qed.
End Inv.

(** ---- the insertion sort of the executable model is one of the permitted sorts ---- *)
Section Sort.
  Context {R : Type}.
  Implicit Types (l acc : ruleset R).
  Definition cmp_ge (a b : bytes * R) : Prop := cmp_le b a.

  Lemma insert_tail_perm l x : Permutation (x :: l) (insert_tail rule_cmp l x).
  Proof.
    induction l as [|y r IH]; cbn [insert_tail]; [apply Permutation_refl|].
    destruct (rule_cmp x y); try apply Permutation_refl.
    eapply Permutation_trans; [apply perm_swap|]. apply perm_skip. exact IH.
  Qed.

  Lemma insert_tail_hd l x y : HdRel cmp_ge y l -> cmp_ge y x -> HdRel cmp_ge y (insert_tail rule_cmp l x).
  Proof.
    intros H Hx. destruct l as [|z r]; cbn [insert_tail]; [constructor; exact Hx|].
    destruct (rule_cmp x z); try (constructor; exact Hx). constructor. inversion H; assumption.
  Qed.

  Lemma insert_tail_sorted l x : Sorted cmp_ge l -> Sorted cmp_ge (insert_tail rule_cmp l x).
  Proof.
    induction l as [|y r IH]; intros S; cbn [insert_tail]; [repeat constructor|].
    apply Sorted_inv in S as [S Hd]. destruct (rule_cmp x y) eqn:E.
    - constructor; [constructor; assumption|]. constructor. unfold cmp_ge. apply rule_cmp_not_Lt. rewrite E. discriminate.
    - constructor; [apply IH; exact S|]. apply insert_tail_hd; [exact Hd|]. unfold cmp_ge. apply rule_cmp_Lt_le. exact E.
    - constructor; [constructor; assumption|]. constructor. unfold cmp_ge. apply rule_cmp_not_Lt. rewrite E. discriminate.
  Qed.

  Lemma fold_insert l : forall acc, Sorted cmp_ge acc ->
    Sorted cmp_ge (fold_left (insert_tail rule_cmp) l acc) /\ Permutation (l ++ acc) (fold_left (insert_tail rule_cmp) l acc).
  Proof.
    induction l as [|x l IH]; intros acc S; cbn [fold_left app]; [split; [exact S|apply Permutation_refl]|].
    destruct (IH _ (insert_tail_sorted acc x S)) as [S' P']. split; [exact S'|].
    eapply Permutation_trans; [|exact P']. eapply Permutation_trans; [apply Permutation_middle|].
    apply Permutation_app_head. apply insert_tail_perm.
  Qed.

  Lemma SS_snoc {A} (Rel : A -> A -> Prop) (ls : list A) x :
    StronglySorted Rel ls -> Forall (fun y => Rel y x) ls -> StronglySorted Rel (ls ++ [x]).
  Proof.
    induction ls as [|a ls IH]; intros S F; cbn [app]; [repeat constructor|].
    apply StronglySorted_inv in S as [S Fa]. inversion F; subst. constructor; [apply IH; assumption|].
    apply Forall_app. split; [exact Fa|]. constructor; [assumption|constructor].
  Qed.
  Lemma SS_rev {A} (Rel : A -> A -> Prop) (ls : list A) :
    StronglySorted (fun a b => Rel b a) ls -> StronglySorted Rel (rev ls).
  Proof.
    induction ls as [|a ls IH]; intros S; cbn [rev]; [constructor|].
    apply StronglySorted_inv in S as [S Fa]. apply SS_snoc; [apply IH; exact S|].
    rewrite Forall_forall in *. intros y Hy. apply Fa. apply in_rev. exact Hy.
  Qed.

  Lemma insertion_sort_sorted_perm l : sorted_perm l (insertion_sort_by rule_cmp l).
  Proof.
    unfold sorted_perm, insertion_sort_by.
    destruct (fold_insert l [] (Sorted_nil _)) as [S P]. rewrite app_nil_r in P. split.
    - eapply Permutation_trans; [exact P|apply Permutation_rev].
    - apply StronglySorted_Sorted. apply SS_rev. apply Sorted_StronglySorted; [|exact S].
      intros a b c H1 H2. unfold cmp_ge in *. eapply cmp_le_trans; eassumption.
  Qed.

  Lemma rs_build_snoc (add : ruleset R -> bytes -> R -> ruleset R) hist e :
    rs_build add (hist ++ [e]) = add (rs_build add hist) (fst e) (snd e).
  Proof. unfold rs_build. rewrite fold_left_app. reflexivity. Qed.

  Lemma rs_build_reach (hist : list (bytes * R)) : rs_reach hist (rs_build rs_add hist).
  Proof.
    induction hist as [|[path rule] hist IH] using rev_ind; [constructor|].
    rewrite rs_build_snoc. cbn [fst snd]. econstructor; [exact IH|]. apply insertion_sort_sorted_perm.
  Qed.

  (** the executable model (what the correspondence run compares with the Rust code) *)
  Lemma rs_get_build_resolve (hist : list (bytes * R)) uri :
    rs_get (rs_build rs_add hist) uri = resolve hist uri.
  Proof. apply rs_get_resolve. apply rs_build_reach. Qed.
End Sort.

(** ---- the code before the repair (binary search by string order) ---- *)
Definition v0_hist : list (bytes * N) := [(B "/a", 1); (B "/bb", 2); (B "/ccc", 3); (B "/a", 4)].
Lemma add_mut_v0_keeps_old_rule :
  rs_get (rs_build rs_add_v0 v0_hist) (B "/a") = Some 1 /\
  resolve v0_hist (B "/a") = Some 4 /\
  rs_get (rs_build rs_add v0_hist) (B "/a") = Some 4.
Proof. vm_compute. repeat split; reflexivity. Qed.
