(** C05 — proofs about Model/Vary.v. *)
From KV Require Import Bytes RustInt Range CacheControl Cache CacheProofs Fixture RustStd Vary.
From Coq Require Import ZifyBool ZifyNat ZifyN.
Open Scope N_scope.
