(** C05 — proofs about Model/Vary.v. *)
From Coq Require Import Sorting.Sorted.
From KV Require Import Bytes RustInt Range CacheControl Cache CacheProofs Cache04Proofs Fixture CacheX CacheXProofs RustStd RustStdProofs Vary.
From Coq Require Import ZifyBool ZifyNat ZifyN.
Open Scope N_scope.

(** ---- 1. the order: [Ord for str], derived [Ord for Header], [Ord for [Header]] ---- *)
Record cmp_ok {T : Type} (cmp : T -> T -> comparison) : Prop := mk_cmp_ok {
  c_eq : forall a c, cmp a c = Eq <-> a = c;
  c_anti : forall a c, cmp c a = CompOpp (cmp a c);
  c_trans : forall a b c, cmp a b = Lt -> cmp b c = Lt -> cmp a c = Lt }.

Section Lex.
  Context {T : Type} (cmp : T -> T -> comparison).
  Fixpoint lexl (a c : list T) : comparison :=
    match a, c with
    | [], [] => Eq
    | [], _ :: _ => Lt
    | _ :: _, [] => Gt
    | x :: a', y :: c' => match cmp x y with Eq => lexl a' c' | o => o end
    end.
  Hypothesis H : cmp_ok cmp.

  Lemma lexl_eq a c : lexl a c = Eq <-> a = c.
  Proof.
    revert c; induction a as [|x a IH]; intros [|y c]; cbn [lexl]; split; intros E;
      try reflexivity; try discriminate.
    - destruct (cmp x y) eqn:C; try discriminate. apply (c_eq _ H) in C. apply IH in E. congruence.
    - inversion E; subst. rewrite (proj2 (c_eq _ H y y) eq_refl). apply IH. reflexivity.
  Qed.
  Lemma lexl_anti a c : lexl c a = CompOpp (lexl a c).
  Proof.
    revert c; induction a as [|x a IH]; intros [|y c]; cbn [lexl]; try reflexivity.
    rewrite (c_anti _ H x y). destruct (cmp x y); cbn [CompOpp]; [apply IH | reflexivity | reflexivity].
  Qed.
  Lemma lexl_trans a b c : lexl a b = Lt -> lexl b c = Lt -> lexl a c = Lt.
  Proof.
    revert b c; induction a as [|x a IH]; intros [|y b] [|z c]; cbn [lexl]; intros H1 H2;
      try reflexivity; try discriminate.
    destruct (cmp x y) eqn:Cxy; try discriminate.
    - apply (c_eq _ H) in Cxy. subst y. destruct (cmp x z) eqn:Cxz.
      + eapply IH; eassumption.
      + reflexivity.
      + discriminate.
    - destruct (cmp y z) eqn:Cyz.
      + apply (c_eq _ H) in Cyz. subst z. rewrite Cxy. reflexivity.
      + rewrite (c_trans _ H _ _ _ Cxy Cyz). reflexivity.
      + discriminate.
  Qed.
  Lemma lexl_ok : cmp_ok lexl.
  Proof. constructor; [apply lexl_eq | apply lexl_anti | apply lexl_trans]. Qed.
End Lex.

Lemma ncmp_ok : cmp_ok N.compare.
Proof.
  constructor.
  - intros a c. apply N.compare_eq_iff.
  - intros a c. apply N.compare_antisym.
  - intros a b c H1 H2. rewrite N.compare_lt_iff in *. lia.
Qed.

Lemma bcmp_lexl a c : bcmp a c = lexl N.compare a c.
Proof. reflexivity. Qed.
Lemma bcmp_ok : cmp_ok bcmp.
Proof.
  pose proof (lexl_ok N.compare ncmp_ok) as [E A T]. constructor; intros; rewrite ?bcmp_lexl in *; eauto.
Qed.

Lemma cmp_header_ok : cmp_ok cmp_header.
Proof.
  destruct bcmp_ok as [E A T]. constructor.
  - intros [a1 a2] [c1 c2]. unfold cmp_header. cbn [fst snd]. split.
    + destruct (bcmp a1 c1) eqn:C1; try discriminate. intros C2. apply E in C1, C2. congruence.
    + intros X; inversion X; subst. rewrite (proj2 (E c1 c1) eq_refl). apply E. reflexivity.
  - intros [a1 a2] [c1 c2]. unfold cmp_header. cbn [fst snd]. rewrite (A a1 c1).
    destruct (bcmp a1 c1); cbn [CompOpp]; [apply A | reflexivity | reflexivity].
  - intros [a1 a2] [b1 b2] [c1 c2]. unfold cmp_header. cbn [fst snd]. intros H1 H2.
    destruct (bcmp a1 b1) eqn:C1; try discriminate.
    + apply E in C1. subst b1. destruct (bcmp a1 c1) eqn:C3.
      * eapply T; eassumption.
      * reflexivity.
      * discriminate.
    + destruct (bcmp b1 c1) eqn:C2.
      * apply E in C2. subst c1. rewrite C1. reflexivity.
      * rewrite (T _ _ _ C1 C2). reflexivity.
      * discriminate.
Qed.

Lemma cmp_hcoll_lexl a c : cmp_hcoll a c = lexl cmp_header a c.
Proof. reflexivity. Qed.
Lemma cmp_hcoll_ok : cmp_ok cmp_hcoll.
Proof.
  pose proof (lexl_ok cmp_header cmp_header_ok) as [E A T]. constructor; intros; rewrite ?cmp_hcoll_lexl in *; eauto.
Qed.

Definition hlt (a c : hcoll) : Prop := cmp_hcoll a c = Lt.
Lemma hlt_irrefl a : ~ hlt a a.
Proof. unfold hlt. rewrite (proj2 (c_eq _ cmp_hcoll_ok a a) eq_refl). discriminate. Qed.
Lemma hlt_trans a b c : hlt a b -> hlt b c -> hlt a c.
Proof. apply (c_trans _ cmp_hcoll_ok). Qed.
Lemma hlt_gt a c : hlt a c <-> cmp_hcoll c a = Gt.
Proof. unfold hlt. rewrite (c_anti _ cmp_hcoll_ok a c). destruct (cmp_hcoll a c); cbn; split; congruence. Qed.
Lemma hc_eqb_eq a c : hc_eqb a c = true <-> a = c.
Proof.
  unfold hc_eqb. rewrite <- (c_eq _ cmp_hcoll_ok). destruct (cmp_hcoll a c); split; congruence.
Qed.
Lemma hc_eqb_refl a : hc_eqb a a = true.
Proof. apply hc_eqb_eq. reflexivity. Qed.
Lemma hlt_neqb a c : hlt a c -> hc_eqb a c = false.
Proof. unfold hlt, hc_eqb. intros ->. reflexivity. Qed.
Lemma hlt_neqb' a c : hlt a c -> hc_eqb c a = false.
Proof. intros H. apply hlt_gt in H. unfold hc_eqb. rewrite H. reflexivity. Qed.

(** ---- 2. the sorted vector ---- *)
Section Vec.
  Context {A : Type}.
  Notation elt := (A * hcoll)%type.

  (** invariant (1): strictly increasing header lists — in particular no two equal ones *)
  Definition vsorted (l : list elt) : Prop := StronglySorted (fun p q => hlt (snd p) (snd q)) l.

  Definition vfind (t : hcoll) (l : list elt) : option A :=
    option_map fst (find (fun p => hc_eqb (snd p) t) l).

  Lemma ss_app (R : elt -> elt -> Prop) l1 l2 :
    StronglySorted R (l1 ++ l2) <->
    StronglySorted R l1 /\ StronglySorted R l2 /\ Forall (fun a => Forall (R a) l2) l1.
  Proof.
    induction l1 as [|a l1 IH]; cbn [app].
    - split; [intros H; repeat split; [constructor | exact H | constructor] | intros (_ & H & _); exact H].
    - split.
      + intros H. inversion H as [|? ? S F]; subst. apply IH in S as (S1 & S2 & F12).
        apply Forall_app in F as [F1 F2]. repeat split; try assumption; constructor; assumption.
      + intros (S1 & S2 & F12). inversion S1 as [|? ? S1' F1]; subst. inversion F12 as [|? ? Fa F12']; subst.
        constructor; [apply IH; repeat split; assumption | apply Forall_app; split; assumption].
  Qed.

  Lemma vsorted_nodup_keys (l : list elt) f1 f2 t : vsorted l -> In (f1, t) l -> In (f2, t) l -> f1 = f2.
  Proof.
    induction 1 as [|p l S IH F]; intros I1 I2; [contradiction|].
    rewrite Forall_forall in F.
    destruct I1 as [-> | I1], I2 as [E2 | I2].
    - congruence.
    - exfalso. apply (hlt_irrefl t). exact (F _ I2).
    - subst p. exfalso. apply (hlt_irrefl t). exact (F _ I1).
    - auto.
  Qed.

  (** a sorted vector is partitioned by the comparator of [get] *)
  Lemma sorted_partition (l : list elt) t : vsorted l ->
    (exists L p G, l = L ++ p :: G /\ snd p = t /\
                   Forall (fun q => hlt (snd q) t) L /\ Forall (fun q => hlt t (snd q)) G)
    \/ (exists L G, l = L ++ G /\ Forall (fun q => hlt (snd q) t) L /\ Forall (fun q => hlt t (snd q)) G).
  Proof.
    induction 1 as [|p l S IH F].
    - right. exists [], []. repeat split; constructor.
    - destruct (cmp_hcoll (snd p) t) eqn:C.
      + left. apply (c_eq _ cmp_hcoll_ok) in C. exists [], p, l. repeat split; [exact C | constructor |].
        subst t. exact F.
      + destruct IH as [(L & q & G & -> & Eq & FL & FG) | (L & G & -> & FL & FG)].
        * left. exists (p :: L), q, G. repeat split; try assumption. constructor; assumption.
        * right. exists (p :: L), G. repeat split; try assumption. constructor; assumption.
      + right. exists [], (p :: l). repeat split; [constructor|].
        apply hlt_gt in C. constructor; [exact C|].
        eapply Forall_impl; [|exact F]. intros q Hq. eapply hlt_trans; eassumption.
  Qed.

  Lemma Forall_lt_cmp (L : list elt) t :
    Forall (fun q => hlt (snd q) t) L -> Forall (fun x => cmp_hcoll (snd x) t = Lt) L.
  Proof. intros H. exact H. Qed.
  Lemma Forall_gt_cmp (G : list elt) t :
    Forall (fun q => hlt t (snd q)) G -> Forall (fun x => cmp_hcoll (snd x) t = Gt) G.
  Proof. intros H. eapply Forall_impl; [|exact H]. intros q Hq. apply hlt_gt. exact Hq. Qed.

  Lemma vfind_skip_lt (L : list elt) t rest :
    Forall (fun q => hlt (snd q) t) L -> vfind t (L ++ rest) = vfind t rest.
  Proof.
    induction 1 as [|q L Hq F IH]; [reflexivity|]. unfold vfind in *. cbn [app find].
    rewrite (hlt_neqb _ _ Hq). exact IH.
  Qed.
  Lemma vfind_all_gt (G : list elt) t : Forall (fun q => hlt t (snd q)) G -> vfind t G = None.
  Proof.
    induction 1 as [|q G Hq F IH]; [reflexivity|]. unfold vfind in *. cbn [find].
    rewrite (hlt_neqb' _ _ Hq). exact IH.
  Qed.

  (** the search on a sorted vector *)
  Lemma get_sorted (v : varied A) (other : hcoll) : vsorted (vr_resps v) ->
    (exists L p G, vr_resps v = L ++ p :: G /\ snd p = other /\ vfind other (vr_resps v) = Some (fst p) /\
                   vr_get v other = Ok (BOk (length L)))
    \/ (exists L G, vr_resps v = L ++ G /\ vfind other (vr_resps v) = None /\
                    Forall (fun q => hlt (snd q) other) L /\ Forall (fun q => hlt other (snd q)) G /\
                    vr_get v other = Ok (BErr (length L))).
  Proof.
    intros S. unfold vr_get.
    destruct (sorted_partition _ other S) as [(L & p & G & E & Ep & FL & FG) | (L & G & E & FL & FG)]; rewrite E.
    - left. exists L, p, G. repeat split; try assumption.
      + rewrite vfind_skip_lt by assumption. unfold vfind. cbn [find]. rewrite Ep, hc_eqb_refl. reflexivity.
      + rewrite binary_search_by_unique; [reflexivity | apply Forall_lt_cmp; assumption | | apply Forall_gt_cmp; assumption].
        rewrite Ep. apply (c_eq _ cmp_hcoll_ok). reflexivity.
    - right. exists L, G. repeat split; try assumption.
      + rewrite vfind_skip_lt by assumption. apply vfind_all_gt. assumption.
      + rewrite binary_search_by_absent; [reflexivity | apply Forall_lt_cmp; assumption | apply Forall_gt_cmp; assumption].
  Qed.

  Lemma vec_insert_at (L G : list elt) x : vec_insert (length L) x (L ++ G) = Ok (L ++ x :: G).
  Proof.
    unfold vec_insert. rewrite app_length.
    destruct (Nat.leb_spec (length L) (length L + length G)) as [_|Hc]; [|lia].
    rewrite firstn_app, Nat.sub_diag, firstn_all. cbn [firstn]. rewrite app_nil_r.
    rewrite skipn_app, Nat.sub_diag, skipn_all. reflexivity.
  Qed.

  Lemma insert_sorted (L G : list elt) f t :
    vsorted (L ++ G) -> Forall (fun q => hlt (snd q) t) L -> Forall (fun q => hlt t (snd q)) G ->
    vsorted (L ++ (f, t) :: G).
  Proof.
    unfold vsorted. intros S FL FG. apply ss_app in S as (SL & SG & FLG). apply ss_app. repeat split.
    - exact SL.
    - constructor; [exact SG | exact FG].
    - rewrite Forall_forall in *. intros a Ha. constructor; [exact (FL _ Ha) | exact (FLG _ Ha)].
  Qed.

  Lemma vfind_insert (L G : list elt) f t t' :
    Forall (fun q => hlt (snd q) t) L ->
    vfind t' (L ++ (f, t) :: G) = if hc_eqb t t' then Some f else vfind t' (L ++ G).
  Proof.
    induction 1 as [|q L Hq F IH].
    - unfold vfind. cbn [app find snd]. destruct (hc_eqb t t'); reflexivity.
    - unfold vfind in *. cbn [app find].
      destruct (hc_eqb (snd q) t') eqn:Eq.
      + apply hc_eqb_eq in Eq. subst t'. rewrite (hlt_neqb' _ _ Hq). reflexivity.
      + exact IH.
  Qed.

  Variable dbg : bool.

  (** [get_by_request] on a sorted vector: the stored response whose header list equals the request's,
      or the unique insertion position *)
  Lemma get_by_request_sorted (v : varied A) r : vsorted (vr_resps v) ->
    let t := headers_for_request (vr_refs v) r in
    (exists f, vfind t (vr_resps v) = Some f /\ In (f, t) (vr_resps v) /\ vr_get_by_request v r = Ok (Hit (f, t)))
    \/ (vfind t (vr_resps v) = None /\
        exists L G, vr_resps v = L ++ G /\ vr_get_by_request v r = Ok (Miss (length L) t) /\
                    Forall (fun q => hlt (snd q) t) L /\ Forall (fun q => hlt t (snd q)) G).
  Proof.
    intros S t. unfold vr_get_by_request. fold t.
    destruct (get_sorted v t S) as [(L & p & G & E & Ep & Ef & Eg) | (L & G & E & Ef & FL & FG & Eg)]; rewrite Eg.
    - left. exists (fst p). rewrite E at 3. rewrite nth_error_app2, Nat.sub_diag by lia. cbn [nth_error].
      destruct p as [f hc]. cbn [fst snd] in *. subst hc. repeat split; try assumption.
      rewrite E. apply in_elt.
    - right. split; [exact Ef|]. exists L, G. repeat split; assumption.
  Qed.

  Lemma headers_for_request_length refs r : length (headers_for_request refs r) = length refs.
  Proof. unfold headers_for_request. apply map_length. Qed.

  Lemma push_at (v : varied A) (L G : list elt) f t :
    vr_resps v = L ++ G -> length t = length (vr_refs v) ->
    vr_push dbg v f (length L) t = Ok (mkVaried (vr_refs v) (L ++ (f, t) :: G), (f, t)).
  Proof.
    intros E El. unfold vr_push. rewrite El, Nat.eqb_refl, andb_false_r. rewrite E, vec_insert_at.
    rewrite nth_error_app2, Nat.sub_diag by lia. reflexivity.
  Qed.

  Lemma vr_new_eq (f : A) r settings :
    vr_new dbg f r settings = Ok (mkVaried settings [(f, headers_for_request settings r)]).
  Proof.
    unfold vr_new, vr_get_by_request, vr_get. cbn [vr_refs vr_resps binary_search_by length Nat.eqb].
    unfold vr_push. cbn [vr_refs vr_resps]. rewrite headers_for_request_length, Nat.eqb_refl, andb_false_r.
    reflexivity.
  Qed.

  (** whatever the vector looks like (sorted or not), a search only ever returns an element whose
      header list *equals* the one searched for: the last comparison decides [Ok] *)
  Lemma get_hit_exact (v : varied A) other i :
    vr_get v other = Ok (BOk i) -> exists p, nth_error (vr_resps v) i = Some p /\ snd p = other.
  Proof.
    unfold vr_get, binary_search_by. destruct (Nat.eqb (length (vr_resps v)) 0); [discriminate|].
    destruct (bs_loop _ _ _ _) as [base|]; [|discriminate].
    destruct (nth_error (vr_resps v) base) as [x|] eqn:En; [|discriminate].
    destruct (cmp_hcoll (snd x) other) eqn:C; intros H; inversion H; subst.
    exists x. split; [exact En | apply (c_eq _ cmp_hcoll_ok); exact C].
  Qed.
  Lemma get_by_request_exact (v : varied A) r p :
    vr_get_by_request v r = Ok (Hit p) -> In p (vr_resps v) /\ snd p = headers_for_request (vr_refs v) r.
  Proof.
    unfold vr_get_by_request. destruct (vr_get v _) as [[i|i]| |] eqn:G; try discriminate.
    destruct (get_hit_exact _ _ _ G) as (q & En & Eq). rewrite En. intros H; inversion H; subst.
    split; [eapply nth_error_In; eassumption | exact Eq].
  Qed.

  (** a search never panics and a reported insertion position is inside the vector *)
  Lemma get_total (v : varied A) other : exists r, vr_get v other = Ok r.
  Proof.
    unfold vr_get. destruct (binary_search_by_total (fun pair : elt => cmp_hcoll (snd pair) other) (vr_resps v)) as [r ->].
    eauto.
  Qed.
End Vec.

(** ---- 3. defaults, the [vary] header ---- *)
Lemma default_applied_absent ref r :
  header_get (ru_name ref) r = None -> header_for ref r = (ru_name ref, ru_default ref).
Proof. unfold header_for. intros ->. reflexivity. Qed.
Lemma default_applied_nontext ref r v :
  header_get (ru_name ref) r = Some v -> to_str_ok v = false -> header_for ref r = (ru_name ref, ru_default ref).
Proof. unfold header_for. intros -> ->. reflexivity. Qed.
Lemma transformed_when_text ref r v :
  header_get (ru_name ref) r = Some v -> to_str_ok v = true -> header_for ref r = (ru_name ref, ru_xf ref v).
Proof. unfold header_for. intros -> ->. reflexivity. Qed.

Lemma header_for_name ref r : fst (header_for ref r) = ru_name ref.
Proof. unfold header_for. destruct (header_get _ _) as [v|]; [destruct (to_str_ok v)|]; reflexivity. Qed.
Lemma headers_for_request_names refs r : map fst (headers_for_request refs r) = map ru_name refs.
Proof.
  unfold headers_for_request. rewrite map_map. apply map_ext. intros ref. apply header_for_name.
Qed.

Lemma get_header_names (hc : hcoll) nr :
  get_header hc nr = (if nr then B "accept-encoding" else B "accept-encoding, range")
                     ++ concat (map (fun n => B ", " ++ n) (map fst hc)).
Proof. unfold get_header. rewrite map_map. reflexivity. Qed.

Lemma assoc_app_none k l1 l2 : assoc k l1 = None -> assoc k (l1 ++ l2) = assoc k l2.
Proof.
  induction l1 as [|[k' v] l1 IH]; cbn [assoc app]; [reflexivity|].
  destruct (beq k k'); [discriminate | exact IH].
Qed.
Lemma assoc_filter_neq k l : assoc k (filter (fun p => negb (beq (fst p) k)) l) = None.
Proof.
  induction l as [|[k' v] l IH]; cbn [filter assoc fst]; [reflexivity|].
  destruct (beq k' k) eqn:E; cbn [negb]; [exact IH|].
  cbn [assoc]. destruct (beq k k') eqn:E2; [|exact IH].
  apply beq_eq in E2. subst. rewrite beq_refl in E. discriminate.
Qed.
Lemma assoc_hm_insert n v hs : assoc n (hm_insert n v hs) = Some v.
Proof.
  unfold hm_insert. rewrite assoc_app_none by apply assoc_filter_neq. cbn [assoc]. rewrite beq_refl. reflexivity.
Qed.
Lemma filter_id_assoc_none n (hs : list (bytes * bytes)) :
  assoc n hs = None -> filter (fun p => negb (beq (fst p) n)) hs = hs.
Proof.
  induction hs as [|[k v] hs IH]; cbn [assoc filter fst]; [reflexivity|].
  destruct (beq n k) eqn:E; [discriminate|]. intros H.
  destruct (beq k n) eqn:E2.
  - apply beq_eq in E2. subst. rewrite beq_refl in E. discriminate.
  - cbn [negb]. rewrite IH by exact H. reflexivity.
Qed.

(** what [apply_header] leaves in the response: a non-empty body carries exactly
    [vary: accept-encoding, range, <rule names in rule order>]; an empty one is left alone *)
Lemma apply_header_vary hs body refs r :
  body <> [] ->
  assoc (B "vary") (apply_header hs body (headers_for_request refs r) false)
  = Some (B "accept-encoding, range" ++ concat (map (fun ru => B ", " ++ ru_name ru) refs)).
Proof.
  intros Hb. unfold apply_header. destruct body as [|b0 body]; [congruence|].
  cbn [andb]. rewrite assoc_hm_insert, get_header_names, headers_for_request_names, map_map. reflexivity.
Qed.
Lemma apply_header_empty hs hc s : apply_header hs [] hc s = hs.
Proof. reflexivity. Qed.

(** ---- 4. the finite map under the entries ---- *)
Section PC.
  Context {E : Type}.
  Lemma pc_find_remove k k' (c : pcache E) :
    pc_find k (pc_remove k' c) = if key_eqb k k' then None else pc_find k c.
  Proof.
    induction c as [|[k0 e0] c IH]; cbn [pc_remove pc_find].
    - destruct (key_eqb k k'); reflexivity.
    - destruct (key_eqb k' k0) eqn:E0.
      + rewrite IH. destruct (key_eqb k k') eqn:E1; [reflexivity|].
        apply key_eqb_eq in E0. subst k0. rewrite E1. reflexivity.
      + cbn [pc_find]. rewrite IH. destruct (key_eqb k k0) eqn:E2; [|reflexivity].
        apply key_eqb_eq in E2. subst k0.
        destruct (key_eqb k k') eqn:E1; [|reflexivity].
        apply key_eqb_eq in E1. subst k'. rewrite key_eqb_refl in E0. discriminate.
  Qed.
  Lemma pc_find_insert k k' e (c : pcache E) :
    pc_find k (pc_insert k' e c) = if key_eqb k k' then Some e else pc_find k c.
  Proof.
    unfold pc_insert. cbn [pc_find]. destruct (key_eqb k k') eqn:Ek; [reflexivity|].
    rewrite pc_find_remove, Ek. reflexivity.
  Qed.
End PC.

Definition kpath (k : key) : bytes := match k with KPath p => p | KPathQuery s i => firstn i s end.
Lemma kpath_pq r : kpath (key_pq r) = rq_path r.
Proof. unfold key_pq. pose proof (path_query_fst r) as H. destruct (path_query r) as [s i]. exact H. Qed.
Lemma kpath_p r : kpath (key_p r) = rq_path r.
Proof. reflexivity. Qed.
Lemma kpath_insert_key r f : kpath (insert_key r f) = rq_path r.
Proof. unfold insert_key. destruct (f_spref f =? SP_QUERY); [apply kpath_pq | apply kpath_p]. Qed.

(** ---- 5. every history: the invariant, no panic, what is served ---- *)
(** what the cache layer reads off the URI that is looked up is what the real request carries: an internal override URI
    replaces path and query, never the method or a header *)
Lemma lreq_same q :
  rq_method (lreq q) = rq_method (fst q) /\ rq_headers (lreq q) = rq_headers (fst q) /\
  (snd q = None -> lreq q = fst q) /\
  (forall p qu, snd q = Some (p, qu) -> rq_path (lreq q) = p /\ rq_query (lreq q) = qu).
Proof.
  destruct q as [r [[p qu]|]]; unfold lreq; cbn [fst snd lookup_req rq_method rq_headers rq_path rq_query].
  - split; [reflexivity|]. split; [reflexivity|]. split; [discriminate|].
    intros p1 q1 H; inversion H; subst; split; reflexivity.
  - split; [reflexivity|]. split; [reflexivity|]. split; [reflexivity|]. intros; discriminate.
Qed.
Lemma lreq_headers_for refs q : headers_for_request refs (lreq q) = headers_for_request refs (fst q).
Proof.
  unfold headers_for_request. apply map_ext. intros ref. unfold header_for, header_get.
  rewrite (proj1 (proj2 (lreq_same q))). reflexivity.
Qed.
Lemma lreq_get_by_request {A} (v : varied A) q : vr_get_by_request v (lreq q) = vr_get_by_request v (fst q).
Proof. unfold vr_get_by_request. rewrite lreq_headers_for. reflexivity. Qed.
Lemma lreq_no_route r : lreq (no_route r) = r.
Proof. reflexivity. Qed.

Section Histories.
  Variable hstate : Type.
  Variable compute : hstate -> routed -> bool -> fat * hstate * list bytes.
  Variable cache_on : bool.
  Variable ims_on : bool.
  Variable parse_ims : bytes -> option Z.
  Variable sanitize_ok : request -> bool.
  Variable prime : request -> routed.
  Variable negotiate : request -> fat -> option (N * bytes).
  Variable rules_of : bytes -> list rule.
  Variable dbg : bool.

  Notation own := (own_tuple rules_of).
  Notation finishX := (finishV negotiate).
  Notation phase1 := (serveV_phase1 hstate cache_on ims_on parse_ims sanitize_ok prime negotiate).
  Notation phase2 := (serveV_phase2 hstate compute cache_on ims_on negotiate rules_of dbg).
  Notation serveX := (serveV hstate compute cache_on ims_on parse_ims sanitize_ok prime negotiate rules_of dbg).
  Notation stepX := (stepV hstate compute cache_on ims_on parse_ims sanitize_ok prime negotiate rules_of dbg).
  Notation runX := (runV hstate compute cache_on ims_on parse_ims sanitize_ok prime negotiate rules_of dbg).
  Notation run_stateX := (runV_state hstate compute cache_on ims_on parse_ims sanitize_ok prime negotiate rules_of dbg).

  (** [f] is a response the layer below produced for the request [q1] (a request and its override URI) *)
  Definition computed (f : fat) (q1 : routed) : Prop := exists hs1 ok1, fst (fst (compute hs1 q1 ok1)) = f.

  (** the entry under key [k]: sorted, not empty, built with the rules of the key's path, and every stored response was
      computed for a request that is cached under that path (its own, or the internal one a Prime gave it) with exactly
      the stored transformed list — the list the rules of THAT path make of its headers *)
  Definition entry_okV (k : key) (e : ventry) : Prop :=
    vsorted (vr_resps (ve_var e)) /\ vr_resps (ve_var e) <> [] /\ vr_refs (ve_var e) = rules_of (kpath k) /\
    forall f hc, In (f, hc) (vr_resps (ve_var e)) ->
      exists q1, computed f q1 /\ cpath q1 = kpath k /\ hc = headers_for_request (rules_of (kpath k)) (lreq q1).
  Definition InvV (c : vcache) : Prop := forall k e, pc_find k c = Some e -> entry_okV k e.

  Lemma InvV_nil : InvV [].
  Proof. intros k e H. discriminate. Qed.
  Lemma InvV_remove k c : InvV c -> InvV (pc_remove k c).
  Proof. intros H k0 e0. rewrite pc_find_remove. destruct (key_eqb k0 k); [discriminate | apply H]. Qed.
  Lemma InvV_insert k e c : InvV c -> entry_okV k e -> InvV (pc_insert k e c).
  Proof.
    intros H He k0 e0. rewrite pc_find_insert. destruct (key_eqb k0 k) eqn:Ek.
    - intros H0; inversion H0; subst. apply key_eqb_eq in Ek. subst. exact He.
    - apply H.
  Qed.

  Lemma vget_item_inv k c now res c' :
    vget_item k c now = (res, c') -> InvV c -> InvV c' /\ (forall e, res = Some e -> entry_okV k e).
  Proof.
    unfold vget_item. destruct (pc_find k c) as [e|] eqn:F.
    - destruct (vfresh e now); intros H I; inversion H; subst.
      + split; [exact I|]. intros e0 H0; inversion H0; subst. apply (I _ _ F).
      + split; [apply InvV_remove; exact I | discriminate].
    - intros H I; inversion H; subst. split; [exact I | discriminate].
  Qed.
  Lemma vlookup_inv r c now k res c' :
    vlookup r c now = ((k, res), c') -> InvV c ->
    InvV c' /\ kpath k = rq_path r /\ (forall e, res = Some e -> entry_okV k e).
  Proof.
    unfold vlookup. destruct (vget_item (key_pq r) c now) as [[e|] c1] eqn:G1.
    - intros H I; inversion H; subst. destruct (vget_item_inv _ _ _ _ _ G1 I) as [I1 E1].
      split; [exact I1|]. split; [apply kpath_pq | exact E1].
    - destruct (vget_item (key_p r) c1 now) as [res2 c2] eqn:G2.
      intros H I; inversion H; subst.
      destruct (vget_item_inv _ _ _ _ _ G1 I) as [I1 _].
      destruct (vget_item_inv _ _ _ _ _ G2 I1) as [I2 E2].
      split; [exact I2|]. split; [apply kpath_p | exact E2].
  Qed.
  Lemma vrelookup_inv k c now k' res c' :
    vrelookup k c now = ((k', res), c') -> InvV c ->
    InvV c' /\ kpath k' = kpath k /\ (forall e, res = Some e -> entry_okV k' e).
  Proof.
    unfold vrelookup. destruct (vget_item k c now) as [[e|] c1] eqn:G1.
    - intros H I; inversion H; subst. destruct (vget_item_inv _ _ _ _ _ G1 I) as [I1 E1]. auto.
    - destruct (vget_item_inv _ _ _ _ _ G1 I) as [I1 _] || idtac.
      destruct k as [p|s i].
      + intros H I; inversion H; subst. destruct (vget_item_inv _ _ _ _ _ G1 I) as [I1 _].
        split; [exact I1|]. split; [reflexivity | discriminate].
      + destruct (vget_item (KPath (firstn i s)) c1 now) as [res2 c2] eqn:G2.
        intros H I; inversion H; subst.
        destruct (vget_item_inv _ _ _ _ _ G1 I) as [I1 _].
        destruct (vget_item_inv _ _ _ _ _ G2 I1) as [I2 E2].
        split; [exact I2|]. split; [reflexivity | exact E2].
  Qed.

  Lemma computed_by hs q ok f hs' lg : compute hs q ok = (f, hs', lg) -> computed f q.
  Proof. intros H. exists hs, ok. rewrite H. reflexivity. Qed.

  (** what a request that ran the handler gets: the response computed for itself, labelled with its own
      transformed header list — the one the rules of the path it is cached under make of its headers *)
  Definition own_reply (q : routed) (rp : reply) : Prop :=
    exists f lm cached, computed f q /\ rp = finishX (fst q) f (own (lreq q)) lm cached.

  Lemma new_and_cache_ok c1 hs' now q f lg lm_of cached :
    InvV c1 -> computed f q ->
    exists st' rp, new_and_cache hstate cache_on negotiate rules_of dbg c1 hs' now q f lg lm_of cached = Ok (st', rp, lg, [q])
                   /\ InvV (fst st') /\ snd st' = hs' /\ rp = finishX (fst q) f (own (lreq q)) (lm_of f) cached.
  Proof.
    intros I Cf. unfold new_and_cache. cbv zeta. rewrite vr_new_eq. cbn [vr_first vr_resps].
    destruct (may_store cache_on (rq_method (lreq q)) f).
    - eexists; eexists. split; [reflexivity|]. cbn [fst snd]. split; [|split; reflexivity].
      apply InvV_insert; [exact I|]. unfold entry_okV. cbn [ve_var vr_resps vr_refs]. rewrite kpath_insert_key.
      split; [|split; [|split]].
      + constructor; constructor.
      + discriminate.
      + reflexivity.
      + intros f0 hc [Eq|[]]. inversion Eq; subst. exists q. split; [exact Cf | split; reflexivity].
    - eexists; eexists. split; [reflexivity|]. cbn [fst snd]. split; [exact I | split; reflexivity].
  Qed.

  Lemma missV_ok c1 hs now q ok :
    InvV c1 ->
    exists st' rp lg, missV hstate compute cache_on ims_on negotiate rules_of dbg c1 hs now q ok = Ok (st', rp, lg, [q])
                      /\ InvV (fst st') /\ own_reply q rp
                      /\ snd st' = snd (fst (compute hs q ok)) /\ lg = snd (compute hs q ok).
  Proof.
    intros I. unfold missV. destruct (compute hs q ok) as [[f hs'] lg] eqn:C.
    destruct (new_and_cache_ok c1 hs' now q f lg (fun f0 => ims_on && wants_cache cache_on (rq_method (lreq q)) f0) false I
                (computed_by _ _ _ _ _ _ C)) as (st' & rp & E & I' & Es & Er).
    exists st', rp, lg. rewrite E. cbn [fst snd]. split; [reflexivity|]. split; [exact I'|]. split; [|split; [exact Es | reflexivity]].
    exists f, (ims_on && wants_cache cache_on (rq_method (lreq q)) f), false. split; [eapply computed_by; eassumption | exact Er].
  Qed.

  (** the suspended half of a request is consistent with *some* earlier cache *)
  Definition parked_ok (p : parked) : Prop :=
    match p with
    | PkMiss q ok => True
    | PkVary q ok k position headers => kpath k = cpath q /\ headers = own (lreq q)
    end.
  Definition parked_req (p : parked) : routed := match p with PkMiss q _ => q | PkVary q _ _ _ _ => q end.
  Definition parked_flag (p : parked) : bool := match p with PkMiss _ ok => ok | PkVary _ ok _ _ _ => ok end.

  (** [stale_position_safe] (repaired code): phase 2 of a request may run against *any* cache that
      satisfies the invariant — not the one its phase 1 saw —: it does not panic, keeps every vector
      sorted, and answers with the response computed for this very request. *)
  Lemma phase2_ok c hs now p :
    InvV c -> parked_ok p ->
    exists st' rp lg, phase2 c hs now p = Ok (st', rp, lg, [parked_req p])
                      /\ InvV (fst st') /\ own_reply (parked_req p) rp
                      /\ snd st' = snd (fst (compute hs (parked_req p) (parked_flag p)))
                      /\ lg = snd (compute hs (parked_req p) (parked_flag p)).
  Proof.
    intros I Hp. destruct p as [q ok | q ok k position headers]; cbn [serveV_phase2 parked_req parked_flag].
    - apply missV_ok. exact I.
    - destruct Hp as [Hk Hh]. unfold vary_missing. cbv zeta. set (r := lreq q) in *.
      destruct (compute hs q ok) as [[f hs'] lg] eqn:C. cbn [fst snd].
      pose proof (computed_by _ _ _ _ _ _ C) as Cf.
      destruct (vrelookup k c now) as [[k' found'] c2] eqn:L.
      destruct (vrelookup_inv _ _ _ _ _ _ L I) as (I2 & Hk' & Hf).
      destruct found' as [e'|].
      + destruct (Hf e' eq_refl) as (S & Hne & Hrefs & Hall).
        assert (Hp' : kpath k' = rq_path r) by (unfold cpath in Hk; fold r in Hk; congruence).
        destruct (get_by_request_sorted (ve_var e') r S) as [(f0 & _ & _ & Eg) | (_ & LL & G & El & Eg & FL & FG)]; rewrite Eg.
        * exists (c2, hs'), (finishX (fst q) f headers ims_on true), lg. cbn [fst snd].
          split; [reflexivity|]. split; [exact I2|]. split; [|split; reflexivity].
          exists f, ims_on, true. subst headers. split; [exact Cf | reflexivity].
        * destruct (wants_cache cache_on (rq_method r) f && (negb (f_spref f =? SP_QUERY) || key_has_query k')
                    && negb (kvarn_none f)).
          2:{ (* the variant is not admitted: served, the cache left as it is *)
              exists (c2, hs'), (finishX (fst q) f (headers_for_request (vr_refs (ve_var e')) r) ims_on true), lg. cbn [fst snd].
              split; [reflexivity|]. split; [exact I2|]. split; [|split; reflexivity].
              exists f, ims_on, true. split; [exact Cf|]. rewrite Hrefs, Hp'. reflexivity. }
          rewrite (push_at dbg (ve_var e') LL G f _ El) by apply headers_for_request_length.
          eexists; eexists; exists lg. split; [reflexivity|]. cbn [fst snd]. split; [|split; [|split; reflexivity]].
          -- destruct (N.of_nat (length (f_body f)) <? size_limit); [|exact I2].
             apply InvV_insert; [exact I2|]. unfold entry_okV. cbn [ve_var vr_resps vr_refs].
             split; [|split; [|split]].
             ++ apply insert_sorted; [rewrite <- El; exact S | exact FL | exact FG].
             ++ destruct LL; discriminate.
             ++ exact Hrefs.
             ++ intros f1 hc Hin. apply in_app_or in Hin. destruct Hin as [Hin | [Eq | Hin]].
                ** apply Hall. rewrite El. apply in_or_app. left. exact Hin.
                ** inversion Eq; subst f1 hc. exists q. rewrite Hrefs. split; [exact Cf | split; [unfold cpath; fold r; congruence | reflexivity]].
                ** apply Hall. rewrite El. apply in_or_app. right. exact Hin.
          -- exists f, ims_on, true. split; [exact Cf|]. rewrite Hrefs, Hp'. reflexivity.
      + destruct (new_and_cache_ok c2 hs' now q f lg (fun _ => ims_on) true I2 Cf) as (st' & rp & E & I' & Es & Er).
        exists st', rp, lg. rewrite E. split; [reflexivity|]. split; [exact I'|]. split; [|split; [exact Es | reflexivity]].
        exists f, ims_on, true. split; [exact Cf | exact Er].
  Qed.

  (** a reply served from the cache: the entry holds a response that was computed for a request cached under the same
      path with an *equal* transformed header list (under the rules of that path), and the reply is that stored response —
      or, since the repair 832d735 only then, the bare 304 that vouches for it *)
  Definition cached_reply (q : routed) (rp : reply) : Prop :=
    exists f q1, computed f q1 /\ cpath q1 = cpath q /\ own (lreq q1) = own (lreq q) /\
      ((rp_status rp = 304 /\ rp_body rp = [] /\ rp_headers rp = []) \/ rp = finishX (fst q) f (own (lreq q)) ims_on true).

  Lemma phase1_ok c hs now r0 :
    InvV c ->
    (exists c1 rp, phase1 (c, hs) now r0 = Ok (inl ((c1, hs), rp, [], [])) /\ InvV c1 /\ cached_reply (prime r0) rp)
    \/ (exists c1 p, phase1 (c, hs) now r0 = Ok (inr (c1, p)) /\ InvV c1 /\ parked_ok p /\
                     parked_req p = prime r0 /\ parked_flag p = sanitize_ok r0).
  Proof.
    intros I. unfold serveV_phase1, serveV_phase1_gen. cbv zeta. set (q := prime r0). set (r := lreq q). set (ok := sanitize_ok r0).
    destruct cache_on; cbn [negb].
    2:{ right. exists c, (PkMiss q ok). split; [reflexivity|]. split; [exact I|]. cbn. auto. }
    destruct (vlookup r c now) as [[k found0] c1] eqn:L.
    destruct (vlookup_inv _ _ _ _ _ _ L I) as (I1 & Hk & Hf).
    destruct found0 as [e|].
    2:{ right. exists c1, (PkMiss q ok). split; [reflexivity|]. split; [exact I1|]. cbn. auto. }
    destruct (ok && get_or_head (rq_method r)).
    2:{ right. exists c1, (PkMiss q ok). split; [reflexivity|]. split; [exact I1|]. cbn. auto. }
    cbn [orb].
    destruct (Hf e eq_refl) as (S & Hne & Hrefs & Hall).
    destruct (get_by_request_sorted (ve_var e) r S) as [(f0 & _ & Hin & Eg) | (_ & LL & G & El & Eg & FL & FG)]; rewrite Eg.
    - left. destruct (Hall _ _ Hin) as (q1 & C1 & P1 & T1).
      assert (Ho : own (lreq q1) = own r).
      { rewrite Hrefs, Hk in *. unfold own_tuple. unfold cpath in P1. rewrite P1. symmetry. exact T1. }
      assert (P1' : cpath q1 = cpath q) by (unfold cpath at 2; fold r; congruence).
      destruct (match (if ims_on then match header (B "if-modified-since") r with Some v => parse_ims v | None => None end else None)
                with Some t => ims_fresh t (ve_created e) | None => false end); cbn [andb].
      + eexists; eexists. split; [reflexivity|]. split; [exact I1|].
        exists f0, q1. split; [exact C1|]. split; [exact P1'|]. split; [exact Ho|]. left. cbn. auto.
      + eexists; eexists. split; [reflexivity|]. split; [exact I1|].
        exists f0, q1. rewrite Hrefs, Hk in *. split; [exact C1|]. split; [exact P1'|]. split; [exact Ho|]. right. reflexivity.
    - right. rewrite andb_false_r. exists c1, (PkVary q ok k (length LL) (headers_for_request (vr_refs (ve_var e)) r)).
      split; [reflexivity|]. split; [exact I1|]. cbn [parked_ok parked_req parked_flag].
      split; [|split; reflexivity]. split; [exact Hk|]. rewrite Hrefs, Hk. reflexivity.
  Qed.

  (** one request, nothing in between *)
  Definition served_ok (q : routed) (rp : reply) (calls : list routed) : Prop :=
    (calls = [] /\ cached_reply q rp) \/ (calls = [q] /\ own_reply q rp).

  (** [served_ok] in terms of the request's own headers and the rules of the path it is cached under *)
  Lemma own_lreq q : own (lreq q) = headers_for_request (rules_of (cpath q)) (fst q).
  Proof. unfold own_tuple, cpath. apply lreq_headers_for. Qed.
  Lemma served_ok_spelled q rp calls :
    served_ok q rp calls ->
    let rules := rules_of (cpath q) in
    let mine := headers_for_request rules (fst q) in
    (calls = [] /\ exists f q1 hs1 ok1,
        fst (fst (compute hs1 q1 ok1)) = f /\ cpath q1 = cpath q /\ headers_for_request rules (fst q1) = mine /\
        ((rp_status rp = 304 /\ rp_body rp = [] /\ rp_headers rp = []) \/ rp = finishX (fst q) f mine ims_on true))
    \/ (calls = [q] /\ exists f hs1 ok1 lm cached,
        fst (fst (compute hs1 q ok1)) = f /\ rp = finishX (fst q) f mine lm cached).
  Proof.
    intros [[Hc (f & q1 & (hs1 & ok1 & C1) & P1 & O1 & Hr)] | [Hc (f & lm & cached & (hs1 & ok1 & C1) & Hr)]]; cbv zeta.
    - left. split; [exact Hc|]. exists f, q1, hs1, ok1. split; [exact C1|]. split; [exact P1|].
      rewrite !own_lreq in O1. rewrite P1 in O1. split; [exact O1|].
      rewrite own_lreq in Hr. exact Hr.
    - right. split; [exact Hc|]. exists f, hs1, ok1, lm, cached. split; [exact C1|]. rewrite own_lreq in Hr. exact Hr.
  Qed.

  Lemma serveV_ok c hs now r0 :
    InvV c ->
    exists st' rp lg calls, serveX (c, hs) now r0 = Ok (st', rp, lg, calls) /\ InvV (fst st') /\ served_ok (prime r0) rp calls.
  Proof.
    intros I. unfold serveV.
    destruct (phase1_ok c hs now r0 I) as [(c1 & rp & E & I1 & Hc) | (c1 & p & E & I1 & Hp & Hr & _)]; rewrite E.
    - exists (c1, hs), rp, [], []. split; [reflexivity|]. split; [exact I1 | left; split; [reflexivity | exact Hc]].
    - cbn [snd]. destruct (phase2_ok c1 hs now p I1 Hp) as (st' & rp & lg & E2 & I2 & Ho & _).
      exists st', rp, lg, [parked_req p]. rewrite E2, Hr in *. split; [reflexivity|]. split; [exact I2 | right; split; [reflexivity | exact Ho]].
  Qed.

  Lemma stepV_ok c hs now o :
    InvV c ->
    exists st' now' ob calls, stepX (c, hs) now o = Ok (st', now', ob, calls) /\ InvV (fst st') /\
      match o, ob with
      | OReq r0, ObReply rp _ => served_ok (prime r0) rp calls
      | OReq _, _ => False
      | _, _ => calls = []
      end.
  Proof.
    intros I. destruct o as [r | r | | ms]; cbn [stepV].
    - destruct (serveV_ok c hs now r I) as (st' & rp & lg & calls & E & I' & Hs). rewrite E.
      exists st', now, (ObReply rp lg), calls. split; [reflexivity|]. split; assumption.
    - eexists; eexists; eexists; eexists. split; [reflexivity|]. cbn [fst]. split; [|reflexivity].
      unfold vclear_page, vclear_uri. destruct (redirect_target r); repeat apply InvV_remove; exact I.
    - eexists; eexists; eexists; eexists. split; [reflexivity|]. cbn [fst]. split; [apply InvV_nil | reflexivity].
    - eexists; eexists; eexists; eexists. split; [reflexivity|]. cbn [fst]. split; [exact I | reflexivity].
  Qed.

  (** every observation of a history *)
  Definition obs_ok (o : op) (oc : obs * list routed) : Prop :=
    match o, fst oc with
    | OReq r0, ObReply rp _ => served_ok (prime r0) rp (snd oc)
    | OReq _, _ => False
    | _, _ => snd oc = []
    end.

  Lemma runV_ok ops : forall c hs now,
    InvV c ->
    exists l st' now', runX (c, hs) now ops = Ok l /\ run_stateX (c, hs) now ops = Ok (st', now') /\
                       InvV (fst st') /\ Forall2 obs_ok ops l.
  Proof.
    induction ops as [|o ops IH]; intros c hs now I; cbn [runV runV_state].
    - exists [], (c, hs), now. split; [reflexivity|]. split; [reflexivity|]. split; [exact I | constructor].
    - destruct (stepV_ok c hs now o I) as ([c' hs'] & now' & ob & calls & E & I' & Ho). rewrite E.
      destruct (IH c' hs' now' I') as (l & st'' & now'' & E1 & E2 & I'' & F). rewrite E1, E2.
      exists ((ob, calls) :: l), st'', now''. split; [reflexivity|]. split; [reflexivity|]. split; [exact I''|].
      constructor; [|exact F]. unfold obs_ok. cbn [fst snd]. exact Ho.
  Qed.
End Histories.

(** ---- 6. sorted means: no two stored variants with equal header lists ---- *)
Lemma vsorted_NoDup {A} (l : list (A * hcoll)) : vsorted l -> NoDup (map snd l).
Proof.
  induction 1 as [|p l S IH F]; cbn [map]; constructor; [|exact IH].
  intros Hin. apply in_map_iff in Hin as (q & Eq & Hq). rewrite Forall_forall in F.
  specialize (F _ Hq). rewrite Eq in F. exact (hlt_irrefl _ F).
Qed.

(** ---- 7. the [vary] header of a reply ---- *)
Lemma finishV_vary negotiate rules_of r lr f lm cached :
  let rp := finishV negotiate r f (own_tuple rules_of lr) lm cached in
  (rp_body rp <> [] ->
   assoc (B "vary") (rp_headers rp)
   = Some (B "accept-encoding, range" ++ concat (map (fun ru => B ", " ++ ru_name ru) (rules_of (rq_path lr)))))
  /\ (rp_body rp = [] -> assoc (B "vary") (rp_headers rp)
                         = match negotiate r f with Some _ => None | None => assoc (B "vary") (f_headers f) end).
Proof.
  unfold finishV, own_tuple. destruct (negotiate r f) as [[st body]|]; cbn [rp_body rp_headers]; split; intros Hb.
  - apply apply_header_vary. exact Hb.
  - rewrite Hb. reflexivity.
  - apply apply_header_vary. exact Hb.
  - rewrite Hb. reflexivity.
Qed.

(** every rule header is a whole element of the list that follows the fixed part *)
Lemma concat_names_split (g : rule -> bytes) (rules : list rule) ru :
  In ru rules -> exists l1 l2, concat (map g rules) = concat (map g l1) ++ g ru ++ concat (map g l2) /\ rules = l1 ++ ru :: l2.
Proof.
  intros Hin. apply in_split in Hin as (l1 & l2 & ->). exists l1, l2. split; [|reflexivity].
  rewrite map_app, concat_app. cbn [map concat]. reflexivity.
Qed.
Lemma finishV_lists_rule negotiate rules_of r lr f lm cached ru :
  let rp := finishV negotiate r f (own_tuple rules_of lr) lm cached in
  rp_body rp <> [] -> In ru (rules_of (rq_path lr)) ->
  exists before after,
    assoc (B "vary") (rp_headers rp) = Some (B "accept-encoding, range" ++ before ++ B ", " ++ ru_name ru ++ after) /\
    (after = [] \/ exists rest, after = B ", " ++ rest).
Proof.
  intros rp Hb Hin. subst rp. rewrite (proj1 (finishV_vary negotiate rules_of r lr f lm cached) Hb).
  destruct (concat_names_split (fun ru0 => B ", " ++ ru_name ru0) _ _ Hin) as (l1 & l2 & E & _).
  exists (concat (map (fun ru0 => B ", " ++ ru_name ru0) l1)), (concat (map (fun ru0 => B ", " ++ ru_name ru0) l2)).
  split; [apply f_equal; apply f_equal; etransitivity; [exact E|]; rewrite <- !app_assoc; reflexivity|].
  destruct l2 as [|ru2 l2]; [left; reflexivity | right].
  exists (ru_name ru2 ++ concat (map (fun ru0 => B ", " ++ ru_name ru0) l2)). cbn [map concat]. rewrite <- app_assoc. reflexivity.
Qed.

(** ---- 8. the server refines the finite map (page, transformed header list) -> response ---- *)
Lemma hc_eqb_sym a c : hc_eqb a c = hc_eqb c a.
Proof.
  destruct (hc_eqb a c) eqn:E1, (hc_eqb c a) eqn:E2; try reflexivity.
  - apply hc_eqb_eq in E1. subst. rewrite hc_eqb_refl in E2. discriminate.
  - apply hc_eqb_eq in E2. subst. rewrite hc_eqb_refl in E1. discriminate.
Qed.
Lemma beq_sym a c : beq a c = beq c a.
Proof.
  destruct (beq a c) eqn:E1, (beq c a) eqn:E2; try reflexivity.
  - apply beq_eq in E1. subst. rewrite beq_refl in E2. discriminate.
  - apply beq_eq in E2. subst. rewrite beq_refl in E1. discriminate.
Qed.

Lemma seen_find_nopage p t s : seen_has_page p s = false -> seen_find p t s = None.
Proof.
  induction s as [|[[p' t'] f] s IH]; cbn [seen_has_page existsb seen_find fst]; [reflexivity|].
  intros H. apply orb_false_iff in H as [H1 H2]. rewrite H1. cbn [andb]. apply IH. exact H2.
Qed.
Lemma seen_has_page_clear_same p s : seen_has_page p (seen_clear p s) = false.
Proof.
  unfold seen_clear. induction s as [|[[p' t'] f] s IH]; cbn [filter fst]; [reflexivity|].
  destruct (beq p p') eqn:E; cbn [negb]; [exact IH|].
  cbn [seen_has_page existsb fst]. rewrite E. exact IH.
Qed.
Lemma seen_has_page_clear_other p q s : beq q p = false -> seen_has_page q (seen_clear p s) = seen_has_page q s.
Proof.
  intros Hq. unfold seen_clear. induction s as [|[[p' t'] f] s IH]; cbn [filter fst]; [reflexivity|].
  destruct (beq p p') eqn:E; cbn [negb].
  - cbn [seen_has_page existsb fst]. apply beq_eq in E. subst p'. rewrite Hq. exact IH.
  - cbn [seen_has_page existsb fst]. f_equal. exact IH.
Qed.
Lemma seen_find_clear_other p q t s : beq q p = false -> seen_find q t (seen_clear p s) = seen_find q t s.
Proof.
  intros Hq. unfold seen_clear. induction s as [|[[p' t'] f] s IH]; cbn [filter fst]; [reflexivity|].
  destruct (beq p p') eqn:E; cbn [negb].
  - cbn [seen_find]. apply beq_eq in E. subst p'. rewrite Hq. exact IH.
  - cbn [seen_find]. rewrite IH. reflexivity.
Qed.

Section RefinesMap.
  Variable hstate : Type.
  Variable compute : hstate -> routed -> bool -> fat * hstate * list bytes.
  Variable ims_on : bool.
  Variable parse_ims : bytes -> option Z.
  Variable sanitize_ok : request -> bool.
  Variable prime : request -> routed.
  Variable negotiate : request -> fat -> option (N * bytes).
  Variable rules_of : bytes -> list rule.
  Variable dbg : bool.

  (** every GET/HEAD response of the layer below is cacheable, under the path key, for ever *)
  Definition always_stored : Prop := forall hs q, get_or_head (rq_method (lreq q)) = true ->
    let f := fst (fst (compute hs q true)) in
    may_store true (rq_method (lreq q)) f = true /\ lifetime_ms f = None /\ (f_spref f =? SP_QUERY) = false.
  Hypothesis Hstore : always_stored.

  Definition req_ok (r0 : request) : Prop :=
    sanitize_ok r0 = true /\ (ims_on = false \/ header (B "if-modified-since") (lreq (prime r0)) = None).
  Definition op_ok (o : op) : Prop := match o with OReq r0 => req_ok r0 | _ => True end.

  Notation serveX := (serveV hstate compute true ims_on parse_ims sanitize_ok prime negotiate rules_of dbg).
  Notation stepX := (stepV hstate compute true ims_on parse_ims sanitize_ok prime negotiate rules_of dbg).
  Notation runX := (runV hstate compute true ims_on parse_ims sanitize_ok prime negotiate rules_of dbg).
  Notation specServe := (spec_serve hstate compute true ims_on prime negotiate rules_of).
  Notation specStep := (spec_step hstate compute true ims_on prime negotiate rules_of).
  Notation specRun := (spec_run hstate compute true ims_on prime negotiate rules_of).

  Definition page_rel (p : bytes) (e : ventry) (s : seen_t) : Prop :=
    vsorted (vr_resps (ve_var e)) /\ vr_refs (ve_var e) = rules_of p /\ ve_life e = None /\
    seen_has_page p s = true /\ forall t, vfind t (vr_resps (ve_var e)) = seen_find p t s.
  Definition RelS (c : vcache) (s : seen_t) : Prop :=
    (forall s0 i, pc_find (KPathQuery s0 i) c = None) /\
    forall p, match pc_find (KPath p) c with
              | Some e => page_rel p e s
              | None => seen_has_page p s = false
              end.

  Lemma RelS_nil : RelS [] [].
  Proof. split; [reflexivity | intros p; reflexivity]. Qed.

  Lemma key_pq_is_pq r : exists s0 i, key_pq r = KPathQuery s0 i.
  Proof. unfold key_pq. destruct (path_query r) as [s0 i]. eauto. Qed.

  Lemma vlookup_rel c s r now : RelS c s ->
    vlookup r c now = ((key_p r, pc_find (KPath (rq_path r)) c), c).
  Proof.
    intros [Hpq Hp]. unfold vlookup, vget_item.
    destruct (key_pq_is_pq r) as (s0 & i & ->). rewrite Hpq.
    unfold key_p. specialize (Hp (rq_path r)).
    destruct (pc_find (KPath (rq_path r)) c) as [e|]; [|reflexivity].
    destruct Hp as (_ & _ & Hl & _). unfold vfresh. rewrite Hl. reflexivity.
  Qed.

  Lemma RelS_insert c s p e t f :
    RelS c s ->
    vsorted (vr_resps (ve_var e)) -> vr_refs (ve_var e) = rules_of p -> ve_life e = None ->
    (forall t', vfind t' (vr_resps (ve_var e)) = if hc_eqb t t' then Some f else seen_find p t' s) ->
    RelS (pc_insert (KPath p) e c) ((p, t, f) :: s).
  Proof.
    intros [Hpq Hp] S R Lf Hf. split.
    - intros s0 i. rewrite pc_find_insert. cbn [key_eqb]. apply Hpq.
    - intros q. rewrite pc_find_insert. cbn [key_eqb].
      destruct (beq q p) eqn:Eq.
      + apply beq_eq in Eq. subst q. unfold page_rel. split; [exact S|]. split; [exact R|]. split; [exact Lf|].
        split.
        * cbn [seen_has_page existsb fst]. rewrite beq_refl. reflexivity.
        * intros t'. rewrite Hf. cbn [seen_find]. rewrite beq_refl. cbn [andb]. rewrite (hc_eqb_sym t' t). reflexivity.
      + specialize (Hp q). destruct (pc_find (KPath q) c) as [e0|].
        * destruct Hp as (S0 & R0 & L0 & H0 & F0). unfold page_rel. split; [exact S0|]. split; [exact R0|]. split; [exact L0|].
          split.
          -- cbn [seen_has_page existsb fst]. rewrite Eq. exact H0.
          -- intros t'. cbn [seen_find]. rewrite Eq. cbn [andb]. apply F0.
        * cbn [seen_has_page existsb fst]. rewrite Eq. exact Hp.
  Qed.

  Lemma serve_refines c s hs now r0 :
    RelS c s -> req_ok r0 ->
    exists c', serveX (c, hs) now r0
               = Ok ((c', snd (fst (fst (fst (specServe s hs r0)))),
                      snd (fst (fst (specServe s hs r0))), snd (fst (specServe s hs r0))), snd (specServe s hs r0))
               /\ RelS c' (fst (fst (fst (fst (specServe s hs r0))))).
  Proof.
    intros HR [Hok Hims].
    unfold serveV, serveV_phase1, serveV_phase1_gen, spec_serve. cbv zeta. cbn [negb]. rewrite Hok.
    set (q := prime r0) in *. set (r := lreq q) in *.
    rewrite (vlookup_rel c s r now HR). cbn [andb].
    pose proof HR as [Hpq Hp]. specialize (Hp (rq_path r)).
    destruct (get_or_head (rq_method r)) eqn:GH; cbn [andb].
    2:{ (* not GET/HEAD: computed, never stored *)
      assert (Hms : forall f, may_store true (rq_method r) f = false).
      { intros f. unfold may_store, wants_cache. rewrite GH, !andb_false_r. reflexivity. }
      assert (Hw : forall f, wants_cache true (rq_method r) f = false).
      { intros f. unfold wants_cache. rewrite GH, !andb_false_r. reflexivity. }
      assert (E : forall c1, missV hstate compute true ims_on negotiate rules_of dbg c1 hs now q true
                  = Ok ((c1, snd (fst (compute hs q true))),
                        finishV negotiate (fst q) (fst (fst (compute hs q true))) (own_tuple rules_of r) false false,
                        snd (compute hs q true), [q])).
      { intros c1. unfold missV, new_and_cache. cbv zeta. fold r. destruct (compute hs q true) as [[f hs'] lg]. cbn [fst snd].
        rewrite vr_new_eq. cbn [vr_first vr_resps]. rewrite Hms, Hw, andb_false_r. reflexivity. }
      destruct (pc_find (KPath (rq_path r)) c) as [e|]; cbn [serveV_phase2 snd];
        rewrite E; destruct (compute hs q true) as [[f hs'] lg]; cbn [fst snd]; rewrite !andb_false_r;
        exists c; (split; [reflexivity | exact HR]). }
    destruct (pc_find (KPath (rq_path r)) c) as [e|] eqn:F.
    - (* the page has an entry *)
      destruct Hp as (S & Hrefs & Hl & Hhas & Hfind).
      assert (Hno : (match (if ims_on then match header (B "if-modified-since") r with
                                           | Some v => parse_ims v | None => None end else None) with
                     | Some t => ims_fresh t (ve_created e) | None => false end) = false).
      { destruct Hims as [-> | Hh]; [reflexivity|]. fold r in Hh. rewrite Hh. destruct ims_on; reflexivity. }
      rewrite Hno. clear Hno. cbn [andb].
      assert (Ht : headers_for_request (vr_refs (ve_var e)) r = own_tuple rules_of r).
      { rewrite Hrefs. reflexivity. }
      destruct (get_by_request_sorted (ve_var e) r S) as [(f0 & Ef & _ & Eg) | (En & LL & G & El & Eg & FL & FG)];
        rewrite Eg; rewrite Ht in *.
      + (* hit *)
        rewrite <- Hfind, Ef. cbn [fst snd]. exists c. split; [reflexivity | exact HR].
      + (* this variant is missing: compute, push, re-insert *)
        rewrite <- Hfind, En. cbn [serveV_phase2 snd]. unfold vary_missing. cbv zeta. fold r.
        pose proof (Hstore hs q GH) as HS. fold r in HS.
        destruct (compute hs q true) as [[f hs'] lg] eqn:C. cbn [fst snd] in *.
        destruct HS as (Hms & Hlf & Hq).
        unfold vrelookup, vget_item. cbn [key_p]. unfold key_p. rewrite F. unfold vfresh. rewrite Hl.
        rewrite Eg.
        assert (Hms' := Hms). unfold may_store in Hms'.
        apply andb_true_iff in Hms' as [Hms' Hkn]. apply andb_true_iff in Hms' as [Hw Hsz].
        rewrite Hw, Hq, Hkn, Hsz. cbn [negb orb andb].
        rewrite (push_at dbg (ve_var e) LL G f _ El) by (rewrite <- Ht; apply headers_for_request_length).
        rewrite Hl, Hlf. cbn [option_map min_life]. rewrite Hhas, !andb_true_r. cbn [andb].
        eexists. split; [reflexivity|].
        apply RelS_insert; cbn [ve_var vr_resps vr_refs ve_life]; try assumption; try reflexivity.
        * apply insert_sorted; [rewrite <- El; exact S | exact FL | exact FG].
        * intros t'. rewrite vfind_insert by exact FL. rewrite <- El, Hfind. reflexivity.
    - (* first request to the page *)
      rewrite (seen_find_nopage _ _ _ Hp). cbn [serveV_phase2 snd]. unfold missV, new_and_cache. cbv zeta. fold r.
      pose proof (Hstore hs q GH) as HS. fold r in HS.
      destruct (compute hs q true) as [[f hs'] lg] eqn:C. cbn [fst snd] in *.
      destruct HS as (Hms & Hlf & Hq).
      rewrite vr_new_eq. cbn [vr_first vr_resps]. rewrite Hms.
      assert (Hw : wants_cache true (rq_method r) f = true).
      { unfold may_store in Hms. apply andb_true_iff in Hms as [Hms _]. apply andb_true_iff in Hms as [Hms _]. exact Hms. }
      rewrite Hw, Hp, !andb_true_r. cbn [andb].
      unfold insert_key. rewrite Hq, Hlf. unfold key_p.
      eexists. split; [reflexivity|].
      apply RelS_insert; cbn [ve_var vr_resps vr_refs ve_life]; try assumption; try reflexivity.
      * constructor; constructor.
      * intros t'. unfold vfind, own_tuple. cbn [find snd]. rewrite (seen_find_nopage _ t' _ Hp).
        destruct (hc_eqb (headers_for_request (rules_of (rq_path r)) r) t'); reflexivity.
  Qed.

  Lemma step_refines c s hs now o :
    RelS c s -> op_ok o ->
    exists c', stepX (c, hs) now o
               = Ok ((c', snd (fst (fst (specStep s hs o)))), (match o with OWait ms => now + ms | _ => now end),
                     snd (fst (specStep s hs o)), snd (specStep s hs o))
               /\ RelS c' (fst (fst (fst (specStep s hs o)))).
  Proof.
    intros HR Ho. destruct o as [r0 | r | | ms]; cbn [stepV spec_step].
    - destruct (serve_refines c s hs now r0 HR Ho) as (c' & E & R'). rewrite E.
      destruct (specServe s hs r0) as [[[[s' hs'] rp] lg] calls]. cbn [fst snd] in *.
      exists c'. split; [reflexivity | exact R'].
    - cbn [fst snd].
      (* one URI: the keys of [r1] against the page [rq_path r1] *)
      assert (HU : forall r1 c1 s1, RelS c1 s1 ->
                vhas_uri r1 c1 = seen_has_page (rq_path r1) s1 /\
                RelS (vclear_uri r1 c1) (seen_clear (rq_path r1) s1)).
      { intros r1 c1 s1 [Hpq Hp]. destruct (key_pq_is_pq r1) as (s0 & i & Epq). split.
        - unfold vhas_uri. rewrite Epq, Hpq. unfold key_p. specialize (Hp (rq_path r1)).
          destruct (pc_find (KPath (rq_path r1)) c1) as [e|]; [destruct Hp as (_ & _ & _ & -> & _) | rewrite Hp]; reflexivity.
        - unfold vclear_uri. rewrite Epq. unfold key_p. split.
          * intros s2 i1. rewrite !pc_find_remove. cbn [key_eqb].
            destruct (beq s2 s0 && Nat.eqb i1 i); apply Hpq || reflexivity.
          * intros q. rewrite !pc_find_remove. cbn [key_eqb].
            destruct (beq q (rq_path r1)) eqn:Eq.
            -- apply beq_eq in Eq. subst q. apply seen_has_page_clear_same.
            -- specialize (Hp q). destruct (pc_find (KPath q) c1) as [e|].
               ++ destruct Hp as (S0 & R0 & L0 & H0 & F0). unfold page_rel.
                  split; [exact S0|]. split; [exact R0|]. split; [exact L0|]. split.
                  ** rewrite seen_has_page_clear_other by exact Eq. exact H0.
                  ** intros t. rewrite seen_find_clear_other by exact Eq. apply F0.
               ++ rewrite seen_has_page_clear_other by exact Eq. exact Hp. }
      exists (vclear_page r c). unfold vclear_page, vpage_cleared.
      destruct (HU r c s HR) as [H1 R1].
      destruct (redirect_target r) as [r'|]; cbn [fst snd].
      + destruct (HU r' _ _ R1) as [H2 R2]. rewrite H1, H2. split; [reflexivity | exact R2].
      + rewrite H1, orb_false_r. split; [reflexivity | exact R1].
    - cbn [fst snd]. exists []. split; [reflexivity | apply RelS_nil].
    - cbn [fst snd]. exists c. split; [reflexivity | exact HR].
  Qed.

  (** [vary_refines_map]: for every history of requests (any method), page clears, clear-all and waits the
      caching server's observations and handler invocations are those of the finite-map server *)
  Lemma run_refines ops : forall c s hs now,
    RelS c s -> Forall op_ok ops -> runX (c, hs) now ops = Ok (specRun s hs ops).
  Proof.
    induction ops as [|o ops IH]; intros c s hs now HR Hops; cbn [runV spec_run]; [reflexivity|].
    inversion Hops as [|? ? Ho Hrest]; subst.
    destruct (step_refines c s hs now o HR Ho) as (c' & E & R'). rewrite E.
    destruct (specStep s hs o) as [[[s' hs'] ob] calls]. cbn [fst snd] in *.
    rewrite (IH c' s' hs' _ R' Hrest). reflexivity.
  Qed.

  (** ---- one computation per distinct (page, transformed header list) ---- *)
  (** the class of a request: the path it is cached under and its transformed list under the rules of that path *)
  Definition cls (q : routed) : bytes * hcoll := (cpath q, own_tuple rules_of (lreq q)).
  Definition seen_cls (s : seen_t) : list (bytes * hcoll) := map fst s.
  Definition calls_of (l : list (obs * list routed)) : list routed := concat (map snd l).
  Definition gh_req (o : op) : Prop :=
    match o with OReq r0 => get_or_head (rq_method (lreq (prime r0))) = true | _ => False end.

  Lemma seen_find_none_iff p t s : seen_find p t s = None <-> ~ In (p, t) (seen_cls s).
  Proof.
    induction s as [|[[p' t'] f] s IH]; cbn [seen_find seen_cls map fst In].
    - split; [intros _ [] | reflexivity].
    - destruct (beq p p' && hc_eqb t t') eqn:E.
      + apply andb_true_iff in E as [E1 E2]. apply beq_eq in E1. apply hc_eqb_eq in E2. subst.
        split; [discriminate | intros H; exfalso; apply H; left; reflexivity].
      + rewrite IH. unfold seen_cls. split.
        * intros H [Eq | Hin]; [|exact (H Hin)]. inversion Eq; subst. rewrite beq_refl, hc_eqb_refl in E. discriminate.
        * intros H Hin. apply H. right. exact Hin.
  Qed.

  Lemma seen_find_some_in p t s f : seen_find p t s = Some f -> In (p, t) (seen_cls s).
  Proof.
    induction s as [|[[p' t'] f'] s IH]; cbn [seen_find seen_cls map fst In]; [discriminate|].
    destruct (beq p p' && hc_eqb t t') eqn:E.
    - apply andb_true_iff in E as [E1 E2]. apply beq_eq in E1. apply hc_eqb_eq in E2. subst. intros _. left. reflexivity.
    - intros H. right. apply IH. exact H.
  Qed.

  Lemma spec_once ops : forall s hs,
    Forall gh_req ops ->
    NoDup (map cls (calls_of (specRun s hs ops))) /\
    (forall r, In r (calls_of (specRun s hs ops)) -> ~ In (cls r) (seen_cls s)) /\
    (forall r0, In (OReq r0) ops -> In (cls (prime r0)) (seen_cls s ++ map cls (calls_of (specRun s hs ops)))).
  Proof.
    induction ops as [|o ops IH]; intros s hs Hops.
    - cbn. split; [constructor | split; [intros r [] | intros r0 []]].
    - inversion Hops as [|? ? Ho Hrest]; subst. destruct o as [r0 | r | | ms]; try contradiction.
      cbn [gh_req] in Ho. cbn [spec_run spec_step]. unfold spec_serve. cbv zeta. rewrite Ho. cbn [andb].
      set (q := prime r0) in *. set (r := lreq q) in *.
      destruct (seen_find (rq_path r) (own_tuple rules_of r) s) as [f|] eqn:Ef.
      + (* served from the map: no computation *)
        unfold calls_of. cbn [map snd concat app]. fold (calls_of (specRun s hs ops)).
        destruct (IH s hs Hrest) as (N1 & N2 & N3). split; [exact N1|]. split; [exact N2|].
        intros r1 [Eq | Hin]; [|apply N3; exact Hin].
        inversion Eq; subst r1. apply in_or_app. left.
        apply (seen_find_some_in _ _ _ _ Ef).
      + destruct (compute hs q true) as [[f hs'] lg]. unfold calls_of. cbn [map snd concat app fst].
        fold (calls_of (specRun ((rq_path r, own_tuple rules_of r, f) :: s) hs' ops)).
        destruct (IH ((rq_path r, own_tuple rules_of r, f) :: s) hs' Hrest) as (N1 & N2 & N3).
        cbn [seen_cls map fst] in N2, N3. fold (seen_cls s) in N2, N3.
        split; [|split].
        * cbn [map]. constructor; [|exact N1]. intros Hin. apply in_map_iff in Hin as (r1 & Ec & H1).
          apply (N2 r1 H1). left. unfold cls in *. symmetry. exact Ec.
        * intros r1 [Eq | Hin].
          -- subst r1. apply seen_find_none_iff. exact Ef.
          -- intros Hc. apply (N2 r1 Hin). right. exact Hc.
        * intros r1 [Eq | Hin].
          -- inversion Eq; subst r1. apply in_or_app. right. left. reflexivity.
          -- specialize (N3 r1 Hin). cbn [app] in N3. destruct N3 as [Eq | N3].
             ++ apply in_or_app. right. left. exact Eq.
             ++ apply in_app_or in N3. apply in_or_app. destruct N3 as [N3 | N3]; [left; exact N3 | right; right; exact N3].
  Qed.
End RefinesMap.

(** ---- 9. corollaries for histories that start with an empty cache ---- *)
Section FromEmpty.
  Variable hstate : Type.
  Variable compute : hstate -> routed -> bool -> fat * hstate * list bytes.
  Variable cache_on : bool.
  Variable ims_on : bool.
  Variable parse_ims : bytes -> option Z.
  Variable sanitize_ok : request -> bool.
  Variable prime : request -> routed.
  Variable negotiate : request -> fat -> option (N * bytes).
  Variable rules_of : bytes -> list rule.
  Variable dbg : bool.

  Lemma variants_sorted_from_empty ops hs now :
    exists l st' now',
      runV hstate compute cache_on ims_on parse_ims sanitize_ok prime negotiate rules_of dbg ([], hs) now ops = Ok l /\
      runV_state hstate compute cache_on ims_on parse_ims sanitize_ok prime negotiate rules_of dbg ([], hs) now ops = Ok (st', now') /\
      forall k e, pc_find k (fst st') = Some e ->
        StronglySorted (fun p q => cmp_hcoll (snd p) (snd q) = Lt) (vr_resps (ve_var e)) /\
        NoDup (map snd (vr_resps (ve_var e))) /\ vr_resps (ve_var e) <> [].
  Proof.
    destruct (runV_ok hstate compute cache_on ims_on parse_ims sanitize_ok prime negotiate rules_of dbg ops [] hs now
                (InvV_nil hstate compute rules_of)) as (l & st' & now' & E1 & E2 & I & _).
    exists l, st', now'. split; [exact E1|]. split; [exact E2|].
    intros k e F. destruct (I k e F) as (S & Hne & _). split; [exact S|]. split; [apply vsorted_NoDup; exact S | exact Hne].
  Qed.

  (** every cache item is built with the rules of the path it is stored under, and every stored list is what THOSE rules
      make of the headers of a request that is cached under that path *)
  Lemma entries_of_their_path ops hs now :
    exists l st' now',
      runV hstate compute cache_on ims_on parse_ims sanitize_ok prime negotiate rules_of dbg ([], hs) now ops = Ok l /\
      runV_state hstate compute cache_on ims_on parse_ims sanitize_ok prime negotiate rules_of dbg ([], hs) now ops = Ok (st', now') /\
      forall k e, pc_find k (fst st') = Some e ->
        vr_refs (ve_var e) = rules_of (kpath k) /\
        forall f hc, In (f, hc) (vr_resps (ve_var e)) ->
          map fst hc = map ru_name (rules_of (kpath k)) /\
          exists q1 hs1 ok1, fst (fst (compute hs1 q1 ok1)) = f /\ cpath q1 = kpath k /\
                             hc = headers_for_request (rules_of (kpath k)) (fst q1).
  Proof.
    destruct (runV_ok hstate compute cache_on ims_on parse_ims sanitize_ok prime negotiate rules_of dbg ops [] hs now
                (InvV_nil hstate compute rules_of)) as (l & st' & now' & E1 & E2 & I & _).
    exists l, st', now'. split; [exact E1|]. split; [exact E2|].
    intros k e F. destruct (I k e F) as (_ & _ & Hrefs & Hall). split; [exact Hrefs|].
    intros f hc Hin. destruct (Hall f hc Hin) as (q1 & (hs1 & ok1 & C1) & P1 & ->).
    split; [apply headers_for_request_names|].
    exists q1, hs1, ok1. split; [exact C1|]. split; [exact P1|]. apply lreq_headers_for.
  Qed.

  Lemma computed_once_from_empty ops hs now :
    always_stored hstate compute ->
    Forall (op_ok ims_on sanitize_ok prime) ops -> Forall (gh_req prime) ops ->
    exists l,
      runV hstate compute true ims_on parse_ims sanitize_ok prime negotiate rules_of dbg ([], hs) now ops = Ok l /\
      NoDup (map (cls rules_of) (calls_of l)) /\
      (forall r0, In (OReq r0) ops -> In (cls rules_of (prime r0)) (map (cls rules_of) (calls_of l))).
  Proof.
    intros Hst Hops Hgh.
    exists (spec_run hstate compute true ims_on prime negotiate rules_of [] hs ops).
    split; [apply (run_refines hstate compute ims_on parse_ims sanitize_ok prime negotiate rules_of dbg Hst ops [] [] hs now);
            [apply RelS_nil | exact Hops]|].
    destruct (spec_once hstate compute ims_on prime negotiate rules_of ops [] hs Hgh) as (N1 & _ & N3).
    split; [exact N1 | exact N3].
  Qed.
End FromEmpty.

(** ---- 10. the code before the repair of [handle_vary_missing] (model [vary.run_v0]): a request
    suspended at the await in [handle_vary_missing] while other requests complete.  Both histories were
    first observed on the real code (harness park/release operations) and are in the regression corpus. ---- *)
Definition stale_panic_history : xval :=
  (XL [(XL [(XL [(XB [99;97;99;104;101]);(XN 1)]);(XL [(XB [104;97;110;100;108;101;114;115]);(XL [(XL [(XB [47;118]);(XN 3);(XN 200);(XB [84;48]);(XL []);(XN 2);(XN 0);(XN 0);(XN 1);(XL [(XL [(XB [120;45;97]);(XN 0);(XB [100;102;108;116])])])])])]);(XL [(XB [118;97;114;121]);(XL [(XL [(XB [47;118]);(XL [(XL [(XB [120;45;97]);(XN 0);(XB [100;102;108;116])])])])])]);(XL [(XB [114;101;112;111;114;116]);(XL [(XB [118;97;114;121])])])]);(XL [(XL [(XN 0);(XN 1);(XB [71;69;84]);(XB [47;118]);(XL [(XL [(XB [120;45;97]);(XB [98])])]);(XB [])]);(XL [(XN 0);(XN 1);(XB [71;69;84]);(XB [47;118]);(XL [(XL [(XB [120;45;97]);(XB [99])])]);(XB [])]);(XL [(XN 0);(XN 1);(XB [71;69;84]);(XB [47;118]);(XL [(XL [(XB [120;45;97]);(XB [100])])]);(XB [])]);(XL [(XN 5);(XN 1);(XB [71;69;84]);(XB [47;118]);(XL [(XL [(XB [120;45;97]);(XB [101])])]);(XB [])]);(XL [(XN 1);(XB [47;118])]);(XL [(XN 0);(XN 1);(XB [71;69;84]);(XB [47;118]);(XL [(XL [(XB [120;45;97]);(XB [97])])]);(XB [])]);(XL [(XN 6)]);(XL [(XN 4);(XB [47;118])])])]).

Definition stale_panic_history_out_v0 : xval :=
  (XL [(XN 2)]).

Definition stale_panic_history_out : xval :=
  (XL [(XL [(XN 200);(XL [(XL [(XB [118;97;114;121]);(XB [97;99;99;101;112;116;45;101;110;99;111;100;105;110;103;44;32;114;97;110;103;101;44;32;120;45;97])])]);(XB [84;48;124;98]);(XN 1);(XB [84;48;124;98]);(XL [(XB [104;48])])]);(XL [(XN 200);(XL [(XL [(XB [118;97;114;121]);(XB [97;99;99;101;112;116;45;101;110;99;111;100;105;110;103;44;32;114;97;110;103;101;44;32;120;45;97])])]);(XB [84;48;124;99]);(XN 1);(XB [84;48;124;99]);(XL [(XB [104;48])])]);(XL [(XN 200);(XL [(XL [(XB [118;97;114;121]);(XB [97;99;99;101;112;116;45;101;110;99;111;100;105;110;103;44;32;114;97;110;103;101;44;32;120;45;97])])]);(XB [84;48;124;100]);(XN 1);(XB [84;48;124;100]);(XL [(XB [104;48])])]);(XL []);(XL [(XN 1);(XN 1)]);(XL [(XN 200);(XL [(XL [(XB [118;97;114;121]);(XB [97;99;99;101;112;116;45;101;110;99;111;100;105;110;103;44;32;114;97;110;103;101;44;32;120;45;97])])]);(XB [84;48;124;97]);(XN 1);(XB [84;48;124;97]);(XL [(XB [104;48])])]);(XL [(XN 200);(XL [(XL [(XB [118;97;114;121]);(XB [97;99;99;101;112;116;45;101;110;99;111;100;105;110;103;44;32;114;97;110;103;101;44;32;120;45;97])])]);(XB [84;48;124;101]);(XN 1);(XB [84;48;124;101]);(XL [(XB [104;48])])]);(XL [(XL []);(XL [(XL [(XL [(XL [(XB [120;45;97]);(XB [97])])]);(XL [(XL [(XB [120;45;97]);(XB [101])])])])])])]).

Definition stale_unsorted_history : xval :=
  (XL [(XL [(XL [(XB [99;97;99;104;101]);(XN 1)]);(XL [(XB [104;97;110;100;108;101;114;115]);(XL [(XL [(XB [47;118]);(XN 3);(XN 200);(XB [84;48]);(XL []);(XN 2);(XN 0);(XN 0);(XN 1);(XL [(XL [(XB [120;45;97]);(XN 0);(XB [100;102;108;116])])])])])]);(XL [(XB [118;97;114;121]);(XL [(XL [(XB [47;118]);(XL [(XL [(XB [120;45;97]);(XN 0);(XB [100;102;108;116])])])])])]);(XL [(XB [114;101;112;111;114;116]);(XL [(XB [118;97;114;121])])])]);(XL [(XL [(XN 0);(XN 1);(XB [71;69;84]);(XB [47;118]);(XL [(XL [(XB [120;45;97]);(XB [97])])]);(XB [])]);(XL [(XN 5);(XN 1);(XB [71;69;84]);(XB [47;118]);(XL [(XL [(XB [120;45;97]);(XB [99])])]);(XB [])]);(XL [(XN 0);(XN 1);(XB [71;69;84]);(XB [47;118]);(XL [(XL [(XB [120;45;97]);(XB [98])])]);(XB [])]);(XL [(XN 6)]);(XL [(XN 4);(XB [47;118])]);(XL [(XN 0);(XN 1);(XB [71;69;84]);(XB [47;118]);(XL [(XL [(XB [120;45;97]);(XB [98])])]);(XB [])]);(XL [(XN 4);(XB [47;118])])])]).

Definition stale_unsorted_history_out_v0 : xval :=
  (XL [(XL [(XN 200);(XL [(XL [(XB [118;97;114;121]);(XB [97;99;99;101;112;116;45;101;110;99;111;100;105;110;103;44;32;114;97;110;103;101;44;32;120;45;97])])]);(XB [84;48;124;97]);(XN 1);(XB [84;48;124;97]);(XL [(XB [104;48])])]);(XL []);(XL [(XN 200);(XL [(XL [(XB [118;97;114;121]);(XB [97;99;99;101;112;116;45;101;110;99;111;100;105;110;103;44;32;114;97;110;103;101;44;32;120;45;97])])]);(XB [84;48;124;98]);(XN 1);(XB [84;48;124;98]);(XL [(XB [104;48])])]);(XL [(XN 200);(XL [(XL [(XB [118;97;114;121]);(XB [97;99;99;101;112;116;45;101;110;99;111;100;105;110;103;44;32;114;97;110;103;101;44;32;120;45;97])])]);(XB [84;48;124;99]);(XN 1);(XB [84;48;124;99]);(XL [(XB [104;48])])]);(XL [(XL []);(XL [(XL [(XL [(XL [(XB [120;45;97]);(XB [97])])]);(XL [(XL [(XB [120;45;97]);(XB [99])])]);(XL [(XL [(XB [120;45;97]);(XB [98])])])])])]);(XL [(XN 200);(XL [(XL [(XB [118;97;114;121]);(XB [97;99;99;101;112;116;45;101;110;99;111;100;105;110;103;44;32;114;97;110;103;101;44;32;120;45;97])])]);(XB [84;48;124;98]);(XN 1);(XB [84;48;124;98]);(XL [(XB [104;48])])]);(XL [(XL []);(XL [(XL [(XL [(XL [(XB [120;45;97]);(XB [97])])]);(XL [(XL [(XB [120;45;97]);(XB [98])])]);(XL [(XL [(XB [120;45;97]);(XB [99])])]);(XL [(XL [(XB [120;45;97]);(XB [98])])])])])])]).

Definition stale_unsorted_history_out : xval :=
  (XL [(XL [(XN 200);(XL [(XL [(XB [118;97;114;121]);(XB [97;99;99;101;112;116;45;101;110;99;111;100;105;110;103;44;32;114;97;110;103;101;44;32;120;45;97])])]);(XB [84;48;124;97]);(XN 1);(XB [84;48;124;97]);(XL [(XB [104;48])])]);(XL []);(XL [(XN 200);(XL [(XL [(XB [118;97;114;121]);(XB [97;99;99;101;112;116;45;101;110;99;111;100;105;110;103;44;32;114;97;110;103;101;44;32;120;45;97])])]);(XB [84;48;124;98]);(XN 1);(XB [84;48;124;98]);(XL [(XB [104;48])])]);(XL [(XN 200);(XL [(XL [(XB [118;97;114;121]);(XB [97;99;99;101;112;116;45;101;110;99;111;100;105;110;103;44;32;114;97;110;103;101;44;32;120;45;97])])]);(XB [84;48;124;99]);(XN 1);(XB [84;48;124;99]);(XL [(XB [104;48])])]);(XL [(XL []);(XL [(XL [(XL [(XL [(XB [120;45;97]);(XB [97])])]);(XL [(XL [(XB [120;45;97]);(XB [98])])]);(XL [(XL [(XB [120;45;97]);(XB [99])])])])])]);(XL [(XN 200);(XL [(XL [(XB [118;97;114;121]);(XB [97;99;99;101;112;116;45;101;110;99;111;100;105;110;103;44;32;114;97;110;103;101;44;32;120;45;97])])]);(XB [84;48;124;98]);(XN 1);(XB [84;48;124;98]);(XL [])]);(XL [(XL []);(XL [(XL [(XL [(XL [(XB [120;45;97]);(XB [97])])]);(XL [(XL [(XB [120;45;97]);(XB [98])])]);(XL [(XL [(XB [120;45;97]);(XB [99])])])])])])]).

Lemma stale_position_panics_v0 :
  run_vary_v0 stale_panic_history = XL [XN 2] /\ run_vary stale_panic_history = stale_panic_history_out.
Proof. split; vm_compute; reflexivity. Qed.
Lemma stale_position_unsorts_v0 :
  run_vary_v0 stale_unsorted_history = stale_unsorted_history_out_v0 /\
  run_vary stale_unsorted_history = stale_unsorted_history_out.
Proof. split; vm_compute; reflexivity. Qed.

(** ---- 11. statements in the form Properties/C05.v cites ---- *)
Lemma insert_refines_map_lemma (L G : list (fat * hcoll)) f t t' :
  vsorted (L ++ G) -> Forall (fun q => hlt (snd q) t) L -> Forall (fun q => hlt t (snd q)) G ->
  vsorted (L ++ (f, t) :: G) /\
  vfind t' (L ++ (f, t) :: G) = if hc_eqb t t' then Some f else vfind t' (L ++ G).
Proof. intros S FL FG. split; [exact (insert_sorted L G f t S FL FG) | exact (vfind_insert L G f t t' FL)]. Qed.

Lemma default_applied_lemma ref r :
  (header_get (ru_name ref) r = None -> header_for ref r = (ru_name ref, ru_default ref)) /\
  (forall v, header_get (ru_name ref) r = Some v -> to_str_ok v = false -> header_for ref r = (ru_name ref, ru_default ref)) /\
  (forall v, header_get (ru_name ref) r = Some v -> to_str_ok v = true -> header_for ref r = (ru_name ref, ru_xf ref v)).
Proof.
  split; [exact (default_applied_absent ref r) | split].
  - intros v. exact (default_applied_nontext ref r v).
  - intros v. exact (transformed_when_text ref r v).
Qed.

Lemma vary_refines_map_from_empty hstate compute ims_on parse_ims sanitize_ok prime negotiate rules_of dbg ops hs now :
  always_stored hstate compute ->
  Forall (op_ok ims_on sanitize_ok prime) ops ->
  runV hstate compute true ims_on parse_ims sanitize_ok prime negotiate rules_of dbg ([], hs) now ops
  = Ok (spec_run hstate compute true ims_on prime negotiate rules_of [] hs ops).
Proof.
  intros Hst Hops.
  exact (run_refines hstate compute ims_on parse_ims sanitize_ok prime negotiate rules_of dbg Hst ops [] [] hs now
           (RelS_nil rules_of) Hops).
Qed.

(** ---- 12. the vector layer refines the association-list layer of Model/CacheX.v (C03/C04) ---- *)
Lemma same_names_eq (a c : hcoll) : map fst a = map fst c -> map snd a = map snd c -> a = c.
Proof.
  revert c; induction a as [|[n v] a IH]; intros [|[n' v'] c]; cbn [map fst snd]; intros H1 H2; try discriminate; [reflexivity|].
  inversion H1; inversion H2; subst. f_equal. apply IH; assumption.
Qed.

(** replies, observations and operations of Model/Cache.v in the vocabulary of Model/CacheX.v: no filler bytes, no stream *)
Definition rx_of (rp : reply) : replyx :=
  {| rx_status := rp_status rp; rx_headers := rp_headers rp; rx_pad := 0; rx_body := rp_body rp; rx_ipad := 0;
     rx_identity := rp_identity rp; rx_last_modified := rp_last_modified rp; rx_from_cache := rp_from_cache rp;
     rx_stream := None |}.
Definition obx_of (o : obs) : obsx :=
  match o with ObReply rp lg => XbReply (rx_of rp) lg | ObCleared a b => XbCleared a b | ObNone => XbNone end.
Definition opx_of (o : op) : opx :=
  match o with OReq r => XReq r | OClearPage r => XClearPage r | OClearAll => XClearAll | OWait ms => XWait ms end.

Lemma lookup_req_method r ov : rq_method (lookup_req r ov) = rq_method r.
Proof. destruct ov as [[p q]|]; reflexivity. Qed.
Lemma lookup_req_header n r ov : header n (lookup_req r ov) = header n r.
Proof. destruct ov as [[p q]|]; reflexivity. Qed.

Section RefinesAssoc.
  Variable hstate : Type.
  Variable compute : hstate -> routed -> bool -> fat * hstate * list bytes.
  Variable cache_on : bool.
  Variable ims_on : bool.
  Variable parse_ims : bytes -> option Z.
  Variable sanitize_ok : request -> bool.
  Variable prime : request -> routed.
  Variable negotiate : request -> fat -> option (N * bytes).
  Variable rules_of : bytes -> list rule.
  Variable dbg : bool.

  (** the instances of Model/CacheX.v's section variables that the vector model realises: the rewriting Primes and the
      override URI are the two halves of [prime], the vary tuple is the list of transformed values of the rules of the URI
      that is looked up, the vary header the one [get_header] builds, responses are plain (no stream, no filler), the status
      filter is the default one, [clear_page] uses the default redirect *)
  Definition vary_tuple_of (r : request) : tuple := map snd (own_tuple rules_of r).
  Definition vary_header_of (r : request) (f : fat) : list (bytes * bytes) :=
    match f_body f with
    | [] => []
    | _ :: _ => [(B "vary", get_header (own_tuple rules_of r) false)]
    end.
  Definition computeX (hs : hstate) (r : request) (ov : ovr) (ok : bool) : fatx * hstate * list bytes :=
    let '(f, hs', lg) := compute hs (r, ov) ok in (plain f, hs', lg).
  Definition negotiateX (r : request) (x : fatx) : option (N * bytes) := negotiate r (fx_fat x).
  Definition vary_tupleX (r : request) (ov : option (bytes * option bytes)) : tuple := vary_tuple_of (lookup_req r ov).
  Definition vary_headerX (r : request) (ov : option (bytes * option bytes)) (x : fatx) : list (bytes * bytes) :=
    vary_header_of (lookup_req r ov) (fx_fat x).
  Definition primeX (r0 : request) : request := fst (prime r0).
  Definition overrideX (r0 : request) : option (bytes * option bytes) := snd (prime r0).
  (** handlers do not set a [vary] header of their own (Model/CacheX.v appends the cache's; the code replaces) *)
  Hypothesis Hnovary : forall hs q ok, assoc (B "vary") (f_headers (fst (fst (compute hs q ok)))) = None.

  Notation own := (own_tuple rules_of).
  Notation serveVn := (serveV hstate compute cache_on ims_on parse_ims sanitize_ok prime negotiate rules_of dbg).
  Notation serveA := (CacheX.serveX hstate computeX cache_on ims_on true true true true true status_filter_drop parse_ims
                                    sanitize_ok primeX overrideX negotiateX vary_tupleX vary_headerX).
  Notation finishA := (CacheX.finishX true negotiateX vary_headerX).
  Notation finishVn := (finishV negotiate).

  Lemma finish_same r ov lr f lm cached m :
    lr = lookup_req r ov -> assoc (B "vary") (f_headers f) = None ->
    rx_of (finishVn r f (own lr) lm cached) = finishA r ov (plain f) lm cached m.
  Proof.
    intros -> Hn. unfold finishV, CacheX.finishX, negotiateX, vary_headerX, vary_header_of, apply_header, rx_of.
    cbn [is_stream plain fx_stream fx_fat fx_pad]. destruct (negotiate r f) as [[st body]|].
    - cbn [f_body rp_status rp_headers rp_body rp_identity rp_last_modified rp_from_cache]. destruct body; reflexivity.
    - cbn [rp_status rp_headers rp_body rp_identity rp_last_modified rp_from_cache]. rewrite orb_true_r. cbn [andb].
      destruct (f_body f) eqn:Eb.
      + rewrite app_nil_r. reflexivity.
      + unfold hm_insert. rewrite filter_id_assoc_none by exact Hn. reflexivity.
  Qed.

  Lemma own_eqb r r0 : rq_path r = rq_path r0 ->
    hc_eqb (own r0) (own r) = tuple_eqb (vary_tuple_of r) (vary_tuple_of r0).
  Proof.
    intros Hp. unfold vary_tuple_of.
    destruct (hc_eqb (own r0) (own r)) eqn:E1, (tuple_eqb (map snd (own r)) (map snd (own r0))) eqn:E2; try reflexivity.
    - apply hc_eqb_eq in E1. rewrite E1 in E2. rewrite (proj2 (tuple_eqb_eq _ _) eq_refl) in E2. discriminate.
    - apply tuple_eqb_eq in E2. assert (own r0 = own r) as E.
      { apply same_names_eq; [| symmetry; exact E2]. unfold own_tuple. rewrite !headers_for_request_names, Hp. reflexivity. }
      rewrite E, hc_eqb_refl in E1. discriminate.
  Qed.

  (** the admission tests of the two models *)
  Lemma wants_same m f : wants_cache_x cache_on status_filter_drop m (plain f) = wants_cache cache_on m f.
  Proof. reflexivity. Qed.
  Lemma may_store_same m f : may_store_x cache_on status_filter_drop m (plain f) = may_store cache_on m f.
  Proof. unfold may_store_x, may_store, fx_len. rewrite wants_same. cbn [plain fx_pad fx_fat]. rewrite N.add_0_l. reflexivity. Qed.
  Lemma accept_same m f k :
    may_store_x cache_on status_filter_drop m (plain f) && (negb true || qm_key_ok k (plain f))
    = (wants_cache cache_on m f && (negb (f_spref f =? SP_QUERY) || key_has_query k) && negb (kvarn_none f))
      && (N.of_nat (length (f_body f)) <? size_limit).
  Proof.
    rewrite may_store_same. unfold may_store, qm_key_ok, qmx, key_has_query. cbn [plain fx_fat negb orb].
    destruct (wants_cache cache_on m f), (N.of_nat (length (f_body f)) <? size_limit), (kvarn_none f),
      (negb (f_spref f =? SP_QUERY) || match k with KPath _ => false | KPathQuery _ _ => true end); reflexivity.
  Qed.

  Definition entry_rel (k : key) (ve : ventry) (e : entryx) : Prop :=
    ve_created ve = ex_created e /\ ve_life ve = ex_life e /\
    forall r, rq_path r = kpath k ->
      option_map v_resp (xv_find (vary_tuple_of r) (ex_vars e)) = option_map plain (vfind (own r) (vr_resps (ve_var ve))).
  Definition cache_rel (cV : vcache) (c : cachex) : Prop :=
    forall k, match pc_find k cV, xc_find k c with
              | Some ve, Some e => entry_rel k ve e
              | None, None => True
              | _, _ => False
              end.

  Lemma cache_rel_nil : cache_rel [] [].
  Proof. intros k. exact Logic.I. Qed.
  Lemma cache_rel_remove k cV c : cache_rel cV c -> cache_rel (pc_remove k cV) (xc_remove k c).
  Proof.
    intros H k0. rewrite pc_find_remove, xc_find_remove. destruct (key_eqb k0 k); [exact Logic.I | apply H].
  Qed.
  Lemma cache_rel_insert k ve e cV c : cache_rel cV c -> entry_rel k ve e -> cache_rel (pc_insert k ve cV) (xc_insert k e c).
  Proof.
    intros H He k0. rewrite pc_find_insert, xc_find_insert. destruct (key_eqb k0 k) eqn:Ek; [|apply H].
    apply key_eqb_eq in Ek. subst. exact He.
  Qed.

  Lemma get_item_rel k cV c now :
    cache_rel cV c ->
    match vget_item k cV now, xget_item k c now with
    | (Some ve, cV'), (Some e, c') => entry_rel k ve e /\ cV' = cV /\ c' = c /\ pc_find k cV = Some ve /\ vfresh ve now = true
    | (None, cV'), (None, c') => cache_rel cV' c'
    | _, _ => False
    end.
  Proof.
    intros H. unfold vget_item, xget_item. pose proof (H k) as Hk.
    destruct (pc_find k cV) as [ve|] eqn:F1, (xc_find k c) as [e|] eqn:F2; try contradiction.
    - assert (Ef : vfresh ve now = xfresh e now).
      { destruct Hk as (Ec & El & _). unfold vfresh, xfresh. rewrite Ec, El. reflexivity. }
      rewrite Ef. destruct (xfresh e now) eqn:Efr.
      + split; [exact Hk|]. repeat split; try reflexivity; exact Ef.
      + apply cache_rel_remove. exact H.
    - exact H.
  Qed.

  Lemma lookup_rel r cV c now :
    cache_rel cV c ->
    match vlookup r cV now, xlookup r c now with
    | ((kV, Some ve), cV'), ((k, Some e), c') =>
        kV = k /\ entry_rel k ve e /\ cache_rel cV' c' /\ pc_find k cV' = Some ve /\ vfresh ve now = true
    | ((kV, None), cV'), ((k, None), c') => kV = k /\ cache_rel cV' c'
    | _, _ => False
    end.
  Proof.
    intros H. unfold vlookup, xlookup. pose proof (get_item_rel (key_pq r) cV c now H) as G1.
    destruct (vget_item (key_pq r) cV now) as [[ve|] cV1], (xget_item (key_pq r) c now) as [[e|] c1]; try contradiction.
    - destruct G1 as (He & -> & -> & F & Fr). split; [reflexivity|]. split; [exact He|]. split; [exact H|]. split; assumption.
    - pose proof (get_item_rel (key_p r) cV1 c1 now G1) as G2.
      destruct (vget_item (key_p r) cV1 now) as [[ve|] cV2], (xget_item (key_p r) c1 now) as [[e|] c2]; try contradiction.
      + destruct G2 as (He & -> & -> & F & Fr). split; [reflexivity|]. split; [exact He|]. split; [exact G1|]. split; assumption.
      + split; [reflexivity | exact G2].
  Qed.

  Lemma vrelookup_same k cV now ve : pc_find k cV = Some ve -> vfresh ve now = true -> vrelookup k cV now = ((k, Some ve), cV).
  Proof. intros F Fr. unfold vrelookup, vget_item. rewrite F, Fr. reflexivity. Qed.

  Lemma miss_rel cV1 c1 hs now r ov ok :
    InvV hstate compute rules_of cV1 -> cache_rel cV1 c1 ->
    exists cV' c' hs' rp lg,
      missV hstate compute cache_on ims_on negotiate rules_of dbg cV1 hs now (r, ov) ok = Ok ((cV', hs'), rp, lg, [(r, ov)]) /\
      missX hstate computeX cache_on ims_on true true status_filter_drop negotiateX vary_tupleX vary_headerX c1 hs now r ov ok
      = ((c', hs'), rx_of rp, lg) /\
      cache_rel cV' c'.
  Proof.
    intros I H. unfold missV, missX, new_and_cache, computeX, lreq. cbv zeta. cbn [fst snd]. pose proof (Hnovary hs (r, ov) ok) as Hn.
    set (lr := lookup_req r ov).
    destruct (compute hs (r, ov) ok) as [[f hs'] lg]. cbn [fst snd] in Hn.
    assert (Hm : rq_method lr = rq_method r) by apply lookup_req_method.
    rewrite vr_new_eq. cbn [vr_first vr_resps]. rewrite may_store_same, wants_same, !Hm.
    fold (own lr). rewrite <- (finish_same r ov lr f _ false true eq_refl Hn).
    destruct (may_store cache_on (rq_method r) f).
    - eexists; eexists; eexists; eexists; eexists. split; [reflexivity|]. split; [reflexivity|]. cbn [plain fx_fat].
      apply cache_rel_insert; [exact H|]. unfold entry_rel, lifetime_x.
      cbn [ve_created ve_life ex_created ex_life ve_var vr_resps ex_vars plain fx_fat].
      split; [reflexivity|]. split; [reflexivity|]. intros r1 Hp. rewrite kpath_insert_key in Hp.
      cbn [xv_find v_tuple]. unfold vfind, vary_tupleX. cbn [find snd]. fold lr. rewrite <- (own_eqb r1 lr Hp).
      destruct (hc_eqb (own lr) (own r1)); reflexivity.
    - eexists; eexists; eexists; eexists; eexists. split; [reflexivity|]. split; [reflexivity|]. exact H.
  Qed.

  Lemma serve_rel cV c hs now r0 :
    InvV hstate compute rules_of cV -> cache_rel cV c ->
    exists cV' c' hs' rp lg calls,
      serveVn (cV, hs) now r0 = Ok ((cV', hs'), rp, lg, calls) /\
      serveA (c, hs) now r0 = ((c', hs'), rx_of rp, lg) /\ cache_rel cV' c'.
  Proof.
    intros I H. unfold serveV, serveV_phase1, serveV_phase1_gen, CacheX.serveX, primeX, overrideX. cbv zeta.
    destruct (prime r0) as [r ov]. unfold lreq. cbn [fst snd]. set (lr := lookup_req r ov). set (ok := sanitize_ok r0).
    assert (Hm : rq_method lr = rq_method r) by apply lookup_req_method.
    destruct (negb cache_on) eqn:Eco.
    { assert (Hc : cache_on = false) by (destruct cache_on; [discriminate | reflexivity]).
      cbn [serveV_phase2 snd]. unfold missV, new_and_cache, computeX, lreq. cbv zeta. cbn [fst snd]. fold lr.
      pose proof (Hnovary hs (r, ov) ok) as Hn.
      destruct (compute hs (r, ov) ok) as [[f hs'] lg]. cbn [fst snd] in Hn.
      rewrite vr_new_eq. cbn [vr_first vr_resps]. fold (own lr). rewrite <- (finish_same r ov lr f _ false true eq_refl Hn).
      assert (Hms : may_store cache_on (rq_method lr) f = false) by (rewrite Hc; reflexivity).
      assert (Hw : wants_cache cache_on (rq_method lr) f = false) by (rewrite Hc; reflexivity).
      rewrite Hms, Hw, andb_false_r.
      eexists; eexists; eexists; eexists; eexists; eexists. split; [reflexivity|]. split; [reflexivity | exact H]. }
    pose proof (lookup_rel lr cV c now H) as L.
    destruct (vlookup lr cV now) as [[kV foundV] cV1] eqn:LV. destruct (xlookup lr c now) as [[k found] c1] eqn:LA.
    destruct (vlookup_inv hstate compute rules_of _ _ _ _ _ _ LV I) as (I1 & Hkp & Hent).
    destruct foundV as [ve|], found as [e|]; try contradiction.
    - destruct L as (-> & He & H1 & F & Fr). rewrite Hm.
      destruct (ok && get_or_head (rq_method r)) eqn:G.
      + destruct He as (Ec & El & Hv). rewrite Ec. cbn [negb orb].
        unfold lr at 1. rewrite lookup_req_header. fold lr.
        destruct (Hent ve eq_refl) as (S & Hne & Hrefs & Hall).
        assert (Ht : headers_for_request (vr_refs (ve_var ve)) lr = own lr) by (rewrite Hrefs, Hkp; reflexivity).
        pose proof (Hv lr (eq_sym Hkp)) as Hvr. unfold vary_tupleX. fold lr.
        destruct (get_by_request_sorted (ve_var ve) lr S) as [(f0 & Ef & Hin & Eg) | (En & LL & GG & Ell & Eg & FL & FG)];
          rewrite Eg; rewrite Ht in *.
        * rewrite Ef in Hvr. destruct (xv_find (vary_tuple_of lr) (ex_vars e)) as [v|]; [|discriminate].
          cbn [option_map] in Hvr. inversion Hvr as [Hvr']. clear Hvr.
          destruct (Hall _ _ Hin) as (q1 & (hs1 & ok1 & C1) & _ & _).
          assert (Hn : assoc (B "vary") (f_headers f0) = None) by (rewrite <- C1; apply Hnovary).
          rewrite Hvr'. rewrite <- (finish_same r ov lr f0 _ true false eq_refl Hn).
          destruct (match (if ims_on then match header (B "if-modified-since") r with Some v0 => parse_ims v0 | None => None end else None)
                    with Some t => ims_fresh t (ex_created e) | None => false end); cbn [andb];
            eexists; eexists; eexists; eexists; eexists; eexists; (split; [reflexivity|]); (split; [reflexivity | exact H1]).
        * rewrite En in Hvr. destruct (xv_find (vary_tuple_of lr) (ex_vars e)) as [v|]; [discriminate|]. clear Hvr.
          rewrite !andb_false_r. cbn [serveV_phase2 snd]. unfold vary_missing, vary_missingX, computeX, lreq. cbv zeta. cbn [fst snd]. fold lr.
          pose proof (Hnovary hs (r, ov) ok) as Hn.
          apply andb_true_iff in G as [Gok _]. rewrite Gok in *.
          destruct (compute hs (r, ov) true) as [[f hs'] lg]. cbn [fst snd] in Hn.
          rewrite (vrelookup_same _ _ _ _ F Fr). rewrite Eg. rewrite Hm. rewrite accept_same.
          rewrite <- (finish_same r ov lr f _ true false eq_refl Hn).
          destruct (wants_cache cache_on (rq_method r) f && (negb (f_spref f =? SP_QUERY) || key_has_query k)
                    && negb (kvarn_none f)); cbn [andb].
          2:{ eexists; eexists; eexists; eexists; eexists; eexists. split; [reflexivity|]. split; [reflexivity | exact H1]. }
          rewrite (push_at dbg (ve_var ve) LL GG f _ Ell) by (rewrite <- Ht; apply headers_for_request_length).
          destruct (N.of_nat (length (f_body f)) <? size_limit).
          2:{ eexists; eexists; eexists; eexists; eexists; eexists. split; [reflexivity|]. split; [reflexivity | exact H1]. }
          eexists; eexists; eexists; eexists; eexists; eexists. split; [reflexivity|]. split; [reflexivity|].
          apply cache_rel_insert; [exact H1|]. unfold entry_rel, lifetime_x.
          cbn [ve_created ve_life ex_created ex_life ve_var vr_resps ex_vars plain fx_fat]. rewrite Ec, El.
          split; [reflexivity|]. split; [reflexivity|].
          intros r1 Hp. cbn [xv_find v_tuple]. rewrite vfind_insert by exact FL. rewrite <- Ell.
          rewrite <- (own_eqb r1 lr) by congruence.
          destruct (hc_eqb (own lr) (own r1)); [reflexivity | exact (Hv r1 Hp)].
      + destruct (miss_rel cV1 c1 hs now r ov ok I1 H1) as (cV' & c' & hs' & rp & lg & E1 & E2 & H').
        cbn [serveV_phase2 snd]. rewrite E1, E2. eexists; eexists; eexists; eexists; eexists; eexists.
        split; [reflexivity|]. split; [reflexivity | exact H'].
    - destruct L as [-> L]. destruct (miss_rel cV1 c1 hs now r ov ok I1 L) as (cV' & c' & hs' & rp & lg & E1 & E2 & H').
      cbn [serveV_phase2 snd]. rewrite E1, E2. eexists; eexists; eexists; eexists; eexists; eexists.
      split; [reflexivity|]. split; [reflexivity | exact H'].
  Qed.

  Notation stepVn := (stepV hstate compute cache_on ims_on parse_ims sanitize_ok prime negotiate rules_of dbg).
  Notation stepA := (CacheX.stepX hstate computeX cache_on ims_on true true true true true true status_filter_drop parse_ims
                                  sanitize_ok primeX overrideX negotiateX vary_tupleX vary_headerX redirect_target).
  Notation runVn := (runV hstate compute cache_on ims_on parse_ims sanitize_ok prime negotiate rules_of dbg).
  Notation runA := (CacheX.runX hstate computeX cache_on ims_on true true true true true true status_filter_drop parse_ims
                                sanitize_ok primeX overrideX negotiateX vary_tupleX vary_headerX redirect_target).

  Lemma find_rel_none k cV c : cache_rel cV c ->
    match pc_find k cV with None => true | Some _ => false end = match xc_find k c with None => true | Some _ => false end.
  Proof. intros H. specialize (H k). destruct (pc_find k cV), (xc_find k c); try contradiction; reflexivity. Qed.

  Lemma step_rel cV c hs now o :
    InvV hstate compute rules_of cV -> cache_rel cV c ->
    exists cV' c' hs' now' ob calls,
      stepVn (cV, hs) now o = Ok ((cV', hs'), now', ob, calls) /\
      stepA (c, hs) now (opx_of o) = ((c', hs'), now', obx_of ob) /\ cache_rel cV' c'.
  Proof.
    intros I H. destruct o as [r0 | r | | ms]; cbn [stepV CacheX.stepX opx_of].
    - destruct (serve_rel cV c hs now r0 I H) as (cV' & c' & hs' & rp & lg & calls & E1 & E2 & H'). rewrite E1, E2.
      eexists; eexists; eexists; eexists; eexists; eexists. split; [reflexivity|]. split; [reflexivity | exact H'].
    - assert (HU : forall r1 cV1 c1, cache_rel cV1 c1 ->
                vhas_uri r1 cV1 = xhas_uri r1 c1 /\ cache_rel (vclear_uri r1 cV1) (xclear_uri r1 c1)).
      { intros r1 cV1 c1 H1.
        pose proof (find_rel_none (key_pq r1) cV1 c1 H1) as N1. pose proof (find_rel_none (key_p r1) cV1 c1 H1) as N2.
        split.
        - unfold vhas_uri, xhas_uri.
          destruct (pc_find (key_pq r1) cV1), (xc_find (key_pq r1) c1); try discriminate;
            destruct (pc_find (key_p r1) cV1), (xc_find (key_p r1) c1); try discriminate; reflexivity.
        - unfold vclear_uri, xclear_uri. apply cache_rel_remove, cache_rel_remove, H1. }
      destruct (HU r cV c H) as [E1 R1].
      unfold vclear_page, vpage_cleared, xclear_page, xcleared.
      destruct (redirect_target r) as [r'|].
      + destruct (HU r' _ _ R1) as [E2 R2]. rewrite E1, E2.
        eexists; eexists; eexists; eexists; eexists; eexists. split; [reflexivity|]. split; [reflexivity | exact R2].
      + rewrite E1.
        eexists; eexists; eexists; eexists; eexists; eexists. split; [reflexivity|]. split; [reflexivity | exact R1].
    - eexists; eexists; eexists; eexists; eexists; eexists. split; [reflexivity|]. split; [reflexivity | apply cache_rel_nil].
    - eexists; eexists; eexists; eexists; eexists; eexists. split; [reflexivity|]. split; [reflexivity | exact H].
  Qed.

  (** for every history the observations of the vector server are those of Model/CacheX.v's server *)
  Lemma run_rel ops : forall cV c hs now,
    InvV hstate compute rules_of cV -> cache_rel cV c ->
    exists l, runVn (cV, hs) now ops = Ok l /\ map (fun oc => obx_of (fst oc)) l = runA (c, hs) now (map opx_of ops).
  Proof.
    induction ops as [|o ops IH]; intros cV c hs now I H; cbn [runV CacheX.runX map].
    - exists []. split; reflexivity.
    - destruct (step_rel cV c hs now o I H) as (cV' & c' & hs' & now' & ob & calls & E1 & E2 & H').
      destruct (stepV_ok hstate compute cache_on ims_on parse_ims sanitize_ok prime negotiate rules_of dbg cV hs now o I)
        as (st2 & now2 & ob2 & calls2 & E3 & I' & _).
      rewrite E1 in E3. inversion E3; subst st2 now2 ob2 calls2. cbn [fst] in I'.
      rewrite E1, E2. destruct (IH cV' c' hs' now' I' H') as (l & El & Em). rewrite El.
      exists ((ob, calls) :: l). split; [reflexivity|]. cbn [map fst]. rewrite Em. reflexivity.
  Qed.
End RefinesAssoc.

(** ---- 13. with C03: the caching server with variant vectors is transparent ---- *)
Section VaryTransparent.
  Variable hstate : Type.
  Variable compute : hstate -> routed -> bool -> fat * hstate * list bytes.
  Variable ims_on : bool.
  Variable parse_ims : bytes -> option Z.
  Variable sanitize_ok : request -> bool.
  Variable prime : request -> routed.
  Variable negotiate : request -> fat -> option (N * bytes).
  Variable rules_of : bytes -> list rule.
  Variable dbg : bool.
  Hypothesis Hnovary : forall hs q ok, assoc (B "vary") (f_headers (fst (fst (compute hs q ok)))) = None.
  (** the handler contract of C03, with the vary tuple made concrete: the transformed header list under the rules of the
      URI the response is cached under.  For an internal route it says that the handler's response does not depend on
      the page it is served for (kvarn caches it under the internal URI). *)
  Variable cf : routed -> bool -> fat.
  Hypothesis Hpure : forall hs q ok, fst (fst (compute hs q ok)) = cf q ok.
  Hypothesis contract : forall q q',
    get_or_head (rq_method (fst q)) = true -> get_or_head (rq_method (fst q')) = true ->
    vary_tuple_of rules_of (lreq q) = vary_tuple_of rules_of (lreq q') -> cpath q = cpath q' ->
    (qm (cf q true) = true -> path_query (lreq q) = path_query (lreq q')) ->
    cf q true = cf q' true.
  Hypothesis Herr : forall q, f_spref (cf q false) = SP_NONE.

  Lemma rx_equiv a c : replyx_equiv (rx_of a) (rx_of c) -> reply_equiv a c.
  Proof. intros (H1 & H2 & _ & H4 & _ & H6 & _). repeat split; assumption. Qed.

  Lemma vary_transparent ops hs hsU now :
    Forall (op_no_ims ims_on (primeX prime)) ops ->
    exists l lU,
      runV hstate compute true ims_on parse_ims sanitize_ok prime negotiate rules_of dbg ([], hs) now ops = Ok l /\
      runV hstate compute false ims_on parse_ims sanitize_ok prime negotiate rules_of dbg ([], hsU) now ops = Ok lU /\
      Forall2 obs_equiv (map fst l) (map fst lU).
  Proof.
    intros Hno.
    destruct (run_rel hstate compute true ims_on parse_ims sanitize_ok prime negotiate rules_of dbg Hnovary ops [] [] hs now
                (InvV_nil hstate compute rules_of) (cache_rel_nil rules_of)) as (l & El & Em).
    destruct (run_rel hstate compute false ims_on parse_ims sanitize_ok prime negotiate rules_of dbg Hnovary ops [] [] hsU now
                (InvV_nil hstate compute rules_of) (cache_rel_nil rules_of)) as (lU & ElU & EmU).
    exists l, lU. split; [exact El|]. split; [exact ElU|].
    assert (Hsim : Forall2 obsx_equiv (map (fun oc => obx_of (fst oc)) l) (map (fun oc => obx_of (fst oc)) lU)).
    { rewrite Em, EmU.
      apply (run_simx hstate (computeX hstate compute) ims_on true status_filter_drop parse_ims sanitize_ok (primeX prime) (overrideX prime)
               (negotiateX negotiate) (vary_tupleX rules_of) (vary_headerX rules_of) redirect_target
               (fun r (ov : ovr) ok => plain (cf (r, ov) ok))).
      - intros hs0 r ov ok. unfold computeX. pose proof (Hpure hs0 (@pair request ovr r ov) ok) as Hp.
        destruct (compute hs0 (@pair request ovr r ov) ok) as [[f hs'] lg]. cbn [fst] in *. rewrite Hp. reflexivity.
      - intros r ov r' ov' G G' Ht Hp Hq. f_equal. apply (contract (r, ov) (r', ov')).
        + exact G.
        + exact G'.
        + exact Ht.
        + exact Hp.
        + exact Hq.
      - intros r ov. cbn [plain fx_fat]. apply Herr.
      - apply TInv_nil.
      - clear -Hno. induction Hno as [|o ops Ho _ IH]; cbn [map]; constructor; [|exact IH].
        destruct o; exact Ho || exact Logic.I. }
    clear -Hsim. revert lU Hsim. induction l as [|[a ca] l IH]; intros [|[c cc] lU] Hsim; cbn [map fst] in *;
      inversion Hsim; subst; constructor.
    - destruct a as [ra lga | |], c as [rc lgc | |]; cbn [obx_of obsx_equiv obs_equiv] in *; try assumption; try contradiction.
      apply rx_equiv. assumption.
    - apply IH. assumption.
  Qed.
End VaryTransparent.
