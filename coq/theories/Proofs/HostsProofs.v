(** C15 — proofs about Model/Hosts.v *)
From KV Require Import Bytes Hosts.
From Coq Require Import ZifyBool ZifyNat ZifyN.
Open Scope N_scope.
Arguments N.add : simpl never. Arguments N.sub : simpl never. Arguments N.mul : simpl never.
Arguments N.eqb : simpl never. Arguments N.ltb : simpl never. Arguments N.leb : simpl never.

(** ---- bytes ---------------------------------------------------------------------- *)
Lemma beq_sym a c : beq a c = beq c a.
Proof.
  destruct (beq a c) eqn:E1, (beq c a) eqn:E2; try reflexivity.
  - apply beq_eq in E1. subst. rewrite beq_refl in E2. discriminate.
  - apply beq_eq in E2. subst. rewrite beq_refl in E1. discriminate.
Qed.

Lemma beq_false_neq a c : beq a c = false <-> a <> c.
Proof.
  split.
  - intros H E. subst. rewrite beq_refl in H. discriminate.
  - intros H. destruct (beq a c) eqn:E; [apply beq_eq in E; contradiction | reflexivity].
Qed.

(** ---- the map ---------------------------------------------------------------------- *)
Lemma hm_get_remove k k' m :
  hm_get k' (hm_remove k m) = if beq k k' then None else hm_get k' m.
Proof.
  induction m as [|[k0 v] m IH]; cbn [hm_remove hm_get].
  - destruct (beq k k'); reflexivity.
  - destruct (beq k0 k) eqn:E0.
    + apply beq_eq in E0. subst k0. rewrite IH. destruct (beq k k'); reflexivity.
    + cbn [hm_get]. rewrite IH. destruct (beq k k') eqn:E1; [|reflexivity].
      apply beq_eq in E1. subst k'. rewrite E0. reflexivity.
Qed.

Lemma hm_get_insert k v k' m :
  hm_get k' (hm_insert k v m) = if beq k' k then Some v else hm_get k' m.
Proof.
  unfold hm_insert. cbn [hm_get]. rewrite hm_get_remove, (beq_sym k' k).
  destruct (beq k k'); reflexivity.
Qed.

Lemma get_insert_alts name alts : forall m n,
  hm_get n (insert_alts name alts m) = if existsb (beq n) alts then Some (HRef name) else hm_get n m.
Proof.
  unfold insert_alts.
  induction alts as [|a alts IH]; intros m n; cbn [fold_left existsb]; [reflexivity|].
  rewrite IH, hm_get_insert.
  destruct (existsb (beq n) alts), (beq n a); reflexivity.
Qed.

(** [insert] at the level of the map. *)
Definition insert_map (id : nat) (h : hostcfg) (m : hmap) : hmap :=
  hm_insert (h_name h) (HHost {| hid := id; hname := h_name h |}) (insert_alts (h_name h) (h_alts h) m).

Lemma get_insert_map id h m n :
  hm_get n (insert_map id h m) =
  if beq n (h_name h) then Some (HHost {| hid := id; hname := h_name h |})
  else if existsb (beq n) (h_alts h) then Some (HRef (h_name h))
  else hm_get n m.
Proof. unfold insert_map. rewrite hm_get_insert, get_insert_alts. reflexivity. Qed.

Lemma named_unfold n h : named n h = beq n (h_name h) || existsb (beq n) (h_alts h).
Proof. reflexivity. Qed.

Lemma named_own h : named (h_name h) h = true.
Proof. rewrite named_unfold, beq_refl. reflexivity. Qed.

Fixpoint insert_maps (id : nat) (hs : list hostcfg) (m : hmap) : hmap :=
  match hs with
  | [] => m
  | h :: r => insert_maps (S id) r (insert_map id h m)
  end.

(** ---- [resolve] -------------------------------------------------------------------- *)
Lemma resolve_host fuel m k h : hm_get k m = Some (HHost h) -> resolve fuel m k = Ok (Some h).
Proof. intros H. destruct fuel; cbn [resolve]; rewrite H; reflexivity. Qed.

Lemma resolve_none fuel m k : hm_get k m = None -> resolve fuel m k = Ok None.
Proof. intros H. destruct fuel; cbn [resolve]; rewrite H; reflexivity. Qed.

Lemma resolve_ref fuel m k r : hm_get k m = Some (HRef r) -> resolve (S fuel) m k = resolve fuel m r.
Proof. intros H. cbn [resolve]. rewrite H. reflexivity. Qed.

(** ---- [owner] ---------------------------------------------------------------------- *)
Lemma owner_none id hs n : (forall h, In h hs -> named n h = false) -> owner id hs n = None.
Proof.
  revert id; induction hs as [|h rest IH]; intros id H; cbn [owner]; [reflexivity|].
  rewrite IH by (intros h' Hin; apply H; right; exact Hin).
  rewrite (H h) by (left; reflexivity). reflexivity.
Qed.

Lemma owner_some_named id hs n r : owner id hs n = Some r -> exists h, In h hs /\ named n h = true.
Proof.
  revert id r; induction hs as [|h rest IH]; intros id r H; cbn [owner] in H; [discriminate|].
  destruct (owner (S id) rest n) as [r'|] eqn:E.
  - apply IH in E as [h' [Hin Hn]]. exists h'. split; [right; exact Hin | exact Hn].
  - destruct (named n h) eqn:Hn; [|discriminate]. exists h. split; [left; reflexivity | exact Hn].
Qed.

Lemma owner_none_iff id hs n : owner id hs n = None <-> (forall h, In h hs -> named n h = false).
Proof.
  split; [|apply owner_none].
  revert id; induction hs as [|h rest IH]; intros id H h' Hin; [destruct Hin|].
  cbn [owner] in H.
  destruct (owner (S id) rest n) eqn:E; [discriminate|].
  destruct (named n h) eqn:Hn.
  - destruct (owner (S id) rest (h_name h)); discriminate.
  - destruct Hin as [<-|Hin]; [exact Hn | eapply IH; eassumption].
Qed.

(** The host found for a name is one of the configured hosts, with its own name. *)
Lemma owner_is_host id hs n r :
  owner id hs n = Some r ->
  exists h, (id <= hid r)%nat /\ nth_error hs (hid r - id) = Some h /\ hname r = h_name h.
Proof.
  revert id n; induction hs as [|h rest IH]; intros id n H; cbn [owner] in H; [discriminate|].
  assert (Hrest : forall k, owner (S id) rest k = Some r ->
            exists h0, (id <= hid r)%nat /\ nth_error (h :: rest) (hid r - id) = Some h0 /\ hname r = h_name h0).
  { intros k Hk. apply IH in Hk as [h0 [Hle [Hnth Hname]]]. exists h0. split; [lia|]. split; [|exact Hname].
    replace (hid r - id)%nat with (S (hid r - S id)) by lia. exact Hnth. }
  destruct (owner (S id) rest n) as [r'|] eqn:E.
  - inversion H; subst r'. eapply Hrest; eassumption.
  - destruct (named n h); [|discriminate].
    destruct (owner (S id) rest (h_name h)) as [r'|] eqn:E2.
    + inversion H; subst r'. eapply Hrest; eassumption.
    + inversion H; subst r. cbn [hid hname]. exists h. split; [lia|].
      rewrite Nat.sub_diag. split; reflexivity.
Qed.

(** The host found for a name is found for its own name, too (the second lookup of
    [handle_connection] returns the same host). *)
Lemma owner_idem id hs n r : owner id hs n = Some r -> owner id hs (hname r) = Some r.
Proof.
  revert id n; induction hs as [|h rest IH]; intros id n H; cbn [owner] in H |- *; [discriminate|].
  destruct (owner (S id) rest n) as [r'|] eqn:E.
  - inversion H; subst r'. rewrite (IH _ _ E). reflexivity.
  - destruct (named n h); [|discriminate].
    destruct (owner (S id) rest (h_name h)) as [r'|] eqn:E2.
    + inversion H; subst r'. rewrite (IH _ _ E2). reflexivity.
    + inversion H; subst r. cbn [hname]. rewrite E2, named_own. reflexivity.
Qed.

(** ---- main lemma: after any sequence of inserts, following references from a name
    reaches [owner]'s host within [length hs] steps; names nobody mentions are untouched. *)
Lemma resolve_insert_maps hs : forall id m n,
  (owner id hs n <> None -> forall fuel, (length hs <= fuel)%nat ->
     resolve fuel (insert_maps id hs m) n = Ok (owner id hs n)) /\
  (owner id hs n = None -> hm_get n (insert_maps id hs m) = hm_get n m).
Proof.
  induction hs as [|h rest IH]; intros id m n; cbn [owner insert_maps].
  - split; [intros H; contradiction | reflexivity].
  - set (m' := insert_map id h m).
    destruct (IH (S id) m' n) as [IH1 IH2].
    destruct (owner (S id) rest n) as [r|] eqn:E.
    + split; [|discriminate]. intros _ fuel Hf. apply IH1; [discriminate | cbn [length] in Hf; lia].
    + specialize (IH2 eq_refl).
      destruct (named n h) eqn:Hn.
      * split.
        2:{ destruct (owner (S id) rest (h_name h)); discriminate. }
        intros _ fuel Hf. cbn [length] in Hf.
        destruct fuel as [|f]; [lia|].
        assert (Hget : hm_get n (insert_maps (S id) rest m') = hm_get n m') by exact IH2.
        unfold m' in Hget at 2. rewrite get_insert_map in Hget.
        destruct (beq n (h_name h)) eqn:Hb.
        -- apply beq_eq in Hb. subst n. rewrite E.
           apply resolve_host. exact Hget.
        -- rewrite named_unfold, Hb in Hn. cbn [orb] in Hn. rewrite Hn in Hget.
           rewrite (resolve_ref _ _ _ _ Hget).
           destruct (IH (S id) m' (h_name h)) as [IHn1 IHn2].
           destruct (owner (S id) rest (h_name h)) as [r|] eqn:E2.
           ++ apply IHn1; [discriminate | lia].
           ++ apply resolve_host. rewrite (IHn2 eq_refl). unfold m'.
              rewrite get_insert_map, beq_refl. reflexivity.
      * split; [intros H; contradiction|]. intros _.
        rewrite IH2. unfold m'. rewrite get_insert_map.
        rewrite named_unfold in Hn. apply orb_false_iff in Hn as [-> ->]. reflexivity.
Qed.

(** ---- the builder ------------------------------------------------------------------- *)
Definition hosts_of (ops : list op) : list hostcfg := map snd ops.

Lemma insert_by_name id h c : c_by_name (insert id h c) = insert_map id h (c_by_name c).
Proof. reflexivity. Qed.

Definition first_name (c : collection) (hs : list hostcfg) : option bytes :=
  match c_first c with
  | Some f => Some f
  | None => match hs with [] => None | h :: _ => Some (h_name h) end
  end.

Definition default_name (id : nat) (c : collection) (ops : list op) : option bytes :=
  match c_default c with
  | Some d => Some d
  | None => match default_index id ops with
            | Some d => option_map h_name (nth_error (hosts_of ops) (d - id))
            | None => None
            end
  end.

Lemma build_from_ok ops : forall id c c',
  build_from id ops c = Ok c' ->
  c_by_name c' = insert_maps id (hosts_of ops) (c_by_name c) /\
  c_inserts c' = (c_inserts c + length ops)%nat /\
  c_first c' = first_name c (hosts_of ops) /\
  c_default c' = default_name id c ops.
Proof.
  induction ops as [|[d h] rest IH]; intros id c c' H; cbn [build_from] in H.
  - inversion H; subst c'. unfold first_name, default_name. cbn [hosts_of map insert_maps length default_index].
    repeat split; [lia | destruct (c_first c); reflexivity | destruct (c_default c); reflexivity].
  - destruct d.
    + unfold set_default in H. destruct (c_default c) eqn:Hd; [discriminate|].
      apply IH in H as [Hm [Hi [Hf Hdf]]].
      cbn [hosts_of map insert_maps length default_index] in *.
      rewrite Hm, Hi, Hf, Hdf. unfold first_name, default_name.
      cbn [insert c_by_name c_inserts c_first c_default snd]. rewrite Hd.
      repeat split; [lia | destruct (c_first c); reflexivity |].
      cbn [default_index hosts_of map snd]. rewrite Nat.sub_diag. reflexivity.
    + apply IH in H as [Hm [Hi [Hf Hdf]]].
      cbn [hosts_of map insert_maps length default_index] in *.
      rewrite Hm, Hi, Hf, Hdf. unfold first_name, default_name.
      cbn [insert c_by_name c_inserts c_first c_default snd].
      repeat split; [lia | destruct (c_first c); reflexivity |].
      destruct (c_default c); [reflexivity|].
      cbn [default_index hosts_of map snd].
      destruct (default_index (S id) rest) as [d|] eqn:Hd; [|reflexivity].
      assert (Hle : (S id <= d)%nat).
      { clear -Hd. revert id Hd. induction rest as [|[d0 h0] rest IHr]; intros id Hd; cbn [default_index] in Hd; [discriminate|].
        destruct d0; [inversion Hd; lia | apply IHr in Hd; lia]. }
      replace (d - id)%nat with (S (d - S id)) by lia. reflexivity.
Qed.

(** The builder panics exactly when [.default] is called twice. *)
Fixpoint count_defaults (ops : list op) : nat :=
  match ops with
  | [] => O
  | (d, _) :: rest => ((if d then 1 else 0) + count_defaults rest)%nat
  end.

Definition has_default (c : collection) : nat := match c_default c with Some _ => 1 | None => 0 end.

Lemma build_from_panics ops : forall id c,
  (2 <= has_default c + count_defaults ops)%nat -> build_from id ops c = Panic.
Proof.
  induction ops as [|[d h] rest IH]; intros id c H; cbn [build_from count_defaults] in *.
  - unfold has_default in H. destruct (c_default c); lia.
  - destruct d.
    + unfold set_default. unfold has_default in H. destruct (c_default c) eqn:Hd; [reflexivity|].
      apply IH. unfold has_default. cbn [insert c_default]. lia.
    + apply IH. unfold has_default in *. cbn [insert c_default]. lia.
Qed.

Lemma build_from_succeeds ops : forall id c,
  ((match c_default c with Some _ => 1 | None => 0 end) + count_defaults ops <= 1)%nat ->
  exists c', build_from id ops c = Ok c'.
Proof.
  induction ops as [|[d h] rest IH]; intros id c H; cbn [build_from count_defaults] in *.
  - eexists; reflexivity.
  - destruct d.
    + unfold set_default. destruct (c_default c) eqn:Hd; [lia|].
      apply IH. cbn [insert c_default]. lia.
    + apply IH. cbn [insert c_default]. destruct (c_default c); lia.
Qed.

Lemma build_panics ops : (2 <= count_defaults ops)%nat -> build ops = Panic.
Proof.
  intros H. unfold build. apply build_from_panics. unfold has_default. cbn [empty_collection c_default]. lia.
Qed.

Lemma build_succeeds ops : (count_defaults ops <= 1)%nat -> exists c, build ops = Ok c.
Proof. intros H. apply build_from_succeeds. cbn [empty_collection c_default]. lia. Qed.

Lemma build_ok_defaults ops c : build ops = Ok c -> (count_defaults ops <= 1)%nat.
Proof.
  intros H. destruct (Nat.leb_spec (count_defaults ops) 1) as [Hle|Hgt]; [exact Hle|].
  rewrite build_panics in H by lia. discriminate.
Qed.

(** ---- [get_host] on a built collection ---------------------------------------------- *)
Definition own (ops : list op) (n : bytes) : option host := owner O (hosts_of ops) n.

Lemma get_host_owner ops c n : build ops = Ok c -> get_host V1 c n = Ok (own ops n).
Proof.
  intros H. apply build_from_ok in H as [Hm [Hi _]].
  cbn [empty_collection c_by_name c_inserts] in Hm, Hi.
  unfold get_host, own. rewrite Hm, Hi.
  destruct (resolve_insert_maps (hosts_of ops) O [] n) as [H1 H2].
  destruct (owner O (hosts_of ops) n) as [r|] eqn:E.
  - apply H1; [discriminate|]. unfold hosts_of. rewrite map_length. apply Nat.le_refl.
  - apply resolve_none. rewrite (H2 eq_refl). reflexivity.
Qed.

(** The loop of [get_host] never runs out of the model's fuel: it terminates. *)
Lemma get_host_fuel_suffices ops c n : build ops = Ok c -> get_host V1 c n <> Err E_FUEL.
Proof. intros H. rewrite (get_host_owner _ _ _ H). discriminate. Qed.

(** ---- string helpers --------------------------------------------------------------- *)
Lemma strip_suffix_dot_snoc p c : strip_suffix_dot (p ++ [c]) = if N.eqb c c_dot then Some p else None.
Proof.
  induction p as [|x p IH]; [reflexivity|].
  change ((x :: p) ++ [c]) with (x :: (p ++ [c])).
  cbn [strip_suffix_dot]. rewrite IH.
  destruct (p ++ [c]) eqn:E; [destruct p; discriminate|].
  destruct (N.eqb c c_dot); reflexivity.
Qed.

Lemma without_dot_snoc p c : without_dot (p ++ [c]) = if N.eqb c c_dot then Some p else None.
Proof.
  unfold without_dot. rewrite rev_app_distr. cbn [rev app].
  unfold c_dot. destruct (N.eqb_spec c 46) as [->|Hne].
  - rewrite rev_involutive. reflexivity.
  - destruct c as [|p0]; [reflexivity|].
    do 6 (destruct p0 as [p0|p0|]; try reflexivity). contradiction Hne. reflexivity.
Qed.

Lemma strip_suffix_dot_spec n : strip_suffix_dot n = without_dot n.
Proof.
  destruct n as [|x n] using rev_ind; [reflexivity|].
  rewrite strip_suffix_dot_snoc, without_dot_snoc. reflexivity.
Qed.

Lemma without_dot_some n p : without_dot n = Some p <-> n = p ++ [46].
Proof.
  split.
  - destruct n as [|x n _] using rev_ind; [discriminate|].
    rewrite without_dot_snoc. unfold c_dot. destruct (N.eqb_spec x 46); [|discriminate].
    intros H; inversion H; subst. reflexivity.
  - intros ->. rewrite without_dot_snoc. reflexivity.
Qed.

Lemma before_colon_form l : forallb (fun c => negb (N.eqb c c_colon)) l = true ->
  forall n, beq (before_colon n) l = beq n l || starts_with (l ++ [c_colon]) n.
Proof.
  induction l as [|x l IH]; intros Hl n.
  - destruct n as [|c r]; [reflexivity|]. cbn [before_colon app starts_with beq].
    rewrite (N.eqb_sym c_colon c). destruct (N.eqb c c_colon); reflexivity.
  - cbn [forallb] in Hl. apply andb_true_iff in Hl as [Hx Hl].
    destruct n as [|c r]; [reflexivity|].
    cbn [before_colon app starts_with beq].
    destruct (N.eqb_spec c c_colon) as [->|Hc].
    + cbn [beq]. rewrite (N.eqb_sym c_colon x).
      apply negb_true_iff in Hx. rewrite Hx. reflexivity.
    + cbn [beq]. rewrite (IH Hl r), (N.eqb_sym x c).
      destruct (N.eqb c x), (beq r l), (starts_with (l ++ [c_colon]) r); reflexivity.
Qed.

Lemma strip_prefix_form l : forall n,
  match strip_prefix l n with
  | Some rest => match rest with [] => true | c :: _ => N.eqb c c_colon end
  | None => false
  end = beq n l || starts_with (l ++ [c_colon]) n.
Proof.
  induction l as [|x l IH]; intros n.
  - cbn [strip_prefix app starts_with]. destruct n as [|c r]; [reflexivity|].
    cbn [beq orb andb]. rewrite (N.eqb_sym c_colon c). destruct (N.eqb c c_colon); reflexivity.
  - destruct n as [|c r]; [reflexivity|].
    cbn [strip_prefix app starts_with beq]. rewrite (N.eqb_sym c x).
    destruct (N.eqb x c); [apply IH | reflexivity].
Qed.

Lemma is_loopback_spec n : is_loopback V1 n = loopback_form n.
Proof.
  unfold is_loopback, loopback_form. cbn [existsb].
  rewrite (before_colon_form s_localhost eq_refl), (before_colon_form s_127 eq_refl).
  rewrite (strip_prefix_form s_v6b n).
  change [58] with [c_colon].
  destruct (beq n s_v6), (beq n s_localhost), (starts_with (s_localhost ++ [c_colon]) n),
    (beq n s_127), (starts_with (s_127 ++ [c_colon]) n), (beq n s_v6b), (starts_with (s_v6b ++ [c_colon]) n);
    reflexivity.
Qed.

Lemma hv_to_str_spec v :
  hv_to_str v = if forallb (fun c => ((32 <=? c) && (c <=? 126)) || (c =? 9)) v then Some v else None.
Proof.
  unfold hv_to_str.
  replace (forallb hv_visible v) with (forallb (fun c => ((32 <=? c) && (c <=? 126)) || (c =? 9)) v); [reflexivity|].
  induction v as [|c v IH]; [reflexivity|]. cbn [forallb]. rewrite IH. f_equal.
  unfold hv_visible. f_equal. f_equal. lia.
Qed.

Lemma requested_name_spec sni hh :
  match sni with
  | Some s => Some s
  | None => match hh with [] => None | hv :: _ => hv_to_str hv end
  end = requested_name sni (hd_error hh).
Proof.
  unfold requested_name. destruct sni; [reflexivity|].
  destruct hh as [|hv hh]; [reflexivity|]. cbn [hd_error]. apply hv_to_str_spec.
Qed.

(** ---- routing on a built collection, for every configuration --------------------------- *)
Definition omap {A C} (f : A -> C) (o : outcome (option A)) : outcome (option C) :=
  match o with
  | Ok x => Ok (option_map f x)
  | Err e => Err e
  | Panic => Panic
  end.

(** [default] and [first] are names; they denote whoever owns the name now. *)
Definition dflt_owner (ops : list op) : option host :=
  match default_index O ops with
  | Some d => match nth_error (hosts_of ops) d with Some h => own ops (h_name h) | None => None end
  | None => None
  end.
Definition first_owner (ops : list op) : option host :=
  match hosts_of ops with [] => None | h :: _ => own ops (h_name h) end.

Definition route_general (ops : list op) (sni host_header : option bytes) : option host :=
  match requested_name sni host_header with
  | None => dflt_owner ops
  | Some n =>
      first_some (own ops n)
     (first_some (match without_dot n with Some n' => own ops n' | None => None end)
     (first_some (dflt_owner ops)
                 (if loopback_form n then first_owner ops else None)))
  end.

Lemma default_index_bound ops : forall id d, default_index id ops = Some d ->
  (id <= d)%nat /\ exists h, nth_error (hosts_of ops) (d - id) = Some h.
Proof.
  induction ops as [|[d0 h0] rest IH]; intros id d H; cbn [default_index] in H; [discriminate|].
  destruct d0.
  - inversion H; subst. split; [lia|]. rewrite Nat.sub_diag. exists h0. reflexivity.
  - apply IH in H as [Hle [h Hn]]. split; [lia|]. exists h.
    replace (d - id)%nat with (S (d - S id)) by lia. exact Hn.
Qed.

Lemma get_default_owner ops c : build ops = Ok c -> get_default V1 c = Ok (dflt_owner ops).
Proof.
  intros H. unfold get_default, dflt_owner.
  pose proof (build_from_ok _ _ _ _ H) as [_ [_ [_ Hd]]].
  unfold default_name in Hd. cbn [empty_collection c_default] in Hd. rewrite Hd.
  destruct (default_index O ops) as [d|] eqn:E; [|reflexivity].
  rewrite Nat.sub_0_r.
  destruct (default_index_bound _ _ _ E) as [_ [h Hn]]. rewrite Nat.sub_0_r in Hn. rewrite Hn.
  cbn [option_map]. apply get_host_owner. exact H.
Qed.

Lemma get_or_default_general ops c n : build ops = Ok c ->
  get_or_default V1 c n =
  Ok (first_some (own ops n)
     (first_some (match without_dot n with Some n' => own ops n' | None => None end)
     (first_some (dflt_owner ops)
                 (if loopback_form n then first_owner ops else None)))).
Proof.
  intros H. unfold get_or_default.
  rewrite (get_host_owner _ _ _ H), strip_suffix_dot_spec, (get_default_owner _ _ H), is_loopback_spec.
  destruct (own ops n) as [r|]; [reflexivity|]. cbn [or_else first_some].
  assert (Hdot : match without_dot n with Some name' => get_host V1 c name' | None => Ok None end
                 = Ok (match without_dot n with Some n' => own ops n' | None => None end)).
  { destruct (without_dot n); [apply get_host_owner; exact H | reflexivity]. }
  rewrite Hdot.
  destruct (match without_dot n with Some n' => own ops n' | None => None end) as [r|]; [reflexivity|].
  cbn [or_else first_some].
  destruct (dflt_owner ops) as [r|]; [reflexivity|]. cbn [or_else first_some].
  destruct (loopback_form n); [|reflexivity].
  pose proof (build_from_ok _ _ _ _ H) as [_ [_ [Hf _]]].
  unfold first_name in Hf. cbn [empty_collection c_first] in Hf. rewrite Hf.
  unfold first_owner. destruct (hosts_of ops) as [|h hs]; [reflexivity|].
  apply get_host_owner. exact H.
Qed.

(** [get_from_request] is total on every collection the builder produces, and equals the
    general reference resolver. *)
Lemma get_from_request_general ops c sni hh : build ops = Ok c ->
  get_from_request V1 c sni hh = Ok (route_general ops sni (hd_error hh)).
Proof.
  intros H. unfold get_from_request, route_general. rewrite requested_name_spec.
  destruct (requested_name sni (hd_error hh)) as [n|]; cbn [get_option_or_default].
  - apply get_or_default_general. exact H.
  - apply get_default_owner. exact H.
Qed.

Lemma route_general_reference ops sni hdr :
  option_map hid (route_general ops sni hdr) = reference_general ops sni hdr.
Proof.
  unfold route_general, reference_general, dflt_owner, first_owner, own, hosts_of.
  destruct (requested_name sni hdr) as [n|].
  2:{ destruct (default_index O ops); [|reflexivity]. destruct (nth_error (map snd ops) n); reflexivity. }
  destruct (owner O (map snd ops) n); [reflexivity|]. cbn [first_some option_map].
  destruct (without_dot n) as [n'|].
  - destruct (owner O (map snd ops) n'); [reflexivity|]. cbn [first_some option_map].
    destruct (default_index O ops) as [d|].
    + destruct (nth_error (map snd ops) d) as [h|].
      * destruct (owner O (map snd ops) (h_name h)); [reflexivity|]. cbn [first_some option_map].
        destruct (loopback_form n); [|reflexivity]. destruct (map snd ops); reflexivity.
      * cbn [first_some option_map]. destruct (loopback_form n); [|reflexivity]. destruct (map snd ops); reflexivity.
    + cbn [first_some option_map]. destruct (loopback_form n); [|reflexivity]. destruct (map snd ops); reflexivity.
  - cbn [first_some option_map].
    destruct (default_index O ops) as [d|].
    + destruct (nth_error (map snd ops) d) as [h|].
      * destruct (owner O (map snd ops) (h_name h)); [reflexivity|]. cbn [first_some option_map].
        destruct (loopback_form n); [|reflexivity]. destruct (map snd ops); reflexivity.
      * cbn [first_some option_map]. destruct (loopback_form n); [|reflexivity]. destruct (map snd ops); reflexivity.
    + cbn [first_some option_map]. destruct (loopback_form n); [|reflexivity]. destruct (map snd ops); reflexivity.
Qed.

Lemma routing_general ops c sni hh : build ops = Ok c ->
  omap hid (get_from_request V1 c sni hh) = Ok (reference_general ops sni (hd_error hh)).
Proof.
  intros H. rewrite (get_from_request_general _ _ _ _ H). cbn [omap].
  rewrite route_general_reference. reflexivity.
Qed.

(** ---- without overlap: the simple reference resolver ------------------------------------ *)
Lemma owner_find id hs n : no_overlap hs -> option_map hid (owner id hs n) = find_named id hs n.
Proof.
  revert id; induction hs as [|h rest IH]; intros id Hno; cbn [owner find_named]; [reflexivity|].
  destruct Hno as [Hh Hrest].
  destruct (owner (S id) rest n) as [r|] eqn:E.
  - destruct (owner_some_named _ _ _ _ E) as [h' [Hin Hn']].
    destruct (named n h) eqn:Hn.
    + rewrite (Hh n h' Hn Hin) in Hn'. discriminate.
    + rewrite <- (IH (S id) Hrest), E. reflexivity.
  - destruct (named n h) eqn:Hn.
    + rewrite owner_none; [reflexivity|].
      intros h' Hin. apply (Hh (h_name h) h' (named_own h) Hin).
    + rewrite <- (IH (S id) Hrest), E. reflexivity.
Qed.

Lemma find_named_nth hs : forall id d h n, no_overlap hs -> nth_error hs d = Some h -> named n h = true ->
  find_named id hs n = Some (id + d)%nat.
Proof.
  induction hs as [|h0 rest IH]; intros id d h n Hno Hnth Hn; [destruct d; discriminate|].
  destruct Hno as [Hh Hrest]. cbn [find_named].
  destruct d as [|d].
  - cbn [nth_error] in Hnth. inversion Hnth; subst h0. rewrite Hn. f_equal. lia.
  - cbn [nth_error] in Hnth.
    destruct (named n h0) eqn:Hn0.
    + rewrite (Hh n h Hn0 (nth_error_In _ _ Hnth)) in Hn. discriminate.
    + rewrite (IH (S id) d h n Hrest Hnth Hn). f_equal. lia.
Qed.

Lemma no_overlapb_spec hs : no_overlapb hs = true <-> no_overlap hs.
Proof.
  induction hs as [|h rest IH]; cbn [no_overlapb no_overlap]; [tauto|].
  rewrite andb_true_iff, IH, forallb_forall.
  split; intros [H1 H2]; (split; [|exact H2]).
  - intros n h' Hn Hin. unfold named in Hn. apply existsb_exists in Hn as [k [Hk Hb]].
    apply beq_eq in Hb. subst k. specialize (H1 n Hk). rewrite forallb_forall in H1.
    apply negb_true_iff. apply H1. exact Hin.
  - intros n Hn. apply forallb_forall. intros h' Hin. apply negb_true_iff.
    apply (H1 n h'); [|exact Hin]. unfold named. apply existsb_exists. exists n. split; [exact Hn | apply beq_refl].
Qed.

Lemma reference_general_simple ops sni hdr : no_overlap (hosts_of ops) ->
  reference_general ops sni hdr = reference (hosts_of ops) (default_index O ops) sni hdr.
Proof.
  intros Hno. unfold reference_general, reference. fold (hosts_of ops).
  assert (Hown : forall n, option_map hid (owner O (hosts_of ops) n) = find_named O (hosts_of ops) n)
    by (intros n; apply owner_find; exact Hno).
  assert (Hd : match default_index O ops with
               | Some d => match nth_error (hosts_of ops) d with
                           | Some h => option_map hid (owner O (hosts_of ops) (h_name h)) | None => None end
               | None => None end = default_index O ops).
  { destruct (default_index O ops) as [d|] eqn:E; [|reflexivity].
    destruct (default_index_bound _ _ _ E) as [_ [h Hn]]. rewrite Nat.sub_0_r in Hn. rewrite Hn, Hown.
    rewrite (find_named_nth _ O d h (h_name h) Hno Hn (named_own h)). reflexivity. }
  rewrite Hd.
  destruct (requested_name sni hdr) as [n|]; [|reflexivity].
  rewrite Hown.
  replace (match without_dot n with Some n' => option_map hid (owner O (hosts_of ops) n') | None => None end)
    with (match without_dot n with Some n' => find_named O (hosts_of ops) n' | None => None end)
    by (destruct (without_dot n); [rewrite Hown|]; reflexivity).
  do 3 f_equal.
  destruct (loopback_form n); [|reflexivity].
  destruct (hosts_of ops) as [|h hs] eqn:Ehs; [reflexivity|].
  rewrite Hown. cbn [find_named]. rewrite named_own. reflexivity.
Qed.

Lemma routing_reference ops c sni hh : build ops = Ok c -> no_overlap (hosts_of ops) ->
  omap hid (get_from_request V1 c sni hh) = Ok (reference (hosts_of ops) (default_index O ops) sni (hd_error hh)).
Proof.
  intros H Hno. rewrite (routing_general _ _ _ _ H). rewrite reference_general_simple by exact Hno. reflexivity.
Qed.

(** The host returned is the configured host with that index. *)
Lemma routed_host_is_configured ops c sni hh r : build ops = Ok c ->
  get_from_request V1 c sni hh = Ok (Some r) ->
  exists h, nth_error (hosts_of ops) (hid r) = Some h /\ hname r = h_name h.
Proof.
  intros H Hr. rewrite (get_from_request_general _ _ _ _ H) in Hr. inversion Hr as [Hr'].
  assert (Hown : forall n, own ops n = Some r -> exists h, nth_error (hosts_of ops) (hid r) = Some h /\ hname r = h_name h).
  { intros n Hn. apply owner_is_host in Hn as [h [_ [Hn Hname]]]. rewrite Nat.sub_0_r in Hn. exists h. tauto. }
  assert (Hd : dflt_owner ops = Some r -> exists h, nth_error (hosts_of ops) (hid r) = Some h /\ hname r = h_name h).
  { unfold dflt_owner. destruct (default_index O ops); [|discriminate].
    destruct (nth_error (hosts_of ops) n); [apply Hown | discriminate]. }
  unfold route_general in Hr'.
  destruct (requested_name sni (hd_error hh)) as [n|]; [|apply Hd; exact Hr'].
  destruct (own ops n) eqn:E1; [cbn in Hr'; inversion Hr'; subst; eapply Hown; eassumption|].
  cbn [first_some] in Hr'.
  destruct (match without_dot n with Some n' => own ops n' | None => None end) eqn:E2.
  { cbn in Hr'. inversion Hr'; subst. destruct (without_dot n); [eapply Hown; eassumption | discriminate]. }
  cbn [first_some] in Hr'.
  destruct (dflt_owner ops) eqn:E3; [cbn in Hr'; inversion Hr'; subst; apply Hd; reflexivity|].
  cbn [first_some] in Hr'.
  destruct (loopback_form n); [|discriminate].
  unfold first_owner in Hr'. destruct (hosts_of ops) eqn:E4; [discriminate|].
  rewrite <- E4 in *. eapply Hown; eassumption.
Qed.

(** ---- the choice in [handle_connection] ----------------------------------------------- *)
Lemma route_general_idem ops sni hdr r : route_general ops sni hdr = Some r -> own ops (hname r) = Some r.
Proof.
  assert (Hown : forall n, own ops n = Some r -> own ops (hname r) = Some r) by (intros n; apply owner_idem).
  assert (Hd : dflt_owner ops = Some r -> own ops (hname r) = Some r).
  { unfold dflt_owner. destruct (default_index O ops); [|discriminate].
    destruct (nth_error (hosts_of ops) n); [apply Hown | discriminate]. }
  unfold route_general.
  destruct (requested_name sni hdr) as [n|]; [|exact Hd].
  destruct (own ops n) eqn:E1; [cbn; intros H; inversion H; subst; eapply Hown; eassumption|].
  cbn [first_some].
  destruct (match without_dot n with Some n' => own ops n' | None => None end) eqn:E2.
  { cbn. intros H; inversion H; subst. destruct (without_dot n); [eapply Hown; eassumption | discriminate]. }
  cbn [first_some].
  destruct (dflt_owner ops) eqn:E3; [cbn; intros H; inversion H; subst; apply Hd; reflexivity|].
  cbn [first_some].
  destruct (loopback_form n); [|discriminate].
  unfold first_owner. destruct (hosts_of ops) eqn:E4; [discriminate|].
  apply Hown.
Qed.

Lemma choose_host_general ops c sni hh : build ops = Ok c ->
  choose_host V1 c sni hh =
  Ok (match route_general ops sni (hd_error hh) with Some r => ServeWith r | None => Refuse409 end).
Proof.
  intros H. unfold choose_host. rewrite (get_from_request_general _ _ _ _ H).
  destruct (route_general ops sni (hd_error hh)) as [r|] eqn:E; [|reflexivity].
  rewrite (get_host_owner _ _ _ H), (route_general_idem _ _ _ _ E). reflexivity.
Qed.

(** ---- administrative lookups ------------------------------------------------------------ *)
Lemma clear_target_general ops c name : build ops = Ok c ->
  clear_target V1 c name =
  Ok (if beq name [] || beq name s_default then dflt_owner ops else own ops name).
Proof.
  intros H. unfold clear_target. destruct name as [|x name].
  - cbn [beq orb]. apply get_default_owner. exact H.
  - change (beq (x :: name) []) with false. cbn [orb]. destruct (beq (x :: name) s_default);
      [apply get_default_owner | apply get_host_owner]; exact H.
Qed.

(** ---- the hosts [clear_response_caches] / [clear_file_caches] walk over ------------------------
    The map as a list: every key occurs once, and a [Host] value sits under its own name. *)
Definition uniq (m : hmap) : Prop := forall k v, In (k, v) m -> hm_get k m = Some v.
Definition hostkeys (m : hmap) : Prop := forall k h, In (k, HHost h) m -> k = hname h.

Lemma hm_get_in k v m : hm_get k m = Some v -> In (k, v) m.
Proof.
  induction m as [|[k0 v0] m IH]; cbn [hm_get]; [discriminate|].
  destruct (beq k0 k) eqn:E.
  - intros Hv. inversion Hv; subst. apply beq_eq in E. subst. left. reflexivity.
  - intros Hv. right. apply IH. exact Hv.
Qed.

Lemma in_remove k k' v m : In (k', v) (hm_remove k m) -> In (k', v) m /\ beq k k' = false.
Proof.
  induction m as [|[k0 v0] m IH]; cbn [hm_remove]; [intros []|].
  destruct (beq k0 k) eqn:E.
  - intros Hin. apply IH in Hin as [Hin Hb]. split; [right; exact Hin | exact Hb].
  - intros [Heq|Hin].
    + inversion Heq; subst. split; [left; reflexivity|]. rewrite beq_sym. exact E.
    + apply IH in Hin as [Hin Hb]. split; [right; exact Hin | exact Hb].
Qed.

Lemma uniq_insert k v m : uniq m -> uniq (hm_insert k v m).
Proof.
  intros Hu k' v' Hin. rewrite hm_get_insert. unfold hm_insert in Hin. destruct Hin as [Heq|Hin].
  - inversion Heq; subst. rewrite beq_refl. reflexivity.
  - apply in_remove in Hin as [Hin Hb]. rewrite beq_sym, Hb. apply Hu. exact Hin.
Qed.

Lemma hostkeys_insert k v m : (forall h, v = HHost h -> k = hname h) -> hostkeys m -> hostkeys (hm_insert k v m).
Proof.
  intros Hv Hk k' h Hin. unfold hm_insert in Hin. destruct Hin as [Heq|Hin].
  - inversion Heq; subst. apply Hv. reflexivity.
  - apply in_remove in Hin as [Hin _]. apply (Hk _ _ Hin).
Qed.

Lemma inv_insert_alts name alts : forall m, uniq m /\ hostkeys m -> uniq (insert_alts name alts m) /\ hostkeys (insert_alts name alts m).
Proof.
  unfold insert_alts. induction alts as [|a alts IH]; intros m Hm; cbn [fold_left]; [exact Hm|].
  apply IH. destruct Hm as [Hu Hk]. split; [apply uniq_insert; exact Hu|].
  apply hostkeys_insert; [intros h E; discriminate | exact Hk].
Qed.

Lemma inv_insert_maps hs : forall id m, uniq m /\ hostkeys m -> uniq (insert_maps id hs m) /\ hostkeys (insert_maps id hs m).
Proof.
  induction hs as [|h rest IH]; intros id m Hm; cbn [insert_maps]; [exact Hm|].
  apply IH. unfold insert_map.
  destruct (inv_insert_alts (h_name h) (h_alts h) m Hm) as [Hu Hk].
  split; [apply uniq_insert; exact Hu|].
  apply hostkeys_insert; [|exact Hk]. intros h0 E. inversion E. reflexivity.
Qed.

Lemma built_map_inv ops c : build ops = Ok c -> uniq (c_by_name c) /\ hostkeys (c_by_name c).
Proof.
  intros H. apply build_from_ok in H as [Hm _]. cbn [empty_collection c_by_name] in Hm. rewrite Hm.
  apply inv_insert_maps. split; intros k v [].
Qed.

(** a host that owns its own name is stored under it *)
Lemma owner_own_stored hs : forall id m n r,
  owner id hs n = Some r -> hname r = n -> hm_get n (insert_maps id hs m) = Some (HHost r).
Proof.
  induction hs as [|h rest IH]; intros id m n r Ho Hn; cbn [owner insert_maps] in *; [discriminate|].
  destruct (owner (S id) rest n) as [r'|] eqn:E.
  - inversion Ho; subst r'. apply IH; [exact E | exact Hn].
  - destruct (named n h) eqn:Hnamed; [|discriminate].
    destruct (owner (S id) rest (h_name h)) as [r'|] eqn:E2.
    + exfalso. inversion Ho; subst r'.
      destruct (owner_is_host _ _ _ _ E2) as [h0 [_ [Hnth Hname]]].
      rewrite owner_none_iff in E. specialize (E h0 (nth_error_In _ _ Hnth)).
      rewrite <- Hn, Hname, named_own in E. discriminate.
    + inversion Ho; subst r. cbn [hname] in Hn. subst n.
      destruct (resolve_insert_maps rest (S id) (insert_map id h m) (h_name h)) as [_ H2].
      rewrite (H2 E), get_insert_map, beq_refl. reflexivity.
Qed.

Lemma stored_hosts_in c h : hostkeys (c_by_name c) ->
  In h (stored_hosts c) <-> In (hname h, HHost h) (c_by_name c).
Proof.
  intros Hk. unfold stored_hosts. rewrite in_flat_map. split.
  - intros [[k v] [Hin Hh]]. cbn [snd] in Hh. destruct v as [h'|r]; [|destruct Hh].
    destruct Hh as [->|[]]. rewrite <- (Hk _ _ Hin). exact Hin.
  - intros Hin. exists (hname h, HHost h). split; [exact Hin | left; reflexivity].
Qed.

(** [clear_response_caches(filter)] reaches exactly the hosts the specification names *)
Lemma clear_all_targets_spec ops c flt i : build ops = Ok c ->
  existsb (fun h => Nat.eqb (hid h) i) (clear_all_targets c flt) = cleared_by_all ops flt i.
Proof.
  intros H. destruct (built_map_inv _ _ H) as [Hu Hk].
  pose proof (build_from_ok _ _ _ _ H) as [Hm _]. cbn [empty_collection c_by_name] in Hm.
  apply Bool.eq_iff_eq_true. rewrite existsb_exists. unfold clear_all_targets, cleared_by_all. split.
  - intros [h [Hin Hi]]. apply filter_In in Hin as [Hin Hf]. apply Nat.eqb_eq in Hi.
    apply (stored_hosts_in _ _ Hk) in Hin. apply Hu in Hin.
    assert (Hown : own ops (hname h) = Some h).
    { pose proof (get_host_owner _ _ (hname h) H) as Hg. unfold get_host in Hg.
      rewrite (resolve_host _ _ _ _ Hin) in Hg. inversion Hg. reflexivity. }
    destruct (owner_is_host _ _ _ _ Hown) as [hc [_ [Hnth Hname]]]. rewrite Nat.sub_0_r, Hi in Hnth.
    fold (hosts_of ops). rewrite Hnth. rewrite <- Hname. fold (own ops (hname h)). rewrite Hown.
    rewrite Hf, Hi, Nat.eqb_refl. reflexivity.
  - fold (hosts_of ops). destruct (nth_error (hosts_of ops) i) as [hc|] eqn:Hnth; [|discriminate].
    intros Hb. apply andb_prop in Hb as [Hf Ho].
    fold (own ops (h_name hc)) in Ho. destruct (own ops (h_name hc)) as [r|] eqn:Hown; [|discriminate].
    apply Nat.eqb_eq in Ho.
    destruct (owner_is_host _ _ _ _ Hown) as [h0 [_ [Hnth0 Hname]]]. rewrite Nat.sub_0_r, Ho, Hnth in Hnth0.
    inversion Hnth0; subst h0.
    exists r. split; [|apply Nat.eqb_eq; exact Ho].
    apply filter_In. split.
    + apply (stored_hosts_in _ _ Hk). apply hm_get_in. rewrite Hm, Hname.
      apply owner_own_stored; [exact Hown | exact Hname].
    + rewrite Hname. exact Hf.
Qed.

Lemma clear_all_targets_members ops c flt i : build ops = Ok c ->
  In i (map hid (clear_all_targets c flt)) <-> cleared_by_all ops flt i = true.
Proof.
  intros H. rewrite <- (clear_all_targets_spec _ _ _ _ H), existsb_exists, in_map_iff. split.
  - intros [h [Hi Hin]]. exists h. split; [exact Hin | apply Nat.eqb_eq; exact Hi].
  - intros [h [Hin Hi]]. exists h. split; [apply Nat.eqb_eq; exact Hi | exact Hin].
Qed.

(** [clear_page] / [clear_file]: the host the specification names *)
Lemma clear_target_reference ops c name : build ops = Ok c ->
  omap hid (clear_target V1 c name) = Ok (clear_reference ops name).
Proof.
  intros H. rewrite (clear_target_general _ _ _ H). unfold clear_reference, is_default_name, dflt_owner, own, hosts_of.
  cbn [omap]. destruct (beq name [] || beq name s_default); [|reflexivity].
  destruct (default_index O ops) as [d|]; [|reflexivity].
  destruct (nth_error (map snd ops) d); reflexivity.
Qed.

(** ---- refutations of the snapshot (V0) ------------------------------------------------------ *)
Definition cfg (name : bytes) (alts : list bytes) : hostcfg := {| h_name := name; h_alts := alts |}.

Definition chain_ops : list op :=
  [ (false, cfg (B "a.test") [B "x.test"]); (false, cfg (B "b.test") [B "a.test"]) ].

Lemma alias_chain_v0_refuted :
  exists ops c hh, build ops = Ok c /\ get_from_request V0 c None hh = Panic.
Proof. exists chain_ops. eexists. exists [B "x.test"]. split; vm_compute; reflexivity. Qed.

Lemma alias_chain_v1 :
  exists c, build chain_ops = Ok c /\
            omap hid (get_from_request V1 c None [B "x.test"]) = Ok (Some 1%nat).
Proof. eexists. split; vm_compute; reflexivity. Qed.

Lemma ipv6_loopback_v0_refuted :
  exists ops c hh, build ops = Ok c /\ no_overlap (hosts_of ops) /\
    omap hid (get_from_request V0 c None hh) = Ok None /\
    reference (hosts_of ops) (default_index O ops) None (hd_error hh) = Some O.
Proof.
  exists [(false, cfg (B "a.test") [])]. eexists. exists [B "[::1]:8080"].
  split; [vm_compute; reflexivity|]. split; [|split; vm_compute; reflexivity].
  cbn. split; [intros n h' _ []|exact I].
Qed.

(** ---- the multi-host server ------------------------------------------------------------------- *)
Section Frame.
  Variables (St Req Rep Adm : Type).
  Variable serve : nat -> St -> Req -> St * Rep.
  Variable admin : Adm -> St -> St.
  Variable route : Req -> option nat.
  Variable targets : Adm -> nat -> bool.
  Variable refuse : Rep.

  Notation rstep := (rstep St Req Rep serve route refuse).
  Notation mstep := (mstep St Req Rep Adm serve admin route targets refuse).
  Notation mrun := (mrun St Req Rep Adm serve admin route targets refuse).
  Notation sstep := (sstep St Req Rep Adm serve admin).
  Notation srun := (srun St Req Rep Adm serve admin).
  Notation concerns := (concerns Req Adm route targets).
  Notation replies_for := (replies_for Req Rep Adm route targets).

  (** A request routed to host [i] leaves every other component untouched ... *)
  Lemma request_frame st r i : route r = Some i ->
    forall j, j <> i -> fst (rstep st r) j = st j.
  Proof.
    intros Hr j Hj. unfold Hosts.rstep. rewrite Hr.
    destruct (serve i (st i) r) as [s' rep]. cbn [fst upd].
    destruct (Nat.eqb_spec j i); [contradiction | reflexivity].
  Qed.

  (** ... and its reply and the new component [i] are those of host [i]'s own [serve] on
      component [i]: functions of component [i] only. *)
  Lemma request_local st r i : route r = Some i ->
    snd (rstep st r) = snd (serve i (st i) r) /\ fst (rstep st r) i = fst (serve i (st i) r).
  Proof.
    intros Hr. unfold Hosts.rstep. rewrite Hr.
    destruct (serve i (st i) r) as [s' rep]. cbn [fst snd upd].
    rewrite Nat.eqb_refl. split; reflexivity.
  Qed.

  (** A refused request changes nothing. *)
  Lemma refused_frame st r : route r = None -> rstep st r = (st, refuse).
  Proof. intros Hr. unfold Hosts.rstep. rewrite Hr. reflexivity. Qed.

  Lemma host_frame_lemma st r i : route r = Some i ->
    (forall j, j <> i -> fst (rstep st r) j = st j) /\
    (forall st', st' i = st i ->
       snd (rstep st' r) = snd (rstep st r) /\ fst (rstep st' r) i = fst (rstep st r) i).
  Proof.
    intros Hr. split; [apply request_frame; exact Hr|].
    intros st' Hs.
    destruct (request_local st r i Hr) as [A1 A2].
    destruct (request_local st' r i Hr) as [B1 B2].
    rewrite A1, A2, B1, B2, Hs. split; reflexivity.
  Qed.

  (** An event that does not concern host [i] leaves component [i] untouched. *)
  Lemma unconcerned_frame st e i : concerns i e = false -> fst (mstep st e) i = st i.
  Proof.
    destruct e as [r|a]; cbn [Hosts.concerns Hosts.mstep].
    - unfold Hosts.rstep. destruct (route r) as [j|]; [|reflexivity].
      intros Hj. destruct (serve j (st j) r) as [s' rep]. cbn [fst upd].
      rewrite Nat.eqb_sym, Hj. reflexivity.
    - intros Ht. cbn [fst]. rewrite Ht. reflexivity.
  Qed.

  (** An event that concerns host [i] acts on component [i] as host [i] alone would. *)
  Lemma concerned_step st e i : concerns i e = true ->
    fst (mstep st e) i = fst (sstep i (st i) e) /\ snd (mstep st e) = snd (sstep i (st i) e).
  Proof.
    destruct e as [r|a]; cbn [Hosts.concerns Hosts.mstep Hosts.sstep].
    - unfold Hosts.rstep. destruct (route r) as [j|]; [|discriminate].
      intros Hj. apply Nat.eqb_eq in Hj. subst j.
      destruct (serve i (st i) r) as [s' rep]. cbn [fst snd upd]. rewrite Nat.eqb_refl. split; reflexivity.
    - intros Ht. cbn [fst snd]. rewrite Ht. split; reflexivity.
  Qed.

  (** For every history: component [i] of the whole server, and every reply to an event that
      concerns host [i], are those of host [i] running alone on the events that concern it. *)
  Lemma history_projection es : forall st i,
    fst (mrun st es) i = fst (srun i (st i) (filter (concerns i) es)) /\
    replies_for i es (snd (mrun st es)) = snd (srun i (st i) (filter (concerns i) es)).
  Proof.
    induction es as [|e es IH]; intros st i; cbn [Hosts.mrun filter Hosts.srun Hosts.replies_for].
    - split; reflexivity.
    - destruct (mstep st e) as [st1 rep] eqn:E1.
      destruct (mrun st1 es) as [st2 reps] eqn:E2.
      specialize (IH st1 i). rewrite E2 in IH. cbn [fst snd] in IH |- *.
      destruct (concerns i e) eqn:Hc.
      + destruct (concerned_step st e i Hc) as [H1 H2]. rewrite E1 in H1, H2. cbn [fst snd] in H1, H2.
        cbn [Hosts.srun].
        destruct (sstep i (st i) e) as [s1 srep] eqn:E3. cbn [fst snd] in H1, H2. subst srep.
        rewrite H1 in IH.
        destruct (srun i s1 (filter (concerns i) es)) as [s2 sreps]. cbn [fst snd] in IH |- *.
        destruct IH as [IH1 IH2]. split; [exact IH1 | rewrite IH2; reflexivity].
      + pose proof (unconcerned_frame st e i Hc) as H1. rewrite E1 in H1. cbn [fst] in H1.
        rewrite H1 in IH. exact IH.
  Qed.

  (** Consequence: two histories with the same events for host [i] give host [i] the same
      state and the same replies, whatever else happened on the server. *)
  Lemma history_independence es es' st st' i :
    st i = st' i -> filter (concerns i) es = filter (concerns i) es' ->
    fst (mrun st es) i = fst (mrun st' es') i /\
    replies_for i es (snd (mrun st es)) = replies_for i es' (snd (mrun st' es')).
  Proof.
    intros Hs Hf.
    destruct (history_projection es st i) as [A1 A2].
    destruct (history_projection es' st' i) as [B1 B2].
    rewrite A1, A2, B1, B2, Hs, Hf. split; reflexivity.
  Qed.
End Frame.

(** ---- [handle_connection]'s step is the multi-host step with the reference resolver ------------ *)
Lemma server_step_spec (St P Rep : Type) (serve : nat -> St -> P -> St * Rep) (refuse : Rep)
      ops c (st : nat -> St) (r : srequest P) :
  build ops = Ok c ->
  server_step St P Rep serve refuse V1 c st r =
  Ok (rstep St (srequest P) Rep (spec_serve St P Rep serve) (spec_route P ops) refuse st r).
Proof.
  intros H. destruct r as [[sni hh] p]. unfold server_step, rstep, spec_route, spec_serve.
  rewrite (choose_host_general _ _ _ _ H), <- route_general_reference.
  destruct (route_general ops sni (hd_error hh)) as [h|]; cbn [option_map snd]; [|reflexivity].
  destruct (serve (hid h) (st (hid h)) p) as [s' rep]. reflexivity.
Qed.

(** ---- lookups by the authority of the URI ------------------------------------------------------ *)
Definition is_text (a : bytes) : Prop := hv_to_str a = Some a.

Lemma hv_to_str_some hv h : hv_to_str hv = Some h -> h = hv /\ is_text hv.
Proof.
  unfold is_text, hv_to_str. destruct (forallb hv_visible hv); [|discriminate].
  intros E. inversion E. split; reflexivity.
Qed.

Lemma requested_name_text sni a : is_text a ->
  requested_name sni (Some a) = match sni with Some s => Some s | None => Some a end.
Proof.
  intros Ht. unfold requested_name. destruct sni; [reflexivity|].
  unfold is_text in Ht. rewrite hv_to_str_spec in Ht.
  destruct (forallb (fun c => ((32 <=? c) && (c <=? 126)) || (c =? 9)) a); [reflexivity | discriminate].
Qed.

Lemma first_some_none {A} (a : option A) : first_some a None = a.
Proof. destruct a; reflexivity. Qed.

Lemma get_from_request_is_uri b v c sni hh : get_from_request v c sni hh = get_from_request_uri b v c sni hh None.
Proof.
  unfold get_from_request, get_from_request_uri, text_hd.
  replace (if b then @None bytes else None) with (@None bytes) by (destruct b; reflexivity).
  rewrite first_some_none. reflexivity.
Qed.

Lemma get_option_or_default_general ops c name : build ops = Ok c ->
  get_option_or_default V1 c name = Ok (route_general ops name None).
Proof.
  intros H. destruct name as [n|]; cbn [get_option_or_default]; unfold route_general, requested_name.
  - apply get_or_default_general. exact H.
  - apply get_default_owner. exact H.
Qed.

(** the name [get_from_request] looks up, when header and authority (if any) are text *)
Lemma requested_name_uri sni hh authority : (forall a, authority = Some a -> is_text a) ->
  requested_name sni (first_some (text_hd hh) authority)
  = match sni with Some s => Some s | None => first_some (text_hd hh) authority end.
Proof.
  intros Ha. destruct sni as [s|]; [reflexivity|].
  destruct (text_hd hh) as [h|] eqn:E; cbn [first_some].
  - unfold text_hd in E. destruct hh as [|hv hh]; [discriminate|].
    apply hv_to_str_some in E as [-> Ht]. apply (requested_name_text None). exact Ht.
  - destruct authority as [a|]; [|reflexivity]. apply (requested_name_text None). apply Ha. reflexivity.
Qed.

Lemma get_from_request_uri_general ops c sni hh authority : build ops = Ok c ->
  (forall a, authority = Some a -> is_text a) ->
  get_from_request_uri true V1 c sni hh authority = Ok (route_general ops sni (first_some (text_hd hh) authority)).
Proof.
  intros H Ha. unfold get_from_request_uri, route_general. rewrite (requested_name_uri sni hh authority Ha).
  destruct (match sni with Some s => Some s | None => first_some (text_hd hh) authority end) as [n|];
    cbn [get_option_or_default].
  - apply get_or_default_general. exact H.
  - apply get_default_owner. exact H.
Qed.

Lemma choose_host_uri_general ops c sni hh authority : build ops = Ok c ->
  (forall a, authority = Some a -> is_text a) ->
  choose_host_uri true V1 c sni hh authority =
  Ok (match route_general ops sni (first_some (text_hd hh) authority) with Some r => ServeWith r | None => Refuse409 end).
Proof.
  intros H Ha. unfold choose_host_uri. rewrite (get_from_request_uri_general _ _ _ _ _ H Ha).
  destruct (route_general ops sni (first_some (text_hd hh) authority)) as [r|] eqn:E; [|reflexivity].
  rewrite (get_host_owner _ _ _ H), (route_general_idem _ _ _ _ E). reflexivity.
Qed.

(** whatever the authority of the URI is: the choice never fails *)
Lemma choose_host_uri_total ops c b sni hh authority : build ops = Ok c ->
  exists ch, choose_host_uri b V1 c sni hh authority = Ok ch.
Proof.
  intros H. unfold choose_host_uri, get_from_request_uri.
  rewrite (get_option_or_default_general _ _ _ H).
  destruct (route_general ops _ None) as [r|] eqn:E; [|eexists; reflexivity].
  rewrite (get_host_owner _ _ _ H), (route_general_idem _ _ _ _ E). eexists; reflexivity.
Qed.

(** the text filter of the reference is idempotent *)
Lemma requested_name_text_hd sni hh : requested_name sni (text_hd hh) = requested_name sni (hd_error hh).
Proof.
  unfold requested_name. destruct sni; [reflexivity|].
  destruct hh as [|hv hh]; [reflexivity|]. cbn [text_hd hd_error]. rewrite hv_to_str_spec.
  destruct (forallb (fun c => ((32 <=? c) && (c <=? 126)) || (c =? 9)) hv) eqn:E; [rewrite E|]; reflexivity.
Qed.

Lemma route_general_text_hd ops sni hh : route_general ops sni (text_hd hh) = route_general ops sni (hd_error hh).
Proof. unfold route_general. rewrite requested_name_text_hd. reflexivity. Qed.

(** the default host's name is owned by somebody (at least by the default host itself) *)
Lemma default_name_owned ops c d : build ops = Ok c -> c_default c = Some d ->
  exists r, own ops d = Some r /\ dflt_owner ops = Some r.
Proof.
  intros H Hd.
  pose proof (build_from_ok _ _ _ _ H) as [_ [_ [_ Hdf]]].
  unfold default_name in Hdf. cbn [empty_collection c_default] in Hdf. rewrite Hd in Hdf.
  unfold dflt_owner.
  destruct (default_index O ops) as [di|] eqn:E; [|discriminate].
  rewrite Nat.sub_0_r in Hdf.
  destruct (nth_error (hosts_of ops) di) as [h|] eqn:En; [|discriminate].
  cbn [option_map] in Hdf. inversion Hdf; subst d.
  destruct (own ops (h_name h)) as [r|] eqn:Eo; [exists r; split; reflexivity|].
  exfalso. unfold own in Eo. rewrite owner_none_iff in Eo.
  specialize (Eo h (nth_error_In _ _ En)). rewrite named_own in Eo. discriminate.
Qed.

Lemma route_general_default_name ops c sni d : build ops = Ok c -> c_default c = Some d -> is_text d ->
  route_general ops sni (Some d) = route_general ops sni None.
Proof.
  intros H Hd Ht. unfold route_general. rewrite (requested_name_text sni d Ht).
  destruct sni as [s|]; [reflexivity|]. cbn [requested_name].
  destruct (default_name_owned _ _ _ H Hd) as [r [Ho Hdo]]. rewrite Ho, Hdo. reflexivity.
Qed.

(** ---- the histories over loopback connections ---------------------------------------------------- *)
Section WireProofs.
  Variable auth_ok : bytes -> bool.
  (** what is used of [http::uri::Authority::try_from]: it accepts only text (visible ASCII) *)
  Hypothesis auth_text : forall h, auth_ok h = true -> is_text h.

  (** a request the clients of the harness can send: origin-form target; the [:authority] of an HTTP/2 request is text *)
  Definition wf_wreq (r : wreq) : Prop :=
    starts_with [47] (w_path r) = true /\ forall a, w_tr r = TR_H2 -> w_authority r = Some a -> is_text a.

  (** After the repairs every HTTP/1.x request is accepted, and what [get_from_request] makes of its header
      and URI is what the reference makes of its last Host line. *)
  Lemma h1_accept_fixed ops c hh target sni : build ops = Ok c -> starts_with [47] target = true ->
    exists authority, h1_accept auth_ok fixed c hh target = Some (wire_hosts hh, authority) /\
      (forall a, authority = Some a -> is_text a) /\
      route_general ops sni (first_some (text_hd (wire_hosts hh)) authority)
      = route_general ops sni (hd_error (wire_hosts hh)).
  Proof.
    intros H Hof. unfold h1_accept. cbn [fixed fx_nohost fx_authority]. rewrite Hof. cbn [andb].
    destruct (wire_hosts hh) as [|h l] eqn:Ew.
    - destruct (c_default c) as [d|] eqn:Hd.
      + destruct (auth_ok d) eqn:Ea.
        * exists (Some d). split; [reflexivity|]. split; [intros a E; inversion E; subst; apply auth_text; exact Ea|].
          cbn [text_hd first_some hd_error]. apply (route_general_default_name _ _ _ _ H Hd). apply auth_text. exact Ea.
        * exists None. split; [reflexivity|]. split; [discriminate|]. reflexivity.
      + exists None. split; [reflexivity|]. split; [discriminate|]. reflexivity.
    - assert (Hl : l = []).
      { unfold wire_hosts in Ew. destruct (rev hh); inversion Ew; reflexivity. }
      subst l.
      destruct (auth_ok h) eqn:Ea.
      + exists (Some h). split; [reflexivity|]. split; [intros a E; inversion E; subst; apply auth_text; exact Ea|].
        pose proof (auth_text _ Ea) as Ht. cbn [text_hd]. rewrite Ht. cbn [first_some].
        rewrite <- route_general_text_hd. cbn [text_hd]. rewrite Ht. reflexivity.
      + exists None. split; [reflexivity|]. split; [discriminate|].
        rewrite first_some_none. apply route_general_text_hd.
  Qed.

  Lemma tls_accepts_spec ops c sni : build ops = Ok c ->
    tls_accepts c sni = match reference_general ops sni None with Some _ => true | None => false end.
  Proof.
    intros H. unfold tls_accepts. rewrite (get_option_or_default_general _ _ _ H), <- route_general_reference.
    destruct (route_general ops sni None); reflexivity.
  Qed.

  Lemma wire_request_spec ops c st r : build ops = Ok c -> wf_wreq r -> tls_refused ops r = false ->
    wire_request auth_ok fixed c st r
    = Ok (rstep hstate wreq wire_reply wire_serve (wire_route ops) W409 st r).
  Proof.
    intros H Hwf Hnr. unfold wire_request.
    rewrite (tls_accepts_spec _ _ _ H). unfold tls_refused in Hnr.
    assert (Hgo : (w_tls r && negb match reference_general ops (w_sni r) None with Some _ => true | None => false end) = false).
    { destruct (w_tls r); [|reflexivity]. cbn [andb] in *.
      destruct (reference_general ops (w_sni r) None); [reflexivity | discriminate]. }
    rewrite Hgo. clear Hgo Hnr.
    assert (Hserve : forall hh authority, (forall a, authority = Some a -> is_text a) ->
              route_general ops (w_conn_sni r) (first_some (text_hd hh) authority)
              = route_general ops (w_conn_sni r) (wire_host_header r) ->
              match choose_host_uri (fx_h2auth fixed) V1 c (w_conn_sni r) hh authority with
              | Panic => Panic
              | Err e => Err e
              | Ok Refuse409 => Ok (st, W409)
              | Ok (ServeWith h) =>
                  let i := hid h in
                  let (s', rep) := marker_serve i (st i) (w_method r) (w_path r) (w_flags r) in Ok (upd st i s', rep)
              end = Ok (rstep hstate wreq wire_reply wire_serve (wire_route ops) W409 st r)).
    { intros hh authority Ha Hroute. cbn [fixed fx_h2auth].
      rewrite (choose_host_uri_general _ _ _ _ _ H Ha), Hroute.
      unfold rstep, wire_route, wire_serve. rewrite <- route_general_reference.
      destruct (route_general ops (w_conn_sni r) (wire_host_header r)) as [h|]; cbn [option_map]; [|reflexivity].
      destruct (marker_serve (hid h) (st (hid h)) (w_method r) (w_path r) (w_flags r)) as [s' rep]. reflexivity. }
    destruct (w_tr r =? TR_H2) eqn:Etr.
    - apply Hserve.
      + intros a Ea. apply (proj2 Hwf); [apply N.eqb_eq; exact Etr | exact Ea].
      + unfold wire_host_header. rewrite Etr. reflexivity.
    - destruct (h1_accept_fixed ops c (w_hosts r) (w_path r) (w_conn_sni r) H (proj1 Hwf)) as [authority [Hacc [Ha Hroute]]].
      rewrite Hacc. apply Hserve; [exact Ha|].
      rewrite Hroute. unfold wire_host_header. rewrite Etr. reflexivity.
  Qed.

  (** The histories of the correspondence: the model of the (repaired) code equals the specification
      server, for every history none of whose TLS connections is refused during the handshake. *)
  Lemma wire_history_spec ops c : build ops = Ok c ->
    forall reqs st,
    Forall (fun r => wf_wreq r /\ tls_refused ops r = false) reqs ->
    wire_history auth_ok fixed c st reqs = map Ok (wire_spec ops st reqs).
  Proof.
    intros H. induction reqs as [|r rest IH]; intros st Hall; [reflexivity|].
    inversion Hall as [|x l [Hwf Hr] Hrest]; subst.
    cbn [wire_history wire_spec].
    rewrite (wire_request_spec _ _ st r H Hwf Hr).
    destruct (rstep hstate wreq wire_reply wire_serve (wire_route ops) W409 st r) as [st' rep].
    cbn [map]. rewrite (IH st' Hrest). reflexivity.
  Qed.

  (** A TLS connection whose handshake is refused: nothing is sent, no state changes. *)
  Lemma wire_request_refused ops c st r fx : build ops = Ok c -> tls_refused ops r = true ->
    wire_request auth_ok fx c st r = Ok (st, WNoTls).
  Proof.
    intros H Hr. unfold wire_request. rewrite (tls_accepts_spec _ _ _ H). unfold tls_refused in Hr.
    destruct (w_tls r); [|discriminate]. cbn [andb] in *.
    destruct (reference_general ops (w_sni r) None); [discriminate | reflexivity].
  Qed.

  (** With a default host every lookup finds a host. *)
  Lemma route_general_with_default ops sni hdr d : dflt_owner ops = Some d -> route_general ops sni hdr <> None.
  Proof.
    intros Hd. unfold route_general. destruct (requested_name sni hdr) as [n|]; [|rewrite Hd; discriminate].
    destruct (own ops n); [discriminate|]. cbn [first_some].
    destruct (match without_dot n with Some n' => own ops n' | None => None end); [discriminate|]. cbn [first_some].
    rewrite Hd. discriminate.
  Qed.

  (** Over TLS a request is never answered with 409: whenever the handshake succeeds, the lookup that chose
      the certificate has found a host, and the lookup for the request finds one, too. *)
  Lemma wire_tls_no_409 ops c st r st' : build ops = Ok c -> wf_wreq r -> w_tls r = true ->
    wire_request auth_ok fixed c st r <> Ok (st', W409).
  Proof.
    intros H Hwf Htls.
    destruct (tls_refused ops r) eqn:Hr.
    - rewrite (wire_request_refused _ _ _ _ _ H Hr). intros E. inversion E.
    - rewrite (wire_request_spec _ _ st r H Hwf Hr). unfold rstep, wire_route, wire_serve.
      rewrite <- route_general_reference.
      assert (Hsome : route_general ops (w_conn_sni r) (wire_host_header r) <> None).
      { unfold tls_refused in Hr. rewrite Htls in Hr. cbn [andb] in Hr.
        unfold w_conn_sni. rewrite Htls.
        rewrite <- route_general_reference in Hr.
        destruct (route_general ops (w_sni r) None) as [h0|] eqn:E0; [|discriminate].
        destruct (w_sni r) as [s|].
        - unfold route_general in *. cbn [requested_name] in *. rewrite E0. discriminate.
        - unfold route_general in E0. cbn [requested_name] in E0.
          apply (route_general_with_default _ _ _ _ E0). }
      destruct (route_general ops (w_conn_sni r) (wire_host_header r)) as [h|]; [|contradiction Hsome; reflexivity].
      cbn [option_map]. unfold marker_serve.
      destruct (negb (starts_with [47; 104] (w_path r))); [intros E; inversion E|].
      destruct (if get_or_head_b (w_method r) then cache_get (path_only (w_path r)) (hs_cache (st (hid h))) else None).
      + destruct (N.testbit (w_flags r) FL_IMS_FUTURE); intros E; inversion E.
      + intros E; inversion E.
  Qed.
End WireProofs.

(** The replies of the repaired code do not depend on what exactly [Authority::try_from] accepts
    (as long as it accepts only text): the executable model may use any such stand-in. *)
Lemma wire_request_auth_irrelevant (auth1 auth2 : bytes -> bool) ops c st r :
  (forall h, auth1 h = true -> is_text h) -> (forall h, auth2 h = true -> is_text h) ->
  build ops = Ok c -> wf_wreq r ->
  wire_request auth1 fixed c st r = wire_request auth2 fixed c st r.
Proof.
  intros H1 H2 H Hwf. destruct (tls_refused ops r) eqn:Hr.
  - rewrite !(wire_request_refused _ _ _ _ _ _ H Hr). reflexivity.
  - rewrite (wire_request_spec auth1 H1 _ _ st r H Hwf Hr), (wire_request_spec auth2 H2 _ _ st r H Hwf Hr). reflexivity.
Qed.

(** When the client sent an SNI, neither Host header nor [:authority] matter. *)
Lemma wire_route_sni ops r s : w_tls r = true -> w_sni r = Some s ->
  wire_route ops r = reference_general ops (Some s) None.
Proof.
  intros Ht Hs. unfold wire_route, w_conn_sni. rewrite Ht, Hs.
  unfold reference_general, requested_name. reflexivity.
Qed.

(** ---- isolation on these histories: an instance of the frame theorem ------------------------- *)
Definition wire_events (reqs : list wreq) : list (event wreq unit) := map ERequest reqs.
Definition wire_routed_to (ops : list op) (i : nat) (r : wreq) : bool :=
  match wire_route ops r with Some j => Nat.eqb j i | None => false end.
Notation wire_mrun ops := (mrun hstate wreq wire_reply unit wire_serve (fun _ s => s) (wire_route ops) (fun _ _ => false) W409).
(** the replies to the requests of the history that were routed to host [i] *)
Definition wire_replies_for (ops : list op) (i : nat) (reqs : list wreq) (reps : list wire_reply) : list (option wire_reply) :=
  replies_for wreq wire_reply unit (wire_route ops) (fun _ _ => false) i (wire_events reqs) (map Some reps).

Lemma wire_spec_mrun ops reqs : forall st,
  map Some (wire_spec ops st reqs) = snd (wire_mrun ops st (wire_events reqs)).
Proof.
  induction reqs as [|r rest IH]; intros st; [reflexivity|].
  cbn [wire_events map wire_spec mrun mstep].
  destruct (rstep hstate wreq wire_reply wire_serve (wire_route ops) W409 st r) as [st' rep].
  specialize (IH st'). unfold wire_events in IH.
  destruct (mrun hstate wreq wire_reply unit wire_serve (fun _ s => s) (wire_route ops) (fun _ _ => false) W409 st' (map ERequest rest)) as [st2 reps].
  cbn [snd map] in *. rewrite IH. reflexivity.
Qed.

Lemma wire_events_filter ops i reqs :
  filter (concerns wreq unit (wire_route ops) (fun _ _ => false) i) (wire_events reqs)
  = wire_events (filter (wire_routed_to ops i) reqs).
Proof.
  induction reqs as [|r rest IH]; [reflexivity|].
  cbn [wire_events map filter concerns]. unfold wire_routed_to at 1.
  destruct (match wire_route ops r with Some j => Nat.eqb j i | None => false end); cbn [map];
    unfold wire_events in IH; rewrite IH; reflexivity.
Qed.

(** Two histories with the same requests for host [i] — whatever else was asked of the other hosts, over
    whichever connections — give the same replies to these requests. *)
Lemma wire_isolation_lemma ops reqs reqs' st st' i :
  st i = st' i ->
  filter (wire_routed_to ops i) reqs = filter (wire_routed_to ops i) reqs' ->
  wire_replies_for ops i reqs (wire_spec ops st reqs) = wire_replies_for ops i reqs' (wire_spec ops st' reqs').
Proof.
  intros Hs Hf. unfold wire_replies_for. rewrite !wire_spec_mrun.
  apply (history_independence hstate wreq wire_reply unit wire_serve (fun _ s => s) (wire_route ops) (fun _ _ => false) W409).
  - exact Hs.
  - rewrite !wire_events_filter, Hf. reflexivity.
Qed.

Lemma choose_host_reference ops c sni hh : build ops = Ok c ->
  exists ch, choose_host V1 c sni hh = Ok ch /\
    match ch with
    | Refuse409 => reference_general ops sni (hd_error hh) = None
    | ServeWith h => reference_general ops sni (hd_error hh) = Some (hid h)
    end.
Proof.
  intros H. rewrite (choose_host_general _ _ _ _ H), <- route_general_reference.
  destruct (route_general ops sni (hd_error hh)) as [h|]; eexists; split; reflexivity.
Qed.

Lemma builder_outcome ops :
  ((count_defaults ops <= 1)%nat -> exists c, build ops = Ok c) /\
  ((2 <= count_defaults ops)%nat -> build ops = Panic).
Proof. split; [apply build_succeeds | apply build_panics]. Qed.

(** ---- concurrent clients: any interleaving ----------------------------------------------------
    A merged history [m]: the requests of one client (tag [true]) interleaved in any way with the
    requests of all the others (tag [false]).  If no other request is routed to a host one of the
    client's requests is routed to, the client gets the replies it would get alone. *)
Fixpoint tagged_replies (m : list (bool * wreq)) (reps : list wire_reply) : list wire_reply :=
  match m, reps with
  | (true, _) :: m', r :: reps' => r :: tagged_replies m' reps'
  | (false, _) :: m', _ :: reps' => tagged_replies m' reps'
  | _, _ => []
  end.
Definition mine (m : list (bool * wreq)) : list wreq := map snd (filter (fun x => fst x) m).
Definition others (m : list (bool * wreq)) : list wreq := map snd (filter (fun x => negb (fst x)) m).

Lemma touches_cons ops r l i :
  wire_touches ops (r :: l) i = (match wire_route ops r with Some j => Nat.eqb j i | None => false end) || wire_touches ops l i.
Proof. reflexivity. Qed.
Lemma mine_true r m : mine ((true, r) :: m) = r :: mine m. Proof. reflexivity. Qed.
Lemma mine_false r m : mine ((false, r) :: m) = mine m. Proof. reflexivity. Qed.
Lemma others_true r m : others ((true, r) :: m) = others m. Proof. reflexivity. Qed.
Lemma others_false r m : others ((false, r) :: m) = r :: others m. Proof. reflexivity. Qed.

Lemma concurrent_client ops : forall (m : list (bool * wreq)) (st st' : nat -> hstate),
  (forall i, wire_touches ops (mine m) i = true -> wire_touches ops (others m) i = false) ->
  (forall i, wire_touches ops (mine m) i = true -> st i = st' i) ->
  tagged_replies m (wire_spec ops st (map snd m)) = wire_spec ops st' (mine m).
Proof.
  induction m as [|[tag r] m IH]; intros st st' Hdis Hst; [reflexivity|].
  destruct tag.
  - (* a request of the client *)
    rewrite mine_true, others_true in *. cbn [map snd wire_spec]. unfold rstep.
    assert (Htail : forall j, wire_touches ops (mine m) j = true -> wire_touches ops (r :: mine m) j = true).
    { intros j Hj. rewrite touches_cons, Hj. apply orb_true_r. }
    destruct (wire_route ops r) as [i|] eqn:Er.
    + assert (Hi : st i = st' i).
      { apply Hst. rewrite touches_cons, Er, Nat.eqb_refl. reflexivity. }
      rewrite <- Hi. destruct (wire_serve i (st i) r) as [s' rep]. cbn [tagged_replies]. f_equal.
      apply IH.
      * intros j Hj. apply Hdis, Htail, Hj.
      * intros j Hj. cbn [upd]. destruct (Nat.eqb j i); [reflexivity|]. apply Hst, Htail, Hj.
    + cbn [tagged_replies]. f_equal. apply IH.
      * intros j Hj. apply Hdis, Htail, Hj.
      * intros j Hj. apply Hst, Htail, Hj.
  - (* a request of somebody else *)
    rewrite mine_false, others_false in *. cbn [map snd wire_spec]. unfold rstep.
    assert (Hd : forall i, wire_touches ops (mine m) i = true ->
                  match wire_route ops r with Some j => Nat.eqb j i | None => false end = false /\ wire_touches ops (others m) i = false).
    { intros i Hi. specialize (Hdis i Hi). rewrite touches_cons in Hdis. apply orb_false_iff in Hdis. exact Hdis. }
    destruct (wire_route ops r) as [j|] eqn:Er.
    + destruct (wire_serve j (st j) r) as [s' rep]. cbn [tagged_replies].
      apply IH.
      * intros i Hi. apply (Hd i Hi).
      * intros i Hi. cbn [upd]. destruct (Hd i Hi) as [Hne _]. rewrite Nat.eqb_sym, Hne. apply Hst, Hi.
    + cbn [tagged_replies]. apply IH.
      * intros i Hi. apply (Hd i Hi).
      * exact Hst.
Qed.

(** the authority parser of the [http] crate, as transcribed for C07, accepts only text *)
Lemma auth_loop_all_uri rest : forall len i colons sb eb pct at_pos e,
  Http1Read.auth_loop len rest i colons sb eb pct at_pos = Some e -> e = (i + length rest)%nat ->
  forallb (fun b => Http1Read.uri_char b || (b =? 37)) rest = true.
Proof.
  induction rest as [|b r IH]; intros len i colons sb eb pct at_pos e H He; [reflexivity|].
  cbn [Http1Read.auth_loop] in H. cbn [forallb length] in *.
  destruct ((b =? 47) || (b =? 63) || (b =? 35)) eqn:Estop.
  - exfalso. unfold Http1Read.auth_finish in H.
    destruct (negb (Bool.eqb sb eb)); [discriminate|]. destruct (1 <? colons)%nat; [discriminate|].
    destruct ((0 <? i)%nat && (at_pos =? i - 1)%nat); [discriminate|]. destruct pct; [discriminate|].
    inversion H. lia.
  - destruct (Http1Read.uri_char b) eqn:Eu; cbn [negb orb] in *.
    + assert (Hr : forallb (fun b0 => Http1Read.uri_char b0 || (b0 =? 37)) r = true).
      { destruct (b =? 58); [destruct (8 <=? colons)%nat; [discriminate|]; eapply IH; [exact H | lia]|].
        destruct (b =? 91); [destruct (pct || sb); [discriminate|]; eapply IH; [exact H | lia]|].
        destruct (b =? 93); [destruct (negb sb || eb); [discriminate|]; eapply IH; [exact H | lia]|].
        destruct (b =? 64); eapply IH; try exact H; lia. }
      exact Hr.
    + destruct (b =? 37) eqn:E37; [|discriminate]. cbn [orb]. eapply IH; [exact H | lia].
Qed.

Lemma auth_ok_http_text h : auth_ok_http h = true -> is_text h.
Proof.
  unfold auth_ok_http, Http1Read.authority_ok, Http1Read.authority_end, is_text, hv_to_str.
  destruct h as [|c0 h0]; [discriminate|].
  destruct (Http1Read.auth_loop (length (c0 :: h0)) (c0 :: h0) 0 0 false false false (length (c0 :: h0))) as [e|] eqn:E; [|discriminate].
  intros He. apply Nat.eqb_eq in He.
  pose proof (auth_loop_all_uri _ _ _ _ _ _ _ _ _ E ltac:(cbn [Nat.add]; exact He)) as Hall.
  assert (Hv : forallb hv_visible (c0 :: h0) = true).
  { revert Hall. generalize (c0 :: h0). intros l. induction l as [|c l IH]; [reflexivity|].
    cbn [forallb]. intros Hc. apply andb_prop in Hc as [Hc Hl]. rewrite (IH Hl), andb_true_r.
    unfold Http1Read.uri_char in Hc. unfold hv_visible. lia. }
  rewrite Hv. reflexivity.
Qed.

(** hence, for the transcribed parser, without any hypothesis about it: *)
Lemma wire_history_spec_http ops c : build ops = Ok c ->
  forall reqs st,
  Forall (fun r => wf_wreq r /\ tls_refused ops r = false) reqs ->
  wire_history auth_ok_http fixed c st reqs = map Ok (wire_spec ops st reqs).
Proof. apply (wire_history_spec auth_ok_http auth_ok_http_text). Qed.

(** ---- refutations: the code before the repairs of this round, and what remains ----------------- *)
Definition ab_ops : list op := [ (false, cfg (B "a.test") []); (false, cfg (B "b.test") []) ].
Definition ab_default_ops : list op := [ (false, cfg (B "a.test") []); (true, cfg (B "b.test") []) ].
Definition get1 (tr : N) (sni : option bytes) (hh : list bytes) (authority : option bytes) : wreq :=
  mkW tr sni false s_GET hh authority (B "/h/page") 0.

(** before 2fb2d8c: a request without Host header is not answered when there is no default host *)
Lemma absent_host_closed_refuted : forall auth_ok : bytes -> bool,
  exists ops c r, build ops = Ok c /\
    wire_history auth_ok snapshot c (fun _ => hstate0) [r] = [Ok WClosed] /\
    wire_spec ops (fun _ => hstate0) [r] = [W409] /\
    wire_history auth_ok fixed c (fun _ => hstate0) [r] = [Ok W409].
Proof.
  intros auth_ok. exists ab_ops. eexists. exists (get1 TR_PLAIN None [] None).
  split; [vm_compute; reflexivity|]. split; [|split]; vm_compute; reflexivity.
Qed.

(** before cdbcb3a: a Host value that is not a URI authority closes the connection, also when there is a
    default host that the property names as the one to answer *)
Lemma bad_authority_closed_refuted : forall auth_ok : bytes -> bool, auth_ok (B "a b") = false ->
  exists ops c r, build ops = Ok c /\
    wire_history auth_ok (mkFixes true false false) c (fun _ => hstate0) [r] = [Ok WClosed] /\
    wire_spec ops (fun _ => hstate0) [r] = [W200 1 1] /\
    wire_history auth_ok fixed c (fun _ => hstate0) [r] = [Ok (W200 1 1)].
Proof.
  intros auth_ok Hbad. vm_compute in Hbad.
  exists ab_default_ops. eexists. exists (get1 TR_PLAIN None [B "a b"] None).
  split; [vm_compute; reflexivity|].
  split; [|split]; vm_compute; try rewrite Hbad; reflexivity.
Qed.

(** before fff35ad: an HTTP/2 request without SNI is answered by the default host whatever its :authority *)
Lemma h2_authority_ignored_refuted : forall auth_ok : bytes -> bool,
  exists ops c r, build ops = Ok c /\
    wire_history auth_ok (mkFixes true true false) c (fun _ => hstate0) [r] = [Ok (W200 1 1)] /\
    wire_spec ops (fun _ => hstate0) [r] = [W200 0 1] /\
    wire_history auth_ok fixed c (fun _ => hstate0) [r] = [Ok (W200 0 1)].
Proof.
  intros auth_ok. exists ab_default_ops. eexists. exists (get1 TR_H2 None [] (Some (B "a.test"))).
  split; [vm_compute; reflexivity|]. split; [|split]; vm_compute; reflexivity.
Qed.

(** today (known class tls-handshake-refused): over TLS the host of the certificate is chosen from the SNI
    alone.  (a) an unknown SNI without default host: the handshake is refused, no 409 is sent;
    (b) no SNI and no default host: refused although the Host header names a loopback name. *)
Lemma tls_handshake_refused_refuted : forall auth_ok : bytes -> bool,
  exists ops c ra rb, build ops = Ok c /\
    tls_refused ops ra = true /\ tls_refused ops rb = true /\
    wire_history auth_ok fixed c (fun _ => hstate0) [ra] = [Ok WNoTls] /\
    wire_spec ops (fun _ => hstate0) [ra] = [W409] /\
    wire_history auth_ok fixed c (fun _ => hstate0) [rb] = [Ok WNoTls] /\
    wire_spec ops (fun _ => hstate0) [rb] = [W200 0 1].
Proof.
  intros auth_ok. exists ab_ops. eexists.
  exists (get1 TR_TLS1 (Some (B "nobody.test")) [B "a.test"] None), (get1 TR_TLS1 None [B "localhost"] None).
  split; [vm_compute; reflexivity|]. repeat split; vm_compute; reflexivity.
Qed.
