(** C15 — proofs about Model/Hosts.v *)
From KV Require Import Bytes Hosts.
Open Scope N_scope.
